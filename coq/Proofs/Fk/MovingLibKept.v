(* C03, retention: the run of the Forkable model does not depend on keptFinalBlocks, also when the LIB moves
   and blocks really are purged.  Two runs that differ only in c_kept are related by: same LIB, head,
   lastLIBSeen; both stores are filters of one unpurged store, the filters keep every block at or above the
   LIB.  Every walk of ProcessBlock stays above the LIB, except the tail of ChainSwitchSegments' undo chain
   (cut off again) and stalledInSegment's scan (which filters heights above the old LIB). *)
From BV Require Import Base.Prelude Model.Block Model.ForkDB Model.Forkable Spec.Consumer Spec.Universe
  Spec.C04_Spec Spec.C04_Moving_Spec Spec.C03_Spec
  Proofs.Fk.StoreFacts Proofs.Fk.WalkFacts Proofs.Fk.LoopFacts Proofs.Fk.StoreChange Proofs.Fk.SwitchFacts
  Proofs.Fk.FixedLib Proofs.Fk.FixedLibEvents Proofs.Fk.MovingLibStore Proofs.Fk.MovingLibWalk
  Proofs.Fk.MovingLibLoops Proofs.Fk.MovingLibInv Proofs.Fk.MovingLibEvents.
Local Open Scope N_scope.

(* scss_link_j (FixedLibEvents.v) with the canonicity of the split exposed: no block of the redo part is on
   the old head's chain *)
Lemma scss_link_x d lib hd np pH pP : wf_store (store d) -> lib <> 0 -> hd <> np ->
  chain (store d) hd lib pH -> chain (store d) np lib pP ->
  (forall f t e, undo_chain f d lib = Some (lib :: t) -> In e pP -> ~ In (key e) t) ->
  exists C R Uh,
    pP = C ++ R /\ pH = C ++ Uh /\ (forall e, In e R -> ~ In (key e) (keys pH)) /\
    sent_chain_switch_segments d hd np =
      ScssOk (rev Uh) (filter esent R)
        (match Uh with
         | [] => None
         | _ :: _ => match rev C with
                     | ej :: _ => Some (bref (eb ej))
                     | [] => match find lib (store d) with
                             | Some e => Some (mkR lib (bnum (eb e)))
                             | None => None
                             end
                     end
         end).
Proof.
  intros Hwf Hlib0 Hne HH HP Htail.
  destruct (meet _ _ _ _ Hwf HH np pP HP) as (C & R & j & HeqP & HR & Hdis & Hj).
  destruct (undo_chain_chain d Hwf _ _ _ HH Hlib0 (fuel_of d) (enough_fuel_of d hd)) as [t Ht].
  destruct (undo_tail d Hwf _ _ _ HH Hlib0 _ _ Ht) as [f0 Hf0].
  assert (Hj0 : j <> 0).
  { destruct Hj as [[_ ->]|(C0 & ej & Uh & HC & Hk & HpH)]; [exact Hlib0|].
    rewrite <- Hk. apply (ws_id _ Hwf ej). eapply chain_in; [exact HH|]. rewrite HpH, HC.
    apply in_or_app. left. apply in_or_app. right. left. reflexivity. }
  assert (Hsplit : exists Uh rest, pH = C ++ Uh /\ rev (map key pH) ++ lib :: t = rev (map key Uh) ++ j :: rest /\ ~ In j (rev (map key Uh))).
  { destruct Hj as [[-> ->]|(C0 & ej & Uh & -> & Hk & HpH)].
    - exists pH, t. repeat split. intros Hin. apply in_rev in Hin. apply in_map_iff in Hin as (e & Hke & Hin).
      exact (chain_not_bottom _ _ _ _ HH e Hin Hke).
    - exists Uh, (rev (map key C0) ++ lib :: t). split; [exact HpH|]. split.
      + rewrite HpH, !map_app, !rev_app_distr. cbn [map rev app]. rewrite Hk, <- !app_assoc. cbn [app]. reflexivity.
      + intros Hin. apply in_rev in Hin.
        pose proof (chain_nodup _ _ _ _ Hwf HH) as Hnd. rewrite HpH in Hnd. unfold keys in Hnd. rewrite map_app in Hnd.
        refine (nodup_app_disj _ _ j Hnd _ Hin). rewrite map_app. apply in_or_app. right. left. exact Hk. }
  destruct Hsplit as (Uh & rest & HpH & Huc & Hjn).
  exists C, R, Uh.
  unfold sent_chain_switch_segments. destruct (N.eqb_spec hd np) as [E|_]; [contradiction|].
  unfold chain_switch_segments. rewrite Ht.
  assert (Hredo : redo_chain (fuel_of d) d (rev (map key pH) ++ lib :: t) np [] = Some (Some (map key R ++ [], j))).
  { apply redo_chain_chain; [exact Hwf | exact HR | exact Hj0 | | | apply enough_fuel_of].
    - intros e He. destruct (memN (key e) (rev (map key pH) ++ lib :: t)) eqn:M; [|reflexivity].
      exfalso. apply memN_in in M. apply in_app_or in M as [M|[M|M]].
      + apply in_rev in M. apply (proj1 (Hdis e He)). exact M.
      + apply (proj2 (Hdis e He)). symmetry. exact M.
      + apply (Htail f0 t e Hf0); [rewrite HeqP; apply in_or_app; right; exact He | exact M].
    - apply memN_in. rewrite Huc. apply in_or_app. right. left. reflexivity. }
  rewrite Hredo, app_nil_r, Huc, (take_until_app j _ rest Hjn).
  assert (HinH : Forall (fun e => In e (store d)) (rev Uh)).
  { apply Forall_forall. intros e He. apply in_rev in He. eapply chain_in; [exact HH|]. rewrite HpH. apply in_or_app. right. exact He. }
  assert (HinR : Forall (fun e => In e (store d)) R).
  { apply Forall_forall. intros e He. eapply chain_in; [exact HP|]. rewrite HeqP. apply in_or_app. right. exact He. }
  rewrite <- map_rev.
  rewrite (scs_entries d false (rev Uh) (ws_nodup _ Hwf) HinH), (scs_entries d true R (ws_nodup _ Hwf) HinR).
  split; [exact HeqP|]. split; [exact HpH|]. split; [intros e He; exact (proj1 (Hdis e He))|].
  f_equal.
  - clear. induction (rev Uh) as [|e l IH]; cbn [filter]; [reflexivity|]. cbn. f_equal. exact IH.
  - clear. induction R as [|e l IH]; cbn [filter]; [reflexivity|]. destruct (esent e); cbn; [f_equal|]; exact IH.
  - (* the junction *)
    assert (Hnil : forall A (x : list A), match map key (rev Uh) with [] => x | _ :: _ => x end = x) by (intros; destruct (map key (rev Uh)); reflexivity).
    destruct Uh as [|u Uh'].
    + reflexivity.
    + assert (Hne2 : map key (rev (u :: Uh')) <> []).
      { cbn [rev]. rewrite map_app. destruct (map key (rev Uh')); discriminate. }
      destruct (map key (rev (u :: Uh'))) as [|k0 ks] eqn:Ek; [congruence|].
      unfold block_for_id.
      destruct Hj as [[-> ->]|(C0 & ej & U2 & -> & Hk & HpH2)].
      * cbn [rev]. destruct (find lib (store d)) as [e|] eqn:F; reflexivity.
      * rewrite rev_app_distr. cbn [rev app].
        assert (Hej : In ej (store d)).
        { eapply chain_in; [exact HH|]. rewrite HpH. apply in_or_app. left. apply in_or_app. right. left. reflexivity. }
        rewrite <- Hk, (find_in_nodup _ _ (ws_nodup _ Hwf) Hej). reflexivity.
Qed.
(* ---------------------------------------------------------------- small list facts *)

(* the split of a list into a sent part followed by an unsent part is unique *)
Lemma sent_split_unique : forall (Rs Ru Rs' Ru' : list entry),
  Rs ++ Ru = Rs' ++ Ru' ->
  Forall (fun e => esent e = true) Rs -> Forall (fun e => esent e = false) Ru ->
  Forall (fun e => esent e = true) Rs' -> Forall (fun e => esent e = false) Ru' ->
  Rs = Rs' /\ Ru = Ru'.
Proof.
  induction Rs as [|x Rs IH]; intros Ru Rs' Ru' E H1 H2 H3 H4.
  - destruct Rs' as [|y Rs']; [split; [reflexivity | exact E]|].
    cbn [app] in E. subst Ru. pose proof (Forall_inv H2) as A. pose proof (Forall_inv H3) as B. cbn beta in *. congruence.
  - destruct Rs' as [|y Rs'].
    + cbn [app] in E. subst Ru'. pose proof (Forall_inv H4) as A. pose proof (Forall_inv H1) as B. cbn beta in *. congruence.
    + cbn [app] in E. injection E as -> E.
      destruct (IH Ru Rs' Ru' E (Forall_inv_tail H1) H2 (Forall_inv_tail H3) H4) as [-> ->]. split; reflexivity.
Qed.

(* the split of the new chain pP and the old chain pH at their common prefix is unique, given that the
   remainder of pP avoids pH *)
Lemma meet_unique : forall (C C' R R' Uh Uh' : list entry) (pH : list entry),
  C ++ R = C' ++ R' -> pH = C ++ Uh -> pH = C' ++ Uh' ->
  (forall e, In e R -> ~ In (key e) (keys pH)) -> (forall e, In e R' -> ~ In (key e) (keys pH)) ->
  C = C' /\ R = R' /\ Uh = Uh'.
Proof.
  induction C as [|x C IH]; intros C' R R' Uh Uh' pH E H1 H2 D D'.
  - destruct C' as [|y C'].
    + cbn [app] in *. subst. auto.
    + exfalso. cbn [app] in E. subst R. apply (D y (or_introl eq_refl)). rewrite H2. unfold keys. cbn [app map]. left. reflexivity.
  - destruct C' as [|y C'].
    + exfalso. cbn [app] in E. subst R'. apply (D' x (or_introl eq_refl)). rewrite H1. unfold keys. cbn [app map]. left. reflexivity.
    + cbn [app] in E. injection E as -> E. rewrite H1 in H2. cbn [app] in H2. injection H2 as H2.
      destruct (IH C' R R' Uh Uh' (C ++ Uh) E eq_refl H2) as (-> & -> & ->).
      * intros e He Hin. apply (D e He). rewrite H1. unfold keys in *. cbn [app map]. right. exact Hin.
      * intros e He Hin. apply (D' e He). rewrite H1. unfold keys in *. cbn [app map]. right. exact Hin.
      * auto.
Qed.

(* ---------------------------------------------------------------- normal forms of one ProcessBlock call *)

Section KeptForms.
  Variable U : list block.
  Variable r0 : ref.
  Variable cfg : config.

  Hypothesis Hnofail : c_fail_at cfg = None.
  Hypothesis Hnew : f_new (c_filter cfg) = true.
  Hypothesis Hundo : f_undo (c_filter cfg) = true.

  Hypothesis U_id : forall b, In b U -> bid b <> 0 /\ bid b <> bparent b.
  Hypothesis U_uniq : forall x y, In x U -> In y U -> bid x = bid y -> x = y.
  Hypothesis U_up : forall x y, In x U -> In y U -> bparent x = bid y -> bnum y < bnum x.
  Hypothesis L_id : ri r0 <> 0.
  Hypothesis L_num : forall y, In y U -> bid y = ri r0 -> bnum y = rn r0.
  Hypothesis L_up : forall x, In x U -> bparent x = ri r0 -> rn r0 < bnum x.
  Hypothesis L_decl : forall b, In b U -> decl_ok U r0 b.

  Notation first := (c_first cfg).
  Notation in_U := (in_U U).
  Notation Inv := (Inv U r0 cfg).
  Notation DbInv := (DbInv U r0).
  Notation lib_tail := (lib_tail cfg).
  Notation incl_first := (incl_first cfg).

  (* the inclusive first delivery *)
  Lemma root_form s Fin S b : Inv s Fin S -> Ext s Fin -> In b U -> dropped s b = false -> incl_first s b = true ->
    exists s2,
      fk_step cfg s b = (s2, new_evs r0 b [] [b] ++ late_evs b r0 (if f_irr (c_filter cfg) then [b] else []) [], ROk) /\
      db s2 = new_db (db s) b /\ last_sent s2 = Some b /\ last_lib_seen s2 = r0 /\
      Fin = [] /\ S = [] /\ libref (db s) = r0 /\ last_sent s = None /\ find (bid b) (store (db s)) = None /\
      Inv s2 [b] [b] /\ Ext s2 [b].
  Proof.
    intros HI HX Hb Hd Hinc0. pose proof HI as [Hdb Hfin Hflast Hh]. pose proof Hinc0 as Hinc.
    unfold MovingLibInv.incl_first in Hinc. apply andb_true_iff in Hinc as [Hinc Hid]. apply andb_true_iff in Hinc as [Hci Hls].
    destruct (last_sent s) as [hd|] eqn:Els; [discriminate|]. destruct Hh as (-> & -> & Hall & Hroot).
    cbn [rev] in Hflast. apply N.eqb_eq in Hid. rewrite Hflast in Hid.
    specialize (Hroot Hci).
    assert (Hf : find (bid b) (store (db s)) = None) by (rewrite Hid; exact Hroot).
    assert (Hk : ~ In (bid b) (keys (store (db s)))) by (apply find_none; exact Hf).
    destruct (U_id b Hb) as (H1 & H3).
    pose proof (x_cur _ _ HX) as Hcur.
    unfold fk_step. destruct (N.eqb_spec (bid b) (bparent b)); [contradiction|].
    unfold dropped in Hd. rewrite Els in *. rewrite Hd, Hci, Hflast.
    replace (bid b =? ri r0) with true by (symmetry; apply N.eqb_eq; exact Hid). cbn [andb].
    rewrite (add_link_new U U_id _ _ Hb Hf). cbn [fst].
    pose proof (dbinv_add U r0 _ _ Hdb Hb Hf) as Hdb1.
    set (s1 := with_db s (new_db (db s) b)).
    assert (Hcur1 : cursor_lib s1 = r0) by (rewrite <- Hflast, <- Hcur; reflexivity).
    unfold process_initial_inclusive. rewrite Hnew, (call_ok cfg Hnofail). cbv beta iota zeta.
    set (tiny := mkSeg (bid b) (bnum b) (mkEntry b false)).
    set (ev := mkEv SNew b (seg_ref tiny) (seg_ref tiny) (cursor_lib s1) None 0 0).
    set (s1' := mkFS (db (mkFS (db s1) (last_sent s1) (last_lib_seen s1) (ncalls s1 + 1))) (Some b)
                     (last_lib_seen (mkFS (db s1) (last_sent s1) (last_lib_seen s1) (ncalls s1 + 1)))
                     (ncalls (mkFS (db s1) (last_sent s1) (last_lib_seen s1) (ncalls s1 + 1)))).
    destruct (process_irr_segment_ev cfg Hnofail [tiny] tiny [] (bref b) s1' eq_refl)
      as (s2 & Hrun & Hdb2 & Hls2 & Hlls2).
    rewrite Hrun. cbv beta iota.
    assert (Hdbs2 : db s2 = new_db (db s) b) by (rewrite Hdb2; reflexivity).
    assert (Hlast2 : last_sent s2 = Some b) by (rewrite Hls2; reflexivity).
    assert (Hbr : bref b = r0).
    { unfold bref. rewrite Hid, (L_num b Hb Hid). destruct r0; reflexivity. }
    assert (Hl2 : last_lib_seen s2 = r0) by (rewrite Hlls2, <- Hbr; reflexivity).
    exists s2.
    split.
    { unfold new_evs, late_evs, ev. rewrite Hcur1. cbn [seg_ref tiny sid snum].
      fold (bref b). destruct (f_irr (c_filter cfg)); reflexivity. }
    split; [exact Hdbs2|]. split; [exact Hlast2|]. split; [exact Hl2|].
    split; [reflexivity|]. split; [reflexivity|]. split; [reflexivity|]. split; [reflexivity|]. split; [exact Hf|].
    split.
    { constructor; rewrite ?Hdbs2; cbn [new_db libref store app].
      - exact Hdb1.
      - constructor; [|constructor]. split; [exact Hb|]. rewrite Hflast, (L_num b Hb Hid). lia.
      - cbn [rev app]. rewrite Hflast. exact Hid.
      - rewrite Hlast2. split; [exact Hb|]. exists []. rewrite Hflast, Hid. split; [constructor|].
        split; [reflexivity | constructor]. }
    constructor; rewrite ?Hdbs2; cbn [new_db libref store app].
    - rewrite Hflast. rewrite (cursor_not_empty s2); [exact Hl2|]. rewrite Hl2. exact L_id.
    - intros _. rewrite keys_snoc, Hflast. apply in_or_app. right. left. exact Hid.
  Qed.

  (* a block that is stored for the first time: either nothing is delivered, or process_tail runs on the chain
     of the block down to the LIB *)
  Lemma new_block_form s Fin S b : Inv s Fin S -> In b U -> dropped s b = false -> incl_first s b = false ->
    find (bid b) (store (db s)) = None ->
    (fk_step cfg s b = (with_db s (new_db (db s) b), [], ROk) /\
     (triggers cfg s b = false \/ ~ has_chain (store (db s) ++ [mkEntry b false]) (ri (libref (db s))) b)) \/
    (triggers cfg s b = true /\
     exists pP undos redos junc,
       chain (store (db s) ++ [mkEntry b false]) (bid b) (ri (libref (db s))) (pP ++ [mkEntry b false]) /\
       sw_of cfg s b = ScssOk undos redos junc /\
       fk_step cfg s b = process_tail cfg (with_db s (new_db (db s) b)) b undos redos junc
                                      (map seg_of (pP ++ [mkEntry b false])) None).
  Proof.
    intros HI Hb Hd Hni Hf.
    pose proof HI as [Hdb Hfin Hflast Hh]. pose proof Hdb as [Hnd HU Hcoh Hnum Hextra Hlc Hrt].
    pose proof (di_wf U r0 U_id U_up _ Hdb) as Hwf.
    pose proof (inv_add U r0 cfg s Fin S b HI Hb Hf Hni) as HI1.
    set (s1 := with_db s (new_db (db s) b)) in *.
    set (en := mkEntry b false).
    assert (Hk : ~ In (bid b) (keys (store (db s)))) by (apply find_none; exact Hf).
    assert (Hsw : exists u r j, sw_of cfg s b = ScssOk u r j).
    { unfold sw_of. destruct (f_undo (c_filter cfg) && triggers cfg s b); [|eauto].
      destruct (last_sent s) as [ls|]; [apply scss_total; exact Hwf | eauto]. }
    destruct Hsw as (undos & redos & junc & Hsw).
    rewrite (fk_step_new' U r0 cfg U_id s b undos redos junc Hdb Hb Hf Hd Hni Hsw). cbv zeta. fold s1.
    pose proof HI1 as [Hdb1 _ _ _]. pose proof Hdb1 as [Hnd1 HU1 _ Hnum1 _ _ _].
    pose proof (di_wf U r0 U_id U_up _ Hdb1) as Hwf1.
    change (new_db (db s) b) with (db s1).
    destruct (rs_total (db s1) first Hwf1 (fuel_of (db s1)) (bid b) (bnum b) [] (enough_fuel_of _ _)) as [[longest reach] Hrs].
    unfold reversible_segment. cbn [bref ri rn]. rewrite Hrs.
    assert (Hfb : find (bid b) (store (db s1)) = Some en).
    { unfold s1. cbn [with_db db new_db store]. apply (find_snoc_new (store (db s)) en). exact Hk. }
    destruct (negb (triggers cfg s b) || match longest with [] => true | _ => false end) eqn:Hgo.
    { left. split; [reflexivity|].
      apply orb_true_iff in Hgo as [Hgo|Hgo]; [left; apply negb_true_iff; exact Hgo|].
      right. intros [pP HcP]. change (chain (store (db s1)) (bid b) (ri (libref (db s1))) (pP ++ [en])) in HcP.
      pose proof (rs_chain_lib (db s1) first Hwf1 (di_lid U r0 _ Hdb1) Hnum1 (di_up U r0 _ Hdb1) (bid b) (pP ++ [en]) en HcP Hfb) as Hr.
      unfold reversible_segment in Hr. cbn [ri rn eb en] in Hr. rewrite Hrs in Hr.
      assert (Hne : pP ++ [en] <> []) by (destruct pP; discriminate). specialize (Hr Hne).
      destruct longest; [|discriminate]. injection Hr as Hr _. rewrite map_app in Hr. destruct (map seg_of pP); discriminate. }
    apply orb_false_iff in Hgo as [Htr Hlong]. apply negb_false_iff in Htr.
    right. split; [exact Htr|].
    assert (Hshape : exists pP, chain (store (db s1)) (bid b) (ri (libref (db s1))) (pP ++ [en]) /\ longest = map seg_of (pP ++ [en])).
    { destruct reach.
      - apply rs_sound in Hrs.
        2:{ intros e' He'. rewrite Hfb in He'. injection He' as <-. reflexivity. }
        destruct Hrs as (p & Hc & Hp & _). rewrite app_nil_r in Hp.
        destruct p as [|e' p' _] using rev_ind.
        + subst longest. discriminate.
        + destruct (chain_top _ _ _ _ _ Hc) as [Hf' _]. rewrite Hfb in Hf'. injection Hf' as <-.
          exists p'. auto.
      - apply (rs_false_nil cfg (db s1) (di_has_lib U r0 _ Hdb1)) in Hrs. subst longest. discriminate. }
    destruct Hshape as (pP & Hc & ->).
    exists pP, undos, redos, junc. split; [exact Hc|]. split; [exact Hsw | reflexivity].
  Qed.

  (* the triggering step up to the LIB half, with the canonical split of the chains *)
  Lemma trigger_form s Fin S b pP undos redos junc :
    Inv s Fin S -> Ext s Fin -> In b U -> find (bid b) (store (db s)) = None -> incl_first s b = false ->
    triggers cfg s b = true ->
    chain (store (db s) ++ [mkEntry b false]) (bid b) (ri (libref (db s))) (pP ++ [mkEntry b false]) ->
    sw_of cfg s b = ScssOk undos redos junc ->
    exists pH C Rs Ru Uh s3,
      match last_sent s with
      | Some hd => chain (store (db s)) (bid hd) (ri (libref (db s))) pH
      | None => pH = []
      end /\
      pP = C ++ Rs ++ Ru /\ pH = C ++ Uh /\
      (forall e, In e (Rs ++ Ru) -> ~ In (key e) (keys pH)) /\
      Forall (fun e => esent e = true) Rs /\ Forall (fun e => esent e = false) Ru /\
      S = rev (Fin ++ map eb pH) /\
      process_tail cfg (with_db s (new_db (db s) b)) b undos redos junc (map seg_of (pP ++ [mkEntry b false])) None =
        lib_tail s3 b
          (undo_evs (libref (db s)) b (junction_of r0 (lib_stored r0 s) (rev (map eb Uh)) (rev (Fin ++ map eb C))) (rev (map eb Uh)) ++
           new_evs (libref (db s)) b (map eb Rs) (map eb (Ru ++ [mkEntry b false]))) None /\
      apply_all (ri r0) S
          (undo_evs (libref (db s)) b (junction_of r0 (lib_stored r0 s) (rev (map eb Uh)) (rev (Fin ++ map eb C))) (rev (map eb Uh)) ++
           new_evs (libref (db s)) b (map eb Rs) (map eb (Ru ++ [mkEntry b false])))
        = Some (rev (Fin ++ map eb (pP ++ [mkEntry b false]))) /\
      Inv s3 Fin (rev (Fin ++ map eb (pP ++ [mkEntry b false]))) /\
      store (db s3) = mark_all (store (db s) ++ [mkEntry b false]) (unsent (map seg_of (pP ++ [mkEntry b false]))) /\
      extra (db s3) = extra (db s) /\ libref (db s3) = libref (db s) /\ last_sent s3 = Some b /\
      last_lib_seen s3 = last_lib_seen s.
  Proof.
    intros HI HX Hb Hf Hni Htr Hc Hsw.
    pose proof HI as [Hdb Hfin Hflast Hh]. pose proof Hdb as [Hnd HU Hcoh Hnum Hextra Hlc Hrt].
    pose proof (di_wf U r0 U_id U_up _ Hdb) as Hwf.
    pose proof (inv_add U r0 cfg s Fin S b HI Hb Hf Hni) as HI1.
    set (s1 := with_db s (new_db (db s) b)) in *.
    set (en := mkEntry b false) in *.
    assert (Hk : ~ In (bid b) (keys (store (db s)))) by (apply find_none; exact Hf).
    assert (Hcur1 : cursor_lib s1 = libref (db s)) by exact (x_cur _ _ HX).
    pose proof HI1 as [Hdb1 _ _ _].
    pose proof (di_wf U r0 U_id U_up _ Hdb1) as Hwf1.
    change (chain (store (db s1)) (bid b) (ri (libref (db s1))) (pP ++ [en])) in Hc.
    destruct (chain_snoc_inv _ _ _ _ _ Hc) as (Hne1 & _ & HcP). cbn [eb en] in HcP.
    assert (Hnin : ~ In en pP).
    { pose proof (chain_nodup _ _ _ _ Hwf1 Hc) as Hn. unfold keys in Hn. rewrite map_app in Hn.
      intros Hin. refine (nodup_app_disj _ _ (key en) Hn _ _); [apply in_map; exact Hin | left; reflexivity]. }
    assert (HcP0 : chain (store (db s)) (bparent b) (ri (libref (db s))) pP).
    { apply (chain_restrict (store (db s)) en); assumption. }
    unfold sw_of in Hsw. rewrite Hundo, Htr in Hsw. cbn [andb] in Hsw.
    destruct (last_sent s) as [hd|] eqn:Hls.
    - destruct Hh as (HhU & pH & HcH & HS & HsH).
      destruct (N.eq_dec (bid hd) (bparent b)) as [Heq|Hneq].
      + unfold sent_chain_switch_segments in Hsw. rewrite Heq, N.eqb_refl in Hsw. injection Hsw as <- <- <-.
        rewrite Heq in HcH. pose proof (chain_det _ _ _ _ _ HcH HcP0) as ->.
        destruct (trigger_first_ev U r0 cfg Hnofail Hnew Hundo U_id U_uniq U_up L_id L_num L_up L_decl
                    s1 Fin S b pP pP [] [] None None HI1 Hb Hc) as
          (s3 & Rs & Ru & HR & Hrun & Happ & HI3 & Hk3 & Hls3 & Hlr3 & Hlls3 & HRs & HRu & Hst3 & Hex3).
        * rewrite app_nil_r. reflexivity.
        * exact HsH.
        * rewrite app_nil_r. exact HS.
        * destruct Rs; [|discriminate]. destruct Ru; [|discriminate].
          exists pP, pP, [], [], [], s3. rewrite Hcur1 in *. cbn [rev filter map] in Hrun, Happ |- *. fold en in Hrun, Happ.
          split; [rewrite Heq; exact HcP0|].
          split; [rewrite app_nil_r; reflexivity|]. split; [rewrite app_nil_r; reflexivity|].
          split; [intros e []|]. split; [constructor|]. split; [constructor|]. split; [exact HS|].
          split; [exact Hrun|]. split; [exact Happ|]. split; [exact HI3|]. split; [exact Hst3|].
          split; [exact Hex3|]. split; [exact Hlr3|]. split; [exact Hls3 | exact Hlls3].
      + destruct (scss_link_x (db s) _ (bid hd) (bparent b) pH pP Hwf (di_lid U r0 _ Hdb) Hneq HcH HcP0) as (C & R & Uh & HP & HH & Hdis & Hsc).
        { intros f t e0 Hu He0. exact (tail_disjoint' U r0 cfg U_id U_up L_id (db s) pP (bparent b) Hdb HcP0 f t e0 Hu He0). }
        rewrite Hsc in Hsw. injection Hsw as <- <- Hjunc.
        rewrite (junction_moving U r0 cfg U_uniq L_id L_num L_up L_decl s Fin S C Uh HI HX) in Hjunc.
        destruct (trigger_first_ev U r0 cfg Hnofail Hnew Hundo U_id U_uniq U_up L_id L_num L_up L_decl
                    s1 Fin S b pP C R Uh junc None HI1 Hb Hc HP) as
          (s3 & Rs & Ru & HR & Hrun & Happ & HI3 & Hk3 & Hls3 & Hlr3 & Hlls3 & HRs & HRu & Hst3 & Hex3).
        * rewrite HH in HsH. apply Forall_app in HsH. tauto.
        * rewrite HS, HH. reflexivity.
        * exists pH, C, Rs, Ru, Uh, s3. rewrite Hcur1, <- Hjunc in *. fold en in Hrun, Happ.
          split; [exact HcH|]. split; [rewrite HP, HR; reflexivity|]. split; [exact HH|].
          split; [rewrite <- HR; exact Hdis|]. split; [exact HRs|]. split; [exact HRu|]. split; [exact HS|].
          split; [exact Hrun|]. split; [exact Happ|]. split; [exact HI3|]. split; [exact Hst3|].
          split; [exact Hex3|]. split; [exact Hlr3|]. split; [exact Hls3 | exact Hlls3].
    - injection Hsw as <- <- <-. destruct Hh as (-> & -> & Hall & _).
      assert (Hfil : filter esent pP = []).
      { assert (G : forall x, In x pP -> esent x = false).
        { intros x Hx. apply Hall. eapply chain_in; [exact HcP0 | exact Hx]. }
        clear -G. induction pP as [|h t IHt]; cbn [filter]; [reflexivity|].
        rewrite (G h (or_introl eq_refl)). apply IHt. intros x Hx. apply G. right. exact Hx. }
      destruct (trigger_first_ev U r0 cfg Hnofail Hnew Hundo U_id U_uniq U_up L_id L_num L_up L_decl
                  s1 [] [] b pP [] pP [] None None HI1 Hb Hc eq_refl (Forall_nil _) eq_refl) as
        (s3 & Rs & Ru & HR & Hrun & Happ & HI3 & Hk3 & Hls3 & Hlr3 & Hlls3 & HRs & HRu & Hst3 & Hex3).
      cbn [rev] in Hrun. rewrite Hfil in Hrun. fold en in Hrun, Happ.
      exists [], [], Rs, Ru, [], s3. rewrite Hcur1 in *. cbn [rev map app] in Hrun, Happ |- *.
      split; [reflexivity|]. split; [exact HR|]. split; [reflexivity|].
      split; [intros e _ []|]. split; [exact HRs|]. split; [exact HRu|]. split; [reflexivity|].
      split; [exact Hrun|]. split; [exact Happ|]. split; [exact HI3|]. split; [exact Hst3|].
      split; [exact Hex3|]. split; [exact Hlr3|]. split; [exact Hls3 | exact Hlls3].
  Qed.
End KeptForms.

(* ---------------------------------------------------------------- stores that are filters of one unpurged store *)

Definition fil (f : block -> bool) (l : list entry) : list entry := filter (fun e => f (eb e)) l.

Lemma fil_snoc f l en : f (eb en) = true -> fil f (l ++ [en]) = fil f l ++ [en].
Proof. intros H. unfold fil. rewrite filter_app. cbn [filter]. rewrite H. reflexivity. Qed.

Lemma filter_fil (p : entry -> bool) f l : filter p (fil f l) = filter (fun e => f (eb e) && p e) l.
Proof.
  unfold fil. induction l as [|e l IH]; cbn [filter]; [reflexivity|].
  destruct (f (eb e)); cbn [filter andb]; [destruct (p e); rewrite IH; reflexivity | exact IH].
Qed.

Lemma filter_sub (p q : entry -> bool) l : (forall e, In e l -> p e = true -> q e = true) ->
  filter p (filter q l) = filter p l.
Proof.
  induction l as [|e l IH]; intros H; cbn [filter]; [reflexivity|].
  destruct (q e) eqn:Q; cbn [filter].
  - destruct (p e); rewrite IH; auto; intros e0 He0; apply H; right; exact He0.
  - destruct (p e) eqn:P; [rewrite (H e (or_introl eq_refl) P) in Q; discriminate|].
    apply IH. intros e0 He0. apply H. right. exact He0.
Qed.

Lemma set_sent_absent id : forall l, ~ In id (keys l) -> set_sent id l = l.
Proof.
  induction l as [|e l IH]; intros H; cbn [set_sent]; [reflexivity|].
  destruct (N.eqb_spec (bid (eb e)) id) as [E|E]; [exfalso; apply H; left; exact E|].
  rewrite IH; [reflexivity|]. intros Hin. apply H. right. exact Hin.
Qed.

Lemma set_sent_fil f id : forall l, NoDup (keys l) -> set_sent id (fil f l) = fil f (set_sent id l).
Proof.
  induction l as [|e l IH]; intros Hnd; [reflexivity|].
  cbn [keys map] in Hnd. fold (keys l) in Hnd. inversion Hnd as [|? ? Hx Hnd']; subst.
  unfold fil in *. cbn [set_sent filter].
  destruct (N.eqb_spec (bid (eb e)) id) as [E|E].
  - cbn [filter eb]. destruct (f (eb e)) eqn:F.
    + cbn [set_sent]. rewrite E, N.eqb_refl. reflexivity.
    + apply set_sent_absent. intros Hin. apply in_filter_keys in Hin. apply Hx. unfold key. rewrite E. exact Hin.
  - cbn [filter]. destruct (f (eb e)) eqn:F.
    + cbn [set_sent]. destruct (N.eqb_spec (bid (eb e)) id); [contradiction|]. rewrite IH by exact Hnd'. reflexivity.
    + apply IH. exact Hnd'.
Qed.

Lemma mark_all_fil f : forall segs l, NoDup (keys l) -> mark_all (fil f l) segs = fil f (mark_all l segs).
Proof.
  induction segs as [|sg segs IH]; intros l Hnd; [reflexivity|]. unfold mark_all in *. cbn [fold_left].
  rewrite set_sent_fil by exact Hnd. apply IH. rewrite set_sent_keys. exact Hnd.
Qed.

Lemma chain_transfer l1 l2 : forall x y p, chain l1 x y p ->
  (forall id e, In e p -> find id l1 = Some e -> find id l2 = Some e) -> chain l2 x y p.
Proof.
  intros x y p Hc. induction Hc as [x|x y e p Hne Hf Hc IH]; intros H; [constructor|].
  apply (chain_cons l2 x y e p); [exact Hne | apply H; [apply in_or_app; right; left; reflexivity | exact Hf]|].
  apply IH. intros id e0 He0. apply H. apply in_or_app. left. exact He0.
Qed.

Lemma nodup_split_unique {A} : forall (A1 A2 B1 B2 : list A) a,
  NoDup (A1 ++ a :: B1) -> A1 ++ a :: B1 = A2 ++ a :: B2 -> A1 = A2 /\ B1 = B2.
Proof.
  induction A1 as [|x A1 IH]; intros A2 B1 B2 a Hnd E.
  - destruct A2 as [|y A2]; cbn [app] in *; [injection E as E; auto|].
    injection E as E1 E2. exfalso. apply NoDup_cons_iff in Hnd as [Hx _]. apply Hx. rewrite E2. apply in_or_app. right. left. reflexivity.
  - destruct A2 as [|y A2]; cbn [app] in *.
    + injection E as E1 E2. exfalso. apply NoDup_cons_iff in Hnd as [Hx _]. apply Hx. rewrite E1. apply in_or_app. right. left. reflexivity.
    + injection E as E1 E2. apply NoDup_cons_iff in Hnd as [_ Hnd'].
      destruct (IH A2 B1 B2 a Hnd' E2) as [-> ->]. subst y. auto.
Qed.

(* ---------------------------------------------------------------- two retention settings side by side *)

Section Kept.
  Variable U : list block.
  Variable r0 : ref.
  Variable cfg : config.
  Variable k : N.

  Hypothesis Hnofail : c_fail_at cfg = None.
  Hypothesis Hnew : f_new (c_filter cfg) = true.
  Hypothesis Hundo : f_undo (c_filter cfg) = true.

  Hypothesis U_id : forall b, In b U -> bid b <> 0 /\ bid b <> bparent b.
  Hypothesis U_uniq : forall x y, In x U -> In y U -> bid x = bid y -> x = y.
  Hypothesis U_up : forall x y, In x U -> In y U -> bparent x = bid y -> bnum y < bnum x.
  Hypothesis L_id : ri r0 <> 0.
  Hypothesis L_num : forall y, In y U -> bid y = ri r0 -> bnum y = rn r0.
  Hypothesis L_up : forall x, In x U -> bparent x = ri r0 -> rn r0 < bnum x.
  Hypothesis L_decl : forall b, In b U -> decl_ok U r0 b.

  Notation cfg' := (with_kept cfg k).
  Notation first := (c_first cfg).
  Notation in_U := (in_U U).
  Notation Inv := (Inv U r0 cfg).
  Notation Inv' := (MovingLibInv.Inv U r0 cfg').
  Notation DbInv := (DbInv U r0).

  Lemma inv_kept s Fin S : Inv s Fin S <-> Inv' s Fin S.
  Proof. split; intros [A B C D]; constructor; assumption. Qed.

  Record KRel (s1 s2 : fstate) : Prop := mkKRel {
    kr_lib : libref (db s1) = libref (db s2);
    kr_extra : extra (db s1) = extra (db s2);
    kr_last : last_sent s1 = last_sent s2;
    kr_lls : last_lib_seen s1 = last_lib_seen s2;
    kr_store : exists full f1 f2,
        NoDup (keys full) /\ in_U full /\
        store (db s1) = fil f1 full /\ store (db s2) = fil f2 full /\
        (forall x, rn (libref (db s1)) <= bnum x -> f1 x = true /\ f2 x = true) /\
        (last_sent s1 = None -> forall x, f1 x = true /\ f2 x = true)
  }.

  Lemma krel_sym s1 s2 : KRel s1 s2 -> KRel s2 s1.
  Proof.
    intros [A B C D (full & f1 & f2 & H1 & H2 & H3 & H4 & H5 & H6)].
    constructor; try (symmetry; assumption).
    exists full, f2, f1. split; [exact H1|]. split; [exact H2|]. split; [exact H4|]. split; [exact H3|].
    split; [intros x Hx; rewrite <- A in Hx; destruct (H5 x Hx); auto|].
    intros Hn x. rewrite <- C in Hn. destruct (H6 Hn x). auto.
  Qed.

  Lemma krel_init m : KRel (fs_init m) (fs_init m).
  Proof.
    constructor; try reflexivity. exists (store (db (fs_init m))), (fun _ => true), (fun _ => true).
    assert (E : store (db (fs_init m)) = []) by (destruct m; reflexivity). rewrite E.
    split; [constructor|]. split; [intros e []|]. split; [reflexivity|]. split; [reflexivity|]. auto.
  Qed.

  (* an entry at or above the LIB (or any entry before the first delivery) is in both stores *)
  Lemma krel_find s1 s2 id e : KRel s1 s2 -> find id (store (db s1)) = Some e ->
    last_sent s1 = None \/ rn (libref (db s1)) <= bnum (eb e) -> find id (store (db s2)) = Some e.
  Proof.
    intros [_ _ _ _ (full & f1 & f2 & Hnd & HU & E1 & E2 & Hab & Hno)] Hf Hc.
    rewrite E1 in Hf. unfold fil in *. rewrite (find_filter _ _ _ Hnd) in Hf. rewrite E2, (find_filter _ _ _ Hnd).
    destruct (find id full) as [e0|]; [|discriminate]. destruct (f1 (eb e0)) eqn:F1; [|discriminate].
    injection Hf as ->. destruct Hc as [Hc|Hc]; [destruct (Hno Hc (eb e)) as [_ ->] | destruct (Hab (eb e) Hc) as [_ ->]]; reflexivity.
  Qed.

  Lemma krel_find_none s1 s2 b : KRel s1 s2 -> in_U (store (db s2)) -> In b U -> dropped s1 b = false ->
    find (bid b) (store (db s1)) = None -> find (bid b) (store (db s2)) = None.
  Proof.
    intros HK HU2 Hb Hd Hf. destruct (find (bid b) (store (db s2))) as [e|] eqn:F; [|reflexivity]. exfalso.
    assert (He : eb e = b) by (apply (stored_is_self U U_uniq _ _ _ HU2 Hb F)).
    pose proof (krel_find s2 s1 _ _ (krel_sym _ _ HK) F) as G.
    rewrite Hf in G. assert (X : None = Some e); [|discriminate]. apply G.
    rewrite <- (kr_last _ _ HK), <- (kr_lib _ _ HK), He.
    unfold dropped in Hd. destruct (last_sent s1); [|left; reflexivity]. right. rewrite andb_true_r in Hd. lia.
  Qed.

  (* a chain that rests on the LIB is the same in both stores *)
  Lemma krel_chain s1 s2 x p : KRel s1 s2 -> DbInv (db s1) -> chain (store (db s1)) x (ri (libref (db s1))) p ->
    chain (store (db s2)) x (ri (libref (db s2))) p.
  Proof.
    intros HK Hd Hc. rewrite <- (kr_lib _ _ HK). apply (chain_transfer _ _ _ _ _ Hc).
    intros id e He Hf. apply (krel_find s1 s2 id e HK Hf). right.
    pose proof (di_above U r0 U_id U_up _ Hd _ _ Hc e He). lia.
  Qed.

  (* storing a new block *)
  Lemma krel_add s1 s2 b : KRel s1 s2 -> In b U -> dropped s1 b = false ->
    find (bid b) (store (db s1)) = None ->
    KRel (with_db s1 (new_db (db s1) b)) (with_db s2 (new_db (db s2) b)).
  Proof.
    intros [A B C D (full & f1 & f2 & Hnd & HU & E1 & E2 & Hab & Hno)] Hb Hd Hf.
    assert (Hfb : f1 b = true /\ f2 b = true).
    { unfold dropped in Hd. destruct (last_sent s1) eqn:L; [|apply (Hno eq_refl)]. rewrite andb_true_r in Hd. apply Hab. lia. }
    assert (Hnin : ~ In (bid b) (keys full)).
    { intros Hin. apply find_is_some_in in Hin as [e He].
      assert (eb e = b) by (apply (stored_is_self U U_uniq _ _ _ HU Hb He)).
      rewrite E1 in Hf. unfold fil in Hf. rewrite (find_filter _ _ _ Hnd), He, H in Hf. rewrite (proj1 Hfb) in Hf. discriminate. }
    constructor; cbn [with_db db new_db store extra libref last_sent last_lib_seen]; try assumption.
    exists (full ++ [mkEntry b false]), f1, f2.
    split; [rewrite keys_snoc; apply nodup_snoc; assumption|].
    split; [intros e He; apply in_app_or in He as [He|[<-|[]]]; [apply HU; exact He | exact Hb]|].
    split; [rewrite E1; symmetry; apply fil_snoc; apply Hfb|].
    split; [rewrite E2; symmetry; apply fil_snoc; apply Hfb|].
    split; assumption.
  Qed.

  (* marking delivered blocks *)
  Lemma krel_mark s1 s2 t1 t2 segs : KRel s1 s2 ->
    store (db t1) = mark_all (store (db s1)) segs -> store (db t2) = mark_all (store (db s2)) segs ->
    extra (db t1) = extra (db s1) -> extra (db t2) = extra (db s2) ->
    libref (db t1) = libref (db s1) -> libref (db t2) = libref (db s2) ->
    last_sent t1 = last_sent t2 -> (last_sent s1 = None -> True) ->
    last_lib_seen t1 = last_lib_seen s1 -> last_lib_seen t2 = last_lib_seen s2 ->
    (last_sent t1 = None -> last_sent s1 = None) ->
    KRel t1 t2.
  Proof.
    intros [A B C D (full & f1 & f2 & Hnd & HU & E1 & E2 & Hab & Hno)] S1 S2 X1 X2 L1 L2 Ls _ Q1 Q2 Hn.
    constructor; try congruence.
    exists (mark_all full segs), f1, f2.
    split; [rewrite mark_all_keys; exact Hnd|].
    split.
    { intros e He. destruct (in_mark_all _ _ _ Hnd He) as (e0 & He0 & ->). rewrite flag_if_eb. apply HU. exact He0. }
    split; [rewrite S1, E1; apply mark_all_fil; exact Hnd|].
    split; [rewrite S2, E2; apply mark_all_fil; exact Hnd|].
    split; [rewrite L1; exact Hab|]. intros H. apply Hno. apply Hn. exact H.
  Qed.

  (* MoveLIB + PurgeBeforeLIB with two retention settings *)
  Lemma krel_purge s1 s2 t1 t2 L' k1 k2 : KRel s1 s2 -> rn (libref (db s1)) <= rn L' ->
    db t1 = purge_before_lib (move_lib (db s1) L') k1 -> db t2 = purge_before_lib (move_lib (db s2) L') k2 ->
    last_sent t1 = last_sent t2 -> last_sent t1 <> None -> last_lib_seen t1 = last_lib_seen t2 ->
    KRel t1 t2.
  Proof.
    intros [A B C D (full & f1 & f2 & Hnd & HU & E1 & E2 & Hab & Hno)] Hle D1 D2 Ls Lne Lls.
    constructor; rewrite ?D1, ?D2; cbn [purge_before_lib move_lib libref extra store rn]; try congruence.
    exists full, (fun x => f1 x && (rn L' - k1 <=? bnum x)), (fun x => f2 x && (rn L' - k2 <=? bnum x)).
    split; [exact Hnd|]. split; [exact HU|].
    split; [rewrite E1; apply filter_fil|]. split; [rewrite E2; apply filter_fil|].
    split.
    - intros x Hx. destruct (Hab x) as [-> ->]; [lia|]. cbn [andb]. split; apply N.leb_le; lia.
    - intros H. contradiction.
  Qed.
  (* same fork database, other head / lastLIBSeen *)
  Lemma krel_same_db a1 a2 t1 t2 : KRel a1 a2 -> db t1 = db a1 -> db t2 = db a2 ->
    last_sent t1 = last_sent t2 -> last_lib_seen t1 = last_lib_seen t2 ->
    (last_sent t1 = None -> last_sent a1 = None) -> KRel t1 t2.
  Proof.
    intros [A B C D (full & f1 & f2 & Hnd & HU & E1 & E2 & Hab & Hno)] D1 D2 Ls Lls Hn.
    constructor; rewrite ?D1, ?D2; try assumption.
    exists full, f1, f2. repeat (split; [assumption|]). intros H. apply Hno. apply Hn. exact H.
  Qed.

  (* stalledInSegment scans heights above the old LIB only *)
  Lemma stalled_kept s1 s2 blocks b0 rest : KRel s1 s2 -> blocks = b0 :: rest ->
    rn (libref (db s1)) <= snum b0 ->
    stalled_in_segment (db s1) blocks = stalled_in_segment (db s2) blocks.
  Proof.
    intros [A B C D (full & f1 & f2 & Hnd & HU & E1 & E2 & Hab & Hno)] -> Hlo.
    unfold stalled_in_segment. rewrite <- A. destruct (ri (libref (db s1)) =? 0); [reflexivity|].
    f_equal. f_equal. rewrite E1, E2. unfold fil.
    rewrite !filter_sub; [reflexivity| |].
    - intros e _ P. apply andb_true_iff in P as [P _]. apply andb_true_iff in P as [_ P]. apply N.leb_le in P.
      apply (Hab (eb e)). lia.
    - intros e _ P. apply andb_true_iff in P as [P _]. apply andb_true_iff in P as [_ P]. apply N.leb_le in P.
      apply (Hab (eb e)). lia.
  Qed.

  (* "a block carrying the starting LIB's id is stored" does not depend on retention while nothing is final *)
  Lemma lib_stored_kept s1 s2 S : KRel s1 s2 -> Inv s1 [] S -> Inv s2 [] S -> lib_stored r0 s1 = lib_stored r0 s2.
  Proof.
    intros HK HI1 HI2. apply bool_eq_iff. rewrite !lib_stored_in.
    assert (G : forall a c T, KRel a c -> Inv a [] T -> In (ri r0) (keys (store (db a))) -> In (ri r0) (keys (store (db c)))).
    { intros a c T HKac HIa Hin. apply find_is_some_in in Hin as [e He]. apply find_is_some_in. exists e.
      apply (krel_find a c _ _ HKac He). right.
      pose proof (i_fin_last _ _ _ _ _ _ HIa) as Hl. cbn [rev] in Hl. rewrite Hl.
      pose proof (find_some _ _ _ He) as [Hein Hk]. unfold key in Hk.
      rewrite (L_num (eb e) (di_inU U r0 _ (i_db _ _ _ _ _ _ HIa) e Hein) Hk). lia. }
    split; [apply (G s1 s2 S HK HI1) | apply (G s2 s1 S (krel_sym _ _ HK) HI2)].
  Qed.

  Lemma junction_kept s1 s2 Fin S undone C : KRel s1 s2 -> Inv s1 Fin S -> Inv s2 Fin S ->
    junction_of r0 (lib_stored r0 s1) undone (rev (Fin ++ map eb C)) =
    junction_of r0 (lib_stored r0 s2) undone (rev (Fin ++ map eb C)).
  Proof.
    intros HK HI1 HI2. destruct Fin as [|x F].
    - rewrite (lib_stored_kept s1 s2 S HK HI1 HI2). reflexivity.
    - unfold junction_of. destruct undone; [reflexivity|].
      destruct (rev ((x :: F) ++ map eb C)) eqn:E; [|reflexivity].
      exfalso. apply (f_equal (@rev block)) in E. rewrite rev_involutive in E. discriminate.
  Qed.
  (* ---------------------------------------------------------------- one ProcessBlock call in both runs *)

  Definition StepK (s1 s2 : fstate) (b : block) : Prop :=
    exists s1' s2' evs Fin' S',
      fk_step cfg s1 b = (s1', evs, ROk) /\ fk_step cfg' s2 b = (s2', evs, ROk) /\
      Inv s1' Fin' S' /\ Inv s2' Fin' S' /\ Ext s1' Fin' /\ Ext s2' Fin' /\ KRel s1' s2'.

  Lemma dropped_kept s1 s2 b : KRel s1 s2 -> dropped s2 b = dropped s1 b.
  Proof. intros HK. unfold dropped. rewrite (kr_lib _ _ HK), (kr_last _ _ HK). reflexivity. Qed.

  Lemma incl_first_kept s1 s2 b : KRel s1 s2 -> incl_first cfg' s2 b = incl_first cfg s1 b.
  Proof. intros HK. unfold incl_first. rewrite (kr_lib _ _ HK), (kr_last _ _ HK). reflexivity. Qed.

  Lemma triggers_kept s1 s2 b : KRel s1 s2 -> triggers cfg' s2 b = triggers cfg s1 b.
  Proof. intros HK. unfold triggers. rewrite (kr_last _ _ HK). reflexivity. Qed.

  (* the two triggering steps *)
  Lemma trigger_kept s1 s2 Fin S b pP u1 r1 j1 u2 r2 j2 :
    Inv s1 Fin S -> Inv s2 Fin S -> Ext s1 Fin -> Ext s2 Fin -> KRel s1 s2 -> In b U ->
    find (bid b) (store (db s1)) = None -> find (bid b) (store (db s2)) = None ->
    dropped s1 b = false -> incl_first cfg s1 b = false -> triggers cfg s1 b = true ->
    chain (store (db s1) ++ [mkEntry b false]) (bid b) (ri (libref (db s1))) (pP ++ [mkEntry b false]) ->
    chain (store (db s2) ++ [mkEntry b false]) (bid b) (ri (libref (db s2))) (pP ++ [mkEntry b false]) ->
    sw_of cfg s1 b = ScssOk u1 r1 j1 -> sw_of cfg' s2 b = ScssOk u2 r2 j2 ->
    exists s1' s2' evs Fin' S',
      process_tail cfg (with_db s1 (new_db (db s1) b)) b u1 r1 j1 (map seg_of (pP ++ [mkEntry b false])) None = (s1', evs, ROk) /\
      process_tail cfg' (with_db s2 (new_db (db s2) b)) b u2 r2 j2 (map seg_of (pP ++ [mkEntry b false])) None = (s2', evs, ROk) /\
      Inv s1' Fin' S' /\ Inv s2' Fin' S' /\ Ext s1' Fin' /\ Ext s2' Fin' /\ KRel s1' s2'.
  Proof.
    intros HI1 HI2 HX1 HX2 HK Hb Hf1 Hf2 Hd Hni Htr Hc1 Hc2 Hsw1 Hsw2.
    set (en := mkEntry b false) in *.
    assert (Hni2 : incl_first cfg' s2 b = false) by (rewrite (incl_first_kept s1 s2 b HK); exact Hni).
    assert (Htr2 : triggers cfg' s2 b = true) by (rewrite (triggers_kept s1 s2 b HK); exact Htr).
    destruct (trigger_form U r0 cfg Hnofail Hnew Hundo U_id U_uniq U_up L_id L_num L_up L_decl
                s1 Fin S b pP u1 r1 j1 HI1 HX1 Hb Hf1 Hni Htr Hc1 Hsw1)
      as (pH1 & C1 & Rs1 & Ru1 & Uh1 & t1 & HpH1 & HP1 & HH1 & Hdis1 & HRs1 & HRu1 & HS1 & Hrun1 & Happ1 & HIt1 & Hst1 & Hex1 & Hlr1 & Hls1 & Hlls1).
    destruct (trigger_form U r0 cfg' Hnofail Hnew Hundo U_id U_uniq U_up L_id L_num L_up L_decl
                s2 Fin S b pP u2 r2 j2 (proj1 (inv_kept s2 Fin S) HI2) HX2 Hb Hf2 Hni2 Htr2 Hc2 Hsw2)
      as (pH2 & C2 & Rs2 & Ru2 & Uh2 & t2 & HpH2 & HP2 & HH2 & Hdis2 & HRs2 & HRu2 & HS2 & Hrun2 & Happ2 & HIt2 & Hst2 & Hex2 & Hlr2 & Hls2 & Hlls2).
    apply (proj2 (inv_kept t2 Fin _)) in HIt2.
    fold en in Hrun1, Hrun2, Happ1, Happ2, HIt1, HIt2, Hst1, Hst2.
    pose proof (kr_lib _ _ HK) as EL. pose proof (kr_last _ _ HK) as ELS.
    (* the chain of the old head is the same *)
    assert (EpH : pH2 = pH1).
    { rewrite <- ELS in HpH2. destruct (last_sent s1) as [hd|].
      - pose proof (krel_chain s1 s2 _ _ HK (i_db _ _ _ _ _ _ HI1) HpH1) as Hc. exact (chain_det _ _ _ _ _ HpH2 Hc).
      - congruence. }
    rewrite EpH in HH2, Hdis2, HS2. clear EpH HpH2.
    destruct (meet_unique C1 C2 (Rs1 ++ Ru1) (Rs2 ++ Ru2) Uh1 Uh2 pH1) as (EC & ER & EU); try assumption; [congruence|].
    subst C2 Uh2.
    destruct (sent_split_unique Rs1 Ru1 Rs2 Ru2 ER HRs1 HRu1 HRs2 HRu2) as [-> ->].
    rewrite <- EL, <- (junction_kept s1 s2 Fin S _ C1 HK HI1 HI2) in Hrun2, Happ2.
    set (EV := undo_evs (libref (db s1)) b (junction_of r0 (lib_stored r0 s1) (rev (map eb Uh1)) (rev (Fin ++ map eb C1))) (rev (map eb Uh1)) ++
               new_evs (libref (db s1)) b (map eb Rs2) (map eb (Ru2 ++ [en]))) in *.
    set (S3 := rev (Fin ++ map eb (pP ++ [en]))) in *.
    rewrite Hrun1, Hrun2.
    (* the relation after the first half *)
    pose proof (krel_add s1 s2 b HK Hb Hd Hf1) as HKa.
    assert (HKt : KRel t1 t2).
    { apply (krel_mark _ _ t1 t2 (unsent (map seg_of (pP ++ [en]))) HKa); try assumption; try congruence;
        try (intros _; exact I); intros H; congruence. }
    destruct (chain_snoc_inv _ _ _ _ _ Hc1) as (Hne & _ & _).
    assert (Hne1 : bid b <> ri (libref (db t1))) by (rewrite Hlr1; exact Hne).
    assert (Hne2 : bid b <> ri (libref (db t2))) by (rewrite Hlr2, <- EL; exact Hne).
    destruct (lib_half_ev U r0 cfg Hnofail U_id U_uniq U_up L_id L_num L_up L_decl t1 Fin S3 b EV HIt1 Hls1 Hb Hne1)
      as (s1' & Fn1 & st1 & Hr1 & HI1' & Hls1' & Hcase1 & _ & _ & _ & _ & Hmv1).
    destruct (lib_half_ev U r0 cfg' Hnofail U_id U_uniq U_up L_id L_num L_up L_decl t2 Fin S3 b EV (proj1 (inv_kept t2 Fin S3) HIt2) Hls2 Hb Hne2)
      as (s2' & Fn2 & st2 & Hr2 & HI2' & Hls2' & Hcase2 & _ & _ & _ & _ & Hmv2).
    apply (proj2 (inv_kept s2' _ _)) in HI2'.
    change (c_filter cfg') with (c_filter cfg) in *.
    rewrite Hr1, Hr2.
    pose proof (kr_lib _ _ HKt) as ELt.
    destruct Hcase1 as [(-> & -> & -> & Hle1)|(HFne1 & Hgt1 & Hrn1 & Hll1 & Hx1)];
      destruct Hcase2 as [(-> & -> & -> & Hle2)|(HFne2 & Hgt2 & Hrn2 & Hll2 & Hx2)]; try (rewrite ELt in *; lia).
    - (* the LIB stays in both runs *)
      exists t1, t2, (EV ++ late_evs b (libref (db t1)) (if f_irr (c_filter cfg) then [] else []) []), Fin, S3.
      split; [reflexivity|]. split; [rewrite ELt; reflexivity|].
      rewrite app_nil_r in HI1', HI2'. split; [exact HI1'|]. split; [exact HI2'|].
      assert (HXt : forall s t, Ext s Fin -> last_lib_seen t = last_lib_seen s -> libref (db t) = libref (db s) ->
                       store (db t) = mark_all (store (db s) ++ [en]) (unsent (map seg_of (pP ++ [en]))) -> Ext t Fin).
      { intros s t HX Q1 Q2 Q3. constructor.
        - unfold cursor_lib. rewrite Q1, Q2. exact (x_cur _ _ HX).
        - intros HF. rewrite Q2, Q3, mark_all_keys, keys_snoc. apply in_or_app. left. exact (x_lib _ _ HX HF). }
      split; [exact (HXt s1 t1 HX1 Hlls1 Hlr1 Hst1)|]. split; [exact (HXt s2 t2 HX2 Hlls2 Hlr2 Hst2) | exact HKt].
    - (* the LIB moves in both runs, to the same block *)
      destruct (Hmv1 HFne1) as (A1 & a1 & B1 & Hch1 & Hna1 & -> & -> & Hdb1 & Hl1).
      destruct (Hmv2 HFne2) as (A2 & a2 & B2 & Hch2 & Hna2 & -> & -> & Hdb2 & Hl2).
      pose proof (krel_chain t1 t2 _ _ HKt (i_db _ _ _ _ _ _ HIt1) Hch1) as Hch1'.
      pose proof (chain_det _ _ _ _ _ Hch1' Hch2) as Eq.
      pose proof (di_wf U r0 U_id U_up _ (i_db _ _ _ _ _ _ HIt1)) as Hwf1.
      destruct (chain_split_order _ _ _ _ _ _ Hwf1 Hch1) as [HabB HbelA].
      assert (Ea : a2 = a1).
      { assert (Hin : In a2 (A1 ++ a1 :: B1)) by (rewrite Eq; apply in_or_app; right; left; reflexivity).
        apply in_app_or in Hin as [Hin|[Hin|Hin]]; [specialize (HbelA a2 Hin); lia | symmetry; exact Hin | specialize (HabB a2 Hin); lia]. }
      subst a2.
      assert (Hndp : NoDup (A1 ++ a1 :: B1)).
      { apply (NoDup_map_inv key). exact (chain_nodup _ _ _ _ Hwf1 Hch1). }
      destruct (nodup_split_unique A1 A2 B1 B2 a1 Hndp Eq) as [-> ->].
      assert (Hst : stalled_in_segment (db t2) (map seg_of (A2 ++ [a1])) = stalled_in_segment (db t1) (map seg_of (A2 ++ [a1]))).
      { symmetry.
        assert (Hirr : exists b0 rest, map seg_of (A2 ++ [a1]) = b0 :: rest /\ rn (libref (db t1)) <= snum b0).
        { pose proof (di_above U r0 U_id U_up _ (i_db _ _ _ _ _ _ HIt1) _ _ Hch1) as Hab.
          destruct A2 as [|x A2']; cbn [app map].
          - eexists _, _. split; [reflexivity|]. cbn [seg_of snum]. specialize (Hab a1 (or_introl eq_refl)). lia.
          - eexists _, _. split; [reflexivity|]. cbn [seg_of snum]. specialize (Hab x (or_introl eq_refl)). lia. }
        destruct Hirr as (b0 & rest & Eirr & Hlo). exact (stalled_kept t1 t2 _ b0 rest HKt Eirr Hlo). }
      rewrite Hst in Hr2 |- *.
      assert (Hl1' : libref (db s1') = mkR (key a1) (bnum (eb a1))) by (rewrite Hdb1; reflexivity).
      assert (Hl2' : libref (db s2') = mkR (key a1) (bnum (eb a1))) by (rewrite Hdb2; reflexivity).
      eexists s1', s2', _, (Fin ++ map eb (A2 ++ [a1])), S3.
      split; [reflexivity|]. split; [rewrite Hl2', <- Hl1'; reflexivity|].
      split; [exact HI1'|]. split; [exact HI2'|].
      assert (HXm : forall s', DbInv (db s') -> last_lib_seen s' = libref (db s') -> extra (db s') = None ->
                      Ext s' (Fin ++ map eb (A2 ++ [a1]))).
      { intros s' Hd' Q1 Q2. constructor.
        - rewrite <- Q1. apply cursor_not_empty. rewrite Q1. exact (di_lid U r0 _ Hd').
        - intros _. pose proof (di_num U r0 _ Hd') as Hn. unfold num_of in Hn. rewrite Q2 in Hn.
          destruct (find (ri (libref (db s'))) (store (db s'))) as [e|] eqn:F; [|discriminate].
          apply find_is_some_in. eauto. }
      split; [exact (HXm s1' (i_db _ _ _ _ _ _ HI1') Hll1 Hx1)|]. split; [exact (HXm s2' (i_db _ _ _ _ _ _ HI2') Hll2 Hx2)|].
      apply (krel_purge t1 t2 s1' s2' (mkR (key a1) (bnum (eb a1))) (c_kept cfg) (c_kept cfg') HKt); try assumption.
      + cbn [rn]. lia.
      + congruence.
      + rewrite Hls1'. discriminate.
      + congruence.
  Qed.
  Lemma ext_add s Fin b : Ext s Fin -> Ext (with_db s (new_db (db s) b)) Fin.
  Proof.
    intros HX. constructor; [exact (x_cur _ _ HX)|]. intros HF.
    cbn [with_db db new_db store libref]. rewrite keys_snoc. apply in_or_app. left. exact (x_lib _ _ HX HF).
  Qed.

  Lemma step_kept s1 s2 Fin S b : Inv s1 Fin S -> Inv s2 Fin S -> Ext s1 Fin -> Ext s2 Fin -> KRel s1 s2 ->
    In b U -> StepK s1 s2 b.
  Proof.
    intros HI1 HI2 HX1 HX2 HK Hb. unfold StepK.
    pose proof (dropped_kept s1 s2 b HK) as Ed. pose proof (incl_first_kept s1 s2 b HK) as Ei.
    pose proof (triggers_kept s1 s2 b HK) as Et.
    pose proof (proj1 (inv_kept s2 Fin S) HI2) as HI2'.
    destruct (dropped s1 b) eqn:Hd.
    { exists s1, s2, [], Fin, S.
      rewrite (fk_step_dropped U cfg U_id s1 b Hb Hd), (fk_step_dropped U cfg' U_id s2 b Hb Ed).
      split; [reflexivity|]. split; [reflexivity|]. split; [exact HI1|]. split; [exact HI2|].
      split; [exact HX1|]. split; [exact HX2 | exact HK]. }
    destruct (incl_first cfg s1 b) eqn:Hni.
    { destruct (root_form U r0 cfg Hnofail Hnew U_id U_uniq U_up L_id L_num L_up L_decl s1 Fin S b HI1 HX1 Hb Hd Hni)
        as (t1 & Hstep1 & Hdb1 & Hls1 & Hl1 & EF & ES & Hlr1 & Hls01 & Hfn1 & HIt1 & HXt1).
      destruct (root_form U r0 cfg' Hnofail Hnew U_id U_uniq U_up L_id L_num L_up L_decl s2 Fin S b HI2' HX2 Hb Ed Ei)
        as (t2 & Hstep2 & Hdb2 & Hls2 & Hl2 & _ & _ & Hlr2 & Hls02 & Hfn2 & HIt2 & HXt2).
      apply (proj2 (inv_kept t2 _ _)) in HIt2.
      eexists t1, t2, _, [b], [b]. split; [exact Hstep1|]. split; [exact Hstep2|].
      split; [exact HIt1|]. split; [exact HIt2|]. split; [exact HXt1|]. split; [exact HXt2|].
      apply (krel_same_db _ _ t1 t2 (krel_add s1 s2 b HK Hb Hd Hfn1)); try assumption; try congruence;
        try (intros H; congruence). }
    pose proof HI1 as [Hdb1 _ _ _]. pose proof HI2 as [Hdb2 _ _ _].
    pose proof (di_wf U r0 U_id U_up _ Hdb1) as Hwf1. pose proof (di_wf U r0 U_id U_up _ Hdb2) as Hwf2.
    assert (Hni2 : incl_first cfg' s2 b = false) by (rewrite Ei; reflexivity).
    destruct (find (bid b) (store (db s1))) as [e|] eqn:Hf1.
    { assert (Hf2 : find (bid b) (store (db s2)) = Some e).
      { apply (krel_find s1 s2 _ _ HK Hf1).
        rewrite (stored_is_self U U_uniq _ _ _ (di_inU U r0 _ Hdb1) Hb Hf1).
        unfold dropped in Hd. destruct (last_sent s1); [|left; reflexivity]. right. rewrite andb_true_r in Hd. lia. }
      exists s1, s2, [], Fin, S.
      rewrite (fk_step_old' U r0 cfg U_id U_uniq U_up s1 b e Hdb1 Hb Hf1 Hni).
      rewrite (fk_step_old' U r0 cfg' U_id U_uniq U_up s2 b e Hdb2 Hb Hf2 Hni2).
      split; [reflexivity|]. split; [reflexivity|]. split; [exact HI1|]. split; [exact HI2|].
      split; [exact HX1|]. split; [exact HX2 | exact HK]. }
    assert (Hf2 : find (bid b) (store (db s2)) = None)
      by (exact (krel_find_none s1 s2 b HK (di_inU U r0 _ Hdb2) Hb Hd Hf1)).
    pose proof (krel_add s1 s2 b HK Hb Hd Hf1) as HKa.
    pose proof (inv_add U r0 cfg s1 Fin S b HI1 Hb Hf1 Hni) as HIa1.
    pose proof (inv_add U r0 cfg s2 Fin S b HI2 Hb Hf2) as HIa2.
    assert (Hni2c : incl_first cfg s2 b = false) by exact Hni2. specialize (HIa2 Hni2c).
    set (en := mkEntry b false) in *.
    destruct (new_block_form U r0 cfg U_id U_up s1 Fin S b HI1 Hb Hd Hni Hf1)
      as [[Hstep1 Hno1]|(Htr1 & pP1 & u1 & r1 & j1 & Hc1 & Hsw1 & Hstep1)];
      destruct (new_block_form U r0 cfg' U_id U_up s2 Fin S b HI2' Hb Ed Hni2 Hf2)
      as [[Hstep2 Hno2]|(Htr2 & pP2 & u2 & r2 & j2 & Hc2 & Hsw2 & Hstep2)].
    - (* stored in both runs, nothing delivered *)
      exists (with_db s1 (new_db (db s1) b)), (with_db s2 (new_db (db s2) b)), [], Fin, S.
      split; [exact Hstep1|]. split; [exact Hstep2|]. split; [exact HIa1|]. split; [exact HIa2|].
      split; [apply ext_add; exact HX1|]. split; [apply ext_add; exact HX2 | exact HKa].
    - exfalso. rewrite Et in Htr2. destruct Hno1 as [Hno1|Hno1]; [congruence|]. apply Hno1. exists pP2.
      pose proof (krel_chain _ _ _ _ (krel_sym _ _ HKa) (i_db _ _ _ _ _ _ HIa2) Hc2) as Hc. exact Hc.
    - exfalso. rewrite Et in Hno2. destruct Hno2 as [Hno2|Hno2]; [congruence|]. apply Hno2. exists pP1.
      pose proof (krel_chain _ _ _ _ HKa (i_db _ _ _ _ _ _ HIa1) Hc1) as Hc. exact Hc.
    - (* triggering in both runs *)
      pose proof (krel_chain _ _ _ _ HKa (i_db _ _ _ _ _ _ HIa1) Hc1) as Hc.
      pose proof (chain_det _ _ _ _ _ Hc Hc2) as Eq. apply app_inv_tail in Eq. subst pP2.
      destruct (trigger_kept s1 s2 Fin S b pP1 u1 r1 j1 u2 r2 j2 HI1 HI2 HX1 HX2 HK Hb Hf1 Hf2 Hd Hni Htr1 Hc1 Hc2 Hsw1 Hsw2)
        as (s1' & s2' & evs & Fin' & S' & Hp1 & Hp2 & R).
      exists s1', s2', evs, Fin', S'. rewrite Hstep1, Hstep2. split; [exact Hp1|]. split; [exact Hp2 | exact R].
  Qed.

  (* ---------------------------------------------------------------- whole histories *)

  Lemma run_kept : forall h s1 s2 Fin S, Inv s1 Fin S -> Inv s2 Fin S -> Ext s1 Fin -> Ext s2 Fin -> KRel s1 s2 ->
    (forall b, In b h -> In b U) -> fk_run cfg' s2 h = fk_run cfg s1 h.
  Proof.
    induction h as [|b h IH]; intros s1 s2 Fin S HI1 HI2 HX1 HX2 HK Hh; [reflexivity|].
    destruct (step_kept s1 s2 Fin S b HI1 HI2 HX1 HX2 HK (Hh b (or_introl eq_refl)))
      as (s1' & s2' & evs & Fin' & S' & H1 & H2 & HI1' & HI2' & HX1' & HX2' & HK').
    cbn [fk_run]. rewrite H1, H2. f_equal.
    exact (IH s1' s2' Fin' S' HI1' HI2' HX1' HX2' HK' (fun x Hx => Hh x (or_intror Hx))).
  Qed.

  Theorem moving_lib_kept m h : rooted r0 m -> (forall b, In b h -> In b U) ->
    fk_run cfg' (fs_init m) h = fk_run cfg (fs_init m) h.
  Proof.
    intros Hm Hh.
    exact (run_kept h (fs_init m) (fs_init m) [] [] (inv_init U r0 cfg L_id L_num L_up m Hm) (inv_init U r0 cfg L_id L_num L_up m Hm)
             (ext_init r0 L_id m Hm) (ext_init r0 L_id m Hm) (krel_init m) Hh).
  Qed.
End Kept.
