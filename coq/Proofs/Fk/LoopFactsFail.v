(* The delivery loops, the tail and ProcessBlock of Model/Forkable.v under an ARBITRARY handler oracle,
   compared with the same configuration whose handler never fails (nofail cfg).  Nothing here depends
   on the history class: the lemmas hold for every state, block, mode and configuration.

   sim3 / simr: the run with the oracle either makes exactly the same calls and returns exactly the
   same value as the run without (and none of its calls is the failing one), or it stops right after
   the failing call with the events delivered so far: a prefix of the no-failure events. *)
From BV Require Import Base.Prelude Model.Block Model.ForkDB Model.Forkable Spec.Consumer Spec.C01_More_Spec.
Local Open Scope N_scope.

Lemma nofail_id cfg : c_fail_at cfg = None -> nofail cfg = cfg.
Proof. destruct cfg; cbn; intros ->; reflexivity. Qed.

Definition len (l : list event) : N := N.of_nat (length l).
Lemma len_nil : len [] = 0. Proof. reflexivity. Qed.
Lemma len_cons e l : len (e :: l) = 1 + len l. Proof. unfold len. cbn [length]. lia. Qed.
Lemma len_app a b : len (a ++ b) = len a + len b. Proof. unfold len. rewrite app_length. lia. Qed.

(* no call numbered in [a, b) is the failing one *)
Definition nohit (cfg : config) (a b : N) : Prop := forall k, c_fail_at cfg = Some k -> k < a \/ b <= k.

Definition bump (s : fstate) : fstate := mkFS (db s) (last_sent s) (last_lib_seen s) (ncalls s + 1).

Section Sim.
  Variable cfg : config.
  Notation cfg0 := (nofail cfg).

  Lemma call0 s : call cfg0 s = (bump s, true).
  Proof. reflexivity. Qed.

  Lemma call_cases s :
    (call cfg s = (bump s, true) /\ c_fail_at cfg <> Some (ncalls s)) \/
    (call cfg s = (bump s, false) /\ c_fail_at cfg = Some (ncalls s)).
  Proof.
    unfold call, bump. destruct (c_fail_at cfg) as [k|]; [|left; split; [reflexivity | discriminate]].
    destruct (N.eqb_spec k (ncalls s)) as [E|E]; cbn [negb].
    - right. subst k. split; reflexivity.
    - left. split; [reflexivity | congruence].
  Qed.

  (* ---------------------------------------------------------------- loops (result flag) *)

  Definition sim3 (n : N) (acc : list event) (R R0 : fstate * list event * bool) : Prop :=
    exists s0 evs0, R0 = (s0, acc ++ evs0, true) /\ ncalls s0 = n + len evs0 /\
      ((R = R0 /\ nohit cfg n (ncalls s0)) \/
       (exists k s' pre post, c_fail_at cfg = Some k /\ R = (s', acc ++ pre, false) /\ evs0 = pre ++ post /\
           n <= k /\ n + len pre = k + 1)).

  Lemma sim3_ret s acc : sim3 (ncalls s) acc (s, acc, true) (s, acc, true).
  Proof.
    exists s, []. rewrite app_nil_r, len_nil. split; [reflexivity|]. split; [lia|].
    left. split; [reflexivity|]. intros k _. lia.
  Qed.

  Lemma sim3_call s acc ev (K K0 : fstate -> fstate * list event * bool) :
    sim3 (ncalls s + 1) (acc ++ [ev]) (K (bump s)) (K0 (bump s)) ->
    sim3 (ncalls s) acc
      (let '(s', ok) := call cfg s in if ok then K s' else (s', acc ++ [ev], false))
      (let '(s', ok) := call cfg0 s in if ok then K0 s' else (s', acc ++ [ev], false)).
  Proof.
    intros (s0 & evs0 & E0 & Hn & H). rewrite call0. cbv beta iota zeta.
    exists s0, (ev :: evs0). split; [rewrite E0, <- app_assoc; reflexivity|].
    split; [rewrite Hn, len_cons; lia|].
    destruct (call_cases s) as [[-> Hne] | [-> He]]; cbv beta iota zeta.
    - destruct H as [[E Hno] | (k & s' & pre & post & Hk & E & Hs & Hle & Hl)].
      + left. split; [exact E|]. intros k Hk. destruct (Hno k Hk) as [H|H]; [|right; exact H].
        destruct (N.eq_dec k (ncalls s)) as [->|Hd]; [contradiction | left; lia].
      + right. exists k, s', (ev :: pre), post. split; [exact Hk|]. split; [rewrite E, <- app_assoc; reflexivity|].
        split; [rewrite Hs; reflexivity|]. rewrite len_cons. lia.
    - right. exists (ncalls s), (bump s), [ev], evs0. repeat split; try assumption; try lia; try (rewrite len_cons, len_nil; lia).
  Qed.

  Lemma process_blocks_loop_sim cur st junc count : forall blocks idx s acc,
    sim3 (ncalls s) acc (process_blocks_loop cfg cur st junc count idx blocks s acc)
                        (process_blocks_loop cfg0 cur st junc count idx blocks s acc).
  Proof.
    induction blocks as [|e rest IH]; intros idx s acc; cbn [process_blocks_loop]; [apply sim3_ret|].
    apply (sim3_call s acc _
             (fun s' => process_blocks_loop cfg cur st junc count (idx + 1) rest s' _)
             (fun s' => process_blocks_loop cfg0 cur st junc count (idx + 1) rest s' _)).
    apply (IH (idx + 1) (bump s)).
  Qed.

  Lemma process_blocks_sim cur blocks st junc s :
    sim3 (ncalls s) [] (process_blocks cfg cur blocks st junc s) (process_blocks cfg0 cur blocks st junc s).
  Proof. apply process_blocks_loop_sim. Qed.

  Lemma process_new_loop_sim head : forall chain s acc,
    sim3 (ncalls s) acc (process_new_loop cfg head chain s acc) (process_new_loop cfg0 head chain s acc).
  Proof.
    induction chain as [|b rest IH]; intros s acc; cbn [process_new_loop]; [apply sim3_ret|].
    destruct (esent (sent b)); [apply IH|].
    cbn [nofail c_filter]. destruct (f_new (c_filter cfg)).
    - set (mark := fun s0 : fstate =>
                     mkFS (mkDB (set_sent (sid b) (store (db s0))) (extra (db s0)) (libref (db s0)))
                          (Some (eb (sent b))) (last_lib_seen s0) (ncalls s0)).
      apply (sim3_call s acc _
               (fun s' => process_new_loop cfg head rest (mark s') _)
               (fun s' => process_new_loop cfg0 head rest (mark s') _)).
      apply (IH (mark (bump s))).
    - apply (IH (mkFS (mkDB (set_sent (sid b) (store (db s))) (extra (db s)) (libref (db s)))
                      (Some (eb (sent b))) (last_lib_seen s) (ncalls s))).
  Qed.

  Lemma process_new_blocks_sim chain s :
    sim3 (ncalls s) [] (process_new_blocks cfg chain s) (process_new_blocks cfg0 chain s).
  Proof. unfold process_new_blocks. destruct chain as [|b0 l]; [apply sim3_ret | apply process_new_loop_sim]. Qed.

  Lemma process_irr_loop_sim head count : forall l idx s acc,
    sim3 (ncalls s) acc (process_irr_loop cfg head count idx l s acc) (process_irr_loop cfg0 head count idx l s acc).
  Proof.
    induction l as [|b rest IH]; intros idx s acc; cbn [process_irr_loop]; [apply sim3_ret|].
    apply (sim3_call s acc _
             (fun s' => process_irr_loop cfg head count (idx + 1) rest s' _)
             (fun s' => process_irr_loop cfg0 head count (idx + 1) rest s' _)).
    apply (IH (idx + 1) (bump s)).
  Qed.

  Lemma process_stalled_loop_sim head count : forall l idx s acc,
    sim3 (ncalls s) acc (process_stalled_loop cfg head count idx l s acc) (process_stalled_loop cfg0 head count idx l s acc).
  Proof.
    induction l as [|b rest IH]; intros idx s acc; cbn [process_stalled_loop]; [apply sim3_ret|].
    apply (sim3_call s acc _
             (fun s' => process_stalled_loop cfg head count (idx + 1) rest s' _)
             (fun s' => process_stalled_loop cfg0 head count (idx + 1) rest s' _)).
    apply (IH (idx + 1) (bump s)).
  Qed.

  Lemma process_stalled_segment_sim l head s :
    sim3 (ncalls s) [] (process_stalled_segment cfg l head s) (process_stalled_segment cfg0 l head s).
  Proof.
    unfold process_stalled_segment. cbn [nofail c_filter].
    destruct (f_stalled (c_filter cfg)); [apply process_stalled_loop_sim | apply sim3_ret].
  Qed.

  (* a state change after a successful loop that leaves the call counter alone *)
  Lemma sim3_map (f : fstate -> fstate) n acc A A0 : (forall s, ncalls (f s) = ncalls s) ->
    sim3 n acc A A0 ->
    sim3 n acc (let '(s1, evs, ok) := A in if ok then (f s1, evs, true) else (s1, evs, false))
               (let '(s1, evs, ok) := A0 in if ok then (f s1, evs, true) else (s1, evs, false)).
  Proof.
    intros Hf (s0 & evs0 & E0 & Hn & H). rewrite E0. cbv beta iota zeta.
    exists (f s0), evs0. split; [reflexivity|]. rewrite Hf. split; [exact Hn|].
    destruct H as [[E Hno] | (k & s' & pre & post & Hk & E & Hs & Hle & Hl)].
    - left. rewrite E, E0. cbv beta iota zeta. split; [reflexivity | exact Hno].
    - right. exists k, s', pre, post. rewrite E. cbv beta iota zeta. repeat split; assumption.
  Qed.

  Lemma process_irr_segment_sim irr head s :
    sim3 (ncalls s) [] (process_irr_segment cfg irr head s) (process_irr_segment cfg0 irr head s).
  Proof.
    unfold process_irr_segment. cbn [nofail c_filter].
    assert (H : sim3 (ncalls s) []
                  (if f_irr (c_filter cfg) then process_irr_loop cfg head (N.of_nat (length irr)) 0 irr s [] else (s, [], true))
                  (if f_irr (c_filter cfg) then process_irr_loop cfg0 head (N.of_nat (length irr)) 0 irr s [] else (s, [], true))).
    { destruct (f_irr (c_filter cfg)); [apply process_irr_loop_sim | apply sim3_ret]. }
    destruct irr as [|b0 irr'].
    - apply (sim3_map (fun s1 => s1)) in H; [|reflexivity].
      destruct H as (s0 & evs0 & E0 & Hn & H). exists s0, evs0.
      destruct (if f_irr (c_filter cfg) then process_irr_loop cfg0 head (N.of_nat (length (@nil seg))) 0 [] s [] else (s, [], true))
        as [[sa eva] [|]];
      destruct (if f_irr (c_filter cfg) then process_irr_loop cfg head (N.of_nat (length (@nil seg))) 0 [] s [] else (s, [], true))
        as [[sb evb] [|]]; auto.
    - apply (sim3_map (fun s1 => mkFS (db s1) (last_sent s1) (seg_ref (last (b0 :: irr') b0)) (ncalls s1))) in H; [|reflexivity].
      exact H.
  Qed.

  (* ---------------------------------------------------------------- results *)

  Definition simr (n : N) (acc : list event) (R R0 : fstate * list event * result) : Prop :=
    exists s0 evs0 r0, R0 = (s0, acc ++ evs0, r0) /\ r0 <> RHandlerErr /\ ncalls s0 = n + len evs0 /\
      ((R = R0 /\ nohit cfg n (ncalls s0)) \/
       (exists k s' pre post, c_fail_at cfg = Some k /\ R = (s', acc ++ pre, RHandlerErr) /\ evs0 = pre ++ post /\
           n <= k /\ n + len pre = k + 1)).

  Lemma simr_pure n acc s r : r <> RHandlerErr -> ncalls s = n -> simr n acc (s, acc, r) (s, acc, r).
  Proof.
    intros Hr Hn. exists s, [], r. rewrite app_nil_r, len_nil. split; [reflexivity|]. split; [exact Hr|].
    split; [lia|]. left. split; [reflexivity|]. intros k _. lia.
  Qed.

  Definition bind3 (A : fstate * list event * bool) (acc : list event)
             (K : fstate -> list event -> fstate * list event * result) : fstate * list event * result :=
    let '(s1, ev1, ok1) := A in if ok1 then K s1 (acc ++ ev1) else (s1, acc ++ ev1, RHandlerErr).

  Lemma bind3_sim n acc A A0 K K0 :
    sim3 n [] A A0 ->
    (forall s1 a1, simr (ncalls s1) a1 (K s1 a1) (K0 s1 a1)) ->
    simr n acc (bind3 A acc K) (bind3 A0 acc K0).
  Proof.
    intros (s1 & ev1 & E0 & Hn1 & H) HK. cbn [app] in E0.
    destruct (HK s1 (acc ++ ev1)) as (s0 & evs0 & r0 & F0 & Hr & Hn0 & G).
    unfold bind3 at 2. rewrite E0, F0.
    exists s0, (ev1 ++ evs0), r0. split; [rewrite app_assoc; reflexivity|]. split; [exact Hr|].
    split; [rewrite len_app; lia|].
    destruct H as [[E Hno] | (k & s' & pre & post & Hk & E & Hs & Hle & Hl)].
    - unfold bind3. rewrite E, E0.
      destruct G as [[F Hno2] | (k & s' & pre & post & Hk & F & Hs & Hle & Hl)].
      + left. split; [rewrite F, F0; reflexivity|]. intros k Hk.
        destruct (Hno k Hk) as [H|H]; [left; exact H|]. destruct (Hno2 k Hk) as [H2|H2]; [lia | right; exact H2].
      + right. exists k, s', (ev1 ++ pre), post. split; [exact Hk|]. split; [rewrite F, app_assoc; reflexivity|].
        split; [rewrite Hs, app_assoc; reflexivity|]. rewrite len_app. lia.
    - right. unfold bind3. rewrite E. cbn [app]. exists k, s', pre, (post ++ evs0).
      split; [exact Hk|]. split; [reflexivity|]. split; [rewrite Hs, app_assoc; reflexivity|]. split; assumption.
  Qed.

  Definition ret_ok (s : fstate) (a : list event) : fstate * list event * result := (s, a, ROk).

  Lemma ret_ok_sim s a : simr (ncalls s) a (ret_ok s a) (ret_ok s a).
  Proof. apply simr_pure; [discriminate | reflexivity]. Qed.

  (* ---------------------------------------------------------------- processInitialInclusiveIrreversibleBlock *)

  Definition tiny (b : block) : seg := mkSeg (bid b) (bnum b) (mkEntry b false).
  Definition set_ls (s : fstate) (b : block) : fstate := mkFS (db s) (Some b) (last_lib_seen s) (ncalls s).

  Definition new_stage (c : config) (b : block) (s : fstate) : fstate * list event * bool :=
    if f_new (c_filter c) then
      let '(s', ok) := call c s in
      if ok then (s', [] ++ [mkEv SNew b (seg_ref (tiny b)) (seg_ref (tiny b)) (cursor_lib s) None 0 0], true)
      else (s', [] ++ [mkEv SNew b (seg_ref (tiny b)) (seg_ref (tiny b)) (cursor_lib s) None 0 0], false)
    else (s, [], true).

  Definition pii_r (c : config) (b : block) (s : fstate) : fstate * list event * result :=
    let '(s', evs, ok) := process_initial_inclusive c b s in (s', evs, if ok then ROk else RHandlerErr).

  Lemma pii_r_eq c b s :
    pii_r c b s =
    bind3 (new_stage c b s) []
      (fun s1 a1 => bind3 (process_irr_segment c [tiny b] (bref b) (set_ls s1 b)) a1 ret_ok).
  Proof.
    unfold pii_r, process_initial_inclusive, new_stage, bind3, ret_ok, set_ls. fold (tiny b).
    destruct (f_new (c_filter c)).
    - destruct (call c s) as [s' [|]]; cbv beta iota zeta; cbn [app]; [|reflexivity].
      destruct (process_irr_segment c [tiny b] (bref b) (mkFS (db s') (Some b) (last_lib_seen s') (ncalls s'))) as [[s2 ev2] [|]];
        reflexivity.
    - cbv beta iota zeta. cbn [app].
      destruct (process_irr_segment c [tiny b] (bref b) (mkFS (db s) (Some b) (last_lib_seen s) (ncalls s))) as [[s2 ev2] [|]];
        reflexivity.
  Qed.

  Lemma new_stage_sim b s : sim3 (ncalls s) [] (new_stage cfg b s) (new_stage cfg0 b s).
  Proof.
    unfold new_stage. cbn [nofail c_filter]. destruct (f_new (c_filter cfg)); [|apply sim3_ret].
    set (ev := mkEv SNew b (seg_ref (tiny b)) (seg_ref (tiny b)) (cursor_lib s) None 0 0).
    apply (sim3_call s [] ev (fun s' => (s', [] ++ [ev], true)) (fun s' => (s', [] ++ [ev], true))).
    apply (sim3_ret (bump s)).
  Qed.

  Lemma pii_r_sim b s : simr (ncalls s) [] (pii_r cfg b s) (pii_r cfg0 b s).
  Proof.
    rewrite !pii_r_eq. apply bind3_sim; [apply new_stage_sim|].
    intros s1 a1. apply bind3_sim; [apply (process_irr_segment_sim [tiny b] (bref b) (set_ls s1 b))|].
    intros s2 a2. apply ret_ok_sim.
  Qed.

  (* ---------------------------------------------------------------- the tail of ProcessBlock *)

  Definition st_undo (c : config) (b : block) (undos : list entry) (junc : option ref) (s : fstate) :=
    if f_undo (c_filter c) then process_blocks c b undos SUndo junc s else (s, [], true).
  Definition st_redo (c : config) (b : block) (redos : list entry) (s : fstate) :=
    if f_new (c_filter c) then process_blocks c b redos SNew None s else (s, [], true).

  Definition tail_k (c : config) (b : block) (first_irr : option seg) (s3 : fstate) (evs : list event)
    : fstate * list event * result :=
    match last_sent s3 with
    | None => (s3, evs, ROk)
    | Some ls =>
        if negb (has_lib (db s3)) then (s3, evs, ROk) else
        match block_in_chain (db s3) (bref ls) (blib ls) with
        | None => (s3, evs, RFuel)
        | Some libr =>
            if ri libr =? 0 then (s3, evs, ROk) else
            match has_new_irr_segment (db s3) (c_first c) libr with
            | None => (s3, evs, RFuel)
            | Some (has_new, irr0, stalled) =>
                let irr := match first_irr with Some fi => irr0 ++ [fi] | None => irr0 end in
                if negb has_new && (match first_irr with None => true | Some _ => false end) then (s3, evs, ROk) else
                let d' := purge_before_lib (move_lib (db s3) libr) (c_kept c) in
                let s4 := with_db s3 d' in
                bind3 (process_irr_segment c irr (bref b) s4) evs
                  (fun s5 a5 => bind3 (process_stalled_segment c stalled (bref b) s5) a5 ret_ok)
            end
        end
    end.

  Lemma process_tail_bind c s b undos redos junc longest first_irr :
    process_tail c s b undos redos junc longest first_irr =
    bind3 (st_undo c b undos junc s) []
      (fun s1 a1 => bind3 (st_redo c b redos s1) a1
         (fun s2 a2 => bind3 (process_new_blocks c longest s2) a2 (tail_k c b first_irr))).
  Proof.
    unfold process_tail, bind3, st_undo, st_redo.
    destruct (if f_undo (c_filter c) then process_blocks c b undos SUndo junc s else (s, [], true)) as [[s1 ev1] [|]];
      cbn [negb app]; [|reflexivity].
    destruct (if f_new (c_filter c) then process_blocks c b redos SNew None s1 else (s1, [], true)) as [[s2 ev2] [|]];
      cbn [negb]; [|reflexivity].
    destruct (process_new_blocks c longest s2) as [[s3 ev3] [|]]; cbn [negb]; rewrite <- app_assoc; [|reflexivity].
    unfold tail_k.
    destruct (last_sent s3) as [ls|]; [|reflexivity].
    destruct (negb (has_lib (db s3))); [reflexivity|].
    destruct (block_in_chain (db s3) (bref ls) (blib ls)) as [libr|]; [|reflexivity].
    destruct (ri libr =? 0); [reflexivity|].
    destruct (has_new_irr_segment (db s3) (c_first c) libr) as [[[hn irr0] stalled]|]; [|reflexivity].
    destruct (negb hn && match first_irr with None => true | Some _ => false end); [reflexivity|].
    cbv zeta. unfold bind3, ret_ok.
    destruct (process_irr_segment c match first_irr with Some fi => irr0 ++ [fi] | None => irr0 end (bref b)
                (with_db s3 (purge_before_lib (move_lib (db s3) libr) (c_kept c)))) as [[s5 ev5] [|]];
      cbn [negb]; [|reflexivity].
    destruct (process_stalled_segment c stalled (bref b) s5) as [[s6 ev6] [|]]; rewrite <- !app_assoc; reflexivity.
  Qed.

  Lemma tail_k_sim b first_irr s3 evs : simr (ncalls s3) evs (tail_k cfg b first_irr s3 evs) (tail_k cfg0 b first_irr s3 evs).
  Proof.
    unfold tail_k. cbn [nofail c_first c_kept].
    destruct (last_sent s3) as [ls|]; [|apply simr_pure; [discriminate | reflexivity]].
    destruct (negb (has_lib (db s3))); [apply simr_pure; [discriminate | reflexivity]|].
    destruct (block_in_chain (db s3) (bref ls) (blib ls)) as [libr|]; [|apply simr_pure; [discriminate | reflexivity]].
    destruct (ri libr =? 0); [apply simr_pure; [discriminate | reflexivity]|].
    destruct (has_new_irr_segment (db s3) (c_first cfg) libr) as [[[hn irr0] stalled]|];
      [|apply simr_pure; [discriminate | reflexivity]].
    destruct (negb hn && match first_irr with None => true | Some _ => false end);
      [apply simr_pure; [discriminate | reflexivity]|].
    cbv zeta.
    apply bind3_sim.
    - apply (process_irr_segment_sim _ (bref b) (with_db s3 (purge_before_lib (move_lib (db s3) libr) (c_kept cfg)))).
    - intros s5 a5. apply bind3_sim; [apply process_stalled_segment_sim|]. intros s6 a6. apply ret_ok_sim.
  Qed.

  Lemma process_tail_sim s b undos redos junc longest first_irr :
    simr (ncalls s) [] (process_tail cfg s b undos redos junc longest first_irr)
                       (process_tail cfg0 s b undos redos junc longest first_irr).
  Proof.
    rewrite !process_tail_bind. apply bind3_sim.
    { unfold st_undo. cbn [nofail c_filter]. destruct (f_undo (c_filter cfg)); [apply process_blocks_sim | apply sim3_ret]. }
    intros s1 a1. apply bind3_sim.
    { unfold st_redo. cbn [nofail c_filter]. destruct (f_new (c_filter cfg)); [apply process_blocks_sim | apply sim3_ret]. }
    intros s2 a2. apply bind3_sim; [apply process_new_blocks_sim|].
    intros s3 a3. apply tail_k_sim.
  Qed.

  (* ---------------------------------------------------------------- ProcessBlock *)

  Lemma triggers_nofail s b : triggers cfg0 s b = triggers cfg s b.
  Proof. reflexivity. Qed.

  Ltac pure_exit := apply simr_pure; [discriminate | reflexivity].

  Lemma fk_step_sim s b : simr (ncalls s) [] (fk_step cfg s b) (fk_step cfg0 s b).
  Proof.
    unfold fk_step. rewrite triggers_nofail. cbn [nofail c_incl c_filter c_first c_hold].
    destruct (bid b =? bparent b); [pure_exit|].
    destruct ((bnum b <? rn (libref (db s))) && match last_sent s with Some _ => true | None => false end); [pure_exit|].
    destruct (c_incl cfg && match last_sent s with None => true | Some _ => false end && (bid b =? ri (libref (db s)))).
    { apply (pii_r_sim b (with_db s (fst (add_link (db s) b)))). }
    destruct (if f_undo (c_filter cfg) && triggers cfg s b
              then match last_sent s with
                   | Some ls => sent_chain_switch_segments (db s) (bid ls) (bparent b)
                   | None => ScssOk [] [] None
                   end
              else ScssOk [] [] None) as [undos redos junc| |]; [|pure_exit|pure_exit].
    destruct (add_link (db s) b) as [d1 existed]. destruct existed; [pure_exit|].
    destruct (has_lib d1).
    - destruct (reversible_segment (db (with_db s d1)) (c_first cfg) (bref b)) as [[longest reach]|]; [|pure_exit].
      destruct (negb (triggers cfg s b) || match longest with [] => true | _ => false end); [pure_exit|].
      apply (process_tail_sim (with_db s d1)).
    - destruct (set_lib d1 (c_first cfg) (bref b) (blib b)) as [d2|]; [|pure_exit].
      destruct (has_lib d2).
      + destruct (rn (libref d2) =? bnum b).
        * apply (pii_r_sim b (with_db (with_db s d1) d2)).
        * destruct (reversible_segment (db (with_db (with_db s d1) d2)) (c_first cfg) (bref b)) as [[longest reach]|]; [|pure_exit].
          destruct (negb (triggers cfg s b) || match longest with [] => true | _ => false end); [pure_exit|].
          apply (process_tail_sim (with_db (with_db s d1) d2)).
      + destruct (c_hold cfg); [pure_exit|].
        destruct (reversible_segment (db (with_db (with_db s d1) d2)) (c_first cfg) (bref b)) as [[longest reach]|]; [|pure_exit].
        destruct (negb (triggers cfg s b) || match longest with [] => true | _ => false end); [pure_exit|].
        apply (process_tail_sim (with_db (with_db s d1) d2)).
  Qed.

  (* ---------------------------------------------------------------- whole histories *)

  Lemma all_events_cons (x : list event * result) (t : trace) : all_events (x :: t) = fst x ++ all_events t.
  Proof. reflexivity. Qed.

  Lemma all_events_app (a b : trace) : all_events (a ++ b) = all_events a ++ all_events b.
  Proof. unfold all_events. rewrite map_app, concat_app. reflexivity. Qed.

  Lemma fk_run_noerr : forall h s, Forall (fun x => snd x <> RHandlerErr) (fk_run cfg0 s h).
  Proof.
    induction h as [|b h IH]; intros s; cbn [fk_run]; [constructor|].
    destruct (fk_step_sim s b) as (s0 & evs0 & r0 & E0 & Hr & _). rewrite E0.
    constructor; [exact Hr|]. destruct r0; try constructor. apply IH.
  Qed.

  Lemma fk_run_sim : forall h s,
    (fk_run cfg s h = fk_run cfg0 s h /\ nohit cfg (ncalls s) (ncalls s + len (all_events (fk_run cfg0 s h)))) \/
    (exists k t1 r rest pre post,
        c_fail_at cfg = Some k /\ fk_run cfg0 s h = t1 ++ (pre ++ post, r) :: rest /\
        fk_run cfg s h = t1 ++ [(pre, RHandlerErr)] /\
        ncalls s + len (all_events t1) <= k /\ ncalls s + len (all_events t1) + len pre = k + 1).
  Proof.
    induction h as [|b h IH]; intros s; cbn [fk_run].
    - left. split; [reflexivity|]. intros k _. cbn. lia.
    - destruct (fk_step_sim s b) as (s0 & evs0 & r0 & E0 & Hr & Hn & H). cbn [app] in E0. rewrite E0.
      destruct H as [[E Hno] | (k & s' & pre & post & Hk & E & Hs & Hle & Hl)].
      + rewrite E, E0. destruct r0; try contradiction.
        * destruct (IH s0) as [[F Hno2] | (k & t1 & r & rest & pre & post & Hk & F0 & F & Hle & Hl)].
          -- left. rewrite F. split; [reflexivity|]. rewrite all_events_cons, len_app. cbn [fst].
             intros k Hk. destruct (Hno k Hk) as [H|H]; [left; exact H|]. destruct (Hno2 k Hk) as [H2|H2]; [lia | right; lia].
          -- right. exists k, ((evs0, ROk) :: t1), r, rest, pre, post. rewrite F0, F. split; [exact Hk|].
             split; [reflexivity|]. split; [reflexivity|]. rewrite all_events_cons, len_app. cbn [fst]. lia.
        * left. split; [reflexivity|]. rewrite all_events_cons, len_app. cbn [fst]. cbn. rewrite N.add_0_r, <- Hn. exact Hno.
        * left. split; [reflexivity|]. rewrite all_events_cons, len_app. cbn [fst]. cbn. rewrite N.add_0_r, <- Hn. exact Hno.
        * left. split; [reflexivity|]. rewrite all_events_cons, len_app. cbn [fst]. cbn. rewrite N.add_0_r, <- Hn. exact Hno.
      + right. rewrite E. cbn [app]. exists k, [], r0, (match r0 with ROk => fk_run cfg0 s0 h | _ => [] end), pre, post.
        rewrite Hs. cbn [app]. split; [exact Hk|]. split; [reflexivity|]. split; [reflexivity|]. cbn. lia.
  Qed.
End Sim.
