(* How chains behave when the store grows by a new block or when sent flags are set. *)
From BV Require Import Base.Prelude Model.Block Model.ForkDB
  Proofs.Fk.StoreFacts Proofs.Fk.WalkFacts Proofs.Fk.LoopFacts.
Local Open Scope N_scope.

Lemma find_snoc_old l en x e : find x l = Some e -> find x (l ++ [en]) = Some e.
Proof. intros H. rewrite find_app, H. reflexivity. Qed.

Lemma find_snoc_new l en : ~ In (key en) (keys l) -> find (key en) (l ++ [en]) = Some en.
Proof.
  intros H. rewrite find_app. apply find_none in H. rewrite H. cbn [find]. fold (key en). rewrite N.eqb_refl. reflexivity.
Qed.

Lemma chain_ext l en x y p : chain l x y p -> chain (l ++ [en]) x y p.
Proof.
  induction 1 as [x|x y e p Hne Hf Hc IH]; [constructor|].
  econstructor; [exact Hne | apply find_snoc_old; exact Hf | exact IH].
Qed.

Lemma chain_restrict l en : forall x y p, chain (l ++ [en]) x y p -> ~ In en p -> chain l x y p.
Proof.
  induction 1 as [x|x y e p Hne Hf Hc IH]; intros Hn; [constructor|].
  econstructor; [exact Hne | | apply IH; intros H; apply Hn; apply in_or_app; left; exact H].
  rewrite find_app in Hf. destruct (find x l) as [e'|] eqn:F; [exact Hf|].
  cbn [find] in Hf. destruct (bid (eb en) =? x); [|discriminate].
  injection Hf as <-. exfalso. apply Hn. apply in_or_app. right. left. reflexivity.
Qed.

(* refreshing entries: a store with the same blocks under the same keys *)
Lemma chain_refresh l l' (g : entry -> entry) :
  (forall e, eb (g e) = eb e) ->
  (forall x, find x l' = option_map g (find x l)) ->
  forall x y p, chain l x y p -> chain l' x y (map g p).
Proof.
  intros Hg Hfind x y p Hc. induction Hc as [x|x y e p Hne Hf Hc IH]; [constructor|].
  rewrite map_app. cbn [map]. econstructor; [exact Hne | rewrite Hfind, Hf; reflexivity |].
  rewrite Hg. exact IH.
Qed.

Definition flag_if (ids : list N) (e : entry) : entry :=
  if memN (key e) ids then mkEntry (eb e) true else e.

Lemma find_mark_all : forall segs l x,
  find x (mark_all l segs) = option_map (flag_if (map sid segs)) (find x l).
Proof.
  induction segs as [|sg segs IH]; intros l x; cbn [mark_all fold_left map].
  - destruct (find x l) as [e|]; cbn [option_map]; [|reflexivity]. unfold flag_if. reflexivity.
  - fold (mark_all (set_sent (sid sg) l) segs). rewrite IH, find_set_sent.
    destruct (find x l) as [e|] eqn:F; cbn [option_map]; [|reflexivity].
    pose proof (proj2 (find_some _ _ _ F)) as Hk.
    unfold flag_if. cbn [memN].
    destruct (N.eqb_spec x (sid sg)) as [E|E]; cbn [option_map].
    + unfold key in *. cbn [eb]. rewrite Hk, E, N.eqb_refl. cbn [orb].
      destruct (memN (sid sg) (map sid segs)); reflexivity.
    + unfold key in *. rewrite Hk. destruct (N.eqb_spec x (sid sg)); [contradiction|]. cbn [orb]. reflexivity.
Qed.

Lemma flag_if_eb ids e : eb (flag_if ids e) = eb e.
Proof. unfold flag_if. destruct (memN (key e) ids); reflexivity. Qed.

Lemma mark_all_keys : forall segs l, keys (mark_all l segs) = keys l.
Proof.
  induction segs as [|sg segs IH]; intros l; cbn [mark_all fold_left]; [reflexivity|].
  fold (mark_all (set_sent (sid sg) l) segs). rewrite IH. apply set_sent_keys.
Qed.

Lemma in_mark_all segs l e' : NoDup (keys l) -> In e' (mark_all l segs) ->
  exists e, In e l /\ e' = flag_if (map sid segs) e.
Proof.
  intros Hnd Hin.
  assert (Hnd' : NoDup (keys (mark_all l segs))) by (rewrite mark_all_keys; exact Hnd).
  pose proof (find_in_nodup _ _ Hnd' Hin) as F. rewrite find_mark_all in F.
  destruct (find (key e') l) as [e|] eqn:F0; cbn [option_map] in F; [|discriminate].
  injection F as <-. exists e. split; [apply find_some in F0; tauto | reflexivity].
Qed.
