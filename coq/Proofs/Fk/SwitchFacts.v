(* sentChainSwitchSegments of Model/Forkable.v over a well-formed store. *)
From BV Require Import Base.Prelude Model.Block Model.ForkDB Model.Forkable
  Proofs.Fk.StoreFacts Proofs.Fk.WalkFacts Proofs.Fk.LoopFacts.
Local Open Scope N_scope.

Lemma scs_some d flag : forall ids, Forall (stored d) ids -> exists l, sent_chain_segment d ids flag = Some l.
Proof.
  induction ids as [|x ids IH]; intros H; cbn [sent_chain_segment]; [eauto|].
  inversion H as [|? ? [e He] Hr]; subst. rewrite He. destruct (IH Hr) as [l ->].
  destruct (flag && negb (esent e)); eauto.
Qed.

(* the entries behind a list of stored ids *)
Lemma scs_entries d flag : forall p, NoDup (keys (store d)) -> Forall (fun e => In e (store d)) p ->
  sent_chain_segment d (map key p) flag = Some (filter (fun e => negb (flag && negb (esent e))) p).
Proof.
  intros p Hnd. induction p as [|e p IH]; intros H; cbn [map sent_chain_segment filter]; [reflexivity|].
  inversion H as [|? ? He Hr]; subst. rewrite (find_in_nodup _ _ Hnd He), (IH Hr).
  destruct (flag && negb (esent e)); reflexivity.
Qed.


(* a chain is a parent-linked run of blocks resting on its bottom id *)
Lemma chain_linked l x y p : chain l x y p -> linked y (map eb p) /\
  (forall q e, p = q ++ [e] -> key e = x).
Proof.
  induction 1 as [x|x y e p Hne Hf Hc [IH1 IH2]].
  - split; [exact I | intros q e H; destruct q; discriminate].
  - split.
    + destruct p as [|e' p'] using rev_ind.
      * apply chain_nil_inv in Hc. cbn. auto.
      * clear IHp'. rewrite !map_app. cbn [map]. rewrite map_app in IH1. cbn [map] in IH1.
        assert (G : forall (z : N) (a : list block) (b1 b2 : block), linked z (a ++ [b1]) -> bparent b2 = bid b1 -> linked z ((a ++ [b1]) ++ [b2])).
        { intros z a. revert z. induction a as [|h a IHa]; intros z b1 b2 Hl Hp; cbn [app linked] in *.
          - destruct Hl as [Hl _]. auto.
          - destruct Hl as [Hl1 Hl2]. split; [exact Hl1 | apply IHa; assumption]. }
        apply G; [exact IH1|]. rewrite <- (IH2 p' e' eq_refl). reflexivity.
    + intros q e0 H. apply app_inj_tail in H as [_ <-]. apply find_some in Hf. tauto.
Qed.

Lemma undo_head d : forall f cur l, undo_chain f d cur = Some l -> exists t, l = cur :: t.
Proof.
  destruct f as [|f]; intros cur l H; [discriminate|]. cbn [undo_chain] in H.
  destruct (link_of d cur =? 0); [injection H as <-; eauto|].
  destruct (undo_chain f d (link_of d cur)); [injection H as <-; eauto | discriminate].
Qed.

(* below a stored block the undo chain only meets strictly lower stored blocks *)
Lemma undo_chain_nums d : wf_store (store d) -> forall f cur t ec,
  undo_chain f d cur = Some (cur :: t) -> find cur (store d) = Some ec ->
  forall x e, In x t -> find x (store d) = Some e -> bnum (eb e) < bnum (eb ec).
Proof.
  intros Hwf. induction f as [|f IH]; intros cur t ec H Hf x e Hx He; [discriminate|].
  cbn [undo_chain] in H. rewrite (link_of_stored d cur ec Hf) in H.
  destruct (bparent (eb ec) =? 0); [injection H as <-; destruct Hx|].
  destruct (undo_chain f d (bparent (eb ec))) as [l'|] eqn:R; [|discriminate]. injection H as <-.
  destruct (undo_head _ _ _ _ R) as [t' ->].
  destruct Hx as [<-|Hx].
  - apply (ws_up _ Hwf ec e); [apply find_some in Hf; tauto | exact He].
  - destruct (find (bparent (eb ec)) (store d)) as [ep|] eqn:Fp.
    + pose proof (IH _ _ _ R Fp x e Hx He).
      pose proof (ws_up _ Hwf ec ep (proj1 (find_some _ _ _ Hf)) Fp). lia.
    + (* parent not stored: the chain stops there *)
      destruct f as [|f']; [discriminate|]. cbn [undo_chain] in R. unfold link_of in R. rewrite Fp in R.
      cbn in R. injection R as <-. destruct Hx.
Qed.

Lemma chain_not_bottom l x y p : chain l x y p -> forall e, In e p -> key e <> y.
Proof.
  induction 1 as [x|x y e p Hne Hf Hc IH]; intros a Ha; [destruct Ha|].
  apply in_app_or in Ha as [Ha|[<-|[]]]; [apply IH; exact Ha|].
  rewrite (proj2 (find_some _ _ _ Hf)). exact Hne.
Qed.

Lemma nodup_snoc {A} (l : list A) x : NoDup l -> ~ In x l -> NoDup (l ++ [x]).
Proof.
  induction l as [|y l IH]; intros Hn Hx; cbn [app]; [constructor; [intros []|constructor]|].
  inversion Hn as [|? ? Hy Hn']; subst. constructor.
  - intros H. apply in_app_or in H as [H|[H|[]]]; [contradiction | subst; apply Hx; left; reflexivity].
  - apply IH; [exact Hn' | intros H; apply Hx; right; exact H].
Qed.

Lemma chain_nodup l x y p : wf_store l -> chain l x y p -> NoDup (keys p).
Proof.
  intros Hwf Hc. induction Hc as [x|x y e p Hne Hf Hc IH]; [constructor|].
  unfold keys. rewrite map_app. cbn [map]. fold (keys p).
  apply nodup_snoc; [exact IH|].
  intros Hin. apply keys_split in Hin as (A & a & B & -> & Hk).
  assert (Ha : In a l) by (eapply chain_in; [exact Hc | apply in_or_app; right; left; reflexivity]).
  pose proof (find_some _ _ _ Hf) as [He Hke].
  assert (a = e).
  { pose proof (find_in_nodup l a (ws_nodup l Hwf) Ha) as F1.
    pose proof (find_in_nodup l e (ws_nodup l Hwf) He) as F2. rewrite Hk in F1. rewrite Hke in F2. congruence. }
  subst a.
  destruct (find (bparent (eb e)) l) as [e'|] eqn:F'.
  - assert (Hine : In e (A ++ e :: B)) by (apply in_or_app; right; left; reflexivity).
    pose proof (chain_le_top l y Hwf _ _ Hc e Hine e' F').
    pose proof (ws_up l Hwf e e' He F'). lia.
  - pose proof (chain_unstored _ _ _ _ F' Hc) as Hnil. destruct A; discriminate.
Qed.

(* ---------- sentChainSwitchSegments never panics or runs out of fuel ---------- *)

Lemma memN_in x l : memN x l = true <-> In x l.
Proof.
  induction l as [|y l IH]; cbn [memN In]; [split; [discriminate|tauto]|].
  rewrite orb_true_iff, N.eqb_eq, IH. split; intros [H|H]; auto.
Qed.

Lemma take_until_stored d j : forall body lst, Forall (stored d) body -> In j (body ++ [lst]) ->
  Forall (stored d) (take_until j (body ++ [lst])).
Proof.
  induction body as [|x body IH]; intros lst Hb Hj; cbn [app take_until].
  - destruct Hj as [->|[]]. rewrite N.eqb_refl. constructor.
  - destruct (N.eqb_spec x j) as [E|E]; [constructor|].
    inversion Hb as [|? ? Hx Hb']; subst. constructor; [exact Hx|].
    apply IH; [exact Hb'|]. destruct Hj as [H|H]; [contradiction|exact H].
Qed.

Lemma scss_total d h np : wf_store (store d) ->
  exists u r j, sent_chain_switch_segments d h np = ScssOk u r j.
Proof.
  intros Hwf. unfold sent_chain_switch_segments. destruct (h =? np); [eauto|].
  unfold chain_switch_segments.
  destruct (undo_total d Hwf (fuel_of d) h (enough_fuel_of d h)) as [t Ht]. rewrite Ht.
  destruct (redo_total d (h :: t) Hwf (fuel_of d) np [] (enough_fuel_of d np)) as [r Hr]. rewrite Hr.
  destruct r as [[redo j]|]; [|eauto].
  destruct (redo_stored d _ _ _ _ _ _ Hr (Forall_nil _)) as [Hredo Hj].
  destruct (undo_stored d _ _ _ Ht) as (body & lst & Heq & Hbody & _).
  apply memN_in in Hj. rewrite Heq in Hj |- *.
  destruct (scs_some d false _ (take_until_stored d j body lst Hbody Hj)) as [lu ->].
  destruct (scs_some d true _ Hredo) as [lr ->]. eauto.
Qed.

(* ---------- the linking case ---------- *)

Lemma take_until_app j a b : ~ In j a -> take_until j (a ++ j :: b) = a.
Proof.
  induction a as [|x a IH]; intros H; cbn [app take_until]; [rewrite N.eqb_refl; reflexivity|].
  destruct (N.eqb_spec x j) as [E|E]; [exfalso; apply H; left; exact E|].
  f_equal. apply IH. intros Hin. apply H. right. exact Hin.
Qed.

Lemma chain_entries_in l x y p : chain l x y p -> Forall (fun e => In e l) p.
Proof. intros Hc. apply Forall_forall. intros e He. eapply chain_in; eassumption. Qed.

Lemma undo_tail d : wf_store (store d) -> forall x y p, chain (store d) x y p -> y <> 0 ->
  forall f t, undo_chain f d x = Some (rev (map key p) ++ y :: t) -> exists f0, undo_chain f0 d y = Some (y :: t).
Proof.
  intros Hwf x y p HH Hy0. induction HH as [x|x y e p Hne Hf Hc IH]; intros f t Ht.
  - cbn [map rev app] in Ht. eauto.
  - destruct f as [|f]; [discriminate|]. cbn [undo_chain] in Ht. rewrite (link_of_stored d x e Hf) in Ht.
    assert (Hp : bparent (eb e) <> 0).
    { apply (chain_parent_nz _ x y (p ++ [e]) Hwf Hy0); [econstructor; eassumption | apply in_or_app; right; left; reflexivity]. }
    destruct (N.eqb_spec (bparent (eb e)) 0); [contradiction|].
    destruct (undo_chain f d (bparent (eb e))) as [l'|] eqn:R; [|discriminate].
    injection Ht as Ht. rewrite map_app, rev_app_distr in Ht. cbn [map rev app] in Ht. injection Ht as _ Ht.
    apply (IH Hy0 f). rewrite R, Ht. reflexivity.
Qed.

Lemma nodup_app_disj {A} (a b : list A) x : NoDup (a ++ b) -> In x a -> ~ In x b.
Proof.
  induction a as [|y a IH]; intros Hn Ha Hb; [destruct Ha|].
  cbn [app] in Hn. inversion Hn as [|? ? Hy Hn']; subst. destruct Ha as [->|Ha].
  - apply Hy. apply in_or_app. right. exact Hb.
  - exact (IH Hn' Ha Hb).
Qed.

Lemma scss_link d lib hd np pH pP : wf_store (store d) -> lib <> 0 -> hd <> np ->
  chain (store d) hd lib pH -> chain (store d) np lib pP ->
  (* the walk above the LIB never meets the part of the undo chain below the LIB *)
  (forall f t e, undo_chain f d lib = Some (lib :: t) -> In e pP -> ~ In (key e) t) ->
  exists C R Uh junc,
    pP = C ++ R /\ pH = C ++ Uh /\
    sent_chain_switch_segments d hd np = ScssOk (rev Uh) (filter esent R) junc.
Proof.
  intros Hwf Hlib0 Hne HH HP Htail.
  destruct (meet _ _ _ _ Hwf HH np pP HP) as (C & R & j & HeqP & HR & Hdis & Hj).
  destruct (undo_chain_chain d Hwf _ _ _ HH Hlib0 (fuel_of d) (enough_fuel_of d hd)) as [t Ht].
  destruct (undo_tail d Hwf _ _ _ HH Hlib0 _ _ Ht) as [f0 Hf0].
  assert (Hj0 : j <> 0).
  { destruct Hj as [[_ ->]|(C0 & ej & Uh & HC & Hk & HpH)]; [exact Hlib0|].
    rewrite <- Hk. apply (ws_id _ Hwf ej). eapply chain_in; [exact HH|]. rewrite HpH, HC.
    apply in_or_app. left. apply in_or_app. right. left. reflexivity. }
  (* in both cases pH = C ++ Uh and the undo chain reads  rev (keys Uh) ++ j :: rest *)
  assert (Hsplit : exists Uh rest, pH = C ++ Uh /\ rev (map key pH) ++ lib :: t = rev (map key Uh) ++ j :: rest /\ ~ In j (rev (map key Uh))).
  { destruct Hj as [[-> ->]|(C0 & ej & Uh & -> & Hk & HpH)].
    - exists pH, t. repeat split. intros Hin. apply in_rev in Hin. apply in_map_iff in Hin as (e & Hke & Hin).
      exact (chain_not_bottom _ _ _ _ HH e Hin Hke).
    - exists Uh, (rev (map key C0) ++ lib :: t). split; [exact HpH|]. split.
      + rewrite HpH, !map_app, !rev_app_distr. cbn [map rev app]. rewrite Hk, <- !app_assoc. cbn [app]. reflexivity.
      + intros Hin. apply in_rev in Hin.
        pose proof (chain_nodup _ _ _ _ Hwf HH) as Hnd. rewrite HpH in Hnd. unfold keys in Hnd. rewrite map_app in Hnd.
        refine (nodup_app_disj _ _ j Hnd _ Hin). rewrite map_app. apply in_or_app. right. left. exact Hk. }
  destruct Hsplit as (Uh & rest & HpH & Huc & Hjn).
  exists C, R, Uh.
  unfold sent_chain_switch_segments. destruct (N.eqb_spec hd np) as [E|_]; [contradiction|].
  unfold chain_switch_segments. rewrite Ht.
  assert (Hredo : redo_chain (fuel_of d) d (rev (map key pH) ++ lib :: t) np [] = Some (Some (map key R ++ [], j))).
  { apply redo_chain_chain; [exact Hwf | exact HR | exact Hj0 | | | apply enough_fuel_of].
    - intros e He. destruct (memN (key e) (rev (map key pH) ++ lib :: t)) eqn:M; [|reflexivity].
      exfalso. apply memN_in in M. apply in_app_or in M as [M|[M|M]].
      + apply in_rev in M. apply (proj1 (Hdis e He)). exact M.
      + apply (proj2 (Hdis e He)). symmetry. exact M.
      + apply (Htail f0 t e Hf0); [rewrite HeqP; apply in_or_app; right; exact He | exact M].
    - apply memN_in. rewrite Huc. apply in_or_app. right. left. reflexivity. }
  rewrite Hredo, app_nil_r, Huc, (take_until_app j _ rest Hjn).
  (* the ids are those of stored entries *)
  assert (HinH : Forall (fun e => In e (store d)) (rev Uh)).
  { apply Forall_forall. intros e He. apply in_rev in He. eapply chain_in; [exact HH|]. rewrite HpH. apply in_or_app. right. exact He. }
  assert (HinR : Forall (fun e => In e (store d)) R).
  { apply Forall_forall. intros e He. eapply chain_in; [exact HP|]. rewrite HeqP. apply in_or_app. right. exact He. }
  rewrite <- map_rev.
  rewrite (scs_entries d false (rev Uh) (ws_nodup _ Hwf) HinH), (scs_entries d true R (ws_nodup _ Hwf) HinR).
  eexists. split; [exact HeqP|]. split; [exact HpH|].
  f_equal.
  - clear. induction (rev Uh) as [|e l IH]; cbn [filter]; [reflexivity|]. cbn. f_equal. exact IH.
  - clear. induction R as [|e l IH]; cbn [filter]; [reflexivity|]. destruct (esent e); cbn; [f_equal|]; exact IH.
Qed.
