(* The handler oracle.  A configuration whose handler fails at call number k behaves like the same
   configuration with a handler that never fails, up to the failing call: every delivery loop of
   Model/Forkable.v, process_tail, process_initial_inclusive and fk_step deliver the same events in
   the same order; the failing call is the last event of its step, the step returns RHandlerErr.
   No hypothesis on the history or on the state: a property of the model alone. *)
From BV Require Import Base.Prelude Model.Block Model.ForkDB Model.Forkable.
Local Open Scope N_scope.

Definition nofail (cfg : config) : config :=
  mkCfg (c_first cfg) (c_incl cfg) (c_hold cfg) (c_kept cfg) (c_alltrig cfg) (c_filter cfg) None.

Definition bump (s : fstate) : fstate := mkFS (db s) (last_sent s) (last_lib_seen s) (ncalls s + 1).

Section Fail.
  Variable cfg : config.
  Variable k : N.
  Hypothesis Hfail : c_fail_at cfg = Some k.

  Notation cfgN := (nofail cfg).

  Lemma call_N s : call cfgN s = (bump s, true).
  Proof. reflexivity. Qed.

  Lemma call_F s : call cfg s = (bump s, negb (k =? ncalls s)).
  Proof. unfold call. rewrite Hfail. reflexivity. Qed.

  (* resN: the run with the handler that never fails; res: the run with the oracle; acc: events
     delivered before the loop *)
  Definition fail_rel (s : fstate) (acc : list event) (resN res : fstate * list event * bool) : Prop :=
    let '(sN, evsN, okN) := resN in
    okN = true /\ exists evs, evsN = acc ++ evs /\ ncalls sN = ncalls s + N.of_nat (length evs) /\
      (ncalls s <= k ->
       (ncalls s + N.of_nat (length evs) <= k -> res = resN) /\
       (k < ncalls s + N.of_nat (length evs) ->
        exists se evs1 evs2, evs = evs1 ++ evs2 /\ N.of_nat (length evs1) = k - ncalls s + 1 /\
                             res = (se, acc ++ evs1, false))).

  Lemma fail_rel_none s acc : fail_rel s acc (s, acc, true) (s, acc, true).
  Proof.
    cbn. split; [reflexivity|]. exists []. rewrite app_nil_r. split; [reflexivity|]. split; [cbn; lia|].
    intros Hk. split; [reflexivity | cbn; lia].
  Qed.

  (* one delivered event followed by the rest of a loop *)
  Lemma fail_rel_step s acc ev (restN restF : fstate * list event * bool) :
    fail_rel (bump s) (acc ++ [ev]) restN restF ->
    fail_rel s acc restN (if negb (k =? ncalls s) then restF else (bump s, acc ++ [ev], false)).
  Proof.
    destruct restN as [[sN evsN] okN]. cbn [fail_rel]. intros (Hok & evs & Hev & Hn & Hrel).
    split; [exact Hok|]. exists (ev :: evs). split; [rewrite Hev, <- app_assoc; reflexivity|].
    cbn [bump ncalls length] in *. split; [lia|]. intros Hk.
    destruct (N.eqb_spec k (ncalls s)) as [E|E]; cbn [negb].
    - split; [lia|]. intros _. exists (bump s), [ev], evs. split; [reflexivity|]. split; [cbn; lia | reflexivity].
    - assert (Hk' : ncalls s + 1 <= k) by lia. destruct (Hrel Hk') as [HA HB]. split.
      + intros H. apply HA. lia.
      + intros H. destruct HB as (se & e1 & e2 & He & Hl & Hr); [lia|].
        exists se, (ev :: e1), e2. split; [rewrite He; reflexivity|]. split; [cbn [length]; lia|].
        rewrite Hr, <- app_assoc. reflexivity.
  Qed.

  (* a state change that keeps the call counter *)
  Lemma fail_rel_state s s' acc resN res : ncalls s' = ncalls s -> fail_rel s' acc resN res -> fail_rel s acc resN res.
  Proof. destruct resN as [[sN evsN] okN]. cbn [fail_rel]. intros ->. auto. Qed.

  Lemma pbl_fail cur st junc count : forall blocks idx s acc,
    fail_rel s acc (process_blocks_loop cfgN cur st junc count idx blocks s acc)
                   (process_blocks_loop cfg cur st junc count idx blocks s acc).
  Proof.
    induction blocks as [|e rest IH]; intros idx s acc; cbn [process_blocks_loop].
    - apply fail_rel_none.
    - rewrite call_N, call_F. cbv beta iota.
      set (ev := mkEv st (eb e) (bref (eb e)) (bref cur) (cursor_lib s) (if matches_undo st then junc else None) idx count).
      apply (fail_rel_step s acc ev). apply IH.
  Qed.

  Lemma pnl_fail head : forall chain s acc,
    fail_rel s acc (process_new_loop cfgN head chain s acc) (process_new_loop cfg head chain s acc).
  Proof.
    induction chain as [|b rest IH]; intros s acc; cbn [process_new_loop].
    - apply fail_rel_none.
    - destruct (esent (sent b)); [apply IH|].
      change (c_filter cfgN) with (c_filter cfg). destruct (f_new (c_filter cfg)).
      + rewrite call_N, call_F. cbv beta iota.
        set (ev := mkEv SNew (eb (sent b)) (seg_ref b) head (cursor_lib s) None 0 0).
        apply (fail_rel_step s acc ev). eapply fail_rel_state; [|apply IH]. reflexivity.
      + eapply fail_rel_state; [|apply IH]. reflexivity.
  Qed.

  Lemma pil_fail head count : forall l idx s acc,
    fail_rel s acc (process_irr_loop cfgN head count idx l s acc) (process_irr_loop cfg head count idx l s acc).
  Proof.
    induction l as [|b rest IH]; intros idx s acc; cbn [process_irr_loop].
    - apply fail_rel_none.
    - rewrite call_N, call_F. cbv beta iota.
      set (ev := mkEv SIrr (eb (sent b)) (bref (eb (sent b))) head (bref (eb (sent b))) None idx count).
      apply (fail_rel_step s acc ev). apply IH.
  Qed.

  Lemma psl_fail head count : forall l idx s acc,
    fail_rel s acc (process_stalled_loop cfgN head count idx l s acc) (process_stalled_loop cfg head count idx l s acc).
  Proof.
    induction l as [|b rest IH]; intros idx s acc; cbn [process_stalled_loop].
    - apply fail_rel_none.
    - rewrite call_N, call_F. cbv beta iota.
      set (ev := mkEv SStalled (eb (sent b)) (seg_ref b) head (last_lib_seen s) None idx count).
      apply (fail_rel_step s acc ev). apply IH.
  Qed.

  Lemma fail_rel_same s s' acc : ncalls s' = ncalls s -> fail_rel s acc (s', acc, true) (s', acc, true).
  Proof.
    intros Hn. cbn. split; [reflexivity|]. exists []. rewrite app_nil_r. split; [reflexivity|]. split; [cbn; lia|].
    intros Hk. split; [reflexivity | cbn; lia].
  Qed.

  (* ---------- the delivery procedures ---------- *)

  Lemma pb_fail cur blocks st junc s :
    fail_rel s [] (process_blocks cfgN cur blocks st junc s) (process_blocks cfg cur blocks st junc s).
  Proof. unfold process_blocks. apply pbl_fail. Qed.

  Lemma pnb_fail chain s : fail_rel s [] (process_new_blocks cfgN chain s) (process_new_blocks cfg chain s).
  Proof. unfold process_new_blocks. destruct chain; [apply fail_rel_none | apply pnl_fail]. Qed.

  Lemma pis_fail irr head s :
    fail_rel s [] (process_irr_segment cfgN irr head s) (process_irr_segment cfg irr head s).
  Proof.
    unfold process_irr_segment. change (c_filter cfgN) with (c_filter cfg).
    assert (H : fail_rel s []
      (if f_irr (c_filter cfg) then process_irr_loop cfgN head (N.of_nat (length irr)) 0 irr s [] else (s, [], true))
      (if f_irr (c_filter cfg) then process_irr_loop cfg head (N.of_nat (length irr)) 0 irr s [] else (s, [], true))).
    { destruct (f_irr (c_filter cfg)); [apply pil_fail | apply fail_rel_none]. }
    destruct (if f_irr (c_filter cfg) then process_irr_loop cfgN head (N.of_nat (length irr)) 0 irr s [] else (s, [], true))
      as [[s1N evN] okN].
    destruct (if f_irr (c_filter cfg) then process_irr_loop cfg head (N.of_nat (length irr)) 0 irr s [] else (s, [], true))
      as [[s1F evF] okF].
    cbn [fail_rel] in H. destruct H as (-> & evs & Hev & Hn & Hrel).
    set (g := fun s1 : fstate => match irr with [] => s1 | b0 :: _ => mkFS (db s1) (last_sent s1) (seg_ref (last irr b0)) (ncalls s1) end).
    assert (Hg : forall s1, ncalls (g s1) = ncalls s1) by (intros s1; unfold g; destruct irr; reflexivity).
    assert (EN : match irr with [] => (s1N, evN, true) | b0 :: _ => (mkFS (db s1N) (last_sent s1N) (seg_ref (last irr b0)) (ncalls s1N), evN, true) end
                 = (g s1N, evN, true)) by (unfold g; destruct irr; reflexivity).
    rewrite EN. cbn [fail_rel]. split; [reflexivity|]. exists evs. split; [exact Hev|]. split; [rewrite Hg; exact Hn|].
    intros Hk. destruct (Hrel Hk) as [HA HB]. split.
    - intros H. specialize (HA H). injection HA as -> -> ->. exact EN.
    - intros H. destruct (HB H) as (se & e1 & e2 & He & Hl & Hr). injection Hr as -> -> ->.
      exists se, e1, e2. auto.
  Qed.

  Lemma pss_fail l head s :
    fail_rel s [] (process_stalled_segment cfgN l head s) (process_stalled_segment cfg l head s).
  Proof.
    unfold process_stalled_segment. change (c_filter cfgN) with (c_filter cfg).
    destruct (f_stalled (c_filter cfg)); [apply psl_fail | apply fail_rel_none].
  Qed.

  (* ---------- sequencing ---------- *)

  Definition step_rel' (s : fstate) (pre : list event) (resN res : fstate * list event * result) : Prop :=
    let '(sN, evsN, rN) := resN in
    rN <> RHandlerErr /\ exists evs, evsN = pre ++ evs /\ ncalls sN = ncalls s + N.of_nat (length evs) /\
      (ncalls s <= k ->
       (ncalls s + N.of_nat (length evs) <= k -> res = resN) /\
       (k < ncalls s + N.of_nat (length evs) ->
        exists se evs1 evs2, evs = evs1 ++ evs2 /\ N.of_nat (length evs1) = k - ncalls s + 1 /\
                             res = (se, pre ++ evs1, RHandlerErr))).

  Lemma step_rel_done s s' pre r : r <> RHandlerErr -> ncalls s' = ncalls s -> step_rel' s pre (s', pre, r) (s', pre, r).
  Proof.
    intros Hr Hn. cbn. split; [exact Hr|]. exists []. rewrite app_nil_r. split; [reflexivity|]. split; [cbn; lia|].
    intros Hk. split; [reflexivity | cbn; lia].
  Qed.

  Lemma seq_rel s pre (errl : list event -> list event) phN phF
        (contN contF : fstate -> list event -> fstate * list event * result) :
    (forall ev, errl ev = pre ++ ev) ->
    fail_rel s [] phN phF ->
    (forall s1 ev, step_rel' s1 (pre ++ ev) (contN s1 ev) (contF s1 ev)) ->
    step_rel' s pre
      (let '(s1, ev, ok) := phN in if negb ok then (s1, errl ev, RHandlerErr) else contN s1 ev)
      (let '(s1, ev, ok) := phF in if negb ok then (s1, errl ev, RHandlerErr) else contF s1 ev).
  Proof.
    intros Herr Hph Hcont. destruct phN as [[s1 ev] ok]. cbn [fail_rel] in Hph.
    destruct Hph as (-> & evs & Hev & Hn & Hrel). cbn [app] in Hev. subst evs. cbn [negb].
    specialize (Hcont s1 ev). destruct (contN s1 ev) as [[sN evsN] rN]. cbn [step_rel'] in *.
    destruct Hcont as (Hr & evs' & Hev' & Hn' & Hrel').
    split; [exact Hr|]. exists (ev ++ evs'). split; [rewrite Hev', app_assoc; reflexivity|].
    rewrite app_length, Nat2N.inj_add. split; [lia|]. intros Hk. destruct (Hrel Hk) as [HA HB]. split.
    - intros H. rewrite HA by lia. cbn [negb]. apply Hrel'; lia.
    - intros H. destruct (N.lt_ge_cases k (ncalls s + N.of_nat (length ev))) as [Hlt|Hge].
      + destruct (HB Hlt) as (se & e1 & e2 & He & Hl & ->). cbn [negb app].
        exists se, e1, (e2 ++ evs'). split; [rewrite He, app_assoc; reflexivity|]. split; [exact Hl|].
        rewrite Herr. reflexivity.
      + rewrite HA by lia. cbn [negb]. assert (Hk1 : ncalls s1 <= k) by lia.
        destruct (Hrel' Hk1) as [_ HB']. destruct HB' as (se & e1 & e2 & He & Hl & ->); [lia|].
        exists se, (ev ++ e1), e2. split; [rewrite He, app_assoc; reflexivity|]. split.
        * rewrite app_length, Nat2N.inj_add. lia.
        * rewrite app_assoc. reflexivity.
  Qed.

  Lemma last_rel s pre (outl : list event -> list event) phN phF :
    (forall ev, outl ev = pre ++ ev) ->
    fail_rel s [] phN phF ->
    step_rel' s pre
      (let '(s1, ev, ok) := phN in (s1, outl ev, if ok then ROk else RHandlerErr))
      (let '(s1, ev, ok) := phF in (s1, outl ev, if ok then ROk else RHandlerErr)).
  Proof.
    intros Hout Hph. destruct phN as [[s1 ev] ok]. cbn [fail_rel] in Hph.
    destruct Hph as (-> & evs & Hev & Hn & Hrel). cbn [app] in Hev. subst evs. cbn [step_rel'].
    split; [discriminate|]. exists ev. split; [apply Hout|]. split; [exact Hn|].
    intros Hk. destruct (Hrel Hk) as [HA HB]. split.
    - intros H. rewrite (HA H). reflexivity.
    - intros H. destruct (HB H) as (se & e1 & e2 & He & Hl & ->). cbn [app].
      exists se, e1, e2. split; [exact He|]. split; [exact Hl|]. rewrite Hout. reflexivity.
  Qed.

  Lemma seq_bool s ph1N ph1F (ph2N ph2F : fstate -> fstate * list event * bool) :
    fail_rel s [] ph1N ph1F -> (forall s1, fail_rel s1 [] (ph2N s1) (ph2F s1)) ->
    fail_rel s []
      (let '(s1, ev1, ok1) := ph1N in
       if ok1 then let '(s2, ev2, ok2) := ph2N s1 in (s2, ev1 ++ ev2, ok2) else (s1, ev1, false))
      (let '(s1, ev1, ok1) := ph1F in
       if ok1 then let '(s2, ev2, ok2) := ph2F s1 in (s2, ev1 ++ ev2, ok2) else (s1, ev1, false)).
  Proof.
    intros H1 H2. destruct ph1N as [[s1 ev1] ok1]. cbn [fail_rel] in H1.
    destruct H1 as (-> & evs & Hev & Hn & Hrel). cbn [app] in Hev. subst evs.
    specialize (H2 s1). destruct (ph2N s1) as [[s2 ev2] ok2]. cbn [fail_rel] in *.
    destruct H2 as (-> & evs2 & Hev2 & Hn2 & Hrel2). cbn [app] in Hev2. subst evs2.
    split; [reflexivity|]. exists (ev1 ++ ev2). split; [reflexivity|].
    rewrite app_length, Nat2N.inj_add. split; [lia|]. intros Hk. destruct (Hrel Hk) as [HA HB]. split.
    - intros H. rewrite HA by lia. assert (Hk1 : ncalls s1 <= k) by lia.
      destruct (Hrel2 Hk1) as [HA2 _]. rewrite HA2 by lia. reflexivity.
    - intros H. destruct (N.lt_ge_cases k (ncalls s + N.of_nat (length ev1))) as [Hlt|Hge].
      + destruct (HB Hlt) as (se & e1 & e2 & He & Hl & ->). cbn [app].
        exists se, e1, (e2 ++ ev2). split; [rewrite He, app_assoc; reflexivity|]. auto.
      + rewrite HA by lia. assert (Hk1 : ncalls s1 <= k) by lia.
        destruct (Hrel2 Hk1) as [_ HB2]. destruct HB2 as (se & e1 & e2 & He & Hl & ->); [lia|]. cbn [app].
        exists se, (ev1 ++ e1), e2. split; [rewrite He, app_assoc; reflexivity|]. split; [|reflexivity].
        rewrite app_length, Nat2N.inj_add. lia.
  Qed.

  Lemma step_rel_state s s' pre resN res : ncalls s' = ncalls s -> step_rel' s' pre resN res -> step_rel' s pre resN res.
  Proof. destruct resN as [[sN evsN] rN]. cbn [step_rel']. intros ->. auto. Qed.

  Ltac done_rel := apply step_rel_done; [discriminate | reflexivity].

  (* ---------- process_tail ---------- *)

  Lemma tail_fail s b undos redos junc longest fi :
    step_rel' s [] (process_tail cfgN s b undos redos junc longest fi) (process_tail cfg s b undos redos junc longest fi).
  Proof.
    unfold process_tail. change (c_filter cfgN) with (c_filter cfg). change (c_first cfgN) with (c_first cfg).
    change (c_kept cfgN) with (c_kept cfg). cbv zeta.
    eapply (seq_rel s [] (fun ev => ev)).
    { reflexivity. }
    { destruct (f_undo (c_filter cfg)); [apply pb_fail | apply fail_rel_none]. }
    intros s1 ev1. cbn [app].
    eapply (seq_rel s1 ev1 (fun ev => ev1 ++ ev)).
    { reflexivity. }
    { destruct (f_new (c_filter cfg)); [apply pb_fail | apply fail_rel_none]. }
    intros s2 ev2.
    eapply (seq_rel s2 (ev1 ++ ev2) (fun ev => ev1 ++ ev2 ++ ev)).
    { intros ev. apply app_assoc. }
    { apply pnb_fail. }
    intros s3 ev3. rewrite <- app_assoc.
    destruct (last_sent s3) as [ls|]; [|done_rel].
    destruct (negb (has_lib (db s3))); [done_rel|].
    destruct (block_in_chain (db s3) (bref ls) (blib ls)) as [libr|]; [|done_rel].
    destruct (ri libr =? 0); [done_rel|].
    destruct (has_new_irr_segment (db s3) (c_first cfg) libr) as [[[hn irr0] st]|]; [|done_rel].
    destruct (negb hn && match fi with Some _ => false | None => true end); [done_rel|].
    apply (step_rel_state s3 (with_db s3 (purge_before_lib (move_lib (db s3) libr) (c_kept cfg)))); [reflexivity|].
    eapply (seq_rel _ (ev1 ++ ev2 ++ ev3) (fun ev => (ev1 ++ ev2 ++ ev3) ++ ev)).
    { reflexivity. }
    { apply pis_fail. }
    intros s5 ev5.
    apply (last_rel s5 ((ev1 ++ ev2 ++ ev3) ++ ev5) (fun ev => (ev1 ++ ev2 ++ ev3) ++ ev5 ++ ev)).
    { intros ev. apply app_assoc. }
    apply pss_fail.
  Qed.

  (* ---------- processInitialInclusiveIrreversibleBlock ---------- *)

  Lemma pii_fail b s : fail_rel s [] (process_initial_inclusive cfgN b s) (process_initial_inclusive cfg b s).
  Proof.
    unfold process_initial_inclusive. change (c_filter cfgN) with (c_filter cfg). cbv zeta.
    eapply (seq_bool s _ _ (fun s1 => process_irr_segment cfgN [mkSeg (bid b) (bnum b) (mkEntry b false)] (bref b) s1)
                           (fun s1 => process_irr_segment cfg [mkSeg (bid b) (bnum b) (mkEntry b false)] (bref b) s1)).
    - destruct (f_new (c_filter cfg)).
      + rewrite call_N, call_F. cbv beta iota.
        set (ev := mkEv SNew b (seg_ref (mkSeg (bid b) (bnum b) (mkEntry b false))) (seg_ref (mkSeg (bid b) (bnum b) (mkEntry b false))) (cursor_lib s) None 0 0).
        set (X := mkFS (db (bump s)) (Some b) (last_lib_seen (bump s)) (ncalls (bump s))).
        apply (fail_rel_step s [] ev (X, [ev], true) (X, [ev], true)).
        apply (fail_rel_same (bump s) X). reflexivity.
      + apply fail_rel_same. reflexivity.
    - intros s1. apply pis_fail.
  Qed.

  (* ---------- ProcessBlock ---------- *)

  Lemma cont_fail s s2 b undos redos junc fi (hold trig : bool) : ncalls s2 = ncalls s ->
    step_rel' s []
      (if hold then (s2, [], ROk) else
       match reversible_segment (db s2) (c_first cfg) (bref b) with
       | None => (s2, [], RFuel)
       | Some (longest, _) =>
           if negb trig || (match longest with [] => true | _ => false end) then (s2, [], ROk)
           else process_tail cfgN s2 b undos redos junc longest fi
       end)
      (if hold then (s2, [], ROk) else
       match reversible_segment (db s2) (c_first cfg) (bref b) with
       | None => (s2, [], RFuel)
       | Some (longest, _) =>
           if negb trig || (match longest with [] => true | _ => false end) then (s2, [], ROk)
           else process_tail cfg s2 b undos redos junc longest fi
       end).
  Proof.
    intros Hn. destruct hold; [apply step_rel_done; [discriminate | exact Hn]|].
    destruct (reversible_segment (db s2) (c_first cfg) (bref b)) as [[longest reach]|];
      [|apply step_rel_done; [discriminate | exact Hn]].
    destruct (negb trig || match longest with [] => true | _ => false end);
      [apply step_rel_done; [discriminate | exact Hn]|].
    apply (step_rel_state s s2); [exact Hn | apply tail_fail].
  Qed.

  Lemma pii_step s s2 b : ncalls s2 = ncalls s ->
    step_rel' s []
      (let '(s', evs, ok) := process_initial_inclusive cfgN b s2 in (s', evs, if ok then ROk else RHandlerErr))
      (let '(s', evs, ok) := process_initial_inclusive cfg b s2 in (s', evs, if ok then ROk else RHandlerErr)).
  Proof.
    intros Hn. apply (step_rel_state s s2); [exact Hn|].
    apply (last_rel s2 [] (fun ev => ev)); [reflexivity | apply pii_fail].
  Qed.

  Theorem step_fail s b : step_rel' s [] (fk_step cfgN s b) (fk_step cfg s b).
  Proof.
    unfold fk_step, triggers.
    change (c_filter cfgN) with (c_filter cfg). change (c_first cfgN) with (c_first cfg).
    change (c_incl cfgN) with (c_incl cfg). change (c_hold cfgN) with (c_hold cfg).
    change (c_alltrig cfgN) with (c_alltrig cfg).
    set (trig := c_alltrig cfg || match last_sent s with None => true | Some l => bnum l <? bnum b end).
    destruct (bid b =? bparent b); [done_rel|].
    destruct ((bnum b <? rn (libref (db s))) && match last_sent s with Some _ => true | None => false end); [done_rel|].
    destruct (c_incl cfg && match last_sent s with None => true | Some _ => false end && (bid b =? ri (libref (db s)))).
    { apply pii_step. reflexivity. }
    destruct (if f_undo (c_filter cfg) && trig
              then match last_sent s with Some ls => sent_chain_switch_segments (db s) (bid ls) (bparent b) | None => ScssOk [] [] None end
              else ScssOk [] [] None) as [undos redos junc| |]; [|done_rel|done_rel].
    destruct (add_link (db s) b) as [d1 existed]. destruct existed; [done_rel|]. cbv zeta.
    destruct (has_lib d1).
    - apply (cont_fail s (with_db s d1) b undos redos junc None false trig). reflexivity.
    - destruct (set_lib d1 (c_first cfg) (bref b) (blib b)) as [d2|]; [|done_rel].
      destruct (has_lib d2).
      + destruct (rn (libref d2) =? bnum b).
        * apply pii_step. reflexivity.
        * apply (cont_fail s (with_db (with_db s d1) d2) b undos redos junc (block_for_id d2 (ri (libref d2))) false trig). reflexivity.
      + apply (cont_fail s (with_db (with_db s d1) d2) b undos redos junc None (c_hold cfg) trig). reflexivity.
  Qed.
End Fail.
