(* C01 / C02 on the Forkable model in DISCOVERY mode (no configured LIB, hold-until-LIB): blocks are
   stored without any delivery until a block declares as LIB number the height of a stored ancestor (or is
   its own LIB); from that step on the run is a run of the rooted mode with the discovered LIB as r0. *)
From BV Require Import Base.Prelude Model.Block Model.ForkDB Model.Forkable Spec.Consumer Spec.Universe
  Proofs.Fk.StoreFacts Proofs.Fk.WalkFacts Proofs.Fk.LoopFacts Proofs.Fk.StoreChange Proofs.Fk.SwitchFacts
  Proofs.Fk.FixedLib Proofs.Fk.MovingLibStore Proofs.Fk.MovingLibWalk Proofs.Fk.MovingLibLoops
  Proofs.Fk.MovingLibInv Proofs.Fk.MovingLibFin.
Local Open Scope N_scope.

Section DiscU.
  Variable U : list block.
  Hypothesis U_id : forall b, In b U -> bid b <> 0 /\ bparent b <> 0 /\ bid b <> bparent b.
  Hypothesis U_uniq : forall x y, In x U -> In y U -> bid x = bid y -> x = y.
  Hypothesis U_up : forall x y, In x U -> In y U -> bparent x = bid y -> bnum y < bnum x.

  Notation in_U := (in_U U).

  (* ---------- parent walks in the universe ---------- *)

  Lemma uc_le x l : uchain U x l -> In x U -> forall a, In a l -> bnum a <= bnum x.
  Proof.
    induction 1 as [b Hb|b p l Hp Hc IH]; intros Hx a Ha.
    - destruct Ha as [<-|[]]. apply N.le_refl.
    - destruct Ha as [<-|Ha]; [apply N.le_refl|]. destruct (lookup_sound _ _ _ Hp) as [HpU Hpid].
      pose proof (U_up b p Hx HpU (eq_sym Hpid)) as H1. specialize (IH HpU a Ha).
      apply N.lt_le_incl. eapply N.le_lt_trans; eassumption.
  Qed.

  Lemma uc_last_none b ch : uchain U b ch -> lookup (bparent (last ch b)) U = None.
  Proof.
    induction 1 as [b Hb|b p l Hp Hc IH]; [exact Hb|].
    pose proof (uchain_nonempty _ _ _ Hc) as Hne. destruct l as [|z l']; [congruence|].
    change (last (b :: z :: l') b) with (last (z :: l') b).
    rewrite (last_indep (z :: l') b p) by discriminate. exact IH.
  Qed.

  Lemma uc_last_le b ch : uchain U b ch -> In b U -> forall x, In x ch -> bnum (last ch b) <= bnum x.
  Proof.
    induction 1 as [b Hb|b p l Hp Hc IH]; intros Hx x Hin.
    - destruct Hin as [<-|[]]. apply N.le_refl.
    - destruct (lookup_sound _ _ _ Hp) as [HpU Hpid].
      pose proof (uchain_nonempty _ _ _ Hc) as Hne. destruct l as [|z l']; [congruence|].
      change (last (b :: z :: l') b) with (last (z :: l') b).
      rewrite (last_indep (z :: l') b p) by discriminate.
      destruct Hin as [<-|Hin]; [|apply IH; assumption].
      assert (Hl : In (last (z :: l') p) (z :: l')) by (apply last_in; discriminate).
      pose proof (uc_le _ _ Hc HpU _ Hl) as H1. pose proof (U_up b p Hx HpU (eq_sym Hpid)) as H2.
      apply N.lt_le_incl. eapply N.le_lt_trans; eassumption.
  Qed.

  Lemma uc_inv b x l : uchain U b (x :: l) ->
    x = b /\ ((l = [] /\ lookup (bparent b) U = None) \/ exists p, lookup (bparent b) U = Some p /\ uchain U p l).
  Proof.
    intros H. inversion H as [b' Hb' E1 E2|b' p l' Hp Hl E1 E2]; subst; split; auto. right. eauto.
  Qed.

  (* before a chain element only strictly higher blocks *)
  Lemma uc_split_lt : forall pre b a post, uchain U b (pre ++ a :: post) -> In b U ->
    forall x, In x pre -> bnum a < bnum x.
  Proof.
    induction pre as [|x0 pre IH]; intros b a post Hu Hb x Hx; [destruct Hx|].
    cbn [app] in Hu. destruct (uc_inv _ _ _ Hu) as [-> [[Hnil _]|(p & Hp & Hl)]].
    - destruct pre; discriminate.
    - destruct (lookup_sound _ _ _ Hp) as [HpU Hpid].
      pose proof (U_up b p Hb HpU (eq_sym Hpid)) as H2.
      destruct Hx as [<-|Hx]; [|apply (IH p a post Hl HpU x Hx)].
      assert (Ha : In a (pre ++ a :: post)) by (apply in_or_app; right; left; reflexivity).
      pose proof (uc_le _ _ Hl HpU _ Ha) as H1. eapply N.le_lt_trans; eassumption.
  Qed.

  (* the stored chain of a block is the beginning of its chain in the universe *)
  Lemma uc_align l : in_U l -> forall p x y e, chain l x y (p ++ [e]) -> forall ch, uchain U (eb e) ch ->
    exists ch', ch = rev (map eb (p ++ [e])) ++ ch'.
  Proof.
    intros HU. induction p as [|e' p0 IH] using rev_ind; intros x y e Hc ch Hu.
    - cbn [app map rev]. destruct Hu; eauto.
    - destruct (chain_snoc_inv _ _ _ _ _ Hc) as (_ & Hf & Hc').
      destruct (chain_top _ _ _ _ _ Hc') as [Hf' Hk'].
      assert (He'U : In (eb e') U) by (apply HU; apply find_some in Hf'; tauto).
      assert (Hlk : lookup (bparent (eb e)) U = Some (eb e')).
      { rewrite <- Hk'. apply (lookup_U U U_uniq). exact He'U. }
      inversion Hu as [b Hb Eb Ech|b pb l0 Hpb Hl0 Eb Ech]; subst; [congruence|].
      rewrite Hlk in Hpb. injection Hpb as <-.
      destruct (IH _ _ _ Hc' _ Hl0) as [ch' ->]. exists ch'.
      rewrite (map_app eb (p0 ++ [e']) [e]), rev_app_distr. reflexivity.
  Qed.

  (* ---------- LIB declarations without a configured LIB ---------- *)

  Definition decl_none (b : block) : Prop :=
    exists ch, uchain U b ch /\ ((exists a, In a ch /\ bnum a = blib b) \/ blib b < bnum (last ch b)).

  Lemma decl_ok_of_none a b : In a U -> decl_none b -> decl_ok U (mkR (bid a) (bnum a)) b.
  Proof.
    intros Ha (ch & Hu & Hd). exists ch. split; [exact Hu|]. destruct Hd as [Hd|Hd]; [left; exact Hd|]. right.
    cbn [ri rn]. destruct (N.eqb_spec (bparent (last ch b)) (bid a)) as [E|E]; [|exact Hd].
    pose proof (uc_last_none _ _ Hu) as Hn. rewrite E, (lookup_U U U_uniq a Ha) in Hn. discriminate.
  Qed.

  (* the declared height on the maximal stored chain: found on it, or every stored ancestor is higher *)
  Lemma decl_on_store l p x y e : in_U l -> chain l x y (p ++ [e]) -> In (eb e) U -> decl_none (eb e) ->
    (exists A a B, p ++ [e] = A ++ a :: B /\ bnum (eb a) = blib (eb e)) \/
    (forall a, In a (p ++ [e]) -> blib (eb e) < bnum (eb a)).
  Proof.
    intros HU Hc HeU (ch & Hu & Hd).
    destruct (uc_align l HU p x y e Hc ch Hu) as [ch' Hch].
    destruct Hd as [(a0 & Ha0 & Hn)|Hd].
    - rewrite Hch in Ha0. apply in_app_or in Ha0 as [Ha0|Ha0].
      + left. rewrite <- in_rev in Ha0. apply in_map_iff in Ha0 as (a & Ea & Hin).
        apply in_split in Hin as (A & B & Heq). exists A, a, B. split; [exact Heq | rewrite Ea; exact Hn].
      + right. intros a Ha. apply in_split in Ha0 as (c1 & c2 & Hc').
        rewrite Hc', app_assoc in Hch. rewrite Hch in Hu. rewrite <- Hn.
        apply (uc_split_lt _ _ _ _ Hu HeU). apply in_or_app. left. rewrite <- in_rev.
        apply in_map. exact Ha.
    - right. intros a Ha. eapply N.lt_le_trans; [exact Hd|]. apply (uc_last_le _ _ Hu HeU).
      rewrite Hch. apply in_or_app. left. rewrite <- in_rev. apply in_map. exact Ha.
  Qed.
End DiscU.

(* ---------- walks in a forkdb ---------- *)

Lemma max_chain l : wf_store l -> forall f x, enough l x f -> exists y p, chain l x y p /\ find y l = None.
Proof.
  intros Hwf. induction f as [|f IH]; intros x He; [destruct He; lia|].
  destruct (find x l) as [e|] eqn:F.
  - destruct (IH (bparent (eb e))) as (y & p & Hc & Hy); [eapply enough_parent; eassumption|].
    exists y, (p ++ [e]). split; [|exact Hy]. econstructor; [|exact F|exact Hc]. intros ->. congruence.
  - exists x, []. split; [constructor | exact F].
Qed.

(* every stored ancestor is higher than the target and the chain ends on a missing parent: not found *)
Lemma bic_all_gt d target : wf_store (store d) -> extra d = None ->
  forall x y p, chain (store d) x y p -> find y (store d) = None -> p <> [] ->
  (forall e, In e p -> target < bnum (eb e)) ->
  forall f, enough (store d) x f -> bic_loop f d x target = Some ref_empty.
Proof.
  intros Hwf Hex x y p Hc. induction Hc as [x|x y e p Hne Hf Hc IH]; intros Hy Hp Hgt f He; [congruence|].
  destruct f as [|f]; [destruct He; lia|]. cbn [bic_loop]. rewrite (link_of_stored d x e Hf).
  destruct p as [|e' p'] using rev_ind.
  - apply chain_nil_inv in Hc. rewrite Hc. unfold num_of. rewrite Hy, Hex. reflexivity.
  - clear IHp'. destruct (chain_top _ _ _ _ _ Hc) as [Hf' _]. unfold num_of. rewrite Hf'.
    assert (Hlt : target < bnum (eb e')).
    { apply Hgt. apply in_or_app. left. apply in_or_app. right. left. reflexivity. }
    destruct (N.eqb_spec (bnum (eb e')) target) as [E|E]; [lia|].
    destruct (N.ltb_spec (bnum (eb e')) target) as [L|L]; [lia|].
    apply IH; [exact Hy | destruct p'; discriminate | | eapply enough_parent; eassumption].
    intros a Ha. apply Hgt. apply in_or_app. left. exact Ha.
Qed.

(* the walk to the LIB height on a chain that rests on the LIB returns the LIB *)
Lemma bic_loop_lib d : wf_store (store d) -> num_of d (ri (libref d)) = Some (rn (libref d)) ->
  (forall e, In e (store d) -> bparent (eb e) = ri (libref d) -> rn (libref d) < bnum (eb e)) ->
  forall x y p, chain (store d) x y p -> y = ri (libref d) -> p <> [] ->
  forall f, enough (store d) x f ->
  bic_loop f d x (rn (libref d)) = Some (mkR (ri (libref d)) (rn (libref d))).
Proof.
  intros Hwf Hnum Hup x y p Hc. induction Hc as [x|x y e p Hne Hf Hc IH]; intros Hy Hp f He; [congruence|]. subst y.
  destruct f as [|f]; [destruct He; lia|]. cbn [bic_loop]. rewrite (link_of_stored d x e Hf).
  destruct p as [|e' p'] using rev_ind.
  - apply chain_nil_inv in Hc. rewrite Hc, Hnum, N.eqb_refl. reflexivity.
  - clear IHp'. destruct (chain_top _ _ _ _ _ Hc) as [Hf' _]. unfold num_of. rewrite Hf'.
    assert (Hab : rn (libref d) < bnum (eb e')).
    { eapply (above_lib d Hwf Hup); [exact Hc | apply in_or_app; right; left; reflexivity]. }
    destruct (N.eqb_spec (bnum (eb e')) (rn (libref d))) as [E|E]; [lia|].
    destruct (N.ltb_spec (bnum (eb e')) (rn (libref d))) as [L|L]; [lia|].
    apply IH; [reflexivity | destruct p'; discriminate | eapply enough_parent; eassumption].
Qed.

Lemma bic_lib d x p top : wf_store (store d) -> num_of d (ri (libref d)) = Some (rn (libref d)) ->
  (forall e, In e (store d) -> bparent (eb e) = ri (libref d) -> rn (libref d) < bnum (eb e)) ->
  chain (store d) x (ri (libref d)) p -> p <> [] -> find x (store d) = Some top ->
  block_in_chain d (mkR x (bnum (eb top))) (rn (libref d)) = Some (mkR (ri (libref d)) (rn (libref d))).
Proof.
  intros Hwf Hnum Hup Hc Hp Hf. unfold block_in_chain. cbn [ri rn].
  assert (Hab : rn (libref d) < bnum (eb top)).
  { destruct p as [|e' p'] using rev_ind; [congruence|]. clear IHp'.
    destruct (chain_top _ _ _ _ _ Hc) as [Hf' _]. rewrite Hf in Hf'. injection Hf' as <-.
    eapply (above_lib d Hwf Hup); [exact Hc | apply in_or_app; right; left; reflexivity]. }
  destruct (N.eqb_spec (bnum (eb top)) (rn (libref d))) as [E|E]; [lia|].
  eapply bic_loop_lib; try eassumption; [reflexivity | apply enough_fuel_of].
Qed.
