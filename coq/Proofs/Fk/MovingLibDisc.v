(* C01 / C02 on the Forkable model in DISCOVERY mode (no configured LIB, hold-until-LIB): blocks are
   stored without any delivery until a block declares as LIB number the height of a stored ancestor (or is
   its own LIB); from that step on the run is a run of the rooted mode with the discovered LIB as r0. *)
From BV Require Import Base.Prelude Model.Block Model.ForkDB Model.Forkable Spec.Consumer Spec.Universe
  Proofs.Fk.StoreFacts Proofs.Fk.WalkFacts Proofs.Fk.LoopFacts Proofs.Fk.StoreChange Proofs.Fk.SwitchFacts
  Proofs.Fk.FixedLib Proofs.Fk.RootsBase Proofs.Fk.MovingLibStore Proofs.Fk.MovingLibWalk Proofs.Fk.MovingLibLoops
  Proofs.Fk.MovingLibInv Proofs.Fk.MovingLibFin.
Local Open Scope N_scope.

Section DiscU.
  Variable U : list block.
  Hypothesis U_id : forall b, In b U -> bid b <> 0 /\ bid b <> bparent b.
  Hypothesis U_uniq : forall x y, In x U -> In y U -> bid x = bid y -> x = y.
  Hypothesis U_up : forall x y, In x U -> In y U -> bparent x = bid y -> bnum y < bnum x.

  Notation in_U := (in_U U).

  (* ---------- parent walks in the universe ---------- *)

  Lemma uc_le x l : uchain U x l -> In x U -> forall a, In a l -> bnum a <= bnum x.
  Proof.
    induction 1 as [b Hb|b p l Hp Hc IH]; intros Hx a Ha.
    - destruct Ha as [<-|[]]. apply N.le_refl.
    - destruct Ha as [<-|Ha]; [apply N.le_refl|]. destruct (lookup_sound _ _ _ Hp) as [HpU Hpid].
      pose proof (U_up b p Hx HpU (eq_sym Hpid)) as H1. specialize (IH HpU a Ha).
      apply N.lt_le_incl. eapply N.le_lt_trans; eassumption.
  Qed.

  Lemma uc_last_none b ch : uchain U b ch -> lookup (bparent (last ch b)) U = None.
  Proof.
    induction 1 as [b Hb|b p l Hp Hc IH]; [exact Hb|].
    pose proof (uchain_nonempty _ _ _ Hc) as Hne. destruct l as [|z l']; [congruence|].
    change (last (b :: z :: l') b) with (last (z :: l') b).
    rewrite (last_indep (z :: l') b p) by discriminate. exact IH.
  Qed.

  Lemma uc_last_le b ch : uchain U b ch -> In b U -> forall x, In x ch -> bnum (last ch b) <= bnum x.
  Proof.
    induction 1 as [b Hb|b p l Hp Hc IH]; intros Hx x Hin.
    - destruct Hin as [<-|[]]. apply N.le_refl.
    - destruct (lookup_sound _ _ _ Hp) as [HpU Hpid].
      pose proof (uchain_nonempty _ _ _ Hc) as Hne. destruct l as [|z l']; [congruence|].
      change (last (b :: z :: l') b) with (last (z :: l') b).
      rewrite (last_indep (z :: l') b p) by discriminate.
      destruct Hin as [<-|Hin]; [|apply IH; assumption].
      assert (Hl : In (last (z :: l') p) (z :: l')) by (apply last_in; discriminate).
      pose proof (uc_le _ _ Hc HpU _ Hl) as H1. pose proof (U_up b p Hx HpU (eq_sym Hpid)) as H2.
      apply N.lt_le_incl. eapply N.le_lt_trans; eassumption.
  Qed.

  Lemma uc_inv b x l : uchain U b (x :: l) ->
    x = b /\ ((l = [] /\ lookup (bparent b) U = None) \/ exists p, lookup (bparent b) U = Some p /\ uchain U p l).
  Proof.
    intros H. inversion H as [b' Hb' E1 E2|b' p l' Hp Hl E1 E2]; subst; split; auto. right. eauto.
  Qed.

  (* before a chain element only strictly higher blocks *)
  Lemma uc_split_lt : forall pre b a post, uchain U b (pre ++ a :: post) -> In b U ->
    forall x, In x pre -> bnum a < bnum x.
  Proof.
    induction pre as [|x0 pre IH]; intros b a post Hu Hb x Hx; [destruct Hx|].
    cbn [app] in Hu. destruct (uc_inv _ _ _ Hu) as [-> [[Hnil _]|(p & Hp & Hl)]].
    - destruct pre; discriminate.
    - destruct (lookup_sound _ _ _ Hp) as [HpU Hpid].
      pose proof (U_up b p Hb HpU (eq_sym Hpid)) as H2.
      destruct Hx as [<-|Hx]; [|apply (IH p a post Hl HpU x Hx)].
      assert (Ha : In a (pre ++ a :: post)) by (apply in_or_app; right; left; reflexivity).
      pose proof (uc_le _ _ Hl HpU _ Ha) as H1. eapply N.le_lt_trans; eassumption.
  Qed.

  (* the stored chain of a block is the beginning of its chain in the universe *)
  Lemma uc_align l : in_U l -> forall p x y e, chain l x y (p ++ [e]) -> forall ch, uchain U (eb e) ch ->
    exists ch', ch = rev (map eb (p ++ [e])) ++ ch'.
  Proof.
    intros HU. induction p as [|e' p0 IH] using rev_ind; intros x y e Hc ch Hu.
    - cbn [app map rev]. destruct Hu; eauto.
    - destruct (chain_snoc_inv _ _ _ _ _ Hc) as (_ & Hf & Hc').
      destruct (chain_top _ _ _ _ _ Hc') as [Hf' Hk'].
      assert (He'U : In (eb e') U) by (apply HU; apply find_some in Hf'; tauto).
      assert (Hlk : lookup (bparent (eb e)) U = Some (eb e')).
      { rewrite <- Hk'. apply (lookup_U U U_uniq). exact He'U. }
      inversion Hu as [b Hb Eb Ech|b pb l0 Hpb Hl0 Eb Ech]; subst; [congruence|].
      rewrite Hlk in Hpb. injection Hpb as <-.
      destruct (IH _ _ _ Hc' _ Hl0) as [ch' ->]. exists ch'.
      rewrite (map_app eb (p0 ++ [e']) [e]), rev_app_distr. reflexivity.
  Qed.

  (* ---------- LIB declarations without a configured LIB ---------- *)

  Definition decl_none (b : block) : Prop :=
    exists ch, uchain U b ch /\ ((exists a, In a ch /\ bnum a = blib b) \/ blib b < bnum (last ch b)).

  Lemma decl_ok_of_none a b : In a U -> decl_none b -> decl_ok U (mkR (bid a) (bnum a)) b.
  Proof.
    intros Ha (ch & Hu & Hd). exists ch. split; [exact Hu|]. destruct Hd as [Hd|Hd]; [left; exact Hd|]. right.
    cbn [ri rn]. destruct (N.eqb_spec (bparent (last ch b)) (bid a)) as [E|E]; [|exact Hd].
    pose proof (uc_last_none _ _ Hu) as Hn. rewrite E, (lookup_U U U_uniq a Ha) in Hn. discriminate.
  Qed.

  (* the declared height on the maximal stored chain: found on it, or every stored ancestor is higher *)
  Lemma decl_on_store l p x y e : in_U l -> chain l x y (p ++ [e]) -> In (eb e) U -> decl_none (eb e) ->
    (exists A a B, p ++ [e] = A ++ a :: B /\ bnum (eb a) = blib (eb e)) \/
    (forall a, In a (p ++ [e]) -> blib (eb e) < bnum (eb a)).
  Proof.
    intros HU Hc HeU (ch & Hu & Hd).
    destruct (uc_align l HU p x y e Hc ch Hu) as [ch' Hch].
    destruct Hd as [(a0 & Ha0 & Hn)|Hd].
    - rewrite Hch in Ha0. apply in_app_or in Ha0 as [Ha0|Ha0].
      + left. rewrite <- in_rev in Ha0. apply in_map_iff in Ha0 as (a & Ea & Hin).
        apply in_split in Hin as (A & B & Heq). exists A, a, B. split; [exact Heq | rewrite Ea; exact Hn].
      + right. intros a Ha. apply in_split in Ha0 as (c1 & c2 & Hc').
        rewrite Hc', app_assoc in Hch. rewrite Hch in Hu. rewrite <- Hn.
        apply (uc_split_lt _ _ _ _ Hu HeU). apply in_or_app. left. rewrite <- in_rev.
        apply in_map. exact Ha.
    - right. intros a Ha. eapply N.lt_le_trans; [exact Hd|]. apply (uc_last_le _ _ Hu HeU).
      rewrite Hch. apply in_or_app. left. rewrite <- in_rev. apply in_map. exact Ha.
  Qed.
End DiscU.

(* ---------- walks in a forkdb ---------- *)

Lemma max_chain l : wf_store l -> forall f x, enough l x f -> exists y p, chain l x y p /\ find y l = None.
Proof.
  intros Hwf. induction f as [|f IH]; intros x He; [destruct He; lia|].
  destruct (find x l) as [e|] eqn:F.
  - destruct (IH (bparent (eb e))) as (y & p & Hc & Hy); [eapply enough_parent; eassumption|].
    exists y, (p ++ [e]). split; [|exact Hy]. econstructor; [|exact F|exact Hc]. intros ->. congruence.
  - exists x, []. split; [constructor | exact F].
Qed.

(* every stored ancestor is higher than the target and the chain ends on a missing parent: not found *)
Lemma bic_all_gt d target : wf_store (store d) -> extra d = None ->
  forall x y p, chain (store d) x y p -> find y (store d) = None -> p <> [] ->
  (forall e, In e p -> target < bnum (eb e)) ->
  forall f, enough (store d) x f -> bic_loop f d x target = Some ref_empty.
Proof.
  intros Hwf Hex x y p Hc. induction Hc as [x|x y e p Hne Hf Hc IH]; intros Hy Hp Hgt f He; [congruence|].
  destruct f as [|f]; [destruct He; lia|]. cbn [bic_loop]. rewrite (link_of_stored d x e Hf).
  destruct p as [|e' p'] using rev_ind.
  - apply chain_nil_inv in Hc. rewrite Hc. unfold num_of. rewrite Hy, Hex. reflexivity.
  - clear IHp'. destruct (chain_top _ _ _ _ _ Hc) as [Hf' _]. unfold num_of. rewrite Hf'.
    assert (Hlt : target < bnum (eb e')).
    { apply Hgt. apply in_or_app. left. apply in_or_app. right. left. reflexivity. }
    destruct (N.eqb_spec (bnum (eb e')) target) as [E|E]; [lia|].
    destruct (N.ltb_spec (bnum (eb e')) target) as [L|L]; [lia|].
    apply IH; [exact Hy | destruct p'; discriminate | | eapply enough_parent; eassumption].
    intros a Ha. apply Hgt. apply in_or_app. left. exact Ha.
Qed.

(* the walk to the LIB height on a chain that rests on the LIB returns the LIB *)
Lemma bic_loop_lib d : wf_store (store d) -> num_of d (ri (libref d)) = Some (rn (libref d)) ->
  (forall e, In e (store d) -> bparent (eb e) = ri (libref d) -> rn (libref d) < bnum (eb e)) ->
  forall x y p, chain (store d) x y p -> y = ri (libref d) -> p <> [] ->
  forall f, enough (store d) x f ->
  bic_loop f d x (rn (libref d)) = Some (mkR (ri (libref d)) (rn (libref d))).
Proof.
  intros Hwf Hnum Hup x y p Hc. induction Hc as [x|x y e p Hne Hf Hc IH]; intros Hy Hp f He; [congruence|]. subst y.
  destruct f as [|f]; [destruct He; lia|]. cbn [bic_loop]. rewrite (link_of_stored d x e Hf).
  destruct p as [|e' p'] using rev_ind.
  - apply chain_nil_inv in Hc. rewrite Hc, Hnum, N.eqb_refl. reflexivity.
  - clear IHp'. destruct (chain_top _ _ _ _ _ Hc) as [Hf' _]. unfold num_of. rewrite Hf'.
    assert (Hab : rn (libref d) < bnum (eb e')).
    { eapply (above_lib d Hwf Hup); [exact Hc | apply in_or_app; right; left; reflexivity]. }
    destruct (N.eqb_spec (bnum (eb e')) (rn (libref d))) as [E|E]; [lia|].
    destruct (N.ltb_spec (bnum (eb e')) (rn (libref d))) as [L|L]; [lia|].
    apply IH; [reflexivity | destruct p'; discriminate | eapply enough_parent; eassumption].
Qed.

Lemma bic_lib d x p top : wf_store (store d) -> num_of d (ri (libref d)) = Some (rn (libref d)) ->
  (forall e, In e (store d) -> bparent (eb e) = ri (libref d) -> rn (libref d) < bnum (eb e)) ->
  chain (store d) x (ri (libref d)) p -> p <> [] -> find x (store d) = Some top ->
  block_in_chain d (mkR x (bnum (eb top))) (rn (libref d)) = Some (mkR (ri (libref d)) (rn (libref d))).
Proof.
  intros Hwf Hnum Hup Hc Hp Hf. unfold block_in_chain. cbn [ri rn].
  assert (Hab : rn (libref d) < bnum (eb top)).
  { destruct p as [|e' p'] using rev_ind; [congruence|]. clear IHp'.
    destruct (chain_top _ _ _ _ _ Hc) as [Hf' _]. rewrite Hf in Hf'. injection Hf' as <-.
    eapply (above_lib d Hwf Hup); [exact Hc | apply in_or_app; right; left; reflexivity]. }
  destruct (N.eqb_spec (bnum (eb top)) (rn (libref d))) as [E|E]; [lia|].
  eapply bic_loop_lib; try eassumption; [reflexivity | apply enough_fuel_of].
Qed.

(* ---------- discovery ---------- *)

Section Disc.
  Variable U : list block.
  Variable cfg : config.

  Hypothesis Hnofail : c_fail_at cfg = None.
  Hypothesis Hnew : f_new (c_filter cfg) = true.
  Hypothesis Hundo : f_undo (c_filter cfg) = true.
  Hypothesis Hhold : c_hold cfg = true.
  Hypothesis Hincl : c_incl cfg = false.

  Hypothesis U_id : forall b, In b U -> bid b <> 0 /\ bid b <> bparent b.
  Hypothesis U_uniq : forall x y, In x U -> In y U -> bid x = bid y -> x = y.
  Hypothesis U_up : forall x y, In x U -> In y U -> bparent x = bid y -> bnum y < bnum x.
  Hypothesis D_decl : forall b, In b U -> decl_none U b.

  Notation first := (c_first cfg).
  Notation in_U := (in_U U).

  (* the discovered LIB as the root of a rooted run *)
  Definition R (a : block) : ref := mkR (bid a) (bnum a).

  Lemma R_id a : In a U -> ri (R a) <> 0.
  Proof. intros Ha. apply (U_id a Ha). Qed.

  Lemma R_num a : In a U -> forall y, In y U -> bid y = ri (R a) -> bnum y = rn (R a).
  Proof. intros Ha y Hy E. rewrite (U_uniq y a Hy Ha E). reflexivity. Qed.

  Lemma R_up a : In a U -> forall x, In x U -> bparent x = ri (R a) -> rn (R a) < bnum x.
  Proof. intros Ha x Hx E. apply (U_up x a Hx Ha E). Qed.

  Lemma R_decl a : In a U -> forall b, In b U -> decl_ok U (R a) b.
  Proof. intros Ha b Hb. apply (decl_ok_of_none U U_uniq a b Ha). apply D_decl. exact Hb. Qed.

  Lemma R_coh a : In a U -> lib_coh U (R a) (R a).
  Proof. intros Ha. apply (lib_coh_block U (R a) U_id U_uniq U_up a Ha). apply N.le_refl. Qed.

  (* before the discovery: nothing was ever delivered *)
  Record PreInv (s : fstate) : Prop := mkPre {
    pre_lib : libref (db s) = ref_empty;
    pre_extra : extra (db s) = None;
    pre_nodup : NoDup (keys (store (db s)));
    pre_inU : in_U (store (db s));
    pre_unsent : forall e, In e (store (db s)) -> esent e = false;
    pre_last : last_sent s = None;
    pre_lls : last_lib_seen s = ref_empty;
    (* a stored root did not resolve its own LIB declaration (it would be the LIB): AddLink does not
       recognise it when it is fed again, and SetLIB then fails again in the same way *)
    pre_root : forall e, In e (store (db s)) -> bparent (eb e) = 0 ->
                 bnum (eb e) <> first /\ bnum (eb e) <> blib (eb e)
  }.

  Lemma pre_init : PreInv (fs_init LNone).
  Proof. constructor; cbn; auto; try (intros e []). constructor. Qed.

  Lemma pre_wf s : PreInv s -> wf_store (store (db s)).
  Proof. intros HP. apply (wf_of_U U U_id U_up); [apply (pre_nodup s HP) | apply (pre_inU s HP)]. Qed.

  Lemma pre_step_old s b e : PreInv s -> In b U -> find (bid b) (store (db s)) = Some e ->
    fk_step cfg s b = (s, [], ROk).
  Proof.
    intros HP Hb Hf. pose proof HP as [Hl He Hnd HU Hun Hls Hlls Hrt]. destruct (U_id b Hb) as (H1 & H3).
    pose proof (pre_wf s HP) as Hwf.
    pose proof (stored_is_self U U_uniq _ _ _ HU Hb Hf) as Eb.
    pose proof (find_some _ _ _ Hf) as [Hin _].
    unfold fk_step. destruct (N.eqb_spec (bid b) (bparent b)); [contradiction|].
    rewrite Hl, Hls, Hincl. cbn [rn ref_empty andb].
    replace (bnum b <? 0) with false by lia. cbn [andb].
    assert (Hsw : (if f_undo (c_filter cfg) && triggers cfg s b then ScssOk [] [] None else ScssOk [] [] None) = ScssOk [] [] None)
      by (destruct (f_undo (c_filter cfg) && triggers cfg s b); reflexivity).
    rewrite Hsw.
    destruct (N.eq_dec (bparent b) 0) as [E0|E0].
    - (* a root: stored again, SetLIB finds nothing again, hold *)
      rewrite (add_link_root U U_id U_uniq _ _ _ Hnd HU Hb Hf E0 (Hun e Hin)).
      assert (Hs : with_db s (db s) = s) by (destruct s; reflexivity). rewrite Hs.
      assert (Hhl : has_lib (db s) = false) by (unfold has_lib; rewrite Hl; reflexivity).
      rewrite Hhl.
      destruct (Hrt e Hin) as [Hn1 Hn2]; [rewrite Eb; exact E0|]. rewrite Eb in Hn1, Hn2.
      unfold set_lib. change (rn (bref b)) with (bnum b).
      destruct (N.eqb_spec (bnum b) first) as [|_]; [contradiction|].
      unfold block_in_chain. change (rn (bref b)) with (bnum b). change (ri (bref b)) with (bid b).
      destruct (N.eqb_spec (bnum b) (blib b)) as [|_]; [contradiction|].
      unfold fuel_of. cbn [bic_loop]. rewrite (link_of_stored _ _ _ Hf), Eb, E0.
      unfold num_of. rewrite (find_zero_wf _ Hwf), He. cbn [ri ref_empty N.eqb].
      rewrite Hs, Hhl, Hhold. reflexivity.
    - rewrite (add_link_old U U_id U_uniq _ _ _ HU Hb Hf E0). reflexivity.
  Qed.

  (* ProcessBlock on a new block while no LIB is known *)
  Lemma fk_step_pre s b : PreInv s -> In b U -> find (bid b) (store (db s)) = None ->
    fk_step cfg s b =
      let d1 := new_db (db s) b in
      match set_lib d1 first (bref b) (blib b) with
      | None => (with_db s d1, [], RFuel)
      | Some d2 =>
          let s2 := with_db s d2 in
          if has_lib d2 then
            if rn (libref d2) =? bnum b then
              let '(s', evs, ok) := process_initial_inclusive cfg b s2 in (s', evs, if ok then ROk else RHandlerErr)
            else
              match reversible_segment d2 first (bref b) with
              | None => (s2, [], RFuel)
              | Some (longest, _) =>
                  if (match longest with [] => true | _ => false end) then (s2, [], ROk)
                  else process_tail cfg s2 b [] [] None longest (block_for_id d2 (ri (libref d2)))
              end
          else (s2, [], ROk)
      end.
  Proof.
    intros [Hl He Hnd HU Hun Hls Hlls Hrt] Hb Hf. destruct (U_id b Hb) as (H1 & H3).
    unfold fk_step. destruct (N.eqb_spec (bid b) (bparent b)); [contradiction|].
    rewrite Hl, Hls, Hincl. cbn [rn ref_empty andb].
    replace (bnum b <? 0) with false by lia. cbn [andb].
    rewrite (add_link_new U U_id _ _ Hb Hf).
    assert (Hhl : has_lib (new_db (db s) b) = false).
    { unfold has_lib, new_db. cbn [libref]. rewrite Hl. reflexivity. }
    rewrite Hhl. cbv zeta.
    destruct (f_undo (c_filter cfg) && triggers cfg s b);
      (destruct (set_lib (new_db (db s) b) first (bref b) (blib b)) as [d2|]; [|reflexivity];
       cbv beta iota delta [with_db db last_sent last_lib_seen ncalls];
       destruct (has_lib d2); [|rewrite Hhold; reflexivity];
       destruct (rn (libref d2) =? bnum b); [reflexivity|];
       destruct (reversible_segment d2 first (bref b)) as [[longest reach]|]; [|reflexivity];
       unfold triggers; rewrite Hls, orb_true_r; cbn [negb orb]; reflexivity).
  Qed.

  (* processInitialInclusiveIrreversibleBlock with a handler that never fails *)
  Lemma pii_ok b s2 : exists s' ev evI,
    process_initial_inclusive cfg b s2 = (s', ev :: evI, true) /\
    estep ev = SNew /\ eblk ev = b /\ elib ev = cursor_lib s2 /\
    db s' = db s2 /\ last_sent s' = Some b /\
    Forall (fun e => estep e = SIrr) evI /\
    (if f_irr (c_filter cfg) then map eblk evI = [b] else evI = []).
  Proof.
    unfold process_initial_inclusive. rewrite Hnew, (call_ok cfg Hnofail). cbv beta iota zeta.
    set (tiny := mkSeg (bid b) (bnum b) (mkEntry b false)).
    set (ev := mkEv SNew b (seg_ref tiny) (seg_ref tiny) (cursor_lib s2) None 0 0).
    set (s1' := mkFS (db (mkFS (db s2) (last_sent s2) (last_lib_seen s2) (ncalls s2 + 1))) (Some b)
                     (last_lib_seen (mkFS (db s2) (last_sent s2) (last_lib_seen s2) (ncalls s2 + 1)))
                     (ncalls (mkFS (db s2) (last_sent s2) (last_lib_seen s2) (ncalls s2 + 1)))).
    destruct (process_irr_segment_ok cfg Hnofail [tiny] tiny [] (bref b) s1' eq_refl)
      as (s' & evI & Hrun & Hdb & Hls & Hlls & Hm & Hs).
    rewrite Hrun. cbv beta iota. exists s', ev, evI. split; [reflexivity|].
    split; [reflexivity|]. split; [reflexivity|]. split; [reflexivity|].
    split; [rewrite Hdb; reflexivity|]. split; [rewrite Hls; reflexivity|]. split; [exact Hs|].
    destruct (f_irr (c_filter cfg)); exact Hm.
  Qed.

  (* PurgeBeforeLIB without a move: the LIB is stored *)
  Lemma dbinv_purge_same r0 d x p el kept : DbInv U r0 d -> find (ri (libref d)) (store d) = Some el ->
    chain (store d) x (ri (libref d)) p ->
    let d' := purge_before_lib (move_lib d (mkR (ri (libref d)) (rn (libref d)))) kept in
    DbInv U r0 d' /\ libref d' = mkR (ri (libref d)) (rn (libref d)) /\
    store d' = filter (fun e => rn (libref d) - kept <=? bnum (eb e)) (store d) /\
    chain (store d') x (ri (libref d)) p.
  Proof.
    intros Hd Hel Hc. pose proof Hd as [Hnd HU Hcoh Hnum Hextra Hlc Hrt0].
    pose proof (lib_stored_num d Hnum el Hel) as Heln.
    unfold purge_before_lib, move_lib. cbn [libref store rn ri extra].
    set (f := fun e : entry => rn (libref d) - kept <=? bnum (eb e)).
    assert (Hfl : f el = true) by (unfold f; apply N.leb_le; lia).
    split; [|split; [reflexivity|split; [reflexivity|]]].
    - constructor; cbn [libref store rn ri extra].
      + apply nodup_filter_keys. exact Hnd.
      + intros e He. apply filter_In in He as [He _]. apply HU. exact He.
      + destruct (libref d) as [i n]. exact Hcoh.
      + unfold num_of. cbn [store libref ri rn]. rewrite (find_filter_keep f _ _ el Hnd Hel Hfl), Heln. reflexivity.
      + left. reflexivity.
      + intros e He Hs. cbn [store libref rn] in *. apply filter_In in He as [He Hfe].
        destruct (Hlc e He Hs) as [(q & Hq & Hqs)|Hlow].
        * destruct (f q) eqn:Fq.
          -- left. exists q. split; [apply find_filter_keep; assumption | exact Hqs].
          -- right. intros y Hy Ey. pose proof (find_some _ _ _ Hq) as [Hqin Hqk].
             assert (y = eb q).
             { apply U_uniq; [exact Hy | apply HU; exact Hqin | rewrite Ey; symmetry; exact Hqk]. }
             subst y. unfold f in Fq. apply N.leb_gt in Fq. lia.
        * right. exact Hlow.
      + intros e He Hp. cbn [store] in He. apply filter_In in He as [He _]. apply Hrt0; assumption.
    - apply chain_filter; [exact Hnd | exact Hc|].
      intros e He. pose proof (above_lib d (di_wf U r0 U_id U_up d Hd) (di_up U r0 d Hd) x p Hc e He).
      unfold f. apply N.leb_le. lia.
  Qed.

  (* ---------- the step that discovers the LIB ---------- *)

  Definition m0 (r0 : ref) : fin_mon := mkFM [] 0 r0 false [] [].

  Definition DiscOut (s : fstate) (b : block) (res : fstate * list event * result) : Prop :=
    exists s' evs a Fin S',
      res = (s', evs, ROk) /\ In a U /\
      (exists e0 rest, evs = e0 :: rest /\ elib e0 = R a) /\
      apply_all (ri (R a)) [] evs = Some S' /\
      Inv U (R a) cfg s' Fin S' /\
      (f_irr (c_filter cfg) = true ->
         exists m', fin_events (ri (R a)) (R a) b (m0 (R a)) evs = Some m' /\ MInv U (R a) s' Fin S' m') /\
      (forall x, In x U -> In (bid x) (keys (store (db s)) ++ [bid b]) -> known s' x).

  (* the forkdb right after the LIB was set to a stored block a (nothing sent yet) *)
  Lemma dbinv_found s b a : PreInv s -> In b U -> find (bid b) (store (db s)) = None ->
    In a (store (db s) ++ [mkEntry b false]) ->
    DbInv U (R (eb a)) (move_lib (new_db (db s) b) (R (eb a))).
  Proof.
    intros [Hl He Hnd HU Hun Hls Hlls Hrt] Hb Hf Ha.
    assert (Hk : ~ In (bid b) (keys (store (db s)))) by (apply find_none; exact Hf).
    assert (Hnd1 : NoDup (keys (store (db s) ++ [mkEntry b false]))) by (rewrite keys_snoc; apply nodup_snoc; assumption).
    assert (HU1 : in_U (store (db s) ++ [mkEntry b false])).
    { intros e Hin. apply in_app_or in Hin as [Hin|[<-|[]]]; [apply HU; exact Hin | exact Hb]. }
    constructor; cbn [move_lib new_db store extra libref].
    - exact Hnd1.
    - exact HU1.
    - apply R_coh. apply HU1. exact Ha.
    - unfold num_of, move_lib, new_db. cbn [store libref extra R ri rn]. change (bid (eb a)) with (key a).
      rewrite (find_in_nodup _ _ Hnd1 Ha). reflexivity.
    - left. exact He.
    - intros e Hin Hs. exfalso. apply in_app_or in Hin as [Hin|[<-|[]]]; [rewrite (Hun e Hin) in Hs|]; discriminate.
    - intros e Hin _. apply in_app_or in Hin as [Hin|[<-|[]]]; [apply Hun; exact Hin | reflexivity].
  Qed.

  Lemma own_out s b : PreInv s -> In b U -> find (bid b) (store (db s)) = None ->
    DiscOut s b (let '(s', evs, ok) := process_initial_inclusive cfg b (with_db s (move_lib (new_db (db s) b) (bref b))) in
                 (s', evs, if ok then ROk else RHandlerErr)).
  Proof.
    intros HP Hb Hf. pose proof HP as [Hl He Hnd HU Hun Hls Hlls Hrt].
    set (en := mkEntry b false).
    assert (Hen : In en (store (db s) ++ [en])) by (apply in_or_app; right; left; reflexivity).
    pose proof (dbinv_found s b en HP Hb Hf Hen) as Hd2. cbn [eb en] in Hd2.
    change (R b) with (bref b) in Hd2.
    set (d2 := move_lib (new_db (db s) b) (bref b)) in *. set (s2 := with_db s d2).
    destruct (pii_ok b s2) as (s' & ev & evI & Hrun & Hst & Hbk & Hel & Hdb & Hls' & HsI & HmI).
    rewrite Hrun. cbv beta iota.
    exists s', (ev :: evI), b, [b], [b]. split; [reflexivity|]. split; [exact Hb|].
    assert (Hdb' : db s' = d2) by (rewrite Hdb; reflexivity).
    assert (HI' : Inv U (R b) cfg s' [b] [b]).
    { constructor; rewrite ?Hdb'.
      - exact Hd2.
      - constructor; [|constructor]. split; [exact Hb | apply N.le_refl].
      - reflexivity.
      - rewrite Hls'. split; [exact Hb|]. exists []. split; [constructor|]. split; [reflexivity | constructor]. }
    assert (Happ : apply_all (ri (R b)) [] (ev :: evI) = Some [b]).
    { cbn [apply_all]. unfold apply_ev. rewrite Hst, Hbk. unfold root_ok. cbn [R ri]. rewrite N.eqb_refl. cbn [orb].
      apply apply_all_inert. eapply Forall_impl; [|exact HsI]. cbn beta. auto. }
    split.
    { exists ev, evI. split; [reflexivity|]. rewrite Hel. unfold cursor_lib, s2. cbn [with_db last_lib_seen db].
      rewrite Hlls. reflexivity. }
    split; [exact Happ|]. split; [exact HI'|]. split.
    - intros Hirr. rewrite Hirr in HmI. destruct evI as [|eI [|? ?]]; try discriminate.
      cbn [map] in HmI. injection HmI as HeI. pose proof (Forall_inv HsI) as HsI1. cbn beta in HsI1.
      assert (HA : fin_events (ri (R b)) (R b) b (m0 (R b)) [ev] = Some (with_stack (m0 (R b)) [b])).
      { apply fin_A.
        - cbn [apply_all m0 fm_stack]. unfold apply_ev. rewrite Hst, Hbk. unfold root_ok. cbn [R ri]. rewrite N.eqb_refl. reflexivity.
        - constructor; [right; exact Hst | constructor].
        - intros e [<-|[]] He0. rewrite Hst in He0. discriminate. }
      eexists. split.
      + change (ev :: [eI]) with ([ev] ++ [eI]). rewrite fin_events_app, HA.
        apply (fin_root (ri (R b)) (R b) b (with_stack (m0 (R b)) [b]) eI []); cbn [with_stack m0 fm_any fm_stalled fm_stack fm_nfinal]; auto.
        * rewrite HeI. reflexivity.
        * rewrite HeI. reflexivity.
      + rewrite HeI. constructor; cbn [with_stack m0 fm_stack fm_nfinal fm_last fm_finals fm_stalled fm_any].
        * reflexivity.
        * reflexivity.
        * rewrite Hdb'. reflexivity.
        * intros id [<-|[]]. left. left. reflexivity.
        * intros id [].
        * discriminate.
    - intros x Hx Hin. left. rewrite Hdb'. cbn [d2 move_lib new_db store]. rewrite keys_snoc. exact Hin.
  Qed.

  (* the root announcement when the root block is not on the consumer's stack *)
  Lemma fin_root_nf lib root inc m e p rest : estep e = SIrr -> fm_any m = false -> bid (eblk e) = ri root ->
    fm_stalled m = [] -> rev (fm_stack m) = p :: rest -> bid p <> bid (eblk e) -> fm_nfinal m = 0%nat ->
    fin_events lib root inc m [e] =
      Some (mkFM (fm_stack m) 0 (bref (eblk e)) true (bid (eblk e) :: fm_finals m) (fm_stalled m)).
  Proof.
    intros He Hany Hid Hst Hrev Hne Hn. cbn [fin_events]. unfold fin_step. rewrite He. unfold fin_irr.
    rewrite Hany, Hid, N.eqb_refl. cbn [negb andb orb]. rewrite Hst. cbn [memN].
    unfold nth_from_bottom. rewrite Hrev, Hn. cbn [nth_error]. rewrite <- Hid.
    destruct (N.eqb_spec (bid p) (bid (eblk e))); [contradiction|]. reflexivity.
  Qed.

  (* the LIB part of the discovering step: the LIB does not move, it is announced *)
  Lemma disc_lib s3 S3 b evs a : In (eb a) U ->
    Inv U (R (eb a)) cfg s3 [] S3 -> libref (db s3) = R (eb a) -> last_sent s3 = Some b -> In b U ->
    bid b <> key a -> blib b = bnum (eb a) -> find (key a) (store (db s3)) <> None ->
    exists s' evI,
      lib_tail cfg s3 b evs (Some (seg_of a)) = (s', evs ++ evI, ROk) /\
      Inv U (R (eb a)) cfg s' [] S3 /\
      Forall (fun e => estep e = SIrr) evI /\
      (if f_irr (c_filter cfg) then map eblk evI = [eb a] else evI = []) /\
      libref (db s') = R (eb a) /\
      (forall x, In x U -> In (bid x) (keys (store (db s3))) -> known s' x).
  Proof.
    intros HaU HI Hlib Hls Hb Hne Hbl Hsto.
    pose proof HI as [Hd Hfin Hflast Hh]. rewrite Hls in Hh. destruct Hh as (_ & p & Hc & HS & Hsent).
    pose proof Hd as [Hnd HU Hcoh Hnum Hextra Hlc Hrt0].
    pose proof (di_wf U (R (eb a)) U_id U_up _ Hd) as Hwf. pose proof (di_up U (R (eb a)) _ Hd) as Hup.
    assert (Hril : ri (libref (db s3)) = key a) by (rewrite Hlib; reflexivity).
    assert (Hrnl : rn (libref (db s3)) = bnum (eb a)) by (rewrite Hlib; reflexivity).
    destruct p as [|et p' _] using rev_ind.
    { apply chain_nil_inv in Hc. congruence. }
    destruct (chain_top _ _ _ _ _ Hc) as [Hf Hk].
    assert (Eet : eb et = b) by (apply (stored_is_self U U_uniq _ _ _ HU Hb Hf)).
    destruct (find (ri (libref (db s3))) (store (db s3))) as [el|] eqn:Hel; [|rewrite Hril in Hel; contradiction].
    unfold lib_tail. cbv beta iota zeta. rewrite Hls, (di_has_lib U (R (eb a)) _ Hd). cbn [negb].
    pose proof (bic_lib (db s3) (bid b) (p' ++ [et]) et Hwf Hnum Hup Hc) as Hbic.
    rewrite Eet in Hbic. fold (bref b) in Hbic. rewrite Hbl, <- Hrnl. rewrite Hbic; [|destruct p'; discriminate | exact Hf].
    cbn [ri]. destruct (N.eqb_spec (ri (libref (db s3))) 0) as [E0|_]; [exfalso; apply (di_lid U (R (eb a)) _ Hd); exact E0|].
    unfold has_new_irr_segment. cbn [ri]. rewrite N.eqb_refl. cbn [negb andb app].
    destruct (dbinv_purge_same (R (eb a)) (db s3) (bid b) (p' ++ [et]) el (c_kept cfg) Hd Hel Hc) as (Hd' & Hl' & Hst' & Hc').
    set (d' := purge_before_lib (move_lib (db s3) (mkR (ri (libref (db s3))) (rn (libref (db s3))))) (c_kept cfg)) in *.
    destruct (process_irr_segment_ok cfg Hnofail [seg_of a] (seg_of a) [] (bref b) (with_db s3 d') eq_refl)
      as (s5 & ev5 & Hrun5 & Hdb5 & Hls5 & Hlls5 & Hm5 & Hs5).
    rewrite Hrun5. cbv beta iota. cbn [negb].
    destruct (process_stalled_segment_ok cfg Hnofail [] (bref b) s5)
      as (s6 & ev6 & Hrun6 & (Hdb6 & Hls6 & Hlls6) & Hm6 & Hs6).
    rewrite Hrun6. cbv beta iota.
    assert (Hev6 : ev6 = []).
    { destruct (f_stalled (c_filter cfg)); [|exact Hm6]. cbn [map] in Hm6. apply map_eq_nil in Hm6. exact Hm6. }
    subst ev6. rewrite app_nil_r.
    assert (Hdb : db s6 = d') by (rewrite Hdb6, Hdb5; reflexivity).
    assert (Hlast : last_sent s6 = Some b) by (rewrite Hls6, Hls5; exact Hls).
    assert (Hlr : libref d' = R (eb a)) by (rewrite Hl', <- Hlib; destruct (libref (db s3)); reflexivity).
    exists s6, ev5. split; [reflexivity|]. split; [|split; [exact Hs5|split; [|split]]].
    - constructor; rewrite ?Hdb.
      + exact Hd'.
      + constructor.
      + cbn [rev]. exact Hlr.
      + rewrite Hlast. split; [exact Hb|]. exists (p' ++ [et]). rewrite Hl'. cbn [ri]. split; [exact Hc'|].
        split; [exact HS | exact Hsent].
    - destruct (f_irr (c_filter cfg)); exact Hm5.
    - rewrite Hdb. exact Hlr.
    - intros x Hx Hkx. apply in_map_iff in Hkx as (e & Hke & He).
      assert (Ex : eb e = x) by (apply U_uniq; [apply HU; exact He | exact Hx | exact Hke]).
      destruct (rn (libref (db s3)) - c_kept cfg <=? bnum (eb e)) eqn:Fe.
      + left. rewrite Hdb, Hst'. rewrite <- Hke. apply (in_map key). apply filter_In. split; [exact He | exact Fe].
      + right. unfold dropped. rewrite Hlast, Hdb, Hlr. cbn [R rn]. apply N.leb_gt in Fe. rewrite Ex in Fe.
        apply andb_true_iff. split; [apply N.ltb_lt; lia | reflexivity].
  Qed.

  (* the step that finds the LIB among the stored ancestors of the new block *)
  Lemma found_out s b y A a B' :
    PreInv s -> In b U -> find (bid b) (store (db s)) = None ->
    chain (store (db s) ++ [mkEntry b false]) (bid b) y (A ++ a :: B' ++ [mkEntry b false]) ->
    bnum (eb a) = blib b ->
    DiscOut s b (process_tail cfg (with_db s (move_lib (new_db (db s) b) (R (eb a)))) b [] [] None
                              (map seg_of (B' ++ [mkEntry b false])) (Some (seg_of a))).
  Proof.
    intros HP Hb Hf Hc Hbl. pose proof HP as [Hl He Hnd HU Hun Hls Hlls Hrt].
    set (en := mkEntry b false) in *. set (l1 := store (db s) ++ [en]) in *.
    assert (Hain : In a (A ++ a :: B' ++ [en])) by (apply in_or_app; right; left; reflexivity).
    assert (Ha : In a l1) by (eapply chain_in; eassumption).
    pose proof (dbinv_found s b a HP Hb Hf Ha) as Hd2.
    assert (HaU : In (eb a) U) by (apply (di_inU U _ _ Hd2); exact Ha).
    set (d2 := move_lib (new_db (db s) b) (R (eb a))) in *. set (s2 := with_db s d2).
    pose proof (di_wf U (R (eb a)) U_id U_up _ Hd2) as Hwf2.
    assert (Hc2 : chain (store (db s2)) (bid b) (ri (libref (db s2))) (B' ++ [en])).
    { apply (chain_suffix l1 y (B' ++ [en]) (bid b) A a Hwf2 Hc). }
    assert (HI2 : Inv U (R (eb a)) cfg s2 [] []).
    { constructor.
      - exact Hd2.
      - constructor.
      - reflexivity.
      - cbn [s2 with_db last_sent]. rewrite Hls. split; [reflexivity|]. split; [reflexivity|]. split.
        + intros e Hin. cbn [db d2 move_lib new_db store] in Hin.
          apply in_app_or in Hin as [Hin|[<-|[]]]; [apply Hun; exact Hin | reflexivity].
        + rewrite Hincl. discriminate. }
    destruct (trigger_first U (R (eb a)) cfg Hnofail Hnew Hundo U_id U_uniq U_up (R_id _ HaU) (R_num _ HaU) (R_up _ HaU) (R_decl _ HaU)
                s2 [] [] b B' [] B' [] None (Some (seg_of a)) HI2 Hb Hc2 eq_refl (Forall_nil _) eq_refl)
      as (s3 & evU & evRN & Hrun & Happ & HI3 & Hk3 & Hls3 & Hlr3 & HmU & HsU & HsRN & Hcl).
    assert (HfB : filter esent B' = []).
    { assert (G : forall x, In x B' -> esent x = false).
      { intros x Hx. assert (Hx1 : In x l1).
        { eapply chain_in; [exact Hc|]. apply in_or_app. right. right. apply in_or_app. left. exact Hx. }
        apply in_app_or in Hx1 as [Hx1|[<-|[]]]; [apply Hun; exact Hx1 | reflexivity]. }
      clear -G. induction B' as [|h t IHt]; cbn [filter]; [reflexivity|].
      rewrite (G h (or_introl eq_refl)). apply IHt. intros x Hx. apply G. right. exact Hx. }
    cbn [rev] in Hrun, HmU. rewrite HfB in Hrun. fold en in Hrun. fold s2. rewrite Hrun.
    apply map_eq_nil in HmU. subst evU. cbn [app] in *.
    assert (Hne : bid b <> key a).
    { destruct (chain_snoc_inv _ _ _ _ _ Hc2) as (Hx & _ & _). exact Hx. }
    assert (Hsto : find (key a) (store (db s3)) <> None).
    { intros Hn. apply find_none in Hn. apply Hn. rewrite Hk3. apply in_map. exact Ha. }
    destruct (disc_lib s3 _ b evRN a HaU HI3 Hlr3 Hls3 Hb Hne (eq_sym Hbl) Hsto)
      as (s' & evI & Hlt & HI' & HsI & HmI & Hlr' & Hkn).
    rewrite Hlt.
    set (S3 := rev ([] ++ map eb (B' ++ [en]))) in *.
    assert (HS3 : S3 <> []) by (unfold S3; cbn [app]; rewrite map_app, rev_app_distr; discriminate).
    assert (HevRN : evRN <> []).
    { intros ->. cbn in Happ. injection Happ as Happ. symmetry in Happ. contradiction. }
    exists s', (evRN ++ evI), (eb a), [], S3. split; [reflexivity|]. split; [exact HaU|].
    split.
    { destruct evRN as [|e0 rest]; [congruence|]. exists e0, (rest ++ evI). split; [reflexivity|].
      pose proof (Forall_inv Hcl) as He0. cbn beta in He0. rewrite He0. unfold cursor_lib, s2. cbn [with_db last_lib_seen db].
      rewrite Hlls. reflexivity. }
    split.
    { rewrite (apply_all_app _ _ _ _ _ Happ). apply apply_all_inert.
      eapply Forall_impl; [|exact HsI]. cbn beta. auto. }
    split; [exact HI'|]. split.
    - intros Hirr. rewrite Hirr in HmI. destruct evI as [|eI [|? ?]]; try discriminate.
      cbn [map] in HmI. injection HmI as HeI. pose proof (Forall_inv HsI) as HsI1. cbn beta in HsI1.
      assert (HA : fin_events (ri (R (eb a))) (R (eb a)) b (m0 (R (eb a))) evRN = Some (with_stack (m0 (R (eb a))) S3)).
      { apply fin_A; [exact Happ| |].
        - eapply Forall_impl; [|exact HsRN]. cbn beta. auto.
        - intros e He0 Hs0. rewrite Forall_forall in HsRN. rewrite (HsRN e He0) in Hs0. discriminate. }
      (* the bottom of the stack is the child of the LIB on the chain, not the LIB *)
      assert (Hbot : exists p0 rest, rev S3 = p0 :: rest /\ bid p0 <> bid (eb a)).
      { unfold S3. rewrite rev_involutive. cbn [app].
        destruct B' as [|e1 B1].
        - exists b, []. split; [reflexivity|]. exact Hne.
        - exists (eb e1), (map eb (B1 ++ [en])). split; [reflexivity|].
          apply (chain_not_bottom _ _ _ _ Hc2 e1). left. reflexivity. }
      destruct Hbot as (p0 & rest & Hrev & Hp0).
      eexists. split.
      + rewrite fin_events_app, HA.
        apply (fin_root_nf (ri (R (eb a))) (R (eb a)) b (with_stack (m0 (R (eb a))) S3) eI p0 rest);
          cbn [with_stack m0 fm_any fm_stalled fm_stack fm_nfinal]; auto.
        * rewrite HeI. reflexivity.
        * rewrite HeI. exact Hp0.
      + rewrite HeI. constructor; cbn [with_stack m0 fm_stack fm_nfinal fm_last fm_finals fm_stalled fm_any].
        * reflexivity.
        * reflexivity.
        * rewrite Hlr'. reflexivity.
        * intros id [<-|[]]. right. reflexivity.
        * intros id [].
        * intros H. contradiction.
    - intros x Hx Hin. apply Hkn; [exact Hx|]. rewrite Hk3. cbn [s2 with_db db d2 move_lib new_db store].
      rewrite keys_snoc. exact Hin.
  Qed.

  (* ---------- one ProcessBlock call before the discovery ---------- *)

  Definition PreQuiet (s : fstate) (b : block) (res : fstate * list event * result) : Prop :=
    exists s', res = (s', [], ROk) /\ PreInv s' /\
      (In (bid b) (keys (store (db s))) -> s' = s) /\
      (forall k, In k (keys (store (db s))) -> In k (keys (store (db s')))) /\
      In (bid b) (keys (store (db s'))).

  Lemma pre_add s b : PreInv s -> In b U -> find (bid b) (store (db s)) = None ->
    (bparent b = 0 -> bnum b <> first /\ bnum b <> blib b) ->
    PreInv (with_db s (new_db (db s) b)).
  Proof.
    intros [Hl He Hnd HU Hun Hls Hlls Hrt] Hb Hf Hq.
    assert (Hk : ~ In (bid b) (keys (store (db s)))) by (apply find_none; exact Hf).
    constructor; cbn [with_db db new_db store extra libref last_sent last_lib_seen]; try assumption.
    - rewrite keys_snoc. apply nodup_snoc; assumption.
    - intros e Hin. apply in_app_or in Hin as [Hin|[<-|[]]]; [apply HU; exact Hin | exact Hb].
    - intros e Hin. apply in_app_or in Hin as [Hin|[<-|[]]]; [apply Hun; exact Hin | reflexivity].
    - intros e Hin Hp. apply in_app_or in Hin as [Hin|[<-|[]]]; [apply Hrt; assumption | apply Hq; exact Hp].
  Qed.

  Lemma pre_step s b : PreInv s -> In b U ->
    PreQuiet s b (fk_step cfg s b) \/
    (~ In (bid b) (keys (store (db s))) /\ DiscOut s b (fk_step cfg s b)).
  Proof.
    intros HP Hb. pose proof HP as [Hl He Hnd HU Hun Hls Hlls Hrt].
    destruct (find (bid b) (store (db s))) as [e|] eqn:Hf.
    { left. rewrite (pre_step_old s b e HP Hb Hf). exists s. split; [reflexivity|]. split; [exact HP|].
      split; [auto|]. split; [auto|]. apply find_is_some_in. eauto. }
    assert (Hk : ~ In (bid b) (keys (store (db s)))) by (apply find_none; exact Hf).
    rewrite (fk_step_pre s b HP Hb Hf). cbv zeta.
    set (en := mkEntry b false). set (d1 := new_db (db s) b).
    assert (Hl1 : libref d1 = ref_empty) by exact Hl.
    assert (He1 : extra d1 = None) by exact He.
    assert (Hnd1 : NoDup (keys (store d1))).
    { unfold d1. cbn [new_db store]. rewrite keys_snoc. apply nodup_snoc; assumption. }
    assert (HU1 : in_U (store d1)).
    { unfold d1. cbn [new_db store]. intros e Hin. apply in_app_or in Hin as [Hin|[<-|[]]]; [apply HU; exact Hin | exact Hb]. }
    pose proof (wf_of_U U U_id U_up _ Hnd1 HU1) as Hwf1.
    assert (Hfb : find (bid b) (store d1) = Some en).
    { unfold d1. cbn [new_db store]. apply (find_snoc_new (store (db s)) en). exact Hk. }
    destruct (max_chain (store d1) Hwf1 (fuel_of d1) (bid b) (enough_fuel_of d1 (bid b))) as (y & p & Hc & Hy).
    destruct p as [|top p' _] using rev_ind.
    { apply chain_nil_inv in Hc. rewrite <- Hc, Hfb in Hy. discriminate. }
    destruct (chain_top _ _ _ _ _ Hc) as [Hft _]. rewrite Hfb in Hft. injection Hft as <-.
    assert (Hquiet : has_lib d1 = false -> (bparent b = 0 -> bnum b <> first /\ bnum b <> blib b) ->
                     PreQuiet s b (with_db s d1, [], ROk)).
    { intros _ Hq. exists (with_db s d1). split; [reflexivity|]. split; [exact (pre_add s b HP Hb Hf Hq)|]. split; [intros H; contradiction|].
      cbn [with_db db d1 new_db store]. rewrite keys_snoc. split.
      - intros k Hin. apply in_or_app. left. exact Hin.
      - apply in_or_app. right. left. reflexivity. }
    assert (Hhl1 : has_lib d1 = false) by (unfold has_lib; rewrite Hl1; reflexivity).
    assert (Hown : forall d2, d2 = move_lib d1 (bref b) ->
              DiscOut s b
              (if has_lib d2 then
                 if rn (libref d2) =? bnum b then
                   let '(s', evs, ok) := process_initial_inclusive cfg b (with_db s d2) in (s', evs, if ok then ROk else RHandlerErr)
                 else match reversible_segment d2 first (bref b) with
                      | None => (with_db s d2, [], RFuel)
                      | Some (longest, _) => if (match longest with [] => true | _ => false end) then (with_db s d2, [], ROk)
                                              else process_tail cfg (with_db s d2) b [] [] None longest (block_for_id d2 (ri (libref d2)))
                      end
               else (with_db s d2, [], ROk))).
    { intros d2 ->. unfold has_lib, move_lib, ref_eqb, ref_empty, bref. cbn [libref ri rn].
      destruct (N.eqb_spec (bid b) 0) as [E|E]; [exfalso; apply (proj1 (U_id b Hb)); exact E|]. cbn [andb negb].
      rewrite N.eqb_refl. apply own_out; assumption. }
    unfold set_lib. change (rn (bref b)) with (bnum b).
    destruct (N.eqb_spec (bnum b) first) as [|Hnf].
    { right. split; [exact Hk|]. cbv beta iota. apply (Hown _ eq_refl). }
    destruct (decl_on_store U U_uniq U_up (store d1) p' (bid b) y en HU1 Hc Hb (D_decl b Hb)) as [(A & a & B & Heq & Hna)|Hgt].
    - (* the declared height is the height of a stored ancestor-or-self *)
      rewrite Heq in Hc. cbn [eb en] in Hna.
      pose proof (bic_find d1 (bid b) y A a B en Hwf1 Hc Hfb) as Hbic. cbn [eb en] in Hbic. rewrite Hna in Hbic.
      change (mkR (bid b) (bnum b)) with (bref b) in Hbic. rewrite Hbic. cbn [ri].
      assert (Hain : In a (A ++ a :: B)) by (apply in_or_app; right; left; reflexivity).
      assert (Ha : In a (store d1)) by (eapply chain_in; eassumption).
      destruct (N.eqb_spec (key a) 0) as [E0|_]; [exfalso; apply (proj1 (ws_id _ Hwf1 a Ha)); exact E0|].
      right. split; [exact Hk|]. cbv beta iota.
      destruct B as [|t B' _] using rev_ind.
      + (* the block is its own LIB *)
        destruct (chain_top _ _ _ _ _ Hc) as [Hfa _]. rewrite Hfb in Hfa. injection Hfa as <-.
        change (mkR (key en) (blib b)) with (mkR (bid b) (blib b)). rewrite <- Hna.
        change (mkR (bid b) (bnum b)) with (bref b). apply (Hown _ eq_refl).
      + assert (Ht : t = en).
        { replace (A ++ a :: B' ++ [t]) with ((A ++ a :: B') ++ [t]) in Hc by (rewrite <- app_assoc; reflexivity).
          destruct (chain_top _ _ _ _ _ Hc) as [Hft _]. congruence. }
        subst t.
        pose proof (dbinv_found s b a HP Hb Hf Ha) as Hd2. rewrite <- Hna.
        change (mkR (key a) (bnum (eb a))) with (R (eb a)).
        set (d2 := move_lib d1 (R (eb a))) in *.
        rewrite (di_has_lib U (R (eb a)) d2 Hd2). cbn [d2 move_lib libref R rn].
        destruct (chain_split_order _ _ _ _ _ _ Hwf1 Hc) as [Habove _].
        assert (Hlt : bnum (eb a) < bnum b).
        { apply (Habove en). apply in_or_app. right. left. reflexivity. }
        destruct (N.eqb_spec (bnum (eb a)) (bnum b)) as [E|_]; [lia|].
        fold d2.
        assert (Hc2 : chain (store d2) (bid b) (ri (libref d2)) (B' ++ [en])).
        { apply (chain_suffix (store d1) y (B' ++ [en]) (bid b) A a Hwf1 Hc). }
        pose proof (rs_chain_lib d2 first (di_wf U _ U_id U_up d2 Hd2) (di_lid U _ d2 Hd2) (di_num U _ d2 Hd2) (di_up U _ d2 Hd2)
                      (bid b) (B' ++ [en]) en Hc2 Hfb) as Hrs.
        cbn [eb en] in Hrs. change (mkR (bid b) (bnum b)) with (bref b) in Hrs. rewrite Hrs by (destruct B'; discriminate).
        destruct (map seg_of (B' ++ [en])) as [|sg0 sgs] eqn:Emap.
        { apply map_eq_nil in Emap. destruct B'; discriminate. }
        rewrite <- Emap.
        assert (Hbf : block_for_id d2 (ri (libref d2)) = Some (seg_of a)).
        { unfold block_for_id. cbn [d2 move_lib libref R ri store]. change (bid (eb a)) with (key a).
          rewrite (find_in_nodup _ _ Hnd1 Ha). reflexivity. }
        change (ri (R (eb a))) with (ri (libref d2)). rewrite Hbf. apply (found_out s b y A a B' HP Hb Hf); [exact Hc | exact Hna].
    - (* no stored ancestor at the declared height: hold *)
      left. unfold block_in_chain. change (rn (bref b)) with (bnum b). change (ri (bref b)) with (bid b).
      assert (Hgb : blib b < bnum b).
      { apply (Hgt en). apply in_or_app. right. left. reflexivity. }
      destruct (N.eqb_spec (bnum b) (blib b)) as [E|_]; [lia|].
      rewrite (bic_all_gt d1 (blib b) Hwf1 He1 (bid b) y (p' ++ [en]) Hc Hy); [|destruct p'; discriminate | exact Hgt | apply enough_fuel_of].
      cbn [ri ref_empty]. rewrite N.eqb_refl. cbv beta iota. rewrite Hhl1. apply Hquiet; [exact Hhl1|].
      intros _. split; [exact Hnf | lia].
  Qed.

  (* ---------- whole histories ---------- *)

  Definition PSeen (s : fstate) (seen : list block) : Prop :=
    forall x, In x seen -> In x U /\ In (bid x) (keys (store (db s))).

  Lemma run_pre : forall h s seen, PreInv s -> (forall b, In b h -> In b U) -> PSeen s seen ->
    let t := fk_run cfg s h in
    length t = length h /\ Forall (fun x => snd x = ROk) t /\
    c01_discipline_b LNone t = true /\ c01_refeed_b seen h t = true /\
    (f_irr (c_filter cfg) = true -> c02_b LNone h t = true).
  Proof.
    induction h as [|b h IH]; intros s seen HP Hh Hseen.
    - cbn. repeat split; auto.
    - assert (Hb : In b U) by (apply Hh; left; reflexivity).
      assert (Hh' : forall x, In x h -> In x U) by (intros x Hx; apply Hh; right; exact Hx).
      cbn [fk_run].
      destruct (pre_step s b HP Hb) as [(s' & Hstep & HP' & Hsame & Hkeys & Hkb)|(Hnk & Hdisc)].
      + (* nothing delivered *)
        rewrite Hstep.
        assert (Hseen' : PSeen s' (b :: seen)).
        { intros x [<-|Hx]; [split; assumption|]. destruct (Hseen x Hx) as [HxU Hkx]. split; [exact HxU | apply Hkeys; exact Hkx]. }
        destruct (IH s' (b :: seen) HP' Hh' Hseen') as (Hlen & Hok & Hd & Hre & Hc2).
        cbn zeta in *. split; [cbn [length]; rewrite Hlen; reflexivity|].
        split; [constructor; [reflexivity | exact Hok]|].
        split; [exact Hd|]. split.
        * cbn [c01_refeed_b]. rewrite Hre. destruct (existsb (block_eqb b) seen); reflexivity.
        * intros Hirr. specialize (Hc2 Hirr). exact Hc2.
      + (* the LIB is discovered *)
        destruct Hdisc as (s' & evs & a & Fin & S' & Hstep & HaU & (e0 & rest & Hevs & He0) & Happ & HI' & Hmon & Hkn).
        rewrite Hstep.
        assert (Hseen' : Seen U s' (b :: seen)).
        { intros x [<-|Hx].
          - split; [exact Hb|]. apply (Hkn b Hb). apply in_or_app. right. left. reflexivity.
          - destruct (Hseen x Hx) as [HxU Hkx]. split; [exact HxU|]. apply (Hkn x HxU). apply in_or_app. left. exact Hkx. }
        destruct (run_c01 U (R a) cfg Hnofail Hnew Hundo U_id U_uniq U_up (R_id a HaU) (R_num a HaU) (R_up a HaU) (R_decl a HaU)
                    h s' Fin S' (b :: seen) HI' Hh' Hseen') as (Hlen & Hok & (S2 & Happ2) & Hre).
        cbn zeta in *. split; [cbn [length]; rewrite Hlen; reflexivity|].
        split; [constructor; [reflexivity | exact Hok]|].
        assert (Hall : all_events ((evs, ROk) :: fk_run cfg s' h) = e0 :: rest ++ all_events (fk_run cfg s' h)).
        { unfold all_events. cbn [map concat fst]. rewrite Hevs. reflexivity. }
        split; [|split].
        * unfold c01_discipline_b, root_lib. rewrite Hall, He0.
          change (e0 :: rest ++ all_events (fk_run cfg s' h)) with ((e0 :: rest) ++ all_events (fk_run cfg s' h)).
          rewrite <- Hevs, (apply_all_app _ _ _ _ _ Happ), Happ2. reflexivity.
        * cbn [c01_refeed_b]. rewrite Hre, andb_true_r.
          destruct (existsb (block_eqb b) seen) eqn:Hex; [|reflexivity].
          apply existsb_exists in Hex as (x & Hx & Heq). apply block_eqb_eq in Heq. subst x.
          destruct (Hseen b Hx) as [_ Hkb]. contradiction.
        * intros Hirr. destruct (Hmon Hirr) as (m' & Hm' & HM').
          destruct (run_c02 U (R a) cfg Hnofail Hnew Hundo Hirr U_id U_uniq U_up (R_id a HaU) (R_num a HaU) (R_up a HaU) (R_decl a HaU)
                      h s' Fin S' m' HI' HM' Hh') as [m2 Hm2].
          unfold c02_b, root_ref. rewrite Hall, He0. cbn [fin_trace]. fold (m0 (R a)). rewrite Hm', Hm2. reflexivity.
  Qed.

  Theorem disc_run h : (forall b, In b h -> In b U) ->
    let t := fk_run cfg (fs_init LNone) h in
    length t = length h /\ Forall (fun x => snd x = ROk) t /\
    c01_discipline_b LNone t = true /\ c01_refeed_b [] h t = true /\
    c01_error_b (c_fail_at cfg) 0 t = true /\
    (f_irr (c_filter cfg) = true -> c02_b LNone h t = true).
  Proof.
    intros Hh. destruct (run_pre h (fs_init LNone) [] pre_init Hh) as (Hlen & Hok & Hd & Hre & Hc2).
    { intros x []. }
    cbn zeta. repeat split; try assumption. rewrite Hnofail. apply error_ok. exact Hok.
  Qed.
End Disc.
