(* C03 on the Forkable model for an exclusive starting LIB that never moves: the consumer tip follows the
   reference fork choice fc_step (Spec/ForkChoice.v).  links_to_lib of the reference = existence of a
   chain down to the LIB in the fork database = ReversibleSegment reaches the LIB. *)
From BV Require Import Base.Prelude Model.Block Model.ForkDB Model.Forkable Model.ForkableLookups
  Spec.Consumer Spec.ForkChoice Spec.C04_Spec Spec.C03_Spec Check.Fk_Check Check.Fk_Props_Check
  Proofs.Fk.StoreFacts Proofs.Fk.WalkFacts Proofs.Fk.LoopFacts Proofs.Fk.StoreChange Proofs.Fk.SwitchFacts
  Proofs.Fk.FixedLib Proofs.Fk.FixedLibEvents.
Local Open Scope N_scope.

Notation ulookup := Spec.Universe.lookup.

Lemma ulookup_some id l b : ulookup id l = Some b -> In b l /\ bid b = id.
Proof.
  induction l as [|x l IH]; cbn [Universe.lookup]; [discriminate|].
  destruct (N.eqb_spec (bid x) id) as [E|E]; intros H.
  - injection H as <-. split; [left; reflexivity | exact E].
  - destruct (IH H) as [H1 H2]. split; [right; exact H1 | exact H2].
Qed.

Lemma ulookup_none id l : ulookup id l = None <-> ~ In id (map bid l).
Proof.
  induction l as [|x l IH]; cbn [Universe.lookup map In]; [tauto|].
  destruct (N.eqb_spec (bid x) id) as [E|E].
  - split; [discriminate | intros H; exfalso; apply H; left; exact E].
  - rewrite IH. tauto.
Qed.

Lemma ancestor_at_num : forall fuel recv b h a, ancestor_at fuel recv b h = Some a -> bnum a = h.
Proof.
  induction fuel as [|f IH]; intros recv b h a H; [discriminate|]. cbn [ancestor_at] in H.
  destruct (N.eqb_spec (bnum b) h) as [E|E]; [injection H as <-; exact E|].
  destruct (bnum b <? h); [discriminate|].
  destruct (ulookup (bparent b) recv) as [p|]; [eapply IH; exact H | discriminate].
Qed.

Lemma top_id_hd st : top_id st = oblock_id (hd_error st).
Proof. destruct st; reflexivity. Qed.

Lemma fold_no_final {A} (f : A -> event -> A) (g : A -> event -> A) : forall evs acc,
  Forall (fun e => estep e = SNew \/ estep e = SUndo) evs ->
  (forall a e, estep e = SNew \/ estep e = SUndo -> f a e = a) ->
  fold_left f evs acc = acc.
Proof.
  induction evs as [|e evs IH]; intros acc H Hf; cbn [fold_left]; [reflexivity|].
  rewrite (Hf acc e (Forall_inv H)). apply IH; [exact (Forall_inv_tail H) | exact Hf].
Qed.

Section FixedLibChoice.
  Variable U : list block.
  Variable r0 : ref.
  Variable cfg : config.

  Hypothesis Hnofail : c_fail_at cfg = None.
  Hypothesis Hnew : f_new (c_filter cfg) = true.
  Hypothesis Hundo : f_undo (c_filter cfg) = true.
  Hypothesis Hincl : c_incl cfg = false.

  Hypothesis U_id : forall b, In b U -> bid b <> 0 /\ bid b <> bparent b.
  Hypothesis U_uniq : forall x y, In x U -> In y U -> bid x = bid y -> x = y.
  Hypothesis U_up : forall x y, In x U -> In y U -> bparent x = bid y -> bnum y < bnum x.
  Hypothesis L_id : ri r0 <> 0.
  Hypothesis L_num : forall y, In y U -> bid y = ri r0 -> bnum y = rn r0.
  Hypothesis L_up : forall x, In x U -> bparent x = ri r0 -> rn r0 < bnum x.
  Hypothesis L_lib : forall b, In b U -> blib b = rn r0.

  Notation first := (c_first cfg).
  Notation Inv := (Inv U r0).
  Notation in_U := (in_U U).

  (* ---------------------------------------------------------------- links_to_lib = a chain to the LIB *)

  Section Links.
    Variable recv : list block.
    Variable l : list entry.
    Hypothesis Hlook : forall id, ulookup id recv = option_map eb (find id l).
    Hypothesis HU : in_U l.
    Hypothesis Hnd : NoDup (keys l).

    Lemma links_chain : forall fuel x ex, find (bid x) l = Some ex -> eb ex = x -> bid x <> ri r0 ->
      links_to_lib fuel first recv r0 x = true -> exists p, chain l (bid x) (ri r0) (p ++ [ex]).
    Proof.
      induction fuel as [|f IH]; intros x ex Hf Hex Hne H; [discriminate|]. cbn [links_to_lib] in H.
      destruct ((first <? bnum x) && (bnum x <? rn r0)); [discriminate|].
      destruct (N.eqb_spec (bparent x) (ri r0)) as [E|E].
      - exists []. cbn [app]. apply (chain_cons l (bid x) (ri r0) ex []); [exact Hne | exact Hf|].
        rewrite Hex, E. constructor.
      - destruct (ulookup (bparent x) recv) as [p|] eqn:Lp; [|discriminate].
        rewrite Hlook in Lp. destruct (find (bparent x) l) as [ep|] eqn:Fp; [|discriminate].
        cbn [option_map] in Lp. injection Lp as Lp.
        pose proof (find_some _ _ _ Fp) as [_ Hk]. unfold key in Hk.
        destruct (IH p ep) as [q Hq]; [rewrite <- Lp, Hk; exact Fp | exact Lp | rewrite <- Lp, Hk; exact E | exact H |].
        exists (q ++ [ep]). apply (chain_cons l (bid x) (ri r0) ex (q ++ [ep])); [exact Hne | exact Hf|].
        rewrite Hex, <- Hk, Lp. exact Hq.
    Qed.

    Lemma chain_links : forall p x ex, chain l (bid x) (ri r0) (p ++ [ex]) -> eb ex = x ->
      forall fuel, (length p < fuel)%nat -> links_to_lib fuel first recv r0 x = true.
    Proof.
      induction p as [|ep p IH] using rev_ind; intros x ex Hc Hex fuel Hfuel; (destruct fuel as [|f]; [lia|]); cbn [links_to_lib].
      - assert (Hab : rn r0 < bnum x).
        { rewrite <- Hex. eapply (above U r0 cfg U_id U_up L_id L_up l HU Hnd); [exact Hc | left; reflexivity]. }
        replace ((first <? bnum x) && (bnum x <? rn r0)) with false by lia.
        destruct (chain_snoc_inv _ _ _ _ _ Hc) as (_ & _ & Hc'). apply chain_nil_inv in Hc'.
        rewrite Hex in Hc'. rewrite Hc', N.eqb_refl. reflexivity.
      - assert (Hab : rn r0 < bnum x).
        { rewrite <- Hex. eapply (above U r0 cfg U_id U_up L_id L_up l HU Hnd); [exact Hc | apply in_or_app; right; left; reflexivity]. }
        replace ((first <? bnum x) && (bnum x <? rn r0)) with false by lia.
        destruct (chain_snoc_inv _ _ _ _ _ Hc) as (_ & _ & Hc'). rewrite Hex in Hc'.
        destruct (chain_snoc_inv _ _ _ _ _ Hc') as (Hne' & Fp & _).
        destruct (N.eqb_spec (bparent x) (ri r0)); [contradiction|].
        rewrite Hlook, Fp. cbn [option_map].
        pose proof (find_some _ _ _ Fp) as [_ Hk]. unfold key in Hk.
        apply (IH (eb ep) ep); [rewrite Hk; exact Hc' | reflexivity|].
        rewrite app_length in Hfuel. cbn [length] in Hfuel. lia.
    Qed.
  End Links.

  (* ---------------------------------------------------------------- the relation with the reference *)

  Record FcRel (fc : fc_state) (s : fstate) (S : cstack) : Prop := mkFcRel {
    fr_lib : fc_lib fc = r0;
    fr_final : fc_final fc = None;
    fr_tip : fc_tip fc = hd_error S;
    fr_inU : forall x, In x (fc_recv fc) -> In x U;
    fr_keys : forall id, In id (map bid (fc_recv fc)) <-> In id (keys (store (db s)));
    fr_len : length (fc_recv fc) = length (store (db s))
  }.

  Lemma fcrel_init : FcRel (fc_init (LExcl r0)) (fs_init (LExcl r0)) [].
  Proof. constructor; cbn; try reflexivity; try tauto. Qed.

  (* the last block sent is the top of the consumer stack *)
  Lemma inv_top s S : Inv s S -> last_sent s = hd_error S.
  Proof.
    intros [Hnd HU Hl Hlc Hh]. destruct (last_sent s) as [hd|].
    - destruct Hh as (HhU & p & Hc & Hne & Hm & _).
      destruct p as [|e p] using rev_ind; [congruence|]. clear IHp.
      destruct (chain_snoc_inv _ _ _ _ _ Hc) as (_ & Hf & _).
      rewrite map_app in Hm. cbn [map] in Hm.
      assert (HS : S = rev (map eb p ++ [eb e])) by (rewrite Hm, rev_involutive; reflexivity).
      rewrite HS, rev_app_distr. cbn [rev app hd_error].
      rewrite (stored_is_self U U_uniq _ _ _ HU HhU Hf). reflexivity.
    - destruct Hh as [-> _]. reflexivity.
  Qed.

  Lemma fc_lookup fc s S : FcRel fc s S -> Inv s S ->
    forall id, ulookup id (fc_recv fc) = option_map eb (find id (store (db s))).
  Proof.
    intros HR HI id. pose proof HI as [Hnd HU _ _ _].
    destruct (ulookup id (fc_recv fc)) as [p|] eqn:Lp; destruct (find id (store (db s))) as [e|] eqn:Fe; cbn [option_map].
    - apply ulookup_some in Lp as [Hp Hid]. pose proof (find_some _ _ _ Fe) as [He Hk].
      f_equal. apply U_uniq; [apply (fr_inU _ _ _ HR); exact Hp | apply HU; exact He | unfold key in Hk; congruence].
    - exfalso. apply ulookup_some in Lp as [Hp Hid]. apply find_none in Fe. apply Fe.
      apply (fr_keys _ _ _ HR). rewrite <- Hid. apply in_map. exact Hp.
    - exfalso. apply ulookup_none in Lp. apply Lp. apply (fr_keys _ _ _ HR). apply find_is_some_in. eauto.
    - reflexivity.
  Qed.

  Definition fstep (fc : fc_state) (b : block) : fc_state := fc_step first (c_incl cfg) (c_alltrig cfg) fc b.

  Lemma fc_trig fc s S b : FcRel fc s S -> Inv s S ->
    (c_alltrig cfg || match fc_tip fc with None => true | Some t => bnum t <? bnum b end) = triggers cfg s b.
  Proof. intros HR HI. unfold triggers. rewrite (inv_top s S HI), <- (fr_tip _ _ _ HR). reflexivity. Qed.

  Lemma fc_dropped fc s S b : FcRel fc s S -> Inv s S ->
    ((bnum b <? rn (fc_lib fc)) && match fc_tip fc with Some _ => true | None => false end) = dropped s b.
  Proof.
    intros HR HI. unfold dropped. destruct (i_lib _ _ _ _ HI) as [Hl _].
    rewrite Hl, (fr_lib _ _ _ HR), (inv_top s S HI), <- (fr_tip _ _ _ HR). reflexivity.
  Qed.

  (* one step of the reference against one step of the model *)
  Lemma fc_follows_step fc s s' S S' b evs : FcRel fc s S -> Inv s S -> Inv s' S' -> In b U ->
    StepKind r0 cfg s s' S S' b evs ->
    FcRel (fstep fc b) s' S' /\
    (fc_tip (fstep fc b) = fc_tip fc -> evs = []).
  Proof.
    intros HR HI HI' Hb Hk.
    pose proof (fc_dropped fc s S b HR HI) as Hdr. pose proof (fc_trig fc s S b HR HI) as Htr.
    pose proof (fc_lookup fc s S HR HI) as Hlk.
    unfold fstep, fc_step. rewrite Hdr, Hincl. cbn [andb].
    destruct Hk as [Hc -> -> Hev| Hd Hnk Hk' Hno -> Hls Hev | Hd Hnk Hk' Htrig Hch [T ->]].
    - (* dropped or already stored: the reference ignores the block *)
      destruct Hc as [Hc|Hc].
      + rewrite Hc. split; [exact HR | auto].
      + destruct (dropped s b); [split; [exact HR | auto]|].
        rewrite Hlk. apply find_is_some_in in Hc as [e He]. rewrite He. cbn [option_map]. split; [exact HR | auto].
    - (* stored, the tip does not move *)
      rewrite Hd, Hlk. apply find_none in Hnk. rewrite Hnk. cbn [option_map]. rewrite Htr.
      set (recv1 := b :: fc_recv fc).
      set (cond := triggers cfg s b && negb (bid b =? ri (fc_lib fc)) &&
                   links_to_lib (Datatypes.S (length recv1)) first recv1 (fc_lib fc) b).
      assert (Hrel : FcRel (mkFC recv1 (fc_lib fc) (fc_tip fc) (fc_final fc)) s' S).
      { constructor; cbn [fc_lib fc_final fc_tip fc_recv].
        - exact (fr_lib _ _ _ HR).
        - exact (fr_final _ _ _ HR).
        - exact (fr_tip _ _ _ HR).
        - intros x [<-|Hx]; [exact Hb | apply (fr_inU _ _ _ HR); exact Hx].
        - intros id. unfold recv1. cbn [map In]. rewrite Hk', in_app_iff, (fr_keys _ _ _ HR id). cbn [In]. tauto.
        - unfold recv1. cbn [length]. rewrite (fr_len _ _ _ HR). unfold keys in Hk'.
          apply (f_equal (@length N)) in Hk'. rewrite app_length, !map_length in Hk'. cbn [length] in Hk'. lia. }
      assert (Hcond : cond = false).
      { unfold cond. destruct Hno as [Hno|Hno]; [rewrite Hno; reflexivity|].
        destruct (triggers cfg s b); [|reflexivity]. cbn [andb]. rewrite (fr_lib _ _ _ HR).
        destruct (N.eqb_spec (bid b) (ri r0)) as [E|E]; [reflexivity|]. cbn [negb andb].
        destruct (links_to_lib (Datatypes.S (length recv1)) first recv1 r0 b) eqn:Lk; [|reflexivity].
        exfalso. apply Hno.
        set (en := mkEntry b false). set (l1 := store (db s) ++ [en]).
        assert (Hfb : find (bid b) l1 = Some en).
        { apply (find_snoc_new (store (db s)) en). apply find_none. exact Hnk. }
        apply (links_chain recv1 l1) with (fuel := Datatypes.S (length recv1)); [|exact Hfb | reflexivity | exact E | exact Lk].
        intros id. unfold recv1, l1. cbn [Universe.lookup]. rewrite find_app, Hlk.
        destruct (N.eqb_spec (bid b) id) as [Ei|Ei].
        - rewrite <- Ei, Hnk. cbn [find eb en]. rewrite N.eqb_refl. reflexivity.
        - destruct (find id (store (db s))); [reflexivity|]. cbn [find eb en].
          destruct (N.eqb_spec (bid b) id); [contradiction | reflexivity]. }
      fold recv1. fold cond. rewrite Hcond. split; [exact Hrel | auto].
    - (* the tip moves to b *)
      rewrite Hd, Hlk. apply find_none in Hnk. rewrite Hnk. cbn [option_map]. rewrite Htr, Htrig.
      set (recv1 := b :: fc_recv fc).
      rewrite (fr_lib _ _ _ HR).
      pose proof HI as [Hnd HU _ _ _].
      set (en := mkEntry b false). set (l1 := store (db s) ++ [en]).
      assert (Hnk' : ~ In (bid b) (keys (store (db s)))) by (apply find_none; exact Hnk).
      assert (Hfb : find (bid b) l1 = Some en) by (apply (find_snoc_new (store (db s)) en); exact Hnk').
      assert (Hlk1 : forall id, ulookup id recv1 = option_map eb (find id l1)).
      { intros id. unfold recv1, l1. cbn [Universe.lookup]. rewrite find_app, Hlk.
        destruct (N.eqb_spec (bid b) id) as [Ei|Ei].
        - rewrite <- Ei, Hnk. cbn [find eb en]. rewrite N.eqb_refl. reflexivity.
        - destruct (find id (store (db s))); [reflexivity|]. cbn [find eb en].
          destruct (N.eqb_spec (bid b) id); [contradiction | reflexivity]. }
      assert (HU1 : in_U l1).
      { intros e He. apply in_app_or in He as [He|[<-|[]]]; [apply HU; exact He | exact Hb]. }
      assert (Hnd1 : NoDup (keys l1)).
      { unfold l1. rewrite keys_snoc. apply nodup_snoc; [exact Hnd | exact Hnk']. }
      destruct Hch as [pP Hc]. fold en in Hc. fold l1 in Hc.
      destruct (chain_snoc_inv _ _ _ _ _ Hc) as (Hne & _ & _).
      destruct (N.eqb_spec (bid b) (ri r0)) as [E|_]; [contradiction|]. cbn [negb andb].
      assert (Hlen : length recv1 = length l1).
      { unfold recv1, l1. cbn [length]. rewrite app_length, (fr_len _ _ _ HR). cbn [length]. lia. }
      rewrite (chain_links recv1 l1 Hlk1 HU1 Hnd1 pP b en Hc eq_refl (Datatypes.S (length recv1))).
      2:{ pose proof (chain_length _ _ _ _ (wf_of_U U U_id U_up _ Hnd1 HU1) Hc) as Hcl.
          rewrite app_length in Hcl. cbn [length] in Hcl. lia. }
      assert (Hrel : FcRel (mkFC recv1 r0 (Some b) (fc_final fc)) s' (b :: T)).
      { constructor; cbn [fc_lib fc_final fc_tip fc_recv hd_error]; try reflexivity.
        - exact (fr_final _ _ _ HR).
        - intros x [<-|Hx]; [exact Hb | apply (fr_inU _ _ _ HR); exact Hx].
        - intros id. unfold recv1. cbn [map In]. rewrite Hk', in_app_iff, (fr_keys _ _ _ HR id). cbn [In]. tauto.
        - unfold recv1. cbn [length]. rewrite (fr_len _ _ _ HR). unfold keys in Hk'.
          apply (f_equal (@length N)) in Hk'. rewrite app_length, !map_length in Hk'. cbn [length] in Hk'. lia. }
      assert (Hres : match ancestor_at (Datatypes.S (length recv1)) recv1 b (blib b) with
                     | Some a => if rn r0 <? bnum a then mkFC recv1 (bref a) (Some b) (Some a)
                                 else mkFC recv1 r0 (Some b) (fc_final fc)
                     | None => mkFC recv1 r0 (Some b) (fc_final fc)
                     end = mkFC recv1 r0 (Some b) (fc_final fc)).
      { destruct (ancestor_at (Datatypes.S (length recv1)) recv1 b (blib b)) as [a|] eqn:A; [|reflexivity].
        apply ancestor_at_num in A. rewrite A, (L_lib b Hb). replace (rn r0 <? rn r0) with false by lia. reflexivity. }
      rewrite Hres. split; [exact Hrel|].
      cbn [fc_tip]. intros Ht. exfalso.
      (* the old tip is a stored block, b is not *)
      rewrite (fr_tip _ _ _ HR), <- (inv_top s S HI) in Ht.
      destruct HI as [_ _ _ _ Hh]. rewrite <- Ht in Hh. destruct Hh as (_ & p & Hcp & Hnp & _).
      destruct p as [|e p] using rev_ind; [congruence|]. clear IHp.
      destruct (chain_snoc_inv _ _ _ _ _ Hcp) as (_ & Hf & _). congruence.
  Qed.

  (* ---------------------------------------------------------------- the stack is the path to the LIB *)

  Lemma linked_on_path y : forall l, linked y l -> on_path y (rev l).
  Proof.
    induction l as [|x l IH] using rev_ind; intros H; [exact I|].
    rewrite rev_app_distr. cbn [rev app on_path].
    destruct (linked_app _ _ _ H) as [Hl Hx]. cbn [linked] in Hx. destruct Hx as [Hx _].
    split; [|apply IH; exact Hl].
    destruct (rev l) as [|t r]; [|exact Hx]. unfold root_ok. rewrite Hx, N.eqb_refl. apply orb_true_r.
  Qed.

  Lemma inv_path s S : Inv s S -> on_path (ri r0) S.
  Proof.
    intros [_ _ _ _ Hh]. destruct (last_sent s) as [hd|].
    - destruct Hh as (_ & p & Hc & _ & Hm & _).
      assert (HS : S = rev (map eb p)) by (rewrite Hm, rev_involutive; reflexivity).
      rewrite HS. apply linked_on_path. exact (proj1 (chain_linked _ _ _ _ Hc)).
    - destruct Hh as [-> _]. exact I.
  Qed.

  (* ---------------------------------------------------------------- whole histories *)

  Lemma steps_no_final (evs : list event) lr S b S' : c04_step r0 lr S b evs S' ->
    Forall (fun e => estep e = SNew \/ estep e = SUndo) evs.
  Proof.
    intros (kept & undone & redone & fresh & _ & _ & -> & _ & _).
    apply Forall_app. split; [|apply Forall_app; split].
    - eapply Forall_impl; [|apply batch_events_step]. cbn. auto.
    - eapply Forall_impl; [|apply batch_events_step]. cbn. auto.
    - eapply Forall_impl; [|apply fresh_events_step]. cbn. auto.
  Qed.

  Lemma run_follows : forall h s S fc, Inv s S -> last_lib_seen s = r0 -> FcRel fc s S ->
    (forall b, In b h -> In b U) ->
    c03_follows cfg (ri r0) fc S None h (fk_run cfg s h) /\
    c03_follow cfg (ri r0) fc S 0 h (fk_obs cfg s h) = true /\
    c03_noise cfg fc h (fk_run cfg s h).
  Proof.
    induction h as [|b h IH]; intros s S fc HI Hseen HR Hh; [repeat split|].
    assert (Hb : In b U) by (apply Hh; left; reflexivity).
    destruct (step_ev U r0 cfg Hnofail Hnew Hundo Hincl U_id U_uniq U_up L_id L_num L_up L_lib s S b HI Hseen Hb)
      as (s' & evs & S' & Hstep & Happ & HI' & Hseen' & Hc04 & Hkind).
    destruct (fc_follows_step fc s s' S S' b evs HR HI HI' Hb Hkind) as [HR' Hsame].
    destruct (IH s' S' (fstep fc b) HI' Hseen' HR' (fun x Hx => Hh x (or_intror Hx))) as (IH1 & IH2 & IH3).
    pose proof (steps_no_final evs _ _ _ _ Hc04) as Hsteps.
    assert (Hfin : last_final None evs = None).
    { unfold last_final. apply (fold_no_final _ (fun a _ => a)); [exact Hsteps|].
      intros a e [-> | ->]; reflexivity. }
    assert (Hfin0 : fold_left (fun acc e => match estep e with SIrr | SNewIrr => bid (eblk e) | _ => acc end) evs 0 = 0).
    { apply (fold_no_final _ (fun a _ => a)); [exact Hsteps|]. intros a e [-> | ->]; reflexivity. }
    cbn [fk_run fk_obs c03_follows c03_follow c03_noise]. rewrite Hstep. cbn [c03_follows c03_follow c03_noise o_events o_head].
    fold (fstep fc b). split; [|split].
    - exists S'. split; [exact Happ|]. split; [symmetry; exact (fr_tip _ _ _ HR')|]. split; [exact (inv_path s' S' HI')|]. rewrite Hfin.
      split; [intros _; symmetry; exact (fr_final _ _ _ HR') | exact IH1].
    - rewrite Happ, Hfin0. rewrite top_id_hd, <- (fr_tip _ _ _ HR'), N.eqb_refl. cbn [andb].
      unfold head_info. rewrite (inv_top s' S' HI'), <- (fr_tip _ _ _ HR').
      rewrite (fr_final _ _ _ HR'). cbn [oblock_id]. rewrite orb_true_r.
      replace (match match fc_tip (fstep fc b) with Some b0 => Some (bref b0, blib b0) | None => None end with
               | Some (r, _) => ri r | None => 0 end) with (oblock_id (fc_tip (fstep fc b)))
        by (destruct (fc_tip (fstep fc b)); reflexivity).
      rewrite N.eqb_refl. cbn [andb]. exact IH2.
    - split; [|exact IH3]. intros Ht _. exact (Hsame Ht).
  Qed.


  (* ---------------------------------------------------------------- noise blocks can be deleted *)

  Definition Noise (s : fstate) (x : block) : Prop :=
    dropped s x = true \/ In (bid x) (keys (store (db s))).

  Lemma noise_quiet s S b : Inv s S -> In b U -> Noise s b -> fk_step cfg s b = (s, [], ROk).
  Proof.
    intros HI Hb [Hd|Hk]; [exact (fk_step_dropped U cfg U_id s b Hb Hd)|].
    pose proof HI as [Hnd HU Hl Hlc _]. apply find_is_some_in in Hk as [e He].
    pose proof (wf_of_U U U_id U_up _ Hnd HU) as Hwf.
    assert (Hlz : ri (libref (db s)) <> 0) by (destruct Hl as [-> _]; exact L_id).
    exact (fk_step_old U cfg Hincl U_id U_uniq s b e HU Hb He Hwf (stored_root_unsent U r0 U_uniq L_id _ b e HU Hb He Hwf Hlc) Hlz).
  Qed.

  (* a block the reference ignores completely is noise for the model *)
  Lemma fc_ignored_noise fc s S b : FcRel fc s S -> Inv s S -> fstep fc b = fc -> Noise s b.
  Proof.
    intros HR HI. unfold fstep, fc_step. rewrite (fc_dropped fc s S b HR HI), Hincl. cbn [andb].
    destruct (dropped s b) eqn:Hd; [intros _; left; exact Hd|].
    rewrite (fc_lookup fc s S HR HI). destruct (find (bid b) (store (db s))) as [e|] eqn:F; cbn [option_map].
    - intros _. right. apply find_is_some_in. eauto.
    - assert (G : forall f', fc_recv f' = b :: fc_recv fc -> f' = fc -> Noise s b).
      { intros f' Hr E. rewrite E in Hr. apply (f_equal (@length block)) in Hr. cbn [length] in Hr. lia. }
      destruct (_ && _).
      + destruct (ancestor_at _ _ _ _) as [a|]; [destruct (_ <? _)|]; apply G; reflexivity.
      + apply G. reflexivity.
  Qed.

  Lemma run_split : forall h1 s S fc, Inv s S -> last_lib_seen s = r0 -> FcRel fc s S -> (forall b, In b h1 -> In b U) ->
    exists s1 S1, Inv s1 S1 /\ last_lib_seen s1 = r0 /\ FcRel (fc_after cfg fc h1) s1 S1 /\
      length (fk_run cfg s h1) = length h1 /\
      forall h2, fk_run cfg s (h1 ++ h2) = fk_run cfg s h1 ++ fk_run cfg s1 h2.
  Proof.
    induction h1 as [|b h1 IH]; intros s S fc HI Hseen HR Hh.
    - exists s, S. split; [exact HI|]. split; [exact Hseen|]. split; [exact HR|]. split; [reflexivity|]. intros h2. reflexivity.
    - assert (Hb : In b U) by (apply Hh; left; reflexivity).
      destruct (step_ev U r0 cfg Hnofail Hnew Hundo Hincl U_id U_uniq U_up L_id L_num L_up L_lib s S b HI Hseen Hb)
        as (s' & evs & S' & Hstep & _ & HI' & Hseen' & _ & Hkind).
      destruct (fc_follows_step fc s s' S S' b evs HR HI HI' Hb Hkind) as [HR' _].
      destruct (IH s' S' (fstep fc b) HI' Hseen' HR' (fun x Hx => Hh x (or_intror Hx))) as (s1 & S1 & A1 & A2 & A3 & A4 & A5).
      exists s1, S1. split; [exact A1|]. split; [exact A2|]. split; [exact A3|].
      cbn [fk_run app]. rewrite Hstep. cbn [length]. split; [rewrite A4; reflexivity|].
      intros h2. rewrite A5. reflexivity.
  Qed.

  Lemma noise_deletion s S fc h1 b h2 : Inv s S -> last_lib_seen s = r0 -> FcRel fc s S ->
    (forall x, In x (h1 ++ b :: h2) -> In x U) ->
    fstep (fc_after cfg fc h1) b = fc_after cfg fc h1 ->
    let T := fk_run cfg s (h1 ++ h2) in
    fk_run cfg s (h1 ++ b :: h2) = firstn (length h1) T ++ ([], ROk) :: skipn (length h1) T.
  Proof.
    intros HI Hseen HR Hh Hig.
    destruct (run_split h1 s S fc HI Hseen HR (fun x Hx => Hh x (in_or_app _ _ _ (or_introl Hx))))
      as (s1 & S1 & HI1 & _ & HR1 & Hlen & Happ).
    assert (Hb : In b U) by (apply Hh; apply in_or_app; right; left; reflexivity).
    pose proof (noise_quiet s1 S1 b HI1 Hb (fc_ignored_noise _ s1 S1 b HR1 HI1 Hig)) as Hq.
    cbv zeta. rewrite !Happ. cbn [fk_run]. rewrite Hq.
    rewrite <- Hlen, firstn_app, Nat.sub_diag, firstn_all, skipn_app, Nat.sub_diag, skipn_all. cbn [firstn skipn app].
    rewrite app_nil_r. reflexivity.
  Qed.

  (* ---------------------------------------------------------------- the retention setting is never read *)

  Section Kept.
    Variable k : N.
    Let cfg' := with_kept cfg k.

    Lemma fstate_eq (a c : fstate) : store (db a) = store (db c) -> extra (db a) = extra (db c) ->
      libref (db a) = libref (db c) -> last_sent a = last_sent c -> last_lib_seen a = last_lib_seen c ->
      ncalls a = ncalls c -> a = c.
    Proof. destruct a as [[] ? ? ?], c as [[] ? ? ?]. cbn. intros; subst; reflexivity. Qed.

    Lemma process_tail_kept s1 b undos redos junc longest :
      lib_db r0 (db s1) -> last_lib_seen s1 = r0 -> longest <> [] ->
      Forall (fun sg => seg_ref sg = bref (eb (sent sg))) longest ->
      seg_ref (last longest (mkSeg 0 0 (mkEntry b false))) = bref b ->
      (forall d ls, store d = mark_all (store (db s1)) (unsent longest) -> extra d = extra (db s1) -> libref d = libref (db s1) ->
          In ls (map (fun sg => eb (sent sg)) (unsent longest)) \/ last_sent s1 = Some ls ->
          block_in_chain d (bref ls) (blib ls) = Some (mkR (ri r0) (rn r0))) ->
      process_tail cfg' s1 b undos redos junc longest None = process_tail cfg s1 b undos redos junc longest None.
    Proof.
      intros Hl Hseen Hne Hrefs Hhead Htail.
      destruct (process_tail_ev r0 cfg Hnofail Hnew Hundo L_id s1 b undos redos junc longest Hl Hseen Hne Hrefs Hhead Htail)
        as (s3 & -> & A1 & A2 & A3 & A4 & A5 & A6).
      destruct (process_tail_ev r0 cfg' Hnofail Hnew Hundo L_id s1 b undos redos junc longest Hl Hseen Hne Hrefs Hhead Htail)
        as (s3' & -> & B1 & B2 & B3 & B4 & B5 & B6).
      f_equal. f_equal. apply fstate_eq; congruence.
    Qed.

    Lemma fk_step_kept s S b : Inv s S -> last_lib_seen s = r0 -> In b U -> fk_step cfg' s b = fk_step cfg s b.
    Proof.
      intros HI Hseen Hb.
      destruct (dropped s b) eqn:Hd.
      { rewrite (fk_step_dropped U cfg' U_id s b Hb Hd), (fk_step_dropped U cfg U_id s b Hb Hd). reflexivity. }
      pose proof HI as [Hnd HU Hl Hlc Hh].
      pose proof (wf_of_U U U_id U_up _ Hnd HU) as Hwf.
      destruct (find (bid b) (store (db s))) as [e|] eqn:Hf.
      { assert (Hlz : ri (libref (db s)) <> 0) by (destruct Hl as [-> _]; exact L_id).
        pose proof (stored_root_unsent U r0 U_uniq L_id _ b e HU Hb Hf Hwf Hlc) as Hru.
        rewrite (fk_step_old U cfg' Hincl U_id U_uniq s b e HU Hb Hf Hwf Hru Hlz), (fk_step_old U cfg Hincl U_id U_uniq s b e HU Hb Hf Hwf Hru Hlz).
        reflexivity. }
      pose proof (inv_add U r0 s S b HI Hb Hf) as HI1.
      set (s1 := with_db s (new_db (db s) b)) in *.
      set (en := mkEntry b false).
      assert (Hk : ~ In (bid b) (keys (store (db s)))) by (apply find_none; exact Hf).
      assert (Hsw : exists u r j, sw_of cfg s b = ScssOk u r j).
      { unfold sw_of. destruct (f_undo (c_filter cfg) && triggers cfg s b); [|eauto].
        destruct (last_sent s) as [ls|]; [apply scss_total; exact Hwf | eauto]. }
      destruct Hsw as (undos & redos & junc & Hsw).
      assert (Hsw' : sw_of cfg' s b = ScssOk undos redos junc) by exact Hsw.
      rewrite (fk_step_new U r0 cfg' Hincl U_id L_id s b undos redos junc Hl Hb Hf Hd Hsw').
      rewrite (fk_step_new U r0 cfg Hincl U_id L_id s b undos redos junc Hl Hb Hf Hd Hsw).
      cbv zeta. fold s1.
      change (c_first cfg') with (c_first cfg). change (triggers cfg' s b) with (triggers cfg s b).
      change (new_db (db s) b) with (db s1).
      pose proof HI1 as [Hnd1 HU1 Hl1 Hlc1 Hh1].
      destruct (reversible_segment (db s1) (c_first cfg) (bref b)) as [[longest reach]|] eqn:Hrs; [|reflexivity].
      destruct (negb (triggers cfg s b) || match longest with [] => true | _ => false end) eqn:Hgo; [reflexivity|].
      apply orb_false_iff in Hgo as [_ Hlong].
      assert (Hfb : find (bid b) (store (db s1)) = Some en).
      { apply (find_snoc_new (store (db s)) en). exact Hk. }
      unfold reversible_segment in Hrs. cbn [bref ri rn] in Hrs.
      destruct (longest_shape r0 cfg L_id (db s1) b longest reach Hl1 Hfb Hrs) as (pP & Hc & ->).
      { destruct longest; discriminate. }
      apply process_tail_kept.
      - exact Hl1.
      - exact Hseen.
      - destruct pP; discriminate.
      - apply seg_of_refs.
      - rewrite map_app. cbn [map]. rewrite last_last. reflexivity.
      - exact (tail_hyp U r0 cfg U_id U_uniq U_up L_id L_num L_up L_lib s1 S b pP HI1 Hb Hc).
    Qed.

    Lemma run_kept : forall h s S, Inv s S -> last_lib_seen s = r0 -> (forall b, In b h -> In b U) ->
      fk_run cfg' s h = fk_run cfg s h.
    Proof.
      induction h as [|b h IH]; intros s S HI Hseen Hh; [reflexivity|].
      assert (Hb : In b U) by (apply Hh; left; reflexivity).
      destruct (step_ev U r0 cfg Hnofail Hnew Hundo Hincl U_id U_uniq U_up L_id L_num L_up L_lib s S b HI Hseen Hb)
        as (s' & evs & S' & Hstep & _ & HI' & Hseen' & _ & _).
      cbn [fk_run]. rewrite (fk_step_kept s S b HI Hseen Hb), Hstep.
      rewrite (IH s' S' HI' Hseen' (fun x Hx => Hh x (or_intror Hx))). reflexivity.
    Qed.
  End Kept.
End FixedLibChoice.
