(* C01 on the Forkable model, LIB discovery with holdBlocksUntilLIB (mode LNone, c_hold = true), in the
   class where every block sits at or above one height n0 and declares n0 as its LIB (and no block other
   than one at height n0 sits at the first streamable height).  Handler never fails (failures transfer).

   What the model does in this class (read off fk_step):
   * as long as no block of height n0 has arrived, every new block is stored and HELD: SetLIB walks
     BlockInCurrentChain from the block, meets only stored blocks above n0 and stops on a missing parent:
     no LIB, nothing delivered;
   * the first block b* of height n0 becomes the LIB by itself (its own number is the LIB it declares):
     processInitialInclusiveIrreversibleBlock delivers it as New (+ Irreversible); the held blocks are NOT
     delivered at that moment: each held branch is delivered when a later block of it triggers;
   * from then on the state satisfies the invariant of FixedLibIncl.v for r0 = b* (with b* at the bottom of
     the consumer's stack, the LIB block stored and the InitLIB nums entry absent). *)
From BV Require Import Base.Prelude Model.Block Model.ForkDB Model.Forkable Spec.Consumer
  Proofs.Fk.StoreFacts Proofs.Fk.WalkFacts Proofs.Fk.LoopFacts Proofs.Fk.StoreChange Proofs.Fk.SwitchFacts
  Proofs.Fk.FixedLib Proofs.Fk.FixedLibWeak Proofs.Fk.FixedLibIncl.
Local Open Scope N_scope.

Section Disc.
  Variable U : list block.
  Variable n0 : N.
  Variable cfg : config.

  Hypothesis Hnofail : c_fail_at cfg = None.
  Hypothesis Hnew : f_new (c_filter cfg) = true.
  Hypothesis Hundo : f_undo (c_filter cfg) = true.
  Hypothesis Hhold : c_hold cfg = true.

  Hypothesis U_id : forall b, In b U -> bid b <> 0 /\ bid b <> bparent b.
  Hypothesis U_uniq : forall x y, In x U -> In y U -> bid x = bid y -> x = y.
  Hypothesis U_up : forall x y, In x U -> In y U -> bparent x = bid y -> bnum y < bnum x.
  Hypothesis D_lib : forall b, In b U -> blib b = n0.
  Hypothesis D_above : forall b, In b U -> n0 <= bnum b.
  Hypothesis D_first : forall b, In b U -> bnum b = c_first cfg -> bnum b = n0.

  Notation first := (c_first cfg).

  (* before the LIB is discovered *)
  Record Pre (s : fstate) : Prop := mkPre {
    p_nodup : NoDup (keys (store (db s)));
    p_inU : in_U U (store (db s));
    p_nolib : libref (db s) = ref_empty;
    p_extra : extra (db s) = None;
    p_ls : last_sent s = None;
    p_lls : last_lib_seen s = ref_empty;
    p_above : forall e, In e (store (db s)) -> n0 < bnum (eb e);
    p_unsent : forall e, In e (store (db s)) -> esent e = false
  }.

  Lemma pre_init : Pre (fs_init LNone).
  Proof. constructor; cbn; try reflexivity; try constructor; intros e []. Qed.

  (* BlockInCurrentChain finds nothing while every stored block sits above n0 *)
  Lemma bic_pre d : wf_store (store d) -> extra d = None -> (forall e, In e (store d) -> n0 < bnum (eb e)) ->
    forall f cur, enough (store d) cur f -> bic_loop f d cur n0 = Some ref_empty.
  Proof.
    intros Hwf Hex Hab. induction f as [|f IH]; intros cur He; [destruct He; lia|].
    cbn [bic_loop]. unfold num_of. destruct (find (link_of d cur) (store d)) as [ep|] eqn:Fp.
    - pose proof (find_some _ _ _ Fp) as [Hin Hk]. pose proof (Hab ep Hin) as Hlt.
      destruct (N.eqb_spec (bnum (eb ep)) n0); [lia|]. destruct (N.ltb_spec (bnum (eb ep)) n0); [lia|].
      apply IH. unfold link_of in *. destruct (find cur (store d)) as [e|] eqn:F.
      + eapply enough_parent; eassumption.
      + exfalso. destruct (ws_id _ Hwf ep Hin) as (Hz & _). unfold key in Hk. congruence.
    - rewrite Hex. reflexivity.
  Qed.

  Lemma pre_wf s : Pre s -> wf_store (store (db s)).
  Proof. intros HP. apply (wf_of_U U U_id U_up); [apply (p_nodup s HP) | apply (p_inU s HP)]. Qed.

  (* ---------------------------------------------------------------- ProcessBlock before the discovery *)

  Lemma pre_guards s b : Pre s -> In b U ->
    (bid b =? bparent b) = false /\
    (bnum b <? rn (libref (db s))) && (match last_sent s with Some _ => true | None => false end) = false /\
    c_incl cfg && (match last_sent s with None => true | Some _ => false end) && (bid b =? ri (libref (db s))) = false /\
    (if f_undo (c_filter cfg) && triggers cfg s b
     then match last_sent s with
          | Some ls => sent_chain_switch_segments (db s) (bid ls) (bparent b)
          | None => ScssOk [] [] None
          end
     else ScssOk [] [] None) = ScssOk [] [] None.
  Proof.
    intros HP Hb. destruct (U_id b Hb) as (H1 & H3).
    rewrite (p_ls s HP), (p_nolib s HP). cbn [ref_empty ri rn].
    split; [apply N.eqb_neq; exact H3|]. split; [rewrite andb_false_r; reflexivity|].
    split.
    - destruct (N.eqb_spec (bid b) 0); [contradiction|]. rewrite andb_false_r. reflexivity.
    - destruct (f_undo (c_filter cfg) && triggers cfg s b); reflexivity.
  Qed.

  Lemma fk_step_pre_old s b e : Pre s -> In b U -> find (bid b) (store (db s)) = Some e ->
    fk_step cfg s b = (s, [], ROk).
  Proof.
    intros HP Hb Hf. destruct (pre_guards s b HP Hb) as (G1 & G2 & G3 & G4).
    unfold fk_step. rewrite G1, G2, G3, G4.
    destruct (N.eq_dec (bparent b) 0) as [E0|E0].
    - (* a stored root is stored again, unchanged; SetLIB finds nothing again; hold *)
      pose proof (find_some _ _ _ Hf) as [Hin _].
      pose proof (stored_is_self U U_uniq _ _ _ (p_inU s HP) Hb Hf) as Eb.
      rewrite (add_link_root U U_id U_uniq _ _ _ (p_nodup s HP) (p_inU s HP) Hb Hf E0 (p_unsent s HP e Hin)).
      assert (Hs : with_db s (db s) = s) by (destruct s; reflexivity). rewrite Hs.
      assert (Hhl : has_lib (db s) = false) by (unfold has_lib; rewrite (p_nolib s HP); reflexivity).
      rewrite Hhl.
      pose proof (p_above s HP e Hin) as Hab. rewrite Eb in Hab.
      assert (Hset : set_lib (db s) first (bref b) (blib b) = Some (db s)).
      { unfold set_lib. cbn [bref rn ri].
        destruct (N.eqb_spec (bnum b) first) as [E|E]; [pose proof (D_first b Hb E); lia|].
        unfold block_in_chain, bref. cbn [rn ri]. rewrite (D_lib b Hb).
        destruct (N.eqb_spec (bnum b) n0); [lia|].
        rewrite (bic_pre (db s) (pre_wf s HP) (p_extra s HP) (p_above s HP)); [reflexivity | apply enough_fuel_of]. }
      rewrite Hset, Hs, Hhl, Hhold. reflexivity.
    - rewrite (add_link_old U U_id U_uniq _ _ _ (p_inU s HP) Hb Hf E0). reflexivity.
  Qed.

  Lemma no_lib_new s b : Pre s -> has_lib (new_db (db s) b) = false.
  Proof. intros HP. unfold has_lib. cbn [new_db libref]. rewrite (p_nolib s HP). reflexivity. Qed.

  (* a new block above n0 is held *)
  Lemma fk_step_pre_hold s b : Pre s -> In b U -> find (bid b) (store (db s)) = None -> bnum b <> n0 ->
    fk_step cfg s b = (with_db s (new_db (db s) b), [], ROk).
  Proof.
    intros HP Hb Hf Hne. destruct (pre_guards s b HP Hb) as (G1 & G2 & G3 & G4).
    unfold fk_step. rewrite G1, G2, G3, G4.
    rewrite (add_link_new U U_id _ _ Hb Hf). rewrite (no_lib_new s b HP).
    set (d1 := new_db (db s) b).
    assert (Hset : set_lib d1 first (bref b) (blib b) = Some d1).
    { unfold set_lib. cbn [bref rn ri].
      destruct (N.eqb_spec (bnum b) first) as [E|E]; [exfalso; exact (Hne (D_first b Hb E))|].
      unfold block_in_chain, bref. cbn [rn ri]. rewrite (D_lib b Hb).
      destruct (N.eqb_spec (bnum b) n0); [contradiction|].
      rewrite (bic_pre d1).
      - reflexivity.
      - unfold d1. cbn [new_db store]. apply (wf_of_U U U_id U_up).
        + rewrite keys_snoc. apply nodup_snoc; [apply (p_nodup s HP) | apply find_none; exact Hf].
        + intros e He. apply in_app_or in He as [He|[<-|[]]]; [apply (p_inU s HP); exact He | exact Hb].
      - unfold d1. cbn [new_db extra]. apply (p_extra s HP).
      - unfold d1. cbn [new_db store]. intros e He. apply in_app_or in He as [He|[<-|[]]]; [apply (p_above s HP); exact He|].
        cbn [eb]. pose proof (D_above b Hb). lia.
      - apply enough_fuel_of. }
    rewrite Hset. fold d1. rewrite (no_lib_new s b HP : has_lib d1 = false), Hhold.
    destruct s as [d ls lls nc]. reflexivity.
  Qed.

  Lemma pre_hold s b : Pre s -> In b U -> find (bid b) (store (db s)) = None -> bnum b <> n0 ->
    Pre (with_db s (new_db (db s) b)).
  Proof.
    intros HP Hb Hf Hne. constructor; cbn [with_db db new_db store extra libref last_sent last_lib_seen].
    - rewrite keys_snoc. apply nodup_snoc; [apply (p_nodup s HP) | apply find_none; exact Hf].
    - intros e He. apply in_app_or in He as [He|[<-|[]]]; [apply (p_inU s HP); exact He | exact Hb].
    - apply (p_nolib s HP).
    - apply (p_extra s HP).
    - apply (p_ls s HP).
    - apply (p_lls s HP).
    - intros e He. apply in_app_or in He as [He|[<-|[]]]; [apply (p_above s HP); exact He|].
      cbn [eb]. pose proof (D_above b Hb). lia.
    - intros e He. apply in_app_or in He as [He|[<-|[]]]; [apply (p_unsent s HP); exact He | reflexivity].
  Qed.

  (* the first block of height n0 becomes the LIB through the initial inclusive path *)
  Definition disc_state (s : fstate) (b : block) : fstate :=
    with_db (with_db s (new_db (db s) b)) (move_lib (new_db (db s) b) (bref b)).

  Lemma fk_step_pre_disc s b : Pre s -> In b U -> find (bid b) (store (db s)) = None -> bnum b = n0 ->
    fk_step cfg s b =
      let '(s', evs, ok) := process_initial_inclusive cfg b (disc_state s b) in
      (s', evs, if ok then ROk else RHandlerErr).
  Proof.
    intros HP Hb Hf Heq. destruct (pre_guards s b HP Hb) as (G1 & G2 & G3 & G4).
    destruct (U_id b Hb) as (H1 & H3).
    unfold fk_step. rewrite G1, G2, G3, G4.
    rewrite (add_link_new U U_id _ _ Hb Hf). rewrite (no_lib_new s b HP).
    set (d1 := new_db (db s) b).
    assert (Hset : set_lib d1 first (bref b) (blib b) = Some (move_lib d1 (bref b))).
    { unfold set_lib. cbn [bref rn ri].
      destruct (N.eqb_spec (bnum b) first) as [E|E]; [reflexivity|].
      unfold block_in_chain, bref. cbn [rn ri]. rewrite (D_lib b Hb), Heq, N.eqb_refl. cbn [ri].
      destruct (N.eqb_spec (bid b) 0); [contradiction | reflexivity]. }
    rewrite Hset.
    assert (Hhl : has_lib (move_lib d1 (bref b)) = true).
    { unfold has_lib, move_lib, Block.ref_eqb, ref_empty, bref. cbn [libref ri rn].
      destruct (N.eqb_spec (bid b) 0); [contradiction | reflexivity]. }
    rewrite Hhl. cbn [move_lib libref bref rn]. rewrite N.eqb_refl. reflexivity.
  Qed.

  (* the hypotheses of FixedLibIncl.v for r0 = the discovered LIB *)
  Section AfterDisc.
    Variable bs : block.
    Hypothesis Hbs : In bs U.
    Hypothesis Hnum : bnum bs = n0.

    Let r0 : ref := bref bs.

    Lemma L_id' : ri r0 <> 0.
    Proof. cbn. destruct (U_id bs Hbs) as (H & _). exact H. Qed.
    Lemma L_num' : forall y, In y U -> bid y = ri r0 -> bnum y = rn r0.
    Proof. intros y Hy E. cbn in *. rewrite (U_uniq y bs Hy Hbs E). reflexivity. Qed.
    Lemma L_up' : forall x, In x U -> bparent x = ri r0 -> rn r0 < bnum x.
    Proof. intros x Hx E. cbn in *. apply (U_up x bs Hx Hbs E). Qed.
    Lemma L_lib' : forall b, In b U -> blib b = rn r0.
    Proof. intros b Hb. cbn. rewrite Hnum. apply D_lib. exact Hb. Qed.

    Lemma disc_inv s : Pre s -> find (bid bs) (store (db s)) = None ->
      exists s3 evs e1 l,
        fk_step cfg s bs = (s3, evs, ROk) /\ evs = e1 :: l /\ ri (elib e1) = ri r0 /\
        apply_all (ri r0) [] evs = Some [bs] /\
        InvG U r0 cfg s3 [bs] /\
        keys (store (db s3)) = keys (store (db s)) ++ [bid bs] /\
        libref (db s3) = r0 /\ last_sent s3 = Some bs.
    Proof.
      intros HP Hf. rewrite (fk_step_pre_disc s bs HP Hbs Hf Hnum).
      destruct (pii_ok cfg Hnofail Hnew bs (disc_state s bs) (ri r0)) as (s3 & evs & -> & Hdb & Hls & Happ & e1 & l & Hev & He1).
      { unfold root_ok. cbn. rewrite N.eqb_refl. reflexivity. }
      exists s3, evs, e1, l. split; [reflexivity|]. split; [exact Hev|].
      assert (Hk : ~ In (bid bs) (keys (store (db s)))) by (apply find_none; exact Hf).
      cbn [disc_state with_db db] in Hdb.
      split.
      { rewrite He1. unfold cursor_lib, disc_state. cbn [with_db last_lib_seen db move_lib libref].
        rewrite (p_lls s HP). reflexivity. }
      split; [exact Happ|].
      split; [|split; [|split]].
      - constructor; rewrite ?Hdb; cbn [move_lib new_db store extra libref].
        + rewrite keys_snoc. apply nodup_snoc; [apply (p_nodup s HP) | exact Hk].
        + intros e He. apply in_app_or in He as [He|[<-|[]]]; [apply (p_inU s HP); exact He | exact Hbs].
        + split; [reflexivity|]. unfold num_of. cbn [store]. fold r0. cbn [r0 bref ri rn].
          cbn [move_lib new_db store].
          pose proof (find_snoc_new (store (db s)) (mkEntry bs false) Hk) as Fs. unfold key in Fs. cbn [eb] in Fs.
          rewrite Fs. reflexivity.
        + intros e He Hs. exfalso. apply in_app_or in He as [He|[<-|[]]]; [|discriminate].
          rewrite (p_unsent s HP e He) in Hs. discriminate.
        + intros _ Hn. rewrite Hls in Hn. discriminate.
        + rewrite Hls. split; [exact Hbs|]. exists [], [bs]. split; [apply chain_nil|].
          split; [reflexivity|]. split; [|constructor]. right. exists bs. split; reflexivity.
      - rewrite Hdb. cbn [move_lib new_db store]. apply keys_snoc.
      - rewrite Hdb. reflexivity.
      - exact Hls.
    Qed.
  End AfterDisc.

  (* ---------------------------------------------------------------- whole histories *)

  Definition SeenPre (s : fstate) (seen : list block) : Prop :=
    forall x, In x seen -> In x U /\ In (bid x) (keys (store (db s))).

  Lemma root_lib_skip (t : trace) r : root_lib LNone (([], r) :: t) = root_lib LNone t.
  Proof. reflexivity. Qed.

  Lemma run_pre : forall h s seen, Pre s -> (forall b, In b h -> In b U) -> SeenPre s seen ->
    let t := fk_run cfg s h in
    length t = length h /\ Forall (fun x => snd x = ROk) t /\
    (exists S', apply_all (root_lib LNone t) [] (all_events t) = Some S') /\
    c01_refeed_b seen h t = true.
  Proof.
    induction h as [|b h IH]; intros s seen HP Hh Hseen.
    - cbn. repeat split; [constructor | exists []; reflexivity].
    - assert (Hb : In b U) by (apply Hh; left; reflexivity).
      assert (Hh' : forall x, In x h -> In x U) by (intros x Hx; apply Hh; right; exact Hx).
      cbn [fk_run].
      destruct (find (bid b) (store (db s))) as [e|] eqn:Hf.
      { (* fed before: nothing *)
        rewrite (fk_step_pre_old s b e HP Hb Hf).
        assert (Hseen' : SeenPre s (b :: seen)).
        { intros x [<-|Hx]; [|apply Hseen; exact Hx]. split; [exact Hb|].
          destruct (in_dec N.eq_dec (bid b) (keys (store (db s)))) as [i|n]; [exact i|]. apply find_none in n. congruence. }
        destruct (IH s (b :: seen) HP Hh' Hseen') as (Hlen & Hok & Happ & Hre).
        cbn zeta in *. repeat split.
        - cbn [length]. rewrite Hlen. reflexivity.
        - constructor; [reflexivity | exact Hok].
        - rewrite root_lib_skip. exact Happ.
        - cbn [c01_refeed_b]. rewrite Hre, andb_true_r. destruct (existsb (block_eqb b) seen); reflexivity. }
      assert (Hnotseen : existsb (block_eqb b) seen = false).
      { destruct (existsb (block_eqb b) seen) eqn:Hex; [|reflexivity]. exfalso.
        apply existsb_exists in Hex as (x & Hx & Heq). apply block_eqb_eq in Heq. subst x.
        destruct (Hseen b Hx) as [_ Hk]. apply find_none in Hf. contradiction. }
      destruct (N.eq_dec (bnum b) n0) as [Heq|Hne].
      + (* the discovery *)
        destruct (disc_inv b Hb Heq s HP Hf) as (s3 & evs & e1 & l & Hstep & Hev & He1 & Happ & HI & Hkeys & Hlr & Hls).
        rewrite Hstep.
        assert (Hseen3 : Seen U s3 (b :: seen)).
        { intros x [<-|Hx].
          - split; [exact Hb|]. left. rewrite Hkeys. apply in_or_app. right. left. reflexivity.
          - destruct (Hseen x Hx) as [HxU Hk]. split; [exact HxU|]. left. rewrite Hkeys. apply in_or_app. left. exact Hk. }
        destruct (run_invG U (bref b) cfg Hnofail Hnew Hundo U_id U_uniq U_up
                    (L_id' b Hb) (L_num' b Hb) (L_up' b Hb) (L_lib' b Heq)
                    h s3 [b] (b :: seen) HI Hh' Hseen3) as (Hlen & Hok & (S2 & Happ2) & Hre).
        cbn zeta in *. repeat split.
        * cbn [length]. rewrite Hlen. reflexivity.
        * constructor; [reflexivity | exact Hok].
        * exists S2.
          assert (Ea : all_events ((evs, ROk) :: fk_run cfg s3 h) = evs ++ all_events (fk_run cfg s3 h)) by reflexivity.
          assert (Hroot : root_lib LNone ((evs, ROk) :: fk_run cfg s3 h) = ri (bref b)).
          { unfold root_lib. rewrite Ea, Hev. cbn [app]. exact He1. }
          rewrite Hroot, Ea, (apply_all_app _ _ _ _ _ Happ). exact Happ2.
        * cbn [c01_refeed_b]. rewrite Hnotseen, Hre. reflexivity.
      + (* held *)
        rewrite (fk_step_pre_hold s b HP Hb Hf Hne).
        pose proof (pre_hold s b HP Hb Hf Hne) as HP'.
        assert (Hseen' : SeenPre (with_db s (new_db (db s) b)) (b :: seen)).
        { intros x Hx. cbn [with_db db new_db store]. rewrite keys_snoc. destruct Hx as [<-|Hx].
          - split; [exact Hb|]. apply in_or_app. right. left. reflexivity.
          - destruct (Hseen x Hx) as [HxU Hk]. split; [exact HxU|]. apply in_or_app. left. exact Hk. }
        destruct (IH _ (b :: seen) HP' Hh' Hseen') as (Hlen & Hok & Happ & Hre).
        cbn zeta in *. repeat split.
        * cbn [length]. rewrite Hlen. reflexivity.
        * constructor; [reflexivity | exact Hok].
        * rewrite root_lib_skip. exact Happ.
        * cbn [c01_refeed_b]. rewrite Hre, Hnotseen. reflexivity.
  Qed.

  Theorem fixed_lib_disc_run h : (forall b, In b h -> In b U) ->
    let t := fk_run cfg (fs_init LNone) h in
    length t = length h /\ Forall (fun x => snd x = ROk) t /\
    c01_discipline_b LNone t = true /\ c01_refeed_b [] h t = true /\
    c01_error_b (c_fail_at cfg) 0 t = true.
  Proof.
    intros Hh. destruct (run_pre h (fs_init LNone) [] pre_init Hh) as (Hlen & Hok & (S' & Happ) & Hre).
    { intros x []. }
    cbn zeta. repeat split; try assumption.
    - unfold c01_discipline_b. rewrite Happ. reflexivity.
    - rewrite Hnofail. apply error_ok. exact Hok.
  Qed.

End Disc.
