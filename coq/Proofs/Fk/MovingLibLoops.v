(* Moving LIB, part 3: the Irreversible and Stalled delivery loops when the handler never fails,
   stalledInSegment, and the C01 consumer on Irreversible / Stalled events. *)
From Coq Require Import Permutation.
From BV Require Import Base.Prelude Model.Block Model.ForkDB Model.Forkable Spec.Consumer
  Proofs.Fk.StoreFacts Proofs.Fk.WalkFacts Proofs.Fk.LoopFacts Proofs.Fk.StoreChange Proofs.Fk.SwitchFacts
  Proofs.Fk.MovingLibStore.
Local Open Scope N_scope.

Section NoFailLib.
  Variable cfg : config.
  Hypothesis Hnofail : c_fail_at cfg = None.

  Lemma process_irr_loop_ok head count : forall l idx s acc,
    exists s' evs, process_irr_loop cfg head count idx l s acc = (s', acc ++ evs, true) /\
      same_but_calls s s' /\ map eblk evs = map (fun b => eb (sent b)) l /\
      Forall (fun e => estep e = SIrr) evs.
  Proof.
    induction l as [|b rest IH]; intros idx s acc.
    - exists s, []. cbn [process_irr_loop]. rewrite app_nil_r. repeat split; constructor.
    - cbn [process_irr_loop]. rewrite (call_ok cfg Hnofail). cbv beta iota zeta.
      set (s1 := mkFS (db s) (last_sent s) (last_lib_seen s) (ncalls s + 1)).
      set (ev := mkEv SIrr (eb (sent b)) (bref (eb (sent b))) head (bref (eb (sent b))) None idx count).
      destruct (IH (idx + 1) s1 (acc ++ [ev])) as (s' & evs & Heq & (H1 & H2 & H3) & Hm & Hs).
      exists s', (ev :: evs). rewrite Heq, <- app_assoc. cbn [app]. repeat split; try assumption.
      + cbn [map]. rewrite Hm. reflexivity.
      + constructor; [reflexivity | exact Hs].
  Qed.

  Lemma process_irr_segment_ok irr b0 irr' head s : irr = b0 :: irr' ->
    exists s' evs, process_irr_segment cfg irr head s = (s', evs, true) /\
      db s' = db s /\ last_sent s' = last_sent s /\ last_lib_seen s' = seg_ref (last irr b0) /\
      (if f_irr (c_filter cfg) then map eblk evs = map (fun b => eb (sent b)) irr else evs = []) /\
      Forall (fun e => estep e = SIrr) evs.
  Proof.
    intros ->. unfold process_irr_segment. destruct (f_irr (c_filter cfg)).
    - destruct (process_irr_loop_ok head (N.of_nat (length (b0 :: irr'))) (b0 :: irr') 0 s []) as (s' & evs & -> & (H1 & H2 & H3) & Hm & Hs).
      cbn [app]. cbv beta iota.
      eexists. exists evs. split; [reflexivity|]. cbn [db last_sent last_lib_seen]. repeat split; assumption.
    - cbv beta iota. eexists. exists []. split; [reflexivity|].
      cbn [db last_sent last_lib_seen]. repeat split. constructor.
  Qed.

  Lemma process_stalled_loop_ok head count : forall l idx s acc,
    exists s' evs, process_stalled_loop cfg head count idx l s acc = (s', acc ++ evs, true) /\
      same_but_calls s s' /\ map eblk evs = map (fun b => eb (sent b)) l /\
      Forall (fun e => estep e = SStalled) evs.
  Proof.
    induction l as [|b rest IH]; intros idx s acc.
    - exists s, []. cbn [process_stalled_loop]. rewrite app_nil_r. repeat split; constructor.
    - cbn [process_stalled_loop]. rewrite (call_ok cfg Hnofail). cbv beta iota zeta.
      set (s1 := mkFS (db s) (last_sent s) (last_lib_seen s) (ncalls s + 1)).
      set (ev := mkEv SStalled (eb (sent b)) (seg_ref b) head (last_lib_seen s) None idx count).
      destruct (IH (idx + 1) s1 (acc ++ [ev])) as (s' & evs & Heq & (H1 & H2 & H3) & Hm & Hs).
      exists s', (ev :: evs). rewrite Heq, <- app_assoc. cbn [app]. repeat split; try assumption.
      + cbn [map]. rewrite Hm. reflexivity.
      + constructor; [reflexivity | exact Hs].
  Qed.

  Lemma process_stalled_segment_ok l head s :
    exists s' evs, process_stalled_segment cfg l head s = (s', evs, true) /\
      same_but_calls s s' /\
      (if f_stalled (c_filter cfg) then map eblk evs = map (fun b => eb (sent b)) l else evs = []) /\
      Forall (fun e => estep e = SStalled) evs.
  Proof.
    unfold process_stalled_segment. destruct (f_stalled (c_filter cfg)).
    - destruct (process_stalled_loop_ok head (N.of_nat (length l)) l 0 s []) as (s' & evs & -> & Hs & Hm & Hst).
      cbn [app]. exists s', evs. auto.
    - exists s, []. repeat split. constructor.
  Qed.
End NoFailLib.

(* ---------- the C01 consumer ignores Irreversible and Stalled events ---------- *)

Lemma apply_all_inert lib S evs :
  Forall (fun e => estep e = SIrr \/ estep e = SStalled) evs -> apply_all lib S evs = Some S.
Proof.
  induction 1 as [|e l He Hl IH]; cbn [apply_all]; [reflexivity|].
  unfold apply_ev. destruct He as [-> | ->]; exact IH.
Qed.

(* ---------- stalledInSegment ---------- *)

Lemma insert_perm s : forall l, Permutation (insert_by_id s l) (s :: l).
Proof.
  induction l as [|x l IH]; cbn [insert_by_id]; [apply Permutation_refl|].
  destruct (sid s <? sid x); [apply Permutation_refl|].
  eapply perm_trans; [apply perm_skip; exact IH | apply perm_swap].
Qed.

Lemma sort_perm : forall l, Permutation (sort_by_id l) l.
Proof.
  induction l as [|x l IH]; cbn [sort_by_id fold_right]; [apply perm_nil|].
  fold (sort_by_id l). eapply perm_trans; [apply insert_perm | apply perm_skip; exact IH].
Qed.

Definition stalled_pred (blocks : list seg) (b0 : seg) (e : entry) : bool :=
  negb (memN (bid (eb e)) (map sid blocks)) && (snum b0 <=? bnum (eb e)) && (bnum (eb e) <=? snum (last blocks b0)).

Lemma stalled_spec d blocks b0 rest : blocks = b0 :: rest ->
  Permutation (stalled_in_segment d blocks)
              (if ri (libref d) =? 0 then []
               else map seg_of (filter (stalled_pred blocks b0) (store d))).
Proof.
  intros ->. unfold stalled_in_segment. cbv beta iota zeta.
  destruct (ri (libref d) =? 0); [apply perm_nil|].
  apply sort_perm.
Qed.

Lemma stalled_in d blocks b0 rest sg : blocks = b0 :: rest -> In sg (stalled_in_segment d blocks) ->
  exists e, In e (store d) /\ sg = seg_of e /\ ~ In (key e) (map sid blocks) /\
            snum b0 <= bnum (eb e) <= snum (last blocks b0).
Proof.
  intros Hb Hin. pose proof (stalled_spec d blocks b0 rest Hb) as P.
  apply (Permutation_in _ P) in Hin. destruct (ri (libref d) =? 0); [destruct Hin|].
  apply in_map_iff in Hin as (e & <- & He). apply filter_In in He as [He Hp].
  exists e. split; [exact He|]. split; [reflexivity|].
  unfold stalled_pred in Hp. apply andb_true_iff in Hp as [Hp H3]. apply andb_true_iff in Hp as [H1 H2].
  split; [|lia]. intros Hm. apply memN_in in Hm. unfold key in Hm. rewrite Hm in H1. discriminate.
Qed.

Lemma stalled_nodup d blocks b0 rest : blocks = b0 :: rest -> NoDup (keys (store d)) ->
  NoDup (map sid (stalled_in_segment d blocks)).
Proof.
  intros Hb Hnd. pose proof (stalled_spec d blocks b0 rest Hb) as P.
  eapply Permutation_NoDup; [apply Permutation_map; apply Permutation_sym; exact P|].
  destruct (ri (libref d) =? 0); [constructor|].
  rewrite map_map. cbn [sid seg_of]. apply (nodup_filter_keys (stalled_pred blocks b0)) in Hnd. exact Hnd.
Qed.

(* ---------- the cursor LIB carried by Undo / New events ---------- *)

Lemma call_cursor cfg s : cursor_lib (fst (call cfg s)) = cursor_lib s.
Proof. reflexivity. Qed.

Lemma pbl_elib cfg cur st junc count : forall blocks idx s acc s' evs' ok,
  process_blocks_loop cfg cur st junc count idx blocks s acc = (s', evs', ok) ->
  exists evs, evs' = acc ++ evs /\ Forall (fun e => elib e = cursor_lib s) evs.
Proof.
  induction blocks as [|e rest IH]; intros idx s acc s' evs' ok H; cbn [process_blocks_loop] in H.
  - injection H as <- <- <-. exists []. rewrite app_nil_r. split; [reflexivity | constructor].
  - pose proof (call_cursor cfg s) as Hc. destruct (call cfg s) as [s1 ok1]. cbn [fst] in Hc.
    set (ev := mkEv st (eb e) (bref (eb e)) (bref cur) (cursor_lib s) (if matches_undo st then junc else None) idx count) in *.
    destruct ok1.
    + apply IH in H. destruct H as (evs & -> & Hall). exists (ev :: evs). split; [rewrite <- app_assoc; reflexivity|].
      constructor; [reflexivity|]. rewrite Hc in Hall. exact Hall.
    + injection H as <- <- <-. exists [ev]. split; [reflexivity|]. constructor; [reflexivity | constructor].
Qed.

Lemma pb_elib cfg cur blocks st junc s s' evs ok :
  process_blocks cfg cur blocks st junc s = (s', evs, ok) -> Forall (fun e => elib e = cursor_lib s) evs.
Proof. unfold process_blocks. intros H. apply pbl_elib in H. destruct H as (evs0 & -> & Hall). exact Hall. Qed.

Lemma pnl_elib cfg head : forall chain s acc s' evs' ok,
  process_new_loop cfg head chain s acc = (s', evs', ok) ->
  exists evs, evs' = acc ++ evs /\ Forall (fun e => elib e = cursor_lib s) evs.
Proof.
  induction chain as [|b rest IH]; intros s acc s' evs' ok H; cbn [process_new_loop] in H.
  - injection H as <- <- <-. exists []. rewrite app_nil_r. split; [reflexivity | constructor].
  - destruct (esent (sent b)); [apply IH in H; exact H|].
    destruct (f_new (c_filter cfg)).
    + pose proof (call_cursor cfg s) as Hc. destruct (call cfg s) as [s1 ok1]. cbn [fst] in Hc.
      set (ev := mkEv SNew (eb (sent b)) (seg_ref b) head (cursor_lib s) None 0 0) in *.
      destruct ok1.
      * apply IH in H. destruct H as (evs & -> & Hall). exists (ev :: evs). split; [rewrite <- app_assoc; reflexivity|].
        constructor; [reflexivity|]. unfold cursor_lib in *. cbn [last_lib_seen db libref] in Hall.
        rewrite Hc in Hall. exact Hall.
      * injection H as <- <- <-. exists [ev]. split; [reflexivity|]. constructor; [reflexivity | constructor].
    + apply IH in H. destruct H as (evs & -> & Hall). exists evs. split; [reflexivity|].
      unfold cursor_lib in *. cbn [last_lib_seen db libref] in Hall. exact Hall.
Qed.

Lemma pnb_elib cfg chain s s' evs ok :
  process_new_blocks cfg chain s = (s', evs, ok) -> Forall (fun e => elib e = cursor_lib s) evs.
Proof.
  unfold process_new_blocks. destruct chain as [|b0 rest]; intros H.
  - injection H as <- <- <-. constructor.
  - apply pnl_elib in H. destruct H as (evs0 & -> & Hall). exact Hall.
Qed.
