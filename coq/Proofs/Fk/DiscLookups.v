(* C18 at stream level in DISCOVERY mode (no configured LIB, hold-until-LIB).
   Before the discovery (PreInv of MovingLibDisc.v) nothing was delivered, there is no head and every received block
   is in the buffer: the lookups are trivial.  The discovering step (DiscEv of DiscEvents.v) hands over to the
   invariant Inv U (R a) and its supplement Ext of MovingLibLookups.v, from where the lookups are those of the
   rooted modes (MovingLibLookups.v) and the monitor is MovingLibFollow.follow_run.  The monitor of the check treats
   the announcement that ESTABLISHES the LIB as "not a move" (c18_follow true): afterwards fm_any = true and the
   two forms of the monitor coincide. *)
From BV Require Import Base.Prelude Model.Block Model.ForkDB Model.Forkable Model.ForkableLookups
  Spec.Consumer Spec.Universe Spec.C04_Spec Spec.C18_Spec Spec.C18_Moving_Spec Spec.C18_Disc_Spec Check.Fk_Check Check.Fk_Props_Check
  Proofs.PreludeFacts
  Proofs.Fk.StoreFacts Proofs.Fk.WalkFacts Proofs.Fk.LoopFacts Proofs.Fk.StoreChange Proofs.Fk.SwitchFacts
  Proofs.Fk.FixedLib Proofs.Fk.RootsBase Proofs.Fk.MovingLibStore Proofs.Fk.MovingLibWalk Proofs.Fk.MovingLibLoops
  Proofs.Fk.MovingLibInv Proofs.Fk.MovingLibFin Proofs.Fk.MovingLibDisc Proofs.Fk.MovingLibLookups Proofs.Fk.DiscEvents
  Proofs.Fk.FailPrefix Proofs.Fk.FailRun Proofs.C18_Proofs Proofs.C18_MovingProofs Proofs.Fk.MovingLibFollow.
Local Open Scope N_scope.

(* ================================================================ the finality monitor never forgets an announcement *)

Lemma fin_step_any lib root inc m e m' : fin_step lib root inc m e = Some m' -> fm_any m = true -> fm_any m' = true.
Proof.
  unfold fin_step. intros H Hany. destruct (estep e).
  - destruct (apply_ev lib (fm_stack m) e); [|discriminate]. injection H as <-. exact Hany.
  - destruct (memN (bid (eblk e)) (fm_finals m)); [discriminate|].
    destruct (apply_ev lib (fm_stack m) e); [|discriminate]. injection H as <-. exact Hany.
  - unfold fin_irr in H.
    repeat match type of H with
           | context [if ?c then _ else _] => destruct c
           | context [match nth_from_bottom ?a ?b with _ => _ end] => destruct (nth_from_bottom a b)
           end; try discriminate; injection H as <-; reflexivity.
  - match type of H with context [if ?c then _ else _] => destruct c end; [discriminate|]. injection H as <-. exact Hany.
  - destruct (apply_ev lib (fm_stack m) e); [|discriminate]. injection H as <-. exact Hany.
Qed.

Lemma fin_events_any lib root inc : forall l m m', fin_events lib root inc m l = Some m' -> fm_any m = true -> fm_any m' = true.
Proof.
  induction l as [|e l IH]; intros m m' H Hany; cbn [fin_events] in H; [injection H as <-; exact Hany|].
  destruct (fin_step lib root inc m e) as [m1|] eqn:E; [|discriminate].
  apply (IH m1 m' H). exact (fin_step_any _ _ _ _ _ _ E Hany).
Qed.

(* once an announcement was made the discovery exemption of the monitor is void *)
Lemma c18_follow_any kept lib root U qh qi : forall h os mon lastnew seen, fm_any mon = true ->
  c18_follow true kept lib root U qh qi mon lastnew seen h os =
  c18_follow false kept lib root U qh qi mon lastnew seen h os.
Proof.
  induction h as [|b h IH]; intros os mon lastnew seen Hany; [reflexivity|].
  destruct os as [|o os]; [reflexivity|]. cbn [c18_follow].
  destruct (fin_events lib root b mon (o_events o)) as [mon'|] eqn:E; [|reflexivity].
  rewrite Hany. cbn [negb andb]. rewrite (IH os mon' _ _ (fin_events_any _ _ _ _ _ _ E Hany)). reflexivity.
Qed.

(* ================================================================ non-emptiness of the consumer's stack is kept *)

Section StackNe.
  Variable U : list block.
  Variable r0 : ref.
  Variable cfg : config.

  Hypothesis Hnofail : c_fail_at cfg = None.
  Hypothesis Hnew : f_new (c_filter cfg) = true.
  Hypothesis Hundo : f_undo (c_filter cfg) = true.
  Hypothesis U_id : forall b, In b U -> bid b <> 0 /\ bid b <> bparent b.
  Hypothesis U_uniq : forall x y, In x U -> In y U -> bid x = bid y -> x = y.
  Hypothesis U_up : forall x y, In x U -> In y U -> bparent x = bid y -> bnum y < bnum x.
  Hypothesis L_id : ri r0 <> 0.
  Hypothesis L_num : forall y, In y U -> bid y = ri r0 -> bnum y = rn r0.
  Hypothesis L_up : forall x, In x U -> bparent x = ri r0 -> rn r0 < bnum x.
  Hypothesis L_decl : forall b, In b U -> decl_ok U r0 b.

  Lemma reach_ne : forall pre s evs s', reaches cfg s pre evs s' -> forall Fin S, Inv U r0 cfg s Fin S ->
    (forall b, In b pre -> In b U) -> S <> [] ->
    forall S', apply_all (ri r0) S evs = Some S' -> S' <> [].
  Proof.
    intros pre s evs s' Hr. induction Hr as [s|s b s1 evs pre evs' s' Hstep Hr IH]; intros Fin S HI Hpre HS S' Happ.
    - cbn in Happ. injection Happ as <-. exact HS.
    - assert (Hb : In b U) by (apply Hpre; left; reflexivity).
      destruct (step_w U r0 cfg Hnofail Hnew Hundo U_id U_uniq U_up L_id L_num L_up L_decl s Fin S b HI Hb)
        as (s1' & evA & evI & evS & Fnew & S1 & Hstep' & HW).
      rewrite Hstep in Hstep'. injection Hstep' as -> ->.
      destruct HW as (HappA & HI1 & _ & _ & HsI & HsS & _ & _ & _ & _ & _ & _ & HSS & _).
      assert (H1 : apply_all (ri r0) S (evA ++ evI ++ evS) = Some S1).
      { rewrite (apply_all_app _ _ _ _ _ HappA). apply apply_all_inert. apply Forall_app. split.
        - eapply Forall_impl; [|exact HsI]. cbn beta. auto.
        - eapply Forall_impl; [|exact HsS]. cbn beta. auto. }
      rewrite (apply_all_app _ _ _ _ _ H1) in Happ.
      apply (IH _ S1 HI1 (fun x Hx => Hpre x (or_intror Hx))); [|exact Happ].
      destruct HSS as [E|H]; [contradiction | exact H].
  Qed.
End StackNe.

(* ================================================================ discovery *)

Section DiscLook.
  Variable U : list block.
  Variable cfg : config.

  Hypothesis Hnofail : c_fail_at cfg = None.
  Hypothesis Hnew : f_new (c_filter cfg) = true.
  Hypothesis Hundo : f_undo (c_filter cfg) = true.
  Hypothesis Hhold : c_hold cfg = true.
  Hypothesis Hincl : c_incl cfg = false.

  Hypothesis U_id : forall b, In b U -> bid b <> 0 /\ bid b <> bparent b.
  Hypothesis U_uniq : forall x y, In x U -> In y U -> bid x = bid y -> x = y.
  Hypothesis U_up : forall x y, In x U -> In y U -> bparent x = bid y -> bnum y < bnum x.
  Hypothesis D_decl : forall b, In b U -> decl_none U b.

  Notation PreInv := (PreInv U cfg).
  Notation kept := (c_kept cfg).
  Notation reaches := (reaches cfg).

  (* the hypotheses of the rooted sections for the discovered LIB *)
  Definition Lid a (Ha : In a U) := R_id U U_id a Ha.
  Definition Lnum a (Ha : In a U) := R_num U U_uniq a Ha.
  Definition Lup a (Ha : In a U) := R_up U U_up a Ha.
  Definition Ldecl a (Ha : In a U) := R_decl U U_uniq D_decl a Ha.

  (* the supplement of MovingLibLookups.v holds right after the discovering step *)
  Lemma disc_lext s s' a b Fin pre :
    ((a = b /\ pre = [] /\ Fin = [b]) \/ (In (bid a) (keys (store (db s))) /\ bnum a < bnum b /\ Fin = [])) ->
    libref (db s') = R a -> In (bid a) (keys (store (db s'))) ->
    Ext (R a) cfg s' Fin (rev (pre ++ [b])).
  Proof.
    intros Hcase Hl Hk. constructor.
    - destruct Hcase as [(-> & _ & ->)|(_ & _ & ->)]; [|exact I]. cbn [fin_linked linked R ri]. auto.
    - intros _. rewrite Hl. exact Hk.
    - intros _. rewrite rev_app_distr. discriminate.
    - intros x Hx _. destruct Hcase as [(-> & _ & ->)|(_ & _ & ->)]; [|destruct Hx].
      destruct Hx as [<-|[]]. exact Hk.
    - intros Hne. rewrite Hl in Hne. contradiction.
  Qed.

  (* ---------------------------------------------------------------- observation points *)

  (* an observation point after the discovery *)
  Definition Post (s : fstate) (evs : list event) (S : cstack) : Prop :=
    exists a Fin, In a U /\ disc_root evs = R a /\ evs <> [] /\
      apply_all (ri (R a)) [] evs = Some S /\ Inv U (R a) cfg s Fin S /\ Ext (R a) cfg s Fin S /\ S <> [].

  Lemma st_kept s x : st s x -> Kept cfg s x.
  Proof. intros H. left. exact H. Qed.

  Lemma reach_disc : forall pre s evs s', reaches s pre evs s' -> PreInv s -> (forall b, In b pre -> In b U) ->
    (evs = [] /\ PreInv s' /\ (forall x, st s x -> st s' x) /\ (forall b, In b pre -> st s' b)) \/
    (exists S, Post s' evs S /\ (forall x, In x U -> st s x -> Kept cfg s' x)).
  Proof.
    intros pre s evs s' Hr. induction Hr as [s|s b s1 evs pre evs' s' Hstep Hr IH]; intros HP Hpre.
    - left. split; [reflexivity|]. split; [exact HP|]. split; [auto | intros b []].
    - assert (Hb : In b U) by (apply Hpre; left; reflexivity).
      assert (Hpre' : forall x, In x pre -> In x U) by (intros x Hx; apply Hpre; right; exact Hx).
      destruct (disc_step_ev U cfg Hnofail Hnew Hundo Hhold Hincl U_id U_uniq U_up D_decl s b HP Hb)
        as [[(s1' & Hstep' & HP1 & _ & Hkeys & Hkb) _]|(Hnk & Hdisc)].
      + (* nothing delivered *)
        rewrite Hstep in Hstep'. injection Hstep' as <- ->.
        destruct (IH HP1 Hpre') as [(-> & HP' & Hmono & Hst)|(S & HPost & HK)].
        * left. split; [reflexivity|]. split; [exact HP'|]. split.
          -- intros x Hx. apply Hmono. apply Hkeys. exact Hx.
          -- intros b0 [<-|Hb0]; [apply Hmono; exact Hkb | apply Hst; exact Hb0].
        * right. exists S. split; [exact HPost|]. intros x Hx Hsx. apply HK; [exact Hx|]. apply Hkeys. exact Hsx.
      + (* the LIB is discovered *)
        destruct Hdisc as (s1' & a & Fin & pre0 & Hstep' & HaU & Hab & Happ & HI1 & Hcase & Hl1 & _ & _ & Hka & Hkeep & _).
        rewrite Hstep in Hstep'. injection Hstep' as <- ->.
        pose proof (disc_lext s s1 a b Fin pre0 Hcase Hl1 Hka) as HE1.
        destruct (reach_inv U (R a) cfg Hnofail Hnew Hundo U_id U_uniq U_up (Lid a HaU) (Lnum a HaU) (Lup a HaU) (Ldecl a HaU)
                    pre s1 evs' s' Hr Fin _ HI1 HE1 Hpre') as (Fin' & S' & HI' & HE' & Happ' & _ & HK').
        pose proof (disc_events_apply cfg b a pre0 Happ) as Happ0.
        destruct (disc_events_first cfg b a pre0) as (e & rest & He & Hel).
        right. exists S'. split.
        * exists a, Fin'. split; [exact HaU|]. split; [rewrite He; exact Hel|]. split; [rewrite He; discriminate|].
          split; [rewrite (apply_all_app _ _ _ _ _ Happ0); exact Happ'|]. split; [exact HI'|]. split; [exact HE'|].
          apply (reach_ne U (R a) cfg Hnofail Hnew Hundo U_id U_uniq U_up (Lid a HaU) (Lnum a HaU) (Lup a HaU) (Ldecl a HaU)
                   pre s1 evs' s' Hr Fin _ HI1 Hpre'); [rewrite rev_app_distr; discriminate | exact Happ'].
        * intros x Hx Hsx. apply HK'; [exact Hx|].
          destruct (Hkeep x Hx) as [H|H]; [apply in_or_app; left; exact Hsx | left; exact H|].
          right. rewrite Hl1. exact H.
  Qed.

  (* ---------------------------------------------------------------- the clauses before the discovery *)

  Lemma pre_head_clause s : PreInv s -> head_clause s [].
  Proof. intros HP. unfold head_clause, head_info, head_num. rewrite (pre_last U cfg s HP). auto. Qed.

  Lemma pre_canonical_clause s : PreInv s -> canonical_clause kept s [].
  Proof.
    intros HP. pose proof (pre_last U cfg s HP) as Hls. unfold canonical_clause. cbv zeta.
    split; [intros c []|]. split; [intros c []|]. split; [intros c2 n []|].
    split; [intros top S' n H; discriminate|]. split; [intros lo n H; contradiction|].
    split; [intros _ n; unfold canonical_block_at; rewrite Hls; reflexivity|].
    intros seg x0 n Hr _. destruct seg; [destruct Hr | destruct Hr as (H & _); congruence].
  Qed.

  Lemma pre_lowest_clause s : PreInv s -> lowest_clause s [].
  Proof.
    intros HP. pose proof (pre_last U cfg s HP) as Hls.
    split; [intros _; unfold lowest_block_num; rewrite Hls; reflexivity|].
    split; [intros H; contradiction | intros c []].
  Qed.

  Lemma pre_window_clause s : PreInv s -> window_clause kept ref_empty s [].
  Proof.
    intros HP. pose proof (pre_lib U cfg s HP) as Hl.
    split; [intros c []|]. split; [intros H; contradiction | rewrite Hl; apply N.le_refl].
  Qed.

  Lemma pre_found s x : PreInv s -> In x U -> st s x ->
    get_block_by_hash s (bid x) = true /\ exists l, all_blocks_at s (bnum x) = Some l /\ In (bid x) l.
  Proof. intros HP Hx Hs. apply (found_of_st U U_uniq s x (pre_inU U cfg s HP) Hx Hs). Qed.

  Lemma kept_found s x : in_U U (store (db s)) -> In x U -> Kept cfg s x -> cutoff (db s) kept <= bnum x ->
    get_block_by_hash s (bid x) = true /\ exists l, all_blocks_at s (bnum x) = Some l /\ In (bid x) l.
  Proof.
    intros HU Hx [Hs|Hlt] Hn; [apply (found_of_st U U_uniq s x HU Hx Hs)|]. unfold cutoff in Hn. lia.
  Qed.

  (* ---------------------------------------------------------------- every observation point *)

  Lemma point_cases pre evs s : reaches (fs_init LNone) pre evs s -> (forall b, In b pre -> In b U) ->
    (evs = [] /\ PreInv s /\ forall b, In b pre -> st s b) \/ (exists S, Post s evs S).
  Proof.
    intros Hr Hpre. destruct (reach_disc pre _ evs s Hr (pre_init U cfg) Hpre) as [(He & HP & _ & Hst)|(S & HPost & _)].
    - left. auto.
    - right. eauto.
  Qed.

  Lemma point_clause (P : ref -> fstate -> cstack -> Prop) pre evs s :
    reaches (fs_init LNone) pre evs s -> (forall b, In b pre -> In b U) ->
    (forall s, PreInv s -> P ref_empty s []) ->
    (forall a s Fin S, In a U -> Inv U (R a) cfg s Fin S -> Ext (R a) cfg s Fin S -> P (R a) s S) ->
    exists S, apply_all (ri (disc_root evs)) [] evs = Some S /\ P (disc_root evs) s S.
  Proof.
    intros Hr Hpre Hp1 Hp2. destruct (point_cases pre evs s Hr Hpre) as [(-> & HP & _)|(S & a & Fin & HaU & Hroot & _ & Happ & HI & HE & _)].
    - exists []. split; [reflexivity|]. apply Hp1. exact HP.
    - exists S. rewrite Hroot. split; [exact Happ|]. apply (Hp2 a s Fin S HaU HI HE).
  Qed.

  Lemma point_discovery pre evs s : reaches (fs_init LNone) pre evs s -> (forall b, In b pre -> In b U) ->
    exists S, apply_all (ri (disc_root evs)) [] evs = Some S /\ discovery_clause pre evs s S.
  Proof.
    intros Hr Hpre. destruct (point_cases pre evs s Hr Hpre) as [(-> & HP & Hst)|(S & a & Fin & HaU & Hroot & Hne & Happ & HI & HE & HS)].
    - exists []. split; [reflexivity|]. split; [|intros H; contradiction]. intros _.
      split; [unfold has_lib; rewrite (pre_lib U cfg s HP); reflexivity|]. split; [exact (pre_last U cfg s HP)|].
      split; [reflexivity|]. intros b Hb. apply (pre_found s b HP (Hpre b Hb) (Hst b Hb)).
    - exists S. unfold discovery_clause. rewrite Hroot. split; [exact Happ|]. split; [intros E; contradiction|]. intros _.
      pose proof (i_db _ _ _ _ _ _ HI) as Hd.
      split; [exact (di_has_lib U (R a) _ Hd)|]. split; [exact (Lid a HaU)|].
      split; [|exact HS]. destruct (di_coh U (R a) _ Hd) as (_ & _ & _ & H & _). exact H.
  Qed.

  (* by hash / by number *)
  Lemma disc_found pre1 b pre2 evs1 s1 evs s2 evs2 s3 :
    (forall x, In x (pre1 ++ b :: pre2) -> In x U) ->
    reaches (fs_init LNone) pre1 evs1 s1 -> fk_step cfg s1 b = (s2, evs, ROk) -> dropped s1 b = false ->
    reaches s2 pre2 evs2 s3 -> cutoff (db s3) kept <= bnum b ->
    get_block_by_hash s3 (bid b) = true /\ exists l, all_blocks_at s3 (bnum b) = Some l /\ In (bid b) l.
  Proof.
    intros HU0 Hr1 Hstep Hd Hr2 Hn.
    assert (Hb : In b U) by (apply HU0; apply in_or_app; right; left; reflexivity).
    assert (Hp1 : forall x, In x pre1 -> In x U) by (intros x Hx; apply HU0; apply in_or_app; left; exact Hx).
    assert (Hp2 : forall x, In x pre2 -> In x U) by (intros x Hx; apply HU0; apply in_or_app; right; right; exact Hx).
    destruct (point_cases pre1 evs1 s1 Hr1 Hp1) as [(_ & HP1 & _)|(S1 & a & Fin & HaU & _ & _ & _ & HI & HE & _)].
    - (* b arrives before the discovery *)
      destruct (disc_step_ev U cfg Hnofail Hnew Hundo Hhold Hincl U_id U_uniq U_up D_decl s1 b HP1 Hb)
        as [[(s2' & Hstep' & HP2 & _ & _ & Hkb) _]|(Hnk & Hdisc)].
      + rewrite Hstep in Hstep'. injection Hstep' as <- _.
        destruct (reach_disc pre2 s2 evs2 s3 Hr2 HP2 Hp2) as [(_ & HP3 & Hmono & _)|(S3 & (a & Fin & _ & _ & _ & _ & HI3 & _) & HK)].
        * apply (pre_found s3 b HP3 Hb). apply Hmono. exact Hkb.
        * apply (kept_found s3 b (di_inU U _ _ (i_db _ _ _ _ _ _ HI3)) Hb); [|exact Hn]. apply HK; [exact Hb | exact Hkb].
      + destruct Hdisc as (s2' & a & Fin & pre0 & Hstep' & HaU & _ & _ & HI2 & Hcase & Hl2 & _ & _ & Hka & Hkeep & _).
        rewrite Hstep in Hstep'. injection Hstep' as <- _.
        pose proof (disc_lext s1 s2 a b Fin pre0 Hcase Hl2 Hka) as HE2.
        destruct (reach_inv U (R a) cfg Hnofail Hnew Hundo U_id U_uniq U_up (Lid a HaU) (Lnum a HaU) (Lup a HaU) (Ldecl a HaU)
                    pre2 s2 evs2 s3 Hr2 Fin _ HI2 HE2 Hp2) as (Fin3 & S3 & HI3 & _ & _ & _ & HK3).
        apply (kept_found s3 b (di_inU U _ _ (i_db _ _ _ _ _ _ HI3)) Hb); [|exact Hn]. apply HK3; [exact Hb|].
        destruct (Hkeep b Hb) as [H|H]; [apply in_or_app; right; left; reflexivity | left; exact H|].
        right. rewrite Hl2. exact H.
    - (* after the discovery: the rooted mode *)
      apply (reach_found U (R a) cfg Hnofail Hnew Hundo U_id U_uniq U_up (Lid a HaU) (Lnum a HaU) (Lup a HaU) (Ldecl a HaU)
               [] s1 [] s1 b s2 evs pre2 evs2 s3 Fin S1 HI HE); try assumption.
      + intros x [<-|Hx]; [exact Hb | apply Hp2; exact Hx].
      + constructor.
  Qed.
End DiscLook.

(* ================================================================ the monitor of the check *)

Section DiscFollow.
  Variable U : list block.
  Variable cfg : config.

  Hypothesis Hnofail : c_fail_at cfg = None.
  Hypothesis Hnew : f_new (c_filter cfg) = true.
  Hypothesis Hundo : f_undo (c_filter cfg) = true.
  Hypothesis Hirr : f_irr (c_filter cfg) = true.
  Hypothesis Hhold : c_hold cfg = true.
  Hypothesis Hincl : c_incl cfg = false.

  Hypothesis U_id : forall b, In b U -> bid b <> 0 /\ bid b <> bparent b.
  Hypothesis U_uniq : forall x y, In x U -> In y U -> bid x = bid y -> x = y.
  Hypothesis U_up : forall x y, In x U -> In y U -> bparent x = bid y -> bnum y < bnum x.
  Hypothesis D_decl : forall b, In b U -> decl_none U b.

  (* the recorded queries cover the history *)
  Variables qh qi : list N.
  Hypothesis Hq : forall x, In x U -> In (bid x) qi /\ In (bnum x) qh.

  Variable cfgF : config.
  Hypothesis HcfgF : nofail cfgF = cfg.

  Notation PreInv := (PreInv U cfg).
  Notation kept := (c_kept cfg).

  Definition obs_events (os : list obs) : list event := all_events (map (fun o => (o_events o, o_result o)) os).

  Lemma obs_events_cons o os : obs_events (o :: os) = o_events o ++ obs_events os.
  Proof. reflexivity. Qed.

  (* every block received so far is in the buffer *)
  Definition pre_seen (s : fstate) (seen : list block) : Prop := forall x, In x seen -> In x U /\ st s x.

  (* the lookups recorded before the discovery *)
  Lemma look_ok_pre s seen root : PreInv s -> pre_seen s seen ->
    look_ok kept U seen qh qi (mkFM [] 0 root false [] []) false (model_look s qh qi) = true.
  Proof.
    intros HP Hseen. unfold look_ok, model_look. cbn [l_ids l_lowest l_canon l_allat l_byhash fm_last fm_stack].
    repeat (apply andb_true_iff; split).
    - reflexivity.
    - apply forallb_forall. intros b Hb. destruct (Hseen b Hb) as [HbU Hst].
      apply orb_true_iff. right.
      destruct (found_of_st U U_uniq s b (pre_inU U cfg s HP) HbU Hst) as [Hh (l & Hl & Hin)].
      destruct (Hq b HbU) as [Hqi Hqh].
      destruct (index_of_in _ _ Hqi) as (i & Hi & Hni). destruct (index_of_in _ _ Hqh) as (j & Hj & Hnj).
      rewrite Hi, Hj, (nth_opt_map _ _ _ _ Hni), (nth_opt_map _ _ _ _ Hnj), Hh, Hl. cbn [andb].
      apply memN_In. exact Hin.
    - reflexivity.
    - unfold lowest_block_num. rewrite (pre_last U cfg s HP). reflexivity.
    - apply forallb_forall. intros x Hx. apply in_map_iff in Hx as (n & <- & _). reflexivity.
  Qed.

  (* a call of the never-failing handler that returned ROk: the same call under the oracle, or cut by the failure *)
  Lemma step_or_fail' s b sN evsN : before_fail cfgF s -> fk_step cfg s b = (sN, evsN, ROk) ->
    (fk_step cfgF s b = (sN, evsN, ROk) /\ before_fail cfgF sN) \/
    (exists se e1 e2, evsN = e1 ++ e2 /\ fk_step cfgF s b = (se, e1, RHandlerErr)).
  Proof.
    unfold before_fail. rewrite <- HcfgF. destruct (c_fail_at cfgF) as [k|] eqn:Hf; intros Hk Hstep.
    - pose proof (step_fail cfgF k Hf s b) as R0. rewrite Hstep in R0. cbn [step_rel'] in R0.
      destruct R0 as (_ & evs0 & Hev & Hn & Hrel). cbn [app] in Hev. subst evs0.
      destruct (Hrel Hk) as [HA HB].
      destruct (N.le_gt_cases (ncalls s + N.of_nat (length evsN)) k) as [Hle|Hgt].
      + left. split; [apply HA; exact Hle | lia].
      + right. destruct (HB Hgt) as (se & e1 & e2 & He & _ & Hres). exists se, e1, e2. auto.
    - left. rewrite (nofail_same cfgF Hf) in Hstep. auto.
  Qed.

  Lemma last_new_disc b a pre acc : last_new acc (disc_events cfg b a (pre ++ [b])) = bid b.
  Proof.
    unfold disc_events. rewrite last_new_app, (last_new_inert _ (if f_irr (c_filter cfg) then _ else _)).
    - unfold fresh_events. rewrite map_app. cbn [map]. apply last_new_snoc. reflexivity.
    - destruct (f_irr (c_filter cfg)); [|constructor]. constructor; [left; reflexivity | constructor].
  Qed.

  Lemma disc_follow : forall hh s seen os root,
    PreInv s -> pre_seen s seen -> (forall b, In b hh -> In b U) -> before_fail cfgF s ->
    model_matches cfgF s hh os qh qi = true ->
    (forall e rest, obs_events os = e :: rest -> root = elib e) ->
    c18_follow true kept (ri root) root U qh qi (mkFM [] 0 root false [] []) 0 seen hh os = true.
  Proof.
    induction hh as [|b rest IH]; intros s seen os root HP Hseen Hh Hbf Hmm Hroot.
    - destruct os; reflexivity.
    - destruct os as [|o os']; [reflexivity|].
      assert (Hb : In b U) by (apply Hh; left; reflexivity).
      assert (Hh' : forall x, In x rest -> In x U) by (intros x Hx; apply Hh; right; exact Hx).
      cbn [model_matches] in Hmm. cbn [c18_follow].
      destruct (disc_step_ev U cfg Hnofail Hnew Hundo Hhold Hincl U_id U_uniq U_up D_decl s b HP Hb)
        as [[(s1 & HstepN & HP1 & _ & Hkeys & Hkb) _]|(Hnk & Hdisc)].
      + (* nothing delivered *)
        assert (Hseen1 : pre_seen s1 (b :: seen)).
        { intros x [<-|Hx]; [split; assumption|]. destruct (Hseen x Hx) as [HxU Hsx]. split; [exact HxU | apply Hkeys; exact Hsx]. }
        destruct (step_or_fail' s b s1 _ Hbf HstepN) as [[HstepF Hbf1] | (se & e1 & e2 & Hev & HstepF)].
        * rewrite HstepF in Hmm.
          apply andb_true_iff in Hmm as [Hmm H6]. apply andb_true_iff in Hmm as [Hmm H5].
          apply andb_true_iff in Hmm as [Hmm H4]. apply andb_true_iff in Hmm as [Hmm H3].
          apply andb_true_iff in Hmm as [H1 H2].
          apply (list_eqb_eq _ event_eqb_iff) in H1. apply result_eqb_iff in H2. apply head_eqb_id in H3.
          rewrite <- H1, <- H2. cbn [fin_events existsb andb last_new fold_left result_eqb negb orb].
          apply andb_true_iff. split; [apply andb_true_iff; split|].
          -- fold (head_id (o_head o)). rewrite <- H3. unfold head_id, head_info. rewrite (pre_last U cfg s1 HP1). reflexivity.
          -- destruct (o_look o) as [l|]; [|reflexivity]. apply look_eqb_eq in H5. subst l.
             apply look_ok_pre; assumption.
          -- apply (IH s1 (b :: seen) os' root HP1 Hseen1 Hh' Hbf1 H6).
             intros e rest0 He. apply (Hroot e rest0). rewrite obs_events_cons, <- H1. exact He.
        * symmetry in Hev. apply app_eq_nil in Hev as [-> _]. rewrite HstepF in Hmm.
          apply andb_true_iff in Hmm as [Hmm H6]. apply andb_true_iff in Hmm as [Hmm H5].
          apply andb_true_iff in Hmm as [Hmm H4]. apply andb_true_iff in Hmm as [Hmm H3].
          apply andb_true_iff in Hmm as [H1 H2].
          apply (list_eqb_eq _ event_eqb_iff) in H1. apply result_eqb_iff in H2.
          rewrite <- H1, <- H2. cbn [fin_events existsb andb last_new fold_left result_eqb negb orb].
          destruct os' as [|o2 os2]; [|discriminate].
          destruct (o_look o); destruct rest; reflexivity.
      + (* the LIB is discovered *)
        destruct Hdisc as (s1 & a & Fin & pre & HstepN & HaU & Hab & Happ & HI1 & Hcase & Hl1 & Hlls1 & Hls1 & Hka & Hkeep & _ & Hmon).
        destruct (Hmon Hirr) as (m' & Hfin & HM' & Hany').
        set (evsN := disc_events cfg b a (pre ++ [b])) in *.
        destruct (disc_events_first cfg b a pre) as (e0 & rest0 & He0 & Hel0). fold evsN in He0.
        pose proof (disc_lext cfg s s1 a b Fin pre Hcase Hl1 Hka) as HE1.
        assert (Hseen1 : seen_ok U s1 (b :: seen)).
        { intros x Hx. assert (HxU : In x U) by (destruct Hx as [<-|Hx]; [exact Hb | apply (Hseen x Hx)]).
          split; [exact HxU|].
          destruct (Hkeep x HxU) as [H|H]; [|left; exact H | right; rewrite Hl1; cbn [R rn]; lia].
          destruct Hx as [<-|Hx]; apply in_or_app; [right; left; reflexivity | left; apply (Hseen x Hx)]. }
        destruct (step_or_fail' s b s1 _ Hbf HstepN) as [[HstepF Hbf1] | (se & e1 & e2 & Hev & HstepF)].
        * rewrite HstepF in Hmm.
          apply andb_true_iff in Hmm as [Hmm H6]. apply andb_true_iff in Hmm as [Hmm H5].
          apply andb_true_iff in Hmm as [Hmm H4]. apply andb_true_iff in Hmm as [Hmm H3].
          apply andb_true_iff in Hmm as [H1 H2].
          apply (list_eqb_eq _ event_eqb_iff) in H1. apply result_eqb_iff in H2. apply head_eqb_id in H3.
          assert (Er : root = R a).
          { rewrite <- Hel0. apply (Hroot e0 (rest0 ++ obs_events os')). rewrite obs_events_cons, <- H1, He0. reflexivity. }
          subst root. fold (m0 (R a)). rewrite <- H1, Hfin, <- H2. cbv beta iota zeta.
          cbn [fm_any m0 negb andb]. rewrite andb_false_r. cbn [result_eqb negb orb andb].
          apply andb_true_iff. split; [apply andb_true_iff; split|].
          -- fold (head_id (o_head o)). rewrite <- H3. unfold head_id, head_info. rewrite Hls1. cbn [bref ri].
             unfold evsN. rewrite last_new_disc. apply N.eqb_refl.
          -- destruct (o_look o) as [l|]; [|reflexivity]. apply look_eqb_eq in H5. subst l.
             apply (look_ok_model U (R a) cfg U_id U_uniq U_up (Lid U U_id a HaU) (Lnum U U_uniq a HaU) (Lup U U_up a HaU)
                      (Ldecl U U_uniq D_decl a HaU) qh qi Hq s1 Fin _ m' (b :: seen) false HI1 HE1 HM' Hseen1).
             intros H; discriminate.
          -- rewrite (c18_follow_any _ _ _ _ _ _ _ _ _ _ _ Hany').
             apply (follow_run U (R a) cfg Hnofail Hnew Hundo Hirr U_id U_uniq U_up (Lid U U_id a HaU) (Lnum U U_uniq a HaU)
                      (Lup U U_up a HaU) (Ldecl U U_uniq D_decl a HaU) qh qi Hq cfgF HcfgF rest s1 Fin _ m' _ (b :: seen) os'
                      HI1 HE1); [|exact Hh' | exact Hbf1 | exact H6].
             constructor; [exact HM'| |exact Hseen1].
             unfold evsN. rewrite last_new_disc, rev_app_distr. reflexivity.
        * rewrite HstepF in Hmm.
          apply andb_true_iff in Hmm as [Hmm H6]. apply andb_true_iff in Hmm as [Hmm H5].
          apply andb_true_iff in Hmm as [Hmm H4]. apply andb_true_iff in Hmm as [Hmm H3].
          apply andb_true_iff in Hmm as [H1 H2].
          apply (list_eqb_eq _ event_eqb_iff) in H1. apply result_eqb_iff in H2.
          assert (Hf1 : exists m1, fin_events (ri root) root b (mkFM [] 0 root false [] []) e1 = Some m1).
          { destruct e1 as [|e r1]; [eexists; reflexivity|].
            assert (Er : root = R a).
            { rewrite <- Hel0. rewrite He0 in Hev. cbn [app] in Hev. injection Hev as <- _.
              apply (Hroot e0 (r1 ++ obs_events os')). rewrite obs_events_cons, <- H1. reflexivity. }
            subst root. fold (m0 (R a)). rewrite Hev in Hfin.
            destruct (fin_events_split _ _ _ _ _ _ _ Hfin) as (m1 & H0 & _). eauto. }
          destruct Hf1 as [m1 Hf1].
          rewrite <- H1, Hf1, <- H2. cbv beta iota zeta. cbn [result_eqb negb orb andb].
          destruct os' as [|o2 os2]; [|discriminate].
          destruct (o_look o); destruct rest; reflexivity.
  Qed.
End DiscFollow.
