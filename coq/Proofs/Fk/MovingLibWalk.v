(* Moving LIB, part 2: BlockInCurrentChain and HasNewIrreversibleSegment on a chain that rests on the
   current LIB.  (a) a declared height that is the height of a chain entry is found exactly;
   (b) a declared height at or below the LIB height resolves to the LIB itself, to nothing, or to a
   block under the LIB from which ReversibleSegment returns nil: nothing becomes irreversible. *)
From BV Require Import Base.Prelude Model.Block Model.ForkDB Model.Forkable
  Proofs.Fk.StoreFacts Proofs.Fk.WalkFacts Proofs.Fk.LoopFacts Proofs.Fk.StoreChange Proofs.Fk.SwitchFacts
  Proofs.Fk.MovingLibStore.
Local Open Scope N_scope.

(* ---------- (a) the declared height is the height of a chain entry ---------- *)

Lemma bic_loop_find d y A a : wf_store (store d) ->
  forall B x, chain (store d) x y (A ++ a :: B) -> B <> [] ->
  forall f, enough (store d) x f ->
  bic_loop f d x (bnum (eb a)) = Some (mkR (key a) (bnum (eb a))).
Proof.
  intros Hwf. induction B as [|t B IH] using rev_ind; intros x Hc HB f He; [congruence|]. clear HB.
  replace (A ++ a :: B ++ [t]) with ((A ++ a :: B) ++ [t]) in Hc by (rewrite <- app_assoc; reflexivity).
  destruct (chain_snoc_inv _ _ _ _ _ Hc) as (_ & Hf & Hc').
  destruct f as [|f]; [destruct He; lia|]. cbn [bic_loop]. rewrite (link_of_stored d x t Hf).
  destruct B as [|t' B'] using rev_ind.
  - (* the parent of t is a *)
    destruct (chain_top _ _ _ _ _ Hc') as [Hfa Hka]. unfold num_of. rewrite Hfa, N.eqb_refl.
    rewrite <- Hka. reflexivity.
  - clear IHB'.
    replace (A ++ a :: B' ++ [t']) with ((A ++ a :: B') ++ [t']) in Hc' by (rewrite <- app_assoc; reflexivity).
    destruct (chain_top _ _ _ _ _ Hc') as [Hft _]. unfold num_of. rewrite Hft.
    replace ((A ++ a :: B') ++ [t']) with (A ++ a :: B' ++ [t']) in Hc' by (rewrite <- app_assoc; reflexivity).
    destruct (chain_split_order _ _ _ _ _ _ Hwf Hc') as [Habove _].
    assert (Hlt : bnum (eb a) < bnum (eb t')) by (apply Habove; apply in_or_app; right; left; reflexivity).
    destruct (N.eqb_spec (bnum (eb t')) (bnum (eb a))); [lia|].
    destruct (N.ltb_spec (bnum (eb t')) (bnum (eb a))); [lia|].
    apply IH; [exact Hc' | destruct B'; discriminate | eapply enough_parent; eassumption].
Qed.

Lemma bic_find d x y A a B top : wf_store (store d) -> chain (store d) x y (A ++ a :: B) ->
  find x (store d) = Some top ->
  block_in_chain d (mkR x (bnum (eb top))) (bnum (eb a)) = Some (mkR (key a) (bnum (eb a))).
Proof.
  intros Hwf Hc Hf. unfold block_in_chain. cbn [rn ri].
  destruct B as [|t B'] using rev_ind.
  - destruct (chain_top _ _ _ _ _ Hc) as [Hfa Hka]. rewrite Hf in Hfa. injection Hfa as ->.
    rewrite N.eqb_refl, Hka. reflexivity.
  - clear IHB'.
    assert (Htop : t = top).
    { replace (A ++ a :: B' ++ [t]) with ((A ++ a :: B') ++ [t]) in Hc by (rewrite <- app_assoc; reflexivity).
      destruct (chain_top _ _ _ _ _ Hc) as [Hft _]. congruence. }
    subst t.
    destruct (chain_split_order _ _ _ _ _ _ Hwf Hc) as [Habove _].
    assert (Hlt : bnum (eb a) < bnum (eb top)) by (apply Habove; apply in_or_app; right; left; reflexivity).
    destruct (N.eqb_spec (bnum (eb top)) (bnum (eb a))); [lia|].
    eapply bic_loop_find; [exact Hwf | exact Hc | destruct B'; discriminate | apply enough_fuel_of].
Qed.

(* ---------- the LIB of a forkdb, as the walks see it ---------- *)

Section AtLib.
  Variable d : forkdb.
  Variable first : N.
  Notation L := (libref d).

  Hypothesis Hwf : wf_store (store d).
  Hypothesis Hlid : ri L <> 0.
  Hypothesis Hnum : num_of d (ri L) = Some (rn L).
  Hypothesis Hup : forall e, In e (store d) -> bparent (eb e) = ri L -> rn L < bnum (eb e).
  Hypothesis Hextra : extra d = None \/ extra d = Some L.

  Lemma has_lib_true : has_lib d = true.
  Proof.
    unfold has_lib, ref_eqb, ref_empty. cbn [ri rn].
    destruct (N.eqb_spec (ri L) 0); [contradiction|]. reflexivity.
  Qed.

  Lemma lib_stored_num e : find (ri L) (store d) = Some e -> bnum (eb e) = rn L.
  Proof. intros H. unfold num_of in Hnum. rewrite H in Hnum. congruence. Qed.

  Lemma num_or0_lib : num_or0 d (ri L) = rn L.
  Proof. unfold num_or0. rewrite Hnum. reflexivity. Qed.

  Lemma find_zero : find 0 (store d) = None.
  Proof.
    destruct (find 0 (store d)) as [e|] eqn:F; [|reflexivity].
    apply find_some in F as [Hin Hk]. destruct (ws_id _ Hwf e Hin) as (H & _). unfold key in Hk. congruence.
  Qed.

  Lemma num_of_zero : num_of d 0 = None.
  Proof.
    unfold num_of. rewrite find_zero. destruct Hextra as [->| ->]; [reflexivity|].
    destruct (N.eqb_spec (ri L) 0); [contradiction | reflexivity].
  Qed.

  Lemma num_of_cases x n : num_of d x = Some n ->
    (exists e, find x (store d) = Some e /\ n = bnum (eb e)) \/ (find x (store d) = None /\ x = ri L).
  Proof.
    unfold num_of. destruct (find x (store d)) as [e|]; [intros [= <-]; left; eauto|].
    destruct Hextra as [->| ->]; [discriminate|].
    destruct (N.eqb_spec (ri L) x) as [E|E]; [|discriminate]. intros _. right. auto.
  Qed.

  (* every entry of a chain that rests on the LIB lies strictly above the LIB height *)
  Lemma above_lib x p : chain (store d) x (ri L) p -> forall e, In e p -> rn L < bnum (eb e).
  Proof. apply chain_above; [exact Hwf | exact Hup]. Qed.

  (* a reference under the LIB: not the LIB, and if stored then strictly lower *)
  Definition below_ref (r : ref) : Prop :=
    ri r <> ri L /\ forall e, find (ri r) (store d) = Some e -> bnum (eb e) < rn L.

  Lemma below_ref_empty : below_ref ref_empty.
  Proof. split; cbn [ri ref_empty]; [congruence | rewrite find_zero; discriminate]. Qed.

  (* ReversibleSegment from under the LIB is nil *)
  Lemma rs_below : forall f cur cn acc, enough (store d) cur f ->
    cur <> ri L -> (forall e, find cur (store d) = Some e -> bnum (eb e) < rn L) ->
    rs_loop f d first cur cn acc = Some ([], false).
  Proof.
    induction f as [|f IH]; intros cur cn acc He Hne Hlow; [destruct He; lia|].
    cbn [rs_loop]. destruct ((first <? cn) && (cn <? rn L)); [reflexivity|].
    destruct (N.eqb_spec cur (ri L)); [contradiction|].
    destruct (find cur (store d)) as [e|] eqn:F.
    - apply IH.
      + eapply enough_parent; eassumption.
      + intros E. pose proof (Hup e (proj1 (find_some _ _ _ F)) E). specialize (Hlow e eq_refl). lia.
      + intros e' He'. pose proof (ws_up _ Hwf e e' (proj1 (find_some _ _ _ F)) He').
        specialize (Hlow e eq_refl). lia.
    - rewrite has_lib_true. reflexivity.
  Qed.

  Lemma rs_below_ref r : below_ref r -> reversible_segment d first r = Some ([], false).
  Proof.
    intros [H1 H2]. unfold reversible_segment. apply rs_below; [apply enough_fuel_of | exact H1 | exact H2].
  Qed.

  (* the walk of BlockInCurrentChain under the LIB *)
  Lemma bic_below : forall f cur target ec r, find cur (store d) = Some ec -> bnum (eb ec) < rn L ->
    bic_loop f d cur target = Some r -> below_ref r.
  Proof.
    induction f as [|f IH]; intros cur target ec r Hf Hlow H; [discriminate|].
    cbn [bic_loop] in H. rewrite (link_of_stored d cur ec Hf) in H.
    pose proof (find_some _ _ _ Hf) as [Hin Hk].
    assert (Hcur : cur <> ri L).
    { intros E. rewrite E in Hf. pose proof (lib_stored_num ec Hf). lia. }
    destruct (num_of d (bparent (eb ec))) as [pn|] eqn:Hn.
    2:{ injection H as <-. apply below_ref_empty. }
    destruct (num_of_cases _ _ Hn) as [(ep & Hfp & ->)|[_ Hp]].
    2:{ pose proof (Hup ec Hin Hp). lia. }
    pose proof (ws_up _ Hwf ec ep Hin Hfp) as Hlt.
    assert (Hpne : bparent (eb ec) <> ri L).
    { intros E. pose proof (Hup ec Hin E). lia. }
    destruct (N.eqb_spec (bnum (eb ep)) target) as [Eq|Eq].
    - injection H as <-. split; cbn [ri]; [exact Hpne|]. intros e He. rewrite Hfp in He. injection He as <-. lia.
    - destruct (N.ltb_spec (bnum (eb ep)) target) as [Lt|Lt].
      + injection H as <-. split; cbn [ri]; [exact Hcur|]. intros e He. rewrite Hf in He. injection He as <-. exact Hlow.
      + eapply IH; [exact Hfp | lia | exact H].
  Qed.

  Lemma bic_from_lib f target r : target < rn L -> bic_loop f d (ri L) target = Some r ->
    ri r = ri L \/ below_ref r.
  Proof.
    intros Ht H. destruct f as [|f]; [discriminate|]. cbn [bic_loop] in H.
    destruct (find (ri L) (store d)) as [el|] eqn:Fl.
    - rewrite (link_of_stored d _ el Fl) in H. pose proof (find_some _ _ _ Fl) as [Hin Hk].
      pose proof (lib_stored_num el Fl) as Hel.
      destruct (num_of d (bparent (eb el))) as [pn|] eqn:Hn.
      2:{ injection H as <-. right. apply below_ref_empty. }
      destruct (num_of_cases _ _ Hn) as [(ep & Hfp & ->)|[_ Hp]].
      2:{ pose proof (Hup el Hin Hp). lia. }
      pose proof (ws_up _ Hwf el ep Hin Hfp) as Hlt.
      assert (Hpne : bparent (eb el) <> ri L).
      { destruct (ws_id _ Hwf el Hin) as (_ & Hs). unfold key in Hk. congruence. }
      destruct (N.eqb_spec (bnum (eb ep)) target) as [Eq|Eq].
      + injection H as <-. right. split; cbn [ri]; [exact Hpne|]. intros e He. rewrite Hfp in He. injection He as <-. lia.
      + destruct (N.ltb_spec (bnum (eb ep)) target) as [Lt|Lt].
        * injection H as <-. left. reflexivity.
        * right. eapply bic_below; [exact Hfp | lia | exact H].
    - unfold link_of in H. rewrite Fl, num_of_zero in H. injection H as <-. right. apply below_ref_empty.
  Qed.

  Lemma bic_chain_dead : forall x y p, chain (store d) x y p -> y = ri L -> p <> [] ->
    forall f target r, target <= rn L -> bic_loop f d x target = Some r -> ri r = ri L \/ below_ref r.
  Proof.
    intros x y p Hc. induction Hc as [x|x y e p Hne Hf Hc IH]; intros Hy Hp f target r Ht H; [congruence|]. subst y.
    destruct f as [|f]; [discriminate|]. cbn [bic_loop] in H. rewrite (link_of_stored d x e Hf) in H.
    destruct p as [|e' p'] using rev_ind.
    - apply chain_nil_inv in Hc. rewrite Hc, Hnum in H.
      destruct (N.eqb_spec (rn L) target).
      + injection H as <-. left. reflexivity.
      + destruct (N.ltb_spec (rn L) target); [lia|].
        apply (bic_from_lib f target r); [lia | exact H].
    - clear IHp'. destruct (chain_top _ _ _ _ _ Hc) as [Hf' _]. unfold num_of in H. rewrite Hf' in H.
      assert (Hab : rn L < bnum (eb e')) by (eapply above_lib; [exact Hc | apply in_or_app; right; left; reflexivity]).
      destruct (N.eqb_spec (bnum (eb e')) target); [lia|].
      destruct (N.ltb_spec (bnum (eb e')) target); [lia|].
      eapply IH; [reflexivity | destruct p'; discriminate | exact Ht | exact H].
  Qed.

  (* (b): a declared height at or below the LIB height *)
  Lemma bic_dead x p top target : chain (store d) x (ri L) p -> p <> [] -> find x (store d) = Some top ->
    target <= rn L ->
    exists r, block_in_chain d (mkR x (bnum (eb top))) target = Some r /\ (ri r = ri L \/ below_ref r).
  Proof.
    intros Hc Hp Hf Ht. unfold block_in_chain. cbn [ri rn].
    assert (Hab : rn L < bnum (eb top)).
    { destruct p as [|e' p'] using rev_ind; [congruence|]. clear IHp'.
      destruct (chain_top _ _ _ _ _ Hc) as [Hf' _]. rewrite Hf in Hf'. injection Hf' as <-.
      eapply above_lib; [exact Hc | apply in_or_app; right; left; reflexivity]. }
    destruct (N.eqb_spec (bnum (eb top)) target); [lia|].
    destruct (bic_total d Hwf num_of_zero (fuel_of d) x target (enough_fuel_of d x)) as [r Hr].
    exists r. split; [exact Hr|]. eapply bic_chain_dead; [exact Hc | reflexivity | exact Hp | exact Ht | exact Hr].
  Qed.

  (* such a reference never yields a new irreversible segment *)
  Lemma no_new_irr r : ri r = ri L \/ below_ref r ->
    ri r = 0 \/ has_new_irr_segment d first r = Some (false, [], []).
  Proof.
    intros [E|Hb]; right; unfold has_new_irr_segment.
    - rewrite E, N.eqb_refl. reflexivity.
    - destruct (N.eqb_spec (ri L) (ri r)); [reflexivity|]. rewrite (rs_below_ref r Hb). reflexivity.
  Qed.

  (* ReversibleSegment of a chain that rests on the LIB *)
  Lemma rs_chain_lib x p e : chain (store d) x (ri L) p -> find x (store d) = Some e -> p <> [] ->
    reversible_segment d first (mkR x (bnum (eb e))) = Some (map seg_of p, true).
  Proof.
    intros Hc Hf Hp. unfold reversible_segment. cbn [ri rn].
    rewrite (rs_complete d first x p Hc (fuel_of d) (bnum (eb e)) []); [rewrite app_nil_r; reflexivity | | | |].
    - pose proof (chain_length _ _ _ _ Hwf Hc). unfold fuel_of. lia.
    - intros e' He'. rewrite Hf in He'. congruence.
    - apply Forall_forall. intros a Ha. unfold gd. pose proof (above_lib x p Hc a Ha). lia.
    - unfold stop_num. destruct p as [|a p']; [congruence|]. rewrite num_or0_lib. unfold gd. lia.
  Qed.

  (* (a) continued: the new irreversible segment is the part of the chain up to the found entry *)
  Lemma new_irr_on_chain x A a B : chain (store d) x (ri L) (A ++ a :: B) ->
    has_new_irr_segment d first (mkR (key a) (bnum (eb a))) =
      Some (true, map seg_of (A ++ [a]), stalled_in_segment d (map seg_of (A ++ [a]))).
  Proof.
    intros Hc. pose proof (chain_prefix _ _ _ _ _ _ Hc) as Hpre.
    destruct (chain_top _ _ _ _ _ Hpre) as [Hfa _].
    unfold has_new_irr_segment. cbn [ri].
    assert (Hne : key a <> ri L).
    { apply (chain_not_bottom _ _ _ _ Hc). apply in_or_app. right. left. reflexivity. }
    destruct (N.eqb_spec (ri L) (key a)); [congruence|].
    rewrite (rs_chain_lib (key a) (A ++ [a]) a Hpre Hfa); [|destruct A; discriminate].
    rewrite map_app. cbn [map]. destruct (map seg_of A); reflexivity.
  Qed.
End AtLib.
