(* C01 on the Forkable model, fixed-LIB class, for BOTH starting modes (exclusive and inclusive LIB) and
   either value of includeInitialLIB; handler never fails (failures: Proofs/C01_FailProofs.v transfers).

   What the model does with an inclusive starting LIB r0 (read off fk_step):
   * as long as nothing has been sent, the arrival of the LIB block itself (bid = ri r0) takes the
     processInitialInclusiveIrreversibleBlock path: the block is stored (NOT marked sent), delivered as
     New (and Irreversible when that filter bit is on), and becomes lastBlockSent;
   * blocks arriving BEFORE the LIB block are processed exactly as with an exclusive LIB: a child of the
     LIB that arrives first is delivered as New on an empty consumer stack, and once something has
     been sent the LIB block, when it arrives, is only stored: it is never delivered;
   * after the initial path the consumer stack keeps the LIB block at its bottom forever.
   The invariant of FixedLib.v is generalised by that optional bottom block `base`, and by the weaker
   knowledge `wlib` of the LIB (FixedLibWeak.v), so that it also holds after a LIB discovered from the
   stream (FixedLibDisc.v). *)
From BV Require Import Base.Prelude Model.Block Model.ForkDB Model.Forkable Spec.Consumer
  Proofs.Fk.StoreFacts Proofs.Fk.WalkFacts Proofs.Fk.LoopFacts Proofs.Fk.StoreChange Proofs.Fk.SwitchFacts
  Proofs.Fk.FixedLib Proofs.Fk.FixedLibWeak.
Local Open Scope N_scope.

Section FixedLibIncl.
  Variable U : list block.
  Variable r0 : ref.
  Variable cfg : config.

  Hypothesis Hnofail : c_fail_at cfg = None.
  Hypothesis Hnew : f_new (c_filter cfg) = true.
  Hypothesis Hundo : f_undo (c_filter cfg) = true.

  Hypothesis U_id : forall b, In b U -> bid b <> 0 /\ bid b <> bparent b.
  Hypothesis U_uniq : forall x y, In x U -> In y U -> bid x = bid y -> x = y.
  Hypothesis U_up : forall x y, In x U -> In y U -> bparent x = bid y -> bnum y < bnum x.
  Hypothesis L_id : ri r0 <> 0.
  Hypothesis L_num : forall y, In y U -> bid y = ri r0 -> bnum y = rn r0.
  Hypothesis L_up : forall x, In x U -> bparent x = ri r0 -> rn r0 < bnum x.
  Hypothesis L_lib : forall b, In b U -> blib b = rn r0.

  Notation first := (c_first cfg).

  (* the consumer's bottom: nothing, or the LIB block delivered by the initial inclusive path *)
  Definition base_ok (base : cstack) : Prop := base = [] \/ exists lb, base = [lb] /\ bid lb = ri r0.

  (* the guard of the initial inclusive path *)
  Definition initial (s : fstate) (b : block) : bool :=
    c_incl cfg && (match last_sent s with None => true | Some _ => false end) && (bid b =? ri (libref (db s))).

  Record InvG (s : fstate) (S : cstack) : Prop := mkInvG {
    g_nodup : NoDup (keys (store (db s)));
    g_inU : in_U U (store (db s));
    g_lib : wlib r0 (db s);
    g_lc : lc r0 (store (db s));
    (* with includeInitialLIB the LIB block is not stored before something has been sent *)
    g_libblock : c_incl cfg = true -> last_sent s = None -> ~ In (ri r0) (keys (store (db s)));
    g_head : match last_sent s with
             | None => S = [] /\ forall e, In e (store (db s)) -> esent e = false
             | Some hd => In hd U /\
                          exists p base, chain (store (db s)) (bid hd) (ri r0) p /\
                                    S = rev (map eb p) ++ base /\ base_ok base /\
                                    Forall (fun e => esent e = true) p
             end
  }.

  Lemma invG_init m : m = LExcl r0 \/ m = LIncl r0 -> InvG (fs_init m) [].
  Proof.
    assert (Hw : wlib r0 (init_lib db_empty r0)).
    { split; [reflexivity|]. unfold num_of. cbn. rewrite N.eqb_refl. reflexivity. }
    assert (G : forall lls, InvG (mkFS (init_lib db_empty r0) None lls 0) []).
    { intros lls. constructor; cbn [db last_sent store init_lib db_empty keys map].
      - constructor.
      - intros e [].
      - exact Hw.
      - intros e [].
      - intros _ _ [].
      - split; [reflexivity | intros e []]. }
    intros [->| ->]; apply G.
  Qed.

  Lemma initial_false_ne s b : libref (db s) = r0 -> initial s b = false ->
    c_incl cfg = true -> last_sent s = None -> bid b <> ri r0.
  Proof.
    intros Hl Hi Hc Hls. unfold initial in Hi. rewrite Hc, Hls, Hl in Hi. cbn [andb] in Hi.
    apply N.eqb_neq. exact Hi.
  Qed.

  (* ---------------------------------------------------------------- ProcessBlock, unfolded *)

  Lemma fk_step_newG s b undos redos junc :
    libref (db s) = r0 -> In b U -> find (bid b) (store (db s)) = None -> dropped s b = false -> initial s b = false ->
    sw_of cfg s b = ScssOk undos redos junc ->
    fk_step cfg s b =
      let s1 := with_db s (new_db (db s) b) in
      match reversible_segment (new_db (db s) b) first (bref b) with
      | None => (s1, [], RFuel)
      | Some (longest, _) =>
          if negb (triggers cfg s b) || (match longest with [] => true | _ => false end) then (s1, [], ROk)
          else process_tail cfg s1 b undos redos junc longest None
      end.
  Proof.
    intros Hl Hb Hf Hd Hini Hsw. destruct (U_id b Hb) as (H1 & H3).
    unfold fk_step. destruct (N.eqb_spec (bid b) (bparent b)); [contradiction|].
    unfold dropped in Hd. unfold initial in Hini. rewrite Hd, Hini.
    unfold sw_of in Hsw. rewrite Hsw.
    rewrite (add_link_new U U_id _ _ Hb Hf).
    assert (Hhl : has_lib (new_db (db s) b) = true).
    { apply (has_lib_w r0 L_id). exact Hl. }
    rewrite Hhl. cbn [with_db db].
    destruct (reversible_segment (new_db (db s) b) first (bref b)) as [[longest reach]|]; reflexivity.
  Qed.

  Lemma fk_step_oldG s b e : in_U U (store (db s)) -> In b U -> find (bid b) (store (db s)) = Some e ->
    wf_store (store (db s)) -> initial s b = false ->
    (bparent b = 0 -> esent e = false) -> ri (libref (db s)) <> 0 ->
    fk_step cfg s b = (s, [], ROk).
  Proof.
    intros HU Hb Hf Hwf Hini Hroot Hlz. destruct (U_id b Hb) as (H1 & H3).
    unfold fk_step. destruct (N.eqb_spec (bid b) (bparent b)); [contradiction|].
    destruct ((bnum b <? rn (libref (db s))) && match last_sent s with Some _ => true | None => false end); [reflexivity|].
    unfold initial in Hini. rewrite Hini.
    assert (Hsw : exists u r j, (if f_undo (c_filter cfg) && triggers cfg s b
             then match last_sent s with Some ls => sent_chain_switch_segments (db s) (bid ls) (bparent b) | None => ScssOk [] [] None end
             else ScssOk [] [] None) = ScssOk u r j).
    { destruct (f_undo (c_filter cfg) && triggers cfg s b); [|eauto].
      destruct (last_sent s) as [ls|]; [apply scss_total; exact Hwf | eauto]. }
    destruct Hsw as (u & r & j & ->).
    destruct (N.eq_dec (bparent b) 0) as [E0|E0].
    - (* a stored root is stored again, unchanged; its longest chain is empty *)
      rewrite (add_link_root U U_id U_uniq _ _ _ (ws_nodup _ Hwf) HU Hb Hf E0 (Hroot E0)).
      rewrite (has_lib_nz _ Hlz).
      assert (Hs : with_db s (db s) = s) by (destruct s; reflexivity). rewrite Hs.
      pose proof (stored_is_self U U_uniq _ _ _ HU Hb Hf) as Eb.
      destruct (rs_root (db s) first (bid b) (bnum b) e Hwf Hlz Hf) as [rr Hrs]; [rewrite Eb; exact E0|].
      unfold reversible_segment. cbn [bref ri rn]. rewrite Hrs. rewrite orb_true_r. reflexivity.
    - rewrite (add_link_old U U_id U_uniq _ _ _ HU Hb Hf E0). reflexivity.
  Qed.

  Lemma fk_step_initialG s b : In b U -> find (bid b) (store (db s)) = None -> dropped s b = false -> initial s b = true ->
    fk_step cfg s b =
      let '(s', evs, ok) := process_initial_inclusive cfg b (with_db s (new_db (db s) b)) in
      (s', evs, if ok then ROk else RHandlerErr).
  Proof.
    intros Hb Hf Hd Hini. destruct (U_id b Hb) as (H1 & H3).
    unfold fk_step. destruct (N.eqb_spec (bid b) (bparent b)); [contradiction|].
    unfold dropped in Hd. unfold initial in Hini. rewrite Hd, Hini.
    rewrite (add_link_new U U_id _ _ Hb Hf). reflexivity.
  Qed.

  (* the initial inclusive path: New (and Irreversible) for the block, which becomes the last block sent;
     the store is untouched *)
  Lemma pii_ok b s lib : root_ok lib b = true ->
    exists s2 evs, process_initial_inclusive cfg b s = (s2, evs, true) /\
      db s2 = db s /\ last_sent s2 = Some b /\ apply_all lib [] evs = Some [b] /\
      exists e1 l, evs = e1 :: l /\ elib e1 = cursor_lib s.
  Proof.
    intros Hroot. unfold process_initial_inclusive. rewrite Hnew, (call_ok cfg Hnofail). cbv beta iota zeta.
    unfold process_irr_segment. destruct (f_irr (c_filter cfg)).
    - cbn [process_irr_loop]. rewrite (call_ok cfg Hnofail). cbv beta iota zeta. cbn [db last_sent last_lib_seen ncalls app].
      eexists. eexists. split; [reflexivity|]. cbn [db last_sent]. split; [reflexivity|]. split; [reflexivity|].
      split; [cbn [apply_all apply_ev estep eblk]; rewrite Hroot; reflexivity|].
      eexists. eexists. split; reflexivity.
    - cbv beta iota zeta. cbn [db last_sent last_lib_seen ncalls app].
      eexists. eexists. split; [reflexivity|]. cbn [db last_sent]. split; [reflexivity|]. split; [reflexivity|].
      split; [cbn [apply_all apply_ev estep eblk]; rewrite Hroot; reflexivity|].
      eexists. eexists. split; reflexivity.
  Qed.

  (* ---------------------------------------------------------------- storing a new block keeps the invariant *)

  Lemma invG_add s S b : InvG s S -> In b U -> find (bid b) (store (db s)) = None ->
    (c_incl cfg = true -> last_sent s = None -> bid b <> ri r0) ->
    InvG (with_db s (new_db (db s) b)) S.
  Proof.
    intros HI Hb Hf Hne. destruct HI as [Hnd HU Hl Hlc Hlb Hh].
    assert (Hk : ~ In (bid b) (keys (store (db s)))) by (apply find_none; exact Hf).
    constructor; cbn [with_db db new_db store extra libref last_sent].
    - rewrite keys_snoc. apply nodup_snoc; [exact Hnd | exact Hk].
    - intros e He. apply in_app_or in He as [He|[<-|[]]]; [apply HU; exact He | exact Hb].
    - apply (wlib_add U r0 L_num); assumption.
    - intros e He Hs. apply in_app_or in He as [He|[<-|[]]]; [|discriminate].
      destruct (Hlc e He Hs) as [H|(p & Hp & Hps)]; [left; exact H|].
      right. exists p. split; [apply find_snoc_old; exact Hp | exact Hps].
    - intros Hc Hls. rewrite keys_snoc. intros Hin. apply in_app_or in Hin as [Hin|[Hin|[]]].
      + exact (Hlb Hc Hls Hin).
      + unfold key in Hin. cbn [eb] in Hin. exact (Hne Hc Hls Hin).
    - destruct (last_sent s) as [hd|].
      + destruct Hh as (HhU & p & base & Hc & HS & Hbase & Hs). split; [exact HhU|].
        exists p, base. repeat split; try assumption. apply chain_ext. exact Hc.
      + destruct Hh as [-> Hall]. split; [reflexivity|].
        intros e He. apply in_app_or in He as [He|[<-|[]]]; [apply Hall; exact He | reflexivity].
  Qed.

  (* ---------------------------------------------------------------- the triggering step *)

  Lemma trigger_finishG s1 S b pP C R Uh junc base :
    InvG s1 S -> In b U ->
    chain (store (db s1)) (bid b) (ri r0) (pP ++ [mkEntry b false]) ->
    pP = C ++ R ->
    Forall (fun e => esent e = true) C ->
    base_ok base ->
    S = rev (map eb (C ++ Uh)) ++ base ->
    exists s3 evs,
      process_tail cfg s1 b (rev Uh) (filter esent R) junc (map seg_of (pP ++ [mkEntry b false])) None = (s3, evs, ROk) /\
      apply_all (ri r0) S evs = Some (rev (map eb (pP ++ [mkEntry b false])) ++ base) /\
      InvG s3 (rev (map eb (pP ++ [mkEntry b false])) ++ base) /\
      keys (store (db s3)) = keys (store (db s1)).
  Proof.
    intros HI Hb Hc HP HC Hbase HS.
    pose proof HI as [Hnd HU Hl Hlc Hlb Hh].
    set (en := mkEntry b false) in *. set (q := pP ++ [en]) in *.
    assert (Hq : forall e, In e q -> In e (store (db s1))) by (intros e He; eapply chain_in; eassumption).
    assert (HcP : chain (store (db s1)) (bparent b) (ri r0) pP).
    { destruct (chain_snoc_inv _ _ _ _ _ Hc) as (_ & _ & H). exact H. }
    rewrite HP in HcP.
    destruct (sent_prefix r0 _ _ _ C R Hlc Hnd HcP eq_refl HC) as (Rs & Ru & HR & HRs & HRu).
    destruct (filter_sent_split Rs Ru HRs HRu) as [F1 F2].
    assert (Hun : filter (fun e => negb (esent e)) q = Ru ++ [en]).
    { unfold q. rewrite HP, HR, !filter_app, (filter_unsent_nil C HC), <- filter_app, F2. reflexivity. }
    destruct (process_tail_ok_w r0 cfg Hnofail Hnew Hundo L_id s1 b (rev Uh) (filter esent R) junc (map seg_of q)) as
      (s3 & evU & evR & evN & Hrun & HmU & HsU & HmR & HsR & HmN & HsN & Hst & Hex & Hlr & Hls).
    - exact Hl.
    - unfold q. destruct pP; discriminate.
    - intros d ls Hd He Hlb' Hin.
      assert (Hld : wlib r0 d) by (eapply wlib_marked; eassumption).
      destruct Hin as [Hin|Hold].
      + rewrite unsent_map, map_map in Hin. apply in_map_iff in Hin as (e & <- & Hin). cbn [sent seg_of].
        apply filter_In in Hin as [Hin _].
        rewrite (L_lib (eb e) (HU e (Hq e Hin))).
        apply in_split in Hin as (q1 & q2 & Heq). rewrite Heq in Hc.
        eapply (bic_marked_w U r0 cfg U_id U_up L_id L_up _ q d _ q1 e Hnd HU Hq Hld Hd). eapply chain_prefix. exact Hc.
      + rewrite Hold in Hh. destruct Hh as (HhU & pH & baseH & HcH & _ & _ & _).
        rewrite (L_lib ls HhU).
        destruct pH as [|eh pH'] using rev_ind.
        * (* the last block sent is the LIB block itself *)
          apply chain_nil_inv in HcH. unfold block_in_chain, bref. cbn [rn ri].
          rewrite (L_num ls HhU HcH), N.eqb_refl, HcH. reflexivity.
        * clear IHpH'.
          destruct (chain_snoc_inv _ _ _ _ _ HcH) as (_ & Hfh & _).
          rewrite <- (stored_is_self U U_uniq _ _ _ HU HhU Hfh).
          eapply (bic_marked_w U r0 cfg U_id U_up L_id L_up _ q d _ pH' eh Hnd HU Hq Hld Hd). exact HcH.
    - exists s3, (evU ++ evR ++ evN). split; [exact Hrun|].
      assert (Hkeys : keys (store (db s3)) = keys (store (db s1))) by (rewrite Hst; apply mark_all_keys).
      split; [|split; [|exact Hkeys]].
      + (* the consumer *)
        rewrite HS, map_app, rev_app_distr, <- app_assoc.
        rewrite (apply_all_app _ _ evU _ (rev (map eb C) ++ base)).
        2:{ apply apply_undos; [exact HsU | rewrite HmU, map_rev; reflexivity]. }
        assert (HmRN : map eblk (evR ++ evN) = map eb (R ++ [en])).
        { rewrite map_app, HmR, HmN, unsent_map, map_map. cbn [sent seg_of].
          change (fun x : entry => eb x) with eb. rewrite Hun, HR, F1, <- map_app, app_assoc. reflexivity. }
        rewrite (apply_news (ri r0) (evR ++ evN) (map eb (R ++ [en])) (rev (map eb C) ++ base)).
        * f_equal. unfold q. rewrite HP, <- app_assoc, (map_app eb C), rev_app_distr, <- app_assoc. reflexivity.
        * apply Forall_app. split; assumption.
        * exact HmRN.
        * destruct (chain_linked _ _ _ _ Hc) as [Hlk _]. unfold q in Hlk. rewrite HP, <- app_assoc, map_app in Hlk.
          apply linked_app in Hlk as [_ Hlk].
          destruct (rev (map eb C)) as [|t rc]; cbn [app]; [|exact Hlk].
          destruct Hbase as [->|(lb & -> & Hlb')]; [exact Hlk | rewrite Hlb'; exact Hlk].
      + (* the invariant *)
        set (g := flag_if (map sid (unsent (map seg_of q)))).
        pose proof (l3_chain _ q _ _ _ Hc) as Hc3. fold g in Hc3.
        assert (Hls3 : last_sent s3 = Some b).
        { rewrite Hls, unsent_map, Hun, map_app, rev_app_distr. reflexivity. }
        constructor.
        * rewrite Hst. apply l3_nodup; assumption.
        * rewrite Hst. apply l3_inU; assumption.
        * eapply wlib_marked; eassumption.
        * rewrite Hst. eapply l3_lc; try eassumption. reflexivity.
        * intros _ Hn. rewrite Hls3 in Hn. discriminate.
        * rewrite Hls3.
          split; [exact Hb|]. exists (map g q), base. rewrite Hst. split; [exact Hc3|].
          split; [|split; [exact Hbase|]].
          -- rewrite map_map. f_equal. f_equal. apply map_ext. intros a. symmetry. apply flag_if_eb.
          -- apply Forall_forall. intros a Ha. apply in_map_iff in Ha as (a0 & <- & Ha0).
             apply (g_sent_q q a0 Ha0).
  Qed.

  (* ---------------------------------------------------------------- one ProcessBlock call *)

  Lemma invG_sent_some s S : InvG s S -> S <> [] -> last_sent s <> None.
  Proof. intros HI HS Hn. destruct HI as [_ _ _ _ _ Hh]. rewrite Hn in Hh. destruct Hh as [-> _]. congruence. Qed.

  Lemma step_invG s S b : InvG s S -> In b U ->
    exists s' evs S', fk_step cfg s b = (s', evs, ROk) /\ apply_all (ri r0) S evs = Some S' /\ InvG s' S' /\
                      Extras s s' evs b.
  Proof.
    intros HI Hb.
    destruct (dropped s b) eqn:Hd.
    { exists s, [], S. rewrite (fk_step_dropped U cfg U_id s b Hb Hd). split; [reflexivity|]. split; [reflexivity|]. split; [assumption|]. apply extras_same; auto. }
    pose proof HI as [Hnd HU Hl Hlc Hlb Hh].
    pose proof (wf_of_U U U_id U_up _ Hnd HU) as Hwf.
    destruct (initial s b) eqn:Hini.
    { (* the initial inclusive path *)
      pose proof Hini as Hini'. unfold initial in Hini'.
      apply andb_true_iff in Hini' as [Hi1 Hi3]. apply andb_true_iff in Hi1 as [Hi1 Hi2].
      destruct (last_sent s) as [hd|] eqn:Hls; [discriminate|]. destruct Hh as [-> Hall].
      apply N.eqb_eq in Hi3. pose proof (proj1 Hl) as Hlr. rewrite Hlr in Hi3.
      assert (Hk : ~ In (bid b) (keys (store (db s)))) by (rewrite Hi3; apply Hlb; [exact Hi1 | reflexivity]).
      assert (Hf : find (bid b) (store (db s)) = None) by (apply find_none; exact Hk).
      rewrite (fk_step_initialG s b Hb Hf Hd Hini).
      destruct (pii_ok b (with_db s (new_db (db s) b)) (ri r0)) as (s2 & evs & -> & Hdb & Hls2 & Happ & _).
      { unfold root_ok. rewrite Hi3, N.eqb_refl. reflexivity. }
      exists s2, evs, [b]. split; [reflexivity|]. split; [exact Happ|].
      cbn [with_db db] in Hdb.
      split.
      - constructor; rewrite ?Hdb; cbn [new_db store extra libref].
        + rewrite keys_snoc. apply nodup_snoc; [exact Hnd | exact Hk].
        + intros e He. apply in_app_or in He as [He|[<-|[]]]; [apply HU; exact He | exact Hb].
        + apply (wlib_add U r0 L_num); assumption.
        + intros e He Hs. apply in_app_or in He as [He|[<-|[]]]; [|discriminate].
          destruct (Hlc e He Hs) as [H|(p & Hp & Hps)]; [left; exact H|].
          right. exists p. split; [apply find_snoc_old; exact Hp | exact Hps].
        + intros _ Hn. rewrite Hls2 in Hn. discriminate.
        + rewrite Hls2. split; [exact Hb|]. exists [], [b]. rewrite Hi3. split; [constructor|].
          split; [reflexivity|]. split; [|constructor]. right. exists b. split; [reflexivity | exact Hi3].
      - apply extras_new; auto.
        all: try (rewrite Hdb; cbn [new_db store]; apply keys_snoc).
        all: try (intros _; rewrite Hls2; discriminate). }
    destruct (find (bid b) (store (db s))) as [e|] eqn:Hf.
    { exists s, [], S.
      assert (Hlz : ri (libref (db s)) <> 0) by (rewrite (proj1 Hl); exact L_id).
      rewrite (fk_step_oldG s b e HU Hb Hf Hwf Hini (stored_root_unsent U r0 U_uniq L_id _ b e HU Hb Hf Hwf Hlc) Hlz).
      assert (In (bid b) (keys (store (db s)))).
      { destruct (in_dec N.eq_dec (bid b) (keys (store (db s)))) as [i|n]; [exact i|]. apply find_none in n. congruence. }
      split; [reflexivity|]. split; [reflexivity|]. split; [assumption|]. apply extras_same; auto. }
    (* a new block *)
    pose proof (invG_add s S b HI Hb Hf (initial_false_ne s b (proj1 Hl) Hini)) as HI1.
    set (s1 := with_db s (new_db (db s) b)) in *.
    set (en := mkEntry b false).
    assert (Hk : ~ In (bid b) (keys (store (db s)))) by (apply find_none; exact Hf).
    assert (Hsw : exists u r j, sw_of cfg s b = ScssOk u r j).
    { unfold sw_of. destruct (f_undo (c_filter cfg) && triggers cfg s b); [|eauto].
      destruct (last_sent s) as [ls|]; [apply scss_total; exact Hwf | eauto]. }
    destruct Hsw as (undos & redos & junc & Hsw).
    rewrite (fk_step_newG s b undos redos junc (proj1 Hl) Hb Hf Hd Hini Hsw). cbv zeta. fold s1.
    pose proof HI1 as [Hnd1 HU1 Hl1 Hlc1 Hlb1 Hh1].
    pose proof (wf_of_U U U_id U_up _ Hnd1 HU1) as Hwf1.
    change (new_db (db s) b) with (db s1).
    destruct (rs_total (db s1) first Hwf1 (fuel_of (db s1)) (bid b) (bnum b) [] (enough_fuel_of _ _)) as [[longest reach] Hrs].
    unfold reversible_segment. cbn [bref ri rn]. rewrite Hrs.
    destruct (negb (triggers cfg s b) || match longest with [] => true | _ => false end) eqn:Hgo.
    { exists s1, [], S. split; [reflexivity|]. split; [reflexivity|]. split; [assumption|]. apply extras_new; auto.
      unfold s1. cbn [with_db db new_db store]. apply keys_snoc. }
    apply orb_false_iff in Hgo as [Htr Hlong]. apply negb_false_iff in Htr.
    (* the chain of the new block *)
    assert (Hfb : find (bid b) (store (db s1)) = Some en).
    { unfold s1. cbn [with_db db new_db store]. apply (find_snoc_new (store (db s)) en). exact Hk. }
    assert (Hshape : exists pP, chain (store (db s1)) (bid b) (ri r0) (pP ++ [en]) /\ longest = map seg_of (pP ++ [en])).
    { destruct reach.
      - destruct (chain_of_rs_w r0 cfg (db s1) (bid b) en longest (proj1 Hl1) Hfb) as (p & Hc & Hp).
        { unfold reversible_segment. cbn [ri rn eb en]. exact Hrs. }
        destruct p as [|e' p'] using rev_ind.
        + subst longest. discriminate.
        + clear IHp'. destruct (chain_snoc_inv _ _ _ _ _ Hc) as (_ & Hf' & _). rewrite Hfb in Hf'. injection Hf' as <-.
          exists p'. auto.
      - apply (rs_false_nil cfg (db s1) (has_lib_w r0 L_id _ (proj1 Hl1))) in Hrs. subst longest. discriminate. }
    destruct Hshape as (pP & Hc & ->).
    destruct (chain_snoc_inv _ _ _ _ _ Hc) as (_ & _ & HcP). cbn [eb en] in HcP.
    assert (Hnin : ~ In en pP).
    { pose proof (chain_nodup _ _ _ _ Hwf1 Hc) as Hn. unfold keys in Hn. rewrite map_app in Hn.
      intros Hin. refine (nodup_app_disj _ _ (key en) Hn _ _); [apply in_map; exact Hin | left; reflexivity]. }
    assert (Hfin3 : forall s3 evs base, InvG s3 (rev (map eb (pP ++ [en])) ++ base) -> keys (store (db s3)) = keys (store (db s1)) ->
                    Extras s s3 evs b).
    { intros s3 evs base HI3 Hk3. apply extras_new; auto.
      - rewrite Hk3. unfold s1. cbn [with_db db new_db store]. apply keys_snoc.
      - intros _. apply (invG_sent_some _ _ HI3). rewrite map_app, rev_app_distr. discriminate. }
    assert (HcP0 : chain (store (db s)) (bparent b) (ri r0) pP).
    { apply (chain_restrict (store (db s)) en); assumption. }
    unfold sw_of in Hsw. rewrite Hundo, Htr in Hsw. cbn [andb] in Hsw.
    destruct (last_sent s) as [hd|] eqn:Hls.
    - destruct Hh as (HhU & pH & base & HcH & HS & Hbase & HsH).
      destruct (N.eq_dec (bid hd) (bparent b)) as [Heq|Hneq].
      + unfold sent_chain_switch_segments in Hsw. rewrite Heq, N.eqb_refl in Hsw. injection Hsw as <- <- <-.
        rewrite Heq in HcH. pose proof (chain_det _ _ _ _ _ HcH HcP0) as ->.
        destruct (trigger_finishG s1 S b pP pP [] [] None base HI1 Hb Hc) as (s3 & evs & Hrun & Happ & HI3 & Hk3).
        * rewrite app_nil_r. reflexivity.
        * exact HsH.
        * exact Hbase.
        * rewrite app_nil_r. exact HS.
        * exists s3, evs, (rev (map eb (pP ++ [en])) ++ base). split; [exact Hrun|]. split; [exact Happ|]. split; [exact HI3|].
          eapply Hfin3; eassumption.
      + destruct (scss_link (db s) (ri r0) (bid hd) (bparent b) pH pP Hwf L_id Hneq HcH HcP0) as (C & R & Uh & j & HP & HH & Hsc).
        { intros f t e0 Hu He0. exact (tail_disjoint_w U r0 cfg U_id U_up L_id L_num L_up (db s) pP (bparent b) HU Hnd HcP0 f t e0 Hu He0). }
        rewrite Hsc in Hsw. injection Hsw as <- <- <-.
        destruct (trigger_finishG s1 S b pP C R Uh j base HI1 Hb Hc HP) as (s3 & evs & Hrun & Happ & HI3 & Hk3).
        * rewrite HH in HsH. apply Forall_app in HsH. tauto.
        * exact Hbase.
        * rewrite HS, HH. reflexivity.
        * exists s3, evs, (rev (map eb (pP ++ [en])) ++ base). split; [exact Hrun|]. split; [exact Happ|]. split; [exact HI3|].
          eapply Hfin3; eassumption.
    - injection Hsw as <- <- <-. destruct Hh as [-> Hall].
      assert (Hfil : filter esent pP = []).
      { assert (G : forall x, In x pP -> esent x = false).
        { intros x Hx. apply Hall. eapply chain_in; [exact HcP0 | exact Hx]. }
        clear -G. induction pP as [|a t IHt]; cbn [filter]; [reflexivity|].
        rewrite (G a (or_introl eq_refl)). apply IHt. intros x Hx. apply G. right. exact Hx. }
      destruct (trigger_finishG s1 [] b pP [] pP [] None [] HI1 Hb Hc eq_refl (Forall_nil _) (or_introl eq_refl) eq_refl)
        as (s3 & evs & Hrun & Happ & HI3 & Hk3).
      cbn [rev] in Hrun. rewrite Hfil in Hrun.
      exists s3, evs, (rev (map eb (pP ++ [en])) ++ []). split; [exact Hrun|]. split; [exact Happ|]. split; [exact HI3|].
      eapply Hfin3; eassumption.
  Qed.

  (* ---------------------------------------------------------------- whole histories *)

  Lemma run_invG : forall h s S seen, InvG s S -> (forall b, In b h -> In b U) -> Seen U s seen ->
    let t := fk_run cfg s h in
    length t = length h /\ Forall (fun x => snd x = ROk) t /\
    (exists S', apply_all (ri r0) S (all_events t) = Some S') /\
    c01_refeed_b seen h t = true.
  Proof.
    induction h as [|b h IH]; intros s S seen HI Hh Hseen.
    - cbn. repeat split; [constructor | exists S; reflexivity].
    - destruct (step_invG s S b HI (Hh b (or_introl eq_refl))) as (s' & evs & S' & Hstep & Happ & HI' & Hx1 & Hx2 & Hx3 & Hx4).
      cbn [fk_run]. rewrite Hstep.
      assert (Hseen' : Seen U s' (b :: seen)).
      { intros x [<-|Hx].
        - split; [apply Hh; left; reflexivity | exact Hx4].
        - destruct (Hseen x Hx) as [HxU [Hk|Hd]]; split; auto.
          right. refine (dropped_mono s s' x _ Hx3 Hd).
          destruct (g_lib _ _ HI) as [-> _]. destruct (g_lib _ _ HI') as [-> _]. reflexivity. }
      destruct (IH s' S' (b :: seen) HI' (fun x Hx => Hh x (or_intror Hx)) Hseen') as (Hlen & Hok & (S2 & Happ2) & Hre).
      cbn zeta in *. repeat split.
      + cbn [length]. rewrite Hlen. reflexivity.
      + constructor; [reflexivity | exact Hok].
      + exists S2. unfold all_events. cbn [map concat fst]. fold (all_events (fk_run cfg s' h)).
        rewrite (apply_all_app _ _ _ _ _ Happ). exact Happ2.
      + cbn [c01_refeed_b]. rewrite Hre, andb_true_r.
        destruct (existsb (block_eqb b) seen) eqn:Hex; [|reflexivity].
        apply existsb_exists in Hex as (x & Hx & Heq). apply block_eqb_eq in Heq. subst x.
        destruct (Hseen b Hx) as [_ Hb]. destruct (Hx1 Hb) as [_ ->]. reflexivity.
  Qed.

  Theorem fixed_lib_run_gen m h : m = LExcl r0 \/ m = LIncl r0 -> (forall b, In b h -> In b U) ->
    let t := fk_run cfg (fs_init m) h in
    length t = length h /\ Forall (fun x => snd x = ROk) t /\
    c01_discipline_b m t = true /\ c01_refeed_b [] h t = true /\
    c01_error_b (c_fail_at cfg) 0 t = true.
  Proof.
    intros Hm Hh. destruct (run_invG h (fs_init m) [] [] (invG_init m Hm) Hh) as (Hlen & Hok & (S' & Happ) & Hre).
    { intros x []. }
    cbn zeta. repeat split; try assumption.
    - unfold c01_discipline_b. replace (root_lib m (fk_run cfg (fs_init m) h)) with (ri r0) by (destruct Hm as [->| ->]; reflexivity).
      rewrite Happ. reflexivity.
    - rewrite Hnofail. apply error_ok. exact Hok.
  Qed.

End FixedLibIncl.
