(* The delivery loops and ProcessBlock of Model/Forkable.v with every field of the delivered events
   exposed, for an exclusive starting LIB that never moves and a handler that never fails
   (the class of Proofs/Fk/FixedLib.v).  Strengthened copies of process_blocks_ok, process_new_loop_ok,
   process_tail_ok, scss_link, trigger_finish, step_inv. *)
From BV Require Import Base.Prelude Model.Block Model.ForkDB Model.Forkable Spec.Consumer Spec.C04_Spec
  Proofs.Fk.StoreFacts Proofs.Fk.WalkFacts Proofs.Fk.LoopFacts Proofs.Fk.StoreChange Proofs.Fk.SwitchFacts
  Proofs.Fk.FixedLib.
Local Open Scope N_scope.

(* ---------------------------------------------------------------- the explicit event lists *)

Lemma batch_events_blocks st head lib junc count : forall bs idx,
  map eblk (batch_events st head lib junc count idx bs) = bs.
Proof. induction bs as [|x bs IH]; intros idx; cbn [batch_events map eblk]; [reflexivity|]. rewrite IH. reflexivity. Qed.

Lemma batch_events_step st head lib junc count : forall bs idx,
  Forall (fun e => estep e = st) (batch_events st head lib junc count idx bs).
Proof. induction bs as [|x bs IH]; intros idx; cbn [batch_events]; constructor; [reflexivity | apply IH]. Qed.

Lemma fresh_events_blocks head lib bs : map eblk (fresh_events head lib bs) = bs.
Proof. unfold fresh_events. rewrite map_map. cbn [eblk]. apply map_id. Qed.

Lemma fresh_events_step head lib bs : Forall (fun e => estep e = SNew) (fresh_events head lib bs).
Proof. unfold fresh_events. apply Forall_forall. intros e He. apply in_map_iff in He as (x & <- & _). reflexivity. Qed.

Lemma cursor_lib_same s s' : last_lib_seen s' = last_lib_seen s -> libref (db s') = libref (db s) ->
  cursor_lib s' = cursor_lib s.
Proof. intros H1 H2. unfold cursor_lib. rewrite H1, H2. reflexivity. Qed.

Lemma last_default {A} (l : list A) d d' : l <> [] -> last l d = last l d'.
Proof.
  induction l as [|x l IH]; intros H; [congruence|]. destruct l as [|y l]; [reflexivity|].
  change (last (x :: y :: l) d) with (last (y :: l) d). change (last (x :: y :: l) d') with (last (y :: l) d').
  apply IH. discriminate.
Qed.

Section NoFailEv.
  Variable cfg : config.
  Hypothesis Hnofail : c_fail_at cfg = None.

  Lemma process_blocks_loop_ev cur st junc count : forall blocks idx s acc,
    exists s', process_blocks_loop cfg cur st junc count idx blocks s acc =
                 (s', acc ++ batch_events st (bref cur) (cursor_lib s) (if matches_undo st then junc else None)
                                         count idx (map eb blocks), true) /\
               same_but_calls s s' /\ ncalls s' = ncalls s + N.of_nat (length blocks).
  Proof.
    induction blocks as [|e rest IH]; intros idx s acc.
    - exists s. cbn [process_blocks_loop map batch_events length]. rewrite app_nil_r. repeat split. lia.
    - cbn [process_blocks_loop]. rewrite (call_ok cfg Hnofail). cbv beta iota zeta.
      set (s1 := mkFS (db s) (last_sent s) (last_lib_seen s) (ncalls s + 1)).
      destruct (IH (idx + 1) s1 (acc ++ [mkEv st (eb e) (bref (eb e)) (bref cur) (cursor_lib s)
                                             (if matches_undo st then junc else None) idx count]))
        as (s' & Heq & (H1 & H2 & H3) & H4).
      exists s'. rewrite Heq, <- app_assoc. cbn [app map batch_events].
      replace (cursor_lib s1) with (cursor_lib s) by reflexivity.
      split; [reflexivity|]. split; [repeat split; assumption|].
      rewrite H4. unfold s1. cbn [ncalls length]. lia.
  Qed.

  Lemma process_blocks_ev cur blocks st junc s :
    exists s', process_blocks cfg cur blocks st junc s =
                 (s', batch_events st (bref cur) (cursor_lib s) (if matches_undo st then junc else None)
                                   (N.of_nat (length blocks)) 0 (map eb blocks), true) /\
               same_but_calls s s' /\ ncalls s' = ncalls s + N.of_nat (length blocks).
  Proof.
    unfold process_blocks.
    destruct (process_blocks_loop_ev cur st junc (N.of_nat (length blocks)) blocks 0 s []) as (s' & H & R).
    exists s'. cbn [app] in H. auto.
  Qed.

  Hypothesis Hnew : f_new (c_filter cfg) = true.

  Lemma process_new_loop_ev head : forall chain s acc,
    Forall (fun sg => seg_ref sg = bref (eb (sent sg))) chain ->
    exists s', process_new_loop cfg head chain s acc =
                 (s', acc ++ fresh_events head (cursor_lib s) (map (fun sg => eb (sent sg)) (unsent chain)), true) /\
      store (db s') = mark_all (store (db s)) (unsent chain) /\
      extra (db s') = extra (db s) /\ libref (db s') = libref (db s) /\
      last_lib_seen s' = last_lib_seen s /\
      last_sent s' = match rev (unsent chain) with sg :: _ => Some (eb (sent sg)) | [] => last_sent s end /\
      ncalls s' = ncalls s + N.of_nat (length (unsent chain)).
  Proof.
    induction chain as [|b rest IH]; intros s acc Hrefs.
    - exists s. cbn [process_new_loop unsent filter map fresh_events length]. rewrite app_nil_r. repeat split. lia.
    - inversion Hrefs as [|? ? Hb Hrest]; subst.
      cbn [process_new_loop]. unfold unsent. cbn [filter]. fold (unsent rest).
      destruct (esent (sent b)) eqn:Es; cbn [negb].
      + apply IH. exact Hrest.
      + rewrite Hnew, (call_ok cfg Hnofail). cbv beta iota zeta. cbn [db last_sent last_lib_seen ncalls].
        set (s1 := mkFS (mkDB (set_sent (sid b) (store (db s))) (extra (db s)) (libref (db s)))
                        (Some (eb (sent b))) (last_lib_seen s) (ncalls s + 1)).
        destruct (IH s1 (acc ++ [mkEv SNew (eb (sent b)) (seg_ref b) head (cursor_lib s) None 0 0]) Hrest)
          as (s' & Heq & Hst & Hex & Hlib & Hls & Hlast & Hnc).
        exists s'. rewrite Heq, <- app_assoc. cbn [app map]. unfold fresh_events at 2. cbn [map]. fold (fresh_events head (cursor_lib s)).
        replace (cursor_lib s1) with (cursor_lib s) by reflexivity.
        rewrite Hb. repeat split; try assumption.
        * rewrite Hlast. cbn [rev]. destruct (rev (unsent rest)) as [|sg t] eqn:R; cbn [app]; reflexivity.
        * rewrite Hnc. unfold s1. cbn [ncalls length]. lia.
  Qed.
End NoFailEv.

(* ---------------------------------------------------------------- the switch, junction exposed *)

Lemma scss_link_j d lib hd np pH pP : wf_store (store d) -> lib <> 0 -> hd <> np ->
  chain (store d) hd lib pH -> chain (store d) np lib pP ->
  (forall f t e, undo_chain f d lib = Some (lib :: t) -> In e pP -> ~ In (key e) t) ->
  exists C R Uh,
    pP = C ++ R /\ pH = C ++ Uh /\
    sent_chain_switch_segments d hd np =
      ScssOk (rev Uh) (filter esent R)
        (match Uh with
         | [] => None
         | _ :: _ => match rev C with
                     | ej :: _ => Some (bref (eb ej))
                     | [] => match find lib (store d) with
                             | Some e => Some (mkR lib (bnum (eb e)))
                             | None => None
                             end
                     end
         end).
Proof.
  intros Hwf Hlib0 Hne HH HP Htail.
  destruct (meet _ _ _ _ Hwf HH np pP HP) as (C & R & j & HeqP & HR & Hdis & Hj).
  destruct (undo_chain_chain d Hwf _ _ _ HH Hlib0 (fuel_of d) (enough_fuel_of d hd)) as [t Ht].
  destruct (undo_tail d Hwf _ _ _ HH Hlib0 _ _ Ht) as [f0 Hf0].
  assert (Hj0 : j <> 0).
  { destruct Hj as [[_ ->]|(C0 & ej & Uh & HC & Hk & HpH)]; [exact Hlib0|].
    rewrite <- Hk. apply (ws_id _ Hwf ej). eapply chain_in; [exact HH|]. rewrite HpH, HC.
    apply in_or_app. left. apply in_or_app. right. left. reflexivity. }
  assert (Hsplit : exists Uh rest, pH = C ++ Uh /\ rev (map key pH) ++ lib :: t = rev (map key Uh) ++ j :: rest /\ ~ In j (rev (map key Uh))).
  { destruct Hj as [[-> ->]|(C0 & ej & Uh & -> & Hk & HpH)].
    - exists pH, t. repeat split. intros Hin. apply in_rev in Hin. apply in_map_iff in Hin as (e & Hke & Hin).
      exact (chain_not_bottom _ _ _ _ HH e Hin Hke).
    - exists Uh, (rev (map key C0) ++ lib :: t). split; [exact HpH|]. split.
      + rewrite HpH, !map_app, !rev_app_distr. cbn [map rev app]. rewrite Hk, <- !app_assoc. cbn [app]. reflexivity.
      + intros Hin. apply in_rev in Hin.
        pose proof (chain_nodup _ _ _ _ Hwf HH) as Hnd. rewrite HpH in Hnd. unfold keys in Hnd. rewrite map_app in Hnd.
        refine (nodup_app_disj _ _ j Hnd _ Hin). rewrite map_app. apply in_or_app. right. left. exact Hk. }
  destruct Hsplit as (Uh & rest & HpH & Huc & Hjn).
  exists C, R, Uh.
  unfold sent_chain_switch_segments. destruct (N.eqb_spec hd np) as [E|_]; [contradiction|].
  unfold chain_switch_segments. rewrite Ht.
  assert (Hredo : redo_chain (fuel_of d) d (rev (map key pH) ++ lib :: t) np [] = Some (Some (map key R ++ [], j))).
  { apply redo_chain_chain; [exact Hwf | exact HR | exact Hj0 | | | apply enough_fuel_of].
    - intros e He. destruct (memN (key e) (rev (map key pH) ++ lib :: t)) eqn:M; [|reflexivity].
      exfalso. apply memN_in in M. apply in_app_or in M as [M|[M|M]].
      + apply in_rev in M. apply (proj1 (Hdis e He)). exact M.
      + apply (proj2 (Hdis e He)). symmetry. exact M.
      + apply (Htail f0 t e Hf0); [rewrite HeqP; apply in_or_app; right; exact He | exact M].
    - apply memN_in. rewrite Huc. apply in_or_app. right. left. reflexivity. }
  rewrite Hredo, app_nil_r, Huc, (take_until_app j _ rest Hjn).
  assert (HinH : Forall (fun e => In e (store d)) (rev Uh)).
  { apply Forall_forall. intros e He. apply in_rev in He. eapply chain_in; [exact HH|]. rewrite HpH. apply in_or_app. right. exact He. }
  assert (HinR : Forall (fun e => In e (store d)) R).
  { apply Forall_forall. intros e He. eapply chain_in; [exact HP|]. rewrite HeqP. apply in_or_app. right. exact He. }
  rewrite <- map_rev.
  rewrite (scs_entries d false (rev Uh) (ws_nodup _ Hwf) HinH), (scs_entries d true R (ws_nodup _ Hwf) HinR).
  split; [exact HeqP|]. split; [exact HpH|].
  f_equal.
  - clear. induction (rev Uh) as [|e l IH]; cbn [filter]; [reflexivity|]. cbn. f_equal. exact IH.
  - clear. induction R as [|e l IH]; cbn [filter]; [reflexivity|]. destruct (esent e); cbn; [f_equal|]; exact IH.
  - (* the junction *)
    assert (Hnil : forall A (x : list A), match map key (rev Uh) with [] => x | _ :: _ => x end = x) by (intros; destruct (map key (rev Uh)); reflexivity).
    destruct Uh as [|u Uh'].
    + reflexivity.
    + assert (Hne2 : map key (rev (u :: Uh')) <> []).
      { cbn [rev]. rewrite map_app. destruct (map key (rev Uh')); discriminate. }
      destruct (map key (rev (u :: Uh'))) as [|k0 ks] eqn:Ek; [congruence|].
      unfold block_for_id.
      destruct Hj as [[-> ->]|(C0 & ej & U2 & -> & Hk & HpH2)].
      * cbn [rev]. destruct (find lib (store d)) as [e|] eqn:F; reflexivity.
      * rewrite rev_app_distr. cbn [rev app].
        assert (Hej : In ej (store d)).
        { eapply chain_in; [exact HH|]. rewrite HpH. apply in_or_app. left. apply in_or_app. right. left. reflexivity. }
        rewrite <- Hk, (find_in_nodup _ _ (ws_nodup _ Hwf) Hej). reflexivity.
Qed.

(* ---------------------------------------------------------------- ProcessBlock *)

Section FixedLibEv.
  Variable U : list block.
  Variable r0 : ref.
  Variable cfg : config.

  Hypothesis Hnofail : c_fail_at cfg = None.
  Hypothesis Hnew : f_new (c_filter cfg) = true.
  Hypothesis Hundo : f_undo (c_filter cfg) = true.
  Hypothesis Hincl : c_incl cfg = false.

  Hypothesis U_id : forall b, In b U -> bid b <> 0 /\ bid b <> bparent b.
  Hypothesis U_uniq : forall x y, In x U -> In y U -> bid x = bid y -> x = y.
  Hypothesis U_up : forall x y, In x U -> In y U -> bparent x = bid y -> bnum y < bnum x.
  Hypothesis L_id : ri r0 <> 0.
  Hypothesis L_num : forall y, In y U -> bid y = ri r0 -> bnum y = rn r0.
  Hypothesis L_up : forall x, In x U -> bparent x = ri r0 -> rn r0 < bnum x.
  Hypothesis L_lib : forall b, In b U -> blib b = rn r0.

  Notation first := (c_first cfg).
  Notation Inv := (Inv U r0).
  Notation lib_db := (lib_db r0).
  Notation in_U := (in_U U).

  Lemma r0_eta : mkR (ri r0) (rn r0) = r0.
  Proof. destruct r0; reflexivity. Qed.

  Lemma r0_not_empty : is_empty r0 = false.
  Proof. unfold is_empty. destruct (N.eqb_spec (ri r0) 0); [contradiction|]. apply andb_false_r. Qed.

  (* the cursor LIB of every event is r0 *)
  Lemma cursor_lib_r0 s : last_lib_seen s = r0 -> cursor_lib s = r0.
  Proof. intros H. unfold cursor_lib. rewrite H, r0_not_empty. reflexivity. Qed.

  (* the events of a triggering step, entry level *)
  Definition tail_events (b : block) (junc : option ref) (undos redos : list entry) (longest : list seg) : list event :=
    batch_events SUndo (bref b) r0 junc (N.of_nat (length undos)) 0 (map eb undos) ++
    batch_events SNew (bref b) r0 None (N.of_nat (length redos)) 0 (map eb redos) ++
    fresh_events (bref b) r0 (map (fun sg => eb (sent sg)) (unsent longest)).

  Lemma process_tail_ev s1 b undos redos junc longest :
    lib_db (db s1) -> last_lib_seen s1 = r0 -> longest <> [] ->
    Forall (fun sg => seg_ref sg = bref (eb (sent sg))) longest ->
    seg_ref (last longest (mkSeg 0 0 (mkEntry b false))) = bref b ->
    (forall d ls, store d = mark_all (store (db s1)) (unsent longest) -> extra d = extra (db s1) -> libref d = libref (db s1) ->
        In ls (map (fun sg => eb (sent sg)) (unsent longest)) \/ last_sent s1 = Some ls ->
        block_in_chain d (bref ls) (blib ls) = Some (mkR (ri r0) (rn r0))) ->
    exists s3,
      process_tail cfg s1 b undos redos junc longest None = (s3, tail_events b junc undos redos longest, ROk) /\
      store (db s3) = mark_all (store (db s1)) (unsent longest) /\
      extra (db s3) = extra (db s1) /\ libref (db s3) = libref (db s1) /\
      last_sent s3 = match rev (unsent longest) with sg :: _ => Some (eb (sent sg)) | [] => last_sent s1 end /\
      last_lib_seen s3 = r0 /\
      ncalls s3 = ncalls s1 + N.of_nat (length undos) + N.of_nat (length redos) + N.of_nat (length (unsent longest)).
  Proof.
    intros Hl Hseen Hne Hrefs Hhead Htail. unfold process_tail. rewrite Hundo, Hnew.
    destruct (process_blocks_ev cfg Hnofail b undos SUndo junc s1) as (sa & -> & (Ha1 & Ha2 & Ha3) & Ha4).
    cbn [negb matches_undo].
    destruct (process_blocks_ev cfg Hnofail b redos SNew None sa) as (sb & -> & (Hb1 & Hb2 & Hb3) & Hb4).
    cbn [negb matches_undo].
    unfold process_new_blocks. destruct longest as [|b0 lrest] eqn:Hlong; [congruence|]. rewrite <- Hlong in *.
    destruct (process_new_loop_ev cfg Hnofail Hnew (seg_ref (last longest b0)) longest sb [] Hrefs) as
      (s3 & Hrun & Hst & Hex & Hlib & Hlls & Hlast & Hnc).
    cbn [app] in Hrun. rewrite Hlong in Hrun at 1. rewrite <- Hlong in Hrun. rewrite Hrun. cbn [negb].
    rewrite Hb1, Ha1 in Hst, Hex, Hlib. rewrite Hb2, Ha2 in Hlast. rewrite Hb3, Ha3 in Hlls. rewrite Hb4, Ha4 in Hnc.
    assert (Hc1 : cursor_lib s1 = r0) by (apply cursor_lib_r0; exact Hseen).
    assert (Hca : cursor_lib sa = r0) by (apply cursor_lib_r0; congruence).
    assert (Hcb : cursor_lib sb = r0) by (apply cursor_lib_r0; congruence).
    assert (Hhd : seg_ref (last longest b0) = bref b).
    { rewrite <- Hhead. f_equal. apply last_default. rewrite Hlong. discriminate. }
    rewrite Hc1, Hca, Hcb, Hhd.
    exists s3.
    assert (Hno : match last_sent s3 with
                  | None => True
                  | Some ls => block_in_chain (db s3) (bref ls) (blib ls) = Some (mkR (ri r0) (rn r0))
                  end).
    { destruct (last_sent s3) as [ls|]; [|exact I].
      apply Htail; try assumption.
      destruct (rev (unsent longest)) as [|sg t] eqn:R.
      - right. symmetry. exact Hlast.
      - left. injection Hlast as Hlast. subst ls. apply (in_map (fun x => eb (sent x))). apply in_rev. rewrite R. left. reflexivity. }
    assert (Hhl : has_lib (db s3) = true).
    { apply (has_lib_r0 r0 L_id). destruct Hl as [A B]. split; congruence. }
    fold (tail_events b junc undos redos longest).
    destruct (last_sent s3) as [ls|] eqn:Els.
    - rewrite Hhl. cbn [negb]. rewrite Hno. cbn [ri].
      destruct (N.eqb_spec (ri r0) 0); [contradiction|].
      unfold has_new_irr_segment. rewrite Hlib. destruct Hl as [A B]. rewrite A. cbn [ri]. rewrite N.eqb_refl.
      cbn [negb andb]. repeat split; try assumption; try congruence.
    - repeat split; try assumption; try congruence.
  Qed.

  (* ---------------------------------------------------------------- the triggering step, events exposed *)

  Lemma map_sent_seg_of l : map (fun sg => eb (sent sg)) (map seg_of l) = map eb l.
  Proof. rewrite map_map. reflexivity. Qed.

  Lemma seg_of_refs l : Forall (fun sg => seg_ref sg = bref (eb (sent sg))) (map seg_of l).
  Proof. apply Forall_forall. intros sg H. apply in_map_iff in H as (e & <- & _). reflexivity. Qed.

  Lemma trigger_ev s1 S b pP C R Uh junc :
    Inv s1 S -> last_lib_seen s1 = r0 -> In b U ->
    chain (store (db s1)) (bid b) (ri r0) (pP ++ [mkEntry b false]) ->
    pP = C ++ R ->
    Forall (fun e => esent e = true) C ->
    S = rev (map eb (C ++ Uh)) ->
    exists s3 Rs Ru evs,
      R = Rs ++ Ru /\
      evs = batch_events SUndo (bref b) r0 junc (N.of_nat (length Uh)) 0 (rev (map eb Uh)) ++
            batch_events SNew (bref b) r0 None (N.of_nat (length Rs)) 0 (map eb Rs) ++
            fresh_events (bref b) r0 (map eb (Ru ++ [mkEntry b false])) /\
      process_tail cfg s1 b (rev Uh) (filter esent R) junc (map seg_of (pP ++ [mkEntry b false])) None = (s3, evs, ROk) /\
      apply_all (ri r0) S evs = Some (rev (map eb (pP ++ [mkEntry b false]))) /\
      Inv s3 (rev (map eb (pP ++ [mkEntry b false]))) /\
      keys (store (db s3)) = keys (store (db s1)) /\ last_lib_seen s3 = r0.
  Proof.
    intros HI Hseen Hb Hc HP HC HS.
    destruct (trigger_finish U r0 cfg Hnofail Hnew Hundo U_id U_uniq U_up L_id L_num L_up L_lib
                s1 S b pP C R Uh junc HI Hb Hc HP HC HS) as (s3' & evs' & Hrun' & Happ & HI3 & Hk3).
    pose proof HI as [Hnd HU Hl Hlc Hh].
    set (en := mkEntry b false) in *. set (q := pP ++ [en]) in *.
    assert (Hq : forall e, In e q -> In e (store (db s1))) by (intros e He; eapply chain_in; eassumption).
    assert (HcP : chain (store (db s1)) (bparent b) (ri r0) pP).
    { destruct (chain_snoc_inv _ _ _ _ _ Hc) as (_ & _ & H). exact H. }
    rewrite HP in HcP.
    destruct (sent_prefix r0 _ _ _ C R Hlc Hnd HcP eq_refl HC) as (Rs & Ru & HR & HRs & HRu).
    destruct (filter_sent_split Rs Ru HRs HRu) as [F1 F2].
    assert (Hun : filter (fun e => negb (esent e)) q = Ru ++ [en]).
    { unfold q. rewrite HP, HR, !filter_app, (filter_unsent_nil C HC), <- filter_app, F2. reflexivity. }
    destruct (process_tail_ev s1 b (rev Uh) (filter esent R) junc (map seg_of q)) as
      (s3 & Hrun & Hst & Hex & Hlr & Hls & Hlls & _).
    - exact Hl.
    - exact Hseen.
    - unfold q. destruct pP; discriminate.
    - apply seg_of_refs.
    - unfold q. rewrite map_app. cbn [map]. rewrite last_last. reflexivity.
    - intros d ls Hd He Hlb Hin.
      assert (Hld : lib_db d) by (destruct Hl as [A B]; split; congruence).
      destruct Hin as [Hin|Hold].
      + rewrite unsent_map, map_map in Hin. apply in_map_iff in Hin as (e & <- & Hin). cbn [sent seg_of].
        apply filter_In in Hin as [Hin _].
        rewrite (L_lib (eb e) (HU e (Hq e Hin))).
        apply in_split in Hin as (q1 & q2 & Heq). rewrite Heq in Hc.
        eapply (bic_marked U r0 cfg U_id U_up L_id L_num L_up _ q d _ q1 e Hnd HU Hq Hld Hd). eapply chain_prefix. exact Hc.
      + rewrite Hold in Hh. destruct Hh as (HhU & pH & HcH & Hne & _ & _).
        rewrite (L_lib ls HhU).
        destruct pH as [|eh pH'] using rev_ind; [congruence|]. clear IHpH'.
        destruct (chain_snoc_inv _ _ _ _ _ HcH) as (_ & Hfh & _).
        rewrite <- (stored_is_self U U_uniq _ _ _ HU HhU Hfh).
        eapply (bic_marked U r0 cfg U_id U_up L_id L_num L_up _ q d _ pH' eh Hnd HU Hq Hld Hd). exact HcH.
    - rewrite Hrun in Hrun'. injection Hrun' as <- <-.
      exists s3, Rs, Ru, (tail_events b junc (rev Uh) (filter esent R) (map seg_of q)).
      split; [exact HR|]. split.
      + unfold tail_events. rewrite rev_length, map_rev, HR, F1, unsent_map, Hun, map_sent_seg_of. reflexivity.
      + split; [exact Hrun|]. split; [exact Happ|]. split; [exact HI3|]. split; [exact Hk3 | exact Hlls].
  Qed.


  (* the declared LIB of every block sent in a triggering step, and of the previous head, resolves to
     the LIB itself in the marked store: the hypothesis of process_tail_ev *)
  Lemma tail_hyp s1 S b pP :
    Inv s1 S -> In b U ->
    chain (store (db s1)) (bid b) (ri r0) (pP ++ [mkEntry b false]) ->
    forall d ls, store d = mark_all (store (db s1)) (unsent (map seg_of (pP ++ [mkEntry b false]))) ->
      extra d = extra (db s1) -> libref d = libref (db s1) ->
      In ls (map (fun sg => eb (sent sg)) (unsent (map seg_of (pP ++ [mkEntry b false])))) \/ last_sent s1 = Some ls ->
      block_in_chain d (bref ls) (blib ls) = Some (mkR (ri r0) (rn r0)).
  Proof.
    intros HI Hb Hc d ls Hd He Hlb Hin.
    pose proof HI as [Hnd HU Hl Hlc Hh].
    set (en := mkEntry b false) in *. set (q := pP ++ [en]) in *.
    assert (Hq : forall e, In e q -> In e (store (db s1))) by (intros e He'; eapply chain_in; eassumption).
    assert (Hld : lib_db d) by (destruct Hl as [A B]; split; congruence).
    destruct Hin as [Hin|Hold].
    + rewrite unsent_map, map_map in Hin. apply in_map_iff in Hin as (e & <- & Hin). cbn [sent seg_of].
      apply filter_In in Hin as [Hin _].
      rewrite (L_lib (eb e) (HU e (Hq e Hin))).
      apply in_split in Hin as (q1 & q2 & Heq). rewrite Heq in Hc.
      eapply (bic_marked U r0 cfg U_id U_up L_id L_num L_up _ q d _ q1 e Hnd HU Hq Hld Hd). eapply chain_prefix. exact Hc.
    + rewrite Hold in Hh. destruct Hh as (HhU & pH & HcH & Hne & _ & _).
      rewrite (L_lib ls HhU).
      destruct pH as [|eh pH'] using rev_ind; [congruence|]. clear IHpH'.
      destruct (chain_snoc_inv _ _ _ _ _ HcH) as (_ & Hfh & _).
      rewrite <- (stored_is_self U U_uniq _ _ _ HU HhU Hfh).
      eapply (bic_marked U r0 cfg U_id U_up L_id L_num L_up _ q d _ pH' eh Hnd HU Hq Hld Hd). exact HcH.
  Qed.

  (* a non-empty ReversibleSegment of a stored new block is its chain down to the LIB *)
  Lemma longest_shape d b longest reach : lib_db d ->
    find (bid b) (store d) = Some (mkEntry b false) ->
    rs_loop (fuel_of d) d first (bid b) (bnum b) [] = Some (longest, reach) -> longest <> [] ->
    exists pP, chain (store d) (bid b) (ri r0) (pP ++ [mkEntry b false]) /\ longest = map seg_of (pP ++ [mkEntry b false]).
  Proof.
    intros Hl1 Hfb Hrs Hlong. destruct reach.
    - destruct (chain_of_rs r0 cfg d (bid b) (mkEntry b false) longest Hl1 Hfb) as (p & Hc & Hp).
      { unfold reversible_segment. cbn [ri rn eb]. exact Hrs. }
      destruct p as [|e' p'] using rev_ind.
      + subst longest. exfalso. apply Hlong. reflexivity.
      + clear IHp'. destruct (chain_snoc_inv _ _ _ _ _ Hc) as (_ & Hf' & _). rewrite Hfb in Hf'. injection Hf' as <-.
        exists p'. auto.
    - apply (rs_false_nil cfg d (has_lib_r0 r0 L_id _ Hl1)) in Hrs. congruence.
  Qed.

  (* ---------------------------------------------------------------- one ProcessBlock call, events exposed *)

  Definition lib_stored (s : fstate) : bool := memN (ri r0) (keys (store (db s))).

  Definition has_chain (l : list entry) (b : block) : Prop :=
    exists pP, chain l (bid b) (ri r0) (pP ++ [mkEntry b false]).

  Inductive StepKind (s s' : fstate) (S S' : cstack) (b : block) (evs : list event) : Prop :=
  | SkSame : dropped s b = true \/ In (bid b) (keys (store (db s))) -> s' = s -> S' = S -> evs = [] ->
             StepKind s s' S S' b evs
  | SkStored : dropped s b = false -> ~ In (bid b) (keys (store (db s))) ->
               keys (store (db s')) = keys (store (db s)) ++ [bid b] ->
               triggers cfg s b = false \/ ~ has_chain (store (db s) ++ [mkEntry b false]) b ->
               S' = S -> last_sent s' = last_sent s -> evs = [] -> StepKind s s' S S' b evs
  | SkTrig : dropped s b = false -> ~ In (bid b) (keys (store (db s))) ->
             keys (store (db s')) = keys (store (db s)) ++ [bid b] ->
             triggers cfg s b = true -> has_chain (store (db s) ++ [mkEntry b false]) b ->
             (exists T, S' = b :: T) -> StepKind s s' S S' b evs.

  Lemma c04_step_quiet lr S b : c04_step r0 lr S b [] S.
  Proof. exists S, [], [], []. repeat split; constructor. Qed.

  Lemma junction_switch s C Uh : in_U (store (db s)) ->
    match Uh with
    | [] => None
    | _ :: _ => match rev C with
                | ej :: _ => Some (bref (eb ej))
                | [] => match find (ri r0) (store (db s)) with
                        | Some e => Some (mkR (ri r0) (bnum (eb e)))
                        | None => None
                        end
                end
    end = junction_of r0 (lib_stored s) (rev (map eb Uh)) (rev (map eb C)).
  Proof.
    intros HU. unfold junction_of. destruct Uh as [|u Uh']; [reflexivity|].
    assert (Hne : rev (map eb (u :: Uh')) <> []) by (cbn [map rev]; destruct (rev (map eb Uh')); discriminate).
    destruct (rev (map eb (u :: Uh'))) as [|x xs]; [congruence|].
    rewrite <- map_rev. destruct (rev C) as [|ej rc]; cbn [map]; [|reflexivity].
    unfold lib_stored. destruct (find (ri r0) (store (db s))) as [e|] eqn:F.
    - replace (memN (ri r0) (keys (store (db s)))) with true.
      + pose proof (find_some _ _ _ F) as [Hin Hk]. rewrite (L_num (eb e) (HU e Hin) Hk), r0_eta. reflexivity.
      + symmetry. apply memN_in. apply find_is_some_in. eauto.
    - replace (memN (ri r0) (keys (store (db s)))) with false; [reflexivity|].
      symmetry. apply find_none in F. destruct (memN (ri r0) (keys (store (db s)))) eqn:M; [|reflexivity].
      apply memN_in in M. contradiction.
  Qed.

  Lemma c04_step_of_trigger l lr S b pP C Rs Ru Uh junc evs :
    in_U l -> NoDup (keys l) ->
    chain l (bid b) (ri r0) (pP ++ [mkEntry b false]) ->
    pP = C ++ Rs ++ Ru -> S = rev (map eb (C ++ Uh)) ->
    junc = junction_of r0 lr (rev (map eb Uh)) (rev (map eb C)) ->
    evs = batch_events SUndo (bref b) r0 junc (N.of_nat (length Uh)) 0 (rev (map eb Uh)) ++
          batch_events SNew (bref b) r0 None (N.of_nat (length Rs)) 0 (map eb Rs) ++
          fresh_events (bref b) r0 (map eb (Ru ++ [mkEntry b false])) ->
    apply_all (ri r0) S evs = Some (rev (map eb (pP ++ [mkEntry b false]))) ->
    c04_step r0 lr S b evs (rev (map eb (pP ++ [mkEntry b false]))).
  Proof.
    intros HU Hnd Hc HP HS Hj Hev Happ.
    exists (rev (map eb C)), (rev (map eb Uh)), (map eb Rs), (map eb (Ru ++ [mkEntry b false])).
    split; [rewrite HS, map_app, rev_app_distr; reflexivity|].
    split; [rewrite HP, <- !map_app, <- rev_app_distr, <- map_app, <- !app_assoc; reflexivity|].
    split; [rewrite Hev, Hj, rev_length, !map_length; reflexivity|].
    split; [|exact Happ].
    rewrite <- map_app. apply Forall_forall. intros x Hx. apply in_map_iff in Hx as (e & <- & He).
    eapply (above U r0 cfg U_id U_up L_id L_up l HU Hnd); [exact Hc|].
    rewrite HP, <- !app_assoc. apply in_or_app. right. exact He.
  Qed.

  Lemma step_ev s S b : Inv s S -> last_lib_seen s = r0 -> In b U ->
    exists s' evs S', fk_step cfg s b = (s', evs, ROk) /\ apply_all (ri r0) S evs = Some S' /\ Inv s' S' /\
                      last_lib_seen s' = r0 /\ c04_step r0 (lib_stored s) S b evs S' /\ StepKind s s' S S' b evs.
  Proof.
    intros HI Hseen Hb.
    destruct (dropped s b) eqn:Hd.
    { exists s, [], S. rewrite (fk_step_dropped U cfg U_id s b Hb Hd).
      split; [reflexivity|]. split; [reflexivity|]. split; [exact HI|]. split; [exact Hseen|].
      split; [apply c04_step_quiet | apply SkSame; auto]. }
    pose proof HI as [Hnd HU Hl Hlc Hh].
    pose proof (wf_of_U U U_id U_up _ Hnd HU) as Hwf.
    destruct (find (bid b) (store (db s))) as [e|] eqn:Hf.
    { exists s, [], S.
      assert (Hlz : ri (libref (db s)) <> 0) by (destruct Hl as [-> _]; exact L_id).
      rewrite (fk_step_old U cfg Hincl U_id U_uniq s b e HU Hb Hf Hwf (stored_root_unsent U r0 U_uniq L_id _ b e HU Hb Hf Hwf Hlc) Hlz).
      assert (In (bid b) (keys (store (db s)))) by (apply find_is_some_in; eauto).
      split; [reflexivity|]. split; [reflexivity|]. split; [exact HI|]. split; [exact Hseen|].
      split; [apply c04_step_quiet | apply SkSame; auto]. }
    (* a new block *)
    pose proof (inv_add U r0 s S b HI Hb Hf) as HI1.
    set (s1 := with_db s (new_db (db s) b)) in *.
    set (en := mkEntry b false).
    assert (Hk : ~ In (bid b) (keys (store (db s)))) by (apply find_none; exact Hf).
    assert (Hsw : exists u r j, sw_of cfg s b = ScssOk u r j).
    { unfold sw_of. destruct (f_undo (c_filter cfg) && triggers cfg s b); [|eauto].
      destruct (last_sent s) as [ls|]; [apply scss_total; exact Hwf | eauto]. }
    destruct Hsw as (undos & redos & junc & Hsw).
    rewrite (fk_step_new U r0 cfg Hincl U_id L_id s b undos redos junc Hl Hb Hf Hd Hsw). cbv zeta. fold s1.
    pose proof HI1 as [Hnd1 HU1 Hl1 Hlc1 Hh1].
    pose proof (wf_of_U U U_id U_up _ Hnd1 HU1) as Hwf1.
    change (new_db (db s) b) with (db s1).
    assert (Hst1 : store (db s1) = store (db s) ++ [en]) by reflexivity.
    assert (Hk1 : keys (store (db s1)) = keys (store (db s)) ++ [bid b]) by (rewrite Hst1; apply keys_snoc).
    assert (Hseen1 : last_lib_seen s1 = r0) by exact Hseen.
    destruct (rs_total (db s1) first Hwf1 (fuel_of (db s1)) (bid b) (bnum b) [] (enough_fuel_of _ _)) as [[longest reach] Hrs].
    unfold reversible_segment. cbn [bref ri rn]. rewrite Hrs.
    assert (Hfb : find (bid b) (store (db s1)) = Some en).
    { rewrite Hst1. apply (find_snoc_new (store (db s)) en). exact Hk. }
    destruct (negb (triggers cfg s b) || match longest with [] => true | _ => false end) eqn:Hgo.
    { exists s1, [], S.
      split; [reflexivity|]. split; [reflexivity|]. split; [exact HI1|]. split; [exact Hseen1|].
      split; [apply c04_step_quiet|].
      apply SkStored; auto.
        apply orb_true_iff in Hgo as [Hgo|Hgo]; [left; apply negb_true_iff; exact Hgo|].
        right. intros [pP HcP]. change (chain (store (db s1)) (bid b) (ri r0) (pP ++ [en])) in HcP.
        pose proof (rs_of_chain U r0 cfg U_id U_up L_id L_num L_up (db s1) (bid b) en _ Hl1 HU1 Hnd1 Hfb HcP) as Hr.
        unfold reversible_segment in Hr. cbn [ri rn eb en] in Hr. rewrite Hrs in Hr.
        destruct longest; [|discriminate]. injection Hr as Hr _. rewrite map_app in Hr. destruct (map seg_of pP); discriminate. }
    apply orb_false_iff in Hgo as [Htr Hlong]. apply negb_false_iff in Htr.
    (* the chain of the new block *)
    assert (Hshape : exists pP, chain (store (db s1)) (bid b) (ri r0) (pP ++ [en]) /\ longest = map seg_of (pP ++ [en])).
    { destruct reach.
      - destruct (chain_of_rs r0 cfg (db s1) (bid b) en longest Hl1 Hfb) as (p & Hc & Hp).
        { unfold reversible_segment. cbn [ri rn eb en]. exact Hrs. }
        destruct p as [|e' p'] using rev_ind.
        + subst longest. discriminate.
        + clear IHp'. destruct (chain_snoc_inv _ _ _ _ _ Hc) as (_ & Hf' & _). rewrite Hfb in Hf'. injection Hf' as <-.
          exists p'. auto.
      - apply (rs_false_nil cfg (db s1) (has_lib_r0 r0 L_id _ Hl1)) in Hrs. subst longest. discriminate. }
    destruct Hshape as (pP & Hc & ->).
    destruct (chain_snoc_inv _ _ _ _ _ Hc) as (_ & _ & HcP). cbn [eb en] in HcP.
    assert (Hnin : ~ In en pP).
    { pose proof (chain_nodup _ _ _ _ Hwf1 Hc) as Hn. unfold keys in Hn. rewrite map_app in Hn.
      intros Hin. refine (nodup_app_disj _ _ (key en) Hn _ _); [apply in_map; exact Hin | left; reflexivity]. }
    assert (Hkind : forall s3 evs, keys (store (db s3)) = keys (store (db s1)) ->
                    StepKind s s3 S (rev (map eb (pP ++ [en]))) b evs).
    { intros s3 evs Hk3. apply SkTrig; auto.
      - rewrite Hk3. exact Hk1.
      - exists pP. exact Hc.
      - rewrite map_app, rev_app_distr. cbn [map rev app eb en]. eauto. }
    assert (HcP0 : chain (store (db s)) (bparent b) (ri r0) pP).
    { apply (chain_restrict (store (db s)) en); assumption. }
    unfold sw_of in Hsw. rewrite Hundo, Htr in Hsw. cbn [andb] in Hsw.
    destruct (last_sent s) as [hd|] eqn:Hls.
    - destruct Hh as (HhU & pH & HcH & HneH & HmH & HsH).
      assert (HS : S = rev (map eb pH)) by (rewrite HmH, rev_involutive; reflexivity).
      destruct (N.eq_dec (bid hd) (bparent b)) as [Heq|Hneq].
      + unfold sent_chain_switch_segments in Hsw. rewrite Heq, N.eqb_refl in Hsw. injection Hsw as <- <- <-.
        rewrite Heq in HcH. pose proof (chain_det _ _ _ _ _ HcH HcP0) as ->.
        destruct (trigger_ev s1 S b pP pP [] [] None HI1 Hseen1 Hb Hc) as (s3 & Rs & Ru & evs & HR & Hev & Hrun & Happ & HI3 & Hk3 & Hs3).
        * rewrite app_nil_r. reflexivity.
        * exact HsH.
        * rewrite app_nil_r. exact HS.
        * destruct Rs; [|discriminate]. destruct Ru; [|discriminate].
          exists s3, evs, (rev (map eb (pP ++ [en]))). split; [exact Hrun|]. split; [exact Happ|]. split; [exact HI3|].
          split; [exact Hs3|]. split; [|apply Hkind; exact Hk3].
          apply (c04_step_of_trigger (store (db s1)) _ S b pP pP [] [] [] None evs HU1 Hnd1 Hc);
            [rewrite app_nil_r; reflexivity | rewrite app_nil_r; exact HS | reflexivity | exact Hev | exact Happ].
      + destruct (scss_link_j (db s) (ri r0) (bid hd) (bparent b) pH pP Hwf L_id Hneq HcH HcP0) as (C & R & Uh & HP & HH & Hsc).
        { intros f t e0 Hu He0. exact (tail_disjoint U r0 cfg U_id U_up L_id L_num L_up (db s) pP (bparent b) Hl HU Hnd HcP0 f t e0 Hu He0). }
        rewrite Hsc in Hsw. injection Hsw as <- <- Hjunc.
        destruct (trigger_ev s1 S b pP C R Uh junc HI1 Hseen1 Hb Hc HP) as (s3 & Rs & Ru & evs & HR & Hev & Hrun & Happ & HI3 & Hk3 & Hs3).
        * rewrite HH in HsH. apply Forall_app in HsH. tauto.
        * rewrite HS, HH. reflexivity.
        * exists s3, evs, (rev (map eb (pP ++ [en]))). split; [exact Hrun|]. split; [exact Happ|]. split; [exact HI3|].
          split; [exact Hs3|]. split; [|apply Hkind; exact Hk3].
          apply (c04_step_of_trigger (store (db s1)) _ S b pP C Rs Ru Uh junc evs HU1 Hnd1 Hc);
            [rewrite HP, HR; reflexivity | rewrite HS, HH; reflexivity | rewrite <- Hjunc; apply junction_switch; exact HU | exact Hev | exact Happ].
    - injection Hsw as <- <- <-. destruct Hh as [-> Hall].
      assert (Hfil : filter esent pP = []).
      { assert (G : forall x, In x pP -> esent x = false).
        { intros x Hx. apply Hall. eapply chain_in; [exact HcP0 | exact Hx]. }
        clear -G. induction pP as [|a t IHt]; cbn [filter]; [reflexivity|].
        rewrite (G a (or_introl eq_refl)). apply IHt. intros x Hx. apply G. right. exact Hx. }
      destruct (trigger_ev s1 [] b pP [] pP [] None HI1 Hseen1 Hb Hc eq_refl (Forall_nil _) eq_refl) as (s3 & Rs & Ru & evs & HR & Hev & Hrun & Happ & HI3 & Hk3 & Hs3).
      cbn [rev] in Hrun. 
      exists s3, evs, (rev (map eb (pP ++ [en]))). rewrite Hfil in Hrun. split; [exact Hrun|]. split; [exact Happ|]. split; [exact HI3|].
      split; [exact Hs3|]. split; [|apply Hkind; exact Hk3].
      apply (c04_step_of_trigger (store (db s1)) _ [] b pP [] Rs Ru [] None evs HU1 Hnd1 Hc);
        [exact HR | reflexivity | reflexivity | exact Hev | exact Happ].
  Qed.

  (* ---------------------------------------------------------------- whole histories *)

  Lemma bool_eq_iff (a b : bool) : (a = true <-> b = true) -> a = b.
  Proof.
    destruct a, b; intros [H1 H2]; try reflexivity.
    - symmetry. apply H1. reflexivity.
    - apply H2. reflexivity.
  Qed.

  Lemma lib_stored_in s : lib_stored s = true <-> In (ri r0) (keys (store (db s))).
  Proof. unfold lib_stored. apply memN_in. Qed.

  Lemma lib_received_in seen : lib_received r0 seen = true <-> exists x, In x seen /\ bid x = ri r0.
  Proof.
    unfold lib_received. rewrite existsb_exists. split; intros (x & Hx & E); exists x; (split; [exact Hx|]).
    - apply N.eqb_eq. exact E.
    - apply N.eqb_eq. exact E.
  Qed.

  Lemma dropped_not_lib s S b : Inv s S -> In b U -> dropped s b = true -> bid b <> ri r0.
  Proof.
    intros HI Hb Hd E. unfold dropped in Hd. apply andb_true_iff in Hd as [Hd _].
    destruct (i_lib _ _ _ _ HI) as [Hl _]. rewrite Hl in Hd. pose proof (L_num b Hb E). lia.
  Qed.

  Lemma lib_stored_step s s' S S' b evs seen : Inv s S -> In b U -> StepKind s s' S S' b evs ->
    lib_stored s = lib_received r0 seen -> lib_stored s' = lib_received r0 (b :: seen).
  Proof.
    intros HI Hb Hk Hlr. apply bool_eq_iff. rewrite lib_stored_in, lib_received_in.
    assert (Hold : In (ri r0) (keys (store (db s))) <-> exists x, In x seen /\ bid x = ri r0).
    { rewrite <- lib_stored_in, <- lib_received_in, Hlr. tauto. }
    assert (Hnw : forall s2, keys (store (db s2)) = keys (store (db s)) ++ [bid b] ->
              (In (ri r0) (keys (store (db s2))) <-> exists x, In x (b :: seen) /\ bid x = ri r0)).
    { intros s2 ->. rewrite in_app_iff, Hold. cbn [In]. split.
      - intros [(x & Hx & E)|[E|[]]]; [exists x; auto | exists b; auto].
      - intros (x & [<-|Hx] & E); [right; left; exact E | left; exists x; auto]. }
    destruct Hk as [Hc -> _ _| _ _ Hk' _ _ _ _ | _ _ Hk' _ _ _]; [|apply Hnw; exact Hk'|apply Hnw; exact Hk'].
    rewrite Hold. split.
    - intros (x & Hx & E). exists x. split; [right; exact Hx | exact E].
    - intros (x & [<-|Hx] & E); [|exists x; auto].
      destruct Hc as [Hc|Hc]; [exfalso; exact (dropped_not_lib s S _ HI Hb Hc E)|].
      apply Hold. rewrite <- E. exact Hc.
  Qed.

  Lemma run_ev : forall h s S seen, Inv s S -> last_lib_seen s = r0 -> (forall b, In b h -> In b U) ->
    lib_stored s = lib_received r0 seen ->
    c04_run r0 seen S h (fk_run cfg s h).
  Proof.
    induction h as [|b h IH]; intros s S seen HI Hseen Hh Hlr; [exact I|].
    destruct (step_ev s S b HI Hseen (Hh b (or_introl eq_refl))) as (s' & evs & S' & Hstep & Happ & HI' & Hseen' & Hc04 & Hkind).
    cbn [fk_run]. rewrite Hstep. cbn [c04_run]. split; [reflexivity|]. exists S'. split.
    - rewrite <- Hlr. exact Hc04.
    - apply IH; [exact HI' | exact Hseen' | intros x Hx; apply Hh; right; exact Hx |].
      exact (lib_stored_step s s' S S' b evs seen HI (Hh b (or_introl eq_refl)) Hkind Hlr).
  Qed.

  Theorem fixed_lib_events h : (forall b, In b h -> In b U) ->
    c04_run r0 [] [] h (fk_run cfg (fs_init (LExcl r0)) h).
  Proof. intros Hh. apply run_ev; [apply inv_init | reflexivity | exact Hh | reflexivity]. Qed.

End FixedLibEv.
