(* C02 on the Forkable model when the LIB moves: the finality monitor fin_mon of Spec/Consumer.v
   accepts every run (exclusive starting LIB, handler never fails, Irreversible in the filter). *)
From BV Require Import Base.Prelude Model.Block Model.ForkDB Model.Forkable Spec.Consumer Spec.Universe
  Proofs.Fk.StoreFacts Proofs.Fk.WalkFacts Proofs.Fk.LoopFacts Proofs.Fk.StoreChange Proofs.Fk.SwitchFacts
  Proofs.Fk.FixedLib Proofs.Fk.MovingLibStore Proofs.Fk.MovingLibWalk Proofs.Fk.MovingLibLoops Proofs.Fk.MovingLibInv.
Local Open Scope N_scope.

(* ---------- the monitor on the three phases of a step ---------- *)

Lemma fin_events_app lib root inc : forall l1 l2 m,
  fin_events lib root inc m (l1 ++ l2) =
  match fin_events lib root inc m l1 with Some m' => fin_events lib root inc m' l2 | None => None end.
Proof.
  induction l1 as [|e l1 IH]; intros l2 m; cbn [app fin_events]; [reflexivity|].
  destruct (fin_step lib root inc m e); [apply IH | reflexivity].
Qed.

Definition with_stack (m : fin_mon) (st : cstack) : fin_mon :=
  mkFM st (fm_nfinal m) (fm_last m) (fm_any m) (fm_finals m) (fm_stalled m).

Lemma memN_false x l : ~ In x l -> memN x l = false.
Proof. intros H. destruct (memN x l) eqn:M; [|reflexivity]. apply memN_in in M. contradiction. Qed.

(* Undo / New events: the monitor follows the push/pop consumer; undone blocks must not be final *)
Lemma fin_A lib root inc : forall evA m S',
  apply_all lib (fm_stack m) evA = Some S' ->
  Forall (fun e => estep e = SUndo \/ estep e = SNew) evA ->
  (forall e, In e evA -> estep e = SUndo -> ~ In (bid (eblk e)) (fm_finals m)) ->
  fin_events lib root inc m evA = Some (with_stack m S').
Proof.
  induction evA as [|e evA IH]; intros m S' Happ Hst Hun.
  - cbn in Happ. injection Happ as <-. destruct m; reflexivity.
  - cbn [apply_all] in Happ. destruct (apply_ev lib (fm_stack m) e) as [st|] eqn:Ea; [|discriminate].
    inversion Hst as [|? ? He Hst']; subst. cbn [fin_events]. unfold fin_step.
    assert (Hgo : fin_events lib root inc (with_stack m st) evA = Some (with_stack m S')).
    { rewrite (IH (with_stack m st) S'); [reflexivity | exact Happ | exact Hst' |].
      intros e0 He0. apply Hun. right. exact He0. }
    destruct He as [He|He]; rewrite He.
    + rewrite (memN_false _ _ (Hun e (or_introl eq_refl) He)), Ea. exact Hgo.
    + rewrite Ea. exact Hgo.
Qed.

Lemma last_cons {A} (a : A) l d : last (a :: l) d = last l a.
Proof. destruct l as [|b l]; [reflexivity|]. apply (last_indep (b :: l)). discriminate. Qed.

(* Irreversible events for the blocks Fnew, which sit on the stack just above the final part Pre and form
   a parent-linked run resting on the last final block *)
Lemma fin_I lib root inc stack : forall evI Fnew Pre m rest,
  map eblk evI = Fnew -> Forall (fun e => estep e = SIrr) evI ->
  rev stack = Pre ++ Fnew ++ rest -> fm_stack m = stack -> fm_nfinal m = length Pre ->
  linked (ri (fm_last m)) Fnew ->
  (forall x, In x Fnew -> bnum x <= blib inc /\ ~ In (bid x) (fm_stalled m)) ->
  exists m', fin_events lib root inc m evI = Some m' /\
    fm_stack m' = stack /\ fm_nfinal m' = length (Pre ++ Fnew) /\
    fm_last m' = last (map bref Fnew) (fm_last m) /\
    fm_finals m' = rev (map bid Fnew) ++ fm_finals m /\ fm_stalled m' = fm_stalled m /\
    (Fnew = [] -> fm_any m' = fm_any m).
Proof.
  induction evI as [|e evI IH]; intros Fnew Pre m rest Hm Hst Hrev Hstack Hn Hlk Hx.
  - cbn [map] in Hm. subst Fnew. exists m. rewrite app_nil_r. cbn. repeat split; auto.
  - cbn [map] in Hm. destruct Fnew as [|x Fnew']; [discriminate|]. injection Hm as Hex Hm.
    pose proof (Forall_inv Hst) as He. pose proof (Forall_inv_tail Hst) as Hst'. cbn beta in He.
    subst x Fnew'.
    cbn [fin_events]. unfold fin_step. rewrite He. unfold fin_irr.
    destruct (Hx (eblk e) (or_introl eq_refl)) as [Hle Hns].
    cbn [linked] in Hlk. destruct Hlk as [Hpar Hlk].
    rewrite Hpar, N.eqb_refl, orb_true_r. cbn [negb].
    rewrite (memN_false _ _ Hns).
    replace (bnum (eblk e) <=? blib inc) with true by lia. rewrite orb_true_r. cbn [negb].
    unfold nth_from_bottom. rewrite Hstack, Hrev, Hn, nth_error_app2 by lia. rewrite Nat.sub_diag. cbn [nth_error app].
    rewrite N.eqb_refl.
    set (m1 := mkFM stack (S (length Pre)) (bref (eblk e)) true (bid (eblk e) :: fm_finals m) (fm_stalled m)).
    destruct (IH (map eblk evI) (Pre ++ [eblk e]) m1 rest eq_refl Hst') as (m' & Hrun & H1 & H2 & H3 & H4 & H5 & _).
    + rewrite Hrev, <- app_assoc. reflexivity.
    + reflexivity.
    + cbn [m1 fm_nfinal]. rewrite app_length. cbn [length]. lia.
    + exact Hlk.
    + intros x Hxin. apply Hx. right. exact Hxin.
    + exists m'. split; [exact Hrun|]. split; [exact H1|]. split.
      * rewrite H2, <- app_assoc. reflexivity.
      * split; [|split; [|split; [exact H5 | discriminate]]].
        -- cbn [map]. rewrite last_cons. exact H3.
        -- rewrite H4. cbn [m1 fm_finals map rev]. rewrite <- app_assoc. reflexivity.
Qed.

(* the first announcement when it is the starting LIB block itself *)
Lemma fin_root lib root inc m e rest : estep e = SIrr -> fm_any m = false -> bid (eblk e) = ri root ->
  fm_stalled m = [] -> rev (fm_stack m) = eblk e :: rest -> fm_nfinal m = 0%nat ->
  fin_events lib root inc m [e] =
    Some (mkFM (fm_stack m) 1 (bref (eblk e)) true (bid (eblk e) :: fm_finals m) (fm_stalled m)).
Proof.
  intros He Hany Hid Hst Hrev Hn. cbn [fin_events]. unfold fin_step. rewrite He. unfold fin_irr.
  rewrite Hany, Hid, N.eqb_refl. cbn [negb andb orb]. rewrite Hst. cbn [memN].
  unfold nth_from_bottom. rewrite Hrev, Hn. cbn [nth_error]. rewrite Hid, N.eqb_refl. reflexivity.
Qed.

Lemma existsb_bid_false x (st : cstack) : ~ In x (map bid st) -> existsb (fun y => bid y =? x) st = false.
Proof.
  intros H. destruct (existsb (fun y => bid y =? x) st) eqn:E; [|reflexivity].
  apply existsb_exists in E as (y & Hy & Ey). apply N.eqb_eq in Ey. exfalso. apply H. rewrite <- Ey. apply in_map. exact Hy.
Qed.

(* Stalled events *)
Lemma fin_S lib root inc : forall evS m,
  Forall (fun e => estep e = SStalled) evS -> NoDup (map (fun e => bid (eblk e)) evS) ->
  (forall e, In e evS -> ~ In (bid (eblk e)) (fm_finals m) /\ ~ In (bid (eblk e)) (fm_stalled m) /\
                         ~ In (bid (eblk e)) (map bid (fm_stack m)) /\ bnum (eblk e) <= rn (fm_last m)) ->
  exists m', fin_events lib root inc m evS = Some m' /\
    fm_stack m' = fm_stack m /\ fm_nfinal m' = fm_nfinal m /\ fm_last m' = fm_last m /\
    fm_finals m' = fm_finals m /\ fm_stalled m' = rev (map (fun e => bid (eblk e)) evS) ++ fm_stalled m /\
    fm_any m' = fm_any m.
Proof.
  induction evS as [|e evS IH]; intros m Hst Hnd Hx.
  - exists m. cbn. repeat split; auto.
  - inversion Hst as [|? ? He Hst']; subst. cbn [map] in Hnd. inversion Hnd as [|? ? Hni Hnd']; subst.
    destruct (Hx e (or_introl eq_refl)) as (H1 & H2 & H3 & H4).
    cbn [fin_events]. unfold fin_step. rewrite He.
    rewrite (memN_false _ _ H1), (memN_false _ _ H2), (existsb_bid_false _ _ H3).
    replace (bnum (eblk e) <=? rn (fm_last m)) with true by lia. cbn [orb negb].
    set (m1 := mkFM (fm_stack m) (fm_nfinal m) (fm_last m) (fm_any m) (fm_finals m) (bid (eblk e) :: fm_stalled m)).
    destruct (IH m1 Hst' Hnd') as (m' & Hrun & G1 & G2 & G3 & G4 & G5 & G6).
    + intros e0 He0. destruct (Hx e0 (or_intror He0)) as (K1 & K2 & K3 & K4).
      cbn [m1 fm_finals fm_stalled fm_stack fm_last]. repeat split; try assumption.
      intros [Heq|Hin]; [|contradiction]. apply Hni. rewrite Heq.
      apply (in_map (fun e => bid (eblk e))). exact He0.
    + exists m'. split; [exact Hrun|]. repeat split; try assumption.
      rewrite G5. cbn [m1 fm_stalled map rev]. rewrite <- app_assoc. reflexivity.
Qed.

(* ---------- the monitor along a run ---------- *)

Section MovingFin.
  Variable U : list block.
  Variable r0 : ref.
  Variable cfg : config.

  Hypothesis Hnofail : c_fail_at cfg = None.
  Hypothesis Hnew : f_new (c_filter cfg) = true.
  Hypothesis Hundo : f_undo (c_filter cfg) = true.
  Hypothesis Hirr : f_irr (c_filter cfg) = true.

  Hypothesis U_id : forall b, In b U -> bid b <> 0 /\ bid b <> bparent b.
  Hypothesis U_uniq : forall x y, In x U -> In y U -> bid x = bid y -> x = y.
  Hypothesis U_up : forall x y, In x U -> In y U -> bparent x = bid y -> bnum y < bnum x.
  Hypothesis L_id : ri r0 <> 0.
  Hypothesis L_num : forall y, In y U -> bid y = ri r0 -> bnum y = rn r0.
  Hypothesis L_up : forall x, In x U -> bparent x = ri r0 -> rn r0 < bnum x.
  Hypothesis L_decl : forall b, In b U -> decl_ok U r0 b.

  Notation Inv := (Inv U r0 cfg).

  Record MInv (s : fstate) (Fin : list block) (S : cstack) (m : fin_mon) : Prop := mkMInv {
    mi_stack : fm_stack m = S;
    mi_nfinal : fm_nfinal m = length Fin;
    mi_last : fm_last m = libref (db s);
    mi_finals : forall id, In id (fm_finals m) -> In id (map bid Fin) \/ id = ri r0;
    mi_stalled : forall id, In id (fm_stalled m) -> exists y, In y U /\ bid y = id /\ bnum y <= rn (libref (db s));
    mi_fresh : S = [] -> fm_any m = false /\ fm_stalled m = []
  }.

  Lemma inv_stack s Fin S : Inv s Fin S -> exists rest, rev S = Fin ++ rest.
  Proof.
    intros [_ _ _ Hh]. destruct (last_sent s) as [hd|].
    - destruct Hh as (_ & p & _ & -> & _). exists (map eb p). apply rev_involutive.
    - destruct Hh as (-> & -> & _). exists []. reflexivity.
  Qed.

  (* the last block of a non-empty final part is the LIB of the forkdb *)
  Lemma inv_last_ref s Fin F t S : Inv s Fin S -> Fin = F ++ [t] -> bref t = libref (db s).
  Proof.
    intros [Hd Hfin Hl _] ->. rewrite rev_app_distr in Hl. cbn [rev app] in Hl.
    apply Forall_app in Hfin as [_ Hfin]. pose proof (Forall_inv Hfin) as [HtU _].
    destruct (di_coh U r0 _ Hd) as (_ & Hn & _). specialize (Hn t HtU Hl).
    unfold bref. destruct (libref (db s)) as [i n]. cbn [ri rn] in *. congruence.
  Qed.

  Lemma step_fin s Fin S b m : Inv s Fin S -> MInv s Fin S m -> In b U ->
    exists s' evs Fin' S' m', fk_step cfg s b = (s', evs, ROk) /\
      fin_events (ri r0) r0 b m evs = Some m' /\ Inv s' Fin' S' /\ MInv s' Fin' S' m'.
  Proof.
    intros HI [Hms Hmn Hml Hmf Hmst Hfresh] Hb.
    destruct (step_inv U r0 cfg Hnofail Hnew Hundo U_id U_uniq U_up L_id L_num L_up L_decl s Fin S b HI Hb)
      as (s' & evA & evI & evS & Fnew & S' & Hstep & Happ & HI' & HsA & HuA & HsI & HsS & HmI & Hmono & HFnew & Hnil & Hstl & Hnd & HSS & _ & _ & _).
    rewrite Hirr in HmI.
    pose proof HI as [Hd Hfin Hflast Hh]. pose proof HI' as [Hd' Hfin' Hflast' Hh'].
    rewrite Forall_forall in Hfin, Hfin'.
    assert (Hr0L : rn r0 <= rn (libref (db s))) by (destruct (di_coh U r0 _ Hd) as (_ & _ & _ & H & _); exact H).
    exists s', (evA ++ evI ++ evS), (Fin ++ Fnew), S'.
    (* phase A *)
    assert (HA : fin_events (ri r0) r0 b m evA = Some (with_stack m S')).
    { apply fin_A; [rewrite Hms; exact Happ | exact HsA|].
      intros e He Hs Hin. destruct (HuA e He Hs) as [HeU Hen].
      apply Hmf in Hin. destruct Hin as [Hin|Hin].
      - apply in_map_iff in Hin as (x & Ex & Hx). destruct (Hfin x Hx) as [HxU Hxn].
        assert (x = eblk e) by (apply U_uniq; assumption). subst x. lia.
      - pose proof (L_num _ HeU Hin). lia. }
    destruct (inv_stack _ _ _ HI') as [rest Hrev]. rewrite <- app_assoc in Hrev.
    destruct HFnew as [[HFnew HFlk]|(Hls0 & Hbid & -> & -> & e0 & -> & He0 & Heb)].
    - (* a run of blocks above the old LIB *)
      rewrite Forall_forall in HFnew.
      destruct (fin_I (ri r0) r0 b S' evI Fnew Fin (with_stack m S') rest HmI HsI Hrev eq_refl) as
        (mI & HrunI & I1 & I2 & I3 & I4 & I5 & I6).
      { exact Hmn. }
      { cbn [with_stack fm_last]. rewrite Hml. exact HFlk. }
      { intros x Hx. destruct (HFnew x Hx) as [Hlo Hhi]. split; [exact Hhi|].
        cbn [with_stack fm_stalled]. intros Hin. destruct (Hmst _ Hin) as (y & HyU & Hyid & Hyn).
        assert (HxU : In x U) by (apply Hfin'; apply in_or_app; right; exact Hx).
        assert (y = x) by (apply U_uniq; assumption). subst y. lia. }
      cbn [with_stack fm_last fm_finals fm_stalled fm_any] in I3, I4, I5, I6.
      assert (Hlast' : fm_last mI = libref (db s')).
      { rewrite I3. destruct Fnew as [|x0 Fnew0] eqn:EF.
        - cbn [map last]. rewrite Hml. symmetry. apply Hnil. reflexivity.
        - rewrite <- EF in *. destruct (@exists_last _ Fnew) as (F' & t & Et); [rewrite EF; discriminate|].
          rewrite Et, map_app. cbn [map]. rewrite last_last.
          apply (inv_last_ref s' (Fin ++ Fnew) (Fin ++ F') t S' HI'). rewrite Et, app_assoc. reflexivity. }
      destruct (fin_S (ri r0) r0 b evS mI HsS Hnd) as (mS & HrunS & S1 & S2 & S3 & S4 & S5 & S6).
      { intros e He. destruct (Hstl e He) as (HeU & [Hlo Hhi] & Hnin).
        assert (Hsub : forall id, In id (map bid (Fin ++ Fnew)) -> In id (map bid S')).
        { intros id Hid. rewrite <- (rev_involutive S'), Hrev, map_rev, <- in_rev, app_assoc, map_app.
          apply in_or_app. left. exact Hid. }
        split; [|split; [|split]].
        - rewrite I4. intros Hin. apply Hnin. apply Hsub. rewrite map_app. apply in_app_or in Hin as [Hin|Hin].
          + apply in_or_app. right. rewrite <- in_rev in Hin. exact Hin.
          + apply Hmf in Hin. destruct Hin as [Hin|Hin]; [apply in_or_app; left; exact Hin|].
            pose proof (L_num _ HeU Hin). lia.
        - rewrite I5. intros Hin. destruct (Hmst _ Hin) as (y & HyU & Hyid & Hyn).
          assert (y = eblk e) by (apply U_uniq; assumption). subst y. lia.
        - rewrite I1. exact Hnin.
        - rewrite Hlast'. exact Hhi. }
      exists mS. split; [exact Hstep|]. split.
      { rewrite fin_events_app, HA, fin_events_app, HrunI. exact HrunS. }
      split; [exact HI'|]. constructor.
      + rewrite S1. exact I1.
      + rewrite S2. exact I2.
      + rewrite S3. exact Hlast'.
      + intros id Hin. rewrite S4, I4 in Hin. rewrite map_app. apply in_app_or in Hin as [Hin|Hin].
        * left. apply in_or_app. right. rewrite <- in_rev in Hin. exact Hin.
        * apply Hmf in Hin. destruct Hin as [Hin|Hin]; [left; apply in_or_app; left; exact Hin | right; exact Hin].
      + intros id Hin. rewrite S5, I5 in Hin. apply in_app_or in Hin as [Hin|Hin].
        * rewrite <- in_rev in Hin. apply in_map_iff in Hin as (e & <- & He).
          destruct (Hstl e He) as (HeU & [Hlo Hhi] & _). exists (eblk e). auto.
        * destruct (Hmst _ Hin) as (y & HyU & Hyid & Hyn). exists y. repeat split; try assumption. lia.
      + (* an empty stack: nothing was ever delivered *)
        intros HS'. destruct HSS as [HS0|HS1]; [|contradiction].
        assert (HFn : Fnew = []).
        { rewrite HS' in Hrev. cbn [rev] in Hrev. symmetry in Hrev. apply app_eq_nil in Hrev as [_ Hrev].
          apply app_eq_nil in Hrev as [Hrev _]. exact Hrev. }
        destruct (Hnil HFn) as [HevS _]. rewrite HevS in S5. cbn [map rev app] in S5.
        destruct (Hfresh HS0) as [Fa Fs]. rewrite S6, (I6 HFn), S5, I5. auto.
    - (* the inclusive first delivery *)
      pose proof (Hh) as Hh0. rewrite Hls0 in Hh0. destruct Hh0 as (HS0 & HF0 & _). subst Fin.
      destruct (Hfresh HS0) as [Fa Fs].
      cbn [map] in HmI. destruct evI as [|eI [|? ?]]; try discriminate. injection HmI as HeI.
      pose proof (Forall_inv HsI) as HsI1. cbn beta in HsI1. cbn [app] in Hrev.
      assert (HR : fin_events (ri r0) r0 b (with_stack m S') [eI] =
                   Some (mkFM S' 1 (bref (eblk eI)) true (bid (eblk eI) :: fm_finals m) (fm_stalled m))).
      { apply (fin_root (ri r0) r0 b (with_stack m S') eI rest); cbn [with_stack fm_any fm_stalled fm_stack fm_nfinal]; auto.
        - rewrite HeI. exact Hbid.
        - rewrite HeI. exact Hrev. }
      eexists. split; [exact Hstep|]. split.
      { rewrite fin_events_app, HA, app_nil_r. exact HR. }
      split; [exact HI'|]. rewrite HeI. constructor; cbn [fm_stack fm_nfinal fm_last fm_finals fm_stalled fm_any].
      + reflexivity.
      + reflexivity.
      + apply (inv_last_ref s' ([] ++ [b]) [] b S' HI'). reflexivity.
      + intros id [<-|Hin]; [left; left; reflexivity | apply Hmf in Hin; destruct Hin as [[]|Hin]; right; exact Hin].
      + rewrite Fs. intros id [].
      + intros HS'. rewrite HS' in Hrev. discriminate.
  Qed.

  Lemma run_c02 : forall h s Fin S m, Inv s Fin S -> MInv s Fin S m -> (forall b, In b h -> In b U) ->
    exists m', fin_trace (ri r0) r0 m h (fk_run cfg s h) = Some m'.
  Proof.
    induction h as [|b h IH]; intros s Fin S m HI HM Hh.
    - exists m. reflexivity.
    - destruct (step_fin s Fin S b m HI HM (Hh b (or_introl eq_refl))) as (s' & evs & Fin' & S' & m' & Hstep & Hrun & HI' & HM').
      cbn [fk_run]. rewrite Hstep. cbn [fin_trace]. rewrite Hrun.
      apply (IH s' Fin' S' m' HI' HM'). intros x Hx. apply Hh. right. exact Hx.
  Qed.

  Theorem moving_lib_c02 md h : rooted r0 md -> (forall b, In b h -> In b U) ->
    c02_b md h (fk_run cfg (fs_init md) h) = true.
  Proof.
    intros Hmd Hh. unfold c02_b.
    replace (root_ref md (fk_run cfg (fs_init md) h)) with r0 by (destruct Hmd as [-> | ->]; reflexivity).
    destruct (run_c02 h (fs_init md) [] [] (mkFM [] 0 r0 false [] [])
                (inv_init U r0 cfg L_id L_num L_up md Hmd)) as [m' Hm'].
    - constructor; cbn; auto; try (intros id []).
      destruct Hmd as [-> | ->]; reflexivity.
    - exact Hh.
    - rewrite Hm'. reflexivity.
  Qed.
End MovingFin.
