(* C04 (and the step description C03 needs) on the Forkable model when the LIB MOVES: every field of every
   delivered event.  The invariant and the consumer part come from Proofs/Fk/MovingLibInv.v (Inv,
   trigger_first's proof, lib_half); this file adds the explicit event lists (undo batch with its junction,
   redo batch, first deliveries, Irreversible and Stalled events), the cursor LIB (cursor_lib s = LIB of
   the fork database), and a classification of the step (StepKind) for the comparison with the
   reference fork choice. *)
From BV Require Import Base.Prelude Model.Block Model.ForkDB Model.Forkable Spec.Consumer Spec.Universe
  Spec.C04_Spec Spec.C04_Moving_Spec
  Proofs.Fk.StoreFacts Proofs.Fk.WalkFacts Proofs.Fk.LoopFacts Proofs.Fk.StoreChange Proofs.Fk.SwitchFacts
  Proofs.Fk.FixedLib Proofs.Fk.FixedLibEvents Proofs.Fk.MovingLibStore Proofs.Fk.MovingLibWalk
  Proofs.Fk.MovingLibLoops Proofs.Fk.MovingLibInv.
Local Open Scope N_scope.

(* ---------------------------------------------------------------- explicit event lists *)

Lemma irr_events_blocks head count : forall bs idx, map eblk (irr_events head count idx bs) = bs.
Proof. induction bs as [|x bs IH]; intros idx; cbn [irr_events map eblk]; [reflexivity|]. rewrite IH. reflexivity. Qed.

Lemma irr_events_step head count : forall bs idx, Forall (fun e => estep e = SIrr) (irr_events head count idx bs).
Proof. induction bs as [|x bs IH]; intros idx; cbn [irr_events]; constructor; [reflexivity | apply IH]. Qed.

Lemma stalled_events_blocks head lib count : forall bs idx, map eblk (stalled_events head lib count idx bs) = bs.
Proof. induction bs as [|x bs IH]; intros idx; cbn [stalled_events map eblk]; [reflexivity|]. rewrite IH. reflexivity. Qed.

Lemma stalled_events_step head lib count : forall bs idx,
  Forall (fun e => estep e = SStalled) (stalled_events head lib count idx bs).
Proof. induction bs as [|x bs IH]; intros idx; cbn [stalled_events]; constructor; [reflexivity | apply IH]. Qed.

(* two descriptions of the same list as (Irreversible events) ++ (Stalled events) coincide *)
Lemma split_irr_stalled : forall (a1 a2 b1 b2 : list event),
  a1 ++ b1 = a2 ++ b2 ->
  Forall (fun e => estep e = SIrr) a1 -> Forall (fun e => estep e = SIrr) a2 ->
  Forall (fun e => estep e = SStalled) b1 -> Forall (fun e => estep e = SStalled) b2 ->
  a1 = a2 /\ b1 = b2.
Proof.
  induction a1 as [|x a1 IH]; intros a2 b1 b2 E H1 H2 H3 H4.
  - destruct a2 as [|y a2]; [split; [reflexivity | exact E]|].
    cbn [app] in E. subst b1. pose proof (Forall_inv H3) as Hs. pose proof (Forall_inv H2) as Hi. cbn beta in *. congruence.
  - destruct a2 as [|y a2].
    + cbn [app] in E. subst b2. pose proof (Forall_inv H4) as Hs. pose proof (Forall_inv H1) as Hi. cbn beta in *. congruence.
    + cbn [app] in E. injection E as -> E.
      destruct (IH a2 b1 b2 E (Forall_inv_tail H1) (Forall_inv_tail H2) H3 H4) as [-> ->]. split; reflexivity.
Qed.

(* ---------------------------------------------------------------- the Irreversible / Stalled loops, events exposed *)

Section NoFailLate.
  Variable cfg : config.
  Hypothesis Hnofail : c_fail_at cfg = None.

  Lemma process_irr_loop_ev head count : forall l idx s acc,
    exists s', process_irr_loop cfg head count idx l s acc =
                 (s', acc ++ irr_events head count idx (map (fun b => eb (sent b)) l), true) /\
               same_but_calls s s'.
  Proof.
    induction l as [|b rest IH]; intros idx s acc.
    - exists s. cbn [process_irr_loop map irr_events]. rewrite app_nil_r. repeat split.
    - cbn [process_irr_loop]. rewrite (call_ok cfg Hnofail). cbv beta iota zeta.
      set (s1 := mkFS (db s) (last_sent s) (last_lib_seen s) (ncalls s + 1)).
      set (ev := mkEv SIrr (eb (sent b)) (bref (eb (sent b))) head (bref (eb (sent b))) None idx count).
      destruct (IH (idx + 1) s1 (acc ++ [ev])) as (s' & Heq & (H1 & H2 & H3)).
      exists s'. rewrite Heq, <- app_assoc. cbn [app map irr_events]. split; [reflexivity|]. repeat split; assumption.
  Qed.

  Lemma process_irr_segment_ev irr b0 irr' head s : irr = b0 :: irr' ->
    exists s', process_irr_segment cfg irr head s =
                 (s', (if f_irr (c_filter cfg)
                       then irr_events head (N.of_nat (length irr)) 0 (map (fun b => eb (sent b)) irr) else []), true) /\
      db s' = db s /\ last_sent s' = last_sent s /\ last_lib_seen s' = seg_ref (last irr b0).
  Proof.
    intros ->. unfold process_irr_segment. destruct (f_irr (c_filter cfg)).
    - destruct (process_irr_loop_ev head (N.of_nat (length (b0 :: irr'))) (b0 :: irr') 0 s []) as (s' & -> & (H1 & H2 & H3)).
      cbn [app]. cbv beta iota. eexists. split; [reflexivity|]. cbn [db last_sent last_lib_seen]. repeat split; assumption.
    - cbv beta iota. eexists. split; [reflexivity|]. cbn [db last_sent last_lib_seen]. repeat split.
  Qed.

  Lemma process_stalled_loop_ev head count : forall l idx s acc,
    Forall (fun sg => seg_ref sg = bref (eb (sent sg))) l ->
    exists s', process_stalled_loop cfg head count idx l s acc =
                 (s', acc ++ stalled_events head (last_lib_seen s) count idx (map (fun b => eb (sent b)) l), true) /\
               same_but_calls s s'.
  Proof.
    induction l as [|b rest IH]; intros idx s acc Hr.
    - exists s. cbn [process_stalled_loop map stalled_events]. rewrite app_nil_r. repeat split.
    - cbn [process_stalled_loop]. rewrite (call_ok cfg Hnofail). cbv beta iota zeta.
      set (s1 := mkFS (db s) (last_sent s) (last_lib_seen s) (ncalls s + 1)).
      set (ev := mkEv SStalled (eb (sent b)) (seg_ref b) head (last_lib_seen s) None idx count).
      destruct (IH (idx + 1) s1 (acc ++ [ev]) (Forall_inv_tail Hr)) as (s' & Heq & (H1 & H2 & H3)).
      exists s'. rewrite Heq, <- app_assoc. cbn [app map stalled_events]. unfold ev. rewrite (Forall_inv Hr).
      split; [reflexivity|]. repeat split; assumption.
  Qed.

  Lemma process_stalled_segment_ev l head s :
    Forall (fun sg => seg_ref sg = bref (eb (sent sg))) l ->
    exists s', process_stalled_segment cfg l head s =
                 (s', (if f_stalled (c_filter cfg)
                       then stalled_events head (last_lib_seen s) (N.of_nat (length l)) 0 (map (fun b => eb (sent b)) l) else []), true) /\
               same_but_calls s s'.
  Proof.
    intros Hr. unfold process_stalled_segment. destruct (f_stalled (c_filter cfg)).
    - destruct (process_stalled_loop_ev head (N.of_nat (length l)) l 0 s [] Hr) as (s' & -> & Hs). cbn [app]. exists s'. auto.
    - exists s. repeat split.
  Qed.
End NoFailLate.

(* the references of the stalled segments are the references of their blocks *)
Lemma stalled_refs d blocks :
  Forall (fun sg => seg_ref sg = bref (eb (sent sg))) (stalled_in_segment d blocks).
Proof.
  destruct blocks as [|b0 rest] eqn:E; [constructor|]. rewrite <- E.
  apply Forall_forall. intros sg Hsg.
  destruct (stalled_in d blocks b0 rest sg E Hsg) as (e & _ & -> & _). reflexivity.
Qed.

(* ---------------------------------------------------------------- the first half of process_tail, events exposed *)

Definition undo_evs (L : ref) (b : block) (junc : option ref) (undone : list block) : list event :=
  batch_events SUndo (bref b) L junc (N.of_nat (length undone)) 0 undone.

Definition new_evs (L : ref) (b : block) (redone fresh : list block) : list event :=
  batch_events SNew (bref b) L None (N.of_nat (length redone)) 0 redone ++ fresh_events (bref b) L fresh.

Lemma undo_evs_blocks L b junc undone : map eblk (undo_evs L b junc undone) = undone.
Proof. apply batch_events_blocks. Qed.

Lemma undo_evs_step L b junc undone : Forall (fun e => estep e = SUndo) (undo_evs L b junc undone).
Proof. apply batch_events_step. Qed.

Lemma new_evs_blocks L b redone fresh : map eblk (new_evs L b redone fresh) = redone ++ fresh.
Proof. unfold new_evs. rewrite map_app, batch_events_blocks, fresh_events_blocks. reflexivity. Qed.

Lemma new_evs_step L b redone fresh : Forall (fun e => estep e = SNew) (new_evs L b redone fresh).
Proof. unfold new_evs. apply Forall_app. split; [apply batch_events_step | apply fresh_events_step]. Qed.

Section MovingEv.
  Variable U : list block.
  Variable r0 : ref.
  Variable cfg : config.

  Hypothesis Hnofail : c_fail_at cfg = None.
  Hypothesis Hnew : f_new (c_filter cfg) = true.
  Hypothesis Hundo : f_undo (c_filter cfg) = true.

  Hypothesis U_id : forall b, In b U -> bid b <> 0 /\ bparent b <> 0 /\ bid b <> bparent b.
  Hypothesis U_uniq : forall x y, In x U -> In y U -> bid x = bid y -> x = y.
  Hypothesis U_up : forall x y, In x U -> In y U -> bparent x = bid y -> bnum y < bnum x.
  Hypothesis L_id : ri r0 <> 0.
  Hypothesis L_num : forall y, In y U -> bid y = ri r0 -> bnum y = rn r0.
  Hypothesis L_up : forall x, In x U -> bparent x = ri r0 -> rn r0 < bnum x.
  Hypothesis L_decl : forall b, In b U -> decl_ok U r0 b.

  Notation first := (c_first cfg).
  Notation in_U := (in_U U).
  Notation Inv := (Inv U r0 cfg).
  Notation DbInv := (DbInv U r0).
  Notation lib_tail := (lib_tail cfg).
  Notation incl_first := (incl_first cfg).

  Lemma process_tail_first_ev s1 b undos redos junc longest fi : longest <> [] ->
    Forall (fun sg => seg_ref sg = bref (eb (sent sg))) longest ->
    seg_ref (last longest (mkSeg 0 0 (mkEntry b false))) = bref b ->
    exists s3,
      process_tail cfg s1 b undos redos junc longest fi =
        lib_tail s3 b (undo_evs (cursor_lib s1) b junc (map eb undos) ++
                       new_evs (cursor_lib s1) b (map eb redos) (map (fun sg => eb (sent sg)) (unsent longest))) fi /\
      store (db s3) = mark_all (store (db s1)) (unsent longest) /\
      extra (db s3) = extra (db s1) /\ libref (db s3) = libref (db s1) /\
      last_sent s3 = match rev (unsent longest) with sg :: _ => Some (eb (sent sg)) | [] => last_sent s1 end /\
      last_lib_seen s3 = last_lib_seen s1.
  Proof.
    intros Hne Hrefs Hhead. unfold process_tail. rewrite Hundo, Hnew.
    destruct (process_blocks_ev cfg Hnofail b undos SUndo junc s1) as (sa & -> & (Ha1 & Ha2 & Ha3) & Ha4).
    cbn [negb matches_undo].
    destruct (process_blocks_ev cfg Hnofail b redos SNew None sa) as (sb & -> & (Hb1 & Hb2 & Hb3) & Hb4).
    cbn [negb matches_undo].
    unfold process_new_blocks. destruct longest as [|b0 lrest] eqn:Hlong; [congruence|]. rewrite <- Hlong in *.
    destruct (process_new_loop_ev cfg Hnofail Hnew (seg_ref (last longest b0)) longest sb [] Hrefs) as
      (s3 & Hrun & Hst & Hex & Hlib & Hlls & Hlast & Hnc).
    cbn [app] in Hrun. rewrite Hlong in Hrun at 1. rewrite <- Hlong in Hrun. rewrite Hrun. cbn [negb].
    rewrite Hb1, Ha1 in Hst, Hex, Hlib. rewrite Hb2, Ha2 in Hlast. rewrite Hb3, Ha3 in Hlls.
    assert (Hca : cursor_lib sa = cursor_lib s1) by (apply cursor_lib_same; congruence).
    assert (Hcb : cursor_lib sb = cursor_lib s1) by (apply cursor_lib_same; congruence).
    assert (Hhd : seg_ref (last longest b0) = bref b).
    { rewrite <- Hhead. f_equal. apply last_default. rewrite Hlong. discriminate. }
    rewrite Hca, Hcb, Hhd.
    exists s3. split; [|repeat split; assumption].
    unfold lib_tail, MovingLibInv.lib_tail, undo_evs, new_evs. rewrite !map_length.
    destruct (last_sent s3) as [ls|]; [|reflexivity].
    destruct (negb (has_lib (db s3))); [reflexivity|].
    destruct (block_in_chain (db s3) (bref ls) (blib ls)) as [libr|]; [|reflexivity].
    destruct (ri libr =? 0); [reflexivity|].
    destruct (has_new_irr_segment (db s3) first libr) as [[[hn irr] st]|]; reflexivity.
  Qed.
  (* ---------------------------------------------------------------- the triggering step, first half *)

  (* MovingLibInv.trigger_first with the delivered events written out *)
  Lemma trigger_first_ev s1 Fin S b pP C R Uh junc fi :
    Inv s1 Fin S -> In b U ->
    chain (store (db s1)) (bid b) (ri (libref (db s1))) (pP ++ [mkEntry b false]) ->
    pP = C ++ R ->
    Forall (fun e => esent e = true) C ->
    S = rev (Fin ++ map eb (C ++ Uh)) ->
    exists s3 Rs Ru,
      R = Rs ++ Ru /\
      process_tail cfg s1 b (rev Uh) (filter esent R) junc (map seg_of (pP ++ [mkEntry b false])) fi
        = lib_tail s3 b (undo_evs (cursor_lib s1) b junc (rev (map eb Uh)) ++
                         new_evs (cursor_lib s1) b (map eb Rs) (map eb (Ru ++ [mkEntry b false]))) fi /\
      apply_all (ri r0) S (undo_evs (cursor_lib s1) b junc (rev (map eb Uh)) ++
                           new_evs (cursor_lib s1) b (map eb Rs) (map eb (Ru ++ [mkEntry b false])))
        = Some (rev (Fin ++ map eb (pP ++ [mkEntry b false]))) /\
      Inv s3 Fin (rev (Fin ++ map eb (pP ++ [mkEntry b false]))) /\
      keys (store (db s3)) = keys (store (db s1)) /\ last_sent s3 = Some b /\
      libref (db s3) = libref (db s1) /\ last_lib_seen s3 = last_lib_seen s1.
  Proof.
    intros HI Hb Hc HP HC HS.
    pose proof HI as [Hd Hfin Hflast Hh]. pose proof Hd as [Hnd HU Hcoh Hnum Hextra Hlc].
    set (en := mkEntry b false) in *. set (q := pP ++ [en]) in *.
    assert (Hq : forall e, In e q -> In e (store (db s1))) by (intros e He; eapply chain_in; eassumption).
    assert (HcP : chain (store (db s1)) (bparent b) (ri (libref (db s1))) pP).
    { destruct (chain_snoc_inv _ _ _ _ _ Hc) as (_ & _ & H). exact H. }
    rewrite HP in HcP.
    destruct (sent_prefix' U r0 cfg U_id U_up L_id _ _ C R Hd HcP HC) as (Rs & Ru & HR & HRs & HRu).
    destruct (filter_sent_split Rs Ru HRs HRu) as [F1 F2].
    assert (Hun : filter (fun e => negb (esent e)) q = Ru ++ [en]).
    { unfold q. rewrite HP, HR, !filter_app, (filter_unsent_nil C HC), <- filter_app, F2. reflexivity. }
    destruct (process_tail_first_ev s1 b (rev Uh) (filter esent R) junc (map seg_of q) fi) as
      (s3 & Hrun & Hst & Hex & Hlr & Hls & Hlls).
    { unfold q. destruct pP; discriminate. }
    { apply seg_of_refs. }
    { unfold q. rewrite map_app. cbn [map]. rewrite last_last. reflexivity. }
    assert (EF : map eb (filter esent R) = map eb Rs) by (rewrite HR, F1; reflexivity).
    rewrite map_rev, unsent_map, map_sent_seg_of, Hun, EF in Hrun.
    set (evU := undo_evs (cursor_lib s1) b junc (rev (map eb Uh))) in *.
    set (evRN := new_evs (cursor_lib s1) b (map eb Rs) (map eb (Ru ++ [en]))) in *.
    exists s3, Rs, Ru. split; [exact HR|]. split; [exact Hrun|].
    pose proof (dbinv_marked U r0 cfg U_id U_uniq U_up L_id L_num L_up L_decl (db s1) (db s3) (bid b) q Hd Hc Hst Hex Hlr) as Hd3.
    assert (Hls' : last_sent s3 = Some b).
    { rewrite Hls, unsent_map, Hun, map_app, rev_app_distr. reflexivity. }
    assert (Hkeys : keys (store (db s3)) = keys (store (db s1))) by (rewrite Hst; apply mark_all_keys).
    pose proof (inv_linked U r0 cfg s1 Fin S _ _ HI Hc) as Hlk. fold q in Hlk.
    assert (HmU : map eblk evU = map eb (rev Uh)) by (unfold evU; rewrite undo_evs_blocks, map_rev; reflexivity).
    assert (HsU : Forall (fun e => estep e = SUndo) evU) by apply undo_evs_step.
    assert (HsRN : Forall (fun e => estep e = SNew) evRN) by apply new_evs_step.
    assert (HmRN : map eblk evRN = map eb (R ++ [en])).
    { unfold evRN. rewrite new_evs_blocks, HR, <- map_app, app_assoc. reflexivity. }
    split; [|split; [|repeat split; assumption]].
    - (* the consumer *)
      rewrite HS, map_app, app_assoc, rev_app_distr.
      rewrite (apply_all_app _ _ evU _ (rev (Fin ++ map eb C))).
      2:{ apply apply_undos; [exact HsU | rewrite HmU, map_rev; reflexivity]. }
      assert (Hq2 : Fin ++ map eb q = (Fin ++ map eb C) ++ map eb (R ++ [en])).
      { unfold q. rewrite HP, <- (app_assoc C R), (map_app eb C), app_assoc. reflexivity. }
      fold evRN. rewrite (apply_news (ri r0) evRN (map eb (R ++ [en])) (rev (Fin ++ map eb C))).
      + f_equal. rewrite Hq2. symmetry. apply rev_app_distr.
      + exact HsRN.
      + exact HmRN.
      + assert (Hq3 : map eb q = map eb C ++ map eb (R ++ [en])).
        { unfold q. rewrite HP, <- (app_assoc C R), (map_app eb C). reflexivity. }
        rewrite Hq3 in Hlk. apply linked_split in Hlk as [_ Hlk]. rewrite rev_app_distr. unfold tipid in Hlk.
        destruct (rev (map eb C)) as [|t r]; cbn [app]; [destruct (rev Fin); exact Hlk | exact Hlk].
    - (* the invariant *)
      set (g := flag_if (map sid (unsent (map seg_of q)))).
      pose proof (l3_chain _ q _ _ _ Hc) as Hc3. fold g in Hc3.
      constructor.
      + exact Hd3.
      + rewrite Hlr. exact Hfin.
      + rewrite Hlr. exact Hflast.
      + rewrite Hls'. split; [exact Hb|]. exists (map g q). rewrite Hst, Hlr. split; [exact Hc3|]. split.
        * do 2 f_equal. rewrite map_map. apply map_ext. intros a. symmetry. apply flag_if_eb.
        * apply Forall_forall. intros a Ha. apply in_map_iff in Ha as (a0 & <- & Ha0).
          apply (g_sent_q q a0 Ha0).
  Qed.
End MovingEv.
