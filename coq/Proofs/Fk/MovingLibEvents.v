(* C04 (and the step description C03 needs) on the Forkable model when the LIB MOVES: every field of every
   delivered event.  The invariant and the consumer part come from Proofs/Fk/MovingLibInv.v (Inv,
   trigger_first's proof, lib_half); this file adds the explicit event lists (undo batch with its junction,
   redo batch, first deliveries, Irreversible and Stalled events), the cursor LIB (cursor_lib s = LIB of
   the fork database), and a classification of the step (StepKind) for the comparison with the
   reference fork choice. *)
From BV Require Import Base.Prelude Model.Block Model.ForkDB Model.Forkable Spec.Consumer Spec.Universe
  Spec.C04_Spec Spec.C04_Moving_Spec
  Proofs.Fk.StoreFacts Proofs.Fk.WalkFacts Proofs.Fk.LoopFacts Proofs.Fk.StoreChange Proofs.Fk.SwitchFacts
  Proofs.Fk.FixedLib Proofs.Fk.FixedLibEvents Proofs.Fk.MovingLibStore Proofs.Fk.MovingLibWalk
  Proofs.Fk.MovingLibLoops Proofs.Fk.MovingLibInv.
Local Open Scope N_scope.

(* ---------------------------------------------------------------- explicit event lists *)

Lemma irr_events_blocks head count : forall bs idx, map eblk (irr_events head count idx bs) = bs.
Proof. induction bs as [|x bs IH]; intros idx; cbn [irr_events map eblk]; [reflexivity|]. rewrite IH. reflexivity. Qed.

Lemma irr_events_step head count : forall bs idx, Forall (fun e => estep e = SIrr) (irr_events head count idx bs).
Proof. induction bs as [|x bs IH]; intros idx; cbn [irr_events]; constructor; [reflexivity | apply IH]. Qed.

Lemma stalled_events_blocks head lib count : forall bs idx, map eblk (stalled_events head lib count idx bs) = bs.
Proof. induction bs as [|x bs IH]; intros idx; cbn [stalled_events map eblk]; [reflexivity|]. rewrite IH. reflexivity. Qed.

Lemma stalled_events_step head lib count : forall bs idx,
  Forall (fun e => estep e = SStalled) (stalled_events head lib count idx bs).
Proof. induction bs as [|x bs IH]; intros idx; cbn [stalled_events]; constructor; [reflexivity | apply IH]. Qed.

(* two descriptions of the same list as (Irreversible events) ++ (Stalled events) coincide *)
Lemma split_irr_stalled : forall (a1 a2 b1 b2 : list event),
  a1 ++ b1 = a2 ++ b2 ->
  Forall (fun e => estep e = SIrr) a1 -> Forall (fun e => estep e = SIrr) a2 ->
  Forall (fun e => estep e = SStalled) b1 -> Forall (fun e => estep e = SStalled) b2 ->
  a1 = a2 /\ b1 = b2.
Proof.
  induction a1 as [|x a1 IH]; intros a2 b1 b2 E H1 H2 H3 H4.
  - destruct a2 as [|y a2]; [split; [reflexivity | exact E]|].
    cbn [app] in E. subst b1. pose proof (Forall_inv H3) as Hs. pose proof (Forall_inv H2) as Hi. cbn beta in *. congruence.
  - destruct a2 as [|y a2].
    + cbn [app] in E. subst b2. pose proof (Forall_inv H4) as Hs. pose proof (Forall_inv H1) as Hi. cbn beta in *. congruence.
    + cbn [app] in E. injection E as -> E.
      destruct (IH a2 b1 b2 E (Forall_inv_tail H1) (Forall_inv_tail H2) H3 H4) as [-> ->]. split; reflexivity.
Qed.

(* ---------------------------------------------------------------- the Irreversible / Stalled loops, events exposed *)

Section NoFailLate.
  Variable cfg : config.
  Hypothesis Hnofail : c_fail_at cfg = None.

  Lemma process_irr_loop_ev head count : forall l idx s acc,
    exists s', process_irr_loop cfg head count idx l s acc =
                 (s', acc ++ irr_events head count idx (map (fun b => eb (sent b)) l), true) /\
               same_but_calls s s'.
  Proof.
    induction l as [|b rest IH]; intros idx s acc.
    - exists s. cbn [process_irr_loop map irr_events]. rewrite app_nil_r. repeat split.
    - cbn [process_irr_loop]. rewrite (call_ok cfg Hnofail). cbv beta iota zeta.
      set (s1 := mkFS (db s) (last_sent s) (last_lib_seen s) (ncalls s + 1)).
      set (ev := mkEv SIrr (eb (sent b)) (bref (eb (sent b))) head (bref (eb (sent b))) None idx count).
      destruct (IH (idx + 1) s1 (acc ++ [ev])) as (s' & Heq & (H1 & H2 & H3)).
      exists s'. rewrite Heq, <- app_assoc. cbn [app map irr_events]. split; [reflexivity|]. repeat split; assumption.
  Qed.

  Lemma process_irr_segment_ev irr b0 irr' head s : irr = b0 :: irr' ->
    exists s', process_irr_segment cfg irr head s =
                 (s', (if f_irr (c_filter cfg)
                       then irr_events head (N.of_nat (length irr)) 0 (map (fun b => eb (sent b)) irr) else []), true) /\
      db s' = db s /\ last_sent s' = last_sent s /\ last_lib_seen s' = seg_ref (last irr b0).
  Proof.
    intros ->. unfold process_irr_segment. destruct (f_irr (c_filter cfg)).
    - destruct (process_irr_loop_ev head (N.of_nat (length (b0 :: irr'))) (b0 :: irr') 0 s []) as (s' & -> & (H1 & H2 & H3)).
      cbn [app]. cbv beta iota. eexists. split; [reflexivity|]. cbn [db last_sent last_lib_seen]. repeat split; assumption.
    - cbv beta iota. eexists. split; [reflexivity|]. cbn [db last_sent last_lib_seen]. repeat split.
  Qed.

  Lemma process_stalled_loop_ev head count : forall l idx s acc,
    Forall (fun sg => seg_ref sg = bref (eb (sent sg))) l ->
    exists s', process_stalled_loop cfg head count idx l s acc =
                 (s', acc ++ stalled_events head (last_lib_seen s) count idx (map (fun b => eb (sent b)) l), true) /\
               same_but_calls s s'.
  Proof.
    induction l as [|b rest IH]; intros idx s acc Hr.
    - exists s. cbn [process_stalled_loop map stalled_events]. rewrite app_nil_r. repeat split.
    - cbn [process_stalled_loop]. rewrite (call_ok cfg Hnofail). cbv beta iota zeta.
      set (s1 := mkFS (db s) (last_sent s) (last_lib_seen s) (ncalls s + 1)).
      set (ev := mkEv SStalled (eb (sent b)) (seg_ref b) head (last_lib_seen s) None idx count).
      destruct (IH (idx + 1) s1 (acc ++ [ev]) (Forall_inv_tail Hr)) as (s' & Heq & (H1 & H2 & H3)).
      exists s'. rewrite Heq, <- app_assoc. cbn [app map stalled_events]. unfold ev. rewrite (Forall_inv Hr).
      split; [reflexivity|]. repeat split; assumption.
  Qed.

  Lemma process_stalled_segment_ev l head s :
    Forall (fun sg => seg_ref sg = bref (eb (sent sg))) l ->
    exists s', process_stalled_segment cfg l head s =
                 (s', (if f_stalled (c_filter cfg)
                       then stalled_events head (last_lib_seen s) (N.of_nat (length l)) 0 (map (fun b => eb (sent b)) l) else []), true) /\
               same_but_calls s s'.
  Proof.
    intros Hr. unfold process_stalled_segment. destruct (f_stalled (c_filter cfg)).
    - destruct (process_stalled_loop_ev head (N.of_nat (length l)) l 0 s [] Hr) as (s' & -> & Hs). cbn [app]. exists s'. auto.
    - exists s. repeat split.
  Qed.
End NoFailLate.

(* the references of the stalled segments are the references of their blocks *)
Lemma stalled_refs d blocks :
  Forall (fun sg => seg_ref sg = bref (eb (sent sg))) (stalled_in_segment d blocks).
Proof.
  destruct blocks as [|b0 rest] eqn:E; [constructor|]. rewrite <- E.
  apply Forall_forall. intros sg Hsg.
  destruct (stalled_in d blocks b0 rest sg E Hsg) as (e & _ & -> & _). reflexivity.
Qed.

(* ---------------------------------------------------------------- the first half of process_tail, events exposed *)

Definition undo_evs (L : ref) (b : block) (junc : option ref) (undone : list block) : list event :=
  batch_events SUndo (bref b) L junc (N.of_nat (length undone)) 0 undone.

Definition new_evs (L : ref) (b : block) (redone fresh : list block) : list event :=
  batch_events SNew (bref b) L None (N.of_nat (length redone)) 0 redone ++ fresh_events (bref b) L fresh.

Lemma undo_evs_blocks L b junc undone : map eblk (undo_evs L b junc undone) = undone.
Proof. apply batch_events_blocks. Qed.

Lemma undo_evs_step L b junc undone : Forall (fun e => estep e = SUndo) (undo_evs L b junc undone).
Proof. apply batch_events_step. Qed.

Lemma new_evs_blocks L b redone fresh : map eblk (new_evs L b redone fresh) = redone ++ fresh.
Proof. unfold new_evs. rewrite map_app, batch_events_blocks, fresh_events_blocks. reflexivity. Qed.

Lemma new_evs_step L b redone fresh : Forall (fun e => estep e = SNew) (new_evs L b redone fresh).
Proof. unfold new_evs. apply Forall_app. split; [apply batch_events_step | apply fresh_events_step]. Qed.

Section MovingEv.
  Variable U : list block.
  Variable r0 : ref.
  Variable cfg : config.

  Hypothesis Hnofail : c_fail_at cfg = None.
  Hypothesis Hnew : f_new (c_filter cfg) = true.
  Hypothesis Hundo : f_undo (c_filter cfg) = true.

  Hypothesis U_id : forall b, In b U -> bid b <> 0 /\ bid b <> bparent b.
  Hypothesis U_uniq : forall x y, In x U -> In y U -> bid x = bid y -> x = y.
  Hypothesis U_up : forall x y, In x U -> In y U -> bparent x = bid y -> bnum y < bnum x.
  Hypothesis L_id : ri r0 <> 0.
  Hypothesis L_num : forall y, In y U -> bid y = ri r0 -> bnum y = rn r0.
  Hypothesis L_up : forall x, In x U -> bparent x = ri r0 -> rn r0 < bnum x.
  Hypothesis L_decl : forall b, In b U -> decl_ok U r0 b.

  Notation first := (c_first cfg).
  Notation in_U := (in_U U).
  Notation Inv := (Inv U r0 cfg).
  Notation DbInv := (DbInv U r0).
  Notation lib_tail := (lib_tail cfg).
  Notation incl_first := (incl_first cfg).

  Lemma process_tail_first_ev s1 b undos redos junc longest fi : longest <> [] ->
    Forall (fun sg => seg_ref sg = bref (eb (sent sg))) longest ->
    seg_ref (last longest (mkSeg 0 0 (mkEntry b false))) = bref b ->
    exists s3,
      process_tail cfg s1 b undos redos junc longest fi =
        lib_tail s3 b (undo_evs (cursor_lib s1) b junc (map eb undos) ++
                       new_evs (cursor_lib s1) b (map eb redos) (map (fun sg => eb (sent sg)) (unsent longest))) fi /\
      store (db s3) = mark_all (store (db s1)) (unsent longest) /\
      extra (db s3) = extra (db s1) /\ libref (db s3) = libref (db s1) /\
      last_sent s3 = match rev (unsent longest) with sg :: _ => Some (eb (sent sg)) | [] => last_sent s1 end /\
      last_lib_seen s3 = last_lib_seen s1.
  Proof.
    intros Hne Hrefs Hhead. unfold process_tail. rewrite Hundo, Hnew.
    destruct (process_blocks_ev cfg Hnofail b undos SUndo junc s1) as (sa & -> & (Ha1 & Ha2 & Ha3) & Ha4).
    cbn [negb matches_undo].
    destruct (process_blocks_ev cfg Hnofail b redos SNew None sa) as (sb & -> & (Hb1 & Hb2 & Hb3) & Hb4).
    cbn [negb matches_undo].
    unfold process_new_blocks. destruct longest as [|b0 lrest] eqn:Hlong; [congruence|]. rewrite <- Hlong in *.
    destruct (process_new_loop_ev cfg Hnofail Hnew (seg_ref (last longest b0)) longest sb [] Hrefs) as
      (s3 & Hrun & Hst & Hex & Hlib & Hlls & Hlast & Hnc).
    cbn [app] in Hrun. rewrite Hlong in Hrun at 1. rewrite <- Hlong in Hrun. rewrite Hrun. cbn [negb].
    rewrite Hb1, Ha1 in Hst, Hex, Hlib. rewrite Hb2, Ha2 in Hlast. rewrite Hb3, Ha3 in Hlls.
    assert (Hca : cursor_lib sa = cursor_lib s1) by (apply cursor_lib_same; congruence).
    assert (Hcb : cursor_lib sb = cursor_lib s1) by (apply cursor_lib_same; congruence).
    assert (Hhd : seg_ref (last longest b0) = bref b).
    { rewrite <- Hhead. f_equal. apply last_default. rewrite Hlong. discriminate. }
    rewrite Hca, Hcb, Hhd.
    exists s3. split; [|repeat split; assumption].
    unfold lib_tail, MovingLibInv.lib_tail, undo_evs, new_evs. rewrite !map_length.
    destruct (last_sent s3) as [ls|]; [|reflexivity].
    destruct (negb (has_lib (db s3))); [reflexivity|].
    destruct (block_in_chain (db s3) (bref ls) (blib ls)) as [libr|]; [|reflexivity].
    destruct (ri libr =? 0); [reflexivity|].
    destruct (has_new_irr_segment (db s3) first libr) as [[[hn irr] st]|]; reflexivity.
  Qed.
  (* ---------------------------------------------------------------- the triggering step, first half *)

  (* MovingLibInv.trigger_first with the delivered events written out *)
  Lemma trigger_first_ev s1 Fin S b pP C R Uh junc fi :
    Inv s1 Fin S -> In b U ->
    chain (store (db s1)) (bid b) (ri (libref (db s1))) (pP ++ [mkEntry b false]) ->
    pP = C ++ R ->
    Forall (fun e => esent e = true) C ->
    S = rev (Fin ++ map eb (C ++ Uh)) ->
    exists s3 Rs Ru,
      R = Rs ++ Ru /\
      process_tail cfg s1 b (rev Uh) (filter esent R) junc (map seg_of (pP ++ [mkEntry b false])) fi
        = lib_tail s3 b (undo_evs (cursor_lib s1) b junc (rev (map eb Uh)) ++
                         new_evs (cursor_lib s1) b (map eb Rs) (map eb (Ru ++ [mkEntry b false]))) fi /\
      apply_all (ri r0) S (undo_evs (cursor_lib s1) b junc (rev (map eb Uh)) ++
                           new_evs (cursor_lib s1) b (map eb Rs) (map eb (Ru ++ [mkEntry b false])))
        = Some (rev (Fin ++ map eb (pP ++ [mkEntry b false]))) /\
      Inv s3 Fin (rev (Fin ++ map eb (pP ++ [mkEntry b false]))) /\
      keys (store (db s3)) = keys (store (db s1)) /\ last_sent s3 = Some b /\
      libref (db s3) = libref (db s1) /\ last_lib_seen s3 = last_lib_seen s1 /\
      Forall (fun e => esent e = true) Rs /\ Forall (fun e => esent e = false) Ru /\
      store (db s3) = mark_all (store (db s1)) (unsent (map seg_of (pP ++ [mkEntry b false]))) /\
      extra (db s3) = extra (db s1).
  Proof.
    intros HI Hb Hc HP HC HS.
    pose proof HI as [Hd Hfin Hflast Hh]. pose proof Hd as [Hnd HU Hcoh Hnum Hextra Hlc Hrt].
    set (en := mkEntry b false) in *. set (q := pP ++ [en]) in *.
    assert (Hq : forall e, In e q -> In e (store (db s1))) by (intros e He; eapply chain_in; eassumption).
    assert (HcP : chain (store (db s1)) (bparent b) (ri (libref (db s1))) pP).
    { destruct (chain_snoc_inv _ _ _ _ _ Hc) as (_ & _ & H). exact H. }
    rewrite HP in HcP.
    destruct (sent_prefix' U r0 cfg U_id U_up L_id _ _ C R Hd HcP HC) as (Rs & Ru & HR & HRs & HRu).
    destruct (filter_sent_split Rs Ru HRs HRu) as [F1 F2].
    assert (Hun : filter (fun e => negb (esent e)) q = Ru ++ [en]).
    { unfold q. rewrite HP, HR, !filter_app, (filter_unsent_nil C HC), <- filter_app, F2. reflexivity. }
    destruct (process_tail_first_ev s1 b (rev Uh) (filter esent R) junc (map seg_of q) fi) as
      (s3 & Hrun & Hst & Hex & Hlr & Hls & Hlls).
    { unfold q. destruct pP; discriminate. }
    { apply seg_of_refs. }
    { unfold q. rewrite map_app. cbn [map]. rewrite last_last. reflexivity. }
    assert (EF : map eb (filter esent R) = map eb Rs) by (rewrite HR, F1; reflexivity).
    rewrite map_rev, unsent_map, map_sent_seg_of, Hun, EF in Hrun.
    set (evU := undo_evs (cursor_lib s1) b junc (rev (map eb Uh))) in *.
    set (evRN := new_evs (cursor_lib s1) b (map eb Rs) (map eb (Ru ++ [en]))) in *.
    exists s3, Rs, Ru. split; [exact HR|]. split; [exact Hrun|].
    pose proof (dbinv_marked U r0 cfg U_id U_uniq U_up L_id L_num L_up L_decl (db s1) (db s3) (bid b) q Hd Hc Hst Hex Hlr) as Hd3.
    assert (Hls' : last_sent s3 = Some b).
    { rewrite Hls, unsent_map, Hun, map_app, rev_app_distr. reflexivity. }
    assert (Hkeys : keys (store (db s3)) = keys (store (db s1))) by (rewrite Hst; apply mark_all_keys).
    pose proof (inv_linked U r0 cfg s1 Fin S _ _ HI Hc) as Hlk. fold q in Hlk.
    assert (HmU : map eblk evU = map eb (rev Uh)) by (unfold evU; rewrite undo_evs_blocks, map_rev; reflexivity).
    assert (HsU : Forall (fun e => estep e = SUndo) evU) by apply undo_evs_step.
    assert (HsRN : Forall (fun e => estep e = SNew) evRN) by apply new_evs_step.
    assert (HmRN : map eblk evRN = map eb (R ++ [en])).
    { unfold evRN. rewrite new_evs_blocks, HR, <- map_app, app_assoc. reflexivity. }
    split; [|split; [|repeat split; assumption]].
    - (* the consumer *)
      rewrite HS, map_app, app_assoc, rev_app_distr.
      rewrite (apply_all_app _ _ evU _ (rev (Fin ++ map eb C))).
      2:{ apply apply_undos; [exact HsU | rewrite HmU, map_rev; reflexivity]. }
      assert (Hq2 : Fin ++ map eb q = (Fin ++ map eb C) ++ map eb (R ++ [en])).
      { unfold q. rewrite HP, <- (app_assoc C R), (map_app eb C), app_assoc. reflexivity. }
      fold evRN. rewrite (apply_news (ri r0) evRN (map eb (R ++ [en])) (rev (Fin ++ map eb C))).
      + f_equal. rewrite Hq2. symmetry. apply rev_app_distr.
      + exact HsRN.
      + exact HmRN.
      + assert (Hq3 : map eb q = map eb C ++ map eb (R ++ [en])).
        { unfold q. rewrite HP, <- (app_assoc C R), (map_app eb C). reflexivity. }
        rewrite Hq3 in Hlk. apply linked_split in Hlk as [_ Hlk]. rewrite rev_app_distr. unfold tipid in Hlk.
        destruct (rev (map eb C)) as [|t r]; cbn [app]; [destruct (rev Fin); exact Hlk | exact Hlk].
    - (* the invariant *)
      set (g := flag_if (map sid (unsent (map seg_of q)))).
      pose proof (l3_chain _ q _ _ _ Hc) as Hc3. fold g in Hc3.
      constructor.
      + exact Hd3.
      + rewrite Hlr. exact Hfin.
      + rewrite Hlr. exact Hflast.
      + rewrite Hls'. split; [exact Hb|]. exists (map g q). rewrite Hst, Hlr. split; [exact Hc3|]. split.
        * do 2 f_equal. rewrite map_map. apply map_ext. intros a. symmetry. apply flag_if_eb.
        * apply Forall_forall. intros a Ha. apply in_map_iff in Ha as (a0 & <- & Ha0).
          apply (g_sent_q q a0 Ha0).
  Qed.
  (* ---------------------------------------------------------------- the triggering step, second half *)

  Definition late_evs (b : block) (L' : ref) (finals stalled : list block) : list event :=
    irr_events (bref b) (N.of_nat (length finals)) 0 finals ++
    stalled_events (bref b) L' (N.of_nat (length stalled)) 0 stalled.

  Lemma late_evs_inert b L' finals stalled :
    Forall (fun e => estep e = SIrr \/ estep e = SStalled) (late_evs b L' finals stalled).
  Proof.
    unfold late_evs. apply Forall_app. split.
    - eapply Forall_impl; [|apply irr_events_step]. cbn beta. auto.
    - eapply Forall_impl; [|apply stalled_events_step]. cbn beta. auto.
  Qed.

  (* the LIB half of process_tail, computed: nothing happens when the head declares a LIB at or below the
     current one; otherwise the LIB moves to the chain entry at the declared height *)
  Lemma lib_tail_cases s3 Fin S3 b evs :
    Inv s3 Fin S3 -> last_sent s3 = Some b -> In b U -> bid b <> ri (libref (db s3)) ->
    (blib b <= rn (libref (db s3)) /\ lib_tail s3 b evs None = (s3, evs, ROk)) \/
    (rn (libref (db s3)) < blib b /\
     exists A a B s',
       chain (store (db s3)) (bid b) (ri (libref (db s3))) (A ++ a :: B) /\ bnum (eb a) = blib b /\
       lib_tail s3 b evs None =
         (s', evs ++ late_evs b (mkR (key a) (bnum (eb a)))
                       (if f_irr (c_filter cfg) then map eb (A ++ [a]) else [])
                       (if f_stalled (c_filter cfg)
                        then map (fun sg => eb (sent sg)) (stalled_in_segment (db s3) (map seg_of (A ++ [a]))) else []), ROk) /\
       db s' = purge_before_lib (move_lib (db s3) (mkR (key a) (bnum (eb a)))) (c_kept cfg) /\
       last_lib_seen s' = mkR (key a) (bnum (eb a))).
  Proof.
    intros HI Hls Hb Hne.
    pose proof HI as [Hd Hfin Hflast Hh]. rewrite Hls in Hh. destruct Hh as (_ & p & Hc & HS & Hsent).
    pose proof Hd as [Hnd HU Hcoh Hnum Hextra Hlc Hrt].
    pose proof (di_wf U r0 U_id U_up _ Hd) as Hwf. pose proof (di_lid U r0 _ Hd) as Hlid. pose proof (di_up U r0 _ Hd) as Hup.
    destruct p as [|et p' _] using rev_ind.
    { apply chain_nil_inv in Hc. contradiction. }
    destruct (chain_top _ _ _ _ _ Hc) as [Hf Hk].
    assert (Eet : eb et = b) by (apply (stored_is_self U U_uniq _ _ _ HU Hb Hf)).
    unfold lib_tail, MovingLibInv.lib_tail. cbv beta iota zeta. rewrite Hls, (di_has_lib U r0 _ Hd). cbn [negb].
    destruct (N.le_gt_cases (blib b) (rn (libref (db s3)))) as [Hle|Hgt].
    - left. split; [exact Hle|].
      destruct (bic_dead (db s3) Hwf Hlid Hnum Hup Hextra (bid b) (p' ++ [et]) et (blib b) Hc) as (r & Hr & Hdead);
        [destruct p'; discriminate | exact Hf | exact Hle |].
      rewrite Eet in Hr. fold (bref b) in Hr.
      rewrite Hr. destruct (no_new_irr (db s3) first Hwf Hlid Hup r Hdead) as [Hz|Hno].
      + rewrite Hz, N.eqb_refl. reflexivity.
      + destruct (ri r =? 0); [reflexivity|]. rewrite Hno. reflexivity.
    - right. split; [exact Hgt|].
      assert (Hdec : decl_ok U r0 (eb et)) by (rewrite Eet; apply L_decl; exact Hb).
      rewrite <- Eet in Hgt.
      destruct (decl_split U r0 cfg U_id U_uniq U_up L_id L_num L_up L_decl _ _ p' (bid b) et HU Hcoh Hc Hdec Hgt) as (A & a & B & Heq & Hna).
      rewrite Eet in Hna, Hgt. rewrite Heq in Hc.
      pose proof (bic_find (db s3) _ _ A a B et Hwf Hc Hf) as Hbic. rewrite Eet in Hbic. fold (bref b) in Hbic.
      rewrite <- Hna. rewrite Hbic. cbn [ri].
      assert (Hain : In a (A ++ a :: B)) by (apply in_or_app; right; left; reflexivity).
      assert (Ha : In a (store (db s3))) by (eapply chain_in; eassumption).
      destruct (N.eqb_spec (key a) 0) as [E0|_]; [exfalso; apply (proj1 (ws_id _ Hwf a Ha)); exact E0|].
      rewrite (new_irr_on_chain (db s3) first Hwf Hlid Hnum Hup _ A a B Hc). cbn [negb andb]. cbv zeta.
      set (d' := purge_before_lib (move_lib (db s3) (mkR (key a) (bnum (eb a)))) (c_kept cfg)).
      remember (map seg_of (A ++ [a])) as irr eqn:Eirr.
      assert (Hirr : exists b0 irr', irr = b0 :: irr').
      { rewrite Eirr, map_app. destruct (map seg_of A); cbn [app map]; eauto. }
      destruct Hirr as (b0 & irr' & Hirr).
      set (stalled := stalled_in_segment (db s3) irr).
      destruct (process_irr_segment_ev cfg Hnofail irr b0 irr' (bref b) (with_db s3 d') Hirr)
        as (s5 & Hrun5 & Hdb5 & Hls5 & Hlls5).
      rewrite Hrun5. cbv beta iota. cbn [negb].
      destruct (process_stalled_segment_ev cfg Hnofail stalled (bref b) s5 (stalled_refs _ _))
        as (s6 & Hrun6 & (Hdb6 & Hls6 & Hlls6)).
      rewrite Hrun6. cbv beta iota.
      assert (Hl5 : last_lib_seen s5 = mkR (key a) (bnum (eb a))).
      { rewrite Hlls5, Eirr, map_app. cbn [map]. rewrite last_last. reflexivity. }
      exists A, a, B, s6. split; [exact Hc|]. split; [reflexivity|]. split; [|split].
      + unfold late_evs. rewrite Hl5. subst stalled. subst irr. rewrite map_sent_seg_of.
        destruct (f_irr (c_filter cfg)), (f_stalled (c_filter cfg)); rewrite ?map_length; reflexivity.
      + rewrite Hdb6, Hdb5. reflexivity.
      + rewrite Hlls6. exact Hl5.
  Qed.

  (* the second half with everything exposed: MovingLibInv.lib_half for the invariant, lib_tail_cases for
     the events *)
  Lemma lib_half_ev s3 Fin S3 b evs :
    Inv s3 Fin S3 -> last_sent s3 = Some b -> In b U -> bid b <> ri (libref (db s3)) ->
    exists s' Fnew stalled,
      lib_tail s3 b evs None =
        (s', evs ++ late_evs b (libref (db s')) (if f_irr (c_filter cfg) then Fnew else []) stalled, ROk) /\
      Inv s' (Fin ++ Fnew) S3 /\ last_sent s' = Some b /\
      ((Fnew = [] /\ s' = s3 /\ stalled = [] /\ blib b <= rn (libref (db s3))) \/
       (Fnew <> [] /\ rn (libref (db s3)) < blib b /\ rn (libref (db s')) = blib b /\
        last_lib_seen s' = libref (db s') /\ extra (db s') = None)) /\
      Forall (fun x => rn (libref (db s3)) < bnum x /\ bnum x <= blib b) Fnew /\
      linked (ri (libref (db s3))) Fnew /\
      (forall x, In x U -> In (bid x) (keys (store (db s3))) ->
                 In (bid x) (keys (store (db s'))) \/ bnum x < rn (libref (db s'))) /\
      (forall id, In id (keys (store (db s'))) -> In id (keys (store (db s3)))) /\
      (Fnew <> [] -> exists A a B,
         chain (store (db s3)) (bid b) (ri (libref (db s3))) (A ++ a :: B) /\ bnum (eb a) = blib b /\
         Fnew = map eb (A ++ [a]) /\
         stalled = (if f_stalled (c_filter cfg)
                    then map (fun sg => eb (sent sg)) (stalled_in_segment (db s3) (map seg_of (A ++ [a]))) else []) /\
         db s' = purge_before_lib (move_lib (db s3) (mkR (key a) (bnum (eb a)))) (c_kept cfg) /\
         last_lib_seen s' = mkR (key a) (bnum (eb a))).
  Proof.
    intros HI Hls Hb Hne.
    destruct (lib_half U r0 cfg Hnofail U_id U_uniq U_up L_id L_num L_up L_decl s3 Fin S3 b evs HI Hls Hb Hne)
      as (s' & evI & evS & Fnew & Hres & HI' & Hls' & HsI & HsS & HmI & Hmono & HFnew & HFlk & Hnil & Hst & Hnd & Hkeys).
    destruct (lib_tail_cases s3 Fin S3 b evs HI Hls Hb Hne) as [[Hle Hrun]|(Hgt & A & a & B & s6 & Hc & Hna & Hrun & Hdb & Hlls)].
    - rewrite Hrun in Hres. injection Hres as <- Hev.
      assert (HF : Fnew = []).
      { destruct Fnew as [|x F]; [reflexivity|]. pose proof (Forall_inv HFnew) as [H1 H2]. cbn beta in *. lia. }
      subst Fnew. exists s3, [], []. split.
      { unfold late_evs. destruct (f_irr (c_filter cfg)); cbn [irr_events stalled_events length app]; rewrite app_nil_r; exact Hrun. }
      split; [exact HI'|]. split; [exact Hls|]. split; [left; auto|].
      split; [constructor|]. split; [exact I|]. split; [intros x Hx Hk; left; exact Hk|]. split; [auto | congruence].
    - rewrite Hrun in Hres. injection Hres as <- Hev.
      apply app_inv_head in Hev. unfold late_evs in Hev.
      apply split_irr_stalled in Hev as [HeI HeS];
        [| apply irr_events_step | exact HsI | apply stalled_events_step | exact HsS].
      assert (Hlib : libref (db s6) = mkR (key a) (bnum (eb a))) by (rewrite Hdb; reflexivity).
      assert (Hfin : (if f_irr (c_filter cfg) then map eb (A ++ [a]) else []) = (if f_irr (c_filter cfg) then Fnew else [])).
      { destruct (f_irr (c_filter cfg)); [|reflexivity]. rewrite <- HmI, <- HeI, irr_events_blocks. reflexivity. }
      exists s6, Fnew, (if f_stalled (c_filter cfg)
                        then map (fun sg => eb (sent sg)) (stalled_in_segment (db s3) (map seg_of (A ++ [a]))) else []).
      split; [rewrite Hrun, Hlib, Hfin; reflexivity|].
      split; [exact HI'|]. split; [exact Hls'|]. split.
      { right. assert (HFne : Fnew <> []).
        { intros HF. destruct (Hnil HF) as [Hs _]. rewrite Hs in Hlib. rewrite Hlib in Hgt. cbn [rn] in Hgt. lia. }
        split; [exact HFne|]. split; [exact Hgt|]. split; [rewrite Hlib; exact Hna|].
        split; [rewrite Hlls, Hlib; reflexivity | rewrite Hdb; reflexivity]. }
      split; [exact HFnew|]. split; [exact HFlk|]. split; [exact Hkeys|].
      split; [intros id Hid; rewrite Hdb in Hid; cbn [purge_before_lib store] in Hid; eapply in_filter_keys; exact Hid|].
      intros _. exists A, a, B. split; [exact Hc|]. split; [exact Hna|].
      split; [|split; [reflexivity | split; [exact Hdb | exact Hlls]]].
      pose proof HI as [Hd3 _ _ Hh3]. rewrite Hls in Hh3. destruct Hh3 as (_ & p3 & Hc3 & HS3 & _).
      pose proof (chain_det _ _ _ _ _ Hc3 Hc) as ->.
      pose proof HI' as [_ _ _ Hh']. rewrite Hls' in Hh'. destruct Hh' as (_ & p' & Hc' & HS' & _).
      destruct (dbinv_purge U r0 cfg U_id U_uniq U_up L_id L_num L_up L_decl (db s3) (bid b) A a B (c_kept cfg) Hd3 Hc) as (_ & _ & _ & HcB).
      rewrite Hdb in Hc'. cbn [purge_before_lib move_lib libref ri] in Hc'.
      pose proof (chain_det _ _ _ _ _ Hc' HcB) as ->.
      rewrite HS3 in HS'. apply (f_equal (@rev block)) in HS'. rewrite !rev_involutive in HS'.
      rewrite <- app_assoc in HS'. apply app_inv_head in HS'.
      replace (A ++ a :: B) with ((A ++ [a]) ++ B) in HS' by (rewrite <- app_assoc; reflexivity).
      rewrite map_app in HS'. apply app_inv_tail in HS'. symmetry. exact HS'.
  Qed.
  (* ---------------------------------------------------------------- one ProcessBlock call, everything exposed *)

  (* the cursor LIB is the LIB of the fork database; once a block is final the LIB block is stored *)
  Record Ext (s : fstate) (Fin : list block) : Prop := mkExt {
    x_cur : cursor_lib s = libref (db s);
    x_lib : Fin <> [] -> In (ri (libref (db s))) (keys (store (db s)))
  }.

  Lemma ext_init m : rooted r0 m -> Ext (fs_init m) [].
  Proof.
    intros [-> | ->]; (constructor; [|intros H; congruence]); unfold cursor_lib; cbn.
    - unfold is_empty. destruct (N.eqb_spec (ri r0) 0); [contradiction|]. rewrite andb_false_r. reflexivity.
    - reflexivity.
  Qed.

  Definition has_chain (l : list entry) (y : N) (b : block) : Prop :=
    exists pP, chain l (bid b) y (pP ++ [mkEntry b false]).

  (* what kind of step it was (for the comparison with the reference fork choice) *)
  Inductive StepKind (s s' : fstate) (Fin Fnew : list block) (S S' : cstack) (b : block) : Prop :=
  | SkSame : dropped s b = true \/ (incl_first s b = false /\ In (bid b) (keys (store (db s)))) ->
             s' = s -> S' = S -> Fnew = [] -> StepKind s s' Fin Fnew S S' b
  | SkRoot : dropped s b = false -> incl_first s b = true -> ~ In (bid b) (keys (store (db s))) ->
             keys (store (db s')) = keys (store (db s)) ++ [bid b] -> libref (db s') = libref (db s) ->
             last_sent s' = Some b -> S = [] -> S' = [b] -> Fin = [] -> Fnew = [b] ->
             StepKind s s' Fin Fnew S S' b
  | SkStored : dropped s b = false -> incl_first s b = false -> ~ In (bid b) (keys (store (db s))) ->
               keys (store (db s')) = keys (store (db s)) ++ [bid b] -> libref (db s') = libref (db s) ->
               triggers cfg s b = false \/ ~ has_chain (store (db s) ++ [mkEntry b false]) (ri (libref (db s))) b ->
               S' = S -> last_sent s' = last_sent s -> Fnew = [] -> StepKind s s' Fin Fnew S S' b
  | SkTrig : dropped s b = false -> incl_first s b = false -> ~ In (bid b) (keys (store (db s))) ->
             triggers cfg s b = true -> has_chain (store (db s) ++ [mkEntry b false]) (ri (libref (db s))) b ->
             (exists T, S' = b :: T) -> last_sent s' = Some b ->
             (Fnew = [] /\ blib b <= rn (libref (db s)) /\ libref (db s') = libref (db s) /\
              keys (store (db s')) = keys (store (db s)) ++ [bid b]) \/
             (Fnew <> [] /\ rn (libref (db s)) < blib b /\ rn (libref (db s')) = blib b /\
              (forall x, In x U -> In (bid x) (keys (store (db s)) ++ [bid b]) ->
                         In (bid x) (keys (store (db s'))) \/ bnum x < rn (libref (db s'))) /\
              (forall id, In id (keys (store (db s'))) -> In id (keys (store (db s)) ++ [bid b]))) ->
             StepKind s s' Fin Fnew S S' b.

  Definition StepEv (s : fstate) (Fin : list block) (S : cstack) (b : block)
             (res : fstate * list event * result) : Prop :=
    exists s' Fnew S' kept undone redone fresh stalled,
      res = (s', undo_evs (libref (db s)) b (junction_of r0 (lib_stored r0 s) undone kept) undone ++
                 new_evs (libref (db s)) b redone fresh ++
                 late_evs b (libref (db s')) (if f_irr (c_filter cfg) then Fnew else []) stalled, ROk) /\
      S = undone ++ kept /\ S' = rev (redone ++ fresh) ++ kept /\
      apply_all (ri r0) S (undo_evs (libref (db s)) b (junction_of r0 (lib_stored r0 s) undone kept) undone ++
                           new_evs (libref (db s)) b redone fresh) = Some S' /\
      Forall (fun x => In x U /\ rn (libref (db s)) <= bnum x) (redone ++ fresh) /\
      Inv s' (Fin ++ Fnew) S' /\ Ext s' (Fin ++ Fnew) /\
      ascending (rn (libref (db s))) Fnew /\ rn (libref (db s)) <= rn (libref (db s')) /\
      libref (db s') = last (map bref Fnew) (libref (db s)) /\
      (Fin <> [] -> undone = [] \/ kept <> []) /\
      (last_sent s' = last_sent s -> undone = [] /\ redone = [] /\ fresh = [] /\ stalled = [] /\ Fnew = []) /\
      StepKind s s' Fin Fnew S S' b.

  Lemma late_evs_nil b L' : late_evs b L' (if f_irr (c_filter cfg) then [] else []) [] = [].
  Proof. destruct (f_irr (c_filter cfg)); reflexivity. Qed.

  (* a call that delivers nothing *)
  Lemma stepev_quiet s s' Fin S b : Inv s' Fin S -> Ext s' Fin -> libref (db s') = libref (db s) ->
    StepKind s s' Fin [] S S b -> StepEv s Fin S b (s', [], ROk).
  Proof.
    intros HI HX Hl Hk. exists s', [], S, S, [], [], [], [].
    rewrite late_evs_nil, app_nil_r. cbn [undo_evs new_evs batch_events fresh_events length map app rev].
    split; [reflexivity|]. split; [reflexivity|]. split; [reflexivity|]. split; [reflexivity|].
    split; [constructor|]. rewrite app_nil_r. split; [exact HI|]. split; [exact HX|]. split; [exact I|]. split; [rewrite Hl; lia|].
    split; [exact Hl|]. split; [left; reflexivity|]. split; [auto | exact Hk].
  Qed.

  (* heights ascend along a parent-linked run of blocks of the universe *)
  Lemma linked_ascending : forall l y n, linked y l -> (forall x, In x l -> In x U) ->
    match l with x :: _ => n <= bnum x | [] => True end -> ascending n l.
  Proof.
    induction l as [|x l IH]; intros y n Hl HU H0; cbn [ascending]; [exact I|].
    split; [exact H0|]. cbn [linked] in Hl. destruct Hl as [_ Hl].
    apply (IH (bid x)); [exact Hl | intros z Hz; apply HU; right; exact Hz|].
    destruct l as [|x2 l']; [exact I|]. cbn [linked] in Hl. destruct Hl as [Hp _].
    pose proof (U_up x2 x (HU x2 (or_intror (or_introl eq_refl))) (HU x (or_introl eq_refl)) Hp). lia.
  Qed.

  (* the junction the model computes is the block the consumer stack rests on after the undo batch *)
  Lemma junction_moving s Fin S C Uh : Inv s Fin S -> Ext s Fin ->
    match Uh with
    | [] => None
    | _ :: _ => match rev C with
                | ej :: _ => Some (bref (eb ej))
                | [] => match find (ri (libref (db s))) (store (db s)) with
                        | Some e => Some (mkR (ri (libref (db s))) (bnum (eb e)))
                        | None => None
                        end
                end
    end = junction_of r0 (lib_stored r0 s) (rev (map eb Uh)) (rev (Fin ++ map eb C)).
  Proof.
    intros HI HX. pose proof HI as [Hd Hfin Hflast _]. pose proof Hd as [Hnd HU Hcoh Hnum Hextra Hlc Hrt].
    unfold junction_of. destruct Uh as [|u Uh']; [reflexivity|].
    assert (Hne : rev (map eb (u :: Uh')) <> []) by (cbn [map rev]; destruct (rev (map eb Uh')); discriminate).
    destruct (rev (map eb (u :: Uh'))) as [|x xs]; [congruence|].
    rewrite rev_app_distr, <- map_rev. destruct (rev C) as [|ej rc]; cbn [map app]; [|reflexivity].
    destruct (rev Fin) as [|t rf] eqn:ER.
    - (* nothing final yet: the LIB is the starting LIB *)
      rewrite Hflast. unfold lib_stored. destruct (find (ri r0) (store (db s))) as [e|] eqn:F.
      + replace (memN (ri r0) (keys (store (db s)))) with true.
        * pose proof (find_some _ _ _ F) as [Hin Hk]. rewrite (L_num (eb e) (HU e Hin) Hk). destruct r0; reflexivity.
        * symmetry. apply memN_in. apply find_is_some_in. eauto.
      + replace (memN (ri r0) (keys (store (db s)))) with false; [reflexivity|].
        symmetry. apply find_none in F. destruct (memN (ri r0) (keys (store (db s)))) eqn:M; [|reflexivity].
        apply memN_in in M. contradiction.
    - (* the stack rests on the last final block, which is the stored LIB block *)
      assert (HFne : Fin <> []) by (intros E; rewrite E in ER; discriminate).
      pose proof (x_lib _ _ HX HFne) as Hin. apply find_is_some_in in Hin as [e He]. rewrite He.
      assert (Ht : In t Fin) by (apply in_rev; rewrite ER; left; reflexivity).
      rewrite Forall_forall in Hfin. destruct (Hfin t Ht) as [HtU _].
      pose proof (find_some _ _ _ He) as [Hein Hk]. unfold key in Hk.
      assert (eb e = t) by (apply U_uniq; [apply HU; exact Hein | exact HtU | congruence]). subst t.
      unfold bref. rewrite Hk. reflexivity.
  Qed.

  Lemma cursor_not_empty s' : ri (last_lib_seen s') <> 0 -> cursor_lib s' = last_lib_seen s'.
  Proof.
    intros H. unfold cursor_lib, is_empty. destruct (N.eqb_spec (ri (last_lib_seen s')) 0); [contradiction|].
    rewrite andb_false_r. reflexivity.
  Qed.

  (* the last block of a non-empty final part is the LIB of the forkdb *)
  Lemma inv_last_ref s Fin F t S : Inv s Fin S -> Fin = F ++ [t] -> bref t = libref (db s).
  Proof.
    intros [Hd Hfin Hl _] ->. rewrite rev_app_distr in Hl. cbn [rev app] in Hl.
    apply Forall_app in Hfin as [_ Hfin]. pose proof (Forall_inv Hfin) as [HtU _].
    destruct (di_coh U r0 _ Hd) as (_ & Hn & _). specialize (Hn t HtU Hl).
    unfold bref. destruct (libref (db s)) as [i n]. cbn [ri rn] in *. congruence.
  Qed.

  Lemma inv_lib_last s' Fin Fnew S' L : Inv s' (Fin ++ Fnew) S' -> (Fnew = [] -> libref (db s') = L) ->
    libref (db s') = last (map bref Fnew) L.
  Proof.
    intros HI H0. destruct Fnew as [|x0 F0] eqn:EF; [cbn [map last]; apply H0; reflexivity|]. rewrite <- EF in *.
    destruct (@exists_last _ Fnew) as (F' & t & Et); [rewrite EF; discriminate|].
    rewrite Et, map_app. cbn [map]. rewrite last_last. symmetry.
    apply (inv_last_ref s' (Fin ++ Fnew) (Fin ++ F') t S' HI). rewrite Et, app_assoc. reflexivity.
  Qed.

  (* assembling a triggering step from its two halves *)
  Lemma step_finish_ev s Fin S b s3 pP C Rs Ru Uh :
    Inv s Fin S -> Ext s Fin -> In b U -> ~ In (bid b) (keys (store (db s))) ->
    dropped s b = false -> incl_first s b = false -> triggers cfg s b = true ->
    DbInv (new_db (db s) b) ->
    chain (store (db s) ++ [mkEntry b false]) (bid b) (ri (libref (db s))) (pP ++ [mkEntry b false]) ->
    pP = C ++ Rs ++ Ru -> S = rev (Fin ++ map eb (C ++ Uh)) ->
    apply_all (ri r0) S
      (undo_evs (libref (db s)) b (junction_of r0 (lib_stored r0 s) (rev (map eb Uh)) (rev (Fin ++ map eb C))) (rev (map eb Uh)) ++
       new_evs (libref (db s)) b (map eb Rs) (map eb (Ru ++ [mkEntry b false])))
      = Some (rev (Fin ++ map eb (pP ++ [mkEntry b false]))) ->
    Inv s3 Fin (rev (Fin ++ map eb (pP ++ [mkEntry b false]))) ->
    keys (store (db s3)) = keys (store (db s)) ++ [bid b] -> last_sent s3 = Some b ->
    libref (db s3) = libref (db s) -> last_lib_seen s3 = last_lib_seen s ->
    StepEv s Fin S b
      (lib_tail s3 b
         (undo_evs (libref (db s)) b (junction_of r0 (lib_stored r0 s) (rev (map eb Uh)) (rev (Fin ++ map eb C))) (rev (map eb Uh)) ++
          new_evs (libref (db s)) b (map eb Rs) (map eb (Ru ++ [mkEntry b false]))) None).
  Proof.
    intros HI HX Hb Hk Hdr Hni Htr Hd1 Hc HP HS Happ HI3 Hk3 Hls3 Hl3 Hlls3.
    set (en := mkEntry b false) in *.
    destruct (chain_snoc_inv _ _ _ _ _ Hc) as (Hne & _ & _).
    assert (Hne3 : bid b <> ri (libref (db s3))) by (rewrite Hl3; exact Hne).
    destruct (lib_half_ev s3 Fin _ b
                (undo_evs (libref (db s)) b (junction_of r0 (lib_stored r0 s) (rev (map eb Uh)) (rev (Fin ++ map eb C))) (rev (map eb Uh)) ++
                 new_evs (libref (db s)) b (map eb Rs) (map eb (Ru ++ [en]))) HI3 Hls3 Hb Hne3)
      as (s' & Fnew & stalled & Hrun & HI' & Hls' & Hcase & HFnew & HFlk & Hkeys & Hsub & _).
    rewrite Hl3 in *.
    pose proof HI' as [Hd' Hfin' _ _].
    exists s', Fnew, (rev (Fin ++ map eb (pP ++ [en]))), (rev (Fin ++ map eb C)), (rev (map eb Uh)), (map eb Rs),
           (map eb (Ru ++ [en])), stalled.
    split; [rewrite Hrun, <- app_assoc; reflexivity|].
    split; [rewrite HS, map_app, app_assoc, rev_app_distr; reflexivity|].
    split.
    { rewrite HP, <- map_app, <- rev_app_distr. f_equal.
      rewrite <- !app_assoc, !map_app, <- ?app_assoc. reflexivity. }
    split; [exact Happ|].
    split.
    { rewrite <- map_app. apply Forall_forall. intros x Hx. apply in_map_iff in Hx as (e & <- & He).
      assert (Hin : In e (pP ++ [en])).
      { rewrite HP, <- !app_assoc. apply in_or_app. right. exact He. }
      split.
      - apply (di_inU U r0 _ Hd1). cbn [new_db store]. eapply chain_in; [exact Hc | exact Hin].
      - pose proof (di_above U r0 U_id U_up _ Hd1 (bid b) (pP ++ [en])) as Hab. cbn [new_db store libref] in Hab.
        specialize (Hab Hc e Hin). lia. }
    split; [exact HI'|].
    assert (HFU : forall x, In x Fnew -> In x U).
    { intros x Hx. rewrite Forall_forall in Hfin'. apply Hfin'. apply in_or_app. right. exact Hx. }
    split.
    { destruct Hcase as [(-> & -> & _ & _)|(HFne & Hgt & Hrn & Hlls' & Hex')].
      - rewrite app_nil_r. constructor.
        + unfold cursor_lib. rewrite Hlls3, Hl3. exact (x_cur _ _ HX).
        + intros HF. rewrite Hl3, Hk3. apply in_or_app. left. exact (x_lib _ _ HX HF).
      - constructor.
        + rewrite <- Hlls'. apply cursor_not_empty. rewrite Hlls'. exact (di_lid U r0 _ Hd').
        + intros _. pose proof (di_num U r0 _ Hd') as Hn. unfold num_of in Hn. rewrite Hex' in Hn.
          destruct (find (ri (libref (db s'))) (store (db s'))) as [e|] eqn:F; [|discriminate].
          apply find_is_some_in. eauto. }
    split.
    { apply (linked_ascending Fnew (ri (libref (db s)))); [exact HFlk | exact HFU|].
      destruct Fnew as [|x F]; [exact I|]. pose proof (Forall_inv HFnew) as [H1 _]. cbn beta in H1. lia. }
    split.
    { destruct Hcase as [(_ & -> & _ & _)|(_ & Hgt & Hrn & _)]; [rewrite Hl3; lia | lia]. }
    split.
    { apply (inv_lib_last s' Fin Fnew _ _ HI'). intros HF.
      destruct Hcase as [(_ & -> & _ & _)|(HFne & _)]; [exact Hl3 | contradiction]. }
    split.
    { intros HF. right. intros E. apply (f_equal (@rev block)) in E. rewrite rev_involutive in E. cbn [rev] in E.
      apply app_eq_nil in E as [E _]. contradiction. }
    split.
    { intros E. exfalso. rewrite Hls' in E. symmetry in E.
      pose proof (i_head _ _ _ _ _ _ HI) as Hh. rewrite E in Hh. destruct Hh as (_ & p & Hcp & _).
      destruct p as [|e0 p0 _] using rev_ind.
      - apply chain_nil_inv in Hcp. contradiction.
      - destruct (chain_top _ _ _ _ _ Hcp) as [Hf0 _]. apply Hk. apply find_is_some_in. eauto. }
    apply SkTrig; try assumption.
    - exists pP. exact Hc.
    - rewrite map_app, app_assoc, rev_app_distr. cbn [map rev app eb en]. eauto.
    - destruct Hcase as [(HF & -> & _ & Hle)|(HFne & Hgt & Hrn & _ & _)].
      + left. auto.
      + right. split; [exact HFne|]. split; [exact Hgt|]. split; [exact Hrn|]. split.
        * intros x Hx Hin. apply Hkeys; [exact Hx | rewrite Hk3; exact Hin].
        * intros id Hid. rewrite <- Hk3. apply Hsub. exact Hid.
  Qed.
  (* the inclusive first delivery: New + Irreversible for the starting LIB block itself *)
  Lemma step_root_ev s Fin S b : Inv s Fin S -> Ext s Fin -> In b U -> dropped s b = false ->
    incl_first s b = true -> StepEv s Fin S b (fk_step cfg s b).
  Proof.
    intros HI HX Hb Hd Hinc0. pose proof HI as [Hdb Hfin Hflast Hh]. pose proof Hinc0 as Hinc.
    unfold MovingLibInv.incl_first in Hinc. apply andb_true_iff in Hinc as [Hinc Hid]. apply andb_true_iff in Hinc as [Hci Hls].
    destruct (last_sent s) as [hd|] eqn:Els; [discriminate|]. destruct Hh as (-> & -> & Hall & Hroot).
    cbn [rev] in Hflast. apply N.eqb_eq in Hid. rewrite Hflast in Hid.
    specialize (Hroot Hci).
    assert (Hf : find (bid b) (store (db s)) = None) by (rewrite Hid; exact Hroot).
    assert (Hk : ~ In (bid b) (keys (store (db s)))) by (apply find_none; exact Hf).
    destruct (U_id b Hb) as (H1 & H3).
    pose proof (x_cur _ _ HX) as Hcur.
    unfold fk_step. destruct (N.eqb_spec (bid b) (bparent b)); [contradiction|].
    pose proof Hd as Hd0. unfold dropped in Hd. rewrite Els in *. rewrite Hd, Hci, Hflast.
    replace (bid b =? ri r0) with true by (symmetry; apply N.eqb_eq; exact Hid). cbn [andb].
    rewrite (add_link_new U U_id _ _ Hb Hf). cbn [fst].
    pose proof (dbinv_add U r0 _ _ Hdb Hb Hf) as Hdb1.
    set (s1 := with_db s (new_db (db s) b)).
    assert (Hcur1 : cursor_lib s1 = r0) by (rewrite <- Hflast, <- Hcur; reflexivity).
    unfold process_initial_inclusive. rewrite Hnew, (call_ok cfg Hnofail). cbv beta iota zeta.
    set (tiny := mkSeg (bid b) (bnum b) (mkEntry b false)).
    set (ev := mkEv SNew b (seg_ref tiny) (seg_ref tiny) (cursor_lib s1) None 0 0).
    set (s1' := mkFS (db (mkFS (db s1) (last_sent s1) (last_lib_seen s1) (ncalls s1 + 1))) (Some b)
                     (last_lib_seen (mkFS (db s1) (last_sent s1) (last_lib_seen s1) (ncalls s1 + 1)))
                     (ncalls (mkFS (db s1) (last_sent s1) (last_lib_seen s1) (ncalls s1 + 1)))).
    destruct (process_irr_segment_ev cfg Hnofail [tiny] tiny [] (bref b) s1' eq_refl)
      as (s2 & Hrun & Hdb2 & Hls2 & Hlls2).
    rewrite Hrun. cbv beta iota.
    assert (Hdbs2 : db s2 = new_db (db s) b) by (rewrite Hdb2; reflexivity).
    assert (Hlast2 : last_sent s2 = Some b) by (rewrite Hls2; reflexivity).
    assert (Hbr : bref b = r0).
    { unfold bref. rewrite Hid, (L_num b Hb Hid). destruct r0; reflexivity. }
    exists s2, [b], [b], [], [], [], [b], [].
    split.
    { rewrite Hdbs2. cbn [new_db libref]. rewrite Hflast.
      unfold undo_evs, new_evs, late_evs, ev. rewrite Hcur1. cbn [seg_ref tiny sid snum].
      fold (bref b). destruct (f_irr (c_filter cfg)); reflexivity. }
    split; [reflexivity|]. split; [reflexivity|].
    split.
    { rewrite Hflast. cbn. unfold root_ok. rewrite Hid, N.eqb_refl. reflexivity. }
    split.
    { constructor; [|constructor]. split; [exact Hb|]. rewrite Hflast, (L_num b Hb Hid). lia. }
    split.
    { constructor; rewrite ?Hdbs2; cbn [new_db libref store app].
      - exact Hdb1.
      - constructor; [|constructor]. split; [exact Hb|]. rewrite Hflast, (L_num b Hb Hid). lia.
      - cbn [rev app]. rewrite Hflast. exact Hid.
      - rewrite Hlast2. split; [exact Hb|]. exists []. rewrite Hflast, Hid. split; [constructor|].
        split; [reflexivity | constructor]. }
    split.
    { constructor; rewrite ?Hdbs2; cbn [new_db libref store app].
      - rewrite Hflast, <- Hbr. rewrite (cursor_not_empty s2); [rewrite Hlls2; reflexivity|].
        rewrite Hlls2. cbn [last tiny seg_ref sid ri]. rewrite Hid. exact L_id.
      - intros _. rewrite keys_snoc, Hflast. apply in_or_app. right. left. exact Hid. }
    split; [cbn [ascending]; rewrite Hflast, (L_num b Hb Hid); split; [lia | exact I]|].
    split; [rewrite Hdbs2; cbn [new_db libref]; lia|].
    split; [rewrite Hdbs2; cbn [new_db libref map last]; rewrite Hbr; exact Hflast|].
    split; [left; reflexivity|].
    split; [rewrite Hlast2; intros E; rewrite Els in E; discriminate|].
    apply SkRoot; try assumption; try reflexivity.
    - rewrite Hdbs2. cbn [new_db store]. apply keys_snoc.
    - rewrite Hdbs2. reflexivity.
  Qed.
  Lemma step_ev s Fin S b : Inv s Fin S -> Ext s Fin -> In b U -> StepEv s Fin S b (fk_step cfg s b).
  Proof.
    intros HI HX Hb.
    destruct (dropped s b) eqn:Hd.
    { rewrite (fk_step_dropped U cfg U_id s b Hb Hd). apply stepev_quiet; auto. apply SkSame; auto. }
    destruct (incl_first s b) eqn:Hni.
    { apply step_root_ev; assumption. }
    pose proof HI as [Hdb Hfin Hflast Hh]. pose proof Hdb as [Hnd HU Hcoh Hnum Hextra Hlc Hrt].
    pose proof (di_wf U r0 U_id U_up _ Hdb) as Hwf.
    destruct (find (bid b) (store (db s))) as [e|] eqn:Hf.
    { rewrite (fk_step_old' U r0 cfg U_id U_uniq U_up s b e Hdb Hb Hf Hni). apply stepev_quiet; auto.
      apply SkSame; auto. right. split; [exact Hni|]. apply find_is_some_in. eauto. }
    (* a new block *)
    pose proof (inv_add U r0 cfg s Fin S b HI Hb Hf Hni) as HI1.
    set (s1 := with_db s (new_db (db s) b)) in *.
    set (en := mkEntry b false).
    assert (Hk : ~ In (bid b) (keys (store (db s)))) by (apply find_none; exact Hf).
    assert (Hl1 : libref (db s1) = libref (db s)) by reflexivity.
    assert (Hk1 : keys (store (db s1)) = keys (store (db s)) ++ [bid b]).
    { unfold s1. cbn [with_db db new_db store]. apply keys_snoc. }
    assert (HX1 : Ext s1 Fin).
    { constructor; [exact (x_cur _ _ HX)|]. intros HF. rewrite Hl1, Hk1. apply in_or_app. left. exact (x_lib _ _ HX HF). }
    assert (Hcur1 : cursor_lib s1 = libref (db s)) by exact (x_cur _ _ HX).
    assert (Hsw : exists u r j, sw_of cfg s b = ScssOk u r j).
    { unfold sw_of. destruct (f_undo (c_filter cfg) && triggers cfg s b); [|eauto].
      destruct (last_sent s) as [ls|]; [apply scss_total; exact Hwf | eauto]. }
    destruct Hsw as (undos & redos & junc & Hsw).
    rewrite (fk_step_new' U r0 cfg U_id s b undos redos junc Hdb Hb Hf Hd Hni Hsw). cbv zeta. fold s1.
    pose proof HI1 as [Hdb1 _ _ _]. pose proof Hdb1 as [Hnd1 HU1 _ Hnum1 _ _ _].
    pose proof (di_wf U r0 U_id U_up _ Hdb1) as Hwf1.
    change (new_db (db s) b) with (db s1).
    destruct (rs_total (db s1) first Hwf1 (fuel_of (db s1)) (bid b) (bnum b) [] (enough_fuel_of _ _)) as [[longest reach] Hrs].
    unfold reversible_segment. cbn [bref ri rn]. rewrite Hrs.
    assert (Hfb : find (bid b) (store (db s1)) = Some en).
    { unfold s1. cbn [with_db db new_db store]. apply (find_snoc_new (store (db s)) en). exact Hk. }
    destruct (negb (triggers cfg s b) || match longest with [] => true | _ => false end) eqn:Hgo.
    { apply stepev_quiet; auto. apply SkStored; auto.
      apply orb_true_iff in Hgo as [Hgo|Hgo]; [left; apply negb_true_iff; exact Hgo|].
      right. intros [pP HcP]. change (chain (store (db s1)) (bid b) (ri (libref (db s1))) (pP ++ [en])) in HcP.
      pose proof (rs_chain_lib (db s1) first Hwf1 (di_lid U r0 _ Hdb1) Hnum1 (di_up U r0 _ Hdb1) (bid b) (pP ++ [en]) en HcP Hfb) as Hr.
      unfold reversible_segment in Hr. cbn [ri rn eb en] in Hr. rewrite Hrs in Hr.
      assert (Hne : pP ++ [en] <> []) by (destruct pP; discriminate). specialize (Hr Hne).
      destruct longest; [|discriminate]. injection Hr as Hr _. rewrite map_app in Hr. destruct (map seg_of pP); discriminate. }
    apply orb_false_iff in Hgo as [Htr Hlong]. apply negb_false_iff in Htr.
    (* the chain of the new block *)
    assert (Hshape : exists pP, chain (store (db s1)) (bid b) (ri (libref (db s1))) (pP ++ [en]) /\ longest = map seg_of (pP ++ [en])).
    { destruct reach.
      - apply rs_sound in Hrs.
        2:{ intros e' He'. rewrite Hfb in He'. injection He' as <-. reflexivity. }
        destruct Hrs as (p & Hc & Hp & _). rewrite app_nil_r in Hp.
        destruct p as [|e' p' _] using rev_ind.
        + subst longest. discriminate.
        + destruct (chain_top _ _ _ _ _ Hc) as [Hf' _]. rewrite Hfb in Hf'. injection Hf' as <-.
          exists p'. auto.
      - apply (rs_false_nil cfg (db s1) (di_has_lib U r0 _ Hdb1)) in Hrs. subst longest. discriminate. }
    destruct Hshape as (pP & Hc & ->).
    destruct (chain_snoc_inv _ _ _ _ _ Hc) as (Hne1 & _ & HcP). cbn [eb en] in HcP.
    assert (Hnin : ~ In en pP).
    { pose proof (chain_nodup _ _ _ _ Hwf1 Hc) as Hn. unfold keys in Hn. rewrite map_app in Hn.
      intros Hin. refine (nodup_app_disj _ _ (key en) Hn _ _); [apply in_map; exact Hin | left; reflexivity]. }
    assert (HcP0 : chain (store (db s)) (bparent b) (ri (libref (db s))) pP).
    { apply (chain_restrict (store (db s)) en); assumption. }
    unfold sw_of in Hsw. rewrite Hundo, Htr in Hsw. cbn [andb] in Hsw.
    destruct (last_sent s) as [hd|] eqn:Hls.
    - destruct Hh as (HhU & pH & HcH & HS & HsH).
      destruct (N.eq_dec (bid hd) (bparent b)) as [Heq|Hneq].
      + unfold sent_chain_switch_segments in Hsw. rewrite Heq, N.eqb_refl in Hsw. injection Hsw as <- <- <-.
        rewrite Heq in HcH. pose proof (chain_det _ _ _ _ _ HcH HcP0) as ->.
        destruct (trigger_first_ev s1 Fin S b pP pP [] [] None None HI1 Hb Hc) as
          (s3 & Rs & Ru & HR & Hrun & Happ & HI3 & Hk3 & Hls3 & Hlr3 & Hlls3 & _).
        * rewrite app_nil_r. reflexivity.
        * exact HsH.
        * rewrite app_nil_r. exact HS.
        * destruct Rs; [|discriminate]. destruct Ru; [|discriminate].
          cbn [rev filter] in Hrun. fold en in Hrun, Happ. rewrite Hrun. rewrite Hcur1 in *.
          apply (step_finish_ev s Fin S b s3 pP pP [] [] []); auto.
          -- rewrite app_nil_r. reflexivity.
          -- rewrite app_nil_r. exact HS.
          -- congruence.
      + destruct (scss_link_j (db s) _ (bid hd) (bparent b) pH pP Hwf (di_lid U r0 _ Hdb) Hneq HcH HcP0) as (C & R & Uh & HP & HH & Hsc).
        { intros f t e0 Hu He0. exact (tail_disjoint' U r0 cfg U_id U_up L_id (db s) pP (bparent b) Hdb HcP0 f t e0 Hu He0). }
        rewrite Hsc in Hsw. injection Hsw as <- <- Hjunc.
        rewrite (junction_moving s Fin S C Uh HI HX) in Hjunc.
        destruct (trigger_first_ev s1 Fin S b pP C R Uh junc None HI1 Hb Hc HP) as
          (s3 & Rs & Ru & HR & Hrun & Happ & HI3 & Hk3 & Hls3 & Hlr3 & Hlls3 & _).
        * rewrite HH in HsH. apply Forall_app in HsH. tauto.
        * rewrite HS, HH. reflexivity.
        * fold en in Hrun, Happ. rewrite Hrun. rewrite Hcur1, <- Hjunc in *.
          apply (step_finish_ev s Fin S b s3 pP C Rs Ru Uh); auto.
          -- rewrite HP, HR. reflexivity.
          -- rewrite HS, HH. reflexivity.
          -- congruence.
    - injection Hsw as <- <- <-. destruct Hh as (-> & -> & Hall & _).
      assert (Hfil : filter esent pP = []).
      { assert (G : forall x, In x pP -> esent x = false).
        { intros x Hx. apply Hall. eapply chain_in; [exact HcP0 | exact Hx]. }
        clear -G. induction pP as [|h t IHt]; cbn [filter]; [reflexivity|].
        rewrite (G h (or_introl eq_refl)). apply IHt. intros x Hx. apply G. right. exact Hx. }
      destruct (trigger_first_ev s1 [] [] b pP [] pP [] None None HI1 Hb Hc eq_refl (Forall_nil _) eq_refl) as
        (s3 & Rs & Ru & HR & Hrun & Happ & HI3 & Hk3 & Hls3 & Hlr3 & Hlls3 & _).
      cbn [rev] in Hrun. rewrite Hfil in Hrun. fold en in Hrun, Happ. rewrite Hrun. rewrite Hcur1 in *.
      apply (step_finish_ev s [] [] b s3 pP [] Rs Ru []); auto.
      congruence.
  Qed.
  (* ---------------------------------------------------------------- whole histories *)

  (* as long as nothing is final the store holds exactly the blocks received (nothing was purged):
     "a block carrying the starting LIB's id is stored" = "such a block was fed" *)
  Definition LibRecv (s : fstate) (Fin : list block) (seen : list block) : Prop :=
    Fin = [] -> lib_stored r0 s = lib_received r0 seen.

  Lemma librecv_step s s' Fin Fnew S S' b seen : Inv s Fin S -> In b U -> StepKind s s' Fin Fnew S S' b ->
    LibRecv s Fin seen -> LibRecv s' (Fin ++ Fnew) (b :: seen).
  Proof.
    intros HI Hb Hk Hlr HF. apply app_eq_nil in HF as [HF HFn]. specialize (Hlr HF).
    apply bool_eq_iff. rewrite lib_stored_in, lib_received_in.
    assert (Hold : In (ri r0) (keys (store (db s))) <-> exists x, In x seen /\ bid x = ri r0).
    { rewrite <- lib_stored_in, <- lib_received_in, Hlr. tauto. }
    assert (Hnw : forall s2, keys (store (db s2)) = keys (store (db s)) ++ [bid b] ->
              (In (ri r0) (keys (store (db s2))) <-> exists x, In x (b :: seen) /\ bid x = ri r0)).
    { intros s2 ->. rewrite in_app_iff, Hold. cbn [In]. split.
      - intros [(x & Hx & E)|[E|[]]]; [exists x; auto | exists b; auto].
      - intros (x & [<-|Hx] & E); [right; left; exact E | left; exists x; auto]. }
    destruct Hk as [Hc -> _ _ | _ _ _ _ _ _ _ _ _ HFb | _ _ _ Hk' _ _ _ _ _ | _ _ _ _ _ _ _ Hcase].
    - rewrite Hold. split.
      + intros (x & Hx & E). exists x. split; [right; exact Hx | exact E].
      + intros (x & [<-|Hx] & E); [|exists x; auto].
        destruct Hc as [Hc|[_ Hc]].
        * exfalso. unfold dropped in Hc. apply andb_true_iff in Hc as [Hc _]. apply N.ltb_lt in Hc.
          pose proof (i_fin_last _ _ _ _ _ _ HI) as Hl. rewrite HF in Hl. cbn [rev] in Hl. rewrite Hl in Hc.
          pose proof (L_num b Hb E). lia.
        * apply Hold. rewrite <- E. exact Hc.
    - subst Fnew. discriminate.
    - apply Hnw. exact Hk'.
    - destruct Hcase as [(_ & _ & _ & Hk')|(HFne & _)]; [apply Hnw; exact Hk' | contradiction].
  Qed.

  Lemma stepev_c04m s Fin S b seen res : StepEv s Fin S b res -> LibRecv s Fin seen ->
    exists s' Fnew S' evs,
      res = (s', evs, ROk) /\ Inv s' (Fin ++ Fnew) S' /\ Ext s' (Fin ++ Fnew) /\
      StepKind s s' Fin Fnew S S' b /\
      apply_all (ri r0) S evs = Some S' /\
      c04m_step r0 (f_irr (c_filter cfg)) (lib_received r0 seen) (libref (db s)) S b evs (libref (db s')) S'.
  Proof.
    intros (s' & Fnew & S' & kept & undone & redone & fresh & stalled & Hres & HS & HS' & Happ & Hab & HI' & HX' & Hasc & Hmono & Hlast & Hjk & _ & Hkind) Hlr.
    assert (Hj : junction_of r0 (lib_stored r0 s) undone kept = junction_of r0 (lib_received r0 seen) undone kept).
    { destruct Fin as [|x F]; [rewrite (Hlr eq_refl); reflexivity|].
      destruct Hjk as [-> | Hk]; [discriminate | reflexivity|]. unfold junction_of.
      destruct undone; [reflexivity|]. destruct kept; [congruence | reflexivity]. }
    rewrite Hj in Hres, Happ.
    assert (Happ' : apply_all (ri r0) S
               (undo_evs (libref (db s)) b (junction_of r0 (lib_received r0 seen) undone kept) undone ++
                new_evs (libref (db s)) b redone fresh ++
                late_evs b (libref (db s')) (if f_irr (c_filter cfg) then Fnew else []) stalled) = Some S').
    { rewrite app_assoc, (apply_all_app _ _ _ _ _ Happ). apply apply_all_inert. apply late_evs_inert. }
    eexists s', Fnew, S', _. split; [exact Hres|]. split; [exact HI'|]. split; [exact HX'|]. split; [exact Hkind|].
    split; [exact Happ'|].
    exists kept, undone, redone, fresh, (if f_irr (c_filter cfg) then Fnew else []), stalled.
    split; [exact HS|]. split; [exact HS'|]. split.
    { unfold undo_evs, new_evs, late_evs. rewrite <- !app_assoc. reflexivity. }
    split; [eapply Forall_impl; [|exact Hab]; cbn beta; tauto|].
    split; [destruct (f_irr (c_filter cfg)); [exact Hasc | exact I]|].
    split; [exact Hmono|].
    split; [intros E; rewrite E; exact Hlast|].
    split; [intros E; rewrite E; reflexivity|].
    exact Happ'.
  Qed.

  Lemma run_ev : forall h s Fin S seen, Inv s Fin S -> Ext s Fin -> LibRecv s Fin seen ->
    (forall b, In b h -> In b U) ->
    c04m_run r0 (f_irr (c_filter cfg)) seen (libref (db s)) S h (fk_run cfg s h).
  Proof.
    induction h as [|b h IH]; intros s Fin S seen HI HX Hlr Hh; [exact I|].
    assert (Hb : In b U) by (apply Hh; left; reflexivity).
    destruct (stepev_c04m s Fin S b seen _ (step_ev s Fin S b HI HX Hb) Hlr)
      as (s' & Fnew & S' & evs & Hstep & HI' & HX' & Hkind & _ & Hc04).
    cbn [fk_run]. rewrite Hstep. cbn [c04m_run]. split; [reflexivity|].
    exists (libref (db s')), S'. split; [exact Hc04|].
    apply (IH s' (Fin ++ Fnew) S' (b :: seen) HI' HX'); [|intros x Hx; apply Hh; right; exact Hx].
    exact (librecv_step s s' Fin Fnew S S' b seen HI Hb Hkind Hlr).
  Qed.

  Theorem moving_lib_events m h : rooted r0 m -> (forall b, In b h -> In b U) ->
    c04m_run r0 (f_irr (c_filter cfg)) [] r0 [] h (fk_run cfg (fs_init m) h).
  Proof.
    intros Hm Hh.
    assert (Hl : libref (db (fs_init m)) = r0) by (destruct Hm as [-> | ->]; reflexivity).
    pose proof (run_ev h (fs_init m) [] [] [] (inv_init U r0 cfg L_id L_num L_up m Hm) (ext_init m Hm)) as H.
    rewrite Hl in H. apply H; [|exact Hh].
    intros _. destruct Hm as [-> | ->]; reflexivity.
  Qed.
End MovingEv.
