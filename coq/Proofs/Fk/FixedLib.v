(* C01 on the Forkable model, first stage: exclusive starting LIB that never moves (every block
   declares the starting LIB number), handler never fails.  All trees, all arrival orders,
   duplicates, all-blocks-trigger or not, any retention, any first-streamable block. *)
From BV Require Import Base.Prelude Model.Block Model.ForkDB Model.Forkable Spec.Consumer
  Proofs.Fk.StoreFacts Proofs.Fk.WalkFacts Proofs.Fk.LoopFacts.
Local Open Scope N_scope.

Section FixedLib.
  Variable U : list block.
  Variable r0 : ref.
  Variable cfg : config.

  Hypothesis Hnofail : c_fail_at cfg = None.
  Hypothesis Hnew : f_new (c_filter cfg) = true.
  Hypothesis Hundo : f_undo (c_filter cfg) = true.
  Hypothesis Hincl : c_incl cfg = false.

  Hypothesis U_id : forall b, In b U -> bid b <> 0 /\ bparent b <> 0 /\ bid b <> bparent b.
  Hypothesis U_uniq : forall x y, In x U -> In y U -> bid x = bid y -> x = y.
  Hypothesis U_up : forall x y, In x U -> In y U -> bparent x = bid y -> bnum y < bnum x.
  Hypothesis L_id : ri r0 <> 0.
  Hypothesis L_num : forall y, In y U -> bid y = ri r0 -> bnum y = rn r0.
  Hypothesis L_up : forall x, In x U -> bparent x = ri r0 -> rn r0 < bnum x.
  Hypothesis L_lib : forall b, In b U -> blib b = rn r0.

  Notation first := (c_first cfg).

  Definition in_U (l : list entry) : Prop := forall e, In e l -> In (eb e) U.

  Lemma wf_of_U l : NoDup (keys l) -> in_U l -> wf_store l.
  Proof.
    intros Hnd HU. constructor; [exact Hnd | intros e He; apply U_id; apply HU; exact He |].
    intros e p He Hp. pose proof (find_some _ _ _ Hp) as [Hpin Hk].
    apply U_up; [apply HU; exact He | apply HU; exact Hpin | symmetry; exact Hk].
  Qed.

  (* every entry of a chain down to the LIB lies strictly above the LIB height *)
  Lemma above_gen l : in_U l -> NoDup (keys l) -> forall x y p, chain l x y p -> y = ri r0 ->
    forall e, In e p -> rn r0 < bnum (eb e).
  Proof.
    intros HU Hnd x y p Hc. pose proof (wf_of_U l Hnd HU) as Hwf.
    induction Hc as [x|x y e p Hne Hf Hc IH]; intros Hy a Ha; [destruct Ha|]. subst y.
    specialize (IH eq_refl).
    apply in_app_or in Ha as [Ha|[<-|[]]]; [apply IH; auto|].
    destruct p as [|e' p'] using rev_ind.
    - apply chain_nil_inv in Hc. apply L_up; [apply HU; apply find_some in Hf; tauto | exact Hc].
    - clear IHp'. destruct (chain_snoc_inv _ _ _ _ _ Hc) as (_ & Hf' & _).
      pose proof (ws_up l Hwf e e' (proj1 (find_some _ _ _ Hf)) Hf').
      assert (rn r0 < bnum (eb e')) by (apply IH; apply in_or_app; right; left; reflexivity).
      lia.
  Qed.

  Lemma above l : in_U l -> NoDup (keys l) -> forall x p, chain l x (ri r0) p ->
    forall e, In e p -> rn r0 < bnum (eb e).
  Proof. intros HU Hnd x p Hc. eapply above_gen; eauto. Qed.

  (* with the LIB fixed at r0 the guard never fires on a chain down to the LIB *)
  Definition lib_db (d : forkdb) : Prop := libref d = r0 /\ extra d = Some r0.

  Lemma gd_above d n : libref d = r0 -> rn r0 < n -> gd d first n = false.
  Proof. intros H Hn. unfold gd. rewrite H. lia. Qed.

  Lemma num_or0_lib d : lib_db d -> in_U (store d) -> num_or0 d (ri r0) = rn r0.
  Proof.
    intros [Hl He] HU. unfold num_or0, num_of. destruct (find (ri r0) (store d)) as [e|] eqn:F.
    - pose proof (find_some _ _ _ F) as [Hin Hk]. apply L_num; [apply HU; exact Hin | exact Hk].
    - rewrite He, N.eqb_refl. reflexivity.
  Qed.

  Lemma gd_lib d : lib_db d -> in_U (store d) -> gd d first (num_or0 d (ri r0)) = false.
  Proof. intros H HU. rewrite (num_or0_lib d H HU). unfold gd. destruct H as [-> _]. lia. Qed.

  (* ReversibleSegment of a stored block = its chain down to the LIB *)
  Lemma rs_of_chain d x e p : lib_db d -> in_U (store d) -> NoDup (keys (store d)) ->
    find x (store d) = Some e -> chain (store d) x (ri r0) p ->
    reversible_segment d first (mkR x (bnum (eb e))) = Some (map seg_of p, true).
  Proof.
    intros Hl HU Hnd Hf Hc. pose proof (wf_of_U _ Hnd HU) as Hwf.
    unfold reversible_segment. cbn [ri rn].
    pose proof (rs_complete d first x p) as R. destruct Hl as [Hl He]. rewrite Hl in R.
    rewrite (R Hc (fuel_of d) (bnum (eb e)) []); [rewrite app_nil_r; reflexivity | | | |].
    - pose proof (chain_length _ _ _ _ Hwf Hc). unfold fuel_of. lia.
    - intros e' He'. rewrite Hf in He'. congruence.
    - apply Forall_forall. intros a Ha. apply gd_above; [exact Hl | eapply above; eassumption].
    - unfold stop_num. destruct p as [|a p'].
      + apply chain_nil_inv in Hc. subst x.
        (* x = LIB id and stored: its number is the LIB number *)
        unfold gd. rewrite Hl. pose proof (find_some _ _ _ Hf) as [Hin Hk].
        rewrite (L_num (eb e) (HU e Hin) Hk). lia.
      + rewrite Hl. apply gd_lib; [split; assumption | exact HU].
  Qed.

  Lemma chain_of_rs d x e segs : lib_db d ->
    find x (store d) = Some e ->
    reversible_segment d first (mkR x (bnum (eb e))) = Some (segs, true) ->
    exists p, chain (store d) x (ri r0) p /\ segs = map seg_of p.
  Proof.
    intros [Hl He] Hf H. unfold reversible_segment in H. cbn [ri rn] in H.
    apply rs_sound in H.
    - destruct H as (p & Hc & -> & _). rewrite Hl in Hc. exists p. rewrite app_nil_r. auto.
    - intros e' He'. rewrite Hf in He'. congruence.
  Qed.
End FixedLib.
