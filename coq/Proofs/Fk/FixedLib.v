(* C01 on the Forkable model, first stage: exclusive starting LIB that never moves (every block
   declares the starting LIB number), handler never fails.  All trees, all arrival orders,
   duplicates, all-blocks-trigger or not, any retention, any first-streamable block. *)
From BV Require Import Base.Prelude Model.Block Model.ForkDB Model.Forkable Spec.Consumer
  Proofs.Fk.StoreFacts Proofs.Fk.WalkFacts Proofs.Fk.LoopFacts Proofs.Fk.StoreChange Proofs.Fk.SwitchFacts.
Local Open Scope N_scope.

Section FixedLib.
  Variable U : list block.
  Variable r0 : ref.
  Variable cfg : config.

  Hypothesis Hnofail : c_fail_at cfg = None.
  Hypothesis Hnew : f_new (c_filter cfg) = true.
  Hypothesis Hundo : f_undo (c_filter cfg) = true.
  Hypothesis Hincl : c_incl cfg = false.

  (* ids are non-empty and no block is its own parent; the parent id MAY be empty (a root) *)
  Hypothesis U_id : forall b, In b U -> bid b <> 0 /\ bid b <> bparent b.
  Hypothesis U_uniq : forall x y, In x U -> In y U -> bid x = bid y -> x = y.
  Hypothesis U_up : forall x y, In x U -> In y U -> bparent x = bid y -> bnum y < bnum x.
  Hypothesis L_id : ri r0 <> 0.
  Hypothesis L_num : forall y, In y U -> bid y = ri r0 -> bnum y = rn r0.
  Hypothesis L_up : forall x, In x U -> bparent x = ri r0 -> rn r0 < bnum x.
  Hypothesis L_lib : forall b, In b U -> blib b = rn r0.

  Notation first := (c_first cfg).

  Definition in_U (l : list entry) : Prop := forall e, In e l -> In (eb e) U.

  Lemma wf_of_U l : NoDup (keys l) -> in_U l -> wf_store l.
  Proof.
    intros Hnd HU. constructor; [exact Hnd | intros e He; apply U_id; apply HU; exact He |].
    intros e p He Hp. pose proof (find_some _ _ _ Hp) as [Hpin Hk].
    apply U_up; [apply HU; exact He | apply HU; exact Hpin | symmetry; exact Hk].
  Qed.

  (* every entry of a chain down to the LIB lies strictly above the LIB height *)
  Lemma above_gen l : in_U l -> NoDup (keys l) -> forall x y p, chain l x y p -> y = ri r0 ->
    forall e, In e p -> rn r0 < bnum (eb e).
  Proof.
    intros HU Hnd x y p Hc. pose proof (wf_of_U l Hnd HU) as Hwf.
    induction Hc as [x|x y e p Hne Hf Hc IH]; intros Hy a Ha; [destruct Ha|]. subst y.
    specialize (IH eq_refl).
    apply in_app_or in Ha as [Ha|[<-|[]]]; [apply IH; auto|].
    destruct p as [|e' p'] using rev_ind.
    - apply chain_nil_inv in Hc. apply L_up; [apply HU; apply find_some in Hf; tauto | exact Hc].
    - clear IHp'. destruct (chain_snoc_inv _ _ _ _ _ Hc) as (_ & Hf' & _).
      pose proof (ws_up l Hwf e e' (proj1 (find_some _ _ _ Hf)) Hf').
      assert (rn r0 < bnum (eb e')) by (apply IH; apply in_or_app; right; left; reflexivity).
      lia.
  Qed.

  Lemma above l : in_U l -> NoDup (keys l) -> forall x p, chain l x (ri r0) p ->
    forall e, In e p -> rn r0 < bnum (eb e).
  Proof. intros HU Hnd x p Hc. eapply above_gen; eauto. Qed.

  (* with the LIB fixed at r0 the guard never fires on a chain down to the LIB *)
  Definition lib_db (d : forkdb) : Prop := libref d = r0 /\ extra d = Some r0.

  Lemma gd_above d n : libref d = r0 -> rn r0 < n -> gd d first n = false.
  Proof. intros H Hn. unfold gd. rewrite H. lia. Qed.

  Lemma num_or0_lib d : lib_db d -> in_U (store d) -> num_or0 d (ri r0) = rn r0.
  Proof.
    intros [Hl He] HU. unfold num_or0, num_of. destruct (find (ri r0) (store d)) as [e|] eqn:F.
    - pose proof (find_some _ _ _ F) as [Hin Hk]. apply L_num; [apply HU; exact Hin | exact Hk].
    - rewrite He, N.eqb_refl. reflexivity.
  Qed.

  Lemma gd_lib d : lib_db d -> in_U (store d) -> gd d first (num_or0 d (ri r0)) = false.
  Proof. intros H HU. rewrite (num_or0_lib d H HU). unfold gd. destruct H as [-> _]. lia. Qed.

  (* ReversibleSegment of a stored block = its chain down to the LIB *)
  Lemma rs_of_chain d x e p : lib_db d -> in_U (store d) -> NoDup (keys (store d)) ->
    find x (store d) = Some e -> chain (store d) x (ri r0) p ->
    reversible_segment d first (mkR x (bnum (eb e))) = Some (map seg_of p, true).
  Proof.
    intros Hl HU Hnd Hf Hc. pose proof (wf_of_U _ Hnd HU) as Hwf.
    unfold reversible_segment. cbn [ri rn].
    pose proof (rs_complete d first x p) as R. destruct Hl as [Hl He]. rewrite Hl in R.
    rewrite (R Hc (fuel_of d) (bnum (eb e)) []); [rewrite app_nil_r; reflexivity | | | |].
    - pose proof (chain_length _ _ _ _ Hwf Hc). unfold fuel_of. lia.
    - intros e' He'. rewrite Hf in He'. congruence.
    - apply Forall_forall. intros a Ha. apply gd_above; [exact Hl | eapply above; eassumption].
    - unfold stop_num. destruct p as [|a p'].
      + apply chain_nil_inv in Hc. subst x.
        (* x = LIB id and stored: its number is the LIB number *)
        unfold gd. rewrite Hl. pose proof (find_some _ _ _ Hf) as [Hin Hk].
        rewrite (L_num (eb e) (HU e Hin) Hk). lia.
      + rewrite Hl. apply gd_lib; [split; assumption | exact HU].
  Qed.

  Lemma chain_of_rs d x e segs : lib_db d ->
    find x (store d) = Some e ->
    reversible_segment d first (mkR x (bnum (eb e))) = Some (segs, true) ->
    exists p, chain (store d) x (ri r0) p /\ segs = map seg_of p.
  Proof.
    intros [Hl He] Hf H. unfold reversible_segment in H. cbn [ri rn] in H.
    apply rs_sound in H.
    - destruct H as (p & Hc & -> & _). rewrite Hl in Hc. exists p. rewrite app_nil_r. auto.
    - intros e' He'. rewrite Hf in He'. congruence.
  Qed.

  (* ---------------------------------------------------------------- the invariant *)

  Definition lc (l : list entry) : Prop :=
    forall e, In e l -> esent e = true ->
      bparent (eb e) = ri r0 \/ exists p, find (bparent (eb e)) l = Some p /\ esent p = true.

  (* a sent entry rests on the LIB or on a stored entry: its parent id is not empty; so a stored root is unsent *)
  Lemma lc_root_unsent l : wf_store l -> lc l -> forall e, In e l -> bparent (eb e) = 0 -> esent e = false.
  Proof.
    intros Hwf Hlc e He Hp. destruct (esent e) eqn:Es; [|reflexivity]. exfalso.
    destruct (Hlc e He Es) as [H|(p & Hf & _)].
    - rewrite Hp in H. apply L_id. symmetry. exact H.
    - rewrite Hp, (find_zero_wf _ Hwf) in Hf. discriminate.
  Qed.

  Record Inv (s : fstate) (S : cstack) : Prop := mkInv {
    i_nodup : NoDup (keys (store (db s)));
    i_inU : in_U (store (db s));
    i_lib : lib_db (db s);
    i_lc : lc (store (db s));
    i_head : match last_sent s with
             | None => S = [] /\ forall e, In e (store (db s)) -> esent e = false
             | Some hd => In hd U /\
                          exists p, chain (store (db s)) (bid hd) (ri r0) p /\ p <> [] /\
                                    map eb p = rev S /\ Forall (fun e => esent e = true) p
             end
  }.

  Lemma inv_init : Inv (fs_init (LExcl r0)) [].
  Proof.
    constructor; cbn.
    - constructor.
    - intros e [].
    - split; reflexivity.
    - intros e [].
    - split; [reflexivity | intros e []].
  Qed.

  Lemma has_lib_r0 d : lib_db d -> has_lib d = true.
  Proof.
    intros [H _]. unfold has_lib. rewrite H. unfold Block.ref_eqb, ref_empty. cbn [ri rn].
    destruct (N.eqb_spec (ri r0) 0); [contradiction|]. reflexivity.
  Qed.

  (* a block of U that is stored is stored as itself *)
  Lemma stored_is_self l b e : in_U l -> In b U -> find (bid b) l = Some e -> eb e = b.
  Proof.
    intros HU Hb Hf. pose proof (find_some _ _ _ Hf) as [Hin Hk].
    apply U_uniq; [apply HU; exact Hin | exact Hb | exact Hk].
  Qed.

  (* the stored entry of a root is unsent *)
  Lemma stored_root_unsent l b e : in_U l -> In b U -> find (bid b) l = Some e -> wf_store l -> lc l ->
    bparent b = 0 -> esent e = false.
  Proof.
    intros HU Hb Hf Hwf Hlc Hp. apply (lc_root_unsent l Hwf Hlc e (proj1 (find_some _ _ _ Hf))).
    rewrite (stored_is_self _ _ _ HU Hb Hf). exact Hp.
  Qed.

  (* ---------------------------------------------------------------- ProcessBlock, unfolded for this configuration *)

  Definition new_db (d : forkdb) (b : block) : forkdb :=
    mkDB (store d ++ [mkEntry b false]) (extra d) (libref d).

  Lemma add_link_new d b : In b U -> find (bid b) (store d) = None ->
    add_link d b = (new_db d b, false).
  Proof.
    intros Hb Hf. destruct (U_id b Hb) as (H1 & H3).
    unfold add_link. destruct (N.eqb_spec (bid b) (bparent b)); [contradiction|].
    destruct (N.eqb_spec (bid b) 0); [contradiction|]. cbn [orb].
    unfold exists_link, link_of. rewrite Hf. cbn.
    unfold new_db. f_equal. f_equal. apply put_keys_new. apply find_none. exact Hf.
  Qed.

  (* a stored block with a non-empty parent id is recognised ... *)
  Lemma add_link_old d b e : in_U (store d) -> In b U -> find (bid b) (store d) = Some e ->
    bparent b <> 0 -> add_link d b = (d, true).
  Proof.
    intros HU Hb Hf H2. destruct (U_id b Hb) as (H1 & H3).
    unfold add_link. destruct (N.eqb_spec (bid b) (bparent b)); [contradiction|].
    destruct (N.eqb_spec (bid b) 0); [contradiction|]. cbn [orb].
    unfold exists_link, link_of. rewrite Hf.
    rewrite (stored_is_self _ _ _ HU Hb Hf).
    destruct (N.eqb_spec (bparent b) 0); [contradiction|]. reflexivity.
  Qed.

  (* ... a stored root is not (links[id] = ""): if its entry is unsent it is stored again unchanged and
     AddLink answers "did not exist" *)
  Lemma add_link_root d b e : NoDup (keys (store d)) -> in_U (store d) -> In b U ->
    find (bid b) (store d) = Some e -> bparent b = 0 -> esent e = false ->
    add_link d b = (d, false).
  Proof.
    intros Hnd HU Hb Hf H2 Hs. destruct (U_id b Hb) as (H1 & H3).
    unfold add_link. destruct (N.eqb_spec (bid b) (bparent b)); [contradiction|].
    destruct (N.eqb_spec (bid b) 0); [contradiction|]. cbn [orb].
    unfold exists_link, link_of. rewrite Hf.
    pose proof (stored_is_self _ _ _ HU Hb Hf) as Eb. rewrite Eb, H2. cbn [N.eqb negb].
    assert (Ee : mkEntry b false = e) by (destruct e as [eb0 es0]; cbn in Eb, Hs; subst; reflexivity).
    rewrite Ee, (put_same _ e Hnd (proj1 (find_some _ _ _ Hf))). destruct d; reflexivity.
  Qed.

  Definition sw_of (s : fstate) (b : block) : scss_result :=
    if f_undo (c_filter cfg) && triggers cfg s b then
      match last_sent s with
      | Some ls => sent_chain_switch_segments (db s) (bid ls) (bparent b)
      | None => ScssOk [] [] None
      end
    else ScssOk [] [] None.

  Definition dropped (s : fstate) (b : block) : bool :=
    (bnum b <? rn (libref (db s))) && (match last_sent s with Some _ => true | None => false end).

  Lemma fk_step_new s b undos redos junc :
    lib_db (db s) -> In b U -> find (bid b) (store (db s)) = None -> dropped s b = false ->
    sw_of s b = ScssOk undos redos junc ->
    fk_step cfg s b =
      let s1 := with_db s (new_db (db s) b) in
      match reversible_segment (new_db (db s) b) first (bref b) with
      | None => (s1, [], RFuel)
      | Some (longest, _) =>
          if negb (triggers cfg s b) || (match longest with [] => true | _ => false end) then (s1, [], ROk)
          else process_tail cfg s1 b undos redos junc longest None
      end.
  Proof.
    intros Hl Hb Hf Hd Hsw. destruct (U_id b Hb) as (H1 & H3).
    unfold fk_step. destruct (N.eqb_spec (bid b) (bparent b)); [contradiction|].
    unfold dropped in Hd. rewrite Hd, Hincl. cbn [andb].
    unfold sw_of in Hsw. rewrite Hsw.
    rewrite (add_link_new _ _ Hb Hf).
    assert (Hhl : has_lib (new_db (db s) b) = true).
    { apply has_lib_r0. destruct Hl as [Ha Hb']. split; cbn; assumption. }
    rewrite Hhl. cbn [with_db db].
    destruct (reversible_segment (new_db (db s) b) first (bref b)) as [[longest reach]|]; reflexivity.
  Qed.

  (* a block that is already stored (a LIB is set, exclusive mode): nothing happens; a stored root is
     stored again unchanged and its longest chain is empty *)
  Lemma fk_step_old s b e : in_U (store (db s)) -> In b U -> find (bid b) (store (db s)) = Some e ->
    wf_store (store (db s)) -> (bparent b = 0 -> esent e = false) -> ri (libref (db s)) <> 0 ->
    fk_step cfg s b = (s, [], ROk).
  Proof.
    intros HU Hb Hf Hwf Hroot Hl. destruct (U_id b Hb) as (H1 & H3).
    unfold fk_step. destruct (N.eqb_spec (bid b) (bparent b)); [contradiction|].
    destruct ((bnum b <? rn (libref (db s))) && match last_sent s with Some _ => true | None => false end); [reflexivity|].
    rewrite Hincl. cbn [andb].
    assert (Hsw : exists u r j, (if f_undo (c_filter cfg) && triggers cfg s b
             then match last_sent s with Some ls => sent_chain_switch_segments (db s) (bid ls) (bparent b) | None => ScssOk [] [] None end
             else ScssOk [] [] None) = ScssOk u r j).
    { destruct (f_undo (c_filter cfg) && triggers cfg s b); [|eauto].
      destruct (last_sent s) as [ls|]; [apply scss_total; exact Hwf | eauto]. }
    destruct Hsw as (u & r & j & ->).
    destruct (N.eq_dec (bparent b) 0) as [E0|E0].
    - rewrite (add_link_root _ _ _ (ws_nodup _ Hwf) HU Hb Hf E0 (Hroot E0)).
      rewrite (has_lib_nz _ Hl).
      assert (Hs : with_db s (db s) = s) by (destruct s; reflexivity). rewrite Hs.
      pose proof (stored_is_self _ _ _ HU Hb Hf) as Eb.
      destruct (rs_root (db s) first (bid b) (bnum b) e Hwf Hl Hf) as [rr Hrs]; [rewrite Eb; exact E0|].
      unfold reversible_segment. cbn [bref ri rn]. rewrite Hrs. rewrite orb_true_r. reflexivity.
    - rewrite (add_link_old _ _ _ HU Hb Hf E0). reflexivity.
  Qed.

  (* ---------------------------------------------------------------- the tail of ProcessBlock *)

  Lemma process_tail_ok s1 b undos redos junc longest :
    lib_db (db s1) -> longest <> [] ->
    (* the declared LIB of the new head resolves to the LIB itself: nothing becomes irreversible *)
    (forall d ls, store d = mark_all (store (db s1)) (unsent longest) -> extra d = extra (db s1) -> libref d = libref (db s1) ->
        In ls (map (fun sg => eb (sent sg)) (unsent longest)) \/ last_sent s1 = Some ls ->
        block_in_chain d (bref ls) (blib ls) = Some (mkR (ri r0) (rn r0))) ->
    exists s3 evU evR evN,
      process_tail cfg s1 b undos redos junc longest None = (s3, evU ++ evR ++ evN, ROk) /\
      map eblk evU = map eb undos /\ Forall (fun e => estep e = SUndo) evU /\
      map eblk evR = map eb redos /\ Forall (fun e => estep e = SNew) evR /\
      map eblk evN = map (fun sg => eb (sent sg)) (unsent longest) /\ Forall (fun e => estep e = SNew) evN /\
      store (db s3) = mark_all (store (db s1)) (unsent longest) /\
      extra (db s3) = extra (db s1) /\ libref (db s3) = libref (db s1) /\
      last_sent s3 = match rev (unsent longest) with sg :: _ => Some (eb (sent sg)) | [] => last_sent s1 end.
  Proof.
    intros Hl Hne Htail. unfold process_tail. rewrite Hundo, Hnew.
    destruct (process_blocks_ok cfg Hnofail b undos SUndo junc s1) as (sa & evU & -> & (Ha1 & Ha2 & Ha3) & HmU & HsU).
    cbn [negb].
    destruct (process_blocks_ok cfg Hnofail b redos SNew None sa) as (sb & evR & -> & (Hb1 & Hb2 & Hb3) & HmR & HsR).
    cbn [negb].
    unfold process_new_blocks. destruct longest as [|b0 lrest] eqn:Hlong; [congruence|]. rewrite <- Hlong in *.
    destruct (process_new_loop_ok cfg Hnofail Hnew (seg_ref (last longest b0)) longest sb []) as
      (s3 & evN & Hrun & HmN & HsN & Hst & Hex & Hlib & Hlls & Hlast).
    cbn [app] in Hrun. rewrite Hlong in Hrun at 1. rewrite <- Hlong in Hrun. rewrite Hrun. cbn [negb].
    rewrite Hb1, Ha1 in Hst, Hex, Hlib. rewrite Hb2, Ha2 in Hlast.
    exists s3, evU, evR, evN.
    (* the LIB part of the tail is a no-op *)
    assert (Hno : match last_sent s3 with
                  | None => True
                  | Some ls => block_in_chain (db s3) (bref ls) (blib ls) = Some (mkR (ri r0) (rn r0))
                  end).
    { destruct (last_sent s3) as [ls|]; [|exact I].
      apply Htail; try assumption.
      destruct (rev (unsent longest)) as [|sg t] eqn:R.
      - right. symmetry. exact Hlast.
      - left. injection Hlast as Hlast. subst ls. apply (in_map (fun x => eb (sent x))). apply in_rev. rewrite R. left. reflexivity. }
    assert (Hhl : has_lib (db s3) = true).
    { apply has_lib_r0. destruct Hl as [A B]. split; congruence. }
    destruct (last_sent s3) as [ls|] eqn:Els.
    - rewrite Hhl. cbn [negb]. rewrite Hno. cbn [ri].
      destruct (N.eqb_spec (ri r0) 0); [contradiction|].
      unfold has_new_irr_segment. rewrite Hlib. destruct Hl as [A B]. rewrite A. cbn [ri]. rewrite N.eqb_refl.
      cbn [negb andb]. repeat split; try assumption; try congruence.
    - repeat split; try assumption; try congruence.
  Qed.

  Lemma num_of_lib d : lib_db d -> in_U (store d) -> num_of d (ri r0) = Some (rn r0).
  Proof.
    intros [Hl He] HU. unfold num_of. destruct (find (ri r0) (store d)) as [e|] eqn:F.
    - pose proof (find_some _ _ _ F) as [Hin Hk]. rewrite (L_num _ (HU e Hin) Hk). reflexivity.
    - rewrite He, N.eqb_refl. reflexivity.
  Qed.

  Lemma bic_loop_to_lib d : lib_db d -> in_U (store d) -> NoDup (keys (store d)) ->
    forall x y p, chain (store d) x y p -> y = ri r0 -> p <> [] ->
    forall f, enough (store d) x f -> bic_loop f d x (rn r0) = Some (mkR (ri r0) (rn r0)).
  Proof.
    intros Hl HU Hnd x y p Hc. pose proof (wf_of_U _ Hnd HU) as Hwf.
    induction Hc as [x|x y e p Hne Hf Hc IH]; intros Hy Hp f He; [congruence|]. subst y.
    destruct f as [|f]; [destruct He; lia|]. cbn [bic_loop]. rewrite (link_of_stored d x e Hf).
    destruct p as [|e' p'] using rev_ind.
    - apply chain_nil_inv in Hc. rewrite Hc, (num_of_lib d Hl HU), N.eqb_refl. reflexivity.
    - clear IHp'. destruct (chain_snoc_inv _ _ _ _ _ Hc) as (_ & Hf' & _).
      unfold num_of. rewrite Hf'.
      assert (Hab : rn r0 < bnum (eb e')).
      { eapply above; [exact HU | exact Hnd | exact Hc | apply in_or_app; right; left; reflexivity]. }
      destruct (N.eqb_spec (bnum (eb e')) (rn r0)); [lia|].
      destruct (N.ltb_spec (bnum (eb e')) (rn r0)); [lia|].
      apply IH; [reflexivity | destruct p'; discriminate | eapply enough_parent; eassumption].
  Qed.

  Lemma bic_to_lib d x e p : lib_db d -> in_U (store d) -> NoDup (keys (store d)) ->
    find x (store d) = Some e -> chain (store d) x (ri r0) p -> p <> [] ->
    block_in_chain d (mkR x (bnum (eb e))) (rn r0) = Some (mkR (ri r0) (rn r0)).
  Proof.
    intros Hl HU Hnd Hf Hc Hp. unfold block_in_chain. cbn [rn ri].
    assert (Hab : rn r0 < bnum (eb e)).
    { destruct p as [|e' p'] using rev_ind; [congruence|]. clear IHp'.
      destruct (chain_snoc_inv _ _ _ _ _ Hc) as (_ & Hf' & _). rewrite Hf in Hf'. injection Hf' as <-.
      eapply above; [exact HU | exact Hnd | exact Hc | apply in_or_app; right; left; reflexivity]. }
    destruct (N.eqb_spec (bnum (eb e)) (rn r0)); [lia|].
    eapply bic_loop_to_lib; try eassumption; [reflexivity | apply enough_fuel_of].
  Qed.

  (* ---------------------------------------------------------------- storing a new block keeps the invariant *)

  Lemma keys_snoc l en : keys (l ++ [en]) = keys l ++ [key en].
  Proof. unfold keys. rewrite map_app. reflexivity. Qed.

  Lemma inv_add s S b : Inv s S -> In b U -> find (bid b) (store (db s)) = None ->
    Inv (with_db s (new_db (db s) b)) S.
  Proof.
    intros HI Hb Hf. destruct HI as [Hnd HU Hl Hlc Hh].
    assert (Hk : ~ In (bid b) (keys (store (db s)))) by (apply find_none; exact Hf).
    constructor; cbn [with_db db new_db store extra libref last_sent].
    - rewrite keys_snoc. apply nodup_snoc; [exact Hnd | exact Hk].
    - intros e He. apply in_app_or in He as [He|[<-|[]]]; [apply HU; exact He | exact Hb].
    - exact Hl.
    - intros e He Hs. apply in_app_or in He as [He|[<-|[]]]; [|discriminate].
      destruct (Hlc e He Hs) as [H|(p & Hp & Hps)]; [left; exact H|].
      right. exists p. split; [apply find_snoc_old; exact Hp | exact Hps].
    - destruct (last_sent s) as [hd|].
      + destruct Hh as (HhU & p & Hc & Hne & Hm & Hs). split; [exact HhU|].
        exists p. repeat split; try assumption. apply chain_ext. exact Hc.
      + destruct Hh as [-> Hall]. split; [reflexivity|].
        intros e He. apply in_app_or in He as [He|[<-|[]]]; [apply Hall; exact He | reflexivity].
  Qed.

  (* below the LIB the undo chain never meets a block that sits above the LIB *)
  Lemma tail_disjoint d pP x : lib_db d -> in_U (store d) -> NoDup (keys (store d)) ->
    chain (store d) x (ri r0) pP ->
    forall f t e, undo_chain f d (ri r0) = Some (ri r0 :: t) -> In e pP -> ~ In (key e) t.
  Proof.
    intros Hl HU Hnd Hc f t e Hu He Hin. pose proof (wf_of_U _ Hnd HU) as Hwf.
    pose proof (above _ HU Hnd _ _ Hc e He) as Hab.
    assert (Hes : In e (store d)) by (eapply chain_in; eassumption).
    pose proof (find_in_nodup _ _ Hnd Hes) as Hfe.
    destruct (find (ri r0) (store d)) as [el|] eqn:Fl.
    - pose proof (undo_chain_nums d Hwf f (ri r0) t el Hu Fl (key e) e Hin Hfe) as Hlt.
      pose proof (find_some _ _ _ Fl) as [Hinl Hkl]. rewrite (L_num _ (HU el Hinl) Hkl) in Hlt. lia.
    - destruct f as [|f]; [discriminate|]. cbn [undo_chain] in Hu. unfold link_of in Hu. rewrite Fl in Hu.
      cbn in Hu. injection Hu as <-. destruct Hin.
  Qed.

  (* ---------------------------------------------------------------- helpers for the triggering step *)

  Lemma unsent_map q : unsent (map seg_of q) = map seg_of (filter (fun e => negb (esent e)) q).
  Proof.
    induction q as [|e q IH]; [reflexivity|]. unfold unsent in *. cbn [map filter]. cbn [sent seg_of].
    destruct (esent e); cbn [negb]; [exact IH | cbn [map]; f_equal; exact IH].
  Qed.

  Lemma linked_app y a c : linked y (a ++ c) ->
    linked y a /\ linked (match rev a with t :: _ => bid t | [] => y end) c.
  Proof.
    revert y. induction a as [|h a IH]; intros y H; cbn [app linked rev] in *; [auto|].
    destruct H as [Hp H]. destruct (IH _ H) as [H1 H2]. split; [auto|].
    destruct (rev a) as [|t r] eqn:R; cbn [app]; exact H2.
  Qed.

  (* along a chain, sent flags are downward closed: the sent entries form a prefix *)
  Lemma sent_prefix l x y C R : lc l -> NoDup (keys l) -> chain l x y (C ++ R) -> y = ri r0 ->
    Forall (fun e => esent e = true) C ->
    exists Rs Ru, R = Rs ++ Ru /\ Forall (fun e => esent e = true) Rs /\ Forall (fun e => esent e = false) Ru.
  Proof.
    intros Hlc Hnd. revert x. induction R as [|e R IH] using rev_ind; intros x Hc Hy HC.
    - exists [], []. repeat split; constructor.
    - rewrite app_assoc in Hc. destruct (chain_snoc_inv _ _ _ _ _ Hc) as (Hne & Hf & Hc').
      destruct (IH _ Hc' Hy HC) as (Rs & Ru & -> & Hs & Hu).
      destruct (esent e) eqn:Es.
      + (* e sent: everything below it on the chain is sent *)
        destruct Ru as [|u Ru].
        * exists (Rs ++ [e]), []. split; [rewrite !app_nil_r; reflexivity|]. split; [|constructor].
          apply Forall_app. split; [exact Hs | constructor; [exact Es | constructor]].
        * exfalso.
          (* the parent of e is the last element of Rs ++ u :: Ru, which is unsent *)
          assert (Hlast : exists pre pe, C ++ Rs ++ u :: Ru = pre ++ [pe] /\ esent pe = false).
          { destruct (exists_last (l := u :: Ru)) as (pre & pe & Hpe); [discriminate|].
            exists (C ++ Rs ++ pre), pe. rewrite Hpe, !app_assoc. split; [reflexivity|].
            assert (In pe (u :: Ru)) by (rewrite Hpe; apply in_or_app; right; left; reflexivity).
            rewrite Forall_forall in Hu. apply Hu. assumption. }
          destruct Hlast as (pre & pe & Heq & Hpe). rewrite Heq in Hc'.
          destruct (chain_snoc_inv _ _ _ _ _ Hc') as (Hne' & Hf' & _).
          pose proof (find_some _ _ _ Hf) as [Hin _].
          destruct (Hlc e Hin Es) as [Hp|(p & Hp & Hps)].
          -- rewrite Hp, Hy in Hne'. congruence.
          -- rewrite Hf' in Hp. injection Hp as <-. congruence.
      + exists Rs, (Ru ++ [e]). split; [rewrite app_assoc; reflexivity|]. split; [exact Hs|].
        apply Forall_app. split; [exact Hu | constructor; [exact Es | constructor]].
  Qed.

  Lemma filter_sent_split Rs Ru : Forall (fun e => esent e = true) Rs -> Forall (fun e => esent e = false) Ru ->
    filter esent (Rs ++ Ru) = Rs /\ filter (fun e => negb (esent e)) (Rs ++ Ru) = Ru.
  Proof.
    intros Hs Hu. rewrite !filter_app. split.
    - replace (filter esent Ru) with (@nil entry).
      + rewrite app_nil_r. induction Hs as [|e l He Hl IH]; cbn [filter]; [reflexivity|]. rewrite He. f_equal. exact IH.
      + induction Hu as [|e l He Hl IH]; cbn [filter]; [reflexivity|]. rewrite He. exact IH.
    - replace (filter (fun e => negb (esent e)) Rs) with (@nil entry).
      + cbn [app]. induction Hu as [|e l He Hl IH]; cbn [filter]; [reflexivity|]. rewrite He. cbn. f_equal. exact IH.
      + induction Hs as [|e l He Hl IH]; cbn [filter]; [reflexivity|]. rewrite He. cbn. exact IH.
  Qed.

  (* ---------------------------------------------------------------- the marked store *)

  Section Marked.
    Variable l1 : list entry.
    Variable q : list entry.
    Hypothesis Hnd : NoDup (keys l1).
    Hypothesis HU : in_U l1.
    Hypothesis Hq : forall e, In e q -> In e l1.

    Let ids := map sid (unsent (map seg_of q)).
    Let l3 := mark_all l1 (unsent (map seg_of q)).
    Let g := flag_if ids.

    Lemma l3_find x : find x l3 = option_map g (find x l1).
    Proof. unfold l3, g, ids. apply find_mark_all. Qed.

    Lemma l3_nodup : NoDup (keys l3).
    Proof. unfold l3. rewrite mark_all_keys. exact Hnd. Qed.

    Lemma l3_inU : in_U l3.
    Proof.
      intros e3 He3. destruct (in_mark_all _ _ _ Hnd He3) as (e0 & He0 & ->).
      rewrite flag_if_eb. apply HU. exact He0.
    Qed.

    Lemma l3_chain x y p : chain l1 x y p -> chain l3 x y (map g p).
    Proof. apply chain_refresh; [apply flag_if_eb | apply l3_find]. Qed.

    Lemma ids_spec e : In e q -> esent e = false -> memN (key e) ids = true.
    Proof.
      intros He Hs. apply memN_in. unfold ids. rewrite unsent_map, map_map.
      apply in_map_iff. exists e. split; [reflexivity|]. apply filter_In. split; [exact He | rewrite Hs; reflexivity].
    Qed.

    Lemma g_sent_q e : In e q -> esent (g e) = true.
    Proof.
      intros He. unfold g, flag_if. destruct (esent e) eqn:Es.
      - destruct (memN (key e) ids); [reflexivity | exact Es].
      - rewrite (ids_spec e He Es). reflexivity.
    Qed.

    Lemma g_keeps_sent e : esent e = true -> esent (g e) = true.
    Proof. intros Es. unfold g, flag_if. destruct (memN (key e) ids); [reflexivity | exact Es]. Qed.

    (* a flagged entry was an unsent entry of q *)
    Lemma flagged_in_q e : In e l1 -> esent e = false -> esent (g e) = true -> In e q.
    Proof.
      intros He Es Hg. unfold g, flag_if in Hg. destruct (memN (key e) ids) eqn:M; [|congruence].
      apply memN_in in M. unfold ids in M. rewrite unsent_map, map_map in M.
      apply in_map_iff in M as (e' & Hk & Hin). apply filter_In in Hin as [Hin _].
      cbn [sid seg_of] in Hk.
      pose proof (find_in_nodup _ _ Hnd He) as F1.
      pose proof (find_in_nodup _ _ Hnd (Hq _ Hin)) as F2.
      unfold key in *. rewrite Hk in F2. rewrite F1 in F2. injection F2 as <-. exact Hin.
    Qed.

    (* the sent-closure survives the marking, because every marked entry lies on the chain q whose
       entries are all sent afterwards *)
    Lemma l3_lc x y : lc l1 -> chain l1 x y q -> y = ri r0 -> lc l3.
    Proof.
      intros Hlc Hc Hy e3 He3 Hs3. destruct (in_mark_all _ _ _ Hnd He3) as (e0 & He0 & ->).
      rewrite flag_if_eb. change (esent (g e0) = true) in Hs3.
      destruct (esent e0) eqn:Es0.
      - destruct (Hlc e0 He0 Es0) as [H|(p & Hp & Hps)]; [left; exact H|].
        right. exists (g p). split; [rewrite l3_find, Hp; reflexivity | apply g_keeps_sent; exact Hps].
      - pose proof (flagged_in_q e0 He0 Es0 Hs3) as Hin.
        apply in_split in Hin as (q1 & q2 & Heq). rewrite Heq in Hc.
        pose proof (chain_prefix _ _ _ _ _ _ Hc) as Hpre.
        destruct (chain_snoc_inv _ _ _ _ _ Hpre) as (_ & _ & Hc1).
        destruct q1 as [|pe q1'] using rev_ind.
        + left. apply chain_nil_inv in Hc1. rewrite Hc1. exact Hy.
        + clear IHq1'. destruct (chain_snoc_inv _ _ _ _ _ Hc1) as (_ & Hfp & _).
          right. exists (g pe). split; [rewrite l3_find, Hfp; reflexivity|].
          apply g_sent_q. rewrite Heq. apply in_or_app. left. apply in_or_app. right. left. reflexivity.
    Qed.
  End Marked.

  (* ---------------------------------------------------------------- the triggering step *)

  Lemma filter_unsent_nil C : Forall (fun e => esent e = true) C -> filter (fun e => negb (esent e)) C = [].
  Proof. induction 1 as [|e l He Hl IH]; cbn [filter]; [reflexivity|]. rewrite He. exact IH. Qed.

  Lemma bic_marked l1 q d x p e : NoDup (keys l1) -> in_U l1 -> (forall a, In a q -> In a l1) ->
    lib_db d -> store d = mark_all l1 (unsent (map seg_of q)) ->
    chain l1 x (ri r0) (p ++ [e]) ->
    block_in_chain d (bref (eb e)) (rn r0) = Some (mkR (ri r0) (rn r0)).
  Proof.
    intros Hnd HU Hq Hl Hd Hc.
    destruct (chain_snoc_inv _ _ _ _ _ Hc) as (_ & Hf & _).
    pose proof (find_some _ _ _ Hf) as [_ Hk]. unfold key in Hk.
    pose proof (l3_chain l1 q _ _ _ Hc) as Hc3. rewrite <- Hd in Hc3.
    set (g := flag_if (map sid (unsent (map seg_of q)))) in *.
    assert (Hf3 : find x (store d) = Some (g e)).
    { rewrite Hd. unfold g. rewrite (l3_find l1 q), Hf. reflexivity. }
    pose proof (bic_to_lib d x (g e) (map g (p ++ [e])) Hl) as B.
    assert (Eg : eb (g e) = eb e) by apply flag_if_eb. rewrite Eg in B. unfold bref. rewrite Hk.
    apply B.
    - rewrite Hd. apply l3_inU; assumption.
    - rewrite Hd. apply l3_nodup; assumption.
    - exact Hf3.
    - exact Hc3.
    - rewrite map_app. destruct (map g p); discriminate.
  Qed.

  Lemma trigger_finish s1 S b pP C R Uh junc :
    Inv s1 S -> In b U ->
    chain (store (db s1)) (bid b) (ri r0) (pP ++ [mkEntry b false]) ->
    pP = C ++ R ->
    Forall (fun e => esent e = true) C ->
    S = rev (map eb (C ++ Uh)) ->
    exists s3 evs,
      process_tail cfg s1 b (rev Uh) (filter esent R) junc (map seg_of (pP ++ [mkEntry b false])) None = (s3, evs, ROk) /\
      apply_all (ri r0) S evs = Some (rev (map eb (pP ++ [mkEntry b false]))) /\
      Inv s3 (rev (map eb (pP ++ [mkEntry b false]))) /\
      keys (store (db s3)) = keys (store (db s1)).
  Proof.
    intros HI Hb Hc HP HC HS.
    pose proof HI as [Hnd HU Hl Hlc Hh].
    set (en := mkEntry b false) in *. set (q := pP ++ [en]) in *.
    assert (Hq : forall e, In e q -> In e (store (db s1))) by (intros e He; eapply chain_in; eassumption).
    assert (HcP : chain (store (db s1)) (bparent b) (ri r0) pP).
    { destruct (chain_snoc_inv _ _ _ _ _ Hc) as (_ & _ & H). exact H. }
    rewrite HP in HcP.
    destruct (sent_prefix _ _ _ C R Hlc Hnd HcP eq_refl HC) as (Rs & Ru & HR & HRs & HRu).
    destruct (filter_sent_split Rs Ru HRs HRu) as [F1 F2].
    assert (Hun : filter (fun e => negb (esent e)) q = Ru ++ [en]).
    { unfold q. rewrite HP, HR, !filter_app, (filter_unsent_nil C HC), <- filter_app, F2. reflexivity. }
    destruct (process_tail_ok s1 b (rev Uh) (filter esent R) junc (map seg_of q)) as
      (s3 & evU & evR & evN & Hrun & HmU & HsU & HmR & HsR & HmN & HsN & Hst & Hex & Hlr & Hls).
    - exact Hl.
    - unfold q. destruct pP; discriminate.
    - intros d ls Hd He Hlb Hin.
      assert (Hld : lib_db d) by (destruct Hl as [A B]; split; congruence).
      destruct Hin as [Hin|Hold].
      + rewrite unsent_map, map_map in Hin. apply in_map_iff in Hin as (e & <- & Hin). cbn [sent seg_of].
        apply filter_In in Hin as [Hin _].
        rewrite (L_lib (eb e) (HU e (Hq e Hin))).
        apply in_split in Hin as (q1 & q2 & Heq). rewrite Heq in Hc.
        eapply (bic_marked _ q d _ q1 e Hnd HU Hq Hld Hd). eapply chain_prefix. exact Hc.
      + rewrite Hold in Hh. destruct Hh as (HhU & pH & HcH & Hne & _ & _).
        rewrite (L_lib ls HhU).
        destruct pH as [|eh pH'] using rev_ind; [congruence|]. clear IHpH'.
        destruct (chain_snoc_inv _ _ _ _ _ HcH) as (_ & Hfh & _).
        rewrite <- (stored_is_self _ _ _ HU HhU Hfh).
        eapply (bic_marked _ q d _ pH' eh Hnd HU Hq Hld Hd). exact HcH.
    - exists s3, (evU ++ evR ++ evN). split; [exact Hrun|].
      assert (Hkeys : keys (store (db s3)) = keys (store (db s1))) by (rewrite Hst; apply mark_all_keys).
      split; [|split; [|exact Hkeys]].
      + (* the consumer *)
        rewrite HS, map_app, rev_app_distr.
        rewrite (apply_all_app _ _ evU _ (rev (map eb C))).
        2:{ apply apply_undos; [exact HsU | rewrite HmU, map_rev; reflexivity]. }
        assert (HmRN : map eblk (evR ++ evN) = map eb (R ++ [en])).
        { rewrite map_app, HmR, HmN, unsent_map, map_map. cbn [sent seg_of].
          change (fun x : entry => eb x) with eb. rewrite Hun, HR, F1, <- map_app, app_assoc. reflexivity. }
        rewrite (apply_news (ri r0) (evR ++ evN) (map eb (R ++ [en])) (rev (map eb C))).
        * f_equal. unfold q. rewrite HP, <- app_assoc, (map_app eb C), rev_app_distr. reflexivity.
        * apply Forall_app. split; assumption.
        * exact HmRN.
        * destruct (chain_linked _ _ _ _ Hc) as [Hlk _]. unfold q in Hlk. rewrite HP, <- app_assoc, map_app in Hlk.
          apply linked_app in Hlk as [_ Hlk].
          destruct (rev (map eb C)); exact Hlk.
      + (* the invariant *)
        set (g := flag_if (map sid (unsent (map seg_of q)))).
        pose proof (l3_chain _ q _ _ _ Hc) as Hc3. fold g in Hc3.
        constructor.
        * rewrite Hst. apply l3_nodup; assumption.
        * rewrite Hst. apply l3_inU; assumption.
        * destruct Hl as [A B]. split; congruence.
        * rewrite Hst. eapply l3_lc; try eassumption. reflexivity.
        * rewrite Hls, unsent_map, Hun, map_app, rev_app_distr. cbn [map rev app sent seg_of eb en].
          split; [exact Hb|]. exists (map g q). rewrite Hst. split; [exact Hc3|].
          split; [unfold q; rewrite map_app; destruct (map g pP); discriminate|].
          split.
          -- rewrite map_map, rev_involutive. apply map_ext. intros a. apply flag_if_eb.
          -- apply Forall_forall. intros a Ha. apply in_map_iff in Ha as (a0 & <- & Ha0).
             apply (g_sent_q q a0 Ha0).
  Qed.

  (* ---------------------------------------------------------------- one ProcessBlock call *)

  Lemma rs_false_nil d : has_lib d = true -> forall f cur cn acc res,
    rs_loop f d first cur cn acc = Some (res, false) -> res = [].
  Proof.
    intros Hh. induction f as [|f IH]; intros cur cn acc res H; [discriminate|].
    cbn [rs_loop] in H. destruct ((first <? cn) && (cn <? rn (libref d))); [congruence|].
    destruct (cur =? ri (libref d)); [congruence|].
    destruct (find cur (store d)) as [e|]; [eapply IH; exact H|].
    rewrite Hh in H. congruence.
  Qed.

  Lemma fk_step_dropped s b : In b U -> dropped s b = true -> fk_step cfg s b = (s, [], ROk).
  Proof.
    intros Hb Hd. destruct (U_id b Hb) as (H1 & H3).
    unfold fk_step. destruct (N.eqb_spec (bid b) (bparent b)); [contradiction|].
    unfold dropped in Hd. rewrite Hd. reflexivity.
  Qed.

  (* what a step does to the set of blocks seen so far *)
  Definition Extras (s s' : fstate) (evs : list event) (b : block) : Prop :=
    (In (bid b) (keys (store (db s))) \/ dropped s b = true -> s' = s /\ evs = []) /\
    (forall x, In x (keys (store (db s))) -> In x (keys (store (db s')))) /\
    (last_sent s <> None -> last_sent s' <> None) /\
    (In (bid b) (keys (store (db s'))) \/ dropped s' b = true).

  Lemma extras_same s b : In (bid b) (keys (store (db s))) \/ dropped s b = true -> Extras s s [] b.
  Proof. intros H. repeat split; auto. Qed.

  Lemma extras_new s s' evs b : ~ In (bid b) (keys (store (db s))) -> dropped s b = false ->
    keys (store (db s')) = keys (store (db s)) ++ [bid b] ->
    (last_sent s <> None -> last_sent s' <> None) -> Extras s s' evs b.
  Proof.
    intros Hk Hd Hkeys Hls. repeat split.
    - destruct H as [H|H]; [contradiction | congruence].
    - destruct H as [H|H]; [contradiction | congruence].
    - intros x Hx. rewrite Hkeys. apply in_or_app. left. exact Hx.
    - exact Hls.
    - left. rewrite Hkeys. apply in_or_app. right. left. reflexivity.
  Qed.

  Lemma inv_sent_some s S : Inv s S -> S <> [] -> last_sent s <> None.
  Proof. intros HI HS Hn. destruct HI as [_ _ _ _ Hh]. rewrite Hn in Hh. destruct Hh as [-> _]. congruence. Qed.

  Lemma step_inv s S b : Inv s S -> In b U ->
    exists s' evs S', fk_step cfg s b = (s', evs, ROk) /\ apply_all (ri r0) S evs = Some S' /\ Inv s' S' /\
                      Extras s s' evs b.
  Proof.
    intros HI Hb.
    destruct (dropped s b) eqn:Hd.
    { exists s, [], S. rewrite (fk_step_dropped s b Hb Hd). split; [reflexivity|]. split; [reflexivity|]. split; [assumption|]. apply extras_same; auto. }
    pose proof HI as [Hnd HU Hl Hlc Hh].
    pose proof (wf_of_U _ Hnd HU) as Hwf.
    destruct (find (bid b) (store (db s))) as [e|] eqn:Hf.
    { exists s, [], S.
      assert (Hlz : ri (libref (db s)) <> 0) by (destruct Hl as [-> _]; exact L_id).
      rewrite (fk_step_old s b e HU Hb Hf Hwf (stored_root_unsent _ b e HU Hb Hf Hwf Hlc) Hlz).
      assert (In (bid b) (keys (store (db s)))).
      { destruct (in_dec N.eq_dec (bid b) (keys (store (db s)))) as [i|n]; [exact i|]. apply find_none in n. congruence. }
      split; [reflexivity|]. split; [reflexivity|]. split; [assumption|]. apply extras_same; auto. }
    (* a new block *)
    pose proof (inv_add s S b HI Hb Hf) as HI1.
    set (s1 := with_db s (new_db (db s) b)) in *.
    set (en := mkEntry b false).
    assert (Hk : ~ In (bid b) (keys (store (db s)))) by (apply find_none; exact Hf).
    assert (Hsw : exists u r j, sw_of s b = ScssOk u r j).
    { unfold sw_of. destruct (f_undo (c_filter cfg) && triggers cfg s b); [|eauto].
      destruct (last_sent s) as [ls|]; [apply scss_total; exact Hwf | eauto]. }
    destruct Hsw as (undos & redos & junc & Hsw).
    rewrite (fk_step_new s b undos redos junc Hl Hb Hf Hd Hsw). cbv zeta. fold s1.
    pose proof HI1 as [Hnd1 HU1 Hl1 Hlc1 Hh1].
    pose proof (wf_of_U _ Hnd1 HU1) as Hwf1.
    change (new_db (db s) b) with (db s1).
    destruct (rs_total (db s1) first Hwf1 (fuel_of (db s1)) (bid b) (bnum b) [] (enough_fuel_of _ _)) as [[longest reach] Hrs].
    unfold reversible_segment. cbn [bref ri rn]. rewrite Hrs.
    destruct (negb (triggers cfg s b) || match longest with [] => true | _ => false end) eqn:Hgo.
    { exists s1, [], S. split; [reflexivity|]. split; [reflexivity|]. split; [assumption|]. apply extras_new; auto.
      unfold s1. cbn [with_db db new_db store]. apply keys_snoc. }
    apply orb_false_iff in Hgo as [Htr Hlong]. apply negb_false_iff in Htr.
    (* the chain of the new block *)
    assert (Hfb : find (bid b) (store (db s1)) = Some en).
    { unfold s1. cbn [with_db db new_db store]. apply (find_snoc_new (store (db s)) en). exact Hk. }
    assert (Hshape : exists pP, chain (store (db s1)) (bid b) (ri r0) (pP ++ [en]) /\ longest = map seg_of (pP ++ [en])).
    { destruct reach.
      - destruct (chain_of_rs (db s1) (bid b) en longest Hl1 Hfb) as (p & Hc & Hp).
        { unfold reversible_segment. cbn [ri rn eb en]. exact Hrs. }
        destruct p as [|e' p'] using rev_ind.
        + subst longest. discriminate.
        + clear IHp'. destruct (chain_snoc_inv _ _ _ _ _ Hc) as (_ & Hf' & _). rewrite Hfb in Hf'. injection Hf' as <-.
          exists p'. auto.
      - apply (rs_false_nil (db s1) (has_lib_r0 _ Hl1)) in Hrs. subst longest. discriminate. }
    destruct Hshape as (pP & Hc & ->).
    destruct (chain_snoc_inv _ _ _ _ _ Hc) as (_ & _ & HcP). cbn [eb en] in HcP.
    assert (Hnin : ~ In en pP).
    { pose proof (chain_nodup _ _ _ _ Hwf1 Hc) as Hn. unfold keys in Hn. rewrite map_app in Hn.
      intros Hin. refine (nodup_app_disj _ _ (key en) Hn _ _); [apply in_map; exact Hin | left; reflexivity]. }
    assert (Hfin3 : forall s3 evs, Inv s3 (rev (map eb (pP ++ [en]))) -> keys (store (db s3)) = keys (store (db s1)) ->
                    Extras s s3 evs b).
    { intros s3 evs HI3 Hk3. apply extras_new; auto.
      - rewrite Hk3. unfold s1. cbn [with_db db new_db store]. apply keys_snoc.
      - intros _. apply (inv_sent_some _ _ HI3). rewrite map_app, rev_app_distr. discriminate. }
    assert (HcP0 : chain (store (db s)) (bparent b) (ri r0) pP).
    { apply (chain_restrict (store (db s)) en); assumption. }
    unfold sw_of in Hsw. rewrite Hundo, Htr in Hsw. cbn [andb] in Hsw.
    destruct (last_sent s) as [hd|] eqn:Hls.
    - destruct Hh as (HhU & pH & HcH & HneH & HmH & HsH).
      assert (HS : S = rev (map eb pH)) by (rewrite HmH, rev_involutive; reflexivity).
      destruct (N.eq_dec (bid hd) (bparent b)) as [Heq|Hneq].
      + unfold sent_chain_switch_segments in Hsw. rewrite Heq, N.eqb_refl in Hsw. injection Hsw as <- <- <-.
        rewrite Heq in HcH. pose proof (chain_det _ _ _ _ _ HcH HcP0) as ->.
        destruct (trigger_finish s1 S b pP pP [] [] None HI1 Hb Hc) as (s3 & evs & Hrun & Happ & HI3 & Hk3).
        * rewrite app_nil_r. reflexivity.
        * exact HsH.
        * rewrite app_nil_r. exact HS.
        * exists s3, evs, (rev (map eb (pP ++ [en]))). split; [exact Hrun|]. split; [exact Happ|]. split; [exact HI3|]. apply Hfin3; assumption.
      + destruct (scss_link (db s) (ri r0) (bid hd) (bparent b) pH pP Hwf L_id Hneq HcH HcP0) as (C & R & Uh & j & HP & HH & Hsc).
        { intros f t e0 Hu He0. exact (tail_disjoint (db s) pP (bparent b) Hl HU Hnd HcP0 f t e0 Hu He0). }
        rewrite Hsc in Hsw. injection Hsw as <- <- <-.
        destruct (trigger_finish s1 S b pP C R Uh j HI1 Hb Hc HP) as (s3 & evs & Hrun & Happ & HI3 & Hk3).
        * rewrite HH in HsH. apply Forall_app in HsH. tauto.
        * rewrite HS, HH. reflexivity.
        * exists s3, evs, (rev (map eb (pP ++ [en]))). split; [exact Hrun|]. split; [exact Happ|]. split; [exact HI3|]. apply Hfin3; assumption.
    - injection Hsw as <- <- <-. destruct Hh as [-> Hall].
      assert (Hfil : filter esent pP = []).
      { induction pP as [|a pP' IHp] using rev_ind; [reflexivity|].
        rewrite filter_app. cbn [filter].
        assert (Ha : esent a = false).
        { apply Hall. eapply chain_in; [exact HcP0 | apply in_or_app; right; left; reflexivity]. }
        rewrite Ha, app_nil_r. clear -Hall HcP0.
        (* all entries of pP' are unsent too *)
        assert (G : forall x, In x pP' -> esent x = false).
        { intros x Hx. apply Hall. eapply chain_in; [exact HcP0 | apply in_or_app; left; exact Hx]. }
        clear HcP0. induction pP' as [|h t IHt]; cbn [filter]; [reflexivity|].
        rewrite (G h (or_introl eq_refl)). apply IHt. intros x Hx. apply G. right. exact Hx. }
      destruct (trigger_finish s1 [] b pP [] pP [] None HI1 Hb Hc eq_refl (Forall_nil _) eq_refl) as (s3 & evs & Hrun & Happ & HI3 & Hk3).
      cbn [rev] in Hrun. rewrite Hfil in Hrun.
      exists s3, evs, (rev (map eb (pP ++ [en]))). split; [exact Hrun|]. split; [exact Happ|]. split; [exact HI3|]. apply Hfin3; assumption.
  Qed.

  (* ---------------------------------------------------------------- whole histories *)

  Definition Seen (s : fstate) (seen : list block) : Prop :=
    forall x, In x seen -> In x U /\ (In (bid x) (keys (store (db s))) \/ dropped s x = true).

  Lemma block_eqb_eq a b : block_eqb a b = true -> a = b.
  Proof.
    unfold block_eqb. intros H.
    repeat match goal with H : _ && _ = true |- _ => apply andb_true_iff in H as [? ?] end.
    destruct a, b. cbn in *.
    repeat match goal with H : (_ =? _) = true |- _ => apply N.eqb_eq in H end. congruence.
  Qed.

  Lemma dropped_mono s s' x : libref (db s') = libref (db s) -> (last_sent s <> None -> last_sent s' <> None) ->
    dropped s x = true -> dropped s' x = true.
  Proof.
    unfold dropped. intros -> Hm H. apply andb_true_iff in H as [H1 H2]. rewrite H1. cbn [andb].
    destruct (last_sent s) as [a|]; [|discriminate]. destruct (last_sent s'); [reflexivity|].
    exfalso. apply Hm; [discriminate | reflexivity].
  Qed.

  Lemma run_inv : forall h s S seen, Inv s S -> (forall b, In b h -> In b U) -> Seen s seen ->
    let t := fk_run cfg s h in
    length t = length h /\ Forall (fun x => snd x = ROk) t /\
    (exists S', apply_all (ri r0) S (all_events t) = Some S') /\
    c01_refeed_b seen h t = true.
  Proof.
    induction h as [|b h IH]; intros s S seen HI Hh Hseen.
    - cbn. repeat split; [constructor | exists S; reflexivity].
    - destruct (step_inv s S b HI (Hh b (or_introl eq_refl))) as (s' & evs & S' & Hstep & Happ & HI' & Hx1 & Hx2 & Hx3 & Hx4).
      cbn [fk_run]. rewrite Hstep.
      assert (Hseen' : Seen s' (b :: seen)).
      { intros x [<-|Hx].
        - split; [apply Hh; left; reflexivity | exact Hx4].
        - destruct (Hseen x Hx) as [HxU [Hk|Hd]]; split; auto.
          right. refine (dropped_mono s s' x _ Hx3 Hd).
          destruct (i_lib _ _ HI) as [-> _]. destruct (i_lib _ _ HI') as [-> _]. reflexivity. }
      destruct (IH s' S' (b :: seen) HI' (fun x Hx => Hh x (or_intror Hx)) Hseen') as (Hlen & Hok & (S2 & Happ2) & Hre).
      cbn zeta in *. repeat split.
      + cbn [length]. rewrite Hlen. reflexivity.
      + constructor; [reflexivity | exact Hok].
      + exists S2. unfold all_events. cbn [map concat fst]. fold (all_events (fk_run cfg s' h)).
        rewrite (apply_all_app _ _ _ _ _ Happ). exact Happ2.
      + cbn [c01_refeed_b]. rewrite Hre, andb_true_r.
        destruct (existsb (block_eqb b) seen) eqn:Hex; [|reflexivity].
        apply existsb_exists in Hex as (x & Hx & Heq). apply block_eqb_eq in Heq. subst x.
        destruct (Hseen b Hx) as [_ Hb]. destruct (Hx1 Hb) as [_ ->]. reflexivity.
  Qed.

  Lemma error_ok : forall t done, Forall (fun x : list event * result => snd x = ROk) t -> c01_error_b None done t = true.
  Proof.
    induction t as [|[evs r] t IH]; intros done H; [reflexivity|].
    inversion H as [|? ? Hr Ht]; subst. cbn [snd] in Hr. subst r. cbn [c01_error_b result_eqb negb andb].
    apply IH. exact Ht.
  Qed.

  Theorem fixed_lib_run h : (forall b, In b h -> In b U) ->
    let t := fk_run cfg (fs_init (LExcl r0)) h in
    length t = length h /\ Forall (fun x => snd x = ROk) t /\
    c01_discipline_b (LExcl r0) t = true /\ c01_refeed_b [] h t = true /\
    c01_error_b (c_fail_at cfg) 0 t = true.
  Proof.
    intros Hh. destruct (run_inv h (fs_init (LExcl r0)) [] [] inv_init Hh) as (Hlen & Hok & (S' & Happ) & Hre).
    { intros x []. }
    cbn zeta. repeat split; try assumption.
    - unfold c01_discipline_b, root_lib. rewrite Happ. reflexivity.
    - rewrite Hnofail. apply error_ok. exact Hok.
  Qed.

End FixedLib.
