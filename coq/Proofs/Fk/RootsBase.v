(* Blocks with an EMPTY parent id ("roots") on the Forkable model.
   AddLink's exists-check is `links[id] != ""`: a stored root is not recognised when it is fed again and is
   stored again with a fresh, unsent ForkableBlock.  What makes this harmless: a root is never delivered
   from the forkdb (ReversibleSegment from a root, or from a descendant of a root, never reaches a LIB with a
   non-empty id), so the stored entry of a root is always unsent and storing it again changes nothing; the
   rest of ProcessBlock then finds an empty longest chain.
   The base lemmas are in StoreFacts.v (put_same), WalkFacts.v (find_zero_wf, chain_parent_nz, rs_root) and
   FixedLib.v (add_link_root, lc_root_unsent); this file: ProcessBlock on a block that is already stored, for
   any includeInitialLIB flag. *)
From BV Require Import Base.Prelude Model.Block Model.ForkDB Model.Forkable Spec.Consumer
  Proofs.Fk.StoreFacts Proofs.Fk.WalkFacts Proofs.Fk.LoopFacts Proofs.Fk.StoreChange Proofs.Fk.SwitchFacts
  Proofs.Fk.FixedLib.
Local Open Scope N_scope.

Section Weak.
  Variable U : list block.
  Variable cfg : config.

  (* ids are non-empty and no block is its own parent; the parent id MAY be empty *)
  Hypothesis U_id : forall b, In b U -> bid b <> 0 /\ bid b <> bparent b.
  Hypothesis U_uniq : forall x y, In x U -> In y U -> bid x = bid y -> x = y.
  Hypothesis U_up : forall x y, In x U -> In y U -> bparent x = bid y -> bnum y < bnum x.

  Notation in_U := (in_U U).

  (* ProcessBlock on a block that is already stored, while a LIB is set and this is not the inclusive
     first delivery: nothing happens, whether its parent id is empty or not *)
  Lemma fk_step_old_w s b e : NoDup (keys (store (db s))) -> in_U (store (db s)) -> In b U ->
    find (bid b) (store (db s)) = Some e ->
    (bparent b = 0 -> esent e = false) ->
    ri (libref (db s)) <> 0 ->
    c_incl cfg && (match last_sent s with None => true | Some _ => false end) && (bid b =? ri (libref (db s))) = false ->
    fk_step cfg s b = (s, [], ROk).
  Proof.
    intros Hnd HU Hb Hf Hroot Hl Hni. destruct (U_id b Hb) as (H1 & H3).
    pose proof (wf_of_U U U_id U_up _ Hnd HU) as Hwf.
    unfold fk_step. destruct (N.eqb_spec (bid b) (bparent b)); [contradiction|].
    destruct ((bnum b <? rn (libref (db s))) && match last_sent s with Some _ => true | None => false end); [reflexivity|].
    rewrite Hni.
    assert (Hsw : exists u r j, (if f_undo (c_filter cfg) && triggers cfg s b
             then match last_sent s with Some ls => sent_chain_switch_segments (db s) (bid ls) (bparent b) | None => ScssOk [] [] None end
             else ScssOk [] [] None) = ScssOk u r j).
    { destruct (f_undo (c_filter cfg) && triggers cfg s b); [|eauto].
      destruct (last_sent s) as [ls|]; [apply scss_total; exact Hwf | eauto]. }
    destruct Hsw as (u & r & j & ->).
    destruct (N.eq_dec (bparent b) 0) as [E0|E0].
    - rewrite (add_link_root U U_id U_uniq _ _ _ Hnd HU Hb Hf E0 (Hroot E0)).
      rewrite (has_lib_nz _ Hl).
      assert (Hs : with_db s (db s) = s) by (destruct s; reflexivity). rewrite Hs.
      pose proof (stored_is_self U U_uniq _ _ _ HU Hb Hf) as Eb.
      destruct (rs_root (db s) (c_first cfg) (bid b) (bnum b) e Hwf Hl Hf) as [rr Hrs]; [rewrite Eb; exact E0|].
      unfold reversible_segment. cbn [bref ri rn]. rewrite Hrs. rewrite orb_true_r. reflexivity.
    - rewrite (add_link_old U U_id U_uniq _ _ _ HU Hb Hf E0). reflexivity.
  Qed.
End Weak.
