(* Blocks with an EMPTY parent id ("roots") on the Forkable model.
   AddLink's exists-check is `links[id] != ""`: a stored root is not recognised when it is fed again and is
   stored again with a fresh, unsent ForkableBlock.  What makes this harmless: a root is never delivered
   from the forkdb (ReversibleSegment from a root, or from a descendant of a root, never reaches a LIB with a
   non-empty id), so the stored entry of a root is always unsent and storing it again changes nothing; the
   rest of ProcessBlock then finds an empty longest chain.
   This file: the base lemmas of FixedLib.v under the WEAK id hypothesis (parent ids may be empty) and
   ProcessBlock on a root that is already stored. *)
From BV Require Import Base.Prelude Model.Block Model.ForkDB Model.Forkable Spec.Consumer
  Proofs.Fk.StoreFacts Proofs.Fk.WalkFacts Proofs.Fk.LoopFacts Proofs.Fk.StoreChange Proofs.Fk.SwitchFacts
  Proofs.Fk.FixedLib.
Local Open Scope N_scope.

(* storing an entry that is already stored, unchanged *)
Lemma put_same l e : NoDup (keys l) -> In e l -> put e l = l.
Proof.
  induction l as [|x l IH]; intros Hnd Hin; [destruct Hin|].
  cbn [keys map] in Hnd. fold (keys l) in Hnd. inversion Hnd as [|? ? Hx Hnd']; subst.
  cbn [put]. destruct (N.eqb_spec (bid (eb x)) (bid (eb e))) as [E|E].
  - destruct Hin as [->|Hin]; [reflexivity|].
    exfalso. apply Hx. unfold key. rewrite E. apply (in_map key). exact Hin.
  - destruct Hin as [->|Hin]; [congruence|]. f_equal. apply IH; assumption.
Qed.

Lemma has_lib_nz d : ri (libref d) <> 0 -> has_lib d = true.
Proof.
  intros H. unfold has_lib, ref_eqb, ref_empty. cbn [ri rn].
  destruct (N.eqb_spec (ri (libref d)) 0); [contradiction | reflexivity].
Qed.

(* ReversibleSegment from a stored root: nothing (the root is the LIB block itself, lies in the guard zone,
   or its empty parent link is not the LIB) *)
Lemma rs_root d first x cn e : wf_store (store d) -> ri (libref d) <> 0 ->
  find x (store d) = Some e -> bparent (eb e) = 0 ->
  exists r, rs_loop (fuel_of d) d first x cn [] = Some ([], r).
Proof.
  intros Hwf Hl Hf Hp. unfold fuel_of. cbn [rs_loop].
  destruct ((first <? cn) && (cn <? rn (libref d))); [eauto|].
  destruct (x =? ri (libref d)); [eauto|].
  rewrite Hf, Hp.
  destruct ((first <? num_or0 d 0) && (num_or0 d 0 <? rn (libref d))); [eauto|].
  destruct (N.eqb_spec 0 (ri (libref d))) as [E|_]; [exfalso; apply Hl; symmetry; exact E|].
  rewrite (find_zero_wf _ Hwf), (has_lib_nz d Hl). eauto.
Qed.

Section Weak.
  Variable U : list block.
  Variable cfg : config.

  (* ids are non-empty and no block is its own parent; the parent id MAY be empty *)
  Hypothesis U_id : forall b, In b U -> bid b <> 0 /\ bid b <> bparent b.
  Hypothesis U_uniq : forall x y, In x U -> In y U -> bid x = bid y -> x = y.
  Hypothesis U_up : forall x y, In x U -> In y U -> bparent x = bid y -> bnum y < bnum x.

  Notation in_U := (in_U U).

  Lemma wf_of_Uw l : NoDup (keys l) -> in_U l -> wf_store l.
  Proof.
    intros Hnd HU. constructor; [exact Hnd | intros e He; apply U_id; apply HU; exact He |].
    intros e p He Hp. pose proof (find_some _ _ _ Hp) as [Hpin Hk].
    apply U_up; [apply HU; exact He | apply HU; exact Hpin | symmetry; exact Hk].
  Qed.

  Lemma add_link_new_w d b : In b U -> find (bid b) (store d) = None ->
    add_link d b = (new_db d b, false).
  Proof.
    intros Hb Hf. destruct (U_id b Hb) as (H1 & H3).
    unfold add_link. destruct (N.eqb_spec (bid b) (bparent b)); [contradiction|].
    destruct (N.eqb_spec (bid b) 0); [contradiction|]. cbn [orb].
    unfold exists_link, link_of. rewrite Hf. cbn.
    unfold new_db. f_equal. f_equal. apply put_keys_new. apply find_none. exact Hf.
  Qed.

  (* a stored block with a non-empty parent id is recognised *)
  Lemma add_link_old_w d b e : in_U (store d) -> In b U -> find (bid b) (store d) = Some e ->
    bparent b <> 0 -> add_link d b = (d, true).
  Proof.
    intros HU Hb Hf H2. destruct (U_id b Hb) as (H1 & H3).
    unfold add_link. destruct (N.eqb_spec (bid b) (bparent b)); [contradiction|].
    destruct (N.eqb_spec (bid b) 0); [contradiction|]. cbn [orb].
    unfold exists_link, link_of. rewrite Hf.
    rewrite (stored_is_self U U_uniq _ _ _ HU Hb Hf).
    destruct (N.eqb_spec (bparent b) 0); [contradiction|]. reflexivity.
  Qed.

  (* a stored, unsent root is stored again: the forkdb does not change, AddLink answers "did not exist" *)
  Lemma add_link_root d b e : NoDup (keys (store d)) -> in_U (store d) -> In b U ->
    find (bid b) (store d) = Some e -> bparent b = 0 -> esent e = false ->
    add_link d b = (d, false).
  Proof.
    intros Hnd HU Hb Hf H2 Hs. destruct (U_id b Hb) as (H1 & H3).
    unfold add_link. destruct (N.eqb_spec (bid b) (bparent b)); [contradiction|].
    destruct (N.eqb_spec (bid b) 0); [contradiction|]. cbn [orb].
    unfold exists_link, link_of. rewrite Hf.
    pose proof (stored_is_self U U_uniq _ _ _ HU Hb Hf) as Eb. rewrite Eb, H2. cbn [N.eqb negb].
    assert (Ee : mkEntry b false = e) by (destruct e as [eb0 es0]; cbn in Eb, Hs; subst; reflexivity).
    rewrite Ee, (put_same _ e Hnd (proj1 (find_some _ _ _ Hf))). destruct d; reflexivity.
  Qed.

  Lemma fk_step_dropped_w s b : In b U -> dropped s b = true -> fk_step cfg s b = (s, [], ROk).
  Proof.
    intros Hb Hd. destruct (U_id b Hb) as (H1 & H3).
    unfold fk_step. destruct (N.eqb_spec (bid b) (bparent b)); [contradiction|].
    unfold dropped in Hd. rewrite Hd. reflexivity.
  Qed.

  (* ProcessBlock on a block that is already stored, while a LIB is set and this is not the inclusive
     first delivery: nothing happens, whether its parent id is empty or not *)
  Lemma fk_step_old_w s b e : NoDup (keys (store (db s))) -> in_U (store (db s)) -> In b U ->
    find (bid b) (store (db s)) = Some e ->
    (bparent b = 0 -> esent e = false) ->
    ri (libref (db s)) <> 0 ->
    c_incl cfg && (match last_sent s with None => true | Some _ => false end) && (bid b =? ri (libref (db s))) = false ->
    fk_step cfg s b = (s, [], ROk).
  Proof.
    intros Hnd HU Hb Hf Hroot Hl Hni. destruct (U_id b Hb) as (H1 & H3).
    pose proof (wf_of_Uw _ Hnd HU) as Hwf.
    unfold fk_step. destruct (N.eqb_spec (bid b) (bparent b)); [contradiction|].
    destruct ((bnum b <? rn (libref (db s))) && match last_sent s with Some _ => true | None => false end); [reflexivity|].
    rewrite Hni.
    assert (Hsw : exists u r j, (if f_undo (c_filter cfg) && triggers cfg s b
             then match last_sent s with Some ls => sent_chain_switch_segments (db s) (bid ls) (bparent b) | None => ScssOk [] [] None end
             else ScssOk [] [] None) = ScssOk u r j).
    { destruct (f_undo (c_filter cfg) && triggers cfg s b); [|eauto].
      destruct (last_sent s) as [ls|]; [apply scss_total; exact Hwf | eauto]. }
    destruct Hsw as (u & r & j & ->).
    destruct (N.eq_dec (bparent b) 0) as [E0|E0].
    - rewrite (add_link_root _ _ _ Hnd HU Hb Hf E0 (Hroot E0)).
      rewrite (has_lib_nz _ Hl).
      assert (Hs : with_db s (db s) = s) by (destruct s; reflexivity). rewrite Hs.
      pose proof (stored_is_self U U_uniq _ _ _ HU Hb Hf) as Eb.
      destruct (rs_root (db s) (c_first cfg) (bid b) (bnum b) e Hwf Hl Hf) as [rr Hrs]; [rewrite Eb; exact E0|].
      unfold reversible_segment. cbn [bref ri rn]. rewrite Hrs. rewrite orb_true_r. reflexivity.
    - rewrite (add_link_old_w _ _ _ HU Hb Hf E0). reflexivity.
  Qed.
End Weak.
