(* Moving LIB, part 1: the store after PurgeBeforeLIB (a filter of the association list), chains in a
   filtered store, strict order of heights along a chain. *)
From BV Require Import Base.Prelude Model.Block Model.ForkDB Model.Forkable
  Proofs.Fk.StoreFacts Proofs.Fk.WalkFacts Proofs.Fk.LoopFacts Proofs.Fk.StoreChange Proofs.Fk.SwitchFacts.
Local Open Scope N_scope.

(* ---------- filter on the store ---------- *)

Lemma in_filter_keys (f : entry -> bool) l k : In k (keys (filter f l)) -> In k (keys l).
Proof.
  unfold keys. intros H. apply in_map_iff in H as (e & Hk & He). apply filter_In in He as [He _].
  apply in_map_iff. exists e. auto.
Qed.

Lemma nodup_filter_keys (f : entry -> bool) l : NoDup (keys l) -> NoDup (keys (filter f l)).
Proof.
  induction l as [|a l IH]; intros H; cbn [filter]; [constructor|].
  cbn [keys map] in H. fold (keys l) in H. inversion H as [|? ? Ha Hl]; subst.
  destruct (f a); [|apply IH; exact Hl].
  cbn [keys map]. fold (keys (filter f l)). constructor; [|apply IH; exact Hl].
  intros Hin. apply Ha. eapply in_filter_keys. exact Hin.
Qed.

Lemma find_filter (f : entry -> bool) l x : NoDup (keys l) ->
  find x (filter f l) = match find x l with Some e => if f e then Some e else None | None => None end.
Proof.
  induction l as [|a l IH]; intros H; cbn [filter find]; [reflexivity|].
  cbn [keys map] in H. fold (keys l) in H. inversion H as [|? ? Ha Hl]; subst.
  destruct (N.eqb_spec (bid (eb a)) x) as [E|E].
  - destruct (f a) eqn:Fa.
    + cbn [find]. destruct (N.eqb_spec (bid (eb a)) x); [reflexivity | contradiction].
    + rewrite (IH Hl).
      assert (Hn : find x l = None). { apply find_none. rewrite <- E. exact Ha. }
      rewrite Hn. reflexivity.
  - destruct (f a) eqn:Fa.
    + cbn [find]. destruct (N.eqb_spec (bid (eb a)) x); [contradiction|]. apply IH. exact Hl.
    + apply IH. exact Hl.
Qed.

Lemma find_filter_some (f : entry -> bool) l x e : NoDup (keys l) ->
  find x (filter f l) = Some e -> find x l = Some e /\ f e = true.
Proof.
  intros Hnd H. rewrite (find_filter f l x Hnd) in H.
  destruct (find x l) as [e'|]; [|discriminate]. destruct (f e') eqn:F; [|discriminate].
  injection H as <-. auto.
Qed.

Lemma find_filter_keep (f : entry -> bool) l x e : NoDup (keys l) ->
  find x l = Some e -> f e = true -> find x (filter f l) = Some e.
Proof. intros Hnd H F. rewrite (find_filter f l x Hnd), H, F. reflexivity. Qed.

Lemma wf_store_filter (f : entry -> bool) l : wf_store l -> wf_store (filter f l).
Proof.
  intros [Hnd Hid Hup]. constructor.
  - apply nodup_filter_keys. exact Hnd.
  - intros e He. apply filter_In in He as [He _]. apply Hid. exact He.
  - intros e p He Hp. apply filter_In in He as [He _].
    apply (find_filter_some f l _ _ Hnd) in Hp as [Hp _]. apply (Hup e p He Hp).
Qed.

Lemma chain_filter (f : entry -> bool) l : NoDup (keys l) -> forall x y p, chain l x y p ->
  (forall e, In e p -> f e = true) -> chain (filter f l) x y p.
Proof.
  intros Hnd x y p Hc. induction Hc as [x|x y e p Hne Hf Hc IH]; intros Hall; [constructor|].
  econstructor; [exact Hne | |].
  - apply find_filter_keep; [exact Hnd | exact Hf | apply Hall; apply in_or_app; right; left; reflexivity].
  - apply IH. intros a Ha. apply Hall. apply in_or_app. left. exact Ha.
Qed.

(* ---------- heights along a chain ---------- *)

(* entries strictly below the top entry of a chain are strictly lower *)
Lemma chain_lt_top l y q z ez a : wf_store l -> chain l z y (q ++ [ez]) -> In a q ->
  bnum (eb a) < bnum (eb ez).
Proof.
  intros Hwf Hc Ha. destruct (chain_snoc_inv _ _ _ _ _ Hc) as (_ & Hf & Hq).
  destruct (find (bparent (eb ez)) l) as [e'|] eqn:F'.
  - pose proof (chain_le_top l y Hwf _ _ Hq a Ha e' F').
    pose proof (ws_up l Hwf ez e' (proj1 (find_some _ _ _ Hf)) F'). lia.
  - rewrite (chain_unstored _ _ _ _ F' Hq) in Ha. destruct Ha.
Qed.

(* in a chain A ++ a :: B every entry of B is strictly above a, every entry of A strictly below *)
Lemma chain_split_order l x y A a B : wf_store l -> chain l x y (A ++ a :: B) ->
  (forall e, In e B -> bnum (eb a) < bnum (eb e)) /\ (forall e, In e A -> bnum (eb e) < bnum (eb a)).
Proof.
  intros Hwf Hc. split.
  - revert x Hc. induction B as [|t B IH] using rev_ind; intros x Hc e He; [destruct He|].
    replace (A ++ a :: B ++ [t]) with ((A ++ a :: B) ++ [t]) in Hc by (rewrite <- app_assoc; reflexivity).
    apply in_app_or in He as [He|[<-|[]]].
    + destruct (chain_snoc_inv _ _ _ _ _ Hc) as (_ & _ & Hc'). eapply IH; eassumption.
    + eapply chain_lt_top; [exact Hwf | exact Hc | apply in_or_app; right; left; reflexivity].
  - intros e He. pose proof (chain_prefix l y B x A a Hc) as Hp.
    eapply chain_lt_top; [exact Hwf | exact Hp | exact He].
Qed.

(* all entries of a chain lie above n when every stored child of the bottom id does *)
Lemma chain_above l y n : wf_store l ->
  (forall e, In e l -> bparent (eb e) = y -> n < bnum (eb e)) ->
  forall x p, chain l x y p -> forall e, In e p -> n < bnum (eb e).
Proof.
  intros Hwf Hbot x p Hc. remember y as y' eqn:Ey in Hc.
  induction Hc as [x|x y' e p Hne Hf Hc IH]; intros a Ha; [destruct Ha|]. subst y'.
  specialize (IH eq_refl).
  apply in_app_or in Ha as [Ha|[<-|[]]]; [apply IH; exact Ha|].
  destruct p as [|e' p'] using rev_ind.
  - apply chain_nil_inv in Hc. apply Hbot; [apply find_some in Hf; tauto | exact Hc].
  - clear IHp'. destruct (chain_snoc_inv _ _ _ _ _ Hc) as (_ & Hf' & _).
    pose proof (ws_up l Hwf e e' (proj1 (find_some _ _ _ Hf)) Hf').
    assert (n < bnum (eb e')) by (apply IH; apply in_or_app; right; left; reflexivity).
    lia.
Qed.

(* the top entry of a non-empty chain *)
Lemma chain_top l x y p e : chain l x y (p ++ [e]) -> find x l = Some e /\ key e = x.
Proof.
  intros H. destruct (chain_snoc_inv _ _ _ _ _ H) as (_ & Hf & _). split; [exact Hf|].
  apply find_some in Hf. tauto.
Qed.

Lemma chain_keys_in l x y p e : chain l x y p -> In e p -> find (key e) l = Some e.
Proof.
  intros Hc. induction Hc as [x|x y a p Hne Hf Hc IH]; intros Hin; [destruct Hin|].
  apply in_app_or in Hin as [Hin|[<-|[]]]; [apply IH; exact Hin|].
  rewrite (proj2 (find_some _ _ _ Hf)). exact Hf.
Qed.

(* ---------- linked runs ---------- *)

Lemma linked_join y a c : linked y a -> linked (match rev a with t :: _ => bid t | [] => y end) c -> linked y (a ++ c).
Proof.
  revert y. induction a as [|h a IH]; intros y Ha Hc; cbn [app rev] in *; [exact Hc|].
  cbn [linked] in *. destruct Ha as [Hp Ha]. split; [exact Hp|]. apply IH; [exact Ha|].
  destruct (rev a) as [|t r] eqn:R; cbn [app] in Hc; exact Hc.
Qed.

Lemma linked_split y a c : linked y (a ++ c) ->
  linked y a /\ linked (match rev a with t :: _ => bid t | [] => y end) c.
Proof.
  revert y. induction a as [|h a IH]; intros y H; cbn [app linked rev] in *; [auto|].
  destruct H as [Hp H]. destruct (IH _ H) as [H1 H2]. split; [auto|].
  destruct (rev a) as [|t r] eqn:R; cbn [app]; exact H2.
Qed.
