(* C15 — arithmetic of lowBoundary and aligned numbers. *)
From BV Require Import Base.Prelude Model.BlockIndex.
Local Open Scope N_scope.

Lemma lb_le n c : low_boundary n c <= n.
Proof. unfold low_boundary. lia. Qed.

Lemma lb_eq n c : c <> 0 -> low_boundary n c = c * (n / c).
Proof.
  intros Hc. unfold low_boundary. pose proof (N.div_mod n c Hc) as H.
  remember (n / c) as q. remember (n mod c) as r. rewrite H at 1. apply N.add_sub.
Qed.

Lemma lb_mod n c : c <> 0 -> low_boundary n c mod c = 0.
Proof.
  intros Hc. rewrite (lb_eq n c Hc), N.mul_comm. apply N.mod_mul. exact Hc.
Qed.

Lemma lb_lt n c : c <> 0 -> n < low_boundary n c + c.
Proof.
  intros Hc. unfold low_boundary. pose proof (N.mod_lt n c Hc) as H. lia.
Qed.

Lemma aligned_step a b c : c <> 0 -> a mod c = 0 -> b mod c = 0 -> a < b -> a + c <= b.
Proof.
  intros Hc Ha Hb Hlt.
  apply N.div_exact in Ha; [|exact Hc]. apply N.div_exact in Hb; [|exact Hc].
  remember (a / c) as qa. remember (b / c) as qb. subst a b.
  assert (qa < qb) by (apply (N.mul_lt_mono_pos_l c); lia).
  assert (qa + 1 <= qb) by lia.
  assert (c * (qa + 1) <= c * qb) by (apply N.mul_le_mono_l; assumption).
  lia.
Qed.

Lemma aligned_add a c : c <> 0 -> a mod c = 0 -> (a + c) mod c = 0.
Proof.
  intros Hc Ha. replace (a + c) with (a + 1 * c) by lia. rewrite N.mod_add; assumption.
Qed.

Lemma aligned_sub a c : c <> 0 -> a mod c = 0 -> c <= a -> (a - c) mod c = 0.
Proof.
  intros Hc Ha Hle. apply N.div_exact in Ha; [|exact Hc].
  remember (a / c) as q. subst a. destruct (N.eq_dec q 0) as [->|Hq]; [lia|].
  replace (c * q - c) with ((q - 1) * c).
  - apply N.mod_mul. exact Hc.
  - rewrite N.mul_sub_distr_r. lia.
Qed.

(* an aligned number at or below n is at or below n's boundary *)
Lemma aligned_le_lb a n c : c <> 0 -> a mod c = 0 -> a <= n -> a <= low_boundary n c.
Proof.
  intros Hc Ha Hle.
  destruct (N.lt_ge_cases (low_boundary n c) a) as [Hlt|Hge]; [|exact Hge].
  pose proof (aligned_step _ _ c Hc (lb_mod n c Hc) Ha Hlt).
  pose proof (lb_lt n c Hc). lia.
Qed.

(* n below an aligned number: its whole bundle is below it *)
Lemma lb_below_aligned a n c : c <> 0 -> a mod c = 0 -> n < a -> low_boundary n c + c <= a.
Proof.
  intros Hc Ha Hlt. apply aligned_step; [exact Hc | apply lb_mod; exact Hc | exact Ha |].
  pose proof (lb_le n c). lia.
Qed.

(* the boundary of a number inside an aligned bundle is the bundle's base *)
Lemma lb_unique a n c : c <> 0 -> a mod c = 0 -> a <= n < a + c -> low_boundary n c = a.
Proof.
  intros Hc Ha [H1 H2].
  pose proof (aligned_le_lb a n c Hc Ha H1) as Hge.
  destruct (N.eq_dec (low_boundary n c) a) as [E|E]; [exact E|].
  assert (a < low_boundary n c) as Hlt by lia.
  pose proof (aligned_step _ _ c Hc Ha (lb_mod n c Hc) Hlt).
  pose proof (lb_le n c). lia.
Qed.
