(* C03 in discovery mode at full strength (Spec/C03_Disc_Spec.c03_discovery_full): the holding reference fcd_step
   establishes its LIB at the same call and on the same block as the model (Proofs/Fk/DiscCasesX.v), then both follow
   fc_step (Proofs/C03_DiscProofs.v); retention independence and noise deletion across the discovery. *)
From BV Require Import Base.Prelude Model.Block Model.ForkDB Model.Forkable Model.ForkableLookups
  Spec.Consumer Spec.Universe Spec.ForkChoice Spec.C01_Spec Spec.C01_Moving_Spec Spec.C01_Roots_Spec Spec.C03_Spec
  Spec.C04_Spec Spec.C04_Moving_Spec Spec.C03_Disc_Spec Check.Fk_Check Check.Fk_Props_Check
  Proofs.Fk.StoreFacts Proofs.Fk.WalkFacts Proofs.Fk.LoopFacts Proofs.Fk.StoreChange Proofs.Fk.SwitchFacts Proofs.Fk.FixedLib Proofs.Fk.FixedLibEvents
  Proofs.Fk.MovingLibStore Proofs.Fk.MovingLibInv Proofs.Fk.MovingLibFin Proofs.Fk.MovingLibDisc Proofs.Fk.MovingLibEvents
  Proofs.Fk.MovingLibChoice Proofs.Fk.MovingLibKept Proofs.Fk.DiscEvents Proofs.Fk.DiscCasesX
  Proofs.Fk.LoopFactsFail Proofs.C02_Proofs Proofs.C01_Roots_Proofs Proofs.C03_DiscProofs.
Local Open Scope N_scope.

(* ---------------------------------------------------------------- lists, lookups, maximal chains *)

Lemma lookup_none_of id : forall l, (forall x, In x l -> bid x <> id) -> lookup id l = None.
Proof.
  induction l as [|x l IH]; intros H; [reflexivity|]. cbn [lookup].
  destruct (N.eqb_spec (bid x) id) as [E|E]; [exfalso; exact (H x (or_introl eq_refl) E)|].
  apply IH. intros y Hy. apply H. right. exact Hy.
Qed.

Lemma max_chain_unique l : forall x y p, chain l x y p -> find y l = None ->
  forall y' p', chain l x y' p' -> find y' l = None -> p = p' /\ y = y'.
Proof.
  induction 1 as [x|x y e p Hne Hf Hc IH]; intros Hy y' p' Hc' Hy'.
  - inversion Hc' as [|? ? e' q Hne' Hf' Hc'']; subst; [auto | congruence].
  - inversion Hc' as [|? ? e' q Hne' Hf' Hc'']; subst; [congruence|].
    rewrite Hf in Hf'. injection Hf' as <-. destruct (IH Hy y' q Hc'' Hy') as [-> ->]. auto.
Qed.

Lemma split_unique_num : forall (A A2 B B2 : list entry) a a2, A ++ a :: B = A2 ++ a2 :: B2 ->
  (forall e, In e A -> bnum (eb e) < bnum (eb a)) -> (forall e, In e B -> bnum (eb a) < bnum (eb e)) ->
  bnum (eb a2) = bnum (eb a) -> A = A2 /\ a = a2 /\ B = B2.
Proof.
  induction A as [|x A IH]; intros A2 B B2 a a2 E HA HB Hn.
  - destruct A2 as [|x2 A2]; cbn [app] in E.
    + injection E as -> ->. auto.
    + injection E as -> E. exfalso. assert (Hin : In a2 B) by (rewrite E; apply in_or_app; right; left; reflexivity).
      specialize (HB a2 Hin). lia.
  - destruct A2 as [|x2 A2]; cbn [app] in E.
    + injection E as -> E. exfalso. specialize (HA a2 (or_introl eq_refl)). lia.
    + injection E as -> E. destruct (IH A2 B B2 a a2 E) as (-> & -> & ->); [intros e He; apply HA; right; exact He | exact HB | exact Hn|]. auto.
Qed.

(* ---------------------------------------------------------------- the reference's ancestor walk over received blocks *)

Section Walk.
  Variable U : list block.
  Hypothesis U_uniq : forall x y, In x U -> In y U -> bid x = bid y -> x = y.

  Variable l : list entry.        (* the buffer *)
  Variable recv : list block.     (* the blocks the reference has received *)
  Hypothesis HlU : in_U U l.
  Hypothesis HrU : forall x, In x recv -> In x U.
  Hypothesis Hsr : forall e, In e l -> In (eb e) recv.
  Hypothesis Hrs : forall x, In x recv -> In (bid x) (keys l).

  Lemma lookup_recv x : In x recv -> lookup (bid x) recv = Some x.
  Proof.
    intros Hx. destruct (lookup_exists recv x Hx) as [b' Hb']. destruct (lookup_sound _ _ _ Hb') as [Hin Hid].
    rewrite Hb'. f_equal. apply U_uniq; auto.
  Qed.

  Lemma lookup_stored id e : find id l = Some e -> lookup id recv = Some (eb e).
  Proof.
    intros Hf. apply find_some in Hf as [Hin Hk]. rewrite <- Hk. apply (lookup_recv (eb e)). apply Hsr. exact Hin.
  Qed.

  Lemma lookup_unstored id : find id l = None -> lookup id recv = None.
  Proof.
    intros Hf. apply lookup_none_of. intros x Hx E. apply find_none in Hf. apply Hf. rewrite <- E. apply Hrs. exact Hx.
  Qed.

  (* the stored entry at the top of a chain that ends in the stored entry a *)
  Lemma walk_found a h : bnum (eb a) = h -> find (key a) l = Some a ->
    forall x p, chain l x (key a) p -> (forall e, In e p -> h < bnum (eb e)) ->
    forall top, find x l = Some top -> forall fuel, (length p < fuel)%nat ->
    ancestor_at fuel recv (eb top) h = Some (eb a).
  Proof.
    intros Hh Hfa. induction 1 as [x|x y e p Hne Hf Hc IH]; intros Hgt top Hft fuel Hfuel.
    - rewrite Hfa in Hft. injection Hft as <-. destruct fuel as [|f]; [cbn in Hfuel; lia|].
      cbn [ancestor_at]. rewrite Hh, N.eqb_refl. reflexivity.
    - rewrite Hf in Hft. injection Hft as <-. rewrite app_length in Hfuel. cbn [length] in Hfuel.
      destruct fuel as [|f]; [lia|]. cbn [ancestor_at].
      assert (Hge : h < bnum (eb e)) by (apply Hgt; apply in_or_app; right; left; reflexivity).
      destruct (N.eqb_spec (bnum (eb e)) h) as [E|_]; [lia|]. destruct (N.ltb_spec (bnum (eb e)) h) as [E|_]; [lia|].
      assert (Hnext : exists top', find (bparent (eb e)) l = Some top').
      { destruct p as [|e' p0 _] using rev_ind.
        - apply chain_nil_inv in Hc. rewrite Hc. eauto.
        - destruct (chain_top _ _ _ _ _ Hc) as [Hf' _]. eauto. }
      destruct Hnext as [top' Hft']. rewrite (lookup_stored _ _ Hft').
      apply (IH Hfa (fun e0 He0 => Hgt e0 (in_or_app _ _ _ (or_introl He0))) top' Hft' f). lia.
  Qed.

  (* a chain that ends in an unstored id and never comes down to h: the walk finds nothing *)
  Lemma walk_hold h : forall x y p, chain l x y p -> find y l = None -> (forall e, In e p -> h < bnum (eb e)) ->
    forall top, find x l = Some top -> forall fuel, ancestor_at fuel recv (eb top) h = None.
  Proof.
    induction 1 as [x|x y e p Hne Hf Hc IH]; intros Hy Hgt top Hft fuel; [congruence|].
    rewrite Hf in Hft. injection Hft as <-. destruct fuel as [|f]; [reflexivity|]. cbn [ancestor_at].
    assert (Hge : h < bnum (eb e)) by (apply Hgt; apply in_or_app; right; left; reflexivity).
    destruct (N.eqb_spec (bnum (eb e)) h) as [E|_]; [lia|]. destruct (N.ltb_spec (bnum (eb e)) h) as [E|_]; [lia|].
    destruct (find (bparent (eb e)) l) as [top'|] eqn:Hft'.
    - rewrite (lookup_stored _ _ Hft').
      exact (IH Hy (fun e0 He0 => Hgt e0 (in_or_app _ _ _ (or_introl He0))) top' eq_refl f).
    - rewrite (lookup_unstored _ Hft'). reflexivity.
  Qed.
End Walk.

(* ---------------------------------------------------------------- once a LIB is known the holding reference is fc_step *)

Lemma ancestor_at_in : forall fuel recv b h a, ancestor_at fuel recv b h = Some a -> a = b \/ In a recv.
Proof.
  induction fuel as [|f IH]; intros recv b h a H; [discriminate|]. cbn [ancestor_at] in H.
  destruct (bnum b =? h); [injection H as <-; left; reflexivity|]. destruct (bnum b <? h); [discriminate|].
  destruct (lookup (bparent b) recv) as [p|] eqn:Lp; [|discriminate].
  destruct (IH recv p h a H) as [->|Hin]; [|right; exact Hin]. right. exact (proj1 (lookup_sound _ _ _ Lp)).
Qed.

Definition Live (fc : fc_state) : Prop := ri (fc_lib fc) <> 0 /\ forall x, In x (fc_recv fc) -> bid x <> 0.

Lemma live_step first alltrig fc b : Live fc -> bid b <> 0 ->
  fcd_step first alltrig fc b = fc_step first false alltrig fc b /\ Live (fc_step first false alltrig fc b).
Proof.
  intros [Hl Hr] Hb. split.
  - unfold fcd_step. destruct (N.eqb_spec (ri (fc_lib fc)) 0) as [E|_]; [contradiction | reflexivity].
  - unfold fc_step, Live. cbn [andb].
    destruct ((bnum b <? rn (fc_lib fc)) && match fc_tip fc with Some _ => true | None => false end); [split; assumption|].
    destruct (lookup (bid b) (fc_recv fc)); [split; assumption|].
    assert (Hr' : forall x, In x (b :: fc_recv fc) -> bid x <> 0) by (intros x [<-|Hx]; [exact Hb | exact (Hr x Hx)]).
    match goal with |- context [if ?c then _ else _] => destruct c end; [|cbn; split; assumption].
    destruct (ancestor_at _ _ _ _) as [a|] eqn:Ea; [|cbn; split; assumption].
    destruct (rn (fc_lib fc) <? bnum a); cbn; [|split; assumption]. split; [|exact Hr'].
    apply ancestor_at_in in Ea as [->|Hin]; [exact Hb | exact (Hr' a Hin)].
Qed.

Section AfterG.
  Variable cfg : config.
  Hypothesis Hincl : c_incl cfg = false.
  Notation step := (fcd_step (c_first cfg) (c_alltrig cfg)).

  Lemma follows_g L : forall h t fc st fin, Live fc -> (forall b, In b h -> bid b <> 0) ->
    c03_follows cfg L fc st fin h t -> c03g_follows step (f_irr (c_filter cfg)) L fc st fin h t.
  Proof.
    induction h as [|b h IH]; intros t fc st fin HL Hh H; [exact I|]. destruct t as [|[evs r] t]; [exact I|].
    cbn [c03_follows c03g_follows] in *. rewrite Hincl in H.
    destruct (live_step (c_first cfg) (c_alltrig cfg) fc b HL (Hh b (or_introl eq_refl))) as [E HL']. rewrite E.
    destruct H as (st' & H1 & H2 & H3 & H4 & H5). exists st'. repeat (split; [assumption|]).
    apply IH; [exact HL' | intros x Hx; apply Hh; right; exact Hx | exact H5].
  Qed.

  Lemma noise_g : forall h t fc, Live fc -> (forall b, In b h -> bid b <> 0) ->
    c03_noise cfg fc h t -> c03g_noise step fc h t.
  Proof.
    induction h as [|b h IH]; intros t fc HL Hh H; [exact I|]. destruct t as [|[evs r] t]; [exact I|].
    cbn [c03_noise c03g_noise] in *. rewrite Hincl in H.
    destruct (live_step (c_first cfg) (c_alltrig cfg) fc b HL (Hh b (or_introl eq_refl))) as [E HL']. rewrite E.
    destruct H as [H1 H2]. split; [exact H1|]. apply IH; [exact HL' | intros x Hx; apply Hh; right; exact Hx | exact H2].
  Qed.
End AfterG.

(* ---------------------------------------------------------------- whole histories *)

Section DiscFull.
  Variable U : list block.
  Variable cfg : config.

  Hypothesis Hnofail : c_fail_at cfg = None.
  Hypothesis Hnew : f_new (c_filter cfg) = true.
  Hypothesis Hundo : f_undo (c_filter cfg) = true.
  Hypothesis Hhold : c_hold cfg = true.
  Hypothesis Hincl : c_incl cfg = false.

  Hypothesis U_id : forall b, In b U -> bid b <> 0 /\ bid b <> bparent b.
  Hypothesis U_uniq : forall x y, In x U -> In y U -> bid x = bid y -> x = y.
  Hypothesis U_up : forall x y, In x U -> In y U -> bparent x = bid y -> bnum y < bnum x.
  Hypothesis D_decl : forall b, In b U -> decl_none U b.

  Notation PreInv := (PreInv U cfg).
  Notation first := (c_first cfg).
  Notation step := (fcd_step (c_first cfg) (c_alltrig cfg)).
  Notation firr := (f_irr (c_filter cfg)).

  (* the reported head follows the tip after the discovery *)
  Lemma run_heads a : In a U -> forall h s Fin S fc fc2,
    Inv U (R a) cfg s Fin S -> Ext s Fin -> FcRel U fc s Fin S -> same_but_final fc fc2 -> Live fc2 ->
    (forall b, In b h -> In b U) -> c03g_heads step fc2 h (fk_obs cfg s h).
  Proof.
    intros HaU. induction h as [|b h IH]; intros s Fin S fc fc2 HI HX HR Hs HL Hh; [exact I|].
    assert (Hb : In b U) by (apply Hh; left; reflexivity).
    destruct (stepev_c03 U (R a) cfg s Fin S b _
                (step_ev U (R a) cfg Hnofail Hnew Hundo U_id U_uniq U_up
                   (R_id U U_id a HaU) (R_num U U_uniq a HaU) (R_up U U_up a HaU) (R_decl U U_uniq D_decl a HaU) s Fin S b HI HX Hb))
      as (s' & Fnew & S' & evs & Hstep & HI' & HX' & Hkind & _).
    pose proof (fc_follows_step U (R a) cfg U_id U_uniq U_up
                  (R_id U U_id a HaU) (R_num U U_uniq a HaU) (R_up U U_up a HaU) (R_decl U U_uniq D_decl a HaU)
                  fc s s' Fin Fnew S S' b HR HI HI' HX' Hb Hkind) as HR'.
    unfold fstep in HR'. rewrite Hincl in HR'.
    destruct (live_step first (c_alltrig cfg) fc2 b HL (proj1 (U_id b Hb))) as [E HL'].
    destruct (fc_step_final first false (c_alltrig cfg) fc fc2 b Hs) as [Hs' _]. cbv zeta in Hs'.
    cbn [fk_obs c03g_heads]. rewrite Hstep. cbn [c03g_heads o_head]. rewrite E. split.
    - destruct Hs' as (_ & _ & <-). rewrite (fr_tip U _ _ _ _ HR'). reflexivity.
    - exact (IH s' (Fin ++ Fnew) S' _ _ HI' HX' HR' Hs' HL' (fun x Hx => Hh x (or_intror Hx))).
  Qed.

  (* the reference before the discovery: it has received exactly the blocks of the buffer *)
  Record PRel (fc : fc_state) (s : fstate) : Prop := mkPRel {
    pr_lib : fc_lib fc = ref_empty; pr_tip : fc_tip fc = None; pr_final : fc_final fc = None;
    pr_inU : forall x, In x (fc_recv fc) -> In x U;
    pr_stored : forall x, In x (fc_recv fc) -> In (bid x) (keys (store (db s)));
    pr_recv : forall e, In e (store (db s)) -> In (eb e) (fc_recv fc)
  }.

  (* the run after an establishing step, against the reference with every block received so far *)
  Lemma handover s b s' a Fin pre recv h :
    In b U -> (forall x, In x h -> In x U) ->
    (forall x, In x recv -> In x U) ->
    (forall x, In x recv -> In (bid x) (keys (store (db s)))) ->
    (forall id, In id (keys (store (db s))) -> exists x, In x recv /\ bid x = id) ->
    In a U -> apply_all (bid a) [] (disc_events cfg b a (pre ++ [b])) = Some (rev (pre ++ [b])) ->
    Inv U (R a) cfg s' Fin (rev (pre ++ [b])) ->
    ((a = b /\ Fin = [b]) \/ Fin = []) ->
    libref (db s') = R a -> last_lib_seen s' = R a -> last_sent s' = Some b ->
    In (bid a) (keys (store (db s'))) ->
    (forall x, In x U -> In (bid x) (keys (store (db s)) ++ [bid b]) ->
               In (bid x) (keys (store (db s'))) \/ bnum x < bnum a - c_kept cfg) ->
    (forall id, In id (keys (store (db s'))) -> In id (keys (store (db s)) ++ [bid b])) ->
    let evs := disc_events cfg b a (pre ++ [b]) in
    let fc1 := mkFC (b :: recv) (bref a) (Some b) (Some a) in
    c03g_follows step firr (bid a) fc1 (rev (pre ++ [b])) (last_final None evs) h (fk_run cfg s' h) /\
    c03g_heads step fc1 h (fk_obs cfg s' h) /\
    c03g_noise step fc1 h (fk_run cfg s' h).
  Proof.
    intros Hb Hh HrU Hrs Hsr HaU Happ' HI' Hcase Hl' Hlls' Hls' Hka Hret Hsub evs fc1.
    set (S' := rev (pre ++ [b])) in *.
    assert (Htop : hd_error S' = Some b) by (unfold S'; rewrite rev_app_distr; reflexivity).
    assert (Hpath : on_path (bid a) S') by (exact (apply_all_path (bid a) _ [] S' I Happ')).
    assert (Hlf : last_final None evs = if firr then Some a else None) by (apply last_final_disc).
    set (fc0 := mkFC (b :: recv) (R a) (Some b) (hd_error (rev Fin))).
    assert (HR0 : FcRel U fc0 s' Fin S').
    { constructor; cbn [fc_lib fc_tip fc_final fc_recv fc0].
      - symmetry. exact Hl'.
      - symmetry. exact Hls'.
      - rewrite Hls', Htop. reflexivity.
      - reflexivity.
      - intros x [<-|Hx]; [exact Hb | apply HrU; exact Hx].
      - intros id Hid. apply Hsub in Hid. apply in_app_or in Hid as [Hid|[<-|[]]].
        + destruct (Hsr id Hid) as (x & Hx & E). cbn [map]. right. rewrite <- E. apply in_map. exact Hx.
        + left. reflexivity.
      - intros x Hx.
        assert (HxU : In x U) by (destruct Hx as [<-|Hx]; [exact Hb | apply HrU; exact Hx]).
        assert (Hxk : In (bid x) (keys (store (db s)) ++ [bid b])).
        { destruct Hx as [<-|Hx]; [apply in_or_app; right; left; reflexivity | apply in_or_app; left; apply Hrs; exact Hx]. }
        destruct (Hret x HxU Hxk) as [G|G]; [left; exact G|]. right.
        unfold dropped. rewrite Hl', Hls'. cbn [R rn]. rewrite andb_true_r. apply N.ltb_lt. lia. }
    pose proof (disc_ext U U_id s' a Fin HaU Hl' Hlls' Hka) as HX'.
    destruct (run_follows U (R a) cfg Hnofail Hnew Hundo U_id U_uniq U_up
                (R_id U U_id a HaU) (R_num U U_uniq a HaU) (R_up U U_up a HaU) (R_decl U U_uniq D_decl a HaU)
                h s' Fin S' fc0 (hd_error (rev Fin)) HI' HX' HR0 Hpath (fun _ => eq_refl) Hh) as (F1 & _ & F3).
    cbn [R ri] in F1.
    assert (Hsame : same_but_final fc0 fc1) by (repeat split).
    assert (HL1 : Live fc1).
    { split; [exact (proj1 (U_id a HaU))|]. intros x [<-|Hx]; [exact (proj1 (U_id b Hb)) | exact (proj1 (U_id x (HrU x Hx)))]. }
    assert (Hh0 : forall x, In x h -> bid x <> 0) by (intros x Hx; exact (proj1 (U_id x (Hh x Hx)))).
    split; [|split].
    - apply (follows_g cfg Hincl (bid a) h _ fc1 S' _ HL1 Hh0).
      apply (follows_transfer cfg (bid a) h _ fc0 fc1 S' (hd_error (rev Fin)) (last_final None evs) Hsame).
      + cbn [fc_final fc0 fc1]. destruct Hcase as [(-> & ->)| ->]; [left; reflexivity | right; reflexivity].
      + intros E. split; [reflexivity|]. rewrite Hlf, E. reflexivity.
      + exact F1.
    - exact (run_heads a HaU h s' Fin S' fc0 fc1 HI' HX' HR0 Hsame HL1 Hh).
    - apply (noise_g cfg Hincl h _ fc1 HL1 Hh0). exact (noise_transfer cfg h _ _ _ Hsame F3).
  Qed.

  (* the root the stream names: the cursor LIB of its first event *)
  Definition FirstLib (L : N) (t : trace) : Prop :=
    match all_events t with e :: _ => ri (elib e) = L | [] => True end.

  Lemma first_lib_quiet L t : FirstLib L (([], ROk) :: t) -> FirstLib L t.
  Proof. intros H. exact H. Qed.

  Lemma disc_events_inj b a l1 l2 : disc_events cfg b a l1 = disc_events cfg b a l2 -> l1 = l2.
  Proof.
    unfold disc_events. intros H. apply app_inv_tail in H. unfold fresh_events in H.
    apply (f_equal (map eblk)) in H. rewrite !map_map in H. cbn [eblk] in H. rewrite !map_id in H. exact H.
  Qed.

  Lemma disc_run_full : forall h s fc, PreInv s -> PRel fc s -> (forall b, In b h -> In b U) ->
    forall L, FirstLib L (fk_run cfg s h) ->
    c03g_follows step firr L fc [] None h (fk_run cfg s h) /\
    c03g_heads step fc h (fk_obs cfg s h) /\
    c03g_noise step fc h (fk_run cfg s h).
  Proof.
    induction h as [|b h IH]; intros s fc HP HR Hh L HL; [repeat split|].
    assert (Hb : In b U) by (apply Hh; left; reflexivity).
    assert (Hh' : forall x, In x h -> In x U) by (intros x Hx; apply Hh; right; exact Hx).
    pose proof HR as [Rl Rt Rf RU Rs Rr].
    assert (Hhold0 : ri (fc_lib fc) =? 0 = true) by (rewrite Rl; reflexivity).
    assert (Hsr : forall id, In id (keys (store (db s))) -> exists x, In x (fc_recv fc) /\ bid x = id).
    { intros id Hid. apply in_map_iff in Hid as (e & <- & He). exists (eb e). split; [apply Rr; exact He | reflexivity]. }
    (* a quiet call that leaves the reference at fc' *)
    assert (Hquiet : forall s1 fc', fk_step cfg s b = (s1, [], ROk) -> step fc b = fc' -> PreInv s1 -> PRel fc' s1 ->
              c03g_follows step firr L fc [] None (b :: h) (fk_run cfg s (b :: h)) /\
              c03g_heads step fc (b :: h) (fk_obs cfg s (b :: h)) /\
              c03g_noise step fc (b :: h) (fk_run cfg s (b :: h))).
    { intros s1 fc' Hstep Hfc HP1 HR1. cbn [fk_run fk_obs] in HL |- *. rewrite Hstep in HL |- *.
      destruct (IH s1 fc' HP1 HR1 Hh' L (first_lib_quiet L _ HL)) as (I1 & I2 & I3).
      cbn [c03g_follows c03g_heads c03g_noise o_head]. rewrite Hfc.
      pose proof HR1 as [Rl1 Rt1 Rf1 _ _ _].
      split; [|split].
      - exists []. split; [reflexivity|]. split; [rewrite Rt1; reflexivity|]. split; [exact I|].
        split; [intros _; rewrite Rf1; reflexivity | exact I1].
      - split; [unfold head_info; rewrite (pre_last U cfg s1 HP1), Rt1; reflexivity | exact I2].
      - split; [intros _ _; reflexivity | exact I3]. }
    (* an establishing call *)
    assert (Hestab : forall a, (bnum b = first \/ ancestor_at (S (length (b :: fc_recv fc))) (b :: fc_recv fc) b (blib b) = Some a) ->
              (bnum b = first -> a = b) ->
              ~ In (bid b) (keys (store (db s))) -> DiscEv U cfg s b (fk_step cfg s b) ->
              (forall s' evs r, fk_step cfg s b = (s', evs, r) -> libref (db s') = R a) ->
              c03g_follows step firr L fc [] None (b :: h) (fk_run cfg s (b :: h)) /\
              c03g_heads step fc (b :: h) (fk_obs cfg s (b :: h)) /\
              c03g_noise step fc (b :: h) (fk_run cfg s (b :: h))).
    { intros a Hanc Hfa Hnk (s' & a' & Fin & pre & Hstep & HaU & Hab & Happ & HI' & Hcase & Hl' & Hlls' & Hls' & Hka & Hret & Hsub & _) Hlib.
      assert (a' = a).
      { pose proof (Hlib _ _ _ Hstep) as E. rewrite Hl' in E. injection E as E1 E2.
        (* both are blocks of U: a' by DiscEv; a through its id *)
        destruct Hcase as [(-> & _)|(Hks & _)].
        - destruct Hanc as [Hf|Hanc]; [symmetry; apply Hfa; exact Hf|].
          apply ancestor_at_in in Hanc as [->|[<-|Hin]]; try reflexivity.
          apply U_uniq; [exact Hb | apply RU; exact Hin | exact E1].
        - destruct Hanc as [Hf|Hanc]; [rewrite (Hfa Hf) in E1; exfalso; apply Hnk; rewrite <- E1; exact Hks|].
          apply ancestor_at_in in Hanc as [->|[<-|Hin]].
          + exfalso. apply Hnk. rewrite <- E1. exact Hks.
          + exfalso. apply Hnk. rewrite <- E1. exact Hks.
          + apply U_uniq; [exact HaU | apply RU; exact Hin | exact E1]. }
      subst a'.
      assert (Hfc : step fc b = mkFC (b :: fc_recv fc) (bref a) (Some b) (Some a)).
      { unfold fcd_step. rewrite Hhold0.
        rewrite (lookup_none_of (bid b) (fc_recv fc)).
        2:{ intros x Hx E. apply Hnk. rewrite <- E. apply Rs. exact Hx. }
        destruct (N.eqb_spec (bnum b) first) as [Hf|Hf]; [rewrite (Hfa Hf); reflexivity|].
        destruct Hanc as [Hf'|Hanc]; [contradiction|]. rewrite Hanc. reflexivity. }
      pose proof (disc_events_apply cfg b a pre Happ) as Happ'. cbn [R ri] in Happ'.
      assert (Hcase' : (a = b /\ Fin = [b]) \/ Fin = []) by (destruct Hcase as [(H1 & _ & H3)|(_ & _ & H3)]; auto).
      destruct (handover s b s' a Fin pre (fc_recv fc) h Hb Hh' RU Rs Hsr HaU Happ' HI' Hcase' Hl' Hlls' Hls' Hka Hret Hsub)
        as (I1 & I2 & I3).
      set (evs := disc_events cfg b a (pre ++ [b])) in *.
      assert (HLa : L = bid a).
      { cbn [fk_run] in HL. rewrite Hstep in HL. unfold FirstLib in HL.
        destruct (disc_events_first cfg b a pre) as (e & rest & He & Hel). fold evs in He.
        rewrite all_events_cons in HL. cbn [fst] in HL. rewrite He in HL. cbn [app] in HL. rewrite Hel in HL. symmetry. exact HL. }
      subst L. cbn [fk_run fk_obs]. rewrite Hstep. cbn [c03g_follows c03g_heads c03g_noise o_head]. rewrite Hfc.
      split; [|split].
      - exists (rev (pre ++ [b])). split; [exact Happ'|]. split; [rewrite rev_app_distr; reflexivity|].
        split; [exact (apply_all_path (bid a) _ [] _ I Happ')|].
        split; [intros E; cbn [fc_final]; unfold evs; rewrite (last_final_disc cfg b a (pre ++ [b])), E; reflexivity | exact I1].
      - split; [unfold head_info; rewrite Hls'; reflexivity | exact I2].
      - split; [|exact I3]. cbn [fc_tip]. rewrite Rt. discriminate. }
    destruct (disc_cases_x U cfg Hhold Hincl U_id U_uniq U_up D_decl s b HP Hb)
      as [[Hk Hstep]|(Hnk & [[Hcond Hstep]|[(Hnf & y & A & a0 & B' & Hc & Hy & Hna & Hstep)|(Hnf & (y & p' & Hc & Hy & Hgt) & Hstep & HP1)]])].
    - (* received before: ignored by both *)
      apply (Hquiet s fc Hstep); [|exact HP | exact HR].
      unfold fcd_step. rewrite Hhold0. destruct (Hsr _ Hk) as (x & Hx & E).
      destruct (lookup_exists (fc_recv fc) x Hx) as [b' Hb']. rewrite <- E, Hb'. reflexivity.
    - (* the block is its own LIB / the first streamable block *)
      assert (Hf : find (bid b) (store (db s)) = None) by (apply find_none; exact Hnk).
      destruct (own_x U cfg Hnofail Hnew s b HP Hb Hf) as (s1 & Hx & Hdb1 & _).
      apply (Hestab b).
      + destruct Hcond as [Hfi|Hbl]; [left; exact Hfi|]. right. cbn [ancestor_at]. rewrite Hbl, N.eqb_refl. reflexivity.
      + intros _. reflexivity.
      + exact Hnk.
      + rewrite Hstep. exact (own_ev U cfg Hnofail Hnew U_id U_uniq U_up s b HP Hb Hf).
      + intros s' evs r E. rewrite Hstep, Hx in E. injection E as <- _ _. rewrite Hdb1. reflexivity.
    - (* the LIB is a stored proper ancestor *)
      assert (Hf : find (bid b) (store (db s)) = None) by (apply find_none; exact Hnk).
      destruct (found_x U cfg Hnofail Hnew Hundo Hincl U_id U_uniq U_up D_decl s b y A a0 B' HP Hb Hf Hc Hna)
        as (s1 & Hfx & _ & Hl1 & _ & _ & _ & HaU & Hka0 & Hlt & _ & _).
      set (en := mkEntry b false) in *. set (l := store (db s) ++ [en]) in *.
      pose proof HP as [_ _ Hnd HU0 _ _ _ _].
      assert (Hnd1 : NoDup (keys l)) by (unfold l; rewrite keys_snoc; apply nodup_snoc; assumption).
      assert (HU1 : in_U U l) by (intros e Hin; apply in_app_or in Hin as [Hin|[<-|[]]]; [apply HU0; exact Hin | exact Hb]).
      pose proof (wf_of_U U U_id U_up _ Hnd1 HU1) as Hwf1.
      apply (Hestab (eb a0)).
      + right.
        assert (Hfb : find (bid b) l = Some en) by (apply (find_snoc_new (store (db s)) en); exact Hnk).
        assert (Hain : In a0 l) by (eapply chain_in; [exact Hc|]; apply in_or_app; right; left; reflexivity).
        assert (Hfa : find (key a0) l = Some a0) by (exact (find_in_nodup _ _ Hnd1 Hain)).
        pose proof (chain_suffix l y (B' ++ [en]) (bid b) A a0 Hwf1 Hc) as Hc2.
        destruct (chain_split_order _ _ _ _ _ _ Hwf1 Hc) as [Habove _].
        apply (walk_found U U_uniq l (b :: fc_recv fc)) with (a := a0) (x := bid b) (p := B' ++ [en]) (top := en).
        * intros x [<-|Hx]; [exact Hb | apply RU; exact Hx].
        * intros e He. apply in_app_or in He as [He|[<-|[]]]; [right; apply Rr; exact He | left; reflexivity].
        * exact Hna.
        * exact Hfa.
        * exact Hc2.
        * intros e He. rewrite <- Hna. apply Habove. exact He.
        * exact Hfb.
        * (* fuel: the chain is shorter than the buffer, which is not longer than the list of received blocks *)
          assert (Hlen1 : (length (B' ++ [en]) < length l)%nat).
          { apply (chain_shorter l (bid b) (key a0) (B' ++ [en]) Hwf1 Hc2). apply in_map. exact Hain. }
          assert (Hlen2 : (length l <= length (b :: fc_recv fc))%nat).
          { rewrite <- (map_length key l), <- (map_length bid (b :: fc_recv fc)).
            apply NoDup_incl_length; [exact Hnd1|]. intros id Hid. unfold l in Hid. fold (keys (store (db s) ++ [en])) in Hid.
            rewrite keys_snoc in Hid. apply in_app_or in Hid as [Hid|[<-|[]]]; [|left; reflexivity].
            destruct (Hsr id Hid) as (x & Hx & E). right. rewrite <- E. apply in_map. exact Hx. }
          lia.
      + intros Hfi. contradiction.
      + exact Hnk.
      + rewrite Hstep. exact (found_ev U cfg Hnofail Hnew Hundo Hincl U_id U_uniq U_up D_decl s b y A a0 B' HP Hb Hf Hc Hna).
      + intros s' evs r E. rewrite Hstep, Hfx in E. injection E as <- _ _. exact Hl1.
    - (* held *)
      set (en := mkEntry b false) in *. set (l := store (db s) ++ [en]) in *.
      apply (Hquiet _ (mkFC (b :: fc_recv fc) ref_empty None None) Hstep); [|exact HP1|].
      + unfold fcd_step. rewrite Hhold0.
        rewrite (lookup_none_of (bid b) (fc_recv fc)).
        2:{ intros x Hx E. apply Hnk. rewrite <- E. apply Rs. exact Hx. }
        destruct (N.eqb_spec (bnum b) first) as [Hf|_]; [contradiction|].
        assert (Hfb : find (bid b) l = Some en) by (apply (find_snoc_new (store (db s)) en); exact Hnk).
        assert (Hanc : ancestor_at (S (length (b :: fc_recv fc))) (b :: fc_recv fc) (eb en) (blib b) = None).
        { apply (walk_hold U U_uniq l (b :: fc_recv fc)) with (x := bid b) (y := y) (p := p' ++ [en]).
          - intros x [<-|Hx]; [exact Hb | apply RU; exact Hx].
          - intros e He. apply in_app_or in He as [He|[<-|[]]]; [right; apply Rr; exact He | left; reflexivity].
          - intros x [<-|Hx]; unfold l; rewrite keys_snoc; apply in_or_app; [right; left; reflexivity | left; apply Rs; exact Hx].
          - exact Hc.
          - exact Hy.
          - exact Hgt.
          - exact Hfb. }
        cbn [eb en] in Hanc. rewrite Hanc. reflexivity.
      + constructor; cbn [fc_lib fc_tip fc_final fc_recv with_db db new_db store]; try reflexivity.
        * intros x [<-|Hx]; [exact Hb | apply RU; exact Hx].
        * intros x [<-|Hx]; rewrite keys_snoc; apply in_or_app; [right; left; reflexivity | left; apply Rs; exact Hx].
        * intros e He. apply in_app_or in He as [He|[<-|[]]]; [right; apply Rr; exact He | left; reflexivity].
  Qed.

  (* ---------------------------------------------------------------- one call before the discovery, everything exposed *)

  Notation kept := (c_kept cfg).

  Lemma filter_true {A} (l : list A) : filter (fun _ => true) l = l.
  Proof. induction l as [|x l IH]; [reflexivity|]. cbn [filter]. rewrite IH. reflexivity. Qed.

  Definition QuietStep (s : fstate) (fc : fc_state) (b : block) : Prop :=
    exists s1, fk_step cfg s b = (s1, [], ROk) /\ PreInv s1 /\ PRel (step fc b) s1 /\
      ((s1 = s /\ step fc b = fc) \/ (s1 = with_db s (new_db (db s) b) /\ fc_recv (step fc b) = b :: fc_recv fc)).

  Definition EstabStep (s : fstate) (fc : fc_state) (b : block) : Prop :=
    exists s' a Fin S' M f,
      fk_step cfg s b = (s', disc_events cfg b a (rev S'), ROk) /\ In a U /\
      step fc b = mkFC (b :: fc_recv fc) (bref a) (Some b) (Some a) /\
      Inv U (R a) cfg s' Fin S' /\ Ext s' Fin /\
      FcRel U (mkFC (b :: fc_recv fc) (R a) (Some b) (hd_error (rev Fin))) s' Fin S' /\
      libref (db s') = R a /\ extra (db s') = None /\ last_sent s' = Some b /\ last_lib_seen s' = R a /\
      store (db s') = fil f M /\ (forall x, bnum a <= bnum x -> f x = true) /\ NoDup (keys M) /\ in_U U M /\
      ((a = b /\ Fin = [b] /\ S' = [b] /\ M = store (db s) ++ [mkEntry b false] /\ f = (fun _ => true)) \/
       (bnum a < bnum b /\ Fin = [] /\ f = (fun x => bnum a - kept <=? bnum x) /\
        exists B', chain (store (db s) ++ [mkEntry b false]) (bid b) (bid a) (B' ++ [mkEntry b false]) /\
                   S' = rev (map eb B' ++ [b]) /\
                   M = mark_all (store (db s) ++ [mkEntry b false]) (unsent (map seg_of (B' ++ [mkEntry b false]))))).

  Lemma handover_rel s b s' a Fin pre recv :
    In b U -> (forall x, In x recv -> In x U) ->
    (forall x, In x recv -> In (bid x) (keys (store (db s)))) ->
    (forall id, In id (keys (store (db s))) -> exists x, In x recv /\ bid x = id) ->
    In a U ->
    libref (db s') = R a -> last_lib_seen s' = R a -> last_sent s' = Some b ->
    In (bid a) (keys (store (db s'))) ->
    (forall x, In x U -> In (bid x) (keys (store (db s)) ++ [bid b]) ->
               In (bid x) (keys (store (db s'))) \/ bnum x < bnum a - c_kept cfg) ->
    (forall id, In id (keys (store (db s'))) -> In id (keys (store (db s)) ++ [bid b])) ->
    Ext s' Fin /\ FcRel U (mkFC (b :: recv) (R a) (Some b) (hd_error (rev Fin))) s' Fin (rev (pre ++ [b])).
  Proof.
    intros Hb HrU Hrs Hsr HaU Hl' Hlls' Hls' Hka Hret Hsub.
    split; [exact (disc_ext U U_id s' a Fin HaU Hl' Hlls' Hka)|].
    constructor; cbn [fc_lib fc_tip fc_final fc_recv].
    - symmetry. exact Hl'.
    - symmetry. exact Hls'.
    - rewrite Hls', rev_app_distr. reflexivity.
    - reflexivity.
    - intros x [<-|Hx]; [exact Hb | apply HrU; exact Hx].
    - intros id Hid. apply Hsub in Hid. apply in_app_or in Hid as [Hid|[<-|[]]].
      + destruct (Hsr id Hid) as (x & Hx & E). cbn [map]. right. rewrite <- E. apply in_map. exact Hx.
      + left. reflexivity.
    - intros x Hx.
      assert (HxU : In x U) by (destruct Hx as [<-|Hx]; [exact Hb | apply HrU; exact Hx]).
      assert (Hxk : In (bid x) (keys (store (db s)) ++ [bid b])).
      { destruct Hx as [<-|Hx]; [apply in_or_app; right; left; reflexivity | apply in_or_app; left; apply Hrs; exact Hx]. }
      destruct (Hret x HxU Hxk) as [G|G]; [left; exact G|]. right.
      unfold dropped. rewrite Hl', Hls'. cbn [R rn]. rewrite andb_true_r. apply N.ltb_lt. lia.
  Qed.

  Lemma pre_step_x s fc b : PreInv s -> PRel fc s -> In b U -> QuietStep s fc b \/ EstabStep s fc b.
  Proof.
    intros HP HR Hb. pose proof HR as [Rl Rt Rf RU Rs Rr].
    assert (Hhold0 : ri (fc_lib fc) =? 0 = true) by (rewrite Rl; reflexivity).
    assert (Hsr : forall id, In id (keys (store (db s))) -> exists x, In x (fc_recv fc) /\ bid x = id).
    { intros id Hid. apply in_map_iff in Hid as (e & <- & He). exists (eb e). split; [apply Rr; exact He | reflexivity]. }
    set (en := mkEntry b false). set (l := store (db s) ++ [en]).
    pose proof HP as [_ Hex0 Hnd HU0 _ _ _ _].
    destruct (disc_cases_x U cfg Hhold Hincl U_id U_uniq U_up D_decl s b HP Hb)
      as [[Hk Hstep]|(Hnk & [[Hcond Hstep]|[(Hnf & y & A & a0 & B' & Hc & Hy & Hna & Hstep)|(Hnf & (y & p' & Hc & Hy & Hgt) & Hstep & HP1)]])].
    - left. exists s. split; [exact Hstep|]. split; [exact HP|].
      assert (Hfc : step fc b = fc).
      { unfold fcd_step. rewrite Hhold0. destruct (Hsr _ Hk) as (x & Hx & E).
        destruct (lookup_exists (fc_recv fc) x Hx) as [b' Hb']. rewrite <- E, Hb'. reflexivity. }
      rewrite Hfc. split; [exact HR|]. left. auto.
    - (* own *)
      right.
      assert (Hf : find (bid b) (store (db s)) = None) by (apply find_none; exact Hnk).
      destruct (own_x U cfg Hnofail Hnew s b HP Hb Hf) as (s1 & Hx & Hdb1 & Hls1 & Hlls1).
      destruct (own_ev U cfg Hnofail Hnew U_id U_uniq U_up s b HP Hb Hf)
        as (s' & a' & Fin & pre & Hst & HaU & Hab & Happ & HI' & Hcase & Hl' & Hlls' & Hls' & Hka & Hret & Hsub & _).
      fold (own_expr cfg s b) in Hst. rewrite Hx in Hst. injection Hst as <- Hev.
      assert (a' = b).
      { rewrite Hdb1 in Hl'. cbn [move_lib libref] in Hl'. injection Hl' as E1 E2. apply U_uniq; auto. }
      subst a'.
      destruct Hcase as [(_ & -> & ->)|(Hks & _)]; [|contradiction].
      destruct (handover_rel s b s1 b [b] [] (fc_recv fc) Hb RU Rs Hsr Hb Hl' Hlls' Hls' Hka Hret Hsub) as [HX' HR0].
      exists s1, b, [b], [b], l, (fun _ => true).
      split; [rewrite Hstep; exact Hx|]. split; [exact Hb|].
      split.
      { unfold fcd_step. rewrite Hhold0. rewrite (lookup_none_of (bid b) (fc_recv fc)).
        2:{ intros x Hx0 E. apply Hnk. rewrite <- E. apply Rs. exact Hx0. }
        destruct (N.eqb_spec (bnum b) first) as [Hfi|Hfi]; [reflexivity|].
        destruct Hcond as [Hc1|Hbl]; [contradiction|]. cbn [ancestor_at]. rewrite Hbl, N.eqb_refl. reflexivity. }
      split; [exact HI'|]. split; [exact HX'|]. split; [exact HR0|]. split; [exact Hl'|].
      split; [rewrite Hdb1; exact Hex0|]. split; [exact Hls'|]. split; [exact Hlls'|].
      split; [rewrite Hdb1; unfold fil; rewrite filter_true; reflexivity|]. split; [reflexivity|].
      split; [unfold l; rewrite keys_snoc; apply nodup_snoc; assumption|].
      split; [intros e Hin; apply in_app_or in Hin as [Hin|[<-|[]]]; [apply HU0; exact Hin | exact Hb]|].
      left. auto.
    - (* found *)
      right.
      assert (Hf : find (bid b) (store (db s)) = None) by (apply find_none; exact Hnk).
      destruct (found_x U cfg Hnofail Hnew Hundo Hincl U_id U_uniq U_up D_decl s b y A a0 B' HP Hb Hf Hc Hna)
        as (s1 & Hfx & Hst1 & Hl1 & Hex1 & Hls1 & Hlls1 & HaU & Hka0 & Hlt & HndM & HUM).
      destruct (found_ev U cfg Hnofail Hnew Hundo Hincl U_id U_uniq U_up D_decl s b y A a0 B' HP Hb Hf Hc Hna)
        as (s' & a' & Fin & pre & Hst & HaU' & Hab & Happ & HI' & Hcase & Hl' & Hlls' & Hls' & Hka & Hret & Hsub & _).
      fold (found_expr cfg s b a0 B') in Hst. rewrite Hfx in Hst. injection Hst as <- Hev.
      assert (a' = eb a0).
      { rewrite Hl1 in Hl'. injection Hl' as E1 E2. apply U_uniq; [exact HaU' | exact HaU | symmetry; exact E1]. }
      subst a'.
      assert (Hpre : pre ++ [b] = map eb B' ++ [b]) by (symmetry; exact (disc_events_inj b (eb a0) _ _ Hev)).
      rewrite Hpre in *.
      destruct Hcase as [(Eab & _)|(_ & _ & ->)]; [rewrite Eab in Hlt; lia|].
      pose proof HP as [_ _ Hnd' HU0' _ _ _ _].
      assert (Hnd1 : NoDup (keys l)) by (unfold l; rewrite keys_snoc; apply nodup_snoc; assumption).
      assert (HU1 : in_U U l) by (intros e Hin; apply in_app_or in Hin as [Hin|[<-|[]]]; [apply HU0; exact Hin | exact Hb]).
      pose proof (wf_of_U U U_id U_up _ Hnd1 HU1) as Hwf1.
      pose proof (chain_suffix l y (B' ++ [en]) (bid b) A a0 Hwf1 Hc) as Hc2.
      destruct (handover_rel s b s1 (eb a0) [] (map eb B') (fc_recv fc) Hb RU Rs Hsr HaU Hl' Hlls' Hls' Hka Hret Hsub) as [HX' HR0].
      exists s1, (eb a0), [], (rev (map eb B' ++ [b])), (mark_all l (unsent (map seg_of (B' ++ [en])))), (fun x => bnum (eb a0) - kept <=? bnum x).
      rewrite rev_involutive.
      split; [rewrite Hstep; exact Hfx|]. split; [exact HaU|].
      split.
      { unfold fcd_step. rewrite Hhold0. rewrite (lookup_none_of (bid b) (fc_recv fc)).
        2:{ intros x Hx0 E. apply Hnk. rewrite <- E. apply Rs. exact Hx0. }
        destruct (N.eqb_spec (bnum b) first) as [Hfi|_]; [contradiction|].
        assert (Hfb : find (bid b) l = Some en) by (apply (find_snoc_new (store (db s)) en); exact Hnk).
        assert (Hain : In a0 l) by (eapply chain_in; [exact Hc|]; apply in_or_app; right; left; reflexivity).
        assert (Hfa : find (key a0) l = Some a0) by (exact (find_in_nodup _ _ Hnd1 Hain)).
        destruct (chain_split_order _ _ _ _ _ _ Hwf1 Hc) as [Habove _].
        assert (Hanc : ancestor_at (S (length (b :: fc_recv fc))) (b :: fc_recv fc) (eb en) (blib b) = Some (eb a0)).
        { apply (walk_found U U_uniq l (b :: fc_recv fc)) with (a := a0) (x := bid b) (p := B' ++ [en]).
          - intros x [<-|Hx]; [exact Hb | apply RU; exact Hx].
          - intros e He. apply in_app_or in He as [He|[<-|[]]]; [right; apply Rr; exact He | left; reflexivity].
          - exact Hna.
          - exact Hfa.
          - exact Hc2.
          - intros e He. rewrite <- Hna. apply Habove. exact He.
          - exact Hfb.
          - assert (Hlen1 : (length (B' ++ [en]) < length l)%nat).
            { apply (chain_shorter l (bid b) (key a0) (B' ++ [en]) Hwf1 Hc2). apply in_map. exact Hain. }
            assert (Hlen2 : (length l <= length (b :: fc_recv fc))%nat).
            { rewrite <- (map_length key l), <- (map_length bid (b :: fc_recv fc)).
              apply NoDup_incl_length; [exact Hnd1|]. intros id Hid. unfold l in Hid. fold (keys (store (db s) ++ [en])) in Hid.
              rewrite keys_snoc in Hid. apply in_app_or in Hid as [Hid|[<-|[]]]; [|left; reflexivity].
              destruct (Hsr id Hid) as (x & Hx & E). right. rewrite <- E. apply in_map. exact Hx. }
            lia. }
        cbn [eb en] in Hanc. rewrite Hanc. reflexivity. }
      split; [exact HI'|]. split; [exact HX'|]. split; [exact HR0|]. split; [exact Hl'|].
      split; [exact Hex1|]. split; [exact Hls'|]. split; [exact Hlls'|].
      split; [exact Hst1|]. split; [intros x Hx; apply N.leb_le; lia|].
      split; [exact HndM|]. split; [exact HUM|].
      right. split; [exact Hlt|]. split; [reflexivity|]. split; [reflexivity|].
      exists B'. split; [exact Hc2|]. split; reflexivity.
    - (* held *)
      left. exists (with_db s (new_db (db s) b)). split; [exact Hstep|]. split; [exact HP1|].
      assert (Hfc : step fc b = mkFC (b :: fc_recv fc) ref_empty None None).
      { unfold fcd_step. rewrite Hhold0.
        rewrite (lookup_none_of (bid b) (fc_recv fc)).
        2:{ intros x Hx E. apply Hnk. rewrite <- E. apply Rs. exact Hx. }
        destruct (N.eqb_spec (bnum b) first) as [Hf|_]; [contradiction|].
        assert (Hfb : find (bid b) l = Some en) by (apply (find_snoc_new (store (db s)) en); exact Hnk).
        assert (Hanc : ancestor_at (S (length (b :: fc_recv fc))) (b :: fc_recv fc) (eb en) (blib b) = None).
        { apply (walk_hold U U_uniq l (b :: fc_recv fc)) with (x := bid b) (y := y) (p := p' ++ [en]).
          - intros x [<-|Hx]; [exact Hb | apply RU; exact Hx].
          - intros e He. apply in_app_or in He as [He|[<-|[]]]; [right; apply Rr; exact He | left; reflexivity].
          - intros x [<-|Hx]; unfold l; rewrite keys_snoc; apply in_or_app; [right; left; reflexivity | left; apply Rs; exact Hx].
          - exact Hc.
          - exact Hy.
          - exact Hgt.
          - exact Hfb. }
        cbn [eb en] in Hanc. rewrite Hanc. reflexivity. }
      rewrite Hfc. split; [|right; split; reflexivity].
      constructor; cbn [fc_lib fc_tip fc_final fc_recv with_db db new_db store]; try reflexivity.
      + intros x [<-|Hx]; [exact Hb | apply RU; exact Hx].
      + intros x [<-|Hx]; rewrite keys_snoc; apply in_or_app; [right; left; reflexivity | left; apply Rs; exact Hx].
      + intros e He. apply in_app_or in He as [He|[<-|[]]]; [right; apply Rr; exact He | left; reflexivity].
  Qed.
End DiscFull.

(* ---------------------------------------------------------------- retention independence across the discovery *)

Section KeptDisc.
  Variable U : list block.
  Variable cfg : config.
  Variable k : N.

  Hypothesis Hnofail : c_fail_at cfg = None.
  Hypothesis Hnew : f_new (c_filter cfg) = true.
  Hypothesis Hundo : f_undo (c_filter cfg) = true.
  Hypothesis Hhold : c_hold cfg = true.
  Hypothesis Hincl : c_incl cfg = false.

  Hypothesis U_id : forall b, In b U -> bid b <> 0 /\ bid b <> bparent b.
  Hypothesis U_uniq : forall x y, In x U -> In y U -> bid x = bid y -> x = y.
  Hypothesis U_up : forall x y, In x U -> In y U -> bparent x = bid y -> bnum y < bnum x.
  Hypothesis D_decl : forall b, In b U -> decl_none U b.

  Notation cfg' := (with_kept cfg k).

  Lemma pre_kept s : PreInv U cfg s -> PreInv U cfg' s.
  Proof. intros [A1 A2 A3 A4 A5 A6 A7 A8]. constructor; assumption. Qed.

  Lemma kept_pre : forall h s fc, PreInv U cfg s -> PRel U fc s -> (forall b, In b h -> In b U) ->
    fk_run cfg' s h = fk_run cfg s h.
  Proof.
    induction h as [|b h IH]; intros s fc HP HR Hh; [reflexivity|].
    assert (Hb : In b U) by (apply Hh; left; reflexivity).
    assert (Hh' : forall x, In x h -> In x U) by (intros x Hx; apply Hh; right; exact Hx).
    pose proof (pre_step_x U cfg Hnofail Hnew Hundo Hhold Hincl U_id U_uniq U_up D_decl s fc b HP HR Hb) as C1.
    pose proof (pre_step_x U cfg' Hnofail Hnew Hundo Hhold Hincl U_id U_uniq U_up D_decl s fc b (pre_kept s HP) HR Hb) as C2.
    unfold QuietStep, EstabStep in C1, C2. cbn [c_first c_alltrig with_kept] in C2.
    cbn [fk_run].
    destruct C1 as [(s1 & Hst1 & HP1 & HR1 & Hk1)|(s1 & a & Fin & S' & M & f & Hst1 & HaU & Hfc1 & HI1 & HX1 & _ & Hl1 & He1 & Hls1 & Hlls1 & Hsto1 & Hf1 & HndM & HUM & Hk1)];
    destruct C2 as [(s2 & Hst2 & HP2 & HR2 & Hk2)|(s2 & a2 & Fin2 & S2 & M2 & f2 & Hst2 & HaU2 & Hfc2 & HI2 & HX2 & _ & Hl2 & He2 & Hls2 & Hlls2 & Hsto2 & Hf2 & HndM2 & HUM2 & Hk2)].
    - (* quiet in both runs: the same state *)
      rewrite Hst1, Hst2. f_equal.
      assert (s2 = s1).
      { destruct Hk1 as [[-> E1]|[-> E1]]; destruct Hk2 as [[-> E2]|[-> E2]]; try reflexivity; exfalso.
        - rewrite E1 in E2. apply (f_equal (@length block)) in E2. cbn [length] in E2. lia.
        - rewrite E2 in E1. apply (f_equal (@length block)) in E1. cbn [length] in E1. lia. }
      subst s2. exact (IH s1 _ HP1 HR1 Hh').
    - exfalso. pose proof (pr_lib U _ _ HR1) as E. cbn [c_first c_alltrig with_kept] in Hfc2. rewrite Hfc2 in E.
      cbn [fc_lib] in E. injection E as E _. exact (proj1 (U_id a2 HaU2) E).
    - exfalso. pose proof (pr_lib U _ _ HR2) as E. rewrite Hfc1 in E.
      cbn [fc_lib] in E. injection E as E _. exact (proj1 (U_id a HaU) E).
    - (* established in both runs: the same LIB block, the same events, stores that differ under the LIB *)
      cbn [c_first c_alltrig with_kept] in Hfc2. rewrite Hfc1 in Hfc2. injection Hfc2 as Eid Enum.
      assert (a2 = a) by (apply U_uniq; auto). subst a2.
      assert (Hsame : Fin2 = Fin /\ S2 = S' /\ M2 = M).
      { destruct Hk1 as [(Ea & -> & -> & -> & _)|(Hlt & -> & _ & B1 & Hc1 & -> & ->)];
          destruct Hk2 as [(Ea2 & -> & -> & -> & _)|(Hlt2 & -> & _ & B2 & Hc2 & -> & ->)]; try (exfalso; subst; lia); [auto|].
        pose proof (chain_det _ _ _ _ _ Hc1 Hc2) as E. apply app_inj_tail in E as [-> _]. auto. }
      destruct Hsame as (-> & -> & ->).
      rewrite Hst1, Hst2. f_equal.
      assert (HK : KRel U s1 s2).
      { constructor.
        - rewrite Hl1, Hl2. reflexivity.
        - rewrite He1, He2. reflexivity.
        - rewrite Hls1, Hls2. reflexivity.
        - rewrite Hlls1, Hlls2. reflexivity.
        - exists M, f, f2. split; [exact HndM|]. split; [exact HUM|]. split; [exact Hsto1|]. split; [exact Hsto2|].
          split; [|rewrite Hls1; discriminate].
          intros x Hx. rewrite Hl1 in Hx. cbn [R rn] in Hx. split; [apply Hf1 | apply Hf2]; exact Hx. }
      apply (run_kept U (R a) cfg k Hnofail Hnew Hundo U_id U_uniq U_up
               (R_id U U_id a HaU) (R_num U U_uniq a HaU) (R_up U U_up a HaU) (R_decl U U_uniq D_decl a HaU)
               h s1 s2 Fin S' HI1 (proj2 (inv_kept U (R a) cfg k s2 Fin S') HI2) HX1 HX2 HK Hh').
  Qed.
End KeptDisc.

(* ---------------------------------------------------------------- noise deletion across the discovery *)

Lemma ignore_transfer first incl alltrig f1 f2 b : same_but_final f1 f2 ->
  fc_step first incl alltrig f2 b = f2 -> fc_step first incl alltrig f1 b = f1.
Proof.
  destruct f1 as [r1 l1 t1 n1], f2 as [r2 l2 t2 n2]. intros (E1 & E2 & E3). cbn in E1, E2, E3. subst r2 l2 t2.
  unfold fc_step. cbn [fc_recv fc_lib fc_tip fc_final].
  assert (G : forall (x y : fc_state), fc_recv x = b :: fc_recv y -> x = y -> False).
  { intros x y Hx E. rewrite E in Hx. apply (f_equal (@length block)) in Hx. cbn [length] in Hx. lia. }
  destruct ((bnum b <? rn l1) && match t1 with Some _ => true | None => false end); [reflexivity|].
  destruct (incl && negb match t1 with Some _ => true | None => false end && (bid b =? ri l1)).
  { intros H. exfalso. apply (G _ _ (eq_refl : fc_recv (mkFC (b :: r1) l1 (Some b) (Some b)) = b :: fc_recv (mkFC r1 l1 t1 n2)) H). }
  destruct (lookup (bid b) r1); [reflexivity|].
  match goal with |- context [if ?c then _ else _] => destruct c end.
  - destruct (ancestor_at _ _ _ _) as [a|]; [destruct (rn l1 <? bnum a)|]; intros H; exfalso;
      refine (G _ (mkFC r1 l1 t1 n2) _ H); reflexivity.
  - intros H. exfalso. refine (G _ (mkFC r1 l1 t1 n2) _ H). reflexivity.
Qed.

Section DelDisc.
  Variable U : list block.
  Variable cfg : config.

  Hypothesis Hnofail : c_fail_at cfg = None.
  Hypothesis Hnew : f_new (c_filter cfg) = true.
  Hypothesis Hundo : f_undo (c_filter cfg) = true.
  Hypothesis Hhold : c_hold cfg = true.
  Hypothesis Hincl : c_incl cfg = false.

  Hypothesis U_id : forall b, In b U -> bid b <> 0 /\ bid b <> bparent b.
  Hypothesis U_uniq : forall x y, In x U -> In y U -> bid x = bid y -> x = y.
  Hypothesis U_up : forall x y, In x U -> In y U -> bparent x = bid y -> bnum y < bnum x.
  Hypothesis D_decl : forall b, In b U -> decl_none U b.

  Notation step := (fcd_step (c_first cfg) (c_alltrig cfg)).

  Lemma fold_live : forall h fc, Live fc -> (forall x, In x h -> bid x <> 0) ->
    fold_left step h fc = fc_after cfg fc h /\ Live (fc_after cfg fc h).
  Proof.
    induction h as [|x h IH]; intros fc HL Hh; [split; [reflexivity | exact HL]|].
    unfold fc_after. cbn [fold_left]. fold (fc_after cfg (fc_step (c_first cfg) (c_incl cfg) (c_alltrig cfg) fc x) h).
    destruct (live_step (c_first cfg) (c_alltrig cfg) fc x HL (Hh x (or_introl eq_refl))) as [E HL'].
    rewrite E, Hincl. apply IH; [exact HL' | intros y Hy; apply Hh; right; exact Hy].
  Qed.

  Lemma after_same : forall h f1 f2, same_but_final f1 f2 -> same_but_final (fc_after cfg f1 h) (fc_after cfg f2 h).
  Proof.
    induction h as [|x h IH]; intros f1 f2 Hs; [exact Hs|]. unfold fc_after. cbn [fold_left].
    apply IH. exact (proj1 (fc_step_final (c_first cfg) (c_incl cfg) (c_alltrig cfg) f1 f2 x Hs)).
  Qed.

  Lemma del_pre b h2 : forall h1 s fc, PreInv U cfg s -> PRel U fc s -> (forall x, In x (h1 ++ b :: h2) -> In x U) ->
    step (fold_left step h1 fc) b = fold_left step h1 fc ->
    let T := fk_run cfg s (h1 ++ h2) in
    fk_run cfg s (h1 ++ b :: h2) = firstn (length h1) T ++ ([], ROk) :: skipn (length h1) T.
  Proof.
    induction h1 as [|x h1 IH]; intros s fc HP HR Hh Hig; cbv zeta.
    - cbn [fold_left app length firstn skipn] in *.
      assert (Hb : In b U) by (apply Hh; left; reflexivity).
      destruct (pre_step_x U cfg Hnofail Hnew Hundo Hhold Hincl U_id U_uniq U_up D_decl s fc b HP HR Hb)
        as [(s1 & Hst & _ & _ & [[-> _]|[_ E]])|(s1 & a & Fin & S' & M & f & _ & _ & Hfc & _)].
      + cbn [fk_run]. rewrite Hst. reflexivity.
      + exfalso. rewrite Hig in E. apply (f_equal (@length block)) in E. cbn [length] in E. lia.
      + exfalso. rewrite Hig in Hfc. apply (f_equal fc_recv) in Hfc. cbn [fc_recv] in Hfc.
        apply (f_equal (@length block)) in Hfc. cbn [length] in Hfc. lia.
    - assert (Hx : In x U) by (apply Hh; left; reflexivity).
      assert (Hh' : forall z, In z (h1 ++ b :: h2) -> In z U) by (intros z Hz; apply Hh; right; exact Hz).
      cbn [fold_left] in Hig. cbn [app length fk_run].
      destruct (pre_step_x U cfg Hnofail Hnew Hundo Hhold Hincl U_id U_uniq U_up D_decl s fc x HP HR Hx)
        as [(s1 & Hst & HP1 & HR1 & _)|(s1 & a & Fin & S' & M & f & Hst & HaU & Hfc & HI1 & HX1 & HR0 & _)].
      + rewrite Hst. pose proof (IH s1 _ HP1 HR1 Hh' Hig) as E. cbv zeta in E. rewrite E. reflexivity.
      + rewrite Hst.
        set (fc1 := step fc x) in *. set (fc0 := mkFC (x :: fc_recv fc) (R a) (Some x) (hd_error (rev Fin))) in *.
        assert (Hsame : same_but_final fc0 fc1) by (rewrite Hfc; repeat split).
        assert (HL1 : Live fc1).
        { rewrite Hfc. split; [exact (proj1 (U_id a HaU))|]. pose proof HR as [_ _ _ RU _ _].
          intros z [<-|Hz]; [exact (proj1 (U_id x Hx)) | exact (proj1 (U_id z (RU z Hz)))]. }
        assert (Hh0 : forall z, In z h1 -> bid z <> 0).
        { intros z Hz. apply (proj1 (U_id z (Hh' z (in_or_app _ _ _ (or_introl Hz))))). }
        destruct (fold_live h1 fc1 HL1 Hh0) as [Ef HLf]. rewrite Ef in Hig.
        assert (Hb : In b U) by (apply Hh'; apply in_or_app; right; left; reflexivity).
        rewrite (proj1 (live_step (c_first cfg) (c_alltrig cfg) _ b HLf (proj1 (U_id b Hb)))) in Hig.
        pose proof (ignore_transfer (c_first cfg) false (c_alltrig cfg) _ _ b (after_same h1 fc0 fc1 Hsame) Hig) as Hig0.
        rewrite <- Hincl in Hig0.
        pose proof (noise_deletion U (R a) cfg Hnofail Hnew Hundo U_id U_uniq U_up
                      (R_id U U_id a HaU) (R_num U U_uniq a HaU) (R_up U U_up a HaU) (R_decl U U_uniq D_decl a HaU)
                      s1 Fin S' fc0 h1 b h2 HI1 HX1 HR0 Hh' Hig0) as E. cbv zeta in E. rewrite E. reflexivity.
  Qed.
End DelDisc.

(* ---------------------------------------------------------------- the statement *)

Lemma c03_discovery_full_proved : c03_discovery_full.
Proof.
  intros cfg h Hhold Hincl Hnofail Hnew Hundo Hscope step t lib.
  assert (Hwf : wf_b h = true) by (unfold disc_scope2_b in Hscope; apply andb_true_iff in Hscope; tauto).
  pose proof (bridge_id h Hwf) as B1. pose proof (bridge_uniq h Hwf) as B2. pose proof (bridge_up h Hwf) as B3.
  pose proof (bridge2_decl_none h Hscope) as B4.
  assert (HR0 : PRel h (fc_init LNone) (fs_init LNone)) by (constructor; cbn; try reflexivity; intros x []).
  assert (HL : FirstLib lib t).
  { unfold FirstLib, lib, root_lib. destruct (all_events t); [exact I | reflexivity]. }
  destruct (disc_run_full h cfg Hnofail Hnew Hundo Hhold Hincl B1 B2 B3 B4 h (fs_init LNone) (fc_init LNone)
              (pre_init h cfg) HR0 (fun b Hb => Hb) lib HL) as (G1 & G2 & G3).
  split; [exact G1|]. split; [exact G2|]. split; [exact G3|]. split.
  - intros k. exact (kept_pre h cfg k Hnofail Hnew Hundo Hhold Hincl B1 B2 B3 B4 h (fs_init LNone) (fc_init LNone)
                       (pre_init h cfg) HR0 (fun b Hb => Hb)).
  - intros h1 b h2 Hh fc Hig T.
    apply (del_pre h cfg Hnofail Hnew Hundo Hhold Hincl B1 B2 B3 B4 b h2 h1 (fs_init LNone) (fc_init LNone) (pre_init h cfg) HR0).
    + intros x Hx. rewrite Hh. exact Hx.
    + exact Hig.
Qed.
