From BV Require Import Base.Prelude Model.Block Model.Forkable Spec.Consumer Spec.ForkChoice
  Check.Fk_Check Check.Fk_Props_Check Spec.C03_Monitor_Spec.
Local Open Scope N_scope.

Lemma apply_all_app' lib S l1 l2 S1 :
  apply_all lib S l1 = Some S1 -> apply_all lib S (l1 ++ l2) = apply_all lib S1 l2.
Proof.
  revert S. induction l1 as [|e l1 IH]; intros S H; cbn [apply_all app] in *.
  - injection H as <-. reflexivity.
  - destruct (apply_ev lib S e); [apply IH; exact H | discriminate].
Qed.

Lemma c03_monitor_sound_proof : C03_monitor_sound.
Proof.
  intros cfg lib fc st lastfin h. revert fc st lastfin.
  induction h as [|b h IH]; intros fc st lastfin os H n Hn Ho; [cbn in Hn; lia|].
  destruct os as [|o os]; [cbn in Ho; lia|].
  cbn [c03_follow] in H.
  destruct (apply_all lib st (o_events o)) as [st'|] eqn:Ap; [|discriminate].
  apply andb_true_iff in H as [H Hrest]. apply andb_true_iff in H as [H H3].
  apply andb_true_iff in H as [H1 H2]. apply N.eqb_eq in H1. apply N.eqb_eq in H2.
  destruct n as [|n].
  - cbn [firstn map concat fold_left nth]. unfold fc_run. cbn [fold_left]. rewrite app_nil_r.
    exists st'. split; [exact Ap|]. split; [exact H1|]. split; [exact H2|].
    intros Hirr. rewrite Hirr in H3. cbn [negb orb] in H3. apply N.eqb_eq in H3. exact H3.
  - cbn [length] in Hn, Ho.
    specialize (IH _ _ _ os Hrest n ltac:(lia) ltac:(lia)).
    destruct IH as (stn & Hap & Ht & Hh & Hf).
    cbn zeta. change (firstn (S (S n)) (o :: os)) with (o :: firstn (S n) os).
    change (firstn (S (S n)) (b :: h)) with (b :: firstn (S n) h).
    cbn [map concat nth]. unfold fc_run in *. cbn [fold_left].
    exists stn. split; [rewrite (apply_all_app' _ _ _ _ _ Ap); exact Hap|].
    split; [exact Ht|]. split; [exact Hh|].
    intros Hirr. unfold last_final_id in *. rewrite fold_left_app. apply Hf. exact Hirr.
Qed.
