(* Soundness of the finality monitor c02_b with respect to Spec/C02_Monitor_Spec.v *)
From BV Require Import Base.Prelude Model.Block Model.Forkable Spec.Consumer Spec.C04_Monitor_Spec
  Spec.C02_Monitor_Spec.
Local Open Scope N_scope.

(* the monitor over the flattened stream of (incoming block, event) pairs *)
Fixpoint fin_pairs (lib : N) (root : ref) (m : fin_mon) (L : list (block * event)) : option fin_mon :=
  match L with
  | [] => Some m
  | (inc, e) :: L' => match fin_step lib root inc m e with Some m' => fin_pairs lib root m' L' | None => None end
  end.

Lemma fin_pairs_app lib root m L1 L2 :
  fin_pairs lib root m (L1 ++ L2) =
  match fin_pairs lib root m L1 with Some m' => fin_pairs lib root m' L2 | None => None end.
Proof.
  revert m. induction L1 as [|[inc e] L1 IH]; intros m; cbn [app fin_pairs]; [reflexivity|].
  destruct (fin_step lib root inc m e); [apply IH | reflexivity].
Qed.

Lemma fin_events_pairs lib root inc : forall evs m,
  fin_events lib root inc m evs = fin_pairs lib root m (map (fun e => (inc, e)) evs).
Proof.
  induction evs as [|e evs IH]; intros m; cbn [fin_events map fin_pairs]; [reflexivity|].
  destruct (fin_step lib root inc m e); [apply IH | reflexivity].
Qed.

Lemma fin_trace_pairs lib root : forall h t m,
  fin_trace lib root m h t = fin_pairs lib root m (with_incoming h t).
Proof.
  induction h as [|b h IH]; intros t m; [reflexivity|].
  destruct t as [|[evs r] t]; [reflexivity|].
  cbn [fin_trace with_incoming]. rewrite fin_pairs_app, <- fin_events_pairs.
  destruct (fin_events lib root b m evs); [apply IH | reflexivity].
Qed.

(* ---------- bookkeeping over prefixes ---------- *)

Lemma irr_blocks_snoc P e : irr_blocks (P ++ [e]) = irr_blocks P ++ (if is_irr e then [eblk e] else []).
Proof. unfold irr_blocks. rewrite filter_app, map_app. cbn [filter]. destruct (is_irr e); reflexivity. Qed.

Lemma irr_ids_snoc P e : irr_ids (P ++ [e]) = irr_ids P ++ (if is_irr e then [bid (eblk e)] else []).
Proof. unfold irr_ids. rewrite irr_blocks_snoc, map_app. destruct (is_irr e); reflexivity. Qed.

Lemma stalled_ids_snoc P e : stalled_ids (P ++ [e]) = stalled_ids P ++ (if is_stalled e then [bid (eblk e)] else []).
Proof. unfold stalled_ids. rewrite filter_app, map_app. cbn [filter]. destruct (is_stalled e); reflexivity. Qed.

Lemma last_irr_snoc root P e : last_irr root (P ++ [e]) = if is_irr e then bref (eblk e) else last_irr root P.
Proof. unfold last_irr. rewrite fold_left_app. reflexivity. Qed.

Lemma apply_all_snoc lib st P e : apply_all lib st (P ++ [e]) =
  match apply_all lib st P with Some s => apply_ev lib s e | None => None end.
Proof.
  revert st. induction P as [|x P IH]; intros st; cbn [app apply_all].
  - destruct (apply_ev lib st e); reflexivity.
  - destruct (apply_ev lib st x); [apply IH | reflexivity].
Qed.

(* the last block of the final chain (as a ref), or the starting LIB *)
Lemma final_chain_snoc : forall l last first b,
  final_chain last first l ->
  ((first = true /\ l = [] /\ bid b = ri last) \/
   bparent b = ri (match rev l with x :: _ => bref x | [] => last end)) ->
  final_chain last first (l ++ [b]).
Proof.
  induction l as [|x l IH]; intros last first b H Hb; cbn [app final_chain rev] in *.
  - split; [|exact I]. destruct Hb as [(H1 & _ & H3)|Hb]; [left; auto | right; exact Hb].
  - destruct H as [Hx Hl]. split; [exact Hx|]. apply IH; [exact Hl|]. right.
    destruct Hb as [(_ & Hnil & _)|Hb]; [discriminate|].
    destruct (rev l) as [|y r] eqn:R; cbn [app] in Hb; exact Hb.
Qed.

Lemma last_irr_rev root P :
  last_irr root P = match rev (irr_blocks P) with x :: _ => bref x | [] => root end.
Proof.
  induction P as [|e P IH] using rev_ind; [reflexivity|].
  rewrite last_irr_snoc, irr_blocks_snoc. destruct (is_irr e).
  - rewrite rev_app_distr. reflexivity.
  - rewrite app_nil_r. exact IH.
Qed.

(* ---------- the invariant ---------- *)

Record J (root : ref) (P : list event) (m : fin_mon) : Prop := mkJ {
  j_stack : apply_all (ri root) [] P = Some (fm_stack m);
  j_finals : fm_finals m = rev (irr_ids P);
  j_stalled : fm_stalled m = rev (stalled_ids P);
  j_last : fm_last m = last_irr root P;
  j_any : fm_any m = negb (match irr_ids P with [] => true | _ => false end);
  j_chain : final_chain root true (irr_blocks P)
}.

Lemma J_init root : J root [] (mkFM [] 0 root false [] []).
Proof. constructor; cbn; auto. Qed.

Lemma memN_false_not_in x l : memN x l = false -> ~ In x l.
Proof.
  induction l as [|y l IH]; cbn [memN In]; intros H Hin; [exact Hin|].
  apply orb_false_iff in H as [H1 H2]. destruct Hin as [->|Hin]; [rewrite N.eqb_refl in H1; discriminate | exact (IH H2 Hin)].
Qed.

Definition point (root : ref) (before : list event) (inc : block) (e : event) : Prop :=
  match estep e with
  | SIrr =>
      ((irr_ids before = [] /\ bid (eblk e) = ri root) \/ bnum (eblk e) <= blib inc) /\
      ~ In (bid (eblk e)) (stalled_ids before)
  | SUndo => ~ In (bid (eblk e)) (irr_ids before)
  | SStalled =>
      ~ In (bid (eblk e)) (irr_ids before) /\ ~ In (bid (eblk e)) (stalled_ids before) /\
      bnum (eblk e) <= rn (last_irr root before) /\
      (forall st, apply_all (ri root) [] before = Some st -> forall x, In x st -> bid x <> bid (eblk e))
  | _ => True
  end.

Lemma not_in_rev {A} (x : A) l : ~ In x (rev l) -> ~ In x l.
Proof. intros H Hin. apply H. apply in_rev in Hin. exact Hin. Qed.

Lemma step_J root P m inc e m' :
  J root P m -> fin_step (ri root) root inc m e = Some m' ->
  J root (P ++ [e]) m' /\ point root P inc e.
Proof.
  intros [Hs Hf Hst Hl Ha Hc] H. unfold fin_step in H. unfold point.
  destruct (estep e) eqn:St.
  - (* New *)
    destruct (apply_ev (ri root) (fm_stack m) e) as [st|] eqn:Ap; [|discriminate]. injection H as <-.
    split; [|exact I]. constructor; cbn [fm_stack fm_finals fm_stalled fm_last fm_any].
    + rewrite apply_all_snoc, Hs. exact Ap.
    + rewrite irr_ids_snoc. unfold is_irr. rewrite St, app_nil_r. exact Hf.
    + rewrite stalled_ids_snoc. unfold is_stalled. rewrite St, app_nil_r. exact Hst.
    + rewrite last_irr_snoc. unfold is_irr. rewrite St. exact Hl.
    + rewrite irr_ids_snoc. unfold is_irr. rewrite St, app_nil_r. exact Ha.
    + rewrite irr_blocks_snoc. unfold is_irr. rewrite St, app_nil_r. exact Hc.
  - (* Undo *)
    destruct (memN (bid (eblk e)) (fm_finals m)) eqn:M; [discriminate|].
    destruct (apply_ev (ri root) (fm_stack m) e) as [st|] eqn:Ap; [|discriminate]. injection H as <-.
    split.
    + constructor; cbn [fm_stack fm_finals fm_stalled fm_last fm_any].
      * rewrite apply_all_snoc, Hs. exact Ap.
      * rewrite irr_ids_snoc. unfold is_irr. rewrite St, app_nil_r. exact Hf.
      * rewrite stalled_ids_snoc. unfold is_stalled. rewrite St, app_nil_r. exact Hst.
      * rewrite last_irr_snoc. unfold is_irr. rewrite St. exact Hl.
      * rewrite irr_ids_snoc. unfold is_irr. rewrite St, app_nil_r. exact Ha.
      * rewrite irr_blocks_snoc. unfold is_irr. rewrite St, app_nil_r. exact Hc.
    + apply memN_false_not_in in M. rewrite Hf in M. apply not_in_rev. exact M.
  - (* Irr *)
    unfold fin_irr in H.
    set (b := eblk e) in *. set (is_root := negb (fm_any m) && (bid b =? ri root)) in *.
    destruct (is_root || (bparent b =? ri (fm_last m))) eqn:C1; [|discriminate]. cbn [negb] in H.
    destruct (memN (bid b) (fm_stalled m)) eqn:M; [discriminate|].
    destruct (is_root || (bnum b <=? blib inc)) eqn:C2; [|discriminate]. cbn [negb] in H.
    (* whatever the oldest-pending branch, the new state has the same last/any/finals/stalled and the same stack *)
    assert (Hm' : fm_stack m' = fm_stack m /\ fm_last m' = bref b /\ fm_any m' = true /\
                  fm_finals m' = bid b :: fm_finals m /\ fm_stalled m' = fm_stalled m).
    { destruct (nth_from_bottom (fm_stack m) (fm_nfinal m)) as [p|].
      - destruct (bid p =? bid b); [injection H as <-; cbn; auto|].
        destruct is_root; [injection H as <-; cbn; auto | discriminate].
      - destruct is_root; [injection H as <-; cbn; auto | discriminate]. }
    destruct Hm' as (E1 & E2 & E3 & E4 & E5).
    assert (Hroot : is_root = true -> irr_ids P = [] /\ bid b = ri root).
    { unfold is_root. intros Hr. apply andb_true_iff in Hr as [Hr1 Hr2]. apply N.eqb_eq in Hr2.
      rewrite Ha in Hr1. destruct (irr_ids P); [auto | discriminate]. }
    split.
    + constructor.
      * rewrite apply_all_snoc, Hs, E1. unfold apply_ev. rewrite St. reflexivity.
      * rewrite E4, irr_ids_snoc. unfold is_irr. rewrite St, rev_app_distr. cbn [rev app]. rewrite Hf. reflexivity.
      * rewrite E5, stalled_ids_snoc. unfold is_stalled. rewrite St, app_nil_r. exact Hst.
      * rewrite E2, last_irr_snoc. unfold is_irr. rewrite St. reflexivity.
      * rewrite E3, irr_ids_snoc. unfold is_irr. rewrite St. destruct (irr_ids P); reflexivity.
      * rewrite irr_blocks_snoc. unfold is_irr. rewrite St. apply final_chain_snoc; [exact Hc|].
        apply orb_true_iff in C1 as [C1|C1].
        -- left. destruct (Hroot C1) as [Hn Hb]. split; [reflexivity|]. split; [|exact Hb].
           unfold irr_ids in Hn. destruct (irr_blocks P); [reflexivity | discriminate].
        -- right. apply N.eqb_eq in C1. unfold b in C1. rewrite C1, Hl, last_irr_rev. reflexivity.
    + split.
      * apply orb_true_iff in C2 as [C2|C2]; [left; apply Hroot; exact C2 | right; apply N.leb_le; exact C2].
      * apply memN_false_not_in in M. rewrite Hst in M. apply not_in_rev. exact M.
  - (* Stalled *)
    set (b := eblk e) in *.
    destruct (memN (bid b) (fm_finals m) || memN (bid b) (fm_stalled m)
              || existsb (fun x => bid x =? bid b) (fm_stack m) || negb (bnum b <=? rn (fm_last m))) eqn:C; [discriminate|].
    injection H as <-.
    apply orb_false_iff in C as [C C4]. apply orb_false_iff in C as [C C3]. apply orb_false_iff in C as [C1 C2].
    split.
    + constructor; cbn [fm_stack fm_finals fm_stalled fm_last fm_any].
      * rewrite apply_all_snoc, Hs. unfold apply_ev. rewrite St. reflexivity.
      * rewrite irr_ids_snoc. unfold is_irr. rewrite St, app_nil_r. exact Hf.
      * rewrite stalled_ids_snoc. unfold is_stalled. rewrite St, rev_app_distr. cbn [rev app]. rewrite Hst. reflexivity.
      * rewrite last_irr_snoc. unfold is_irr. rewrite St. exact Hl.
      * rewrite irr_ids_snoc. unfold is_irr. rewrite St, app_nil_r. exact Ha.
      * rewrite irr_blocks_snoc. unfold is_irr. rewrite St, app_nil_r. exact Hc.
    + split; [|split; [|split]].
      * apply memN_false_not_in in C1. rewrite Hf in C1. apply not_in_rev. exact C1.
      * apply memN_false_not_in in C2. rewrite Hst in C2. apply not_in_rev. exact C2.
      * apply negb_false_iff, N.leb_le in C4. rewrite <- Hl. exact C4.
      * intros st Hst' x Hx Heq. rewrite Hs in Hst'. injection Hst' as <-.
        assert (existsb (fun x0 => bid x0 =? bid b) (fm_stack m) = true).
        { apply existsb_exists. exists x. split; [exact Hx | apply N.eqb_eq; exact Heq]. }
        congruence.
  - (* NewIrr *)
    destruct (apply_ev (ri root) (fm_stack m) e) as [st|] eqn:Ap; [|discriminate]. injection H as <-.
    split; [|exact I]. constructor; cbn [fm_stack fm_finals fm_stalled fm_last fm_any].
    + rewrite apply_all_snoc, Hs. exact Ap.
    + rewrite irr_ids_snoc. unfold is_irr. rewrite St, app_nil_r. exact Hf.
    + rewrite stalled_ids_snoc. unfold is_stalled. rewrite St, app_nil_r. exact Hst.
    + rewrite last_irr_snoc. unfold is_irr. rewrite St. exact Hl.
    + rewrite irr_ids_snoc. unfold is_irr. rewrite St, app_nil_r. exact Ha.
    + rewrite irr_blocks_snoc. unfold is_irr. rewrite St, app_nil_r. exact Hc.
Qed.

Lemma pairs_J root : forall L P m m',
  J root P m -> fin_pairs (ri root) root m L = Some m' ->
  J root (P ++ map snd L) m' /\
  (forall l1 inc e l2, L = l1 ++ (inc, e) :: l2 -> point root (P ++ map snd l1) inc e).
Proof.
  induction L as [|[inc e] L IH]; intros P m m' HJ H.
  - cbn in *. injection H as <-. rewrite app_nil_r. split; [exact HJ|]. intros l1 i x l2 E. destruct l1; discriminate.
  - cbn [fin_pairs] in H. destruct (fin_step (ri root) root inc m e) as [m1|] eqn:S1; [|discriminate].
    destruct (step_J root P m inc e m1 HJ S1) as [HJ1 Hp].
    destruct (IH (P ++ [e]) m1 m' HJ1 H) as [HJ' Hall].
    cbn [map snd]. split.
    + rewrite <- app_assoc in HJ'. exact HJ'.
    + intros l1 i x l2 E. destruct l1 as [|y l1]; cbn [app] in E.
      * injection E as <- <- <-. cbn [map]. rewrite app_nil_r. exact Hp.
      * injection E as <- E. cbn [map snd]. specialize (Hall l1 i x l2 E). rewrite <- app_assoc in Hall. exact Hall.
Qed.

Lemma c02_monitor_sound_proof : C02_monitor_sound.
Proof.
  intros m h t H. unfold c02_b in H. set (root := root_ref m t) in *.
  rewrite fin_trace_pairs in H.
  destruct (fin_pairs (ri root) root (mkFM [] 0 root false [] []) (with_incoming h t)) as [m'|] eqn:E; [|discriminate].
  destruct (pairs_J root _ [] _ _ (J_init root) E) as [HJ Hall]. cbn [app] in *.
  split.
  - exact (j_chain _ _ _ HJ).
  - intros l1 inc e l2 Heq. exact (Hall l1 inc e l2 Heq).
Qed.
