(* Soundness of the cursor monitor c04_b with respect to Spec/C04_Monitor_Spec.v *)
From BV Require Import Base.Prelude Model.Block Model.Forkable Spec.Consumer Spec.C04_Monitor_Spec.
Local Open Scope N_scope.

Lemma ref_eqb_eq a b : ref_eqb a b = true -> a = b.
Proof.
  unfold ref_eqb. intros H. apply andb_true_iff in H as [H1 H2].
  apply N.eqb_eq in H1. apply N.eqb_eq in H2. destruct a, b. cbn in *. congruence.
Qed.

Definition fields (b : block) (e : event) : Prop :=
  ecblk e = bref (eblk e) /\ ehead e = bref b /\
  (match estep e with SNew | SIrr | SNewIrr => rn (elib e) <= bnum (eblk e) | _ => True end) /\
  (match estep e with SUndo => True | _ => ejunc e = None end).

Definition next_lib (cur : ref) (e : event) : ref :=
  match estep e with SIrr | SNewIrr => bref (eblk e) | _ => cur end.

Definition lib_rule (cur : ref) (e : event) : Prop :=
  match estep e with SIrr => elib e = bref (eblk e) | _ => elib e = cur end.

Lemma event_ok_sound inc m after root e :
  cur_event_ok true inc m after root e = true ->
  fields inc e /\ lib_rule (cm_lib m) e /\
  rn (cm_lib m) <= rn (elib e) /\ rn (elib e) <= rn (next_lib (cm_lib m) e).
Proof.
  unfold cur_event_ok. intros H.
  apply andb_true_iff in H as [H H5]. apply andb_true_iff in H as [H H4].
  apply andb_true_iff in H as [H H3]. apply andb_true_iff in H as [H1 H2].
  apply ref_eqb_eq in H1. apply ref_eqb_eq in H2. cbn [negb orb] in H3.
  unfold fields, lib_rule, next_lib.
  assert (Hj : match estep e with SUndo => True | _ => ejunc e = None end).
  { destruct (estep e); try exact I; destruct (ejunc e); try discriminate; reflexivity. }
  destruct (estep e) eqn:St.
  - (* New *) apply ref_eqb_eq in H3. apply N.leb_le in H4. rewrite H3 in *.
    split; [split; [exact H1 | split; [exact H2 | split; [exact H4 | exact Hj]]] | split; [reflexivity | split; lia]].
  - (* Undo *) apply ref_eqb_eq in H3. rewrite H3 in *.
    split; [split; [exact H1 | split; [exact H2 | split; [exact I | exact I]]] | split; [reflexivity | split; lia]].
  - (* Irr *) apply andb_true_iff in H3 as [H3 H3']. apply ref_eqb_eq in H3. apply N.leb_le in H3'. apply N.leb_le in H4.
    split; [split; [exact H1 | split; [exact H2 | split; [exact H4 | exact Hj]]] | split; [exact H3 | split; [exact H3' | rewrite H3; lia]]].
  - (* Stalled *) apply ref_eqb_eq in H3. rewrite H3 in *.
    split; [split; [exact H1 | split; [exact H2 | split; [exact I | exact Hj]]] | split; [reflexivity | split; lia]].
  - (* NewIrr *) apply ref_eqb_eq in H3. apply N.leb_le in H4. rewrite H3 in *.
    split; [split; [exact H1 | split; [exact H2 | split; [exact H4 | exact Hj]]] | split; [reflexivity | split; [lia | cbn [bref rn]; exact H4]]].
Qed.

(* heights of the cursor LIB are non-decreasing along l, starting at or above lo *)
Fixpoint mono_from (lo : N) (l : list event) : Prop :=
  match l with
  | [] => True
  | e :: l' => lo <= rn (elib e) /\ mono_from (rn (elib e)) l'
  end.

Lemma mono_from_weaken lo lo' l : lo' <= lo -> mono_from lo l -> mono_from lo' l.
Proof. destruct l as [|e l]; cbn; [auto|]. intros H [H1 H2]. split; [lia | exact H2]. Qed.

Lemma mono_from_app lo l1 l2 hi : mono_from lo l1 -> (forall e, In e l1 -> rn (elib e) <= hi) -> lo <= hi ->
  mono_from hi l2 -> mono_from lo (l1 ++ l2).
Proof.
  revert lo. induction l1 as [|e l1 IH]; intros lo H1 Hb Hlo H2; cbn [app].
  - eapply mono_from_weaken; eassumption.
  - destruct H1 as [Ha Hb']. split; [exact Ha|].
    apply IH; [exact Hb' | intros x Hx; apply Hb; right; exact Hx | apply Hb; left; reflexivity | exact H2].
Qed.

Lemma mono_from_pair lo l : mono_from lo l ->
  forall l1 e1 l2 e2 l3, l = l1 ++ e1 :: l2 ++ e2 :: l3 -> rn (elib e1) <= rn (elib e2).
Proof.
  (* first: every element of a mono_from list is >= lo *)
  assert (Hge : forall l lo, mono_from lo l -> forall e, In e l -> lo <= rn (elib e)).
  { induction l0 as [|x l0 IH]; intros lo0 H e [].
    - subst. destruct H; assumption.
    - destruct H as [H1 H2]. specialize (IH _ H2 e H0). lia. }
  revert lo. induction l as [|x l IH]; intros lo H l1 e1 l2 e2 l3 Heq.
  - destruct l1; discriminate.
  - destruct H as [H1 H2]. destruct l1 as [|y l1]; cbn [app] in Heq; injection Heq as -> ->.
    + apply (Hge _ _ H2). apply in_or_app. right. left. reflexivity.
    + eapply IH; [exact H2 | reflexivity].
Qed.

Fixpoint lf (cur : ref) (l : list event) : ref :=
  match l with [] => cur | e :: l' => lf (next_lib cur e) l' end.

Lemma lf_last_final cur l : lf cur l = last_final cur l.
Proof. revert cur. induction l as [|e l IH]; intros cur; cbn [lf last_final]; [reflexivity|]. apply IH. Qed.

Lemma lf_app cur l1 l2 : lf cur (l1 ++ l2) = lf (lf cur l1) l2.
Proof. revert cur. induction l1 as [|e l1 IH]; intros cur; cbn [app lf]; [reflexivity | apply IH]. Qed.

(* position-wise LIB rule relative to a starting LIB *)
Definition lib_rules (cur : ref) (l : list event) : Prop :=
  forall l1 e l2, l = l1 ++ e :: l2 -> lib_rule (lf cur l1) e.

Lemma lib_rules_app l1 : forall cur l2, lib_rules cur l1 -> lib_rules (lf cur l1) l2 -> lib_rules cur (l1 ++ l2).
Proof.
  induction l1 as [|x l1 IH]; intros cur l2 H1 H2 a e b Heq.
  - cbn [app lf] in *. exact (H2 a e b Heq).
  - destruct a as [|y a]; cbn [app] in Heq; injection Heq as Hx Heq.
    + subst e. cbn [lf]. exact (H1 [] x l1 eq_refl).
    + subst y. cbn [lf]. refine (IH (next_lib cur x) l2 _ H2 a e b Heq).
      intros a' e' b' E. apply (H1 (x :: a') e' b'). cbn [app]. rewrite E. reflexivity.
Qed.

Lemma cur_events_sound : forall f lib root inc m l m',
  cur_events f true lib root inc m l = Some m' ->
  Forall (fields inc) l /\ mono_from (rn (cm_lib m)) l /\
  (forall e, In e l -> rn (elib e) <= rn (cm_lib m')) /\ rn (cm_lib m) <= rn (cm_lib m') /\
  cm_lib m' = lf (cm_lib m) l /\ lib_rules (cm_lib m) l.
Proof.
  induction f as [|f IH]; intros lib root inc m l m' H; [discriminate|].
  cbn [cur_events] in H. destruct l as [|e l].
  - injection H as <-. split; [constructor|]. split; [exact I|]. split; [intros e []|]. split; [lia|]. split; [reflexivity|]. intros a e b E; destruct a; discriminate.
  - match type of H with (if negb ?c then _ else _) = _ => destruct c eqn:Hok end; [|discriminate]. cbn [negb] in H.
    destruct (apply_ev lib (cm_stack m) e) as [st|]; [|discriminate].
    apply event_ok_sound in Hok as (Hf & Hr & Hlo & Hhi).
    apply IH in H as (HF & HM & HB & HL & HE & HR). cbn [cm_lib] in *.
    fold (next_lib (cm_lib m) e) in *.
    split; [|split; [|split; [|split; [|split]]]].
    + constructor; assumption.
    + split; [exact Hlo | eapply mono_from_weaken; [exact Hhi | exact HM]].
    + intros x [<-|Hx]; [lia | apply HB; exact Hx].
    + lia.
    + exact HE.
    + intros a x b E. destruct a as [|y a]; cbn [app] in E; injection E as Hx E.
      * subst x. exact Hr.
      * subst y. cbn [lf]. apply (HR a x b). exact E.
Qed.

Lemma cur_trace_sound : forall h t lib root m m',
  cur_trace true lib root m h t = Some m' ->
  (forall b e, In (b, e) (with_incoming h t) -> fields b e) /\
  mono_from (rn (cm_lib m)) (map snd (with_incoming h t)) /\
  (forall e, In e (map snd (with_incoming h t)) -> rn (elib e) <= rn (cm_lib m')) /\
  rn (cm_lib m) <= rn (cm_lib m') /\
  cm_lib m' = lf (cm_lib m) (map snd (with_incoming h t)) /\
  lib_rules (cm_lib m) (map snd (with_incoming h t)).
Proof.
  induction h as [|b h IH]; intros t lib root m m' H.
  - cbn in *. injection H as <-. split; [tauto|]. split; [exact I|]. split; [tauto|]. split; [lia|]. split; [reflexivity|]. intros a e c E; destruct a; discriminate.
  - destruct t as [|[evs r] t].
    + cbn in *. injection H as <-. split; [tauto|]. split; [exact I|]. split; [tauto|]. split; [lia|]. split; [reflexivity|]. intros a e c E; destruct a; discriminate.
    + cbn [cur_trace] in H.
      destruct (cur_events (S (length evs)) true lib root b m evs) as [m1|] eqn:H1; [|discriminate].
      apply cur_events_sound in H1 as (HF & HM & HB & HL & HE & HR).
      apply IH in H as (HF2 & HM2 & HB2 & HL2 & HE2 & HR2).
      cbn [with_incoming]. rewrite map_app, map_map. cbn [snd]. rewrite map_id.
      split; [|split; [|split; [|split; [|split]]]].
      * intros b' e Hin. apply in_app_or in Hin as [Hin|Hin].
        -- apply in_map_iff in Hin as (x & E & Hx). injection E as <- <-. rewrite Forall_forall in HF. apply HF. exact Hx.
        -- apply HF2. exact Hin.
      * eapply mono_from_app; [exact HM | exact HB | exact HL | exact HM2].
      * intros e Hin. apply in_app_or in Hin as [Hin|Hin]; [specialize (HB e Hin); lia | apply HB2; exact Hin].
      * lia.
      * rewrite lf_app, <- HE. exact HE2.
      * apply lib_rules_app; [exact HR | rewrite <- HE; exact HR2].
Qed.

Lemma c04_monitor_sound_proof : C04_monitor_sound.
Proof.
  intros m h t H. unfold c04_b in H.
  destruct (cur_trace true (ri (root_ref m t)) (root_ref m t) (mkCM [] (root_ref m t)) h t) as [m'|] eqn:E; [|discriminate].
  apply cur_trace_sound in E as (HF & HM & HB & HL & HE & HR). cbn [cm_lib] in *.
  split; [|split].
  - intros b e Hin. exact (HF b e Hin).
  - intros l1 e1 l2 e2 l3 Heq. eapply mono_from_pair; [exact HM | exact Heq].
  - intros l1 e l2 Heq. specialize (HR l1 e l2 Heq). unfold lib_rule in HR. rewrite lf_last_final in HR. exact HR.
Qed.
