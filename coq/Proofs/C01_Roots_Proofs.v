(* C01 / C02 with roots (blocks whose parent id is empty): from the boolean scopes of
   Spec/C01_Roots_Spec.v to the hypotheses of Proofs/Fk/MovingLibInv.v, MovingLibFin.v, MovingLibDisc.v
   (whose id hypothesis U_id no longer asks for non-empty parent ids). *)
From BV Require Import Base.Prelude Model.Block Model.ForkDB Model.Forkable Spec.Consumer Spec.Universe
  Spec.C01_Spec Spec.C01_Moving_Spec Spec.C02_Spec Spec.C01_Roots_Spec
  Proofs.Fk.StoreFacts Proofs.Fk.WalkFacts Proofs.Fk.FixedLib Proofs.Fk.MovingLibInv Proofs.Fk.MovingLibFin Proofs.Fk.MovingLibDisc
  Proofs.Fk.FailPrefix Proofs.Fk.FailRun Proofs.C02_Proofs.
Local Open Scope N_scope.

(* ---- the old classes are sub-classes ---- *)
Lemma moving_scope_sub r0 h : moving_scope_b r0 h = true -> moving_scope2_b r0 h = true.
Proof.
  unfold moving_scope_b, moving_scope2_b. intros H. apply andb_true_iff in H as [H1 H2]. rewrite H1. cbn [andb].
  rewrite forallb_forall in H2. apply forallb_forall. intros b Hb. specialize (H2 b Hb).
  unfold moving_block_b in H2. unfold moving_block2_b.
  apply andb_true_iff in H2 as [H2 H4]. apply andb_true_iff in H2 as [_ H3]. rewrite H3, H4. reflexivity.
Qed.

Lemma disc_scope_sub h : disc_scope_b h = true -> disc_scope2_b h = true.
Proof. unfold disc_scope_b, disc_scope2_b. intros H. apply andb_true_iff in H as [H _]. exact H. Qed.

Lemma roots_scopes_subsume_proved : roots_scopes_subsume.
Proof. split; [exact moving_scope_sub | exact disc_scope_sub]. Qed.

(* ---- a configured starting LIB ---- *)
Section Bridge2.
  Variable r0 : ref.
  Variable h : list block.
  Hypothesis Hscope : moving_scope2_b r0 h = true.

  Lemma scope2_parts : wf_b h = true /\ lib_ok_b (LExcl r0) h = true /\ ri r0 <> 0 /\
                       forall b, In b h -> moving_block2_b r0 b = true.
  Proof.
    unfold moving_scope2_b in Hscope. apply andb_true_iff in Hscope as [H1 H4]. apply andb_true_iff in H1 as [H1 H3].
    apply andb_true_iff in H1 as [H1 H2].
    split; [exact H1|]. split; [exact H2|]. split.
    - apply negb_true_iff in H3. apply N.eqb_neq. exact H3.
    - rewrite forallb_forall in H4. exact H4.
  Qed.

  Lemma mb2_parts b : In b h ->
    (bparent b = ri r0 -> rn r0 < bnum b) /\ (bid b = ri r0 -> bnum b = rn r0).
  Proof.
    intros Hb. destruct scope2_parts as (_ & _ & _ & F). specialize (F b Hb). unfold moving_block2_b in F.
    apply andb_true_iff in F as [F2 F3]. split; intros E.
    - rewrite E, N.eqb_refl in F2. apply N.ltb_lt. exact F2.
    - rewrite E, N.eqb_refl in F3. apply N.eqb_eq. exact F3.
  Qed.

  Lemma m2_wf : wf_b h = true.
  Proof. apply scope2_parts. Qed.

  Lemma bridge2_decl b : In b h -> decl_ok h r0 b.
  Proof.
    intros Hb. destruct scope2_parts as (_ & Hok & _ & _). unfold lib_ok_b in Hok. rewrite forallb_forall in Hok.
    specialize (Hok b Hb). unfold lib_ok_block, mode_root in Hok. apply andb_true_iff in Hok as [Hok _].
    exists (Universe.chain h b). split; [apply (chain_uchain h m2_wf b Hb)|].
    apply orb_true_iff in Hok as [Hex|Hlow].
    - left. apply existsb_exists in Hex as (a & Ha & Hn). exists a. split; [exact Ha | apply N.eqb_eq; exact Hn].
    - right. destruct (bparent (last (Universe.chain h b) b) =? ri r0); [apply N.leb_le | apply N.ltb_lt]; exact Hlow.
  Qed.
End Bridge2.

(* ---- discovery ---- *)
Section BridgeDisc2.
  Variable h : list block.
  Hypothesis Hscope : disc_scope2_b h = true.

  Lemma d2_wf : wf_b h = true.
  Proof. pose proof Hscope as Hs. unfold disc_scope2_b in Hs. apply andb_true_iff in Hs as [H _]. exact H. Qed.

  Lemma bridge2_decl_none b : In b h -> decl_none h b.
  Proof.
    intros Hb. pose proof Hscope as Hs. unfold disc_scope2_b in Hs. apply andb_true_iff in Hs as [_ Hok].
    unfold lib_ok_b in Hok. rewrite forallb_forall in Hok.
    specialize (Hok b Hb). unfold lib_ok_block, mode_root in Hok. apply andb_true_iff in Hok as [Hok _].
    exists (Universe.chain h b). split; [apply (chain_uchain h d2_wf b Hb)|].
    apply orb_true_iff in Hok as [Hex|Hlow].
    - left. apply existsb_exists in Hex as (a & Ha & Hn). exists a. split; [exact Ha | apply N.eqb_eq; exact Hn].
    - right. apply N.ltb_lt. exact Hlow.
  Qed.
End BridgeDisc2.

(* the never-failing handler *)
Lemma c01_roots_nofail cfg r0 m h :
  c_fail_at cfg = None -> rooted_mode r0 m -> f_new (c_filter cfg) = true -> f_undo (c_filter cfg) = true ->
  moving_scope2_b r0 h = true ->
  let t := fk_run cfg (fs_init m) h in
  length t = length h /\ Forall (fun x => snd x = ROk) t /\
  c01_discipline_b m t = true /\ c01_refeed_b [] h t = true /\ c01_error_b (c_fail_at cfg) 0 t = true.
Proof.
  intros Hnofail Hm Hnew Hundo Hscope.
  destruct (scope2_parts r0 h Hscope) as (_ & _ & Hr0 & _).
  exact (moving_lib_run h r0 cfg Hnofail Hnew Hundo
           (bridge_id h (m2_wf r0 h Hscope)) (bridge_uniq h (m2_wf r0 h Hscope)) (bridge_up h (m2_wf r0 h Hscope)) Hr0
           (fun y Hy => proj2 (mb2_parts r0 h Hscope y Hy))
           (fun x Hx => proj1 (mb2_parts r0 h Hscope x Hx))
           (bridge2_decl r0 h Hscope)
           m h (rooted_of r0 m Hm) (fun b Hb => Hb)).
Qed.

Lemma c02_roots_nofail cfg r0 m h :
  c_fail_at cfg = None -> rooted_mode r0 m -> f_new (c_filter cfg) = true -> f_undo (c_filter cfg) = true ->
  f_irr (c_filter cfg) = true -> moving_scope2_b r0 h = true ->
  c02_b m h (fk_run cfg (fs_init m) h) = true.
Proof.
  intros Hnofail Hm Hnew Hundo Hirr Hscope.
  destruct (scope2_parts r0 h Hscope) as (_ & _ & Hr0 & _).
  exact (moving_lib_c02 h r0 cfg Hnofail Hnew Hundo Hirr
           (bridge_id h (m2_wf r0 h Hscope)) (bridge_uniq h (m2_wf r0 h Hscope)) (bridge_up h (m2_wf r0 h Hscope)) Hr0
           (fun y Hy => proj2 (mb2_parts r0 h Hscope y Hy))
           (fun x Hx => proj1 (mb2_parts r0 h Hscope x Hx))
           (bridge2_decl r0 h Hscope)
           m h (rooted_of r0 m Hm) (fun b Hb => Hb)).
Qed.

Lemma c01_moving_lib_roots_proved : c01_moving_lib_roots_statement.
Proof.
  intros cfg r0 m h Hm Hnew Hundo Hscope.
  destruct (c_fail_at cfg) as [k|] eqn:Hf.
  - (* the handler fails at call k: cut the never-failing run *)
    destruct (c01_roots_nofail (nofail cfg) r0 m h eq_refl Hm Hnew Hundo Hscope) as (Hlen & Hok & Hd & Hr & He).
    unfold c01_discipline_b in Hd. rewrite (proj1 (rooted_root_lib r0 m _ Hm)) in Hd.
    destruct (apply_all (ri r0) [] (all_events (fk_run (nofail cfg) (fs_init m) h))) as [S'|] eqn:Happ; [|discriminate].
    destruct (run_fail_c01 cfg k Hf (ri r0) h (fs_init m) [] []) as ((S2 & Happ2) & Hre2 & Herr2 & Hres2).
    + rewrite (rooted_ncalls r0 m Hm). lia.
    + exact Hok.
    + exists S'. exact Happ.
    + exact Hr.
    + unfold c01_statement. split; [|split; [exact Hres2 | intros H; discriminate]].
      split; [|split].
      * unfold c01_discipline_b. rewrite (proj1 (rooted_root_lib r0 m _ Hm)), Happ2. reflexivity.
      * exact Hre2.
      * rewrite Hf. rewrite (rooted_ncalls r0 m Hm) in Herr2. exact Herr2.
  - destruct (c01_roots_nofail cfg r0 m h Hf Hm Hnew Hundo Hscope) as (Hlen & Hok & Hd & Hr & He).
    unfold c01_statement. rewrite Hf in *. split; [repeat split; assumption|]. split.
    + eapply Forall_impl; [|exact Hok]. cbn beta. auto.
    + intros _. split; assumption.
Qed.

Lemma c02_moving_lib_roots_proved : c02_moving_lib_roots_statement.
Proof.
  intros cfg r0 m h Hm Hnew Hundo Hirr Hscope. unfold c02_statement.
  destruct (c_fail_at cfg) as [k|] eqn:Hf.
  - pose proof (c02_roots_nofail (nofail cfg) r0 m h eq_refl Hm Hnew Hundo Hirr Hscope) as HN.
    destruct (c01_roots_nofail (nofail cfg) r0 m h eq_refl Hm Hnew Hundo Hscope) as (_ & Hok & _).
    unfold c02_b in *. rewrite (proj2 (rooted_root_lib r0 m (fk_run (nofail cfg) (fs_init m) h) Hm)) in HN.
    rewrite (proj2 (rooted_root_lib r0 m (fk_run cfg (fs_init m) h) Hm)).
    destruct (fin_trace (ri r0) r0 (mkFM [] 0 r0 false [] []) h (fk_run (nofail cfg) (fs_init m) h)) as [mN|] eqn:EN; [|discriminate].
    destruct (run_fail_c02 cfg k Hf (ri r0) r0 h (fs_init m) (mkFM [] 0 r0 false [] [])) as [m' Hm'].
    + rewrite (rooted_ncalls r0 m Hm). lia.
    + exact Hok.
    + exists mN. exact EN.
    + rewrite Hm'. reflexivity.
  - exact (c02_roots_nofail cfg r0 m h Hf Hm Hnew Hundo Hirr Hscope).
Qed.

(* ---- discovery mode ---- *)

Lemma disc_roots_nofail cfg h :
  c_fail_at cfg = None -> c_hold cfg = true -> c_incl cfg = false ->
  f_new (c_filter cfg) = true -> f_undo (c_filter cfg) = true -> disc_scope2_b h = true ->
  let t := fk_run cfg (fs_init LNone) h in
  length t = length h /\ Forall (fun x => snd x = ROk) t /\
  c01_discipline_b LNone t = true /\ c01_refeed_b [] h t = true /\
  c01_error_b (c_fail_at cfg) 0 t = true /\
  (f_irr (c_filter cfg) = true -> c02_b LNone h t = true).
Proof.
  intros Hnofail Hhold Hincl Hnew Hundo Hscope.
  exact (disc_run h cfg Hnofail Hnew Hundo Hhold Hincl
           (bridge_id h (d2_wf h Hscope)) (bridge_uniq h (d2_wf h Hscope)) (bridge_up h (d2_wf h Hscope))
           (bridge2_decl_none h Hscope) h (fun b Hb => Hb)).
Qed.

Lemma c01_discovery_roots_proved : c01_discovery_roots_statement.
Proof.
  intros cfg h Hhold Hincl Hnew Hundo Hscope.
  destruct (c_fail_at cfg) as [k|] eqn:Hf.
  - destruct (disc_roots_nofail (nofail cfg) h eq_refl Hhold Hincl Hnew Hundo Hscope) as (Hlen & Hok & Hd & Hr & He & _).
    set (tN := fk_run (nofail cfg) (fs_init LNone) h) in *. set (t := fk_run cfg (fs_init LNone) h).
    destruct (run_fail_events cfg k Hf h (fs_init LNone)) as [rest Hrest]; [cbn; lia | exact Hok|].
    fold tN t in Hrest.
    unfold c01_discipline_b in Hd.
    destruct (apply_all (root_lib LNone tN) [] (all_events tN)) as [S'|] eqn:Happ; [|discriminate].
    destruct (run_fail_c01 cfg k Hf (root_lib LNone tN) h (fs_init LNone) [] []) as ((S2 & Happ2) & Hre2 & Herr2 & Hres2).
    + cbn. lia.
    + exact Hok.
    + exists S'. exact Happ.
    + exact Hr.
    + fold t in Happ2, Hre2, Herr2, Hres2.
      unfold c01_statement. fold t. split; [|split; [exact Hres2 | intros H; discriminate]].
      split; [|split; [exact Hre2 | rewrite Hf; exact Herr2]].
      unfold c01_discipline_b. destruct (all_events t) as [|e l] eqn:Et.
      * unfold root_lib. rewrite Et. reflexivity.
      * assert (Hroot : root_lib LNone t = root_lib LNone tN).
        { unfold root_lib. rewrite Hrest, Et. reflexivity. }
        rewrite Hroot, Happ2. reflexivity.
  - destruct (disc_roots_nofail cfg h Hf Hhold Hincl Hnew Hundo Hscope) as (Hlen & Hok & Hd & Hr & He & _).
    unfold c01_statement. rewrite Hf in *. split; [repeat split; assumption|]. split.
    + eapply Forall_impl; [|exact Hok]. cbn beta. auto.
    + intros _. split; assumption.
Qed.

Lemma c02_discovery_roots_proved : c02_discovery_roots_statement.
Proof.
  intros cfg h Hhold Hincl Hnew Hundo Hirr Hscope. unfold c02_statement.
  destruct (c_fail_at cfg) as [k|] eqn:Hf.
  - destruct (disc_roots_nofail (nofail cfg) h eq_refl Hhold Hincl Hnew Hundo Hscope) as (_ & Hok & _ & _ & _ & HN).
    specialize (HN Hirr).
    set (tN := fk_run (nofail cfg) (fs_init LNone) h) in *. set (t := fk_run cfg (fs_init LNone) h).
    destruct (run_fail_events cfg k Hf h (fs_init LNone)) as [rest Hrest]; [cbn; lia | exact Hok|].
    fold tN t in Hrest.
    unfold c02_b in *.
    destruct (fin_trace (ri (root_ref LNone tN)) (root_ref LNone tN) (mkFM [] 0 (root_ref LNone tN) false [] []) h tN) as [mN|] eqn:EN; [|discriminate].
    destruct (run_fail_c02 cfg k Hf (ri (root_ref LNone tN)) (root_ref LNone tN) h (fs_init LNone) (mkFM [] 0 (root_ref LNone tN) false [] [])) as [m' Hm'].
    + cbn. lia.
    + exact Hok.
    + exists mN. exact EN.
    + fold t in Hm'. destruct (all_events t) as [|e l] eqn:Et.
      * rewrite (fin_trace_quiet _ _ h t _ (all_events_nil t Et)). reflexivity.
      * assert (Hroot : root_ref LNone t = root_ref LNone tN).
        { unfold root_ref. rewrite Hrest, Et. reflexivity. }
        rewrite Hroot, Hm'. reflexivity.
  - destruct (disc_roots_nofail cfg h Hf Hhold Hincl Hnew Hundo Hscope) as (_ & _ & _ & _ & _ & HN). exact (HN Hirr).
Qed.
