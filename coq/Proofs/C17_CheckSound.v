(* C17 — the boolean property checker of Check/C17_Check.v accepts an observation only if the
   observation satisfies the Prop statements of Spec/C17_Spec.v (read on the observation). *)
From BV Require Import Base.Prelude Model.Gates Spec.C17_Spec Check.C17_Check
  Proofs.PreludeFacts Proofs.C17_Lists.
Local Open Scope N_scope.

Definition C17_checker_sound : Prop :=
  forall R T I holdoff hflags l os,
    check_latch R T I holdoff hflags l os = true ->
    (* what the handler was observed to receive is the input from the declarative trigger on *)
    suffix_of_input T I l (obs_forwarded l os) /\
    (* before the trigger the observed return values follow the hold-off rule *)
    (forall mh j e o, holdoff = Some mh -> nth_error l j = Some e -> nth_error os j = Some o ->
       (forall k x, (k <= j)%nat -> nth_error l k = Some x -> T x = false) ->
       ret_of o = if R e && negb (mh =? 0)%Z && (held R l j >? mh)%Z then 1 else 0) /\
    (* the handler is never called twice, nor with another block or object *)
    (forall o, In o os -> fst (fst o) <= 1).

Lemma obs_fw_skipn l : forall os k start,
  map is_fw os = map (fun j => (start <=? j)%nat) (seq k (length l)) ->
  obs_forwarded l os = skipn (start - k) l.
Proof.
  induction l as [|e l IH]; intros os k start H.
  - simpl. destruct (start - k)%nat; reflexivity.
  - destruct os as [|o os]; simpl in H; [discriminate|].
    inversion H as [[Ho Hrest]]. simpl obs_forwarded. rewrite Ho.
    specialize (IH os (S k) start Hrest).
    destruct (Nat.leb_spec start k) as [Hle|Hgt].
    + replace (start - k)%nat with 0%nat by lia. simpl. f_equal.
      rewrite IH. replace (start - S k)%nat with 0%nat by lia. reflexivity.
    + rewrite IH. replace (start - k)%nat with (S (start - S k)) by lia. reflexivity.
Qed.

Lemma skipn_start_suffix T I l : suffix_of_input T I l (skipn (start_pos T I l) l).
Proof.
  unfold start_pos. split.
  - intros Hn. rewrite (never_first_index T l Hn). apply skipn_all.
  - intros i e Hfa He. rewrite (first_at_index T l i Hfa), He. reflexivity.
Qed.

Lemma forallb_combine_nth {A B} (P : nat * (A * B) -> bool) (l : list A) : forall (os : list B) k j e o,
  forallb P (combine (seq k (length l)) (combine l os)) = true ->
  nth_error l j = Some e -> nth_error os j = Some o ->
  P ((k + j)%nat, (e, o)) = true.
Proof.
  induction l as [|x l IH]; intros os k j e o H He Ho; [destruct j; discriminate|].
  destruct os as [|y os]; [destruct j; discriminate|].
  simpl in H. apply andb_true_iff in H as [H0 Hrest].
  destruct j as [|j]; simpl in He, Ho.
  - inversion He; inversion Ho; subst. rewrite Nat.add_0_r. exact H0.
  - replace (k + S j)%nat with (S k + j)%nat by lia. apply (IH os (S k) j e o Hrest He Ho).
Qed.

Lemma before_trigger T I l j e :
  nth_error l j = Some e ->
  (forall k x, (k <= j)%nat -> nth_error l k = Some x -> T x = false) ->
  (j < trigger_pos T l)%nat /\ (j < start_pos T I l)%nat.
Proof.
  intros He Hbefore.
  assert (Hj : (j < length l)%nat) by (apply nth_error_Some; congruence).
  unfold trigger_pos, start_pos. destruct (first_index T l) as [i|] eqn:Hfi; [|auto].
  destruct (first_index_some T l i Hfi) as [[x [Hx HTx]] _].
  assert (Hi : (j < i)%nat).
  { destruct (Nat.lt_ge_cases j i) as [Hlt|Hge]; [exact Hlt|].
    rewrite (Hbefore i x Hge Hx) in HTx. discriminate. }
  split; [exact Hi|]. rewrite Hx. destruct (I x); lia.
Qed.

Theorem c17_checker_sound_proof : C17_checker_sound.
Proof.
  intros R T I holdoff hflags l os H.
  unfold check_latch in H. cbv zeta in H.
  apply andb_true_iff in H as [H Htrips].
  apply andb_true_iff in H as [H Hrets].
  apply andb_true_iff in H as [Hlen Hflags].
  unfold flags_ok in Hflags. apply andb_true_iff in Hflags as [Hwf Hfl].
  split; [|split].
  - apply (list_eqb_eq Bool.eqb) in Hfl.
    2:{ intros a b. apply Bool.eqb_true_iff. }
    rewrite (obs_fw_skipn l os 0%nat (start_pos T I l) Hfl). rewrite Nat.sub_0_r.
    apply skipn_start_suffix.
  - intros mh j e o Hho He Ho Hbefore. subst holdoff.
    destruct (before_trigger T I l j e He Hbefore) as [Htr Hst].
    unfold rets_ok in Hrets.
    pose proof (forallb_combine_nth _ l os 0%nat j e o Hrets He Ho) as Hp.
    simpl in Hp. apply N.eqb_eq in Hp. rewrite Hp.
    replace (start_pos T I l <=? j)%nat with false by (symmetry; apply Nat.leb_gt; exact Hst).
    replace (j <? trigger_pos T l)%nat with true by (symmetry; apply Nat.ltb_lt; exact Htr).
    reflexivity.
  - intros o Ho. rewrite forallb_forall in Hwf. apply N.leb_le. apply Hwf. exact Ho.
Qed.
