(* C01, hold-until-LIB discovery in the fixed-LIB class: from the boolean scope to the hypotheses of
   Proofs/Fk/FixedLibDisc.v, then the oracle transfer. *)
From BV Require Import Base.Prelude Model.Block Model.ForkDB Model.Forkable Spec.Consumer Spec.Universe
  Spec.C01_Spec Spec.C01_More_Spec Proofs.Fk.FixedLib Proofs.Fk.LoopFactsFail Proofs.Fk.FixedLibDisc
  Proofs.C01_Proofs Proofs.C01_FailProofs.
Local Open Scope N_scope.

Section BridgeWf.
  Variable h : list block.
  Hypothesis Hwf : wf_b h = true.

  Lemma wfb_block b : In b h -> wf_block h b = true.
  Proof. unfold wf_b in Hwf. rewrite forallb_forall in Hwf. apply Hwf. Qed.

  Lemma wfb_lookup_self b : In b h -> lookup (bid b) h = Some b.
  Proof.
    intros Hb. pose proof (wfb_block b Hb) as W. unfold wf_block in W.
    apply andb_true_iff in W as [_ W]. destruct (lookup (bid b) h) as [b'|]; [|discriminate].
    apply block_eqb_eq in W. congruence.
  Qed.

  Lemma wfb_id b : In b h -> bid b <> 0 /\ bid b <> bparent b.
  Proof.
    intros Hb. pose proof (wfb_block b Hb) as W. unfold wf_block in W.
    apply andb_true_iff in W as [W _]. apply andb_true_iff in W as [W _]. apply andb_true_iff in W as [W1 W2].
    apply negb_true_iff, N.eqb_neq in W1. apply negb_true_iff, N.eqb_neq in W2. auto.
  Qed.

  Lemma wfb_uniq x y : In x h -> In y h -> bid x = bid y -> x = y.
  Proof.
    intros Hx Hy E. pose proof (wfb_lookup_self x Hx) as Lx. pose proof (wfb_lookup_self y Hy) as Ly.
    rewrite E in Lx. congruence.
  Qed.

  Lemma wfb_up x y : In x h -> In y h -> bparent x = bid y -> bnum y < bnum x.
  Proof.
    intros Hx Hy E. pose proof (wfb_block x Hx) as W. unfold wf_block in W.
    apply andb_true_iff in W as [W _]. apply andb_true_iff in W as [_ W].
    rewrite E, (wfb_lookup_self y Hy) in W. apply N.ltb_lt. exact W.
  Qed.
End BridgeWf.

Lemma disc_scope_parts n0 first h : c01_disc_scope_b n0 first h = true ->
  wf_b h = true /\
  forall b, In b h -> bparent b <> 0 /\ blib b = n0 /\ n0 <= bnum b /\ (bnum b = first -> bnum b = n0).
Proof.
  unfold c01_disc_scope_b. intros H. apply andb_true_iff in H as [H1 H2]. split; [exact H1|].
  rewrite forallb_forall in H2. intros b Hb. specialize (H2 b Hb). unfold disc_block_b in H2.
  apply andb_true_iff in H2 as [H2 F4]. apply andb_true_iff in H2 as [H2 F3]. apply andb_true_iff in H2 as [F1 F2].
  apply negb_true_iff, N.eqb_neq in F1. apply N.eqb_eq in F2. apply N.leb_le in F3.
  repeat split; try assumption. intros E. rewrite E, N.eqb_refl in F4. rewrite E. apply N.eqb_eq. exact F4.
Qed.

Lemma c01_fixed_lib_disc_nofail cfg n0 h :
  c_fail_at cfg = None -> c_hold cfg = true ->
  f_new (c_filter cfg) = true -> f_undo (c_filter cfg) = true ->
  c01_disc_scope_b n0 (c_first cfg) h = true ->
  c01_statement cfg LNone h /\
  Forall (fun x => snd x = ROk) (fk_run cfg (fs_init LNone) h) /\
  length (fk_run cfg (fs_init LNone) h) = length h.
Proof.
  intros Hnofail Hhold Hnew Hundo Hscope.
  destruct (disc_scope_parts _ _ _ Hscope) as (Hwf & Hbl).
  pose proof (fixed_lib_disc_run h n0 cfg Hnofail Hnew Hundo Hhold
                (wfb_id h Hwf)
                (wfb_uniq h Hwf) (wfb_up h Hwf)
                (fun b Hb => proj1 (proj2 (Hbl b Hb)))
                (fun b Hb => proj1 (proj2 (proj2 (Hbl b Hb))))
                (fun b Hb => proj2 (proj2 (proj2 (Hbl b Hb))))
                h (fun b Hb => Hb)) as (Hlen & Hok & Hd & Hr & He).
  unfold c01_statement. repeat split; assumption.
Qed.

Lemma c01_fixed_lib_disc_proved : c01_fixed_lib_disc_statement.
Proof.
  intros cfg n0 h Hhold Hnew Hundo Hscope.
  destruct (c01_fixed_lib_disc_nofail (nofail cfg) n0 h eq_refl Hhold Hnew Hundo Hscope) as (Hst & Hok & Hlen).
  destruct (fk_run_oracle_proved cfg LNone h) as [Ho _].
  split; [apply c01_failures_transfer_proved; exact Hst|]. split; [exact Ho|].
  split; [eapply results_of_oracle_run; eassumption|].
  intros Hnone. rewrite (nofail_id cfg Hnone) in Hlen. exact Hlen.
Qed.
