(* C15 — the file source, part 2: the reader loop; completeness, fallback and tightness. *)
From Coq Require Import Sorted.
From BV Require Import Base.Prelude Model.BlockIndex Spec.C15_Spec Proofs.PreludeFacts
  Proofs.C15_Sets Proofs.C15_Arith Proofs.C15_Lookup.
Local Open Scope N_scope.

Section Stream.
  Set Default Proof Using "All".
  Variable PS : Type.
  Variable query : PS -> N -> PS * option (list N).
  Variables start stop bundle : N.
  Variable prog : N -> bool.
  Variable exists_ : N -> bool.
  Variable blocks : N -> list N.
  Variable Inv : PS -> Prop.
  Variable M : N -> Prop.
  Hypothesis Hb : bundle <> 0.
  Hypothesis Hprov : provider_ok PS query bundle Inv M.
  Hypothesis Hchain : chain_ok bundle blocks.

  Notation aligned := (aligned bundle).
  Notation lb := (fun n => low_boundary n bundle).
  Notation on_chain := (on_chain bundle blocks).
  Notation reached := (reached stop bundle).
  Notation stream_file := (stream_file start).
  Notation plan := (plan PS query start stop bundle prog exists_).
  Notation run := (run PS query start stop bundle prog exists_ blocks).
  Notation plan_case := (plan_case PS query start stop bundle prog exists_ Inv M).
  Notation Pl := (Pl PS).
  Notation PlFuel := (PlFuel PS).

  Lemma run_S f lfuel prov wl base d e :
    run (S f) lfuel prov wl base = (d, e) ->
    (plan lfuel prov wl base = PlFuel /\ d = [] /\ e = EFuel) \/
    exists prov' wl' filt base',
      plan lfuel prov wl base = Pl prov' wl' filt base' /\
      ((exists_ base' = false /\ run f lfuel prov' wl' base' = (d, e)) \/
       (exists_ base' = false /\ d = [] /\ e = EWait base') \/
       (exists_ base' = true /\ stop <> 0 /\ stop < base' + bundle /\
          d = stream_file base' filt (blocks base') /\ e = EStop) \/
       (exists_ base' = true /\ (stop = 0 \/ base' + bundle <= stop) /\
          exists ds, run f lfuel prov' wl' (base' + bundle) = (ds, e) /\
                     d = stream_file base' filt (blocks base') ++ ds)).
  Proof.
    simpl. destruct (plan lfuel prov wl base) as [|prov' wl' filt base'] eqn:Ep.
    - intros H. inversion H. left. auto.
    - intros H. right. exists prov', wl', filt, base'. split; [reflexivity|].
      destruct (exists_ base') eqn:Ee; simpl in H.
      + destruct (negb (stop =? 0) && (stop <? base' + bundle)) eqn:Es.
        * inversion H; subst. apply andb_true_iff in Es as [Es1 Es2]. apply negb_true_iff in Es1.
          apply N.eqb_neq in Es1. apply N.ltb_lt in Es2. right. right. left. auto.
        * destruct (run f lfuel prov' wl' (base' + bundle)) as [ds e'] eqn:Er. inversion H; subst.
          right. right. right. split; [reflexivity|]. split.
          -- apply andb_false_iff in Es as [Es|Es].
             ++ apply negb_false_iff in Es. apply N.eqb_eq in Es. left. exact Es.
             ++ apply N.ltb_ge in Es. right. exact Es.
          -- exists ds. auto.
      + destruct (length wl' <? length wl)%nat.
        * left. auto.
        * inversion H; subst. right. left. auto.
  Qed.

  (* a block of the bundle at an aligned base is on the chain *)
  Lemma block_on_chain b x : aligned b -> In x (blocks b) -> on_chain x /\ b <= x < b + bundle.
  Proof.
    intros Hal Hx. destruct (Hchain b Hal) as [_ Hr]. pose proof (Hr x Hx) as Hrx.
    split; [|exact Hrx]. unfold C15_Spec.on_chain. rewrite (lb_unique b x bundle Hb Hal Hrx). exact Hx.
  Qed.

  Lemma on_chain_in b y : aligned b -> on_chain y -> b <= y < b + bundle -> In y (blocks b).
  Proof.
    intros Hal Hy Hr. unfold C15_Spec.on_chain in Hy. rewrite (lb_unique b y bundle Hb Hal Hr) in Hy. exact Hy.
  Qed.

  (* a bundle at or above an aligned base and not after the stop bundle *)
  Lemma stop_bundle b y : aligned b -> b <= y -> low_boundary y bundle < b + bundle -> b <= y < b + bundle.
  Proof.
    intros Hal Hle Hlt. split; [exact Hle|].
    pose proof (aligned_le_lb b y bundle Hb Hal Hle) as H1.
    destruct (N.eq_dec (low_boundary y bundle) b) as [E|E].
    - pose proof (lb_lt y bundle Hb). lia.
    - assert (b < low_boundary y bundle) as H2 by lia.
      pose proof (aligned_step _ _ bundle Hb Hal (lb_mod y bundle Hb) H2). lia.
  Qed.

  (* what one opened bundle delivers *)
  Lemma bundle_output prov wl base prov' wl' filt base' x :
    plan_case prov wl base prov' wl' filt base' -> aligned base' ->
    In x (stream_file base' filt (blocks base')) ->
    on_chain x /\ start <= x /\ base' <= x < base' + bundle.
  Proof.
    intros _ Hal Hx. apply stream_sub in Hx as [Hx [Hs _]].
    destruct (block_on_chain base' x Hal Hx) as [H1 H2]. split; [exact H1|]. split; [exact Hs | exact H2].
  Qed.

  Lemma bundle_delivers prov wl base prov' wl' filt base' m :
    plan_case prov wl base prov' wl' filt base' -> aligned base' ->
    M m -> on_chain m -> start <= m -> (stop = 0 \/ m <= stop) -> base' <= m < base' + bundle ->
    In m (stream_file base' filt (blocks base')).
  Proof.
    intros Hc Hal Hm Hoc Hs Hst Hr.
    pose proof (on_chain_in base' m Hal Hoc Hr) as Hin.
    destruct (Hchain base' Hal) as [Hasc _].
    destruct Hc as [Hp | ps ps' wl1 out nb Hp Hi Hnb Hle Hincl Hlen Hsk Hcov Hf Hstp
                       | ps wl1 nb b1 Hp Hnb Hle Hincl Hlen Hsk Hend Hb1].
    - apply stream_none. split; [exact Hin|]. split; [exact Hs | lia].
    - destruct Hf as [Hfa [_ Hfc]]. apply stream_complete; try assumption; try lia.
      apply Hfc; assumption.
    - apply stream_none. split; [exact Hin|]. split; [exact Hs | lia].
  Qed.

  (* ---------------- completeness, order ---------------- *)
  Lemma run_complete lfuel : forall fuel prov wl base d e,
    aligned base -> (forall ps, prov = Some ps -> Inv ps) ->
    run fuel lfuel prov wl base = (d, e) ->
    asc d /\
    (forall x, In x d -> base <= x /\ on_chain x /\ start <= x) /\
    (forall m, M m -> on_chain m -> start <= m -> (stop = 0 \/ m <= stop) -> base <= m ->
               reached e m -> In m d).
  Proof.
    induction fuel as [|f IH]; intros prov wl base d e Hal Hinv Hrun.
    - simpl in Hrun. inversion Hrun; subst. split; [apply asc_nil|]. split; [intros x []|]. intros m _ _ _ _ _ [].
    - apply run_S in Hrun as [[_ [Hd He]]|[prov' [wl' [filt [base' [Hplan Hcases]]]]]].
      { subst. split; [apply asc_nil|]. split; [intros x []|]. intros m _ _ _ _ _ []. }
      pose proof (plan_spec PS query start stop bundle prog exists_ Inv M Hb Hprov lfuel prov wl base prov' wl' filt base' Hplan Hal Hinv) as Hc.
      destruct (plan_common PS query start stop bundle prog exists_ Inv M Hb Hprov prov wl base prov' wl' filt base' Hc Hal)
        as [Hal' [Hle [_ [_ [Hinv' Hnone]]]]].
      destruct Hcases as [[He Hr]|[[He [Hd Hend]]|[[He [Hs0 [Hs1 [Hd Hend]]]]|[He [Hs [ds [Hr Hd]]]]]]].
      + (* the bundle is not there, the lookup is redone with the pruned whitelist *)
        destruct (IH prov' wl' base' d e Hal' Hinv' Hr) as [I1 [I2 I3]].
        split; [exact I1|]. split.
        * intros x Hx. destruct (I2 x Hx) as [J1 J2]. split; [lia | exact J2].
        * intros m Hm Hoc Hsm Hst Hge Hre. apply I3; try assumption.
          destruct (N.lt_ge_cases m base') as [Hlt|Hge']; [|exact Hge'].
          exfalso. apply (Hnone m Hm Hsm Hst Hge Hlt).
      + subst. split; [apply asc_nil|]. split; [intros x []|].
        intros m Hm Hoc Hsm Hst Hge Hre. simpl in Hre. exfalso. apply (Hnone m Hm Hsm Hst Hge Hre).
      + (* the bundle holding the stop block *)
        subst. destruct (Hchain base' Hal') as [Hasc _].
        split; [apply stream_asc; exact Hasc|]. split.
        * intros x Hx. destruct (bundle_output _ _ _ _ _ _ _ x Hc Hal' Hx) as [J1 [J2 J3]]. split; [lia | auto].
        * intros m Hm Hoc Hsm Hst Hge Hre. simpl in Hre.
          destruct (N.lt_ge_cases m base') as [Hlt|Hge']; [exfalso; apply (Hnone m Hm Hsm Hst Hge Hlt)|].
          apply (bundle_delivers _ _ _ _ _ _ _ m Hc Hal' Hm Hoc Hsm Hst).
          apply stop_bundle; [exact Hal' | exact Hge' | lia].
      + (* an ordinary bundle, then the rest *)
        assert (Hal2 : aligned (base' + bundle)) by (apply aligned_add; assumption).
        destruct (IH prov' wl' (base' + bundle) ds e Hal2 Hinv' Hr) as [I1 [I2 I3]].
        destruct (Hchain base' Hal') as [Hasc _]. subst d.
        split; [|split].
        * apply asc_app; [apply stream_asc; exact Hasc | exact I1 |].
          intros x y Hx Hy. destruct (bundle_output _ _ _ _ _ _ _ x Hc Hal' Hx) as [_ [_ J3]].
          destruct (I2 y Hy) as [J4 _]. lia.
        * intros x Hx. apply in_app_or in Hx as [Hx|Hx].
          -- destruct (bundle_output _ _ _ _ _ _ _ x Hc Hal' Hx) as [J1 [J2 J3]]. split; [lia | auto].
          -- destruct (I2 x Hx) as [J1 J2]. split; [lia | exact J2].
        * intros m Hm Hoc Hsm Hst Hge Hre. apply in_or_app.
          destruct (N.lt_ge_cases m base') as [Hlt|Hge']; [exfalso; apply (Hnone m Hm Hsm Hst Hge Hlt)|].
          destruct (N.lt_ge_cases m (base' + bundle)) as [Hlt2|Hge2].
          -- left. apply (bundle_delivers _ _ _ _ _ _ _ m Hc Hal' Hm Hoc Hsm Hst). lia.
          -- right. apply I3; assumption.
  Qed.

  (* ---------------- fallback ---------------- *)
  Notation uncovered := (uncovered PS query Inv).
  Notation covered := (covered PS query Inv).

  Lemma run_fallback lfuel : forall fuel prov wl base d e,
    aligned base -> (forall ps, prov = Some ps -> Inv ps) ->
    run fuel lfuel prov wl base = (d, e) ->
    forall u, aligned u -> uncovered u -> (prov <> None -> base <= u) ->
    forall y, on_chain y -> start <= y -> u <= y -> base <= y -> reached e y -> In y d.
  Proof.
    induction fuel as [|f IH]; intros prov wl base d e Hal Hinv Hrun u Hu Hunc Hbu y Hoc Hsy Huy Hby Hre.
    - simpl in Hrun. inversion Hrun; subst. destruct Hre.
    - apply run_S in Hrun as [[_ [Hd He]]|[prov' [wl' [filt [base' [Hplan Hcases]]]]]].
      { subst. destruct Hre. }
      pose proof (plan_spec PS query start stop bundle prog exists_ Inv M Hb Hprov lfuel prov wl base prov' wl' filt base' Hplan Hal Hinv) as Hc.
      destruct (plan_common PS query start stop bundle prog exists_ Inv M Hb Hprov prov wl base prov' wl' filt base' Hc Hal)
        as [Hal' [Hle [_ [_ [Hinv' _]]]]].
      (* an uncovered bundle is never passed over, nor answered for *)
      assert (Hpass : forall nb, aligned nb -> skipped_ok PS query start stop bundle Inv M base nb ->
                                 base <= u -> nb <= u).
      { intros nb Hnb Hsk Hle0. destruct (N.lt_ge_cases u nb) as [Hlt|Hge]; [|exact Hge].
        destruct (Hsk u Hu) as [[ps0 [Hi0 Hq0]] _]; [lia|]. exfalso. apply Hq0. apply Hunc. exact Hi0. }
      (* the unfiltered case: the plan dropped (or had no) provider, base' <= y *)
      assert (Hunf : prov' = None -> filt = None -> base' <= y -> In y d).
      { intros Hp' Hf' Hy'. subst prov' filt.
        destruct Hcases as [[He Hr]|[[He [Hd Hend]]|[[He [Hs0 [Hs1 [Hd Hend]]]]|[He [Hs [ds [Hr Hd]]]]]]].
        - apply (IH None wl' base' d e Hal' Hinv' Hr u Hu Hunc); try assumption. intros H; contradiction.
        - subst. simpl in Hre. lia.
        - subst. simpl in Hre. apply stream_none.
          assert (base' <= y < base' + bundle) as Hr by (apply stop_bundle; [exact Hal' | exact Hy' | lia]).
          split; [apply on_chain_in; assumption|]. split; [exact Hsy | lia].
        - subst d. apply in_or_app. destruct (N.lt_ge_cases y (base' + bundle)) as [Hlt|Hge].
          + left. apply stream_none. split; [apply on_chain_in; [exact Hal' | exact Hoc | lia]|]. split; [exact Hsy | lia].
          + right. apply (IH None wl' (base' + bundle) ds e (aligned_add _ _ Hb Hal') Hinv' Hr u Hu Hunc); try assumption.
            intros H; contradiction. }
      destruct Hc as [Hp | ps ps' wl1 out nb Hp Hi Hnb Hle1 Hincl Hlen Hsk Hcov Hf Hstp
                         | ps wl1 nb b1 Hp Hnb Hle1 Hincl Hlen Hsk Hend Hb1].
      + apply Hunf; auto.
      + (* the index answered for nb: the uncovered bundle lies further *)
        assert (Hbu' : base <= u) by (apply Hbu; rewrite Hp; discriminate).
        pose proof (Hpass nb Hnb Hsk Hbu') as Hnu.
        assert (nb <> u) as Hne.
        { intros ->. destruct Hcov as [ps0 [Hi0 Hq0]]. apply Hq0. apply Hunc. exact Hi0. }
        assert (nb + bundle <= u) as Hnu2 by (apply aligned_step; try assumption; lia).
        destruct Hcases as [[He Hr]|[[He [Hd Hend]]|[[He [Hs0 [Hs1 [Hd Hend]]]]|[He [Hs [ds [Hr Hd]]]]]]].
        * apply (IH (Some ps') wl1 nb d e Hal' Hinv' Hr u Hu Hunc); try assumption; [intros _; lia | lia].
        * subst. simpl in Hre. lia.
        * subst. simpl in Hre. pose proof (aligned_le_lb u y bundle Hb Hu Huy). lia.
        * subst d. apply in_or_app. right.
          apply (IH (Some ps') wl1 (nb + bundle) ds e (aligned_add _ _ Hb Hal') Hinv' Hr u Hu Hunc); try assumption; [intros _; lia | lia].
      + (* the provider is dropped at or before the uncovered bundle *)
        assert (Hbu' : base <= u) by (apply Hbu; rewrite Hp; discriminate).
        pose proof (Hpass nb Hnb Hsk Hbu') as Hnu.
        apply Hunf; auto. destruct Hb1 as [->|[-> _]]; lia.
  Qed.

  (* ---------------- tightness ---------------- *)
  Definition allowed (wl : list N) (x : N) : Prop :=
    exists w, next_existing start bundle blocks w x /\
              (M w \/ w = start \/ (stop <> 0 /\ w = stop) \/ In w wl \/
               (w = low_boundary x bundle /\ prog w = true)).

  Lemma allowed_incl wl wl' x : incl wl' wl -> allowed wl' x -> allowed wl x.
  Proof.
    intros Hi [w [H1 H2]]. exists w. split; [exact H1|].
    destruct H2 as [H|[H|[H|[H|H]]]]; auto. right. right. right. left. apply Hi. exact H.
  Qed.

  Lemma run_tight lfuel : forall fuel prov wl base d e,
    aligned base -> (forall ps, prov = Some ps -> Inv ps) ->
    run fuel lfuel prov wl base = (d, e) ->
    prov <> None -> (stop = 0 \/ (start <= stop /\ base <= stop)) ->
    forall x, In x d ->
      (forall b', aligned b' -> base <= b' <= low_boundary x bundle + bundle -> covered b') ->
      allowed wl x.
  Proof.
    induction fuel as [|f IH]; intros prov wl base d e Hal Hinv Hrun Hpn Hstop x Hx Hcovd.
    - simpl in Hrun. inversion Hrun; subst. destruct Hx.
    - apply run_S in Hrun as [[_ [Hd He]]|[prov' [wl' [filt [base' [Hplan Hcases]]]]]].
      { subst. destruct Hx. }
      pose proof (plan_spec PS query start stop bundle prog exists_ Inv M Hb Hprov lfuel prov wl base prov' wl' filt base' Hplan Hal Hinv) as Hc.
      destruct (plan_common PS query start stop bundle prog exists_ Inv M Hb Hprov prov wl base prov' wl' filt base' Hc Hal)
        as [Hal' [Hle [_ [_ [Hinv' _]]]]].
      (* every delivered block lies at or above the bundle that was opened *)
      assert (Hlow : base' <= x).
      { destruct Hcases as [[He Hr]|[[He [Hd Hend]]|[[He [Hs0 [Hs1 [Hd Hend]]]]|[He [Hs [ds [Hr Hd]]]]]]].
        - destruct (run_complete lfuel f prov' wl' base' d e Hal' Hinv' Hr) as [_ [I2 _]]. apply I2. exact Hx.
        - subst. destruct Hx.
        - subst. apply stream_sub in Hx. tauto.
        - subst d. apply in_app_or in Hx as [Hx|Hx]; [apply stream_sub in Hx; tauto|].
          destruct (run_complete lfuel f prov' wl' (base' + bundle) ds e (aligned_add _ _ Hb Hal') Hinv' Hr) as [_ [I2 _]].
          apply I2 in Hx. lia. }
      destruct Hc as [Hp | ps ps' wl1 out nb Hp Hi Hnb Hle1 Hincl Hlen Hsk Hcov Hf Hstp
                         | ps wl1 nb b1 Hp Hnb Hle1 Hincl Hlen Hsk Hend Hb1].
      + contradiction.
      + assert (Hstop' : stop = 0 \/ (start <= stop /\ nb <= stop)).
        { destruct Hstop as [H0|[H1 H2]]; [left; exact H0|]. destruct (N.eq_dec stop 0) as [E|E]; [left; exact E|].
          right. split; [exact H1|]. apply Hstp; assumption. }
        destruct Hcases as [[He Hr]|[[He [Hd Hend]]|[[He [Hs0 [Hs1 [Hd Hend]]]]|[He [Hs [ds [Hr Hd]]]]]]].
        * apply (allowed_incl wl wl1 x Hincl).
          apply (IH (Some ps') wl1 nb d e Hal' Hinv' Hr); try assumption; try discriminate.
          intros b' Hb' Hr'. apply Hcovd; [exact Hb' | lia].
        * subst. destruct Hx.
        * (* x comes out of the filtered bundle nb *)
          assert (Hthis : forall x0, In x0 (stream_file nb (Some out) (blocks nb)) -> allowed wl x0).
          { intros x0 Hx0. destruct (Hchain nb Hal') as [Hasc Hrng]. destruct Hf as [Hfa [Hft _]].
            destruct (stream_tight start nb (blocks nb) out x0 Hasc Hfa Hx0) as [w [Hw1 [Hw2 Hw3]]].
            apply stream_sub in Hx0 as [Hx0 _]. pose proof (Hrng x0 Hx0) as Hr0.
            pose proof (lb_unique nb x0 bundle Hb Hal' Hr0) as Hlb.
            destruct (Hft w Hw1) as [Hwr Hwant].
            exists w. split.
            - unfold next_existing. rewrite Hlb. split; [lia|]. intros y0 Hy0 Hsy0 Hwy0.
              apply Hw3; try assumption. apply Hrng in Hy0. lia.
            - rewrite Hlb. destruct Hwant as [H|[H|[H|[H|[H1 H2]]]]]; auto.
              right. right. right. right. subst w. auto. }
          subst d. apply Hthis. exact Hx.
        * assert (Hthis : forall x0, In x0 (stream_file nb (Some out) (blocks nb)) -> allowed wl x0).
          { intros x0 Hx0. destruct (Hchain nb Hal') as [Hasc Hrng]. destruct Hf as [Hfa [Hft _]].
            destruct (stream_tight start nb (blocks nb) out x0 Hasc Hfa Hx0) as [w [Hw1 [Hw2 Hw3]]].
            apply stream_sub in Hx0 as [Hx0 _]. pose proof (Hrng x0 Hx0) as Hr0.
            pose proof (lb_unique nb x0 bundle Hb Hal' Hr0) as Hlb.
            destruct (Hft w Hw1) as [Hwr Hwant].
            exists w. split.
            - unfold next_existing. rewrite Hlb. split; [lia|]. intros y0 Hy0 Hsy0 Hwy0.
              apply Hw3; try assumption. apply Hrng in Hy0. lia.
            - rewrite Hlb. destruct Hwant as [H|[H|[H|[H|[H1 H2]]]]]; auto.
              right. right. right. right. subst w. auto. }
          subst d. apply in_app_or in Hx as [Hx|Hx]; [apply Hthis; exact Hx|].
          apply (allowed_incl wl wl1 x Hincl).
          apply (IH (Some ps') wl1 (nb + bundle) ds e (aligned_add _ _ Hb Hal') Hinv' Hr); try assumption; try discriminate.
          -- destruct Hs as [H0|H1]; [left; exact H0|]. destruct Hstop' as [H0|[H2 _]]; [left; exact H0 | right; auto].
          -- intros b' Hb' Hr'. apply Hcovd; [exact Hb' | lia].
      + (* the provider was dropped at nb: but nb is covered *)
        exfalso.
        assert (Hnb2 : nb <= low_boundary x bundle + bundle).
        { pose proof (aligned_le_lb b1 x bundle Hb Hal' Hlow). destruct Hb1 as [->|[-> _]]; lia. }
        destruct Hend as [[H0 H1]|[ps0 [Hi0 Hq0]]].
        * destruct Hstop as [H|[_ H]]; [contradiction | lia].
        * apply (Hcovd nb Hnb (conj Hle1 Hnb2) ps0 Hi0). exact Hq0.
  Qed.
End Stream.

(* ---------------- the three streaming clauses ---------------- *)
Lemma c15_stream_complete_proof PS query start stop bundle prog exists_ blocks Inv M :
  C15_stream_complete PS query start stop bundle prog exists_ blocks Inv M.
Proof.
  intros Hb Hprov Hchain fuel lfuel ps wl d e Hinv Hrun.
  unfold run_of, file_source_run in Hrun.
  destruct (bundle =? 0) eqn:E; [apply N.eqb_eq in E; contradiction|].
  assert (Hal : aligned bundle (low_boundary start bundle)) by (apply lb_mod; exact Hb).
  destruct (run_complete PS query start stop bundle prog exists_ blocks Inv M Hb Hprov Hchain lfuel fuel
              (Some ps) wl (low_boundary start bundle) d e Hal) as [I1 [I2 I3]]; [|exact Hrun|].
  { intros ps0 H0. inversion H0; subst. exact Hinv. }
  split; [exact I1|]. split.
  - intros x Hx. destruct (I2 x Hx) as [_ J]. exact J.
  - intros m Hm Hoc Hs Hst Hre. apply I3; try assumption. pose proof (lb_le start bundle). lia.
Qed.

Lemma c15_fallback_proof PS query start stop bundle prog exists_ blocks Inv M :
  C15_fallback PS query start stop bundle prog exists_ blocks Inv M.
Proof.
  intros Hb Hprov Hchain fuel lfuel ps wl d e Hinv Hrun u Hu Hle Hunc y Hoc Hsy Huy Hre.
  unfold run_of, file_source_run in Hrun.
  destruct (bundle =? 0) eqn:E; [apply N.eqb_eq in E; contradiction|].
  assert (Hal : aligned bundle (low_boundary start bundle)) by (apply lb_mod; exact Hb).
  apply (run_fallback PS query start stop bundle prog exists_ blocks Inv M Hb Hprov Hchain lfuel fuel
           (Some ps) wl (low_boundary start bundle) d e Hal) with (u := u); try assumption.
  - intros ps0 H0. inversion H0; subst. exact Hinv.
  - intros _. exact Hle.
  - lia.
Qed.

Lemma c15_stream_tight_proof PS query start stop bundle prog exists_ blocks Inv M :
  C15_stream_tight PS query start stop bundle prog exists_ blocks Inv M.
Proof.
  intros Hb Hprov Hchain Hss fuel lfuel ps wl d e Hinv Hrun x Hx Hcov.
  unfold run_of, file_source_run in Hrun.
  destruct (bundle =? 0) eqn:E; [apply N.eqb_eq in E; contradiction|].
  assert (Hal : aligned bundle (low_boundary start bundle)) by (apply lb_mod; exact Hb).
  apply (run_tight PS query start stop bundle prog exists_ blocks Inv M Hb Hprov Hchain lfuel fuel
           (Some ps) wl (low_boundary start bundle) d e Hal) with (x := x); try assumption.
  - intros ps0 H0. inversion H0; subst. exact Hinv.
  - discriminate.
  - destruct Hss as [H|H]; [left; exact H | right; split; [exact H|]]. pose proof (lb_le start bundle). lia.
Qed.
