(* Model/HubAll.v [hub_live_all] against Model/Hub.v [hub_live]: same hub, same result, same events for
   a ready hub; before readiness hub_live reports no event, hub_live_all all of them (W1-C08-2). *)
From BV Require Import Base.Prelude Model.Block Model.ForkDB Model.Forkable Model.ForkableLookups
  Model.Burst Model.Hub Model.HubSubs Model.HubAll.
Local Open Scope N_scope.

Lemma feed_ev_state cfg : forall l s, fst (feed_ev cfg s l) = feed cfg s l.
Proof.
  induction l as [|b l IH]; intro s; cbn [feed_ev feed]; [reflexivity|].
  destruct (fk_step cfg s b) as [[s' evs] r].
  destruct r; try reflexivity.
  specialize (IH s'). destruct (feed_ev cfg s' l) as [s2 evs2]. exact IH.
Qed.

(* the events of a feed are the events of the Forkable's steps, block after block *)
Lemma feed_ev_nil cfg s : feed_ev cfg s [] = (s, []).
Proof. reflexivity. Qed.

Lemma feed_ev_cons_ok cfg s b l s' evs :
  fk_step cfg s b = (s', evs, ROk) ->
  feed_ev cfg s (b :: l) = (fst (feed_ev cfg s' l), evs ++ snd (feed_ev cfg s' l)).
Proof. intro H. cbn [feed_ev]. rewrite H. destruct (feed_ev cfg s' l). reflexivity. Qed.

Lemma feed_ev_cons_err cfg s b l s' evs r :
  fk_step cfg s b = (s', evs, r) -> r <> ROk -> feed_ev cfg s (b :: l) = (s', evs).
Proof. intros H Hr. cbn [feed_ev]. rewrite H. destruct r; try reflexivity. contradiction. Qed.

(* same resulting hub, same result *)
Theorem hub_live_all_state first kept h p b :
  fst (fst (hub_live_all first kept h p b)) = fst (fst (hub_live first kept h p b)) /\
  snd (hub_live_all first kept h p b) = snd (hub_live first kept h p b).
Proof.
  unfold hub_live_all, hub_live.
  destruct (h_ready h).
  { destruct (fk_step (hub_config first kept) (h_f h) b) as [[s' evs] r]. split; reflexivity. }
  destruct (bnum b <? head_num (h_f h)).
  { destruct (fk_step (hub_config first kept) (h_f h) b) as [[s' evs] r]. split; reflexivity. }
  destruct (linkable (h_f h) b) as [l0|]; [|split; reflexivity].
  assert (Hgen : forall s1 evs1,
    let X := (let '(s2, evs2, r) := fk_step (hub_config first kept) s1 b in
              let evs := evs1 ++ evs2 in
              match r with
              | ROk => match linkable s2 b with
                       | None => (mkHub s2 false, evs, RFuel)
                       | Some true => (mkHub s2 (match head_info s2 with Some _ => true | None => false end), evs, ROk)
                       | Some false => (mkHub s2 false, evs, ROk)
                       end
              | _ => (mkHub s2 false, evs, r)
              end) in
    let Y := (let '(s2, _, r) := fk_step (hub_config first kept) s1 b in
              match r with
              | ROk => match linkable s2 b with
                       | None => (mkHub s2 false, @nil event, RFuel)
                       | Some true => (mkHub s2 (match head_info s2 with Some _ => true | None => false end), [], ROk)
                       | Some false => (mkHub s2 false, [], ROk)
                       end
              | _ => (mkHub s2 false, [], r)
              end) in
    fst (fst X) = fst (fst Y) /\ snd X = snd Y).
  { intros s1 evs1. cbv zeta. destruct (fk_step (hub_config first kept) s1 b) as [[s2 evs2] r].
    destruct r; try (split; reflexivity).
    destruct (linkable s2 b) as [[|]|]; split; reflexivity. }
  destruct l0.
  { apply Hgen. }
  destruct p as [|bl]; [split; reflexivity|].
  pose proof (feed_ev_state (hub_config first kept)
                (filter (fun x => sub_round first (blib b) kept <=? bnum x) bl) (h_f h)) as Hf.
  destruct (feed_ev (hub_config first kept) (h_f h)
              (filter (fun x => sub_round first (blib b) kept <=? bnum x) bl)) as [s1 evs1].
  cbn [fst] in Hf. rewrite <- Hf. apply Hgen.
Qed.

(* a ready hub: the two functions agree *)
Theorem hub_live_all_ready first kept h p b :
  h_ready h = true -> hub_live_all first kept h p b = hub_live first kept h p b.
Proof. intro Hr. unfold hub_live_all, hub_live. rewrite Hr. reflexivity. Qed.

(* hub_live never reports an event that hub_live_all does not: its events are [] or all of them *)
Theorem hub_live_events_sub first kept h p b :
  snd (fst (hub_live first kept h p b)) = [] \/
  snd (fst (hub_live first kept h p b)) = snd (fst (hub_live_all first kept h p b)).
Proof.
  unfold hub_live_all, hub_live.
  destruct (h_ready h).
  { right. destruct (fk_step (hub_config first kept) (h_f h) b) as [[s' evs] r]. reflexivity. }
  left.
  destruct (bnum b <? head_num (h_f h)).
  { destruct (fk_step (hub_config first kept) (h_f h) b) as [[s' evs] r]. reflexivity. }
  destruct (linkable (h_f h) b) as [l0|]; [|reflexivity].
  assert (Hgen : forall s1,
    snd (fst (let '(s2, _, r) := fk_step (hub_config first kept) s1 b in
              match r with
              | ROk => match linkable s2 b with
                       | None => (mkHub s2 false, @nil event, RFuel)
                       | Some true => (mkHub s2 (match head_info s2 with Some _ => true | None => false end), [], ROk)
                       | Some false => (mkHub s2 false, [], ROk)
                       end
              | _ => (mkHub s2 false, [], r)
              end)) = []).
  { intro s1. destruct (fk_step (hub_config first kept) s1 b) as [[s2 evs2] r].
    destruct r; try reflexivity. destruct (linkable s2 b) as [[|]|]; reflexivity. }
  destruct l0; [apply Hgen|].
  destruct p; [reflexivity|]. apply Hgen.
Qed.

(* readiness is a latch for hub_live_all as for hub_live *)
Lemma hub_live_all_ready_stays first kept h p b :
  h_ready h = true -> h_ready (fst (fst (hub_live_all first kept h p b))) = true.
Proof.
  intro Hr. unfold hub_live_all. rewrite Hr.
  destruct (fk_step (hub_config first kept) (h_f h) b) as [[s' evs] r]. reflexivity.
Qed.

(* hub_push_all and the hub alone *)
Lemma hub_push_all_state first kept pf h b :
  fst (hub_push_all first kept pf h b) = fst (fst (hub_live first kept h (pf b) b)).
Proof.
  unfold hub_push_all. pose proof (hub_live_all_state first kept h (pf b) b) as [H _].
  destruct (hub_live_all first kept h (pf b) b) as [[h' evs] r]. exact H.
Qed.
