(* C05: the undo walk, the forked path of blocksFromCursor, serving obligation, "no source". *)
From Coq Require Import Sorted Permutation.
From BV Require Import Base.Prelude Model.Block Model.ForkDB Model.Forkable Model.ForkableLookups
  Model.Burst Model.Hub Spec.Consumer Spec.Universe Check.Fk_Check Check.Burst_Check
  Spec.C09_Spec Spec.C05_Spec Proofs.C09_Store Proofs.C09_Segment Proofs.C05_Fast.
Local Open Scope N_scope.

Lemma block_in_spec : forall id sg, block_in id sg = true <-> exists x, In x sg /\ sid x = id.
Proof.
  intros id sg. unfold block_in. rewrite existsb_exists. split; intros [x [H1 H2]]; exists x; split; auto.
  - apply N.eqb_eq. exact H2.
  - apply N.eqb_eq. exact H2.
Qed.

(* ---------------------------------------------------------------- undo_walk *)

Lemma undos_of_cons : forall c x l,
  undos_of c (x :: l) = if already c x then undos_of c l else x :: undos_of c l.
Proof. intros c x l. unfold undos_of. cbn [filter]. destruct (already c x); reflexivity. Qed.

Lemma undo_walk_to : forall d sg c, wf_store (store d) -> forall id path j, branch_to d sg id path j ->
  forall fuel acc, (need d id <= fuel)%nat ->
  undo_walk fuel d sg c id acc = Some (Some (acc ++ undos_of c path, j)).
Proof.
  intros d sg c W id path j B. induction B as [id e Hf Hin|id e l j Hf Hin B IH]; intros fuel acc Hn.
  - destruct fuel as [|f]; [pose proof (need_pos d id); lia|].
    cbn [undo_walk]. unfold block_for_id. rewrite Hf. cbn [sent eb]. rewrite Hin.
    rewrite undos_of_cons. unfold already at 1. cbn [sid].
    destruct ((id =? ri (cu_blk c)) && step_eqb (cu_step c) SUndo); [rewrite app_nil_r|]; reflexivity.
  - destruct fuel as [|f]; [pose proof (need_pos d id); lia|].
    cbn [undo_walk]. unfold block_for_id. rewrite Hf. cbn [sent eb]. rewrite Hin.
    rewrite IH by (eapply need_parent; eauto).
    rewrite undos_of_cons. unfold already at 1. cbn [sid].
    destruct ((id =? ri (cu_blk c)) && step_eqb (cu_step c) SUndo); [reflexivity|].
    rewrite <- app_assoc. reflexivity.
Qed.

Lemma undo_walk_broken : forall d sg c, wf_store (store d) -> forall id, branch_broken d sg id ->
  forall fuel acc, (need d id <= fuel)%nat -> undo_walk fuel d sg c id acc = Some None.
Proof.
  intros d sg c W id B. induction B as [id Hf|id e Hf Hin B IH]; intros fuel acc Hn.
  - destruct fuel as [|f]; [pose proof (need_pos d id); lia|].
    cbn [undo_walk]. unfold block_for_id. rewrite Hf. reflexivity.
  - destruct fuel as [|f]; [pose proof (need_pos d id); lia|].
    cbn [undo_walk]. unfold block_for_id. rewrite Hf. cbn [sent eb]. rewrite Hin.
    apply IH. eapply need_parent; eauto.
Qed.

Lemma branch_total : forall d sg, wf_store (store d) -> forall n id, (need d id <= n)%nat ->
  (exists path j, branch_to d sg id path j) \/ branch_broken d sg id.
Proof.
  intros d sg W n. induction n as [|n IH]; intros id Hn; [pose proof (need_pos d id); lia|].
  destruct (find id (store d)) as [e|] eqn:Hf; [|right; constructor; exact Hf].
  destruct (block_in (bparent (eb e)) sg) eqn:Hin.
  - left. eexists. eexists. eapply bt_last; eauto.
  - destruct (IH (bparent (eb e))) as [[path [j B]]|B]; [eapply need_parent; eauto| |].
    + left. eexists. eexists. eapply bt_step; eauto.
    + right. eapply bb_step; eauto.
Qed.

Lemma branch_exclusive : forall d sg id path j, branch_to d sg id path j -> branch_broken d sg id -> False.
Proof.
  intros d sg id path j B. induction B as [id e Hf Hin|id e l j Hf Hin B IH]; intros K.
  - inversion K as [? Hf'|? e' Hf' Hin' K']; subst; rewrite Hf in Hf'; [discriminate|].
    inversion Hf'; subst. rewrite Hin in Hin'. discriminate.
  - inversion K as [? Hf'|? e' Hf' Hin' K']; subst; rewrite Hf in Hf'; [discriminate|].
    inversion Hf'; subst. auto.
Qed.

Lemma branch_to_head : forall d sg id path j, branch_to d sg id path j ->
  exists e rest, find id (store d) = Some e /\ path = mkSeg id (bnum (eb e)) e :: rest.
Proof. intros d sg id path j B. destruct B; eauto. Qed.

Lemma branch_to_junction : forall d sg id path j, branch_to d sg id path j -> block_in j sg = true.
Proof. intros d sg id path j B. induction B; auto. Qed.

(* every element of the branch is a stored entry numbered at most like the branch's top *)
Lemma branch_below : forall d sg, wf_store (store d) -> forall id path j, branch_to d sg id path j ->
  forall e, find id (store d) = Some e -> forall y, In y path ->
  find (sid y) (store d) = Some (sent y) /\ bnum (seg_blk y) <= bnum (eb e) /\
  (y = mkSeg id (bnum (eb e)) e \/ bnum (seg_blk y) < bnum (eb e)).
Proof.
  intros d sg W id path j B. induction B as [id e0 Hf Hin|id e0 l j Hf Hin B IH]; intros e He y Hy;
    rewrite Hf in He; inversion He; subst.
  - destruct Hy as [<-|[]]. unfold seg_blk. cbn. split; [exact Hf|]. split; [lia|auto].
  - destruct Hy as [<-|Hy]; [unfold seg_blk; cbn; split; [exact Hf|]; split; [lia|auto]|].
    destruct (branch_to_head _ _ _ _ _ B) as [e' [rest [Hf' _]]].
    destruct (IH e' Hf' y Hy) as [H1 [H2 _]].
    assert (Hlt : bnum (eb e') < bnum (eb e)).
    { apply (wfs_parent _ W e e'); [eapply find_In; eauto|eapply find_In; eauto|eapply find_key; eauto]. }
    split; [exact H1|]. split; [lia|right; lia].
Qed.

Lemma branch_tail_lt : forall d sg, wf_store (store d) -> forall id path j, branch_to d sg id path j ->
  forall e, find id (store d) = Some e -> forall y, In y (tl path) ->
  find (sid y) (store d) = Some (sent y) /\ bnum (seg_blk y) < bnum (eb e).
Proof.
  intros d sg W id path j B. destruct B as [id e0 Hf Hin|id e0 l j Hf Hin B]; intros e He y Hy;
    rewrite Hf in He; inversion He; subst; cbn [tl] in Hy; [contradiction|].
  destruct (branch_to_head _ _ _ _ _ B) as [e' [rest [Hf' _]]].
  destruct (branch_below d sg W _ _ _ B e' Hf' y Hy) as [H1 [H2 _]].
  assert (Hlt : bnum (eb e') < bnum (eb e)).
  { apply (wfs_parent _ W e e'); [eapply find_In; eauto|eapply find_In; eauto|eapply find_key; eauto]. }
  split; [exact H1|lia].
Qed.

Lemma branch_undos : forall d sg c, wf_store (store d) -> forall path j,
  branch_to d sg (ri (cu_blk c)) path j ->
  exists x rest, path = x :: rest /\ sid x = ri (cu_blk c) /\
                 undos_of c path = if step_eqb (cu_step c) SUndo then rest else path.
Proof.
  intros d sg c W path j B.
  destruct (branch_to_head _ _ _ _ _ B) as [e [rest [Hf Hp]]].
  exists (mkSeg (ri (cu_blk c)) (bnum (eb e)) e), rest. split; [exact Hp|]. split; [reflexivity|].
  rewrite Hp at 1. rewrite undos_of_cons. unfold already at 1. cbn [sid]. rewrite N.eqb_refl. cbn [andb].
  assert (Hrest : undos_of c rest = rest).
  { unfold undos_of. apply filter_all. intros y Hy.
    assert (Hy' : In y (tl path)) by (rewrite Hp; exact Hy).
    destruct (branch_tail_lt d sg W _ _ _ B e Hf y Hy') as [H1 H2].
    unfold already. destruct (sid y =? ri (cu_blk c)) eqn:E; [|reflexivity].
    apply N.eqb_eq in E. rewrite E, Hf in H1. inversion H1 as [H1'].
    unfold seg_blk in H2. rewrite <- H1' in H2. lia. }
  rewrite Hrest, Hp. destruct (step_eqb (cu_step c) SUndo); reflexivity.
Qed.

(* ---------------------------------------------------------------- from_cursor_loop *)

Lemma seg_stored_junction : forall d sg j, seg_stored d sg -> block_in j sg = true ->
  exists je, find j (store d) = Some je.
Proof.
  intros d sg j Hst Hin. apply block_in_spec in Hin. destruct Hin as [x [Hx <-]]. eexists. apply Hst. exact Hx.
Qed.

Lemma loop_forked : forall s hd sg c n, wf_store (store (db s)) -> seg_stored (db s) sg ->
  block_in (ri (cu_lib c)) sg = true -> block_in (ri (cu_blk c)) sg = false ->
  forall path j je, branch_to (db s) sg (ri (cu_blk c)) path j -> find j (store (db s)) = Some je ->
  from_cursor_loop (S (S n)) s hd sg c =
    BOk (map (undo_event hd c (mkR j (bnum (eb je)))) (undos_of c path) ++
         from_cursor_fast s hd sg (junction_cursor hd c (mkR j (bnum (eb je))))).
Proof.
  intros s hd sg c n W Hst Hlib Hblk path j je B Hj.
  cbn [from_cursor_loop]. rewrite Hblk. cbn [andb].
  rewrite (undo_walk_to (db s) sg c W _ _ _ B) by apply need_fuel. cbn [app].
  unfold block_for_id. rewrite Hj. cbn [cu_blk cu_lib seg_ref sid snum ri].
  rewrite (branch_to_junction _ _ _ _ _ B), Hlib. cbn [andb]. reflexivity.
Qed.

Lemma loop_broken : forall s hd sg c n, wf_store (store (db s)) ->
  block_in (ri (cu_blk c)) sg && block_in (ri (cu_lib c)) sg = false ->
  branch_broken (db s) sg (ri (cu_blk c)) -> from_cursor_loop (S n) s hd sg c = BErr.
Proof.
  intros s hd sg c n W Hb K. cbn [from_cursor_loop]. rewrite Hb.
  rewrite (undo_walk_broken (db s) sg c W _ K) by apply need_fuel. reflexivity.
Qed.

Lemma c05_forked_path_proof : C05_forked_path.
Proof.
  intros s hd sg c W Hst. split; [|split; [|split; [|split]]].
  - apply (branch_total _ _ W (fuel_of (db s))). apply need_fuel.
  - intros path j B K. eapply branch_exclusive; eauto.
  - intros path j B. split; [|split].
    + rewrite (undo_walk_to (db s) sg c W _ _ _ B) by apply need_fuel. reflexivity.
    + eapply branch_undos; eauto.
    + eapply branch_to_junction; eauto.
  - intros K. apply undo_walk_broken; auto. apply need_fuel.
  - intros Hlib Hblk. split.
    + intros path j B. destruct (seg_stored_junction _ _ _ Hst (branch_to_junction _ _ _ _ _ B)) as [je Hj].
      exists je. split; [exact Hj|]. cbn zeta.
      exact (loop_forked s hd sg c (length (store (db s))) W Hst Hlib Hblk path j je B Hj).
    + intros K. apply (loop_broken s hd sg c (S (length (store (db s)))) W); [rewrite Hblk; reflexivity|exact K].
Qed.

(* ---------------------------------------------------------------- the consumer through a forked burst *)

Lemma undo_fold : forall hd c jref undos Q nf any, (nf <= length Q)%nat ->
  cons_fold (mkCons (rev (Q ++ map seg_blk (rev undos))) nf any) (map (undo_event hd c jref) undos)
  = Some (mkCons (rev Q) nf any).
Proof.
  intros hd c jref undos. induction undos as [|u us IH]; intros Q nf any Hn.
  - cbn. rewrite app_nil_r. reflexivity.
  - cbn [rev map cons_fold]. rewrite map_app. cbn [map]. rewrite app_assoc.
    rewrite (apply_undo (Q ++ map seg_blk (rev us)) (seg_blk u) nf any); try reflexivity.
    + apply IH. exact Hn.
    + rewrite app_length. lia.
Qed.

Lemma c05_resume_partial_proof : C05_resume_partial.
Proof.
  intros s hd sg c path j je P any W Hst G Hlib Hblk B Hj jc Hlinks nf0.
  eexists. split.
  - exact (loop_forked s hd sg c (length (store (db s))) W Hst Hlib Hblk path j je B Hj).
  - rewrite cons_fold_app. rewrite app_assoc.
    rewrite undo_fold by (rewrite app_length; lia).
    exact (c05_fast_path_consumer_proof s hd sg jc P any G Hlinks).
Qed.

(* ---------------------------------------------------------------- serving obligation *)

Lemma blocks_from_cursor_eq : forall s c hd s0 sg,
  has_lib (db s) = true -> last_sent s = Some hd ->
  complete_segment (db s) (bref hd) = Some (s0 :: sg, true) -> snum s0 <= rn (cu_lib c) ->
  blocks_from_cursor s c = from_cursor_loop (fuel_of (db s)) s hd (s0 :: sg) c.
Proof.
  intros s c hd s0 sg Hl Hh E Hle. unfold blocks_from_cursor. rewrite Hl, Hh, E. cbn [negb].
  assert (E1 : rn (cu_lib c) <? snum s0 = false) by (apply N.ltb_ge; exact Hle). rewrite E1. reflexivity.
Qed.

Lemma c05_serves_proof : C05_serves.
Proof.
  intros s hd sg c W Hl Hh E [x [Hx [Hxi Hxn]]] Hnb.
  destruct (c09_head_segment_proof s hd sg true W Hh E) as [Hstd [Hlk [Hinc [Hnd [Hst _]]]]].
  destruct sg as [|s0 sg]; [contradiction|].
  assert (Hle : snum s0 <= rn (cu_lib c)).
  { rewrite <- Hxn. destruct Hx as [<-|Hx]; [lia|].
    inversion Hinc as [|? ? _ Hall]; subst. rewrite Forall_forall in Hall. specialize (Hall x Hx).
    rewrite Forall_forall in Hstd. apply N.lt_le_incl. apply snum_lt_of; auto; apply Hstd; [left; reflexivity|right; exact Hx]. }
  rewrite (blocks_from_cursor_eq s c hd s0 sg Hl Hh E Hle).
  assert (Hlib : block_in (ri (cu_lib c)) (s0 :: sg) = true) by (apply block_in_spec; eauto).
  destruct (block_in (ri (cu_blk c)) (s0 :: sg)) eqn:Hblk.
  - eexists. unfold fuel_of. cbn [from_cursor_loop]. rewrite Hblk, Hlib. reflexivity.
  - destruct W as [[Wst _] _].
    destruct (branch_total (db s) (s0 :: sg) Wst (fuel_of (db s)) (ri (cu_blk c)) (need_fuel _ _)) as [[path [j B]]|K];
      [|contradiction].
    destruct (seg_stored_junction _ _ _ Hst (branch_to_junction _ _ _ _ _ B)) as [je Hj].
    eexists. exact (loop_forked s hd (s0 :: sg) c (length (store (db s))) Wst Hst Hlib Hblk path j je B Hj).
Qed.

Lemma c05_serves_no_orphans_proof : C05_serves_no_orphans.
Proof.
  intros d sg id Hno Hoff Hf K. induction K as [id Hf'|id e Hf' Hin K IH]; [contradiction|].
  apply IH; [exact Hin|].
  apply (Hno e); [eapply find_In; eauto| |exact Hin].
  rewrite (find_key _ _ _ Hf'). exact Hoff.
Qed.

(* ---------------------------------------------------------------- no source *)

Lemma loop_foreign_lib : forall s hd sg c fuel, block_in (ri (cu_lib c)) sg = false ->
  forall evs, from_cursor_loop fuel s hd sg c <> BOk evs.
Proof.
  intros s hd sg c fuel. revert c. induction fuel as [|f IH]; intros c Hlib evs; [discriminate|].
  cbn [from_cursor_loop]. rewrite Hlib, andb_false_r.
  destruct (undo_walk (fuel_of (db s)) (db s) sg c (ri (cu_blk c)) []) as [[[undos j]|]|]; try discriminate.
  destruct (block_for_id (db s) j) as [jb|]; [|discriminate].
  destruct (from_cursor_loop f s hd sg (mkCursor SNew (seg_ref jb) (bref hd) (cu_lib c))) eqn:E; try discriminate.
  exfalso. exact (IH (mkCursor SNew (seg_ref jb) (bref hd) (cu_lib c)) Hlib _ E).
Qed.

Lemma c05_no_lib_no_source_proof : C05_no_lib_no_source.
Proof.
  intros s c. unfold blocks_from_cursor. split; [|split; [|split; [|split]]].
  - intros ->. reflexivity.
  - intros hd sg -> ->. destruct (has_lib (db s)); [destruct sg|]; reflexivity.
  - intros hd -> ->. destruct (has_lib (db s)); reflexivity.
  - intros hd s0 sg -> -> Hlt. apply N.ltb_lt in Hlt. rewrite Hlt. destruct (has_lib (db s)); reflexivity.
  - intros hd sg -> -> Hlib evs. destruct (has_lib (db s)); cbn [negb]; [|discriminate].
    destruct sg as [|s0 sg]; [discriminate|].
    destruct (rn (cu_lib c) <? snum s0); [discriminate|]. apply loop_foreign_lib. exact Hlib.
Qed.

(* ---------------------------------------------------------------- a foreign cursor LIB is an error *)

Lemma loop_step : forall s hd sg c f, wf_store (store (db s)) ->
  block_in (ri (cu_blk c)) sg && block_in (ri (cu_lib c)) sg = false ->
  forall path j je, branch_to (db s) sg (ri (cu_blk c)) path j -> find j (store (db s)) = Some je ->
  from_cursor_loop (S f) s hd sg c =
    match from_cursor_loop f s hd sg (junction_cursor hd c (mkR j (bnum (eb je)))) with
    | BOk evs => BOk (map (undo_event hd c (mkR j (bnum (eb je)))) (undos_of c path) ++ evs)
    | other => other
    end.
Proof.
  intros s hd sg c f W Hb path j je B Hj. cbn [from_cursor_loop]. rewrite Hb.
  rewrite (undo_walk_to (db s) sg c W _ _ _ B) by apply need_fuel. cbn [app].
  unfold block_for_id. rewrite Hj. reflexivity.
Qed.

Lemma loop_on_segment_err : forall s hd sg start, wf_store (store (db s)) -> seg_stored (db s) sg ->
  Sorted seg_link sg -> find (seg_bottom start sg) (store (db s)) = None ->
  forall pre x suf c fuel, sg = pre ++ x :: suf -> sid x = ri (cu_blk c) ->
    block_in (ri (cu_lib c)) sg = false -> (length pre + 1 <= fuel)%nat ->
    from_cursor_loop fuel s hd sg c = BErr.
Proof.
  intros s hd sg start W Hst Hlk Hmax pre.
  induction pre as [|y pre' IH] using rev_ind; intros x suf c fuel Esg Hx Hlib Hfuel.
  - destruct fuel as [|f]; [cbn in Hfuel; lia|]. cbn [app] in Esg.
    apply (loop_broken s hd sg c f W); [rewrite Hlib; apply andb_false_r|].
    assert (Hfx : find (sid x) (store (db s)) = Some (sent x)) by (apply Hst; rewrite Esg; left; reflexivity).
    assert (Hbot : find (bparent (eb (sent x))) (store (db s)) = None).
    { rewrite Esg in Hmax. exact Hmax. }
    rewrite <- Hx. eapply bb_step; [exact Hfx| |constructor; exact Hbot].
    destruct (block_in (bparent (eb (sent x))) sg) eqn:Hin; [|reflexivity].
    apply block_in_spec in Hin. destruct Hin as [z [Hz Hzi]].
    rewrite <- Hzi, (Hst z Hz) in Hbot. discriminate.
  - destruct fuel as [|f]; [rewrite app_length in Hfuel; cbn in Hfuel; lia|].
    rewrite <- app_assoc in Esg. cbn [app] in Esg.
    assert (Hfx : find (sid x) (store (db s)) = Some (sent x)).
    { apply Hst. rewrite Esg. apply in_app_iff. right. right. left. reflexivity. }
    assert (Hfy : find (sid y) (store (db s)) = Some (sent y)).
    { apply Hst. rewrite Esg. apply in_app_iff. right. left. reflexivity. }
    assert (Hpar : bparent (eb (sent x)) = sid y).
    { rewrite Esg in Hlk. apply Sorted_app_r in Hlk. inversion Hlk as [|? ? _ Hd]; subst.
      inversion Hd as [|? ? Hl]; subst. exact Hl. }
    assert (Hyin : block_in (sid y) sg = true).
    { apply block_in_spec. exists y. split; [|reflexivity]. rewrite Esg. apply in_app_iff. right. left. reflexivity. }
    assert (B : branch_to (db s) sg (ri (cu_blk c)) [mkSeg (sid x) (bnum (eb (sent x))) (sent x)] (sid y)).
    { rewrite <- Hx, <- Hpar. apply bt_last; [exact Hfx|rewrite Hpar; exact Hyin]. }
    rewrite (loop_step s hd sg c f W) with (path := [mkSeg (sid x) (bnum (eb (sent x))) (sent x)]) (j := sid y) (je := sent y);
      [|rewrite Hlib; apply andb_false_r|exact B|exact Hfy].
    rewrite (IH y (x :: suf) (junction_cursor hd c (mkR (sid y) (bnum (eb (sent y))))) f); auto.
    rewrite app_length in Hfuel. cbn in Hfuel. lia.
Qed.

Lemma seg_length_le_store : forall d sg, seg_stored d sg -> NoDup (map sid sg) ->
  (length sg <= length (store d))%nat.
Proof.
  intros d sg Hst Hnd. rewrite <- (map_length sid sg), <- (map_length key (store d)).
  apply NoDup_incl_length; [exact Hnd|].
  intros id Hin. rewrite in_map_iff in Hin. destruct Hin as [x [<- Hx]].
  rewrite in_map_iff. exists (sent x). split; [eapply find_key; eauto|eapply find_In; eauto].
Qed.

Lemma c05_foreign_lib_err_proof : C05_foreign_lib_err.
Proof.
  intros s c hd sg W Hh E Hlib.
  destruct (c09_head_segment_proof s hd sg true W Hh E) as [Hstd [Hlk [Hinc [Hnd [Hst _]]]]].
  pose proof (complete_segment_segment_of _ _ _ _ E) as S. destruct S as [_ _ _ Hmax _].
  destruct W as [[Wst _] _].
  unfold blocks_from_cursor. rewrite Hh, E.
  destruct (has_lib (db s)); cbn [negb]; [|reflexivity].
  destruct sg as [|s0 sg]; [reflexivity|].
  destruct (rn (cu_lib c) <? snum s0); [reflexivity|].
  set (SG := s0 :: sg) in *.
  pose proof (seg_length_le_store _ _ Hst Hnd) as Hlen.
  assert (Hon : forall c' fuel, block_in (ri (cu_blk c')) SG = true -> block_in (ri (cu_lib c')) SG = false ->
                  (length SG <= fuel)%nat -> from_cursor_loop fuel s hd SG c' = BErr).
  { intros c' fuel Hb Hl Hf. apply block_in_spec in Hb. destruct Hb as [x [Hx Hxi]].
    apply in_split in Hx. destruct Hx as [pre [suf Esg]].
    apply (loop_on_segment_err s hd SG (ri (bref hd)) Wst Hst Hlk Hmax pre x suf c' fuel Esg Hxi Hl).
    rewrite Esg, app_length in Hf. cbn in Hf. lia. }
  destruct (block_in (ri (cu_blk c)) SG) eqn:Hblk.
  - apply Hon; auto. unfold fuel_of. lia.
  - destruct (branch_total (db s) SG Wst (fuel_of (db s)) (ri (cu_blk c)) (need_fuel _ _)) as [[path [j B]]|K].
    + destruct (seg_stored_junction _ _ _ Hst (branch_to_junction _ _ _ _ _ B)) as [je Hj].
      change (fuel_of (db s)) with (S (S (length (store (db s))))).
      rewrite (loop_step s hd SG c _ Wst) with (path := path) (j := j) (je := je);
        [|rewrite Hblk; reflexivity|exact B|exact Hj].
      rewrite Hon; [reflexivity| |exact Hlib|lia].
      exact (branch_to_junction _ _ _ _ _ B).
    + apply (loop_broken s hd SG c (S (length (store (db s)))) Wst); [rewrite Hblk; reflexivity|exact K].
Qed.
