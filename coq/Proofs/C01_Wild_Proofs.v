(* C01 for arbitrary LIB declarations: from the boolean hypotheses of Spec/C01_Wild_Spec.v to the hypotheses of
   Proofs/Fk/WildLibInv.v; the failing handler (the trace is the trace of the never-failing handler cut at the
   failing call); the class of c01_moving_lib_roots_partial is a sub-class. *)
From BV Require Import Base.Prelude Model.Block Model.ForkDB Model.Forkable Spec.Consumer Spec.Universe
  Spec.C01_Spec Spec.C01_Moving_Spec Spec.C01_Roots_Spec Spec.C01_Wild_Spec
  Proofs.Fk.StoreFacts Proofs.Fk.WalkFacts Proofs.Fk.LoopFacts Proofs.Fk.FixedLib Proofs.Fk.MovingLibInv Proofs.Fk.WildLibInv Proofs.Fk.WildLibDisc
  Proofs.Fk.MovingLibDisc Proofs.Fk.FailPrefix Proofs.Fk.FailRun Proofs.C02_Proofs Proofs.C01_Roots_Proofs.
Local Open Scope N_scope.

Lemma cfg_nofail_eq cfg : cfg_nofail cfg = nofail cfg.
Proof. reflexivity. Qed.

(* ---- the failing handler: discipline and error clause alone (run_fail_c01 of FailRun.v without the re-feed clause) ---- *)
Section FailDisc.
  Variable cfg : config.
  Variable k : N.
  Hypothesis Hfail : c_fail_at cfg = Some k.
  Notation cfgN := (nofail cfg).

  Lemma run_fail_disc lib : forall h s S, ncalls s <= k ->
    Forall (fun x => snd x = ROk) (fk_run cfgN s h) ->
    (exists S', apply_all lib S (all_events (fk_run cfgN s h)) = Some S') ->
    (exists S', apply_all lib S (all_events (fk_run cfg s h)) = Some S') /\
    c01_error_b (Some k) (ncalls s) (fk_run cfg s h) = true /\
    Forall (fun x => snd x = ROk \/ snd x = RHandlerErr) (fk_run cfg s h).
  Proof.
    induction h as [|b h IH]; intros s S Hk Hok Happ.
    - cbn. repeat split; [exact Happ | constructor].
    - pose proof (step_fail cfg k Hfail s b) as R.
      cbn [fk_run] in *. destruct (fk_step cfgN s b) as [[sN evsN] rN].
      inversion Hok as [|? ? Hr Hok']; subst. cbn [snd] in Hr. subst rN.
      cbn [step_rel'] in R. destruct R as (_ & evs & Hev & Hn & Hrel). cbn [app] in Hev. subst evs.
      destruct (Hrel Hk) as [HA HB].
      destruct Happ as [S' Happ]. unfold all_events in Happ. cbn [map concat fst] in Happ.
      fold (all_events (fk_run cfgN sN h)) in Happ.
      destruct (apply_all_split _ _ _ _ _ Happ) as (S1 & Happ1 & Happ2).
      destruct (N.le_gt_cases (ncalls s + N.of_nat (length evsN)) k) as [Hle|Hgt].
      + rewrite (HA Hle). cbv beta iota.
        destruct (IH sN S1) as ((S2 & Happ3) & Herr3 & Hres3); try assumption; [lia | eauto |].
        split; [|split].
        * exists S2. unfold all_events. cbn [map concat fst]. fold (all_events (fk_run cfg sN h)).
          rewrite (apply_all_app _ _ _ _ _ Happ1). exact Happ3.
        * cbn [c01_error_b].
          replace ((ncalls s <=? k) && (k <? ncalls s + N.of_nat (length evsN))) with false by lia.
          cbn [result_eqb negb andb]. rewrite <- Hn. exact Herr3.
        * constructor; [left; reflexivity | exact Hres3].
      + destruct (HB Hgt) as (se & e1 & e2 & He & Hl & ->). cbn [app]. cbv beta iota.
        split; [|split].
        * unfold all_events. cbn [map concat fst]. rewrite app_nil_r.
          rewrite He in Happ1. destruct (apply_all_split _ _ _ _ _ Happ1) as (S0 & H0 & _). eauto.
        * cbn [c01_error_b].
          replace ((ncalls s <=? k) && (k <? ncalls s + N.of_nat (length e1))) with true by lia.
          replace (k =? ncalls s + N.of_nat (length e1) - 1) with true by lia. reflexivity.
        * constructor; [right; reflexivity | constructor].
  Qed.
End FailDisc.

(* ---- the never-failing handler ---- *)
Lemma c01_wild_nofail cfg r0 m h :
  c_fail_at cfg = None -> rooted_mode r0 m -> f_new (c_filter cfg) = true -> f_undo (c_filter cfg) = true ->
  wf_b h = true -> ri r0 <> 0 ->
  let t := fk_run cfg (fs_init m) h in
  length t = length h /\ Forall (fun x => snd x = ROk) t /\
  (exists S', apply_all (ri r0) [] (all_events t) = Some S') /\
  c01_discipline_b m t = true /\ c01_error_b (c_fail_at cfg) 0 t = true /\
  (lib_mono_b cfg (fs_init m) h = true -> c01_refeed_b [] h t = true) /\
  ((forall x, In x h -> c_first cfg < bnum x) -> lib_mono_b cfg (fs_init m) h = true) /\
  ((forall x, In x h -> c_first cfg <= bnum x) -> coh0 h r0 -> lib_mono_b cfg (fs_init m) h = true).
Proof.
  intros Hnofail Hm Hnew Hundo Hwf Hr0.
  exact (wild_lib_run h r0 cfg Hnofail Hnew Hundo (bridge_id h Hwf) (bridge_uniq h Hwf) (bridge_up h Hwf) Hr0
           m h Hm (fun b Hb => Hb)).
Qed.

Lemma c01_wild_discipline_proved : c01_wild_discipline_statement.
Proof.
  intros cfg r0 m h Hm Hnew Hundo Hwf Hr0. cbv zeta.
  destruct (c_fail_at cfg) as [k|] eqn:Hf.
  - destruct (c01_wild_nofail (nofail cfg) r0 m h eq_refl Hm Hnew Hundo Hwf Hr0) as (Hlen & Hok & Happ & _).
    destruct (run_fail_disc cfg k Hf (ri r0) h (fs_init m) []) as ((S2 & Happ2) & Herr2 & Hres2).
    + rewrite (rooted_ncalls r0 m Hm). lia.
    + exact Hok.
    + exact Happ.
    + split; [|split; [|split; [exact Hres2 | intros H; discriminate]]].
      * unfold c01_discipline_b. rewrite (proj1 (rooted_root_lib r0 m _ Hm)), Happ2. reflexivity.
      * rewrite (rooted_ncalls r0 m Hm) in Herr2. exact Herr2.
  - destruct (c01_wild_nofail cfg r0 m h Hf Hm Hnew Hundo Hwf Hr0) as (Hlen & Hok & _ & Hd & He & _).
    rewrite Hf in He. split; [exact Hd|]. split; [exact He|]. split.
    + eapply Forall_impl; [|exact Hok]. cbn beta. auto.
    + intros _. split; assumption.
Qed.

Lemma c01_wild_mono_proved : c01_wild_mono_statement.
Proof.
  intros cfg r0 m h Hm Hnew Hundo Hwf Hr0 Hmono. rewrite cfg_nofail_eq in Hmono.
  destruct (c_fail_at cfg) as [k|] eqn:Hf.
  - destruct (c01_wild_nofail (nofail cfg) r0 m h eq_refl Hm Hnew Hundo Hwf Hr0) as (Hlen & Hok & Happ & _ & _ & Hre & _ & _).
    destruct (run_fail_c01 cfg k Hf (ri r0) h (fs_init m) [] []) as ((S2 & Happ2) & Hre2 & Herr2 & Hres2).
    + rewrite (rooted_ncalls r0 m Hm). lia.
    + exact Hok.
    + exact Happ.
    + exact (Hre Hmono).
    + unfold c01_statement. split; [|split].
      * unfold c01_discipline_b. rewrite (proj1 (rooted_root_lib r0 m _ Hm)), Happ2. reflexivity.
      * exact Hre2.
      * rewrite Hf. rewrite (rooted_ncalls r0 m Hm) in Herr2. exact Herr2.
  - assert (Ec : nofail cfg = cfg) by (destruct cfg; cbn in Hf; subst; reflexivity). rewrite Ec in Hmono.
    destruct (c01_wild_nofail cfg r0 m h Hf Hm Hnew Hundo Hwf Hr0) as (Hlen & Hok & _ & Hd & He & Hre & _ & _).
    unfold c01_statement. split; [exact Hd|]. split; [exact (Hre Hmono) | exact He].
Qed.

(* ---- the class of c01_moving_lib_roots_partial: there the LIB number is the height of the LIB block and
   never decreases (the step description StepOut of MovingLibInv.v) ---- *)
Section OldMono.
  Variable U : list block.
  Variable r0 : ref.
  Variable cfg : config.
  Hypothesis Hnofail : c_fail_at cfg = None.
  Hypothesis Hnew : f_new (c_filter cfg) = true.
  Hypothesis Hundo : f_undo (c_filter cfg) = true.
  Hypothesis U_id : forall b, In b U -> bid b <> 0 /\ bid b <> bparent b.
  Hypothesis U_uniq : forall x y, In x U -> In y U -> bid x = bid y -> x = y.
  Hypothesis U_up : forall x y, In x U -> In y U -> bparent x = bid y -> bnum y < bnum x.
  Hypothesis L_id : ri r0 <> 0.
  Hypothesis L_num : forall y, In y U -> bid y = ri r0 -> bnum y = rn r0.
  Hypothesis L_up : forall x, In x U -> bparent x = ri r0 -> rn r0 < bnum x.
  Hypothesis L_decl : forall b, In b U -> decl_ok U r0 b.

  Lemma old_mono : forall h s Fin S, MovingLibInv.Inv U r0 cfg s Fin S -> (forall b, In b h -> In b U) ->
    lib_mono_b cfg s h = true.
  Proof.
    induction h as [|b h IH]; intros s Fin S HI Hh; [reflexivity|].
    destruct (MovingLibInv.step_inv U r0 cfg Hnofail Hnew Hundo U_id U_uniq U_up L_id L_num L_up L_decl s Fin S b HI (Hh b (or_introl eq_refl)))
      as (s' & evA & evI & evS & Fnew & S' & Hstep & _ & HI' & _ & _ & _ & _ & _ & Hmono & _).
    cbn [lib_mono_b]. rewrite Hstep. apply andb_true_iff. split; [apply N.leb_le; exact Hmono|].
    apply (IH s' _ _ HI'). intros x Hx. apply Hh. right. exact Hx.
  Qed.
End OldMono.

Lemma c01_wild_mono_subsumes_proved : c01_wild_mono_subsumes.
Proof.
  intros cfg r0 m h Hm Hnew Hundo Hscope.
  destruct (scope2_parts r0 h Hscope) as (Hwf & _ & Hr0 & _).
  split; [exact Hwf|]. split; [exact Hr0|]. rewrite cfg_nofail_eq.
  apply (old_mono h r0 (nofail cfg) eq_refl Hnew Hundo
           (bridge_id h Hwf) (bridge_uniq h Hwf) (bridge_up h Hwf) Hr0
           (fun y Hy => proj2 (mb2_parts r0 h Hscope y Hy))
           (fun x Hx => proj1 (mb2_parts r0 h Hscope x Hx))
           (bridge2_decl r0 h Hscope) h (fs_init m) [] []).
  - apply MovingLibInv.inv_init; [exact Hr0 | | | exact Hm].
    + intros y Hy. exact (proj2 (mb2_parts r0 h Hscope y Hy)).
    + intros x Hx. exact (proj1 (mb2_parts r0 h Hscope x Hx)).
  - intros b Hb. exact Hb.
Qed.

(* ---- discovery mode ---- *)
Lemma c01_wild_disc_nofail cfg h :
  c_fail_at cfg = None -> c_hold cfg = true -> c_incl cfg = false ->
  f_new (c_filter cfg) = true -> f_undo (c_filter cfg) = true -> wf_b h = true ->
  let t := fk_run cfg (fs_init LNone) h in
  length t = length h /\ Forall (fun x => snd x = ROk) t /\
  disc_ok t /\ c01_discipline_b LNone t = true /\ c01_error_b (c_fail_at cfg) 0 t = true /\
  (lib_mono_b cfg (fs_init LNone) h = true -> c01_refeed_b [] h t = true) /\
  ((forall x, In x h -> c_first cfg < bnum x) -> lib_mono_b cfg (fs_init LNone) h = true) /\
  ((forall x, In x h -> c_first cfg <= bnum x) -> lib_mono_b cfg (fs_init LNone) h = true).
Proof.
  intros Hnofail Hhold Hincl Hnew Hundo Hwf.
  exact (wild_disc_run h cfg Hnofail Hnew Hundo Hhold Hincl (bridge_id h Hwf) (bridge_uniq h Hwf) (bridge_up h Hwf)
           h (fun b Hb => Hb)).
Qed.

(* the discipline of the cut run: its events are a prefix of the events of the never-failing run, so the
   first event (which names the LIB the stream is rooted at) is the same *)
Lemma disc_root_cut cfg k h : c_fail_at cfg = Some k ->
  Forall (fun x => snd x = ROk) (fk_run (nofail cfg) (fs_init LNone) h) ->
  forall S2, apply_all (root_lib LNone (fk_run (nofail cfg) (fs_init LNone) h)) [] (all_events (fk_run cfg (fs_init LNone) h)) = Some S2 ->
  c01_discipline_b LNone (fk_run cfg (fs_init LNone) h) = true.
Proof.
  intros Hf Hok S2 Happ2.
  set (tN := fk_run (nofail cfg) (fs_init LNone) h) in *. set (t := fk_run cfg (fs_init LNone) h) in *.
  destruct (run_fail_events cfg k Hf h (fs_init LNone)) as [rest Hrest]; [cbn; lia | exact Hok|].
  fold tN t in Hrest.
  unfold c01_discipline_b. destruct (all_events t) as [|e l] eqn:Et.
  - unfold root_lib. rewrite Et. reflexivity.
  - assert (Hroot : root_lib LNone t = root_lib LNone tN).
    { unfold root_lib. rewrite Hrest, Et. reflexivity. }
    rewrite Hroot, Happ2. reflexivity.
Qed.

Lemma c01_wild_discovery_discipline_proved : c01_wild_discovery_discipline_statement.
Proof.
  intros cfg h Hhold Hincl Hnew Hundo Hwf. cbv zeta.
  destruct (c_fail_at cfg) as [k|] eqn:Hf.
  - destruct (c01_wild_disc_nofail (nofail cfg) h eq_refl Hhold Hincl Hnew Hundo Hwf) as (Hlen & Hok & Happ & _).
    destruct (run_fail_disc cfg k Hf (root_lib LNone (fk_run (nofail cfg) (fs_init LNone) h)) h (fs_init LNone) [])
      as ((S2 & Happ2) & Herr2 & Hres2).
    + cbn. lia.
    + exact Hok.
    + exact Happ.
    + split; [exact (disc_root_cut cfg k h Hf Hok S2 Happ2)|].
      split; [exact Herr2|]. split; [exact Hres2 | intros H; discriminate].
  - destruct (c01_wild_disc_nofail cfg h Hf Hhold Hincl Hnew Hundo Hwf) as (Hlen & Hok & _ & Hd & He & _).
    rewrite Hf in He. split; [exact Hd|]. split; [exact He|]. split.
    + eapply Forall_impl; [|exact Hok]. cbn beta. auto.
    + intros _. split; assumption.
Qed.

Lemma c01_wild_discovery_mono_proved : c01_wild_discovery_mono_statement.
Proof.
  intros cfg h Hhold Hincl Hnew Hundo Hwf Hmono. rewrite cfg_nofail_eq in Hmono.
  destruct (c_fail_at cfg) as [k|] eqn:Hf.
  - destruct (c01_wild_disc_nofail (nofail cfg) h eq_refl Hhold Hincl Hnew Hundo Hwf) as (Hlen & Hok & Happ & _ & _ & Hre & _ & _).
    destruct (run_fail_c01 cfg k Hf (root_lib LNone (fk_run (nofail cfg) (fs_init LNone) h)) h (fs_init LNone) [] [])
      as ((S2 & Happ2) & Hre2 & Herr2 & Hres2).
    + cbn. lia.
    + exact Hok.
    + exact Happ.
    + exact (Hre Hmono).
    + unfold c01_statement. split; [exact (disc_root_cut cfg k h Hf Hok S2 Happ2)|].
      split; [exact Hre2 | rewrite Hf; exact Herr2].
  - assert (Ec : nofail cfg = cfg) by (destruct cfg; cbn in Hf; subst; reflexivity). rewrite Ec in Hmono.
    destruct (c01_wild_disc_nofail cfg h Hf Hhold Hincl Hnew Hundo Hwf) as (Hlen & Hok & _ & Hd & He & Hre & _ & _).
    unfold c01_statement. split; [exact Hd|]. split; [exact (Hre Hmono) | exact He].
Qed.

(* ---- the class of c01_discovery_roots_partial: before the discovery the LIB reference is empty (number 0),
   afterwards the run is a rooted run of the old class ---- *)
Section OldDiscMono.
  Variable U : list block.
  Variable cfg : config.
  Hypothesis Hnofail : c_fail_at cfg = None.
  Hypothesis Hnew : f_new (c_filter cfg) = true.
  Hypothesis Hundo : f_undo (c_filter cfg) = true.
  Hypothesis Hhold : c_hold cfg = true.
  Hypothesis Hincl : c_incl cfg = false.
  Hypothesis U_id : forall b, In b U -> bid b <> 0 /\ bid b <> bparent b.
  Hypothesis U_uniq : forall x y, In x U -> In y U -> bid x = bid y -> x = y.
  Hypothesis U_up : forall x y, In x U -> In y U -> bparent x = bid y -> bnum y < bnum x.
  Hypothesis D_decl : forall b, In b U -> decl_none U b.

  Lemma old_disc_mono : forall h s, MovingLibDisc.PreInv U cfg s -> (forall b, In b h -> In b U) ->
    lib_mono_b cfg s h = true.
  Proof.
    induction h as [|b h IH]; intros s HP Hh; [reflexivity|].
    assert (Hb : In b U) by (apply Hh; left; reflexivity).
    assert (Hh' : forall x, In x h -> In x U) by (intros x Hx; apply Hh; right; exact Hx).
    assert (Hl0 : rn (libref (db s)) = 0) by (rewrite (pre_lib U cfg s HP); reflexivity).
    cbn [lib_mono_b].
    destruct (MovingLibDisc.pre_step U cfg Hnofail Hnew Hundo Hhold Hincl U_id U_uniq U_up D_decl s b HP Hb)
      as [(s' & Hstep & HP' & _)|(_ & (s' & evs & a & Fin & S' & Hstep & HaU & _ & _ & HI' & _))].
    - rewrite Hstep, Hl0. apply andb_true_iff. split; [apply N.leb_le; lia|]. apply IH; assumption.
    - rewrite Hstep, Hl0. apply andb_true_iff. split; [apply N.leb_le; lia|].
      apply (old_mono U (R a) cfg Hnofail Hnew Hundo U_id U_uniq U_up (R_id U U_id a HaU) (R_num U U_uniq a HaU)
               (R_up U U_up a HaU) (R_decl U U_uniq D_decl a HaU) h s' Fin S' HI' Hh').
  Qed.
End OldDiscMono.

Lemma c01_wild_discovery_mono_subsumes_proved : c01_wild_discovery_mono_subsumes.
Proof.
  intros cfg h Hhold Hincl Hnew Hundo Hscope.
  pose proof (d2_wf h Hscope) as Hwf. split; [exact Hwf|]. rewrite cfg_nofail_eq.
  apply (old_disc_mono h (nofail cfg) eq_refl Hnew Hundo Hhold Hincl
           (bridge_id h Hwf) (bridge_uniq h Hwf) (bridge_up h Hwf) (bridge2_decl_none h Hscope) h (fs_init LNone)).
  - apply pre_init.
  - intros b Hb. exact Hb.
Qed.

(* ---- every block above the first streamable block ---- *)
Lemma above_first_parts cfg h : above_first_b cfg h = true -> forall x, In x h -> c_first (nofail cfg) < bnum x.
Proof.
  unfold above_first_b. intros H x Hx. rewrite forallb_forall in H. specialize (H x Hx). apply N.ltb_lt in H. exact H.
Qed.

Lemma c01_wild_first_proved : c01_wild_first_statement.
Proof.
  split.
  - intros cfg r0 m h Hm Hnew Hundo Hwf Hr0 Hab.
    assert (Hmono : lib_mono_b (cfg_nofail cfg) (fs_init m) h = true).
    { rewrite cfg_nofail_eq.
      destruct (c01_wild_nofail (nofail cfg) r0 m h eq_refl Hm Hnew Hundo Hwf Hr0) as (_ & _ & _ & _ & _ & _ & Hmn & _).
      apply Hmn. exact (above_first_parts cfg h Hab). }
    split; [|exact Hmono]. exact (c01_wild_mono_proved cfg r0 m h Hm Hnew Hundo Hwf Hr0 Hmono).
  - intros cfg h Hhold Hincl Hnew Hundo Hwf Hab.
    assert (Hmono : lib_mono_b (cfg_nofail cfg) (fs_init LNone) h = true).
    { rewrite cfg_nofail_eq.
      destruct (c01_wild_disc_nofail (nofail cfg) h eq_refl Hhold Hincl Hnew Hundo Hwf) as (_ & _ & _ & _ & _ & _ & Hmn & _).
      apply Hmn. exact (above_first_parts cfg h Hab). }
    split; [|exact Hmono]. exact (c01_wild_discovery_mono_proved cfg h Hhold Hincl Hnew Hundo Hwf Hmono).
Qed.

(* ---- no block under the first streamable block, weakly coherent configured LIB ---- *)
Lemma not_under_first_parts cfg h : not_under_first_b cfg h = true -> forall x, In x h -> c_first (nofail cfg) <= bnum x.
Proof.
  unfold not_under_first_b. intros H x Hx. rewrite forallb_forall in H. specialize (H x Hx). apply N.leb_le in H. exact H.
Qed.

Lemma weak_coh_parts r0 h : lib_weak_coh_b r0 h = true -> coh0 h r0.
Proof.
  unfold lib_weak_coh_b, coh0. intros H. apply orb_true_iff in H as [H|H].
  - left. apply existsb_exists in H as (bl & Hbl & E). exists bl. split; [exact Hbl | apply N.eqb_eq; exact E].
  - right. rewrite forallb_forall in H. intros x Hx E. specialize (H x Hx). rewrite E, N.eqb_refl in H. apply N.ltb_lt. exact H.
Qed.

Lemma c01_wild_first_le_proved : c01_wild_first_le_statement.
Proof.
  split.
  - intros cfg r0 m h Hm Hnew Hundo Hwf Hr0 Hnu Hcoh.
    assert (Hmono : lib_mono_b (cfg_nofail cfg) (fs_init m) h = true).
    { rewrite cfg_nofail_eq.
      destruct (c01_wild_nofail (nofail cfg) r0 m h eq_refl Hm Hnew Hundo Hwf Hr0) as (_ & _ & _ & _ & _ & _ & _ & Hmm).
      apply Hmm; [exact (not_under_first_parts cfg h Hnu) | exact (weak_coh_parts r0 h Hcoh)]. }
    split; [|exact Hmono]. exact (c01_wild_mono_proved cfg r0 m h Hm Hnew Hundo Hwf Hr0 Hmono).
  - intros cfg h Hhold Hincl Hnew Hundo Hwf Hnu.
    assert (Hmono : lib_mono_b (cfg_nofail cfg) (fs_init LNone) h = true).
    { rewrite cfg_nofail_eq.
      destruct (c01_wild_disc_nofail (nofail cfg) h eq_refl Hhold Hincl Hnew Hundo Hwf) as (_ & _ & _ & _ & _ & _ & _ & Hmm).
      apply Hmm. exact (not_under_first_parts cfg h Hnu). }
    split; [|exact Hmono]. exact (c01_wild_discovery_mono_proved cfg h Hhold Hincl Hnew Hundo Hwf Hmono).
Qed.
