(* C12 — the statements of Spec/C12_Spec.v from the per-source developments. *)
From BV Require Import Base.Prelude Model.Lifecycle Spec.C12_Spec Proofs.C12_Sched.
From BV Require Proofs.C12_Eternal Proofs.C12_Joining Proofs.C12_JoiningLive Proofs.C12_Subscription
  Proofs.C12_MuxBase Proofs.C12_MuxMutex Proofs.C12_MuxShut Proofs.C12_MuxLive Proofs.C12_FileSource Proofs.C12_FileLive.

Lemma is_close_eq : forall x, is_close x = true -> x = Some SClose.
Proof. intros [[]|]; simpl; intros; try discriminate; reflexivity. Qed.

Lemma c12_returns_eternal_proof : C12_returns_eternal.
Proof.
  split; [|split].
  - intros s _ H. exists Et.TX. apply C12_Eternal.et_close_step. apply is_close_eq. exact H.
  - intros s (sup & sched & ->) Ht Hd. apply C12_Eternal.progress; [|exact Hd].
    split; [apply C12_Eternal.inv_run | exact Ht].
  - exists C12_Eternal.rank. intros s (sup & sched0 & ->) Ht sched Hf.
    apply C12_Eternal.et_fair_termination; assumption.
Qed.

Lemma c12_returns_joining_proof : C12_returns_joining.
Proof.
  intros lf fa. split; [|split].
  - intros s (fs & ls & sched & ->) H. apply (C12_JoiningLive.jn_closing lf fa fs ls sched). apply is_close_eq. exact H.
  - intros s (fs & ls & sched & ->) Ht Hd. apply (C12_JoiningLive.progress lf fa); [|exact Hd].
    split; [apply C12_Joining.inv_run | exact Ht].
  - exists C12_JoiningLive.rank. intros s (fs & ls & sched0 & ->) Ht sched Hf.
    apply (C12_JoiningLive.jn_fair_termination lf fa); assumption.
Qed.

Lemma c12_returns_subscription_proof : C12_returns_subscription.
Proof.
  split; [|split].
  - intros s (cap & ps & sched & ->) H. apply (C12_Subscription.sb_closing cap ps sched). apply is_close_eq. exact H.
  - intros s (cap & ps & sched & ->) Ht Hd. apply C12_Subscription.progress; [|exact Hd].
    split; [apply C12_Subscription.inv_run | exact Ht].
  - exists C12_Subscription.rank. intros s (cap & ps & sched0 & ->) Ht sched Hf.
    apply C12_Subscription.sb_fair_termination; assumption.
Qed.

Lemma c12_returns_multiplexed_proof : C12_returns_multiplexed.
Proof.
  intros fx. split; [|split].
  - intros s (n & sup & sched & ->) H. apply (C12_MuxLive.mx_closing fx n sup sched). apply is_close_eq. exact H.
  - intros s (n & sup & sched & ->) Ht Hd. apply (C12_MuxLive.progress fx); [|exact Hd].
    destruct (C12_MuxLive.ph_run fx n sup sched) as [A B]. split; [exact A | split; [exact B | exact Ht]].
  - exists C12_MuxLive.rank. intros s (n & sup & sched0 & ->) Ht sched Hf.
    apply (C12_MuxLive.mx_fair_termination fx); assumption.
Qed.

Lemma c12_returns_file_proof : C12_returns_file.
Proof.
  split; [|split].
  - intros s (st & sa & sched & ->) H. apply (C12_FileSource.fs_closing st sa sched). apply is_close_eq. exact H.
  - intros s (st & sa & sched & ->) Ht Hd. apply C12_FileLive.fs_progress; assumption.
  - exists C12_FileLive.rank. intros s (st & sa & sched0 & ->) Ht sched Hf.
    apply C12_FileLive.fs_fair_termination; assumption.
Qed.

Lemma c12_file_blocking_points_proof : C12_file_blocking_points.
Proof.
  split.
  - intros s c (st & sa & sched & ->) Ht Hr. apply (C12_FileSource.fs_run_escape st sa sched c); assumption.
  - intros s k f Ht Hk Hp. apply C12_FileSource.neq_by_files. apply (C12_FileSource.fs_file_escape s k f); assumption.
Qed.

Lemma c12_returns_proof : C12_returns.
Proof.
  repeat split; try apply c12_returns_eternal_proof; try apply c12_returns_joining_proof;
    try apply c12_returns_subscription_proof; try apply c12_returns_multiplexed_proof;
    apply c12_returns_file_proof.
Qed.

Lemma c12_no_call_after_proof : C12_no_call_after.
Proof.
  split; [|split; [|split; [|split; [|split; [|split]]]]].
  - intros fx s H sched. apply (C12_Eternal.et_no_call_after fx sched s H).
  - intros c s H sched. apply (C12_JoiningLive.jn_no_call_after c sched s H).
  - intros s H sched. apply (C12_Subscription.sb_no_call_after sched s H).
  - intros s H sched. apply (C12_FileSource.fs_no_call_after sched s H).
  - intros s (A & B) sched. apply C12_MuxLive.mx_no_call_when_terminating.
    apply C12_MuxLive.terminated_terminating. exact B.
  - intros s A sched. apply C12_MuxLive.mx_no_call_when_terminating. exact A.
  - exact C12_MuxShut.mx_no_start_after.
Qed.

Lemma c12_mutex_proof : C12_mutex.
Proof. exact C12_MuxMutex.mx_mutex. Qed.

Lemma c12_fail_stops_all_proof : C12_fail_stops_all.
Proof. split; [exact C12_MuxLive.mx_fail_requests_shutdown | exact C12_MuxShut.mx_all_shut]. Qed.

Lemma last_accepted_same : forall l, last_accepted l = C12_Eternal.last_accepted l.
Proof. induction l as [|[] l IH]; simpl; auto. Qed.

Lemma c12_restart_point_proof : C12_restart_point.
Proof.
  intros fx sup sched post r pre slot H. rewrite last_accepted_same.
  eapply C12_Eternal.et_restart_point. exact H.
Qed.

Lemma c12_mux_unfixed_late_call_proof : C12_mux_unfixed_late_call.
Proof.
  split.
  - exists (run (Mx.step false) C12_MuxLive.late_sched (Mx.init 2 C12_MuxLive.late_sup)).
    split; [|vm_compute; reflexivity].
    destruct C12_MuxLive.mx_unfixed_late_call as (A & B & C & D & _).
    split; [exists 2, C12_MuxLive.late_sup, C12_MuxLive.late_sched; reflexivity|].
    split; [exact A|]. split; [exact B|].
    split; [exact (C12_MuxLive.all_term_of_map _ 2 C) | exists C12_MuxLive.late_cont; exact D].
  - exists (run (Mx.step false) C12_MuxLive.late_sched_fail (Mx.init 2 C12_MuxLive.late_sup_fail)).
    destruct C12_MuxLive.mx_unfixed_late_call_fail as (F & A & B & C & D & _).
    split; [|exact F].
    split; [exists 2, C12_MuxLive.late_sup_fail, C12_MuxLive.late_sched_fail; reflexivity|].
    split; [exact A|]. split; [exact B|].
    split; [exact (C12_MuxLive.all_term_of_map _ 2 C) | exists [Mx.TIn 1; Mx.TIn 1]; exact D].
Qed.

Lemma c12_eternal_unfixed_hangs_proof : C12_eternal_unfixed_hangs.
Proof.
  exists [], C12_Eternal.hang_sched. destruct C12_Eternal.et_unfixed_hangs as (A & B & C & D). auto.
Qed.

Lemma c12_joining_unfixed_hangs_proof : C12_joining_unfixed_hangs.
Proof.
  exists true, true, [], [], C12_JoiningLive.hang_sched_live. exact C12_JoiningLive.jn_unfixed_hangs_live.
Qed.

(* ---- non-vacuity helpers: the fairness hypothesis is satisfiable *)
Lemma et_fair_all : forall n s,
  fair_rounds (Et.step true) n s (concat (repeat [Et.TRun; Et.TX] n)).
Proof.
  induction n as [|n IH]; intros s; [constructor|].
  change (concat (repeat [Et.TRun; Et.TX] (S n))) with ([Et.TRun; Et.TX] ++ concat (repeat [Et.TRun; Et.TX] n)).
  constructor; [|apply IH]. intros [] _; simpl; auto.
Qed.
