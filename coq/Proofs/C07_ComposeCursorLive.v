(* C07 composition, part 6: cursor mode when the hub serves the cursor itself (the stream is live from its first
   event).  C05's single-state theorems (fast path / forked path) need the consumer's stack as segment
   elements of the hub's head (held_seg) followed by the undone branch (undos_of); here the consumer is
   given as a parent-linked run K of blocks of the universe that hangs under the cursor-LIB block L and ends at
   the cursor block (for an Undo cursor: at its parent).  Parent-linked runs of a well-formed universe with the
   same base and tip are equal (linked_unique_tip): K is that list. *)
From Coq Require Import Sorted.
From BV Require Import Base.Prelude Model.Block Model.ForkDB Model.Forkable Model.ForkableLookups Model.Burst Model.Hub
  Model.CursorResolver Model.Joining
  Spec.Consumer Spec.Universe Check.Fk_Check Check.Burst_Check Check.C07_Check
  Spec.C09_Spec Spec.C05_Spec Spec.C06_Spec Spec.C07_Spec Spec.C07_Compose_Spec
  Proofs.C09_Store Proofs.C09_Segment Proofs.C09_Proofs Proofs.C05_Fast Proofs.C05_Forked Proofs.C06_Lists
  Proofs.Fk.LoopFacts Proofs.Fk.MovingLibDisc
  Proofs.Hub.ConsFacts Proofs.Hub.HubFed Proofs.Hub.LinkedRuns Proofs.Hub.C09_History
  Proofs.C07_ComposeStack Proofs.C07_ComposeHub.
Local Open Scope N_scope.

(* ------------------------------------------------------------------ the consumer with finality, forgetting finality *)

Lemma cons_fold_sfold : forall l c c', cons_fold c l = Some c' -> sfold (cs_stack c) l = Some (cs_stack c').
Proof.
  induction l as [|e l IH]; intros c c' H.
  - injection H as <-. reflexivity.
  - cbn [cons_fold] in H. destruct (cons_apply c e) as [c1|] eqn:E1; [|discriminate].
    cbn [sfold]. assert (Hs : sapply (cs_stack c) e = Some (cs_stack c1)); [|rewrite Hs; apply IH; exact H].
    unfold cons_apply in E1. unfold sapply. destruct (estep e).
    + destruct (cs_stack c) as [|top st].
      * injection E1 as <-. reflexivity.
      * destruct (bparent (eblk e) =? bid top); [|discriminate]. injection E1 as <-. reflexivity.
    + destruct (cs_stack c) as [|top st]; [discriminate|].
      destruct (bid (eblk e) =? bid top); [|discriminate]. cbn [andb] in E1.
      destruct (Nat.ltb (cs_nf c) (length (top :: st))); [|discriminate]. injection E1 as <-. reflexivity.
    + destruct (nth_from_bottom (cs_stack c) (cs_nf c)) as [p|].
      * destruct (bid p =? bid (eblk e)); [injection E1 as <-; reflexivity|].
        destruct (negb (cs_any c) && Nat.eqb (cs_nf c) 0 && (bparent p =? bid (eblk e))); [|discriminate].
        injection E1 as <-. reflexivity.
      * destruct (negb (cs_any c) && Nat.eqb (cs_nf c) 0); [|discriminate]. injection E1 as <-. reflexivity.
    + injection E1 as <-. reflexivity.
    + destruct (negb (Nat.eqb (cs_nf c) (length (cs_stack c)))); [discriminate|].
      destruct (cs_stack c) as [|top st].
      * injection E1 as <-. reflexivity.
      * destruct (bparent (eblk e) =? bid top); [|discriminate]. injection E1 as <-. reflexivity.
Qed.

(* ------------------------------------------------------------------ filters of a sorted segment *)

Lemma filter_upto_split (p : seg -> bool) mid x hi2 :
  (forall y, In y mid -> p y = true) -> p x = true -> (forall y, In y hi2 -> p y = false) ->
  filter p (mid ++ x :: hi2) = mid ++ [x].
Proof.
  intros H1 H2 H3. rewrite filter_app. cbn [filter]. rewrite H2.
  rewrite (Proofs.C05_Fast.filter_all p mid H1), (Proofs.C05_Fast.filter_none p hi2 H3). reflexivity.
Qed.

Lemma filter_below_split (p : seg -> bool) mid x hi2 :
  (forall y, In y mid -> p y = true) -> p x = false -> (forall y, In y hi2 -> p y = false) ->
  filter p (mid ++ x :: hi2) = mid.
Proof.
  intros H1 H2 H3. rewrite filter_app. cbn [filter]. rewrite H2.
  rewrite (Proofs.C05_Fast.filter_all p mid H1), (Proofs.C05_Fast.filter_none p hi2 H3). apply app_nil_r.
Qed.

(* the branch of a block off the segment, as a parent-linked run from the junction *)
Lemma branch_to_lnk d sg : forall id path j, branch_to d sg id path j ->
  lnk j (map seg_blk (rev path)) /\ tip j (map seg_blk (rev path)) = id /\ path <> [].
Proof.
  intros id path j B. induction B as [id e Hf Hin|id e l j Hf Hin B IH].
  - cbn [rev app map lnk]. unfold seg_blk at 1. cbn [sent]. split; [auto|]. split; [|discriminate].
    unfold tip. cbn. unfold seg_blk. cbn [sent]. exact (find_key _ _ _ Hf).
  - destruct IH as (Hl & Ht & Hne). cbn [rev]. rewrite map_app. cbn [map].
    split; [|split; [|destruct (rev l); discriminate]].
    + apply linked_app_iff. split; [exact Hl|]. rewrite Ht. cbn [lnk]. unfold seg_blk. cbn [sent]. auto.
    + rewrite tip_snoc. unfold seg_blk. cbn [sent]. exact (find_key _ _ _ Hf).
Qed.

Lemma branch_stored d sg : forall id path j, branch_to d sg id path j ->
  forall z, In z path -> find (sid z) (store d) = Some (sent z).
Proof.
  intros id path j B. induction B as [id e Hf _|id e l j Hf _ B IH]; intros z [<-|Hz]; cbn [sid sent]; auto. destruct Hz.
Qed.

Lemma branch_off d sg : forall id path j, branch_to d sg id path j -> block_in id sg = false ->
  forall z, In z path -> block_in (sid z) sg = false.
Proof.
  intros id path j B. induction B as [id e Hf Hin|id e l j Hf Hin B IH]; intros Hid z [<-|Hz]; cbn [sid]; auto.
  destruct Hz.
Qed.

(* ------------------------------------------------------------------ the consumer's run against the hub's segment *)

Section Match.
  Variable U : list block.
  Hypothesis U_id : forall b, In b U -> bid b <> 0 /\ bid b <> bparent b.
  Hypothesis U_uniq : forall x y, In x U -> In y U -> bid x = bid y -> x = y.
  Hypothesis U_up : forall x y, In x U -> In y U -> bparent x = bid y -> bnum y < bnum x.

  Variables (s : fstate) (sg : list seg).
  Hypothesis Hgood : good_seg sg.
  Hypothesis Hstored : seg_stored (db s) sg.
  Hypothesis HsU : Forall (fun x => In (seg_blk x) U) sg.
  Hypothesis HstoreU : forall e, In e (store (db s)) -> In (eb e) U.
  Hypothesis Hwf : wf_store (store (db s)).

  (* L: the cursor-LIB block; T: the cursor block; K: what the consumer holds above L; Kf: the run from L to T *)
  Variables (cu : cursor) (L T : block) (K Kf : list block).
  Hypothesis HL : bref L = cu_lib cu.
  Hypothesis HLU : In L U.
  Hypothesis HT : bref T = cu_blk cu.
  Hypothesis HTU : In T U.
  Hypothesis HKf : Kf = if is_undo cu then K ++ [T] else K.
  Hypothesis HlKf : lnk (bid L) Kf.
  Hypothesis HKfU : Forall (fun x => In x U) Kf.
  Hypothesis HtipKf : tip (bid L) Kf = bid T.
  Hypothesis Hlib_on : block_in (ri (cu_lib cu)) sg = true.

  Let HLi : bid L = ri (cu_lib cu). Proof. rewrite <- HL. reflexivity. Qed.
  Let HLn : bnum L = rn (cu_lib cu). Proof. rewrite <- HL. reflexivity. Qed.
  Let HTi : bid T = ri (cu_blk cu). Proof. rewrite <- HT. reflexivity. Qed.
  Let HTn : bnum T = rn (cu_blk cu). Proof. rewrite <- HT. reflexivity. Qed.

  Lemma std_of x : In x sg -> sid x = bid (seg_blk x) /\ snum x = bnum (seg_blk x).
  Proof. intros Hx. destruct Hgood as [Hstd _ _ _]. rewrite Forall_forall in Hstd. exact (Hstd x Hx). Qed.

  Lemma seg_blk_is x b : In x sg -> In b U -> sid x = bid b -> seg_blk x = b.
  Proof.
    intros Hx Hb E. apply U_uniq; [rewrite Forall_forall in HsU; apply HsU; exact Hx | exact Hb|].
    destruct (std_of x Hx) as [H _]. congruence.
  Qed.

  Lemma seg_at_L : exists lo xL hi,
    sg = lo ++ xL :: hi /\ seg_blk xL = L /\ snum xL = bnum L /\ above_seg cu sg = hi /\
    (forall y, In y hi -> bnum L < snum y) /\
    Forall seg_std (xL :: hi) /\ Sorted seg_link (xL :: hi) /\ StronglySorted seg_lt (xL :: hi) /\
    lnk (bid L) (map seg_blk hi) /\ Forall (fun y => In y U) (map seg_blk hi).
  Proof.
    apply block_in_spec in Hlib_on as (xL & HxL & HsL). apply in_split in HxL as (lo & hi & Hsplit).
    destruct (good_seg_split sg lo xL hi Hgood Hsplit) as (Hlo & Hhi & Hstd & Hlk).
    assert (HxLin : In xL sg) by (rewrite Hsplit; apply in_or_app; right; left; reflexivity).
    assert (HbL : seg_blk xL = L) by (apply seg_blk_is; [exact HxLin | exact HLU | congruence]).
    assert (HnL : snum xL = bnum L) by (destruct (std_of xL HxLin) as [_ H]; rewrite H, HbL; reflexivity).
    exists lo, xL, hi. split; [exact Hsplit|]. split; [exact HbL|]. split; [exact HnL|]. split.
    { unfold above_seg. rewrite Hsplit, filter_app. cbn [filter].
      rewrite (Proofs.C05_Fast.filter_none _ lo), (Proofs.C05_Fast.filter_all _ hi).
      - unfold above_clib at 1. rewrite HnL, HLn, N.ltb_irrefl. reflexivity.
      - intros y Hy. unfold above_clib. apply N.ltb_lt. specialize (Hhi y Hy). lia.
      - intros y Hy. unfold above_clib. apply N.ltb_ge. specialize (Hlo y Hy). lia. }
    split; [intros y Hy; specialize (Hhi y Hy); lia|]. split; [exact Hstd|]. split; [exact Hlk|]. split.
    { destruct Hgood as [_ _ Hinc _]. rewrite Hsplit in Hinc. apply StronglySorted_app_r in Hinc. exact Hinc. }
    split.
    - destruct (Forall_inv Hstd) as [Hs1 _]. rewrite <- HbL, <- Hs1. apply seg_linked; assumption.
    - apply Forall_forall. intros y Hy. apply in_map_iff in Hy as (q & <- & Hq). rewrite Forall_forall in HsU. apply HsU.
      rewrite Hsplit. apply in_or_app. right. right. exact Hq.
  Qed.

  (* an element x of the part above L: the run from L to x *)
  Lemma run_to mid x hi2 hi : lnk (bid L) (map seg_blk hi) -> Forall (fun y => In y U) (map seg_blk hi) ->
    hi = mid ++ x :: hi2 ->
    lnk (bid L) (map seg_blk (mid ++ [x])) /\ Forall (fun y => In y U) (map seg_blk (mid ++ [x])) /\
    tip (bid L) (map seg_blk (mid ++ [x])) = bid (seg_blk x).
  Proof.
    intros Hl HU ->. change (x :: hi2) with ([x] ++ hi2) in Hl, HU. rewrite app_assoc, map_app in Hl, HU.
    split; [eapply linked_prefix; exact Hl|]. split; [apply Forall_app in HU as [H _]; exact H|].
    rewrite map_app. cbn [map]. apply tip_snoc.
  Qed.

  Lemma sorted_split_lt x mid hi2 xL : StronglySorted seg_lt (xL :: mid ++ x :: hi2) -> Forall seg_std (xL :: mid ++ x :: hi2) ->
    (forall y, In y mid -> snum y < snum x) /\ (forall y, In y hi2 -> snum x < snum y).
  Proof.
    intros HS Hstd. apply (StronglySorted_app_r _ [xL]) in HS. cbn [app] in HS.
    destruct (Proofs.C09_Proofs.StronglySorted_split seg_lt mid x hi2 HS) as [H1 H2].
    rewrite Forall_forall in Hstd.
    assert (Hx : seg_std x) by (apply Hstd; right; apply in_or_app; right; left; reflexivity).
    split; intros y Hy.
    - apply snum_lt_of; [apply Hstd; right; apply in_or_app; left; exact Hy | exact Hx | apply H1; exact Hy].
    - apply snum_lt_of; [exact Hx | apply Hstd; right; apply in_or_app; right; right; exact Hy | apply H2; exact Hy].
  Qed.

  (* ---------------------------------------------------------------- the cursor block is on the hub's chain *)

  Lemma fast_match : block_in (ri (cu_blk cu)) sg = true -> map seg_blk (held_seg cu sg) = K.
  Proof.
    intros Hb. destruct seg_at_L as (lo & xL & hi & Hsplit & HbL & HnL & Habove & Hhi & Hstd & Hlk & Hinc & Hlhi & HhiU).
    apply block_in_spec in Hb as (xB & HxB & HsB).
    assert (HbB : seg_blk xB = T) by (apply seg_blk_is; [exact HxB | exact HTU | congruence]).
    assert (HnB : snum xB = bnum T) by (destruct (std_of xB HxB) as [_ H]; rewrite H, HbB; reflexivity).
    rewrite held_seg_eq, Habove.
    (* where T sits *)
    destruct Kf as [|k0 Kf0] eqn:EKf.
    - (* the cursor block is the cursor-LIB block *)
      unfold tip in HtipKf. cbn in HtipKf.
      assert (ET : T = L) by (apply U_uniq; [exact HTU | exact HLU | congruence]).
      assert (EK : K = []).
      { destruct (is_undo cu); [symmetry in HKf; apply app_eq_nil in HKf as [_ H]; discriminate | symmetry; exact HKf]. }
      rewrite EK. rewrite (Proofs.C05_Fast.filter_none _ hi); [reflexivity|].
      intros y Hy. specialize (Hhi y Hy). unfold not_held. rewrite <- HTn, ET.
      replace (bnum L <? snum y) with true by (symmetry; apply N.ltb_lt; exact Hhi). reflexivity.
    - (* the cursor block is above L: on hi *)
      assert (HTgt : bnum L < bnum T).
      { pose proof (linked_above U U_id U_uniq U_up _ L HLU HlKf HKfU) as Hab. rewrite Forall_forall in Hab.
        destruct (exists_last (l := k0 :: Kf0)) as (q & z & Eq); [discriminate|]. rewrite Eq in HtipKf, HKfU, Hab.
        rewrite tip_snoc in HtipKf.
        assert (z = T).
        { apply U_uniq; [apply Forall_app in HKfU as [_ H]; exact (Forall_inv H) | exact HTU | exact HtipKf]. }
        subst z. apply (Hab T). apply in_or_app. right. left. reflexivity. }
      assert (HxBhi : In xB hi).
      { rewrite Hsplit in HxB. apply in_app_or in HxB as [HxB|[HxB|HxB]]; [| |exact HxB]; exfalso.
        - destruct (good_seg_split sg lo xL hi Hgood Hsplit) as (Hlo & _). specialize (Hlo xB HxB). lia.
        - subst xB. lia. }
      apply in_split in HxBhi as (mid & hi2 & Ehi).
      destruct (run_to mid xB hi2 hi Hlhi HhiU Ehi) as (HlR & HRU & HtR).
      rewrite Ehi in Hinc, Hstd. destruct (sorted_split_lt xB mid hi2 xL Hinc Hstd) as [Hmid Hhi2].
      assert (EKf' : k0 :: Kf0 = map seg_blk (mid ++ [xB])).
      { apply (linked_unique_tip U U_id U_uniq U_up _ _ (bid L)); [exact HlKf | exact HlR | exact HKfU | exact HRU|].
        rewrite HtipKf, HtR, HbB. reflexivity. }
      rewrite Ehi.
      assert (Hpmid : forall y, In y mid -> negb (not_held cu y) = true).
      { intros y Hy. specialize (Hmid y Hy). unfold not_held. rewrite <- HTn, <- HnB.
        replace (snum xB <? snum y) with false by (symmetry; apply N.ltb_ge; lia).
        replace (snum y =? snum xB) with false by (symmetry; apply N.eqb_neq; lia).
        rewrite andb_false_r. reflexivity. }
      assert (Hphi2 : forall y, In y hi2 -> negb (not_held cu y) = false).
      { intros y Hy. specialize (Hhi2 y Hy). unfold not_held. rewrite <- HTn, <- HnB.
        replace (snum xB <? snum y) with true by (symmetry; apply N.ltb_lt; lia). reflexivity. }
      assert (HpB : negb (not_held cu xB) = negb (is_undo cu)).
      { unfold not_held. rewrite <- HTn, <- HnB, N.ltb_irrefl, N.eqb_refl, andb_true_r. reflexivity. }
      destruct (is_undo cu) eqn:Eu.
      + rewrite (filter_below_split _ mid xB hi2 Hpmid HpB Hphi2).
        rewrite HKf, map_app in EKf'. cbn [map] in EKf'. apply app_inj_tail in EKf' as [EK _]. symmetry. exact EK.
      + rewrite (filter_upto_split _ mid xB hi2 Hpmid HpB Hphi2). rewrite HKf in EKf'. symmetry. exact EKf'.
  Qed.

  (* ---------------------------------------------------------------- the cursor block is off the hub's chain *)

  Lemma step_undo_is (st : step) : step_eqb st SUndo = matches_undo st.
  Proof. destruct st; reflexivity. Qed.

  Lemma forked_match hd path j je : block_in (ri (cu_blk cu)) sg = false ->
    branch_to (db s) sg (ri (cu_blk cu)) path j -> find j (store (db s)) = Some je ->
    let jc := junction_cursor hd cu (mkR j (bnum (eb je))) in
    K = map seg_blk (held_seg jc sg) ++ map seg_blk (rev (undos_of cu path)).
  Proof.
    intros Hoff B Hje jc.
    destruct seg_at_L as (lo & xL & hi & Hsplit & HbL & HnL & Habove & Hhi & Hstd & Hlk & Hinc & Hlhi & HhiU).
    destruct (branch_to_lnk (db s) sg _ path j B) as (HlP & HtP & HPne).
    set (P' := map seg_blk (rev path)) in *.
    assert (HPU : Forall (fun y => In y U) P').
    { apply Forall_forall. intros y Hy. apply in_map_iff in Hy as (z & <- & Hz). apply in_rev in Hz.
      apply HstoreU. eapply find_In. exact (branch_stored (db s) sg _ path j B z Hz). }
    assert (Hpid : forall z, In z path -> bid (seg_blk z) = sid z).
    { intros z Hz. pose proof (branch_stored (db s) sg _ path j B z Hz) as Hf. apply find_key in Hf. exact Hf. }
    (* both runs end with the cursor block *)
    destruct (exists_last (l := P')) as (P0 & t & EP); [unfold P'; destruct (rev path) eqn:E; [|discriminate]; apply (f_equal (@rev seg)) in E; rewrite rev_involutive in E; contradiction|].
    assert (Et : t = T).
    { apply U_uniq; [rewrite EP in HPU; apply Forall_app in HPU as [_ H]; exact (Forall_inv H) | exact HTU|].
      rewrite EP, tip_snoc in HtP. congruence. }
    subst t.
    destruct Kf as [|k0 Kf0] eqn:EKf.
    { exfalso. unfold tip in HtipKf. cbn in HtipKf. rewrite <- HTi, <- HtipKf, HLi, Hlib_on in Hoff. discriminate. }
    destruct (exists_last (l := k0 :: Kf0)) as (Kq & z & EKq); [discriminate|].
    assert (Ez : z = T).
    { apply U_uniq; [rewrite EKq in HKfU; apply Forall_app in HKfU as [_ H]; exact (Forall_inv H) | exact HTU|].
      rewrite EKq, tip_snoc in HtipKf. exact HtipKf. }
    subst z. rewrite EKq in HlKf, HKfU. rewrite EP in HlP, HPU.
    assert (Hd : exists d, Kq = d ++ P0).
    { destruct (linked_same_end U U_uniq Kq P0 (bid L) j T HlKf HlP HKfU HPU) as [[d Hd]|[d Hd]]; [exists d; exact Hd|].
      destruct d as [|d0 d1]; [exists []; exact (eq_sym Hd)|]. exfalso.
      (* the block under the consumer's run on the branch would be L, which is on the segment *)
      rewrite Hd, <- app_assoc, <- EKq in HlP. apply linked_app_iff in HlP as [_ HlP2]. cbn [lnk] in HlP2. destruct HlP2 as [Hp0 _].
      cbn [lnk] in HlKf. rewrite EKq in *.
      assert (Hk0 : bparent k0 = bid L).
      { rewrite <- EKq in HlKf. cbn [lnk] in HlKf. apply HlKf. }
      destruct (exists_last (l := d0 :: d1)) as (dq & dz & Ed); [discriminate|]. rewrite Ed, tip_snoc in Hp0.
      assert (Hdz : In dz P').
      { rewrite EP, Hd, Ed. apply in_or_app. left. apply in_or_app. left. apply in_or_app. right. left. reflexivity. }
      unfold P' in Hdz. apply in_map_iff in Hdz as (zz & Ezz & Hzz). apply in_rev in Hzz.
      pose proof (branch_off (db s) sg _ path j B Hoff zz Hzz) as Hoffz.
      rewrite <- (Hpid zz Hzz), Ezz, <- Hp0, Hk0, HLi, Hlib_on in Hoffz. discriminate. }
    destruct Hd as [d Hd].
    assert (EKfP : k0 :: Kf0 = d ++ P') by (rewrite EKq, Hd, EP, app_assoc; reflexivity).
    rewrite <- EKq, EKfP in HlKf, HKfU. rewrite <- EP in HlP, HPU.
    (* d: the run from L to the junction *)
    assert (Hld : lnk (bid L) d) by (eapply linked_prefix; exact HlKf).
    assert (HdU : Forall (fun y => In y U) d) by (apply Forall_app in HKfU as [H _]; exact H).
    assert (Htd : tip (bid L) d = j).
    { apply linked_app_iff in HlKf as [_ H]. rewrite EP in H, HlP.
      destruct P0 as [|p0 P00]; cbn [app lnk] in H, HlP; destruct H as [H1 _]; destruct HlP as [H2 _]; congruence. }
    pose proof (branch_to_junction _ _ _ _ _ B) as HjIn. apply block_in_spec in HjIn as (xJ & HxJ & HsJ).
    assert (EjE : je = sent xJ) by (pose proof (Hstored xJ HxJ) as H; rewrite HsJ, Hje in H; injection H as ->; reflexivity).
    assert (HnJ : bnum (eb je) = snum xJ) by (destruct (std_of xJ HxJ) as [_ H]; rewrite H, EjE; reflexivity).
    assert (Hheld : map seg_blk (held_seg jc sg) = d).
    { rewrite held_seg_eq. change (above_seg jc sg) with (above_seg cu sg). rewrite Habove.
      assert (Hnh : forall y, not_held jc y = (snum xJ <? snum y)).
      { intros y. unfold not_held, is_undo, jc, junction_cursor. cbn [cu_blk cu_step rn matches_undo andb]. rewrite HnJ. apply orb_false_r. }
      destruct d as [|d0 d1] eqn:Ed.
      - (* the junction is L *)
        unfold tip in Htd. cbn in Htd.
        assert (EJL : seg_blk xJ = L) by (apply seg_blk_is; [exact HxJ | exact HLU | congruence]).
        assert (HnJL : snum xJ = bnum L) by (destruct (std_of xJ HxJ) as [_ H]; rewrite H, EJL; reflexivity).
        rewrite (Proofs.C05_Fast.filter_none _ hi); [reflexivity|].
        intros y Hy. rewrite Hnh. specialize (Hhi y Hy). replace (snum xJ <? snum y) with true by (symmetry; apply N.ltb_lt; lia). reflexivity.
      - rewrite <- Ed in *.
        destruct (exists_last (l := d)) as (dq & dj & Edj); [rewrite Ed; discriminate|].
        assert (HdjU : In dj U) by (rewrite Edj in HdU; apply Forall_app in HdU as [_ H]; exact (Forall_inv H)).
        assert (Hdjid : bid dj = j) by (rewrite Edj, tip_snoc in Htd; exact Htd).
        assert (EJ : seg_blk xJ = dj) by (apply seg_blk_is; [exact HxJ | exact HdjU | congruence]).
        assert (Hgt : bnum L < bnum dj).
        { pose proof (linked_above U U_id U_uniq U_up _ L HLU Hld HdU) as Hab. rewrite Forall_forall in Hab.
          apply (Hab dj). rewrite Edj. apply in_or_app. right. left. reflexivity. }
        assert (HnJd : snum xJ = bnum dj) by (destruct (std_of xJ HxJ) as [_ H]; rewrite H, EJ; reflexivity).
        assert (HxJhi : In xJ hi).
        { rewrite Hsplit in HxJ. apply in_app_or in HxJ as [HxJ'|[HxJ'|HxJ']]; [| |exact HxJ']; exfalso.
          - destruct (good_seg_split sg lo xL hi Hgood Hsplit) as (Hlo & _). specialize (Hlo xJ HxJ'). lia.
          - subst xJ. lia. }
        apply in_split in HxJhi as (mid & hi2 & Ehi).
        destruct (run_to mid xJ hi2 hi Hlhi HhiU Ehi) as (HlR & HRU & HtR).
        rewrite Ehi in Hinc, Hstd. destruct (sorted_split_lt xJ mid hi2 xL Hinc Hstd) as [Hmid Hhi2].
        rewrite Ehi. rewrite (filter_upto_split _ mid xJ hi2).
        + symmetry. apply (linked_unique_tip U U_id U_uniq U_up _ _ (bid L)); [exact Hld | exact HlR | exact HdU | exact HRU|].
          rewrite Htd, HtR, EJ. symmetry. exact Hdjid.
        + intros y Hy. rewrite Hnh. specialize (Hmid y Hy). replace (snum xJ <? snum y) with false by (symmetry; apply N.ltb_ge; lia). reflexivity.
        + rewrite Hnh, N.ltb_irrefl. reflexivity.
        + intros y Hy. rewrite Hnh. specialize (Hhi2 y Hy). replace (snum xJ <? snum y) with true by (symmetry; apply N.ltb_lt; lia). reflexivity. }
    rewrite Hheld.
    destruct (branch_undos (db s) sg cu Hwf path j B) as (x & rest & Epath & Hsx & Hundos).
    rewrite Hundos, step_undo_is. fold (is_undo cu). destruct (is_undo cu) eqn:Eu.
    - rewrite HKf in EKfP. unfold P' in EKfP. rewrite Epath in EKfP. cbn [rev] in EKfP. rewrite map_app in EKfP. cbn [map] in EKfP.
      rewrite app_assoc in EKfP. apply app_inj_tail in EKfP as [EK _]. exact EK.
    - rewrite HKf in EKfP. exact EKfP.
  Qed.
End Match.

(* ------------------------------------------------------------------ the burst for the cursor, on the consumer *)

Lemma branch_lnk : forall l p, branch_from p l -> lnk (bid p) l.
Proof.
  induction l as [|b l IH]; intros p H; [exact I|]. cbn [branch_from] in H. destruct H as (Hp & _ & Hl).
  cbn [lnk]. split; [exact Hp | apply IH; exact Hl].
Qed.

Lemma tip_last y : forall l d, tip y l = match l with [] => y | _ => bid (last l d) end.
Proof.
  intros l d. destruct l as [|a l]; [reflexivity|].
  destruct (exists_last (l := a :: l)) as (q & z & E); [discriminate|]. rewrite E, tip_snoc.
  rewrite last_app_one. reflexivity.
Qed.

Section Burst.
  Variable U : list block.
  Variables first kept : N.
  Hypothesis U_id : forall b, In b U -> bid b <> 0 /\ bid b <> bparent b.
  Hypothesis U_uniq : forall x y, In x U -> In y U -> bid x = bid y -> x = y.
  Hypothesis U_up : forall x y, In x U -> In y U -> bparent x = bid y -> bnum y < bnum x.

  Lemma cursor_burst s V cu L T K Kf burst :
    VState U first kept s V ->
    bref L = cu_lib cu -> In L U -> bref T = cu_blk cu -> In T U ->
    Kf = (if is_undo cu then K ++ [T] else K) -> lnk (bid L) Kf -> Forall (fun x => In x U) Kf ->
    tip (bid L) Kf = bid T ->
    blocks_from_cursor s cu = BOk burst ->
    exists hd sg lo xL hi,
      last_sent s = Some hd /\ complete_segment (db s) (bref hd) = Some (sg, true) /\ good_seg sg /\
      sg = lo ++ xL :: hi /\ seg_blk xL = L /\
      lnk (bid L) (map seg_blk hi) /\ Forall (fun y => In y U) (map seg_blk hi) /\
      sfold (rev K) burst = Some (rev (map seg_blk hi)).
  Proof.
    intros HV HL HLU HT HTU HKf HlKf HKfU Htip Hb.
    destruct (vstate_facts U first kept U_id U_uniq U_up s V HV) as (_ & _ & W & hd & Hls & _).
    destruct (vstate_store U first kept U_id U_uniq U_up s V HV) as (HstoreU & Hst).
    pose proof W as [[Wst _] _].
    (* the shape of the answer *)
    pose proof Hb as Hb0. unfold blocks_from_cursor in Hb0.
    destruct (has_lib (db s)) eqn:Ehl; [|discriminate]. cbn [negb] in Hb0. rewrite Hls in Hb0.
    destruct (complete_segment (db s) (bref hd)) as [[sg [|]]|] eqn:Eseg; try discriminate.
    2:{ destruct sg; discriminate. }
    destruct sg as [|s0 sg0]; [discriminate|]. set (sg := s0 :: sg0) in *.
    destruct (rn (cu_lib cu) <? snum s0); [discriminate|].
    destruct (vstate_segment U first kept U_id U_uniq U_up s V hd sg true HV Hls Eseg) as (Hgood & HsU & _).
    pose proof (Hst hd sg true Hls Eseg) as Hstored.
    (* the cursor LIB is on the segment *)
    destruct (block_in (ri (cu_lib cu)) sg) eqn:Elib.
    2:{ exfalso. destruct (c05_no_lib_no_source_proof s cu) as (_ & _ & _ & _ & H5). exact (H5 hd sg Hls Eseg Elib burst Hb). }
    destruct (seg_at_L U U_id U_uniq U_up sg Hgood HsU cu L T Kf HL HLU HT HTU Htip Elib)
      as (lo & xL & hi & Hsplit & HbL & _ & Habove & _ & _ & _ & _ & Hlhi & HhiU).
    exists hd, sg, lo, xL, hi. split; [exact Hls|]. split; [exact Eseg|]. split; [exact Hgood|]. split; [exact Hsplit|].
    split; [exact HbL|]. split; [exact Hlhi|]. split; [exact HhiU|].
    destruct (block_in (ri (cu_blk cu)) sg) eqn:Eblk.
    - (* fast path *)
      destruct (c05_fast_path_shape_proof s hd sg cu Hgood) as (_ & _ & Hloop).
      unfold fuel_of in Hb0. rewrite (Hloop _ Eblk Elib) in Hb0. injection Hb0 as <-.
      pose proof (c05_fast_path_consumer_proof s hd sg cu [] false Hgood) as Hc. cbv zeta in Hc.
      cbn [app length] in Hc.
      rewrite (fast_match U U_id U_uniq U_up sg Hgood HsU cu L T K Kf HL HLU HT HTU HKf HlKf HKfU Htip Elib Eblk), Habove in Hc.
      apply (cons_fold_sfold _ _ _ (Hc ltac:(intros _; unfold stack_links; cbn; exact I))).
    - (* forked path *)
      destruct (c05_forked_path_proof s hd sg cu Wst Hstored) as (Hex & _ & _ & _ & Hburst).
      destruct (Hburst Elib Eblk) as [Hserved Hbroken].
      destruct Hex as [(path & j & B)|Hbr]; [|rewrite (Hbroken Hbr) in Hb0; discriminate].
      destruct (Hserved path j B) as (je & Hje & _).
      pose proof (c05_resume_partial_proof s hd sg cu path j je [] false Wst Hstored Hgood Elib Eblk B Hje) as Hc. cbv zeta in Hc.
      destruct (Hc ltac:(intros _; unfold stack_links; cbn; exact I)) as (evs & Hevs & Hfold).
      rewrite Hevs in Hb0. injection Hb0 as <-. cbn [app length] in Hfold.
      rewrite <- (forked_match U U_id U_uniq U_up s sg Hgood Hstored HsU HstoreU Wst cu L T K Kf HL HLU HT HTU HKf HlKf HKfU Htip Elib hd path j je Eblk B Hje), Habove in Hfold.
      exact (cons_fold_sfold _ _ _ Hfold).
  Qed.
End Burst.
