(* The fixed-LIB theorems of C01-C04 with roots (blocks whose parent id is empty): from the boolean scopes
   of Spec/Roots_Fixed_Spec.v to the hypotheses of Proofs/Fk/FixedLib*.v (whose id hypothesis U_id no longer
   asks for non-empty parent ids). *)
From BV Require Import Base.Prelude Model.Block Model.ForkDB Model.Forkable Spec.Consumer Spec.Universe
  Spec.ForkChoice Spec.C01_Spec Spec.C01_More_Spec Spec.C02_Fixed_Spec Spec.C03_Spec Spec.C04_Spec Spec.Roots_Fixed_Spec
  Check.Fk_Check Check.Fk_Props_Check
  Proofs.Fk.FixedLib Proofs.Fk.LoopFactsFail Proofs.Fk.FixedLibIncl Proofs.Fk.FixedLibDisc Proofs.Fk.FixedLibEvents Proofs.Fk.FixedLibChoice
  Proofs.C01_Proofs Proofs.C01_FailProofs Proofs.C01_DiscProofs Proofs.C04_Proofs Proofs.C02_Fixed_Proofs.
Local Open Scope N_scope.

(* ---- the old classes are sub-classes ---- *)
Lemma fixed_scope_sub r0 h : c01_fixed_scope_b r0 h = true -> c01_fixed_scope2_b r0 h = true.
Proof.
  unfold c01_fixed_scope_b, c01_fixed_scope2_b. intros H. apply andb_true_iff in H as [H1 H2]. rewrite H1. cbn [andb].
  rewrite forallb_forall in H2. apply forallb_forall. intros b Hb. specialize (H2 b Hb).
  unfold fixed_block_b in H2. unfold fixed_block2_b.
  apply andb_true_iff in H2 as [H2 H5]. apply andb_true_iff in H2 as [H2 H4]. apply andb_true_iff in H2 as [_ H3].
  rewrite H3, H4, H5. reflexivity.
Qed.

Lemma disc_fixed_scope_sub n0 first h : c01_disc_scope_b n0 first h = true -> c01_disc_scope2_b n0 first h = true.
Proof.
  unfold c01_disc_scope_b, c01_disc_scope2_b. intros H. apply andb_true_iff in H as [H1 H2]. rewrite H1. cbn [andb].
  rewrite forallb_forall in H2. apply forallb_forall. intros b Hb. specialize (H2 b Hb).
  unfold disc_block_b in H2. unfold disc_block2_b.
  apply andb_true_iff in H2 as [H2 H5]. apply andb_true_iff in H2 as [H2 H4]. apply andb_true_iff in H2 as [_ H3].
  rewrite H3, H4, H5. reflexivity.
Qed.

Lemma roots_fixed_scopes_subsume_proved : roots_fixed_scopes_subsume.
Proof. split; [exact fixed_scope_sub | exact disc_fixed_scope_sub]. Qed.

(* ---- the parts of the class ---- *)
Lemma fixed_scope2_parts r0 h : c01_fixed_scope2_b r0 h = true ->
  wf_b h = true /\ ri r0 <> 0 /\
  forall b, In b h -> blib b = rn r0 /\ (bparent b = ri r0 -> rn r0 < bnum b) /\ (bid b = ri r0 -> bnum b = rn r0).
Proof.
  unfold c01_fixed_scope2_b. intros H. apply andb_true_iff in H as [H1 H3]. apply andb_true_iff in H1 as [H1 H2].
  split; [exact H1|]. split; [apply negb_true_iff in H2; apply N.eqb_neq; exact H2|].
  rewrite forallb_forall in H3. intros b Hb. specialize (H3 b Hb). unfold fixed_block2_b in H3.
  apply andb_true_iff in H3 as [F F4]. apply andb_true_iff in F as [F2 F3].
  apply N.eqb_eq in F2. split; [exact F2|]. split; intros E.
  - rewrite E, N.eqb_refl in F3. apply N.ltb_lt. exact F3.
  - rewrite E, N.eqb_refl in F4. apply N.eqb_eq. exact F4.
Qed.

Lemma disc_scope2_parts n0 first h : c01_disc_scope2_b n0 first h = true ->
  wf_b h = true /\
  forall b, In b h -> blib b = n0 /\ n0 <= bnum b /\ (bnum b = first -> bnum b = n0).
Proof.
  unfold c01_disc_scope2_b. intros H. apply andb_true_iff in H as [H1 H2]. split; [exact H1|].
  rewrite forallb_forall in H2. intros b Hb. specialize (H2 b Hb). unfold disc_block2_b in H2.
  apply andb_true_iff in H2 as [H2 F4]. apply andb_true_iff in H2 as [F2 F3].
  apply N.eqb_eq in F2. apply N.leb_le in F3.
  repeat split; try assumption. intros E. rewrite E, N.eqb_refl in F4. rewrite E. apply N.eqb_eq. exact F4.
Qed.

(* ---- C01: exclusive or inclusive starting LIB, every handler oracle ---- *)
Lemma c01_fixed_roots_nofail cfg m r0 h :
  start_mode m r0 -> c_fail_at cfg = None ->
  f_new (c_filter cfg) = true -> f_undo (c_filter cfg) = true ->
  c01_fixed_scope2_b r0 h = true ->
  c01_statement cfg m h /\
  Forall (fun x => snd x = ROk) (fk_run cfg (fs_init m) h) /\
  length (fk_run cfg (fs_init m) h) = length h.
Proof.
  intros Hm Hnofail Hnew Hundo Hscope.
  destruct (fixed_scope2_parts r0 h Hscope) as (Hwf & Hr0 & HF).
  pose proof (fixed_lib_run_gen h r0 cfg Hnofail Hnew Hundo
                (wfb_id h Hwf) (wfb_uniq h Hwf) (wfb_up h Hwf) Hr0
                (fun y Hy => proj2 (proj2 (HF y Hy)))
                (fun x Hx => proj1 (proj2 (HF x Hx)))
                (fun b Hb => proj1 (HF b Hb))
                m h Hm (fun b Hb => Hb)) as (Hlen & Hok & Hd & Hr & He).
  unfold c01_statement. repeat split; assumption.
Qed.

Lemma c01_fixed_lib_roots_proved : c01_fixed_lib_roots_statement.
Proof.
  intros cfg m r0 h Hm Hnew Hundo Hscope.
  destruct (c01_fixed_roots_nofail (nofail cfg) m r0 h Hm eq_refl Hnew Hundo Hscope) as (Hst & Hok & Hlen).
  destruct (fk_run_oracle_proved cfg m h) as [Ho _].
  split; [apply c01_failures_transfer_proved; exact Hst|]. split; [exact Ho|].
  split; [eapply results_of_oracle_run; eassumption|].
  intros Hnone. rewrite (nofail_id cfg Hnone) in Hlen. exact Hlen.
Qed.

(* ---- C01: discovery with hold-until-LIB ---- *)
Lemma c01_fixed_disc_roots_nofail cfg n0 h :
  c_fail_at cfg = None -> c_hold cfg = true ->
  f_new (c_filter cfg) = true -> f_undo (c_filter cfg) = true ->
  c01_disc_scope2_b n0 (c_first cfg) h = true ->
  c01_statement cfg LNone h /\
  Forall (fun x => snd x = ROk) (fk_run cfg (fs_init LNone) h) /\
  length (fk_run cfg (fs_init LNone) h) = length h.
Proof.
  intros Hnofail Hhold Hnew Hundo Hscope.
  destruct (disc_scope2_parts _ _ _ Hscope) as (Hwf & Hbl).
  pose proof (fixed_lib_disc_run h n0 cfg Hnofail Hnew Hundo Hhold
                (wfb_id h Hwf) (wfb_uniq h Hwf) (wfb_up h Hwf)
                (fun b Hb => proj1 (Hbl b Hb))
                (fun b Hb => proj1 (proj2 (Hbl b Hb)))
                (fun b Hb => proj2 (proj2 (Hbl b Hb)))
                h (fun b Hb => Hb)) as (Hlen & Hok & Hd & Hr & He).
  unfold c01_statement. repeat split; assumption.
Qed.

Lemma c01_fixed_lib_disc_roots_proved : c01_fixed_lib_disc_roots_statement.
Proof.
  intros cfg n0 h Hhold Hnew Hundo Hscope.
  destruct (c01_fixed_disc_roots_nofail (nofail cfg) n0 h eq_refl Hhold Hnew Hundo Hscope) as (Hst & Hok & Hlen).
  destruct (fk_run_oracle_proved cfg LNone h) as [Ho _].
  split; [apply c01_failures_transfer_proved; exact Hst|]. split; [exact Ho|].
  split; [eapply results_of_oracle_run; eassumption|].
  intros Hnone. rewrite (nofail_id cfg Hnone) in Hlen. exact Hlen.
Qed.

(* ---- C04 ---- *)
Lemma c04_fixed_lib_roots_proved : c04_fixed_lib_roots_statement.
Proof.
  intros cfg r0 h Hnofail Hincl Hnew Hundo Hscope.
  destruct (fixed_scope2_parts r0 h Hscope) as (Hwf & Hr0 & HF).
  pose proof (fixed_lib_events h r0 cfg Hnofail Hnew Hundo Hincl
                (wfb_id h Hwf) (wfb_uniq h Hwf) (wfb_up h Hwf) Hr0
                (fun y Hy => proj2 (proj2 (HF y Hy)))
                (fun x Hx => proj1 (proj2 (HF x Hx)))
                (fun b Hb => proj1 (HF b Hb))
                h (fun b Hb => Hb)) as Hrun.
  cbv zeta. split; [exact Hrun|]. split.
  - eapply c04_run_fields. exact Hrun.
  - unfold c04_statement. apply c04_run_accept. exact Hrun.
Qed.

(* ---- C02 (degenerate) ---- *)
Lemma c02_fixed_lib_roots_proved : c02_fixed_lib_roots_statement.
Proof.
  intros cfg r0 h Hnofail Hincl Hnew Hundo Hscope.
  destruct (c04_fixed_lib_roots_proved cfg r0 h Hnofail Hincl Hnew Hundo Hscope) as (Hrun & _ & _).
  destruct (c04_run_fin r0 h _ [] [] 0%nat r0 false [] Hrun) as [H1 [m H2]].
  split; [exact H1|]. unfold c02_statement, c02_b. cbn [root_ref]. rewrite H2. reflexivity.
Qed.

(* ---- C03 ---- *)
Lemma c03_fixed_lib_roots_proved : c03_fixed_lib_roots_statement.
Proof.
  intros cfg r0 h Hnofail Hincl Hnew Hundo Hscope.
  destruct (fixed_scope2_parts r0 h Hscope) as (Hwf & Hr0 & HF).
  pose proof (run_follows h r0 cfg Hnofail Hnew Hundo Hincl
                (wfb_id h Hwf) (wfb_uniq h Hwf) (wfb_up h Hwf) Hr0
                (fun y Hy => proj2 (proj2 (HF y Hy)))
                (fun x Hx => proj1 (proj2 (HF x Hx)))
                (fun b Hb => proj1 (HF b Hb))
                h (fs_init (LExcl r0)) [] (fc_init (LExcl r0))
                (inv_init h r0) eq_refl (fcrel_init h r0) (fun b Hb => Hb)) as (H1 & H2 & H3).
  cbv zeta. split; [|split; [|split; [|split]]]; [|exact H1|exact H3| |].
  - unfold c03_statement. cbn [root_lib]. exact H2.
  - intros k. exact (run_kept h r0 cfg Hnofail Hnew Hundo Hincl
                (wfb_id h Hwf) (wfb_uniq h Hwf) (wfb_up h Hwf) Hr0
                (fun y Hy => proj2 (proj2 (HF y Hy)))
                (fun x Hx => proj1 (proj2 (HF x Hx)))
                (fun b Hb => proj1 (HF b Hb))
                k h (fs_init (LExcl r0)) [] (inv_init h r0) eq_refl (fun b Hb => Hb)).
  - intros h1 b h2 Hh. unfold c03_noise_deletion.
    apply (noise_deletion h r0 cfg Hnofail Hnew Hundo Hincl
                (wfb_id h Hwf) (wfb_uniq h Hwf) (wfb_up h Hwf) Hr0
                (fun y Hy => proj2 (proj2 (HF y Hy)))
                (fun x Hx => proj1 (proj2 (HF x Hx)))
                (fun b Hb => proj1 (HF b Hb))
                (fs_init (LExcl r0)) [] (fc_init (LExcl r0)) h1 b h2 (inv_init h r0) eq_refl (fcrel_init h r0)).
    rewrite <- Hh. auto.
Qed.
