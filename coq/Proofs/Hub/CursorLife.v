(* The life of a cursor: a New / Undo event delivered by a Forkable in hub configuration, the consumer right
   after it (Proofs/Hub/HubInv.CurAt), and a later state of the same run (HubInv.Post whose final part extends
   the consumer's): the hypotheses of the single-state C05 theorems hold there, and the burst answered for the
   event's cursor takes that consumer to the never-disconnected consumer of the later state. *)
From Coq Require Import Sorted.
From BV Require Import Base.Prelude Model.Block Model.ForkDB Model.Forkable Model.ForkableLookups Model.Burst Model.Hub
  Spec.Consumer Spec.Universe Check.Fk_Check Check.Burst_Check Spec.C09_Spec Spec.C05_Spec
  Proofs.C09_Store Proofs.C09_Segment Proofs.C09_Proofs Proofs.C05_Fast Proofs.C05_Forked
  Proofs.Fk.StoreFacts Proofs.Fk.WalkFacts Proofs.Fk.LoopFacts Proofs.Fk.StoreChange Proofs.Fk.SwitchFacts
  Proofs.Fk.FixedLib Proofs.Fk.MovingLibStore Proofs.Fk.MovingLibWalk Proofs.Fk.MovingLibLoops
  Proofs.Fk.MovingLibInv Proofs.Fk.MovingLibFin Proofs.Fk.MovingLibDisc
  Proofs.Hub.StepFields Proofs.Hub.ConsFacts Proofs.Hub.HubInv Proofs.Hub.LinkedRuns.
Local Open Scope N_scope.

(* ---------- filters by number on increasing lists ---------- *)

Definition upto (n : N) (l : list block) : list block := filter (fun b => bnum b <=? n) l.
Definition under (n : N) (l : list block) : list block := filter (fun b => bnum b <? n) l.

Lemma filter_rev_len {A} (f : A -> bool) l : length (filter f (rev l)) = length (filter f l).
Proof.
  induction l as [|x l IH]; [reflexivity|]. cbn [rev filter]. rewrite filter_app, app_length, IH. cbn [filter].
  destruct (f x); cbn [length]; lia.
Qed.

Lemma upto_all n l : Forall (fun x => bnum x <= n) l -> upto n l = l.
Proof. intros H. apply filter_all. rewrite Forall_forall in H. intros y Hy. apply N.leb_le. apply H. exact Hy. Qed.

Lemma upto_none n l : Forall (fun x => n < bnum x) l -> upto n l = [].
Proof. intros H. apply filter_none. rewrite Forall_forall in H. intros y Hy. apply N.leb_gt. apply H. exact Hy. Qed.

Lemma under_none n l : Forall (fun x => n <= bnum x) l -> under n l = [].
Proof. intros H. apply filter_none. rewrite Forall_forall in H. intros y Hy. apply N.ltb_ge. apply H. exact Hy. Qed.

Lemma sorted_split A t B : StronglySorted blt (A ++ t :: B) ->
  Forall (fun x => bnum x < bnum t) A /\ Forall (fun x => bnum t < bnum x) B.
Proof.
  intros H. destruct (StronglySorted_split blt A t B H) as [H1 H2]. split; apply Forall_forall; assumption.
Qed.

Lemma upto_split A t B : StronglySorted blt (A ++ t :: B) -> upto (bnum t) (A ++ t :: B) = A ++ [t].
Proof.
  intros H. destruct (sorted_split A t B H) as [HA HB]. unfold upto. rewrite filter_app. cbn [filter].
  replace (bnum t <=? bnum t) with true by (symmetry; apply N.leb_refl).
  fold (upto (bnum t) A) (upto (bnum t) B). rewrite upto_all, upto_none; [reflexivity | exact HB|].
  eapply Forall_impl; [|exact HA]. cbn beta. intros; lia.
Qed.

Lemma under_split A t B : StronglySorted blt (A ++ t :: B) -> under (bnum t) (A ++ t :: B) = A.
Proof.
  intros H. destruct (sorted_split A t B H) as [HA HB]. unfold under. rewrite filter_app. cbn [filter].
  replace (bnum t <? bnum t) with false by (symmetry; apply N.ltb_irrefl).
  fold (under (bnum t) B). rewrite under_none; [|eapply Forall_impl; [|exact HB]; cbn beta; intros; lia].
  rewrite app_nil_r. apply filter_all. rewrite Forall_forall in HA. intros y Hy. apply N.ltb_lt. apply HA. exact Hy.
Qed.

Lemma filter_map_std (f g : N -> bool) l : Forall seg_std l ->
  map seg_blk (filter (fun x => f (snum x)) l) = filter (fun b => f (bnum b)) (map seg_blk l).
Proof.
  induction 1 as [|x l Hx Hl IH]; [reflexivity|]. cbn [filter map]. destruct Hx as [_ Hn]. rewrite Hn.
  destruct (f (bnum (seg_blk x))); cbn [map]; rewrite IH; reflexivity.
Qed.

Lemma filter_ext_in' {A} (f g : A -> bool) l : (forall x, In x l -> f x = g x) -> filter f l = filter g l.
Proof.
  induction l as [|x l IH]; intros H; [reflexivity|]. cbn [filter]. rewrite (H x (or_introl eq_refl)).
  rewrite IH; [reflexivity|]. intros y Hy. apply H. right. exact Hy.
Qed.

(* not_held as a threshold *)
Lemma not_held_thr c x : negb (not_held c x) =
  if is_undo c then snum x <? rn (cu_blk c) else snum x <=? rn (cu_blk c).
Proof.
  unfold not_held. destruct (is_undo c); cbn [andb].
  - destruct (N.ltb_spec (rn (cu_blk c)) (snum x)); destruct (N.eqb_spec (snum x) (rn (cu_blk c)));
      destruct (N.ltb_spec (snum x) (rn (cu_blk c))); cbn; try reflexivity; lia.
  - rewrite orb_false_r. destruct (N.ltb_spec (rn (cu_blk c)) (snum x)); destruct (N.leb_spec (snum x) (rn (cu_blk c)));
      cbn; try reflexivity; lia.
Qed.

Section Life.
  Variable U : list block.
  Variable cfg : config.

  Hypothesis U_id : forall b, In b U -> bid b <> 0 /\ bparent b <> 0 /\ bid b <> bparent b.
  Hypothesis U_uniq : forall x y, In x U -> In y U -> bid x = bid y -> x = y.
  Hypothesis U_up : forall x y, In x U -> In y U -> bparent x = bid y -> bnum y < bnum x.

  Notation in_U := (in_U U).
  Notation IInv a := (Inv U (R a) cfg).

  (* ---------- the states of the invariant are well formed in the sense of C09 ---------- *)

  Lemma inv_wf_state a s Fin S : In a U -> IInv a s Fin S -> wf_state s.
  Proof.
    intros Ha [Hd Hfin Hl Hh]. pose proof Hd as [Hnd HU Hcoh Hnum Hex Hlc].
    constructor.
    - split.
      + constructor.
        * exact Hnd.
        * intros e He. apply (U_id (eb e)). apply HU. exact He.
        * intros e p He Hp Hk. apply (U_up (eb e) (eb p)); [apply HU; exact He | apply HU; exact Hp | symmetry; exact Hk].
      + intros r Hr. destruct Hex as [Hex|Hex]; rewrite Hex in Hr; [discriminate|]. injection Hr as <-.
        apply (di_lid U _ _ Hd).
    - intros hd e Hls Hf. rewrite Hls in Hh. destruct Hh as [HhU _].
      rewrite (stored_is_self U U_uniq _ _ _ HU HhU Hf). reflexivity.
  Qed.

  (* ---------- the branch of a block off the segment, walked in the universe ---------- *)

  Lemma branch_shape d sg Lid : in_U (store d) -> block_in Lid sg = true ->
    forall Q' path j, linked Lid Q' -> Forall (fun x => In x U) Q' -> Q' <> [] ->
      branch_to d sg (tip Lid Q') path j ->
      exists Q1 Q2, Q' = Q1 ++ Q2 /\ map seg_blk (rev path) = Q2 /\ Q2 <> [] /\ j = tip Lid Q1.
  Proof.
    intros HU HL. induction Q' as [|t Q'' IH] using rev_ind; intros path j Hl HQ Hne B; [congruence|].
    rewrite tip_snoc in B. pose proof (linked_mid _ _ _ _ Hl) as Hpar.
    apply Forall_app in HQ as [HQ'' Ht]. pose proof (Forall_inv Ht) as HtU. cbn beta in HtU.
    inversion B as [id e Hf Hin E1 E2 E3|id e l j' Hf Hin B' E1 E2 E3]; subst.
    - pose proof (stored_is_self U U_uniq _ _ _ HU HtU Hf) as Ee.
      exists Q'', [t]. split; [reflexivity|]. split; [cbn [rev app map]; unfold seg_blk; cbn [sent]; rewrite Ee; reflexivity|]. split; [discriminate|].
      rewrite Ee. exact Hpar.
    - pose proof (stored_is_self U U_uniq _ _ _ HU HtU Hf) as Ee. rewrite Ee, Hpar in Hin, B'.
      destruct Q'' as [|t0 Q0] eqn:EQ.
      { unfold tip in Hin. cbn in Hin. congruence. }
      rewrite <- EQ in *.
      destruct (IH l j (linked_prefix _ _ _ Hl) HQ'') as (Q1 & Q2 & HQ12 & Hmap & Hne2 & Hj); [rewrite EQ; discriminate | exact B'|].
      exists Q1, (Q2 ++ [t]). split; [rewrite HQ12, app_assoc; reflexivity|]. split.
      + cbn [rev]. rewrite map_app, Hmap. cbn [map]. unfold seg_blk at 1. cbn [sent]. rewrite Ee. reflexivity.
      + split; [destruct Q2; discriminate | exact Hj].
  Qed.

  (* ---------- one state: the segment of the head against the invariant ---------- *)

  Section AtState.
    Variables (a : block) (s : fstate) (Fin : list block) (S : cstack) (c : cons).
    Hypothesis HP : Post U cfg a s Fin S c.

    Let Ha : In a U := po_a U cfg a s Fin S c HP.
    Let HI : IInv a s Fin S := po_inv U cfg a s Fin S c HP.

    Lemma post_head : exists hd p, last_sent s = Some hd /\ In hd U /\
      chain (store (db s)) (bid hd) (ri (libref (db s))) p /\ S = rev (Fin ++ map eb p) /\
      Forall (fun x => In x U /\ bnum (libblk a Fin) < bnum x) (map eb p) /\
      linked (bid (libblk a Fin)) (map eb p) /\
      tip (bid (libblk a Fin)) (map eb p) = bid hd /\
      Forall (fun x => In x U /\ bnum x <= bnum (libblk a Fin)) Fin.
    Proof.
      pose proof HI as [Hd Hfin Hl Hh]. destruct (inv_lib U cfg a s Fin S Ha HI) as [HLU Hlib].
      destruct (last_sent s) as [hd|] eqn:Els.
      2:{ destruct Hh as (HS0 & _). exfalso. exact (po_ne U cfg a s Fin S c HP HS0). }
      destruct Hh as (HhU & p & Hcp & HS & _). exists hd, p.
      split; [reflexivity|]. split; [exact HhU|]. split; [exact Hcp|]. split; [exact HS|].
      assert (HrnL : rn (libref (db s)) = bnum (libblk a Fin)) by (rewrite Hlib; reflexivity).
      split; [|split; [|split]].
      - apply Forall_forall. intros x Hxin. apply in_map_iff in Hxin as (e & <- & He). split.
        + apply (di_inU U _ _ Hd). eapply chain_in; eassumption.
        + rewrite <- HrnL. apply (di_above U (R a) U_id U_up _ Hd _ _ Hcp e He).
      - pose proof (inv_linked U (R a) cfg s Fin S _ _ HI Hcp) as H. rewrite tipid_tip, <- libblk_tip0 in H. exact H.
      - destruct p as [|et p' _] using rev_ind.
        + apply chain_nil_inv in Hcp. unfold tip. cbn. rewrite Hcp, Hlib. reflexivity.
        + destruct (chain_top _ _ _ _ _ Hcp) as [_ Hk]. rewrite map_app. cbn [map]. rewrite tip_snoc. exact Hk.
      - eapply Forall_impl; [|exact Hfin]. cbn beta. intros x [H1 H2]. split; [exact H1 | lia].
    Qed.

    (* the head's complete segment *)
    Lemma post_segment hd sg reach : last_sent s = Some hd -> complete_segment (db s) (bref hd) = Some (sg, reach) ->
      good_seg sg /\ seg_stored (db s) sg /\ Forall (fun x => In (seg_blk x) U) sg /\
      exists pre z, sg = pre ++ [z] /\ sid z = bid hd.
    Proof.
      intros Hls E. pose proof (inv_wf_state a s Fin S Ha HI) as W.
      destruct (c09_head_segment_proof s hd sg reach W Hls E) as (Hstd & Hlk & Hinc & Hnd & Hst & Htop).
      split; [constructor; assumption|]. split; [exact Hst|]. split.
      - apply Forall_forall. intros x Hx. pose proof (Hst x Hx) as Hf. apply find_some in Hf as [Hin _].
        apply (di_inU U _ _ (i_db U _ _ _ _ _ HI)). exact Hin.
      - destruct sg as [|z sg0 _] using rev_ind.
        + exfalso. pose proof (complete_segment_segment_of _ _ _ _ E) as [_ _ _ Hmax _]. cbn [seg_bottom bref ri] in Hmax.
          destruct post_head as (hd' & p & Hls' & HhU & Hcp & _). rewrite Hls in Hls'. injection Hls' as <-.
          destruct p as [|et p' _] using rev_ind.
          * apply chain_nil_inv in Hcp. rewrite Hcp in Hmax.
            pose proof (di_num U _ _ (i_db U _ _ _ _ _ HI)) as Hnum. unfold num_of in Hnum. rewrite Hmax in Hnum.
            rewrite (po_extra U cfg a s Fin S c HP) in Hnum. discriminate.
          * destruct (chain_top _ _ _ _ _ Hcp) as [Hf _]. congruence.
        + exists sg0, z. split; [reflexivity|]. apply (Htop sg0 z eq_refl).
    Qed.

    (* where the cursor LIB block L sits on the segment, and what lies above it *)
    Lemma above_lib_part hd sg reach P F0 :
      last_sent s = Some hd -> complete_segment (db s) (bref hd) = Some (sg, reach) ->
      Fin = P ++ F0 -> In (libblk a P) U ->
      linked (bid (libblk a P)) F0 -> Forall (fun x => In x U /\ bnum (libblk a P) < bnum x) F0 ->
      block_in (bid (libblk a P)) sg = true ->
      exists lo xL hi p, sg = lo ++ xL :: hi /\ seg_blk xL = libblk a P /\ snum xL = bnum (libblk a P) /\
        sid xL = bid (libblk a P) /\
        S = rev (Fin ++ map eb p) /\ map seg_blk hi = F0 ++ map eb p /\
        Forall (fun x => In x U /\ bnum (libblk a Fin) < bnum x) (map eb p) /\
        (forall y, In y lo -> snum y < bnum (libblk a P)) /\ (forall y, In y hi -> bnum (libblk a P) < snum y) /\
        Forall seg_std (xL :: hi) /\ linked (bid (libblk a P)) (map seg_blk hi) /\
        StronglySorted blt (map seg_blk hi).
    Proof.
      intros Hls E HF HLU Hl0 HF0 Hin. set (L := libblk a P) in *.
      destruct (post_segment hd sg reach Hls E) as (Hgood & Hst & HsU & pre & z & Hsg & Hz).
      destruct post_head as (hd' & p & Hls' & HhU & Hcp & HS & HpU & Hlp & Htp & HFin). rewrite Hls in Hls'. injection Hls' as <-.
      apply block_in_spec in Hin as (xL & HxL & HsL). apply in_split in HxL as (lo & hi & Hsplit).
      destruct (good_seg_split sg lo xL hi Hgood Hsplit) as (Hlo & Hhi & Hstd & Hlk).
      assert (HxLin : In xL sg) by (rewrite Hsplit; apply in_or_app; right; left; reflexivity).
      pose proof (Forall_inv Hstd) as [HxL1 HxL2].
      assert (HbL : seg_blk xL = L).
      { apply U_uniq; [rewrite Forall_forall in HsU; apply HsU; exact HxLin | exact HLU | congruence]. }
      assert (HnL : snum xL = bnum L) by (rewrite HxL2, HbL; reflexivity).
      assert (HhiU : Forall (fun y => In y U) (map seg_blk hi)).
      { apply Forall_forall. intros y Hy. apply in_map_iff in Hy as (x & <- & Hx). rewrite Forall_forall in HsU. apply HsU.
        rewrite Hsplit. apply in_or_app. right. right. exact Hx. }
      assert (Hlhi : linked (bid L) (map seg_blk hi)) by (rewrite <- HsL; apply seg_linked; assumption).
      (* the other description: the rest of the final part and the pending chain *)
      assert (Htip0 : tip (bid L) F0 = bid (libblk a Fin)) by (rewrite HF; symmetry; apply libblk_tip).
      assert (HlG : linked (bid L) (F0 ++ map eb p)).
      { apply linked_app_iff. split; [exact Hl0|]. rewrite Htip0. exact Hlp. }
      assert (HGU : Forall (fun y => In y U) (F0 ++ map eb p)).
      { apply Forall_app. split; [eapply Forall_impl; [|exact HF0] | eapply Forall_impl; [|exact HpU]]; cbn beta; tauto. }
      assert (HtG : tip (bid L) (F0 ++ map eb p) = bid hd) by (rewrite tip_app, Htip0; exact Htp).
      assert (HtH : tip (bid L) (map seg_blk hi) = bid hd).
      { destruct hi as [|zh hi' _] using rev_ind.
        - assert (pre = lo /\ z = xL) as [_ ->] by (apply last_snoc_eq; rewrite <- Hsg; exact Hsplit).
          unfold tip. cbn. congruence.
        - assert (z = zh).
          { assert (Heq : pre ++ [z] = (lo ++ xL :: hi') ++ [zh]) by (rewrite <- Hsg, Hsplit, <- app_assoc; reflexivity).
            apply last_snoc_eq in Heq. tauto. }
          subst zh. rewrite map_app. cbn [map]. rewrite tip_snoc.
          apply Forall_inv_tail in Hstd. apply Forall_app in Hstd as [_ Hstd]. destruct (Forall_inv Hstd) as [Hz1 _]. congruence. }
      assert (HH : map seg_blk hi = F0 ++ map eb p).
      { apply (linked_unique_tip U U_id U_uniq U_up _ _ (bid L)); try assumption. congruence. }
      exists lo, xL, hi, p. split; [exact Hsplit|]. split; [exact HbL|]. split; [exact HnL|]. split; [exact HsL|].
      split; [exact HS|]. split; [exact HH|]. split; [exact HpU|].
      split; [intros y Hy; rewrite <- HnL; apply Hlo; exact Hy|].
      split; [intros y Hy; rewrite <- HnL; apply Hhi; exact Hy|].
      split; [exact Hstd|]. split; [exact Hlhi|].
      apply (linked_sorted U U_id U_uniq U_up _ _ Hlhi HhiU).
    Qed.
  End AtState.
End Life.
