(* The life of a cursor: a New / Undo event delivered by a Forkable in hub configuration, the consumer right
   after it (Proofs/Hub/HubInv.CurAt), and a later state of the same run (HubInv.Post whose final part extends
   the consumer's): the hypotheses of the single-state C05 theorems hold there, and the burst answered for the
   event's cursor takes that consumer to the never-disconnected consumer of the later state. *)
From Coq Require Import Sorted.
From BV Require Import Base.Prelude Model.Block Model.ForkDB Model.Forkable Model.ForkableLookups Model.Burst Model.Hub
  Spec.Consumer Spec.Universe Check.Fk_Check Check.Burst_Check Spec.C09_Spec Spec.C05_Spec Spec.C05_Through_Spec Spec.C05_History_Spec
  Proofs.C09_Store Proofs.C09_Segment Proofs.C09_Proofs Proofs.C05_Fast Proofs.C05_Forked Proofs.C05_Final
  Proofs.Fk.StoreFacts Proofs.Fk.WalkFacts Proofs.Fk.LoopFacts Proofs.Fk.StoreChange Proofs.Fk.SwitchFacts
  Proofs.Fk.FixedLib Proofs.Fk.MovingLibStore Proofs.Fk.MovingLibWalk Proofs.Fk.MovingLibLoops
  Proofs.Fk.MovingLibInv Proofs.Fk.MovingLibFin Proofs.Fk.MovingLibDisc
  Proofs.Hub.StepFields Proofs.Hub.ConsFacts Proofs.Hub.StepStore Proofs.Hub.Retention Proofs.Hub.HubInv Proofs.Hub.LinkedRuns.
Local Open Scope N_scope.

(* ---------- filters by number on increasing lists ---------- *)

Definition upto (n : N) (l : list block) : list block := filter (fun b => bnum b <=? n) l.
Definition under (n : N) (l : list block) : list block := filter (fun b => bnum b <? n) l.

Lemma filter_rev_len {A} (f : A -> bool) l : length (filter f (rev l)) = length (filter f l).
Proof.
  induction l as [|x l IH]; [reflexivity|]. cbn [rev filter]. rewrite filter_app, app_length, IH. cbn [filter].
  destruct (f x); cbn [length]; lia.
Qed.

Lemma upto_all n l : Forall (fun x => bnum x <= n) l -> upto n l = l.
Proof. intros H. apply filter_all. rewrite Forall_forall in H. intros y Hy. apply N.leb_le. apply H. exact Hy. Qed.

Lemma upto_none n l : Forall (fun x => n < bnum x) l -> upto n l = [].
Proof. intros H. apply filter_none. rewrite Forall_forall in H. intros y Hy. apply N.leb_gt. apply H. exact Hy. Qed.

Lemma under_none n l : Forall (fun x => n <= bnum x) l -> under n l = [].
Proof. intros H. apply filter_none. rewrite Forall_forall in H. intros y Hy. apply N.ltb_ge. apply H. exact Hy. Qed.

Lemma sorted_split A t B : StronglySorted blt (A ++ t :: B) ->
  Forall (fun x => bnum x < bnum t) A /\ Forall (fun x => bnum t < bnum x) B.
Proof.
  intros H. destruct (StronglySorted_split blt A t B H) as [H1 H2]. split; apply Forall_forall; assumption.
Qed.

Lemma upto_split A t B : StronglySorted blt (A ++ t :: B) -> upto (bnum t) (A ++ t :: B) = A ++ [t].
Proof.
  intros H. destruct (sorted_split A t B H) as [HA HB]. unfold upto. rewrite filter_app. cbn [filter].
  replace (bnum t <=? bnum t) with true by (symmetry; apply N.leb_refl).
  fold (upto (bnum t) A) (upto (bnum t) B). rewrite upto_all, upto_none; [reflexivity | exact HB|].
  eapply Forall_impl; [|exact HA]. cbn beta. intros; lia.
Qed.

Lemma under_split A t B : StronglySorted blt (A ++ t :: B) -> under (bnum t) (A ++ t :: B) = A.
Proof.
  intros H. destruct (sorted_split A t B H) as [HA HB]. unfold under. rewrite filter_app. cbn [filter].
  replace (bnum t <? bnum t) with false by (symmetry; apply N.ltb_irrefl).
  fold (under (bnum t) B). rewrite under_none; [|eapply Forall_impl; [|exact HB]; cbn beta; intros; lia].
  rewrite app_nil_r. apply filter_all. rewrite Forall_forall in HA. intros y Hy. apply N.ltb_lt. apply HA. exact Hy.
Qed.

Lemma filter_map_std (f : N -> bool) l : Forall seg_std l ->
  map seg_blk (filter (fun x => f (snum x)) l) = filter (fun b => f (bnum b)) (map seg_blk l).
Proof.
  induction 1 as [|x l Hx Hl IH]; [reflexivity|]. cbn [filter map]. destruct Hx as [_ Hn]. rewrite Hn.
  destruct (f (bnum (seg_blk x))); cbn [map]; rewrite IH; reflexivity.
Qed.

Lemma filter_ext_in' {A} (f g : A -> bool) l : (forall x, In x l -> f x = g x) -> filter f l = filter g l.
Proof.
  induction l as [|x l IH]; intros H; [reflexivity|]. cbn [filter]. rewrite (H x (or_introl eq_refl)).
  rewrite IH; [reflexivity|]. intros y Hy. apply H. right. exact Hy.
Qed.

(* not_held as a threshold *)
Lemma not_held_thr c x : negb (not_held c x) =
  if is_undo c then snum x <? rn (cu_blk c) else snum x <=? rn (cu_blk c).
Proof.
  unfold not_held. destruct (is_undo c); cbn [andb].
  - destruct (N.ltb_spec (rn (cu_blk c)) (snum x)); destruct (N.eqb_spec (snum x) (rn (cu_blk c)));
      destruct (N.ltb_spec (snum x) (rn (cu_blk c))); cbn; try reflexivity; lia.
  - rewrite orb_false_r. destruct (N.ltb_spec (rn (cu_blk c)) (snum x)); destruct (N.leb_spec (snum x) (rn (cu_blk c)));
      cbn; try reflexivity; lia.
Qed.

Section Life.
  Variable U : list block.
  Variable cfg : config.

  Hypothesis U_id : forall b, In b U -> bid b <> 0 /\ bid b <> bparent b.
  Hypothesis U_uniq : forall x y, In x U -> In y U -> bid x = bid y -> x = y.
  Hypothesis U_up : forall x y, In x U -> In y U -> bparent x = bid y -> bnum y < bnum x.

  Notation in_U := (in_U U).
  Notation IInv a := (Inv U (R a) cfg).

  (* ---------- the states of the invariant are well formed in the sense of C09 ---------- *)

  Lemma inv_wf_state a s Fin S : In a U -> IInv a s Fin S -> wf_state s.
  Proof.
    intros Ha [Hd Hfin Hl Hh]. pose proof Hd as [Hnd HU Hcoh Hnum Hex Hlc].
    constructor.
    - split.
      + constructor.
        * exact Hnd.
        * intros e He. apply (U_id (eb e)). apply HU. exact He.
        * intros e p He Hp Hk. apply (U_up (eb e) (eb p)); [apply HU; exact He | apply HU; exact Hp | symmetry; exact Hk].
      + intros r Hr. destruct Hex as [Hex|Hex]; rewrite Hex in Hr; [discriminate|]. injection Hr as <-.
        apply (di_lid U _ _ Hd).
    - intros hd e Hls Hf. rewrite Hls in Hh. destruct Hh as [HhU _].
      rewrite (stored_is_self U U_uniq _ _ _ HU HhU Hf). reflexivity.
  Qed.

  (* ---------- the branch of a block off the segment, walked in the universe ---------- *)

  Lemma branch_shape d sg Lid : in_U (store d) -> block_in Lid sg = true ->
    forall Q' path j, linked Lid Q' -> Forall (fun x => In x U) Q' -> Q' <> [] ->
      branch_to d sg (tip Lid Q') path j ->
      exists Q1 Q2, Q' = Q1 ++ Q2 /\ map seg_blk (rev path) = Q2 /\ Q2 <> [] /\ j = tip Lid Q1.
  Proof.
    intros HU HL. induction Q' as [|t Q'' IH] using rev_ind; intros path j Hl HQ Hne B; [congruence|].
    rewrite tip_snoc in B. pose proof (linked_mid _ _ _ _ Hl) as Hpar.
    apply Forall_app in HQ as [HQ'' Ht]. pose proof (Forall_inv Ht) as HtU. cbn beta in HtU.
    inversion B as [id e Hf Hin E1 E2 E3|id e l j' Hf Hin B' E1 E2 E3]; subst.
    - pose proof (stored_is_self U U_uniq _ _ _ HU HtU Hf) as Ee.
      exists Q'', [t]. split; [reflexivity|]. split; [cbn [rev app map]; unfold seg_blk; cbn [sent]; rewrite Ee; reflexivity|]. split; [discriminate|].
      rewrite Ee. exact Hpar.
    - pose proof (stored_is_self U U_uniq _ _ _ HU HtU Hf) as Ee. rewrite Ee, Hpar in Hin, B'.
      destruct Q'' as [|t0 Q0] eqn:EQ.
      { unfold tip in Hin. cbn in Hin. congruence. }
      rewrite <- EQ in *.
      destruct (IH l j (linked_prefix _ _ _ Hl) HQ'') as (Q1 & Q2 & HQ12 & Hmap & Hne2 & Hj); [rewrite EQ; discriminate | exact B'|].
      exists Q1, (Q2 ++ [t]). split; [rewrite HQ12, app_assoc; reflexivity|]. split.
      + cbn [rev]. rewrite map_app, Hmap. cbn [map]. unfold seg_blk at 1. cbn [sent]. rewrite Ee. reflexivity.
      + split; [destruct Q2; discriminate | exact Hj].
  Qed.

  (* the branch exists when the universe chain of the block is stored *)
  Lemma branch_exists d sg Lid : in_U (store d) -> NoDup (keys (store d)) -> block_in Lid sg = true ->
    forall Q', linked Lid Q' -> Forall (fun x => In x U) Q' -> Forall (fun x => In x (map eb (store d))) Q' -> Q' <> [] ->
      exists path j, branch_to d sg (tip Lid Q') path j.
  Proof.
    intros HU Hnd HL. induction Q' as [|t Q'' IH] using rev_ind; intros Hl HQ Hst Hne; [congruence|].
    rewrite tip_snoc. pose proof (linked_mid _ _ _ _ Hl) as Hpar.
    apply Forall_app in HQ as [HQ'' Ht]. apply Forall_app in Hst as [Hst'' Hstt].
    pose proof (Forall_inv Hstt) as Htin. cbn beta in Htin. apply in_map_iff in Htin as (e & Ee & Hein).
    assert (Hf : find (bid t) (store d) = Some e).
    { rewrite <- Ee. exact (find_in_nodup _ _ Hnd Hein). }
    destruct (block_in (bparent (eb e)) sg) eqn:Hin.
    - eexists. eexists. eapply bt_last; eassumption.
    - destruct Q'' as [|t0 Q0] eqn:EQ.
      { exfalso. rewrite Ee, Hpar in Hin. unfold tip in Hin. cbn in Hin. congruence. }
      rewrite <- EQ in *.
      destruct (IH (linked_prefix _ _ _ Hl) HQ'' Hst'') as (path & j & B); [rewrite EQ; discriminate|].
      rewrite <- Hpar, <- Ee in B. eexists. eexists. eapply bt_step; eassumption.
  Qed.

  (* ---------- one state: the segment of the head against the invariant ---------- *)

  Section AtState.
    Variables (a : block) (s : fstate) (Fin : list block) (S : cstack) (c : cons).
    Hypothesis HP : Post U cfg a s Fin S c.

    Let Ha : In a U := po_a U cfg a s Fin S c HP.
    Let HI : IInv a s Fin S := po_inv U cfg a s Fin S c HP.

    Lemma post_head : exists hd p, last_sent s = Some hd /\ In hd U /\
      chain (store (db s)) (bid hd) (ri (libref (db s))) p /\ S = rev (Fin ++ map eb p) /\
      Forall (fun x => In x U /\ bnum (libblk a Fin) < bnum x) (map eb p) /\
      linked (bid (libblk a Fin)) (map eb p) /\
      tip (bid (libblk a Fin)) (map eb p) = bid hd /\
      Forall (fun x => In x U /\ bnum x <= bnum (libblk a Fin)) Fin.
    Proof.
      pose proof HI as [Hd Hfin Hl Hh]. destruct (inv_lib U cfg a s Fin S Ha HI) as [HLU Hlib].
      destruct (last_sent s) as [hd|] eqn:Els.
      2:{ destruct Hh as (HS0 & _). exfalso. exact (po_ne U cfg a s Fin S c HP HS0). }
      destruct Hh as (HhU & p & Hcp & HS & _). exists hd, p.
      split; [reflexivity|]. split; [exact HhU|]. split; [exact Hcp|]. split; [exact HS|].
      assert (HrnL : rn (libref (db s)) = bnum (libblk a Fin)) by (rewrite Hlib; reflexivity).
      split; [|split; [|split]].
      - apply Forall_forall. intros x Hxin. apply in_map_iff in Hxin as (e & <- & He). split.
        + apply (di_inU U _ _ Hd). eapply chain_in; eassumption.
        + rewrite <- HrnL. apply (di_above U (R a) U_id U_up _ Hd _ _ Hcp e He).
      - pose proof (inv_linked U (R a) cfg s Fin S _ _ HI Hcp) as H. rewrite tipid_tip, <- libblk_tip0 in H. exact H.
      - destruct p as [|et p' _] using rev_ind.
        + apply chain_nil_inv in Hcp. unfold tip. cbn. rewrite Hcp, Hlib. reflexivity.
        + destruct (chain_top _ _ _ _ _ Hcp) as [_ Hk]. rewrite map_app. cbn [map]. rewrite tip_snoc. exact Hk.
      - eapply Forall_impl; [|exact Hfin]. cbn beta. intros x [H1 H2]. split; [exact H1 | lia].
    Qed.

    (* the head's complete segment *)
    Lemma post_segment hd sg reach : last_sent s = Some hd -> complete_segment (db s) (bref hd) = Some (sg, reach) ->
      good_seg sg /\ seg_stored (db s) sg /\ Forall (fun x => In (seg_blk x) U) sg /\
      exists pre z, sg = pre ++ [z] /\ sid z = bid hd.
    Proof.
      intros Hls E. pose proof (inv_wf_state a s Fin S Ha HI) as W.
      destruct (c09_head_segment_proof s hd sg reach W Hls E) as (Hstd & Hlk & Hinc & Hnd & Hst & Htop).
      split; [constructor; assumption|]. split; [exact Hst|]. split.
      - apply Forall_forall. intros x Hx. pose proof (Hst x Hx) as Hf. apply find_some in Hf as [Hin _].
        apply (di_inU U _ _ (i_db U _ _ _ _ _ HI)). exact Hin.
      - destruct sg as [|z sg0 _] using rev_ind.
        + exfalso. pose proof (complete_segment_segment_of _ _ _ _ E) as [_ _ _ Hmax _]. cbn [seg_bottom bref ri] in Hmax.
          destruct post_head as (hd' & p & Hls' & HhU & Hcp & _). rewrite Hls in Hls'. injection Hls' as <-.
          destruct p as [|et p' _] using rev_ind.
          * apply chain_nil_inv in Hcp. rewrite Hcp in Hmax.
            pose proof (di_num U _ _ (i_db U _ _ _ _ _ HI)) as Hnum. unfold num_of in Hnum. rewrite Hmax in Hnum.
            rewrite (po_extra U cfg a s Fin S c HP) in Hnum. discriminate.
          * destruct (chain_top _ _ _ _ _ Hcp) as [Hf _]. congruence.
        + exists sg0, z. split; [reflexivity|]. apply (Htop sg0 z eq_refl).
    Qed.

    (* where the cursor LIB block L sits on the segment, and what lies above it *)
    Lemma above_lib_part hd sg reach P F0 :
      last_sent s = Some hd -> complete_segment (db s) (bref hd) = Some (sg, reach) ->
      Fin = P ++ F0 -> In (libblk a P) U ->
      linked (bid (libblk a P)) F0 -> Forall (fun x => In x U /\ bnum (libblk a P) < bnum x) F0 ->
      block_in (bid (libblk a P)) sg = true ->
      exists lo xL hi p, sg = lo ++ xL :: hi /\ seg_blk xL = libblk a P /\ snum xL = bnum (libblk a P) /\
        sid xL = bid (libblk a P) /\
        S = rev (Fin ++ map eb p) /\ map seg_blk hi = F0 ++ map eb p /\
        Forall (fun x => In x U /\ bnum (libblk a Fin) < bnum x) (map eb p) /\
        (forall y, In y lo -> snum y < bnum (libblk a P)) /\ (forall y, In y hi -> bnum (libblk a P) < snum y) /\
        Forall seg_std (xL :: hi) /\ linked (bid (libblk a P)) (map seg_blk hi) /\
        StronglySorted blt (map seg_blk hi).
    Proof.
      intros Hls E HF HLU Hl0 HF0 Hin. set (L := libblk a P) in *.
      destruct (post_segment hd sg reach Hls E) as (Hgood & Hst & HsU & pre & z & Hsg & Hz).
      destruct post_head as (hd' & p & Hls' & HhU & Hcp & HS & HpU & Hlp & Htp & HFin). rewrite Hls in Hls'. injection Hls' as <-.
      apply block_in_spec in Hin as (xL & HxL & HsL). apply in_split in HxL as (lo & hi & Hsplit).
      destruct (good_seg_split sg lo xL hi Hgood Hsplit) as (Hlo & Hhi & Hstd & Hlk).
      assert (HxLin : In xL sg) by (rewrite Hsplit; apply in_or_app; right; left; reflexivity).
      pose proof (Forall_inv Hstd) as [HxL1 HxL2].
      assert (HbL : seg_blk xL = L).
      { apply U_uniq; [rewrite Forall_forall in HsU; apply HsU; exact HxLin | exact HLU | congruence]. }
      assert (HnL : snum xL = bnum L) by (rewrite HxL2, HbL; reflexivity).
      assert (HhiU : Forall (fun y => In y U) (map seg_blk hi)).
      { apply Forall_forall. intros y Hy. apply in_map_iff in Hy as (x & <- & Hx). rewrite Forall_forall in HsU. apply HsU.
        rewrite Hsplit. apply in_or_app. right. right. exact Hx. }
      assert (Hlhi : linked (bid L) (map seg_blk hi)) by (rewrite <- HsL; apply seg_linked; assumption).
      (* the other description: the rest of the final part and the pending chain *)
      assert (Htip0 : tip (bid L) F0 = bid (libblk a Fin)) by (rewrite HF; symmetry; apply libblk_tip).
      assert (HlG : linked (bid L) (F0 ++ map eb p)).
      { apply linked_app_iff. split; [exact Hl0|]. rewrite Htip0. exact Hlp. }
      assert (HGU : Forall (fun y => In y U) (F0 ++ map eb p)).
      { apply Forall_app. split; [eapply Forall_impl; [|exact HF0] | eapply Forall_impl; [|exact HpU]]; cbn beta; tauto. }
      assert (HtG : tip (bid L) (F0 ++ map eb p) = bid hd) by (rewrite tip_app, Htip0; exact Htp).
      assert (HtH : tip (bid L) (map seg_blk hi) = bid hd).
      { destruct hi as [|zh hi' _] using rev_ind.
        - assert (pre = lo /\ z = xL) as [_ ->] by (apply last_snoc_eq; rewrite <- Hsg; exact Hsplit).
          unfold tip. cbn. congruence.
        - assert (z = zh).
          { assert (Heq : pre ++ [z] = (lo ++ xL :: hi') ++ [zh]) by (rewrite <- Hsg, Hsplit, <- app_assoc; reflexivity).
            apply last_snoc_eq in Heq. tauto. }
          subst zh. rewrite map_app. cbn [map]. rewrite tip_snoc.
          apply Forall_inv_tail in Hstd. apply Forall_app in Hstd as [_ Hstd]. destruct (Forall_inv Hstd) as [Hz1 _]. congruence. }
      assert (HH : map seg_blk hi = F0 ++ map eb p).
      { apply (linked_unique_tip U U_id U_uniq U_up _ _ (bid L)); try assumption. congruence. }
      exists lo, xL, hi, p. split; [exact Hsplit|]. split; [exact HbL|]. split; [exact HnL|]. split; [exact HsL|].
      split; [exact HS|]. split; [exact HH|]. split; [exact HpU|].
      split; [intros y Hy; rewrite <- HnL; apply Hlo; exact Hy|].
      split; [intros y Hy; rewrite <- HnL; apply Hhi; exact Hy|].
      split; [exact Hstd|]. split; [exact Hlhi|].
      apply (linked_sorted U U_id U_uniq U_up _ _ Hlhi HhiU).
    Qed.

    Lemma last_of_app {A} (P0 Q0 l0 : list A) x : P0 ++ Q0 = l0 ++ [x] -> Q0 <> [] -> exists Q1, Q0 = Q1 ++ [x].
    Proof.
      intros H Hne. destruct Q0 as [|y Q1 _] using rev_ind; [congruence|]. rewrite app_assoc in H.
      apply last_snoc_eq in H as [_ ->]. exists Q1. reflexivity.
    Qed.

    (* what the single-state C05 theorems (c05_fast_path_consumer_partial, c05_forked_path, c05_resume_partial,
       c05_serves) assume, for the cursor of the event e in this state *)
    Definition MeetsHyps (e : event) (ck : cons) (P Q : list block) (hd : block) (sg : list seg) : Prop :=
      C05_meets s S (length Fin) e ck P Q hd sg.

    Lemma cursor_meets e ck P Q F0 hd sg :
      CurAt U a e ck P Q (libblk a P) -> Fin = P ++ F0 ->
      linked (bid (libblk a P)) F0 -> Forall (fun x => In x U /\ bnum (libblk a P) < bnum x) F0 ->
      nu e ->
      last_sent s = Some hd -> complete_segment (db s) (bref hd) = Some (sg, true) ->
      block_in (ri (elib e)) sg = true ->
      MeetsHyps e ck P Q hd sg.
    Proof.
      intros [Hstack HLU Helib HPf HQf Hlq Hbk Hcb Hnew Hundo] HF Hl0 HF0 Hnu Hls E Hlibin0.
      unfold MeetsHyps, C05_meets. cbv zeta.
      set (L := libblk a P) in *. set (cur := ev_cursor e) in *.
      assert (Hcl : cu_lib cur = bref L) by exact Helib.
      assert (Hcbk : cu_blk cur = bref (eblk e)) by exact Hcb.
      assert (Hcs : cu_step cur = estep e) by reflexivity.
      destruct post_head as (hd' & p0 & Hls' & HhU & _ & _ & _ & _ & _ & HFin).
      rewrite Hls in Hls'. injection Hls' as <-.
      pose proof (inv_wf_state a s Fin S Ha HI) as W. pose proof W as [[Wst _] _].
      pose proof (i_db U _ _ _ _ _ HI) as Hd. pose proof (di_inU U _ _ Hd) as HinU.
      assert (Hlibin : block_in (ri (cu_lib cur)) sg = true) by exact Hlibin0.
      assert (HlibinL : block_in (bid L) sg = true) by (rewrite Hcl in Hlibin; exact Hlibin).
      destruct (above_lib_part hd sg true P F0 Hls E HF HLU Hl0 HF0 HlibinL)
        as (lo & xL & hi & p & Hsplit & HbL & HnL & HsL & HS & HH & HpU & Hlo & Hhi & Hstd & Hlhi & Hsorted).
      destruct (post_segment hd sg true Hls E) as (Hgood & Hst & HsU & _).
      change (libblk a P) with L in HbL, HnL, HsL, Hlo, Hhi, Hlhi.
      set (H := map seg_blk hi) in *.
      assert (HstdH : Forall seg_std hi) by (exact (Forall_inv_tail Hstd)).
      assert (HHU : Forall (fun y => In y U) H).
      { apply Forall_forall. intros y Hy. apply in_map_iff in Hy as (x & <- & Hx). rewrite Forall_forall in HsU. apply HsU.
        rewrite Hsplit. apply in_or_app. right. right. exact Hx. }
      assert (HHab : Forall (fun y => bnum L < bnum y) H).
      { apply Forall_forall. intros y Hy. apply in_map_iff in Hy as (x & <- & Hx). rewrite Forall_forall in HstdH.
        destruct (HstdH x Hx) as [_ Hn]. rewrite <- Hn. apply Hhi. exact Hx. }
      (* everything above the cursor LIB *)
      assert (Habove : forall c', cu_lib c' = cu_lib cur -> above_seg c' sg = hi).
      { intros c' Hc'. unfold above_seg, above_clib. rewrite Hc', Hcl. cbn [bref rn]. rewrite Hsplit, filter_app. cbn [filter].
        destruct (N.ltb_spec (bnum L) (snum xL)) as [Hcx|Hcx]; [exfalso; lia|].
        rewrite filter_none, filter_all; [reflexivity | |].
        - intros y Hy. apply N.ltb_lt. apply Hhi. exact Hy.
        - intros y Hy. apply N.ltb_ge. specialize (Hlo y Hy). lia. }
      assert (Hnfin : length (filter (final_now s) hi) = length F0).
      { destruct (inv_lib U cfg a s Fin S Ha HI) as [_ Hlib].
        rewrite <- (map_length seg_blk).
        rewrite (filter_ext_in' (final_now s) (fun x => (fun n => n <=? bnum (libblk a Fin)) (snum x))).
        2:{ intros x _. unfold final_now. rewrite Hlib. reflexivity. }
        rewrite (filter_map_std (fun n => n <=? bnum (libblk a Fin)) hi HstdH). fold H. rewrite HH.
        fold (upto (bnum (libblk a Fin)) (F0 ++ map eb p)). unfold upto. rewrite filter_app.
        fold (upto (bnum (libblk a Fin)) F0) (upto (bnum (libblk a Fin)) (map eb p)).
        rewrite upto_all, upto_none, app_nil_r; [reflexivity | |].
        - eapply Forall_impl; [|exact HpU]. cbn beta. tauto.
        - apply Forall_forall. intros x0 Hx0. rewrite Forall_forall in HFin.
          assert (Hin0 : In x0 Fin) by (rewrite HF; apply in_or_app; right; exact Hx0).
          destruct (HFin x0 Hin0) as [_ G]. exact G. }
      (* the consumer at the cursor *)
      assert (Hck : length (filter (fun b => bnum b <=? rn (elib e)) (cs_stack ck)) = length P).
      { rewrite Hstack, filter_rev_len, filter_app, app_length, Helib. cbn [bref rn].
        fold (upto (bnum L) P) (upto (bnum L) Q). rewrite upto_all, upto_none; [cbn [length]; lia | |].
        - eapply Forall_impl; [|exact HQf]. cbn beta. tauto.
        - eapply Forall_impl; [|exact HPf]. cbn beta. tauto. }
      assert (Htarget : rev (P ++ map seg_blk hi) = S).
      { fold H. rewrite HH, HS, HF, <- !app_assoc. reflexivity. }
      assert (Hlen : (length P + length F0)%nat = length Fin) by (rewrite HF, app_length; reflexivity).
      assert (Hlinks0 : stack_links P hi).
      { unfold stack_links. destruct (rev P) as [|pl r] eqn:EP; [exact I|].
        assert (pl = L) by (unfold L, libblk; rewrite EP; reflexivity). subst pl.
        pose proof Hlhi as Hl2. unfold H in Hl2. clear -Hl2. destruct hi as [|x hi']; [exact I|].
        cbn [map linked] in Hl2. tauto. }
      (* a block above L whose id is on the segment sits in hi *)
      assert (Honhi : forall B, In B U -> bnum L < bnum B -> block_in (bid B) sg = true ->
                exists h1 xb h2, hi = h1 ++ xb :: h2 /\ H = map seg_blk h1 ++ B :: map seg_blk h2).
      { intros B HBU HBn HBin. apply block_in_spec in HBin as (xb & Hxb & Hsb).
        assert (Hbb : seg_blk xb = B).
        { apply U_uniq; [rewrite Forall_forall in HsU; apply HsU; exact Hxb | exact HBU|].
          destruct Hgood as [Hgs _ _ _]. rewrite Forall_forall in Hgs. destruct (Hgs xb Hxb) as [G1 _]. congruence. }
        assert (Hnb : snum xb = bnum B).
        { destruct Hgood as [Hgs _ _ _]. rewrite Forall_forall in Hgs. destruct (Hgs xb Hxb) as [_ G2]. congruence. }
        rewrite Hsplit in Hxb. apply in_app_or in Hxb as [Hxb|[Hxb|Hxb]].
        - specialize (Hlo xb Hxb). lia.
        - subst xb. lia.
        - apply in_split in Hxb as (h1 & h2 & ->). exists h1, xb, h2. split; [reflexivity|].
          unfold H. rewrite map_app. cbn [map]. rewrite Hbb. reflexivity. }
      (* a run from L ending with a block of hi is the beginning of hi *)
      assert (Hbegin : forall Q0 B h1 h2, H = map seg_blk h1 ++ B :: map seg_blk h2 ->
                linked (bid L) (Q0 ++ [B]) -> Forall (fun y => In y U) (Q0 ++ [B]) -> Q0 = map seg_blk h1).
      { intros Q0 B h1 h2 HHs Hlk0 HU0. apply (linked_unique U U_id U_uniq U_up Q0 (map seg_blk h1) (bid L) B); try assumption.
        - rewrite HHs in Hlhi. change (B :: map seg_blk h2) with ([B] ++ map seg_blk h2) in Hlhi. rewrite app_assoc in Hlhi.
          eapply linked_prefix. exact Hlhi.
        - rewrite HHs in HHU. change (B :: map seg_blk h2) with ([B] ++ map seg_blk h2) in HHU. rewrite app_assoc in HHU.
          apply Forall_app in HHU. tauto. }
      assert (HQU : Forall (fun y => In y U) Q) by (eapply Forall_impl; [|exact HQf]; cbn beta; tauto).
      split; [exact W|]. split; [exact Hgood|]. split; [exact Hst|].
      split.
      { exists xL. split; [rewrite Hsplit; apply in_or_app; right; left; reflexivity|]. rewrite Hcl. cbn [bref ri rn]. auto. }
      split.
      { intros e0 He0. rewrite Hcbk in *. cbn [bref ri rn] in *.
        rewrite (stored_is_self U U_uniq _ _ _ HinU Hbk He0). reflexivity. }
      split; [exact Hstack|]. split; [exact Hck|].
      split; [rewrite (Habove cur eq_refl); exact Htarget|].
      split; [rewrite (Habove cur eq_refl), Hnfin; exact Hlen|].
      split.
      - (* the fast path *)
        intros Hblkin.
        assert (Hheld : map seg_blk (held_seg cur sg) = Q).
        { rewrite held_seg_eq, (Habove cur eq_refl).
          rewrite (filter_ext_in' _ (fun x => (fun n => if is_undo cur then n <? rn (cu_blk cur) else n <=? rn (cu_blk cur)) (snum x))).
          2:{ intros x _. apply not_held_thr. }
          rewrite (filter_map_std (fun n => if is_undo cur then n <? rn (cu_blk cur) else n <=? rn (cu_blk cur)) hi HstdH).
          fold H. rewrite Hcbk in *. cbn [bref ri rn] in *. unfold is_undo. rewrite Hcs.
          destruct Hnu as [HeN|HeU].
          - (* New *)
            rewrite HeN. cbn [matches_undo]. fold (upto (bnum (eblk e)) H).
            destruct (Hnew HeN) as [l0 Hl0'].
            destruct Q as [|q0 Q0] eqn:EQ.
            + rewrite app_nil_r in Hl0'.
              assert (HeL : eblk e = L) by (unfold L, libblk; rewrite Hl0', rev_app_distr; reflexivity).
              rewrite HeL. apply upto_none. exact HHab.
            + rewrite <- EQ in *. destruct (last_of_app _ _ _ _ Hl0') as [Q1 HQ1]; [rewrite EQ; discriminate|].
              assert (Hbn : bnum L < bnum (eblk e)).
              { rewrite HQ1 in HQf. apply Forall_app in HQf as [_ HQf]. destruct (Forall_inv HQf) as [_ G]. exact G. }
              destruct (Honhi (eblk e) Hbk Hbn Hblkin) as (h1 & xb & h2 & Hhi' & HHs).
              rewrite HHs. rewrite HHs in Hsorted. rewrite (upto_split _ _ _ Hsorted), HQ1. f_equal. symmetry.
              apply (Hbegin Q1 (eblk e) h1 h2 HHs); rewrite <- HQ1; assumption.
          - (* Undo *)
            rewrite HeU. cbn [matches_undo]. fold (under (bnum (eblk e)) H).
            destruct (Hundo HeU) as [Hpar Hbn].
            destruct (Honhi (eblk e) Hbk Hbn Hblkin) as (h1 & xb & h2 & Hhi' & HHs).
            rewrite HHs. rewrite HHs in Hsorted. rewrite (under_split _ _ _ Hsorted). symmetry.
            apply (linked_unique_tip U U_id U_uniq U_up Q (map seg_blk h1) (bid L)); try assumption.
            + rewrite HHs in Hlhi. eapply linked_prefix. exact Hlhi.
            + rewrite HHs in HHU. apply Forall_app in HHU. tauto.
            + rewrite <- Hpar. rewrite HHs in Hlhi. apply (linked_mid _ _ _ _ Hlhi). }
        split; [exact Hheld|]. intros _. rewrite (Habove cur eq_refl). exact Hlinks0.
      - (* the forked path *)
        intros Hblkin path j je Hbr0 Hje.
        destruct (c05_forked_path_proof s hd sg cur Wst Hst) as (_ & _ & Hwalk & _ & _).
        destruct (Hwalk path j Hbr0) as (_ & (x & rest & Hpath & Hsx & Hundos) & Hjin).
        pose proof Hbr0 as Hbr.
        rewrite Hcbk in Hblkin, Hbr, Hsx. cbn [bref ri] in Hblkin, Hbr, Hsx.
        (* the universe chain from L to the cursor block *)
        assert (HQ' : exists Q', linked (bid L) Q' /\ Forall (fun y => In y U) Q' /\ Q' <> [] /\ tip (bid L) Q' = bid (eblk e) /\
                   ((estep e = SNew /\ Q' = Q) \/ (estep e = SUndo /\ Q' = Q ++ [eblk e]))).
        { destruct Hnu as [HeN|HeU].
          - destruct (Hnew HeN) as [l0 Hl0'].
            destruct Q as [|q0 Q0] eqn:EQ.
            + exfalso. rewrite app_nil_r in Hl0'.
              assert (HeL : eblk e = L) by (unfold L, libblk; rewrite Hl0', rev_app_distr; reflexivity).
              rewrite HeL, HlibinL in Hblkin. discriminate.
            + rewrite <- EQ in *. destruct (last_of_app _ _ _ _ Hl0') as [Q1 HQ1]; [rewrite EQ; discriminate|].
              exists Q. split; [exact Hlq|]. split; [exact HQU|]. split; [rewrite EQ; discriminate|].
              split; [rewrite HQ1; apply tip_snoc | left; auto].
          - destruct (Hundo HeU) as [Hpar Hbn]. exists (Q ++ [eblk e]).
            split; [apply linked_app_iff; split; [exact Hlq | cbn [linked]; auto]|].
            split; [apply Forall_app; split; [exact HQU | constructor; [exact Hbk | constructor]]|].
            split; [destruct Q; discriminate|]. split; [apply tip_snoc | right; auto]. }
        destruct HQ' as (Q' & HlQ' & HUQ' & HneQ' & HtQ' & Hkind).
        rewrite <- HtQ' in Hbr.
        destruct (branch_shape (db s) sg (bid L) HinU HlibinL Q' path j HlQ' HUQ' HneQ' Hbr)
          as (Q1 & Q2 & HQ12 & Hmap & Hne2 & Hj).
        set (jc := junction_cursor hd cur (mkR j (bnum (eb je)))).
        assert (HQ1U : Forall (fun y => In y U) Q1 /\ linked (bid L) Q1).
        { rewrite HQ12 in HUQ', HlQ'. apply Forall_app in HUQ'. split; [tauto | eapply linked_prefix; exact HlQ']. }
        destruct HQ1U as [HQ1U HlQ1].
        assert (HQ1ab : Forall (fun y => bnum L < bnum y) Q1).
        { pose proof (linked_above U U_id U_uniq U_up Q1 L HLU HlQ1 HQ1U) as G. exact G. }
        (* the junction block *)
        assert (Hheld : map seg_blk (held_seg jc sg) = Q1).
        { rewrite held_seg_eq, (Habove jc eq_refl).
          rewrite (filter_ext_in' _ (fun x => (fun n => n <=? bnum (eb je)) (snum x))).
          2:{ intros x0 _. rewrite not_held_thr. reflexivity. }
          rewrite (filter_map_std (fun n => n <=? bnum (eb je)) hi HstdH). fold H. fold (upto (bnum (eb je)) H).
          destruct Q1 as [|J Q1' _] using rev_ind.
          - unfold tip in Hj. cbn in Hj. rewrite Hj, <- HsL in Hje.
            assert (HxLin : In xL sg) by (rewrite Hsplit; apply in_or_app; right; left; reflexivity).
            rewrite (Hst xL HxLin) in Hje. injection Hje as <-. fold (seg_blk xL). rewrite HbL. apply upto_none. exact HHab.
          - rewrite tip_snoc in Hj. apply Forall_app in HQ1U as [_ HJ]. pose proof (Forall_inv HJ) as HJU. cbn beta in HJU.
            apply Forall_app in HQ1ab as [_ HJa]. pose proof (Forall_inv HJa) as HJn. cbn beta in HJn.
            assert (HeJ : eb je = J).
            { apply U_uniq; [apply HinU; apply find_some in Hje; tauto | exact HJU|].
              apply find_some in Hje as [_ Hk]. rewrite <- Hj. exact Hk. }
            rewrite Hj in Hjin. destruct (Honhi J HJU HJn Hjin) as (h1 & xb & h2 & Hhi' & HHs).
            rewrite HeJ, HHs. rewrite HHs in Hsorted. rewrite (upto_split _ _ _ Hsorted). f_equal. symmetry.
            apply (Hbegin Q1' J h1 h2 HHs); [exact HlQ1|].
            rewrite HQ12 in HUQ'. apply Forall_app in HUQ'. tauto. }
        assert (HJge : bnum L <= bnum (eb je)).
        { destruct Q1 as [|J Q1' _] using rev_ind.
          - unfold tip in Hj. cbn in Hj. pose proof Hje as Hje2. rewrite Hj, <- HsL in Hje2.
            assert (HxLin : In xL sg) by (rewrite Hsplit; apply in_or_app; right; left; reflexivity).
            rewrite (Hst xL HxLin) in Hje2. injection Hje2 as <-. fold (seg_blk xL). rewrite HbL. apply N.le_refl.
          - rewrite tip_snoc in Hj. apply Forall_app in HQ1U as [_ HJ]. pose proof (Forall_inv HJ) as HJU. cbn beta in HJU.
            apply Forall_app in HQ1ab as [_ HJa]. pose proof (Forall_inv HJa) as HJn. cbn beta in HJn.
            assert (HeJ : eb je = J).
            { apply U_uniq; [apply HinU; apply find_some in Hje; tauto | exact HJU|].
              apply find_some in Hje as [_ Hk]. rewrite <- Hj. exact Hk. }
            rewrite HeJ. lia. }
        assert (HQdec : Q = Q1 ++ map seg_blk (rev (undos_of cur path))).
        { rewrite Hundos, Hcs. destruct Hkind as [[HeN ->]|[HeU HQ'e]].
          - rewrite HeN. cbn [step_eqb]. rewrite Hmap. exact HQ12.
          - rewrite HeU. cbn [step_eqb]. rewrite Hpath in Hmap. cbn [rev] in Hmap. rewrite map_app in Hmap. cbn [map] in Hmap.
            rewrite HQ'e, <- Hmap, app_assoc in HQ12. apply last_snoc_eq in HQ12. tauto. }
        split; [rewrite Hheld; exact HQdec|].
        split; [intros _; rewrite (Habove jc eq_refl); exact Hlinks0|].
        rewrite Hcl. cbn [bref rn]. exact HJge.
    Qed.

    (* the burst answered in this state for the cursor of an earlier New / Undo event, applied to the consumer
       right after that event (final up to the cursor LIB), gives the consumer of this state *)
    Lemma resume_at e ck P Q F0 evs :
      CurAt U a e ck P Q (libblk a P) -> Fin = P ++ F0 ->
      linked (bid (libblk a P)) F0 -> Forall (fun x => In x U /\ bnum (libblk a P) < bnum x) F0 ->
      nu e ->
      blocks_from_cursor s (ev_cursor e) = BOk evs ->
      cons_fold (mkCons (cs_stack ck) (length (filter (fun b => bnum b <=? rn (elib e)) (cs_stack ck))) true) evs
        = Some (mkCons S (length Fin) true).
    Proof.
      intros HC HF Hl0 HF0 Hnu HB. set (cur := ev_cursor e) in *.
      destruct post_head as (hd & p0 & Hls & _).
      pose proof (i_db U _ _ _ _ _ HI) as Hd.
      unfold blocks_from_cursor in HB. rewrite (di_has_lib U (R a) _ Hd), Hls in HB. cbn [negb] in HB.
      destruct (complete_segment (db s) (bref hd)) as [[sg reach]|] eqn:E; cbv beta iota in HB; [|discriminate HB].
      assert (Hr : reach = true).
      { destruct reach; [reflexivity|]. destruct sg; cbv beta iota in HB; discriminate HB. }
      subst reach.
      assert (HB' : from_cursor_loop (fuel_of (db s)) s hd sg cur = BOk evs).
      { destruct sg as [|s0 sg']; cbv beta iota in HB; [discriminate HB|].
        destruct (rn (cu_lib cur) <? snum s0); [discriminate HB | exact HB]. }
      clear HB.
      assert (Hlibin : block_in (ri (cu_lib cur)) sg = true).
      { destruct (block_in (ri (cu_lib cur)) sg) eqn:Hx; [reflexivity|]. exfalso.
        exact (loop_foreign_lib s hd sg cur _ Hx evs HB'). }
      destruct (cursor_meets e ck P Q F0 hd sg HC HF Hl0 HF0 Hnu Hls E Hlibin)
        as (W & Hgood & Hst & _ & _ & Hstack & Hck & Htarget & Hlen & Hfastc & Hforkc).
      fold cur in Htarget, Hlen, Hfastc, Hforkc. pose proof W as [[Wst _] _].
      rewrite Hck, Hstack.
      destruct (block_in (ri (cu_blk cur)) sg) eqn:Hblkin.
      - destruct (Hfastc eq_refl) as [Hheld Hlinks].
        assert (Hloop : from_cursor_loop (fuel_of (db s)) s hd sg cur = BOk (from_cursor_fast s hd sg cur)).
        { unfold fuel_of. cbn [from_cursor_loop]. rewrite Hblkin, Hlibin. reflexivity. }
        rewrite Hloop in HB'. injection HB' as <-.
        pose proof (c05_fast_path_consumer_proof s hd sg cur P true Hgood Hlinks) as Hfast. cbv zeta in Hfast.
        rewrite Hheld in Hfast. rewrite Hfast, Htarget, Hlen. reflexivity.
      - destruct (c05_forked_path_proof s hd sg cur Wst Hst) as (Htotal & _ & Hwalk & _ & Hburst).
        destruct (Hburst Hlibin Hblkin) as [_ Herr].
        destruct Htotal as [(path & j & Hbr)|Hbroken]; [|rewrite (Herr Hbroken) in HB'; discriminate].
        destruct (Hwalk path j Hbr) as (_ & _ & Hjin).
        destruct (seg_stored_junction _ _ _ Hst Hjin) as [je Hje].
        destruct (Hforkc eq_refl path j je Hbr Hje) as (HQdec & Hlinks & _).
        destruct (c05_resume_partial_proof s hd sg cur path j je P true Wst Hst Hgood Hlibin Hblkin Hbr Hje Hlinks) as (evs' & Hloop & Hfold).
        rewrite Hloop in HB'. injection HB' as <-. cbv zeta in Hfold.
        rewrite <- HQdec in Hfold. rewrite Hfold, Htarget, Hlen. reflexivity.
    Qed.

    (* the serving obligation: a cursor of the stream whose LIB is still on the retained chain is served *)
    Lemma serve_at e ck P Q F0 B0 hd sg :
      CurAt U a e ck P Q (libblk a P) -> Fin = P ++ F0 ->
      linked (bid (libblk a P)) F0 -> Forall (fun x => In x U /\ bnum (libblk a P) < bnum x) F0 ->
      nu e -> Held B0 e Q (libblk a P) -> Ret B0 s ->
      last_sent s = Some hd -> complete_segment (db s) (bref hd) = Some (sg, true) ->
      block_in (ri (elib e)) sg = true ->
      exists evs, blocks_from_cursor s (ev_cursor e) = BOk evs.
    Proof.
      intros HC HF Hl0 HF0 Hnu (HLB & HQB & HeB) [HR HK] Hls E Hlibin.
      destruct (cursor_meets e ck P Q F0 hd sg HC HF Hl0 HF0 Hnu Hls E Hlibin)
        as (W & Hgood & Hst & (x & Hx & Hxs & Hxn) & _).
      destruct HC as [Hstack HLU Helib HPf HQf Hlq Hbk Hcb Hnew Hundo].
      set (L := libblk a P) in *. set (cur := ev_cursor e) in *.
      assert (Hcl : cu_lib cur = bref L) by exact Helib.
      assert (Hcbk : cu_blk cur = bref (eblk e)) by exact Hcb.
      pose proof W as [[Wst _] _].
      pose proof (i_db U _ _ _ _ _ HI) as Hd. pose proof (di_inU U _ _ Hd) as HinU.
      assert (Hlibin' : block_in (ri (cu_lib cur)) sg = true) by exact Hlibin.
      assert (HlibinL : block_in (bid L) sg = true) by (rewrite Hcl in Hlibin'; exact Hlibin').
      (* the segment starts at or below the cursor LIB *)
      destruct sg as [|s0 sg']; [destruct Hx|].
      assert (Hle : snum s0 <= rn (cu_lib cur)).
      { rewrite <- Hxn. destruct Hx as [<-|Hx]; [lia|].
        destruct Hgood as [Hstd _ Hinc _]. inversion Hinc as [|? ? _ Hall]; subst. rewrite Forall_forall in Hall.
        specialize (Hall x Hx). rewrite Forall_forall in Hstd. apply N.lt_le_incl. apply snum_lt_of; auto; apply Hstd; [left; reflexivity | right; exact Hx]. }
      rewrite (blocks_from_cursor_eq s cur hd s0 sg' (di_has_lib U (R a) _ Hd) Hls E Hle).
      destruct (block_in (ri (cu_blk cur)) (s0 :: sg')) eqn:Hblkin.
      { eexists. unfold fuel_of. cbn [from_cursor_loop]. rewrite Hblkin, Hlibin'. reflexivity. }
      (* the cursor LIB block is stored, hence everything the consumer held above it *)
      assert (HLst : stored s L).
      { unfold stored. pose proof (Hst x Hx) as Hfx. apply find_some in Hfx as [Hinx Hkx].
        assert (eb (sent x) = L).
        { apply U_uniq; [apply HinU; exact Hinx | exact HLU|]. unfold StoreFacts.key in Hkx. rewrite Hkx, Hxs, Hcl. reflexivity. }
        rewrite <- H. apply in_map. exact Hinx. }
      assert (HQst : forall q, In q B0 -> bnum L <= bnum q -> In q (map eb (store (db s)))).
      { intros q Hq Hle'. exact (HR L q HLB Hq Hle' HLst). }
      rewrite Hcbk in Hblkin. cbn [bref ri] in Hblkin.
      assert (HQU : Forall (fun y => In y U) Q) by (eapply Forall_impl; [|exact HQf]; cbn beta; tauto).
      assert (HQ' : exists Q', linked (bid L) Q' /\ Forall (fun y => In y U) Q' /\ Q' <> [] /\ tip (bid L) Q' = bid (eblk e) /\
                 Forall (fun q => In q (map eb (store (db s)))) Q').
      { destruct Hnu as [HeN|HeU].
        - destruct (Hnew HeN) as [l0 Hl0'].
          destruct Q as [|q0 Q0] eqn:EQ.
          + exfalso. rewrite app_nil_r in Hl0'.
            assert (HeL : eblk e = L) by (unfold L, libblk; rewrite Hl0', rev_app_distr; reflexivity).
            rewrite HeL, HlibinL in Hblkin. discriminate.
          + rewrite <- EQ in *. destruct (last_of_app _ _ _ _ Hl0') as [Q1 HQ1]; [rewrite EQ; discriminate|].
            exists Q. split; [exact Hlq|]. split; [exact HQU|]. split; [rewrite EQ; discriminate|].
            split; [rewrite HQ1; apply tip_snoc|].
            apply Forall_forall. intros q Hq. rewrite Forall_forall in HQB, HQf. apply HQst; [apply HQB; exact Hq|].
            destruct (HQf q Hq) as [_ G]. lia.
        - destruct (Hundo HeU) as [Hpar Hbn]. exists (Q ++ [eblk e]).
          split; [apply linked_app_iff; split; [exact Hlq | cbn [linked]; auto]|].
          split; [apply Forall_app; split; [exact HQU | constructor; [exact Hbk | constructor]]|].
          split; [destruct Q; discriminate|]. split; [apply tip_snoc|].
          apply Forall_app. split.
          + apply Forall_forall. intros q Hq. rewrite Forall_forall in HQB, HQf. apply HQst; [apply HQB; exact Hq|].
            destruct (HQf q Hq) as [_ G]. lia.
          + constructor; [|constructor]. apply HQst; [exact HeB | lia]. }
      destruct HQ' as (Q' & HlQ' & HUQ' & HneQ' & HtQ' & HstQ').
      destruct (branch_exists (db s) (s0 :: sg') (bid L) HinU (di_nodup U _ _ Hd) HlibinL Q' HlQ' HUQ' HstQ' HneQ') as (path & j & Hbr).
      rewrite HtQ' in Hbr.
      assert (Hbr' : branch_to (db s) (s0 :: sg') (ri (cu_blk cur)) path j) by (rewrite Hcbk; exact Hbr).
      assert (Hblkin' : block_in (ri (cu_blk cur)) (s0 :: sg') = false) by (rewrite Hcbk; exact Hblkin).
      destruct (seg_stored_junction _ _ _ Hst (branch_to_junction _ _ _ _ _ Hbr')) as [je Hje].
      eexists. exact (loop_forked s hd (s0 :: sg') cur (length (store (db s))) Wst Hst Hlibin' Hblkin' path j je Hbr' Hje).
    Qed.

    (* the cursor of an Irreversible event (a final-blocks-only consumer): served whenever the announced block is
       still on the retained chain; the burst's irreversible events are exactly the final blocks after it *)
    Lemma final_at e P F0 hd sg :
      estep e = SIrr -> Fin = P ++ F0 -> libblk a P = eblk e -> In (eblk e) U ->
      ecblk e = bref (eblk e) -> elib e = bref (eblk e) ->
      linked (bid (eblk e)) F0 -> Forall (fun x => In x U /\ bnum (eblk e) < bnum x) F0 ->
      last_sent s = Some hd -> complete_segment (db s) (bref hd) = Some (sg, true) ->
      block_in (ri (elib e)) sg = true ->
      exists evs, blocks_from_cursor s (ev_cursor e) = BOk evs /\ map eblk (irr_events evs) = F0.
    Proof.
      intros HeI HF HL HeU Hcb Hlb Hl0 HF0 Hls E Hin.
      set (cur := ev_cursor e).
      rewrite Hlb in Hin. cbn [bref ri] in Hin. rewrite <- HL in Hin, HeU, Hl0, HF0.
      destruct (above_lib_part hd sg true P F0 Hls E HF HeU Hl0 HF0 Hin)
        as (lo & xL & hi & p & Hsplit & HbL & HnL & HsL & HS & HH & HpU & Hlo & Hhi & Hstd & Hlhi & Hsorted).
      rewrite HL in HbL, HnL, HsL.
      pose proof (inv_wf_state a s Fin S Ha HI) as W.
      pose proof (i_db U _ _ _ _ _ HI) as Hd.
      destruct post_head as (hd' & p0 & Hls' & _ & _ & _ & _ & _ & _ & HFin). rewrite Hls in Hls'. injection Hls' as <-.
      assert (Hhc : head_chain s hd sg) by (split; [exact (di_has_lib U (R a) _ Hd) | split; [exact Hls | exact E]]).
      assert (Hcbk : cu_blk cur = bref (eblk e)) by exact Hcb.
      assert (Hcl : cu_lib cur = bref (eblk e)) by exact Hlb.
      assert (Hmu : matches_undo (cu_step cur) = false) by (unfold cur, ev_cursor; cbn [cu_step]; rewrite HeI; reflexivity).
      assert (Hlx : exists x, In x sg /\ sid x = ri (cu_lib cur) /\ snum x = rn (cu_lib cur)).
      { exists xL. split; [rewrite Hsplit; apply in_or_app; right; left; reflexivity|]. rewrite Hcl. cbn [bref ri rn]. auto. }
      assert (Hs1 : sid xL = ri (cu_blk cur)) by (rewrite Hcbk; exact HsL).
      assert (Hs2 : snum xL = rn (cu_blk cur)) by (rewrite Hcbk; exact HnL).
      destruct (c05_final_only_proof s hd sg cur lo xL hi W Hhc Hmu Hsplit Hs1 Hs2 Hlx) as (HB & _ & _ & _ & _ & Hfinal).
      destruct Hfinal as (_ & _ & _ & Hirr); [rewrite Hcl, Hcbk; reflexivity|].
      eexists. split; [exact HB|]. rewrite Hirr.
      (* the final part of hi *)
      assert (HstdH : Forall seg_std hi) by (exact (Forall_inv_tail Hstd)).
      destruct (inv_lib U cfg a s Fin S Ha HI) as [_ Hlib].
      rewrite (filter_ext_in' (final_now s) (fun x => (fun n => n <=? bnum (libblk a Fin)) (snum x))).
      2:{ intros x _. unfold final_now. rewrite Hlib. reflexivity. }
      rewrite (filter_map_std (fun n => n <=? bnum (libblk a Fin)) hi HstdH), HH.
      fold (upto (bnum (libblk a Fin)) (F0 ++ map eb p)). unfold upto. rewrite filter_app.
      fold (upto (bnum (libblk a Fin)) F0) (upto (bnum (libblk a Fin)) (map eb p)).
      rewrite upto_all, upto_none, app_nil_r; [reflexivity | |].
      - eapply Forall_impl; [|exact HpU]. cbn beta. tauto.
      - apply Forall_forall. intros x0 Hx0. rewrite Forall_forall in HFin.
        assert (Hin0 : In x0 Fin) by (rewrite HF; apply in_or_app; right; exact Hx0).
        destruct (HFin x0 Hin0) as [_ G]. exact G.
    Qed.
  End AtState.
End Life.
