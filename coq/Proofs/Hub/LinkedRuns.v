(* Parent-linked runs of blocks of a well-formed universe: numbers strictly increase; two runs resting on
   the same id and ending with the same block are equal.  Head segments (Spec/C09_Spec.v) as linked runs. *)
From Coq Require Import Sorted.
From BV Require Import Base.Prelude Model.Block Model.ForkDB Model.Forkable Model.Burst Spec.Consumer
  Spec.C09_Spec Spec.C05_Spec Proofs.C09_Store Proofs.C09_Proofs Proofs.C05_Fast
  Proofs.Fk.LoopFacts Proofs.Hub.ConsFacts.
Local Open Scope N_scope.

Lemma last_snoc_eq {A} (l1 l2 : list A) x y : l1 ++ [x] = l2 ++ [y] -> l1 = l2 /\ x = y.
Proof. intros H. apply app_inj_tail in H. exact H. Qed.

Section Runs.
  Variable U : list block.
  Hypothesis U_id : forall b, In b U -> bid b <> 0 /\ bid b <> bparent b.
  Hypothesis U_uniq : forall x y, In x U -> In y U -> bid x = bid y -> x = y.
  Hypothesis U_up : forall x y, In x U -> In y U -> bparent x = bid y -> bnum y < bnum x.

  Definition blt (x y : block) : Prop := bnum x < bnum y.

  Lemma linked_above : forall l y, In y U -> linked (bid y) l -> Forall (fun x => In x U) l -> Forall (blt y) l.
  Proof.
    induction l as [|z l IH]; intros y Hy Hl HU; [constructor|].
    cbn [linked] in Hl. destruct Hl as [Hp Hl]. inversion HU as [|? ? Hz HU']; subst.
    assert (Hyz : blt y z) by (apply (U_up z y Hz Hy Hp)).
    constructor; [exact Hyz|]. eapply Forall_impl; [|exact (IH z Hz Hl HU')].
    cbn beta. unfold blt in *. intros a Ha. lia.
  Qed.

  Lemma linked_sorted : forall l x, linked x l -> Forall (fun y => In y U) l -> StronglySorted blt l.
  Proof.
    induction l as [|y l IH]; intros x Hl HU; [constructor|].
    cbn [linked] in Hl. destruct Hl as [_ Hl]. inversion HU as [|? ? Hy HU']; subst.
    constructor; [exact (IH (bid y) Hl HU') | exact (linked_above l y Hy Hl HU')].
  Qed.

  (* no element of a run carries the id the run rests on *)
  Lemma linked_base_not_in : forall l x, linked x l -> Forall (fun y => In y U) l -> forall y, In y l -> bid y <> x.
  Proof.
    intros l x Hl HU y Hy E. destruct l as [|z l]; [destruct Hy|].
    pose proof (linked_sorted _ _ Hl HU) as HS. cbn [linked] in Hl. destruct Hl as [Hp _].
    pose proof (Forall_inv HU) as Hz. pose proof (Forall_inv_tail HU) as HU'. cbn beta in Hz. rewrite Forall_forall in HU'.
    destruct Hy as [Hy|Hy].
    - rewrite <- Hy in E. apply (proj2 (U_id z Hz)). rewrite E, Hp. reflexivity.
    - assert (Hp' : bparent z = bid y) by (rewrite Hp, E; reflexivity).
      pose proof (U_up z y Hz (HU' y Hy) Hp') as H1.
      inversion HS as [|? ? _ Hall]. rewrite Forall_forall in Hall. specialize (Hall y Hy). unfold blt in Hall. lia.
  Qed.

  Lemma linked_unique : forall l1 l2 x t, linked x (l1 ++ [t]) -> linked x (l2 ++ [t]) ->
    Forall (fun y => In y U) (l1 ++ [t]) -> Forall (fun y => In y U) (l2 ++ [t]) -> l1 = l2.
  Proof.
    induction l1 as [|u1 l1 IH] using rev_ind; intros l2 x t H1 H2 HU1 HU2.
    - destruct l2 as [|u2 l2 _] using rev_ind; [reflexivity|]. exfalso.
      cbn [app linked] in H1. destruct H1 as [Hp _].
      pose proof (linked_mid _ _ _ _ H2) as Hp2. rewrite tip_snoc in Hp2.
      apply (linked_base_not_in _ _ H2 HU2 u2); [|congruence].
      apply in_or_app. left. apply in_or_app. right. left. reflexivity.
    - destruct l2 as [|u2 l2 _] using rev_ind.
      + exfalso. cbn [app linked] in H2. destruct H2 as [Hp _].
        pose proof (linked_mid _ _ _ _ H1) as Hp1. rewrite tip_snoc in Hp1.
        apply (linked_base_not_in _ _ H1 HU1 u1); [|congruence].
        apply in_or_app. left. apply in_or_app. right. left. reflexivity.
      + pose proof (linked_mid _ _ _ _ H1) as Hp1. pose proof (linked_mid _ _ _ _ H2) as Hp2. rewrite tip_snoc in Hp1, Hp2.
        apply Forall_app in HU1 as [HU1 _]. apply Forall_app in HU2 as [HU2 _].
        assert (Eu : u1 = u2).
        { apply U_uniq; [| |congruence].
          - apply Forall_app in HU1 as [_ H]. exact (Forall_inv H).
          - apply Forall_app in HU2 as [_ H]. exact (Forall_inv H). }
        subst u2. f_equal. apply (IH l2 x u1); try assumption; eapply linked_prefix; eassumption.
  Qed.

  (* two runs on the same base whose tips are equal *)
  Lemma linked_unique_tip : forall l1 l2 x, linked x l1 -> linked x l2 ->
    Forall (fun y => In y U) l1 -> Forall (fun y => In y U) l2 -> tip x l1 = tip x l2 -> l1 = l2.
  Proof.
    intros l1 l2 x H1 H2 HU1 HU2 Ht.
    destruct l1 as [|t1 l1 _] using rev_ind; destruct l2 as [|t2 l2 _] using rev_ind.
    - reflexivity.
    - exfalso. rewrite tip_snoc in Ht. unfold tip in Ht. cbn in Ht.
      apply (linked_base_not_in _ _ H2 HU2 t2); [apply in_or_app; right; left; reflexivity | auto].
    - exfalso. rewrite tip_snoc in Ht. unfold tip in Ht. cbn in Ht.
      apply (linked_base_not_in _ _ H1 HU1 t1); [apply in_or_app; right; left; reflexivity | auto].
    - rewrite !tip_snoc in Ht.
      assert (t1 = t2).
      { apply U_uniq; [| |exact Ht].
        - apply Forall_app in HU1 as [_ H]. exact (Forall_inv H).
        - apply Forall_app in HU2 as [_ H]. exact (Forall_inv H). }
      subst t2. f_equal. apply (linked_unique l1 l2 x t1); assumption.
  Qed.
End Runs.

(* ---------- segments ---------- *)

Lemma seg_linked : forall l x, Sorted seg_link (x :: l) -> Forall seg_std (x :: l) -> linked (sid x) (map seg_blk l).
Proof.
  induction l as [|y l IH]; intros x HS Hstd; [exact I|].
  inversion HS as [|? ? HS' Hhd]; subst. inversion Hhd as [|? ? Hxy]; subst.
  inversion Hstd as [|? ? _ Hstd']; subst. pose proof (Forall_inv Hstd') as [Hy1 _].
  cbn [map linked]. split; [exact Hxy|]. rewrite <- Hy1. apply IH; assumption.
Qed.

(* an element of a good segment splits it by number *)
Lemma good_seg_split sg A x B : good_seg sg -> sg = A ++ x :: B ->
  (forall y, In y A -> snum y < snum x) /\ (forall y, In y B -> snum x < snum y) /\
  Forall seg_std (x :: B) /\ Sorted seg_link (x :: B).
Proof.
  intros [Hstd Hlk Hinc Hnd] ->.
  assert (Hn : forall y, In y (A ++ x :: B) -> snum y = bnum (seg_blk y)).
  { intros y Hy. rewrite Forall_forall in Hstd. apply (Hstd y Hy). }
  assert (Hx : In x (A ++ x :: B)) by (apply in_or_app; right; left; reflexivity).
  destruct (Proofs.C09_Proofs.StronglySorted_split seg_lt A x B Hinc) as [HA HB].
  split; [|split; [|split]].
  - intros y Hy. specialize (HA y Hy). unfold seg_lt in HA.
    rewrite (Hn y (in_or_app _ _ _ (or_introl Hy))), (Hn x Hx). exact HA.
  - intros y Hy. specialize (HB y Hy). unfold seg_lt in HB.
    rewrite (Hn x Hx), (Hn y (in_or_app _ (x :: B) _ (or_intror (or_intror Hy)))). exact HB.
  - apply Forall_app in Hstd. tauto.
  - apply Proofs.C09_Store.Sorted_app_r in Hlk. exact Hlk.
Qed.
