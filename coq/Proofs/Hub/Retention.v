(* Retention: PurgeBeforeLIB removes stored blocks by NUMBER.  For a set B0 of blocks that were stored together
   at some instant, at every later instant: if a block of B0 is still stored, so is every block of B0 with a
   number at least as high; and a block of B0 that is gone lies under the LIB (it can never be stored again). *)
From BV Require Import Base.Prelude Model.Block Model.ForkDB Model.Forkable Spec.Consumer
  Proofs.Hub.StepFields Proofs.Hub.StepStore.
Local Open Scope N_scope.

Definition stored (s : fstate) (x : block) : Prop := In x (map eb (store (db s))).

Definition Ret (B0 : list block) (s : fstate) : Prop :=
  (forall x y, In x B0 -> In y B0 -> bnum x <= bnum y -> stored s x -> stored s y) /\
  (forall x, In x B0 -> stored s x \/ bnum x < rn (libref (db s))).

Lemma ret_start s' T SB : map eb (store (db s')) = filter (fun x => T <=? bnum x) SB ->
  (T = 0 \/ T <= rn (libref (db s'))) -> Ret SB s'.
Proof.
  intros HT HTl. unfold Ret, stored. rewrite HT. split.
  - intros x y Hx Hy Hle Hsx. apply filter_In in Hsx as [_ Hsx]. apply filter_In. split; [exact Hy|].
    apply N.leb_le in Hsx. apply N.leb_le. lia.
  - intros x Hx. destruct (N.leb_spec T (bnum x)) as [Hc|Hc].
    + left. apply filter_In. split; [exact Hx | apply N.leb_le; exact Hc].
    + right. destruct HTl as [->|HTl]; lia.
Qed.

Lemma ret_filter B0 s s' T new b : Ret B0 s ->
  map eb (store (db s')) = filter (fun x => T <=? bnum x) (map eb (store (db s)) ++ new) ->
  (new = [] \/ new = [b]) -> (T = 0 \/ T <= rn (libref (db s'))) ->
  rn (libref (db s)) <= rn (libref (db s')) ->
  (new = [b] -> In b B0 -> stored s b) ->
  Ret B0 s'.
Proof.
  intros [HR HK] HT Hnew HTl Hmono Hb. unfold Ret, stored in *. rewrite HT. split.
  - intros x y Hx Hy Hle Hsx. apply filter_In in Hsx as [Hin Hsx]. apply N.leb_le in Hsx.
    assert (Hxs : In x (map eb (store (db s)))).
    { apply in_app_or in Hin as [Hin|Hin]; [exact Hin|].
      destruct Hnew as [->| ->]; [destruct Hin|]. destruct Hin as [<-|[]]. apply Hb; [reflexivity | exact Hx]. }
    apply filter_In. split; [apply in_or_app; left; exact (HR x y Hx Hy Hle Hxs) | apply N.leb_le; lia].
  - intros x Hx. destruct (HK x Hx) as [Hs|Hlt]; [|right; lia].
    destruct (N.leb_spec T (bnum x)) as [Hc|Hc].
    + left. apply filter_In. split; [apply in_or_app; left; exact Hs | apply N.leb_le; exact Hc].
    + right. destruct HTl as [->|HTl]; lia.
Qed.

Lemma ret_same B0 s : Ret B0 s -> Ret B0 s.
Proof. auto. Qed.

(* restriction to a subset *)
Lemma ret_incl B0 B1 s : (forall x, In x B1 -> In x B0) -> Ret B0 s -> Ret B1 s.
Proof.
  intros Hsub [HR HK]. split.
  - intros x y Hx Hy. apply HR; apply Hsub; assumption.
  - intros x Hx. apply HK. apply Hsub. exact Hx.
Qed.
