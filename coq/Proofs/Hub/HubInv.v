(* The stream invariant of a Forkable in hub configuration (discovery mode, hold-until-LIB, handler never
   failing, all steps in the filter) over a universe in the class of c02_discovery_partial, together with
   the consumer with finality of Check/Burst_Check.v that applied every event since the Forkable was created:
   - after every ProcessBlock call the consumer is (rev (Fin ++ chain of the head down to the LIB), |Fin|, true);
   - for every New / Undo event: the consumer's stack right after it, the cursor the event carries. *)
From BV Require Import Base.Prelude Model.Block Model.ForkDB Model.Forkable Model.Burst Spec.Consumer Spec.Universe
  Check.Fk_Check Check.Burst_Check
  Proofs.Fk.StoreFacts Proofs.Fk.WalkFacts Proofs.Fk.LoopFacts Proofs.Fk.StoreChange Proofs.Fk.SwitchFacts
  Proofs.Fk.FixedLib Proofs.Fk.MovingLibStore Proofs.Fk.MovingLibWalk Proofs.Fk.MovingLibLoops
  Proofs.Fk.MovingLibInv Proofs.Fk.MovingLibFin Proofs.Fk.MovingLibDisc Proofs.Hub.StepFields Proofs.Hub.ConsFacts.
Local Open Scope N_scope.

Lemma rev_inj {A} (l1 l2 : list A) : rev l1 = rev l2 -> l1 = l2.
Proof. intros H. rewrite <- (rev_involutive l1), H. apply rev_involutive. Qed.

Lemma app_split_cases {A} : forall (l l' E1 : list A) e E2, l ++ l' = E1 ++ e :: E2 ->
  (exists l2, l = E1 ++ e :: l2 /\ E2 = l2 ++ l') \/ (exists E1', E1 = l ++ E1' /\ l' = E1' ++ e :: E2).
Proof.
  induction l as [|x l IH]; intros l' E1 e E2 H.
  - right. exists E1. auto.
  - destruct E1 as [|y E1]; cbn [app] in H; injection H as -> H.
    + left. exists l. auto.
    + destruct (IH l' E1 e E2 H) as [(l2 & -> & ->)|(E1' & -> & ->)].
      * left. exists l2. auto.
      * right. exists E1'. auto.
Qed.

(* the block the final part ends with: the LIB block *)
Definition libblk (a : block) (Fin : list block) : block := match rev Fin with t :: _ => t | [] => a end.

Lemma libblk_tip a Fin X : bid (libblk a (Fin ++ X)) = tip (bid (libblk a Fin)) X.
Proof.
  unfold libblk, tip. rewrite rev_app_distr. destruct (rev X) as [|t r]; cbn [app]; reflexivity.
Qed.

Lemma libblk_tip0 a Fin : bid (libblk a Fin) = tip (bid a) Fin.
Proof. unfold libblk, tip. destruct (rev Fin); reflexivity. Qed.

Lemma libblk_mono a Fin X : Forall (fun x => bnum (libblk a Fin) < bnum x) X ->
  bnum (libblk a Fin) <= bnum (libblk a (Fin ++ X)).
Proof.
  intros H. unfold libblk at 2. rewrite rev_app_distr. destruct (rev X) as [|t r] eqn:E; cbn [app].
  - fold (libblk a Fin). lia.
  - rewrite Forall_forall in H. assert (In t X) by (apply in_rev; rewrite E; left; reflexivity).
    specialize (H t H0). lia.
Qed.

Section Hub.
  Variable U : list block.
  Variable cfg : config.

  Hypothesis Hnofail : c_fail_at cfg = None.
  Hypothesis Hnew : f_new (c_filter cfg) = true.
  Hypothesis Hundo : f_undo (c_filter cfg) = true.
  Hypothesis Hirr : f_irr (c_filter cfg) = true.
  Hypothesis Hhold : c_hold cfg = true.
  Hypothesis Hincl : c_incl cfg = false.

  Hypothesis U_id : forall b, In b U -> bid b <> 0 /\ bparent b <> 0 /\ bid b <> bparent b.
  Hypothesis U_uniq : forall x y, In x U -> In y U -> bid x = bid y -> x = y.
  Hypothesis U_up : forall x y, In x U -> In y U -> bparent x = bid y -> bnum y < bnum x.
  Hypothesis D_decl : forall b, In b U -> decl_none U b.

  Notation in_U := (in_U U).
  Notation IInv a := (Inv U (R a) cfg).

  Lemma tipid_tip a Fin : tipid (R a) Fin = tip (bid a) Fin.
  Proof. reflexivity. Qed.

  Lemma inv_lib a s Fin S : In a U -> IInv a s Fin S ->
    In (libblk a Fin) U /\ libref (db s) = bref (libblk a Fin).
  Proof.
    intros Ha [Hd Hfin Hl _]. unfold libblk. destruct (rev Fin) as [|t r] eqn:E.
    - split; [exact Ha | exact Hl].
    - assert (Hin : In t Fin) by (apply in_rev; rewrite E; left; reflexivity).
      rewrite Forall_forall in Hfin. destruct (Hfin t Hin) as [HtU _]. split; [exact HtU|].
      destruct (di_coh U _ _ Hd) as (_ & Hn & _). specialize (Hn t HtU Hl).
      unfold bref. destruct (libref (db s)) as [i n]. cbn [ri rn] in *. congruence.
  Qed.

  (* ---------------------------------------------------------------- after the discovery *)

  Record Post (a : block) (s : fstate) (Fin : list block) (S : cstack) (c : cons) : Prop := mkPost {
    po_a : In a U;
    po_inv : IInv a s Fin S;
    po_cons : c = mkCons S (length Fin) true;
    po_cl : cursor_lib s = libref (db s);
    po_ne : S <> [];
    po_extra : extra (db s) = None
  }.

  (* the consumer ck right after the New / Undo event e, and the cursor e carries:
     P = what the consumer holds up to the cursor LIB L, Q = what it holds above *)
  Record CurAt (a : block) (e : event) (ck : cons) (P Q : list block) (L : block) : Prop := mkCurAt {
    ca_stack : cs_stack ck = rev (P ++ Q);
    ca_L : In L U;
    ca_elib : elib e = bref L;
    ca_P : Forall (fun x => In x U /\ bnum x <= bnum L) P;
    ca_Q : Forall (fun x => In x U /\ bnum L < bnum x) Q;
    ca_link : linked (bid L) Q;
    ca_blk : In (eblk e) U;
    ca_cblk : ecblk e = bref (eblk e);
    ca_new : estep e = SNew -> exists l0, P ++ Q = l0 ++ [eblk e];
    ca_undo : estep e = SUndo -> bparent (eblk e) = tip (bid L) Q /\ bnum L < bnum (eblk e)
  }.

  (* the New / Undo events of a list evs delivered to the consumer c0, relative to the final part Fin1
     known afterwards: P is a beginning of Fin1 *)
  Definition MidFacts (c0 : cons) (evs : list event) (a : block) (Fin1 : list block) : Prop :=
    forall l1 e l2, evs = l1 ++ e :: l2 -> nu e ->
      exists ck P Q F0, cons_fold c0 (l1 ++ [e]) = Some ck /\ CurAt a e ck P Q (libblk a P) /\
        Fin1 = P ++ F0 /\ linked (bid (libblk a P)) F0 /\
        Forall (fun x => In x U /\ bnum (libblk a P) < bnum x) F0.

  Lemma mid_extend c0 evs a Fin1 F2 : MidFacts c0 evs a Fin1 ->
    linked (bid (libblk a Fin1)) F2 -> Forall (fun x => In x U /\ bnum (libblk a Fin1) < bnum x) F2 ->
    MidFacts c0 evs a (Fin1 ++ F2).
  Proof.
    intros HM Hl HF l1 e l2 Hs Hn. destruct (HM l1 e l2 Hs Hn) as (ck & P & Q & F0 & Hc & HC & -> & Hl0 & HF0).
    exists ck, P, Q, (F0 ++ F2). split; [exact Hc|]. split; [exact HC|]. split; [rewrite app_assoc; reflexivity|].
    split.
    - apply linked_app_iff. split; [exact Hl0|]. rewrite <- libblk_tip. exact Hl.
    - apply Forall_app. split; [exact HF0|].
      assert (Hm : bnum (libblk a P) <= bnum (libblk a (P ++ F0))).
      { apply libblk_mono. eapply Forall_impl; [|exact HF0]. cbn beta. tauto. }
      eapply Forall_impl; [|exact HF]. cbn beta. intros x [H1 H2]. split; [exact H1 | lia].
  Qed.

  Lemma mid_compose c0 evs c1 E' a Fin1 : cons_fold c0 evs = Some c1 ->
    MidFacts c0 evs a Fin1 -> MidFacts c1 E' a Fin1 -> MidFacts c0 (evs ++ E') a Fin1.
  Proof.
    intros Hc H1 H2 l1 e l2 Hs Hn.
    destruct (app_split_cases _ _ _ _ _ Hs) as [(l2' & Hev & _)|(E1' & -> & HE')].
    - exact (H1 l1 e l2' Hev Hn).
    - destruct (H2 E1' e l2 HE' Hn) as (ck & P & Q & F0 & Hck & R).
      exists ck, P, Q, F0. split; [|exact R]. rewrite <- app_assoc, cfold_app, Hc. exact Hck.
  Qed.

  Lemma mid_nil c0 a Fin1 : MidFacts c0 [] a Fin1.
  Proof. intros l1 e l2 H. destruct l1; discriminate. Qed.

  (* ---------------------------------------------------------------- one ProcessBlock call after the discovery *)

  Lemma post_step a s Fin S c b : Post a s Fin S c -> In b U ->
    exists s' evs Fnew S' c',
      fk_step cfg s b = (s', evs, ROk) /\ Post a s' (Fin ++ Fnew) S' c' /\
      cons_fold c evs = Some c' /\
      linked (bid (libblk a Fin)) Fnew /\
      Forall (fun x => In x U /\ bnum (libblk a Fin) < bnum x) Fnew /\
      MidFacts c evs a (Fin ++ Fnew).
  Proof.
    intros [Ha HI Hc Hcl Hne Hx] Hb.
    destruct (inv_lib a s Fin S Ha HI) as (HLU & Hlib).
    pose proof (libblk_tip0 a Fin) as Htip.
    set (L := libblk a Fin) in *.
    assert (HrnL : rn (libref (db s)) = bnum L) by (rewrite Hlib; reflexivity).
    assert (HriL : ri (libref (db s)) = bid L) by (rewrite Hlib; reflexivity).
    destruct (step_inv U (R a) cfg Hnofail Hnew Hundo U_id U_uniq U_up (R_id U U_id a Ha) (R_num U U_uniq a Ha)
                (R_up U U_up a Ha) (R_decl U U_uniq D_decl a Ha) s Fin S b HI Hb)
      as (s' & evA & evI & evS & Fnew & S' & Hstep & Happ & HI' & HsA & HuA & HsI & HsS & HmI & Hmono & HFnew & _ & _ & _ & HSS & _).
    rewrite Hirr in HmI.
    pose proof HI as [Hd Hfin Hflast Hh]. pose proof HI' as [Hd' Hfin' Hflast' Hh'].
    (* the head before *)
    assert (Hhd : exists hd, last_sent s = Some hd).
    { destruct (last_sent s) as [hd|]; [eauto|]. destruct Hh as (HS0 & _). contradiction. }
    destruct Hhd as [hd Els]. rewrite Els in Hh. destruct Hh as (HhU & p & Hcp & HS & Hsp).
    destruct HFnew as [[HFn HFl]|(Hls0 & _)]; [|congruence].
    (* the head after *)
    assert (HS'ne : S' <> []) by (destruct HSS as [HSS|HSS]; [contradiction | exact HSS]).
    assert (Hhd' : exists hd', last_sent s' = Some hd').
    { destruct (last_sent s') as [hd'|]; [eauto|]. destruct Hh' as (HS0 & _). contradiction. }
    destruct Hhd' as [hd' Els']. rewrite Els' in Hh'. destruct Hh' as (HhU' & p' & Hcp' & HS' & Hsp').
    (* the shape of the events *)
    assert (Hhl : has_lib (db s) = true) by (apply (di_has_lib U (R a)); exact Hd).
    destruct (fk_step_fields cfg Hnofail Hincl s b Hhl Hcl (proj1 (U_id b Hb)))
      as (s2 & evU & evN & evL & r & Hrun & HsU & HsN & HsL & HF & Hc2 & Hx2).
    rewrite Hstep in Hrun. injection Hrun as <- Hevs <-.
    assert (HnuA : Forall nu evA).
    { eapply Forall_impl; [|exact HsA]. cbn beta. unfold nu. tauto. }
    assert (HnuUN : Forall nu (evU ++ evN)).
    { apply Forall_app. split; [eapply Forall_impl; [|exact HsU] | eapply Forall_impl; [|exact HsN]]; cbn beta; unfold nu; auto. }
    assert (HqIS : Forall quiet (evI ++ evS)).
    { apply Forall_app. split; [eapply Forall_impl; [|exact HsI] | eapply Forall_impl; [|exact HsS]]; cbn beta; unfold quiet; auto. }
    rewrite (app_assoc evU evN evL) in Hevs.
    destruct (nu_split _ _ _ _ Hevs HnuA HnuUN HqIS HsL) as [-> <-].
    (* the pending chain before *)
    assert (HQp : Forall (fun x => In x U /\ bnum L < bnum x) (map eb p)).
    { apply Forall_forall. intros x Hxin. apply in_map_iff in Hxin as (e & <- & He). split.
      - apply (di_inU U _ _ Hd). eapply chain_in; eassumption.
      - rewrite <- HrnL. apply (di_above U (R a) U_id U_up _ Hd _ _ Hcp e He). }
    assert (Hlp : linked (bid L) (map eb p)).
    { pose proof (inv_linked U (R a) cfg s Fin S _ _ HI Hcp) as H. rewrite tipid_tip, <- Htip in H. exact H. }
    (* the Undo events *)
    rewrite HS in Happ.
    destruct (apply_all_split _ evU evN _ _ Happ) as (S1 & HappU & HappN).
    assert (HundoU : forall e, In e evU -> In (eblk e) U /\ rn (libref (db s)) < bnum (eblk e)).
    { intros e He. apply HuA; [apply in_or_app; left; exact He|]. rewrite Forall_forall in HsU. apply HsU. exact He. }
    assert (Hnodig : forall e, In e evU -> In (eblk e) U /\ ~ In (bid (eblk e)) (map bid Fin)).
    { intros e He. destruct (HundoU e He) as [HeU Hlt]. split; [exact HeU|]. intros Hin.
      apply in_map_iff in Hin as (x & Ex & Hxin). rewrite Forall_forall in Hfin. destruct (Hfin x Hxin) as [HxU Hxn].
      assert (x = eblk e) by (apply U_uniq; assumption). subst x. lia. }
    assert (HpU : Forall (fun x => In x U) (map eb p)).
    { eapply Forall_impl; [|exact HQp]. cbn beta. tauto. }
    destruct (undo_phase U U_uniq (ri (R a)) Fin true evU (map eb p) S1 HsU Hnodig HpU HappU) as (Q0 & HQ0 & HS1 & HcU).
    (* the New events *)
    destruct (new_phase (ri (R a)) (length Fin) true evN S1 S' HsN HappN) as [HS'2 HcN].
    assert (HQn : Q0 ++ map eblk evN = Fnew ++ map eb p').
    { apply (app_inv_head Fin). apply rev_inj. rewrite !app_assoc, <- HS', HS'2, HS1.
      rewrite (rev_app_distr (Fin ++ Q0)). reflexivity. }
    assert (HFnU : Forall (fun x => In x U /\ bnum L < bnum x) Fnew).
    { apply Forall_forall. intros x Hxin. rewrite Forall_forall in HFn, Hfin'. destruct (HFn x Hxin) as [H1 _].
      split; [apply Hfin'; apply in_or_app; right; exact Hxin | lia]. }
    assert (HQp' : Forall (fun x => In x U /\ bnum L < bnum x) (map eb p')).
    { apply Forall_forall. intros x Hxin. apply in_map_iff in Hxin as (e & <- & He). split.
      - apply (di_inU U _ _ Hd'). eapply chain_in; eassumption.
      - pose proof (di_above U (R a) U_id U_up _ Hd' _ _ Hcp' e He). lia. }
    assert (HlF : linked (bid L) Fnew) by (rewrite <- HriL; exact HFl).
    assert (Hlall : linked (bid L) (Fnew ++ map eb p')).
    { apply linked_app_iff. split; [exact HlF|].
      pose proof (inv_linked U (R a) cfg s' (Fin ++ Fnew) S' _ _ HI' Hcp') as H.
      rewrite tipid_tip, <- libblk_tip0, libblk_tip in H. exact H. }
    (* the consumer through the whole step *)
    assert (HrevS' : rev S' = Fin ++ Fnew ++ map eb p').
    { rewrite HS', rev_involutive, <- app_assoc. reflexivity. }
    assert (Hfold : cons_fold c ((evU ++ evN) ++ evI ++ evS) = Some (mkCons S' (length (Fin ++ Fnew)) true)).
    { rewrite Hc, HS, <- app_assoc, cfold_app, HcU, cfold_app, HcN, cfold_app.
      rewrite (irr_phase U U_uniq S' evI Fnew Fin (map eb p') HmI HsI HrevS'). apply quiet_stalled. exact HsS. }
    exists s', ((evU ++ evN) ++ evI ++ evS), Fnew, S', (mkCons S' (length (Fin ++ Fnew)) true).
    split; [exact Hstep|]. split.
    { constructor; try assumption; try reflexivity.
      - destruct (Hc2 eq_refl) as [H|(f & Hf & _)]; [exact H | discriminate].
      - apply Hx2. exact Hx. }
    split; [exact Hfold|]. split; [exact HlF|]. split; [exact HFnU|].
    (* the events one by one *)
    intros l1 e l2 Hsplit Hnu.
    destruct (nu_in_front _ _ _ _ _ Hsplit HqIS Hnu) as (l2' & HA & _).
    assert (HeF : elib e = bref L /\ ecblk e = bref (eblk e)).
    { rewrite Forall_forall in HF. destruct (HF e) as [H1 H2]; [rewrite HA; apply in_or_app; right; left; reflexivity|].
      split; [rewrite H1, Hcl; exact Hlib | exact H2]. }
    destruct HeF as [Helib Hecb].
    assert (HPfin : Forall (fun x => In x U /\ bnum x <= bnum L) Fin).
    { eapply Forall_impl; [|exact Hfin]. cbn beta. intros x [H1 H2]. split; [exact H1 | lia]. }
    destruct Hnu as [HeN|HeUn].
    - (* a New event *)
      destruct (new_in_back _ _ _ _ _ HA HsU HeN) as (n1 & -> & HevN).
      rewrite HevN in HappN. change (n1 ++ e :: l2') with (n1 ++ [e] ++ l2') in HappN. rewrite app_assoc in HappN.
      destruct (apply_all_split _ (n1 ++ [e]) l2' _ _ HappN) as (Sk & Happk & _).
      assert (HsNk : Forall (fun x => estep x = SNew) (n1 ++ [e])).
      { rewrite HevN in HsN. apply Forall_app in HsN as [G1 G2]. apply Forall_app. split; [exact G1|].
        constructor; [exact (Forall_inv G2) | constructor]. }
      destruct (new_phase (ri (R a)) (length Fin) true (n1 ++ [e]) S1 Sk HsNk Happk) as [HSk Hck].
      set (Q := Q0 ++ map eblk n1 ++ [eblk e]).
      assert (HQpre : Fnew ++ map eb p' = Q ++ map eblk l2').
      { rewrite <- HQn, HevN. unfold Q. rewrite map_app. cbn [map]. rewrite <- !app_assoc. reflexivity. }
      assert (HSkQ : Sk = rev (Fin ++ Q)).
      { rewrite HSk, HS1, map_app. cbn [map]. unfold Q. rewrite <- rev_app_distr, <- !app_assoc. reflexivity. }
      exists (mkCons Sk (length Fin) true), Fin, Q, Fnew.
      split; [rewrite <- app_assoc, Hc, HS, cfold_app, HcU; exact Hck|].
      split; [|split; [reflexivity|split; [exact HlF | exact HFnU]]].
      assert (HQall : Forall (fun x => In x U /\ bnum L < bnum x) (Q ++ map eblk l2')).
      { rewrite <- HQpre. apply Forall_app. split; assumption. }
      apply Forall_app in HQall as [HQU _].
      assert (HeQ : In (eblk e) Q) by (unfold Q; apply in_or_app; right; apply in_or_app; right; left; reflexivity).
      apply mkCurAt.
      + exact HSkQ.
      + exact HLU.
      + exact Helib.
      + exact HPfin.
      + exact HQU.
      + rewrite HQpre in Hlall. eapply linked_prefix. exact Hlall.
      + rewrite Forall_forall in HQU. apply HQU. exact HeQ.
      + exact Hecb.
      + intros _. exists (Fin ++ Q0 ++ map eblk n1). unfold Q. rewrite <- !app_assoc. reflexivity.
      + intros H. rewrite HeN in H. discriminate.
    - (* an Undo event *)
      destruct (undo_in_front _ _ _ _ _ HA HsN HeUn) as (u2 & HevU & _).
      rewrite HevU in HappU. change (l1 ++ e :: u2) with (l1 ++ [e] ++ u2) in HappU. rewrite app_assoc in HappU.
      destruct (apply_all_split _ (l1 ++ [e]) u2 _ _ HappU) as (Sk & Happk & _).
      assert (HsUk : Forall (fun x => estep x = SUndo) (l1 ++ [e])).
      { rewrite HevU in HsU. apply Forall_app in HsU as [G1 G2]. apply Forall_app. split; [exact G1|].
        constructor; [exact (Forall_inv G2) | constructor]. }
      assert (Hnodigk : forall x, In x (l1 ++ [e]) -> In (eblk x) U /\ ~ In (bid (eblk x)) (map bid Fin)).
      { intros x Hxin. apply Hnodig. rewrite HevU. apply in_app_or in Hxin as [Hxin|[<-|[]]]; apply in_or_app; [left; exact Hxin | right; left; reflexivity]. }
      destruct (undo_phase U U_uniq (ri (R a)) Fin true (l1 ++ [e]) (map eb p) Sk HsUk Hnodigk HpU Happk) as (Qk & HQk & HSk & Hck).
      rewrite map_app, rev_app_distr in HQk. cbn [map rev app] in HQk.
      exists (mkCons Sk (length Fin) true), Fin, Qk, Fnew.
      split; [rewrite Hc, HS; exact Hck|].
      split; [|split; [reflexivity|split; [exact HlF | exact HFnU]]].
      rewrite HQk in HQp, Hlp. apply Forall_app in HQp as [HQkU _].
      destruct (HundoU e) as [HeU Hlt]; [rewrite HevU; apply in_or_app; right; left; reflexivity|].
      apply mkCurAt.
      + exact HSk.
      + exact HLU.
      + exact Helib.
      + exact HPfin.
      + exact HQkU.
      + eapply linked_prefix. exact Hlp.
      + exact HeU.
      + exact Hecb.
      + intros H. rewrite HeUn in H. discriminate.
      + intros _. split; [apply (linked_mid _ _ _ _ Hlp) | change (bnum L < bnum (eblk e)); lia].
  Qed.
End Hub.
