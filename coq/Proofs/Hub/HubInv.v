(* The stream invariant of a Forkable in hub configuration (discovery mode, hold-until-LIB, handler never
   failing, all steps in the filter) over a universe in the class of c02_discovery_partial, together with
   the consumer with finality of Check/Burst_Check.v that applied every event since the Forkable was created:
   - after every ProcessBlock call the consumer is (rev (Fin ++ chain of the head down to the LIB), |Fin|, true);
   - for every New / Undo event: the consumer's stack right after it, the cursor the event carries. *)
From BV Require Import Base.Prelude Model.Block Model.ForkDB Model.Forkable Model.Burst Spec.Consumer Spec.Universe
  Check.Fk_Check Check.Burst_Check
  Proofs.Fk.StoreFacts Proofs.Fk.WalkFacts Proofs.Fk.LoopFacts Proofs.Fk.StoreChange Proofs.Fk.SwitchFacts
  Proofs.Fk.FixedLib Proofs.Fk.MovingLibStore Proofs.Fk.MovingLibWalk Proofs.Fk.MovingLibLoops
  Proofs.Fk.MovingLibInv Proofs.Fk.MovingLibFin Proofs.Fk.MovingLibDisc Proofs.Hub.StepFields Proofs.Hub.ConsFacts
  Proofs.Hub.StepStore Proofs.Hub.Retention Proofs.Hub.StepIrr.
Local Open Scope N_scope.

Lemma rev_inj {A} (l1 l2 : list A) : rev l1 = rev l2 -> l1 = l2.
Proof. intros H. rewrite <- (rev_involutive l1), H. apply rev_involutive. Qed.

Lemma app_split_cases {A} : forall (l l' E1 : list A) e E2, l ++ l' = E1 ++ e :: E2 ->
  (exists l2, l = E1 ++ e :: l2 /\ E2 = l2 ++ l') \/ (exists E1', E1 = l ++ E1' /\ l' = E1' ++ e :: E2).
Proof.
  induction l as [|x l IH]; intros l' E1 e E2 H.
  - right. exists E1. auto.
  - destruct E1 as [|y E1]; cbn [app] in H; injection H as -> H.
    + left. exists l. auto.
    + destruct (IH l' E1 e E2 H) as [(l2 & -> & ->)|(E1' & -> & ->)].
      * left. exists l2. auto.
      * right. exists E1'. auto.
Qed.

(* an Irreversible event of A ++ I ++ S (A New/Undo, S Stalled) lies in I *)
Lemma irr_locate : forall (A I S l1 : list event) e l2, A ++ I ++ S = l1 ++ e :: l2 ->
  Forall nu A -> Forall (fun x => estep x = SStalled) S -> estep e = SIrr ->
  exists i1 i2, I = i1 ++ e :: i2.
Proof.
  intros A I S l1 e l2 H HA HS He.
  destruct (app_split_cases _ _ _ _ _ H) as [(x2 & HAe & _)|(E1 & _ & H')].
  - exfalso. rewrite Forall_forall in HA. assert (Hin : In e A) by (rewrite HAe; apply in_or_app; right; left; reflexivity).
    destruct (HA e Hin) as [G|G]; rewrite He in G; discriminate.
  - destruct (app_split_cases _ _ _ _ _ H') as [(x2 & HIe & _)|(E2 & _ & H'')].
    + exists E1, x2. exact HIe.
    + exfalso. rewrite Forall_forall in HS. assert (Hin : In e S) by (rewrite H''; apply in_or_app; right; left; reflexivity).
      rewrite (HS e Hin) in He. discriminate.
Qed.

(* the block the final part ends with: the LIB block *)
Definition libblk (a : block) (Fin : list block) : block := match rev Fin with t :: _ => t | [] => a end.

Lemma libblk_tip a Fin X : bid (libblk a (Fin ++ X)) = tip (bid (libblk a Fin)) X.
Proof.
  unfold libblk, tip. rewrite rev_app_distr. destruct (rev X) as [|t r]; cbn [app]; reflexivity.
Qed.

Lemma libblk_tip0 a Fin : bid (libblk a Fin) = tip (bid a) Fin.
Proof. unfold libblk, tip. destruct (rev Fin); reflexivity. Qed.

Lemma libblk_mono a Fin X : Forall (fun x => bnum (libblk a Fin) < bnum x) X ->
  bnum (libblk a Fin) <= bnum (libblk a (Fin ++ X)).
Proof.
  intros H. unfold libblk at 2. rewrite rev_app_distr. destruct (rev X) as [|t r] eqn:E; cbn [app].
  - fold (libblk a Fin). lia.
  - rewrite Forall_forall in H. assert (In t X) by (apply in_rev; rewrite E; left; reflexivity).
    specialize (H t H0). lia.
Qed.

Section Hub.
  Variable U : list block.
  Variable cfg : config.

  Hypothesis Hnofail : c_fail_at cfg = None.
  Hypothesis Hnew : f_new (c_filter cfg) = true.
  Hypothesis Hundo : f_undo (c_filter cfg) = true.
  Hypothesis Hirr : f_irr (c_filter cfg) = true.
  Hypothesis Hhold : c_hold cfg = true.
  Hypothesis Hincl : c_incl cfg = false.

  Hypothesis U_id : forall b, In b U -> bid b <> 0 /\ bid b <> bparent b.
  Hypothesis U_uniq : forall x y, In x U -> In y U -> bid x = bid y -> x = y.
  Hypothesis U_up : forall x y, In x U -> In y U -> bparent x = bid y -> bnum y < bnum x.
  Hypothesis D_decl : forall b, In b U -> decl_none U b.

  Notation in_U := (in_U U).
  Notation IInv a := (Inv U (R a) cfg).

  Lemma tipid_tip a Fin : tipid (R a) Fin = tip (bid a) Fin.
  Proof. reflexivity. Qed.

  Lemma inv_lib a s Fin S : In a U -> IInv a s Fin S ->
    In (libblk a Fin) U /\ libref (db s) = bref (libblk a Fin).
  Proof.
    intros Ha [Hd Hfin Hl _]. unfold libblk. destruct (rev Fin) as [|t r] eqn:E.
    - split; [exact Ha | exact Hl].
    - assert (Hin : In t Fin) by (apply in_rev; rewrite E; left; reflexivity).
      rewrite Forall_forall in Hfin. destruct (Hfin t Hin) as [HtU _]. split; [exact HtU|].
      destruct (di_coh U _ _ Hd) as (_ & Hn & _). specialize (Hn t HtU Hl).
      unfold bref. destruct (libref (db s)) as [i n]. cbn [ri rn] in *. congruence.
  Qed.

  (* ---------------------------------------------------------------- after the discovery *)

  Record Post (a : block) (s : fstate) (Fin : list block) (S : cstack) (c : cons) : Prop := mkPost {
    po_a : In a U;
    po_inv : IInv a s Fin S;
    po_cons : c = mkCons S (length Fin) true;
    po_cl : cursor_lib s = libref (db s);
    po_ne : S <> [];
    po_extra : extra (db s) = None
  }.

  (* the consumer ck right after the New / Undo event e, and the cursor e carries:
     P = what the consumer holds up to the cursor LIB L, Q = what it holds above *)
  Record CurAt (a : block) (e : event) (ck : cons) (P Q : list block) (L : block) : Prop := mkCurAt {
    ca_stack : cs_stack ck = rev (P ++ Q);
    ca_L : In L U;
    ca_elib : elib e = bref L;
    ca_P : Forall (fun x => In x U /\ bnum x <= bnum L) P;
    ca_Q : Forall (fun x => In x U /\ bnum L < bnum x) Q;
    ca_link : linked (bid L) Q;
    ca_blk : In (eblk e) U;
    ca_cblk : ecblk e = bref (eblk e);
    ca_new : estep e = SNew -> exists l0, P ++ Q = l0 ++ [eblk e];
    ca_undo : estep e = SUndo -> bparent (eblk e) = tip (bid L) Q /\ bnum L < bnum (eblk e)
  }.

  (* the blocks the event is about (the cursor LIB block L, what the consumer holds above it, the event's block)
     were stored together: the set B0 *)
  Definition Held (B0 : list block) (e : event) (Q : list block) (L : block) : Prop :=
    In L B0 /\ Forall (fun x => In x B0) Q /\ In (eblk e) B0.

  (* the New / Undo events of a list evs delivered to the consumer c0, relative to the final part Fin1 and the
     state s1 known afterwards: P is a beginning of Fin1, the blocks of the event obey retention in s1 *)
  Definition MidFacts (c0 : cons) (evs : list event) (a : block) (Fin1 : list block) (s1 : fstate) : Prop :=
    forall l1 e l2, evs = l1 ++ e :: l2 -> nu e ->
      exists ck P Q F0 B0, cons_fold c0 (l1 ++ [e]) = Some ck /\ CurAt a e ck P Q (libblk a P) /\
        Fin1 = P ++ F0 /\ linked (bid (libblk a P)) F0 /\
        Forall (fun x => In x U /\ bnum (libblk a P) < bnum x) F0 /\
        Held B0 e Q (libblk a P) /\ Ret B0 s1.

  Lemma mid_extend c0 evs a Fin1 F2 s1 s2 : MidFacts c0 evs a Fin1 s1 ->
    linked (bid (libblk a Fin1)) F2 -> Forall (fun x => In x U /\ bnum (libblk a Fin1) < bnum x) F2 ->
    (forall B0, Ret B0 s1 -> Ret B0 s2) ->
    MidFacts c0 evs a (Fin1 ++ F2) s2.
  Proof.
    intros HM Hl HF HRet l1 e l2 Hs Hn. destruct (HM l1 e l2 Hs Hn) as (ck & P & Q & F0 & B0 & Hc & HC & -> & Hl0 & HF0 & HH & HR).
    exists ck, P, Q, (F0 ++ F2), B0. split; [exact Hc|]. split; [exact HC|]. split; [rewrite app_assoc; reflexivity|].
    split; [|split; [|split; [exact HH | apply HRet; exact HR]]].
    - apply linked_app_iff. split; [exact Hl0|]. rewrite <- libblk_tip. exact Hl.
    - apply Forall_app. split; [exact HF0|].
      assert (Hm : bnum (libblk a P) <= bnum (libblk a (P ++ F0))).
      { apply libblk_mono. eapply Forall_impl; [|exact HF0]. cbn beta. tauto. }
      eapply Forall_impl; [|exact HF]. cbn beta. intros x [H1 H2]. split; [exact H1 | lia].
  Qed.

  Lemma mid_compose c0 evs c1 E' a Fin1 s1 : cons_fold c0 evs = Some c1 ->
    MidFacts c0 evs a Fin1 s1 -> MidFacts c1 E' a Fin1 s1 -> MidFacts c0 (evs ++ E') a Fin1 s1.
  Proof.
    intros Hc H1 H2 l1 e l2 Hs Hn.
    destruct (app_split_cases _ _ _ _ _ Hs) as [(l2' & Hev & _)|(E1' & -> & HE')].
    - exact (H1 l1 e l2' Hev Hn).
    - destruct (H2 E1' e l2 HE' Hn) as (ck & P & Q & F0 & B0 & Hck & R).
      exists ck, P, Q, F0, B0. split; [|exact R]. rewrite <- app_assoc, cfold_app, Hc. exact Hck.
  Qed.

  Lemma mid_nil c0 a Fin1 s1 : MidFacts c0 [] a Fin1 s1.
  Proof. intros l1 e l2 H. destruct l1; discriminate. Qed.

  (* the Irreversible events of a list evs, relative to the final part Fin1 known afterwards: the announced block ends a
     beginning P of Fin1 (P = [] for the discovered LIB block when it was never delivered as New) *)
  Definition IrrFacts (evs : list event) (a : block) (Fin1 : list block) : Prop :=
    forall l1 e l2, evs = l1 ++ e :: l2 -> estep e = SIrr ->
      exists P F0, Fin1 = P ++ F0 /\ libblk a P = eblk e /\ In (eblk e) U /\
        ecblk e = bref (eblk e) /\ elib e = bref (eblk e) /\
        linked (bid (eblk e)) F0 /\ Forall (fun x => In x U /\ bnum (eblk e) < bnum x) F0.

  Lemma irr_extend evs a Fin1 F2 : IrrFacts evs a Fin1 ->
    linked (bid (libblk a Fin1)) F2 -> Forall (fun x => In x U /\ bnum (libblk a Fin1) < bnum x) F2 ->
    IrrFacts evs a (Fin1 ++ F2).
  Proof.
    intros HM Hl HF l1 e l2 Hs He. destruct (HM l1 e l2 Hs He) as (P & F0 & -> & HL & HU & Hcb & Hlb & Hl0 & HF0).
    exists P, (F0 ++ F2). split; [rewrite app_assoc; reflexivity|]. split; [exact HL|]. split; [exact HU|].
    split; [exact Hcb|]. split; [exact Hlb|]. rewrite <- HL in *. split.
    - apply linked_app_iff. split; [exact Hl0|]. rewrite <- libblk_tip. exact Hl.
    - apply Forall_app. split; [exact HF0|].
      assert (Hm : bnum (libblk a P) <= bnum (libblk a (P ++ F0))).
      { apply libblk_mono. eapply Forall_impl; [|exact HF0]. cbn beta. tauto. }
      eapply Forall_impl; [|exact HF]. cbn beta. intros x [H1 H2]. split; [exact H1 | lia].
  Qed.

  Lemma irr_compose evs E' a Fin1 : IrrFacts evs a Fin1 -> IrrFacts E' a Fin1 -> IrrFacts (evs ++ E') a Fin1.
  Proof.
    intros H1 H2 l1 e l2 Hs He.
    destruct (app_split_cases _ _ _ _ _ Hs) as [(l2' & Hev & _)|(E1' & -> & HE')].
    - exact (H1 l1 e l2' Hev He).
    - exact (H2 E1' e l2 HE' He).
  Qed.

  Lemma irr_nil a Fin1 : IrrFacts [] a Fin1.
  Proof. intros l1 e l2 H. destruct l1; discriminate. Qed.

  Lemma linked_gt : forall l y, In y U -> linked (bid y) l -> Forall (fun x => In x U) l -> Forall (fun x => bnum y < bnum x) l.
  Proof.
    induction l as [|z l IH]; intros y Hy Hl HU; [constructor|].
    cbn [linked] in Hl. destruct Hl as [Hp Hl]. pose proof (Forall_inv HU) as Hz. cbn beta in Hz.
    pose proof (U_up z y Hz Hy Hp) as Hyz.
    constructor; [exact Hyz|]. eapply Forall_impl; [|exact (IH z Hz Hl (Forall_inv_tail HU))]. cbn beta. intros x Hx. lia.
  Qed.

  (* ---------------------------------------------------------------- one ProcessBlock call after the discovery *)

  Lemma post_step a s Fin S c b : Post a s Fin S c -> In b U ->
    exists s' evs Fnew S' c',
      fk_step cfg s b = (s', evs, ROk) /\ Post a s' (Fin ++ Fnew) S' c' /\
      cons_fold c evs = Some c' /\
      linked (bid (libblk a Fin)) Fnew /\
      Forall (fun x => In x U /\ bnum (libblk a Fin) < bnum x) Fnew /\
      MidFacts c evs a (Fin ++ Fnew) s' /\
      (forall B1, Ret B1 s -> Ret B1 s') /\
      IrrFacts evs a (Fin ++ Fnew).
  Proof.
    intros [Ha HI Hc Hcl Hne Hx] Hb.
    destruct (inv_lib a s Fin S Ha HI) as (HLU & Hlib).
    pose proof (libblk_tip0 a Fin) as Htip.
    set (L := libblk a Fin) in *.
    assert (HrnL : rn (libref (db s)) = bnum L) by (rewrite Hlib; reflexivity).
    assert (HriL : ri (libref (db s)) = bid L) by (rewrite Hlib; reflexivity).
    destruct (step_inv U (R a) cfg Hnofail Hnew Hundo U_id U_uniq U_up (R_id U U_id a Ha) (R_num U U_uniq a Ha)
                (R_up U U_up a Ha) (R_decl U U_uniq D_decl a Ha) s Fin S b HI Hb)
      as (s' & evA & evI & evS & Fnew & S' & Hstep & Happ & HI' & HsA & HuA & HsI & HsS & HmI & Hmono & HFnew & _ & _ & _ & HSS & _).
    rewrite Hirr in HmI.
    pose proof HI as [Hd Hfin Hflast Hh]. pose proof HI' as [Hd' Hfin' Hflast' Hh'].
    (* the head before *)
    assert (Hhd : exists hd, last_sent s = Some hd).
    { destruct (last_sent s) as [hd|]; [eauto|]. destruct Hh as (HS0 & _). contradiction. }
    destruct Hhd as [hd Els]. rewrite Els in Hh. destruct Hh as (HhU & p & Hcp & HS & Hsp).
    destruct HFnew as [[HFn HFl]|(Hls0 & _)]; [|congruence].
    (* the head after *)
    assert (HS'ne : S' <> []) by (destruct HSS as [HSS|HSS]; [contradiction | exact HSS]).
    assert (Hhd' : exists hd', last_sent s' = Some hd').
    { destruct (last_sent s') as [hd'|]; [eauto|]. destruct Hh' as (HS0 & _). contradiction. }
    destruct Hhd' as [hd' Els']. rewrite Els' in Hh'. destruct Hh' as (HhU' & p' & Hcp' & HS' & Hsp').
    (* the shape of the events *)
    assert (Hhl : has_lib (db s) = true) by (apply (di_has_lib U (R a)); exact Hd).
    destruct (fk_step_fields cfg Hnofail Hincl s b Hhl Hcl (proj1 (U_id b Hb)))
      as (s2 & evU & evN & evL & r & Hrun & HsU & HsN & HsL & HF & Hc2 & Hx2).
    rewrite Hstep in Hrun. injection Hrun as <- Hevs <-.
    assert (HnuA : Forall nu evA).
    { eapply Forall_impl; [|exact HsA]. cbn beta. unfold nu. tauto. }
    assert (HnuUN : Forall nu (evU ++ evN)).
    { apply Forall_app. split; [eapply Forall_impl; [|exact HsU] | eapply Forall_impl; [|exact HsN]]; cbn beta; unfold nu; auto. }
    assert (HqIS : Forall quiet (evI ++ evS)).
    { apply Forall_app. split; [eapply Forall_impl; [|exact HsI] | eapply Forall_impl; [|exact HsS]]; cbn beta; unfold quiet; auto. }
    rewrite (app_assoc evU evN evL) in Hevs.
    destruct (nu_split _ _ _ _ Hevs HnuA HnuUN HqIS HsL) as [-> <-].
    (* the pending chain before *)
    assert (HQp : Forall (fun x => In x U /\ bnum L < bnum x) (map eb p)).
    { apply Forall_forall. intros x Hxin. apply in_map_iff in Hxin as (e & <- & He). split.
      - apply (di_inU U _ _ Hd). eapply chain_in; eassumption.
      - rewrite <- HrnL. apply (di_above U (R a) U_id U_up _ Hd _ _ Hcp e He). }
    assert (Hlp : linked (bid L) (map eb p)).
    { pose proof (inv_linked U (R a) cfg s Fin S _ _ HI Hcp) as H. rewrite tipid_tip, <- Htip in H. exact H. }
    (* the Undo events *)
    rewrite HS in Happ.
    destruct (apply_all_split _ evU evN _ _ Happ) as (S1 & HappU & HappN).
    assert (HundoU : forall e, In e evU -> In (eblk e) U /\ rn (libref (db s)) < bnum (eblk e)).
    { intros e He. apply HuA; [apply in_or_app; left; exact He|]. rewrite Forall_forall in HsU. apply HsU. exact He. }
    assert (Hnodig : forall e, In e evU -> In (eblk e) U /\ ~ In (bid (eblk e)) (map bid Fin)).
    { intros e He. destruct (HundoU e He) as [HeU Hlt]. split; [exact HeU|]. intros Hin.
      apply in_map_iff in Hin as (x & Ex & Hxin). rewrite Forall_forall in Hfin. destruct (Hfin x Hxin) as [HxU Hxn].
      assert (x = eblk e) by (apply U_uniq; assumption). subst x. lia. }
    assert (HpU : Forall (fun x => In x U) (map eb p)).
    { eapply Forall_impl; [|exact HQp]. cbn beta. tauto. }
    destruct (undo_phase U U_uniq (ri (R a)) Fin true evU (map eb p) S1 HsU Hnodig HpU HappU) as (Q0 & HQ0 & HS1 & HcU).
    (* the New events *)
    destruct (new_phase (ri (R a)) (length Fin) true evN S1 S' HsN HappN) as [HS'2 HcN].
    assert (HQn : Q0 ++ map eblk evN = Fnew ++ map eb p').
    { apply (app_inv_head Fin). apply rev_inj. rewrite !app_assoc, <- HS', HS'2, HS1.
      rewrite (rev_app_distr (Fin ++ Q0)). reflexivity. }
    assert (HFnU : Forall (fun x => In x U /\ bnum L < bnum x) Fnew).
    { apply Forall_forall. intros x Hxin. rewrite Forall_forall in HFn, Hfin'. destruct (HFn x Hxin) as [H1 _].
      split; [apply Hfin'; apply in_or_app; right; exact Hxin | lia]. }
    assert (HQp' : Forall (fun x => In x U /\ bnum L < bnum x) (map eb p')).
    { apply Forall_forall. intros x Hxin. apply in_map_iff in Hxin as (e & <- & He). split.
      - apply (di_inU U _ _ Hd'). eapply chain_in; eassumption.
      - pose proof (di_above U (R a) U_id U_up _ Hd' _ _ Hcp' e He). lia. }
    assert (HlF : linked (bid L) Fnew) by (rewrite <- HriL; exact HFl).
    assert (Hlall : linked (bid L) (Fnew ++ map eb p')).
    { apply linked_app_iff. split; [exact HlF|].
      pose proof (inv_linked U (R a) cfg s' (Fin ++ Fnew) S' _ _ HI' Hcp') as H.
      rewrite tipid_tip, <- libblk_tip0, libblk_tip in H. exact H. }
    (* the consumer through the whole step *)
    assert (HrevS' : rev S' = Fin ++ Fnew ++ map eb p').
    { rewrite HS', rev_involutive, <- app_assoc. reflexivity. }
    assert (Hfold : cons_fold c ((evU ++ evN) ++ evI ++ evS) = Some (mkCons S' (length (Fin ++ Fnew)) true)).
    { rewrite Hc, HS, <- app_assoc, cfold_app, HcU, cfold_app, HcN, cfold_app.
      rewrite (irr_phase U U_uniq S' evI Fnew Fin (map eb p') HmI HsI HrevS'). apply quiet_stalled. exact HsS. }
    (* the stored blocks *)
    assert (Hself : forall e0, find (bid b) (store (db s)) = Some e0 -> eb e0 = b).
    { intros e0 He0. exact (stored_is_self U U_uniq _ _ _ (di_inU U _ _ Hd) Hb He0). }
    destruct (fk_step_store cfg Hnofail Hnew Hincl s b Hhl (proj1 (U_id b Hb)) Hself)
      as (new & Hnewc & (s3 & evs3 & r3 & Hrun3 & HN & T & HT & HTl)).
    rewrite Hstep in Hrun3. injection Hrun3 as <- <- <-.
    set (B0 := map eb (store (db s)) ++ new) in *.
    pose proof (ret_start s' T B0 HT HTl) as HRet0.
    assert (Hpres : forall B1, Ret B1 s -> Ret B1 s').
    { intros B1 HR1. destruct (dropped s b) eqn:Hdr.
      - pose proof (fk_step_dropped U cfg U_id s b Hb Hdr) as Hdrop. rewrite Hstep in Hdrop. injection Hdrop as -> _. exact HR1.
      - apply (ret_filter B1 s s' T new b HR1 HT Hnewc HTl Hmono). intros _ Hb1. destruct HR1 as [_ HK].
        destruct (HK b Hb1) as [Hsb|Hlt]; [exact Hsb|]. exfalso. unfold dropped in Hdr. rewrite Els in Hdr.
        rewrite andb_true_r in Hdr. apply N.ltb_ge in Hdr. lia. }
    assert (HLst : In L B0).
    { apply in_or_app. left. pose proof (di_num U _ _ Hd) as Hnum. unfold num_of in Hnum.
      destruct (find (ri (libref (db s))) (store (db s))) as [el|] eqn:Fel; [|rewrite Hx in Hnum; discriminate].
      pose proof (find_some _ _ _ Fel) as [Hel Hkel].
      assert (eb el = L) by (apply U_uniq; [apply (di_inU U _ _ Hd); exact Hel | exact HLU | unfold key in Hkel; congruence]).
      subst L. rewrite <- H. apply in_map. exact Hel. }
    assert (HpB0 : forall x, In x (map eb p) -> In x B0).
    { intros x Hxin. apply in_or_app. left. apply in_map_iff in Hxin as (e0 & <- & He0). apply in_map. eapply chain_in; eassumption. }
    assert (HnewB0 : forall e0, In e0 evN -> In (eblk e0) B0).
    { intros e0 He0. apply HN; [apply in_or_app; left; apply in_or_app; right; exact He0|].
      rewrite Forall_forall in HsN. apply HsN. exact He0. }
    exists s', ((evU ++ evN) ++ evI ++ evS), Fnew, S', (mkCons S' (length (Fin ++ Fnew)) true).
    split; [exact Hstep|]. split.
    { constructor; try assumption; try reflexivity.
      - destruct (Hc2 eq_refl) as [H|(f & Hf & _)]; [exact H | discriminate].
      - apply Hx2. exact Hx. }
    split; [exact Hfold|]. split; [exact HlF|]. split; [exact HFnU|]. split; [|split; [exact Hpres|]].
    2:{ (* the Irreversible events *)
      intros l1 e l2 Hsplit HeI.
      destruct (irr_locate _ _ _ _ _ _ Hsplit HnuUN HsS HeI) as (i1 & i2 & HevI).
      assert (HFsplit : Fnew = map eblk i1 ++ eblk e :: map eblk i2).
      { rewrite <- HmI, HevI, map_app. reflexivity. }
      destruct (fk_step_irr cfg Hnofail Hnew Hincl s b Hhl) as (s4 & evs4 & r4 & Hrun4 & Hirf).
      rewrite Hstep in Hrun4. injection Hrun4 as _ <- _.
      assert (Hef : ecblk e = bref (eblk e) /\ elib e = bref (eblk e)).
      { rewrite Forall_forall in Hirf. apply Hirf; [|exact HeI]. rewrite Hsplit. apply in_or_app. right. left. reflexivity. }
      destruct Hef as [Hecb Helb].
      rewrite HFsplit in HlF, HFnU.
      assert (HeU : In (eblk e) U).
      { apply Forall_app in HFnU as [_ G]. destruct (Forall_inv G) as [G1 _]. exact G1. }
      exists (Fin ++ map eblk i1 ++ [eblk e]), (map eblk i2).
      split; [rewrite HFsplit, <- !app_assoc; reflexivity|].
      split; [unfold libblk; rewrite !app_assoc, rev_app_distr; reflexivity|].
      split; [exact HeU|]. split; [exact Hecb|]. split; [exact Helb|].
      apply linked_app_iff in HlF as [_ HlF]. cbn [linked] in HlF. destruct HlF as [_ HlF].
      apply Forall_app in HFnU as [_ HFnU]. pose proof (Forall_inv_tail HFnU) as HF2.
      split; [exact HlF|].
      assert (HF2U : Forall (fun x => In x U) (map eblk i2)) by (eapply Forall_impl; [|exact HF2]; cbn beta; tauto).
      pose proof (linked_gt _ _ HeU HlF HF2U) as Hgt.
      apply Forall_forall. intros x Hxin. rewrite Forall_forall in HF2U, Hgt. split; [apply HF2U | apply Hgt]; exact Hxin. }
    (* the events one by one *)
    intros l1 e l2 Hsplit Hnu.
    destruct (nu_in_front _ _ _ _ _ Hsplit HqIS Hnu) as (l2' & HA & _).
    assert (HeF : elib e = bref L /\ ecblk e = bref (eblk e)).
    { rewrite Forall_forall in HF. destruct (HF e) as [H1 H2]; [rewrite HA; apply in_or_app; right; left; reflexivity|].
      split; [rewrite H1, Hcl; exact Hlib | exact H2]. }
    destruct HeF as [Helib Hecb].
    assert (HPfin : Forall (fun x => In x U /\ bnum x <= bnum L) Fin).
    { eapply Forall_impl; [|exact Hfin]. cbn beta. intros x [H1 H2]. split; [exact H1 | lia]. }
    destruct Hnu as [HeN|HeUn].
    - (* a New event *)
      destruct (new_in_back _ _ _ _ _ HA HsU HeN) as (n1 & -> & HevN).
      rewrite HevN in HappN. change (n1 ++ e :: l2') with (n1 ++ [e] ++ l2') in HappN. rewrite app_assoc in HappN.
      destruct (apply_all_split _ (n1 ++ [e]) l2' _ _ HappN) as (Sk & Happk & _).
      assert (HsNk : Forall (fun x => estep x = SNew) (n1 ++ [e])).
      { rewrite HevN in HsN. apply Forall_app in HsN as [G1 G2]. apply Forall_app. split; [exact G1|].
        constructor; [exact (Forall_inv G2) | constructor]. }
      destruct (new_phase (ri (R a)) (length Fin) true (n1 ++ [e]) S1 Sk HsNk Happk) as [HSk Hck].
      set (Q := Q0 ++ map eblk n1 ++ [eblk e]).
      assert (HQpre : Fnew ++ map eb p' = Q ++ map eblk l2').
      { rewrite <- HQn, HevN. unfold Q. rewrite map_app. cbn [map]. rewrite <- !app_assoc. reflexivity. }
      assert (HSkQ : Sk = rev (Fin ++ Q)).
      { rewrite HSk, HS1, map_app. cbn [map]. unfold Q. rewrite <- rev_app_distr, <- !app_assoc. reflexivity. }
      exists (mkCons Sk (length Fin) true), Fin, Q, Fnew, B0.
      split; [rewrite <- app_assoc, Hc, HS, cfold_app, HcU; exact Hck|].
      split; [|split; [reflexivity|split; [exact HlF |split; [exact HFnU|split; [|exact HRet0]]]]].
      2:{ split; [exact HLst|]. split.
          - unfold Q. apply Forall_app. split; [|apply Forall_app; split].
            + apply Forall_forall. intros x Hxin. apply HpB0. rewrite HQ0. apply in_or_app. left. exact Hxin.
            + apply Forall_forall. intros x Hxin. apply in_map_iff in Hxin as (e0 & <- & He0). apply HnewB0.
              rewrite HevN. apply in_or_app. left. exact He0.
            + constructor; [|constructor]. apply HnewB0. rewrite HevN. apply in_or_app. right. left. reflexivity.
          - apply HnewB0. rewrite HevN. apply in_or_app. right. left. reflexivity. }
      assert (HQall : Forall (fun x => In x U /\ bnum L < bnum x) (Q ++ map eblk l2')).
      { rewrite <- HQpre. apply Forall_app. split; assumption. }
      apply Forall_app in HQall as [HQU _].
      assert (HeQ : In (eblk e) Q) by (unfold Q; apply in_or_app; right; apply in_or_app; right; left; reflexivity).
      apply mkCurAt.
      + exact HSkQ.
      + exact HLU.
      + exact Helib.
      + exact HPfin.
      + exact HQU.
      + rewrite HQpre in Hlall. eapply linked_prefix. exact Hlall.
      + rewrite Forall_forall in HQU. apply HQU. exact HeQ.
      + exact Hecb.
      + intros _. exists (Fin ++ Q0 ++ map eblk n1). unfold Q. rewrite <- !app_assoc. reflexivity.
      + intros H. rewrite HeN in H. discriminate.
    - (* an Undo event *)
      destruct (undo_in_front _ _ _ _ _ HA HsN HeUn) as (u2 & HevU & _).
      rewrite HevU in HappU. change (l1 ++ e :: u2) with (l1 ++ [e] ++ u2) in HappU. rewrite app_assoc in HappU.
      destruct (apply_all_split _ (l1 ++ [e]) u2 _ _ HappU) as (Sk & Happk & _).
      assert (HsUk : Forall (fun x => estep x = SUndo) (l1 ++ [e])).
      { rewrite HevU in HsU. apply Forall_app in HsU as [G1 G2]. apply Forall_app. split; [exact G1|].
        constructor; [exact (Forall_inv G2) | constructor]. }
      assert (Hnodigk : forall x, In x (l1 ++ [e]) -> In (eblk x) U /\ ~ In (bid (eblk x)) (map bid Fin)).
      { intros x Hxin. apply Hnodig. rewrite HevU. apply in_app_or in Hxin as [Hxin|[<-|[]]]; apply in_or_app; [left; exact Hxin | right; left; reflexivity]. }
      destruct (undo_phase U U_uniq (ri (R a)) Fin true (l1 ++ [e]) (map eb p) Sk HsUk Hnodigk HpU Happk) as (Qk & HQk & HSk & Hck).
      rewrite map_app, rev_app_distr in HQk. cbn [map rev app] in HQk.
      exists (mkCons Sk (length Fin) true), Fin, Qk, Fnew, B0.
      split; [rewrite Hc, HS; exact Hck|].
      split; [|split; [reflexivity|split; [exact HlF |split; [exact HFnU|split; [|exact HRet0]]]]].
      2:{ split; [exact HLst|]. split.
          - apply Forall_forall. intros x Hxin. apply HpB0. rewrite HQk. apply in_or_app. left. exact Hxin.
          - apply HpB0. rewrite HQk. apply in_or_app. right. left. reflexivity. }
      rewrite HQk in HQp, Hlp. apply Forall_app in HQp as [HQkU _].
      destruct (HundoU e) as [HeU Hlt]; [rewrite HevU; apply in_or_app; right; left; reflexivity|].
      apply mkCurAt.
      + exact HSk.
      + exact HLU.
      + exact Helib.
      + exact HPfin.
      + exact HQkU.
      + eapply linked_prefix. exact Hlp.
      + exact HeU.
      + exact Hecb.
      + intros H. rewrite HeUn in H. discriminate.
      + intros _. split; [apply (linked_mid _ _ _ _ Hlp) | change (bnum L < bnum (eblk e)); lia].
  Qed.

  (* ---------------------------------------------------------------- the step that discovers the LIB *)

  Notation first := (c_first cfg).

  (* the final part is a parent-linked run that rests on the discovered LIB block a, or starts with it *)
  Definition FinRooted (a : block) (Fin : list block) : Prop :=
    linked (bid a) Fin \/ exists F', Fin = a :: F' /\ linked (bid a) F'.

  Lemma fin_rooted_app a Fin F2 : FinRooted a Fin -> linked (bid (libblk a Fin)) F2 -> FinRooted a (Fin ++ F2).
  Proof.
    intros [H|(F' & -> & H)] H2.
    - left. apply linked_app_iff. split; [exact H|]. rewrite <- libblk_tip0. exact H2.
    - right. exists (F' ++ F2). split; [reflexivity|]. apply linked_app_iff. split; [exact H|].
      replace (tip (bid a) F') with (bid (libblk a (a :: F'))); [exact H2|].
      change (a :: F') with ([a] ++ F'). rewrite libblk_tip. reflexivity.
  Qed.

  Definition DiscOut2 (res : fstate * list event * result) : Prop :=
    exists a s' evs Fin S' c',
      res = (s', evs, ROk) /\ Post a s' Fin S' c' /\ cons_fold cons0 evs = Some c' /\ MidFacts cons0 evs a Fin s' /\
      FinRooted a Fin /\ IrrFacts evs a Fin.

  Lemma pii_ok2 b s2 : exists s' eI,
    process_initial_inclusive cfg b s2 = (s', [mkEv SNew b (bref b) (bref b) (cursor_lib s2) None 0 0; eI], true) /\
    estep eI = SIrr /\ eblk eI = b /\ db s' = db s2 /\ last_sent s' = Some b /\ last_lib_seen s' = bref b /\
    ecblk eI = bref b /\ elib eI = bref b.
  Proof.
    unfold process_initial_inclusive. rewrite Hnew, (call_ok cfg Hnofail). cbv beta iota zeta.
    set (tiny := mkSeg (bid b) (bnum b) (mkEntry b false)).
    set (s1' := mkFS (db (mkFS (db s2) (last_sent s2) (last_lib_seen s2) (ncalls s2 + 1))) (Some b)
                     (last_lib_seen (mkFS (db s2) (last_sent s2) (last_lib_seen s2) (ncalls s2 + 1)))
                     (ncalls (mkFS (db s2) (last_sent s2) (last_lib_seen s2) (ncalls s2 + 1)))).
    destruct (process_irr_segment_ok cfg Hnofail [tiny] tiny [] (bref b) s1' eq_refl)
      as (s' & evI & Hrun & Hdb & Hls & Hlls & Hm & Hs).
    rewrite Hrun. cbv beta iota. rewrite Hirr in Hm. cbn [map sent eb tiny] in Hm.
    destruct evI as [|eI [|? ?]]; try discriminate. cbn [map] in Hm. injection Hm as HeI.
    destruct (pis_irr cfg Hnofail [tiny] (bref b) s1') as (s5 & ev5 & ok5 & Hrun5 & Hf5).
    rewrite Hrun in Hrun5. injection Hrun5 as _ <- _. destruct (Forall_inv Hf5) as [Hf1 Hf2]. rewrite HeI in Hf1, Hf2.
    exists s', eI. split; [reflexivity|]. split; [exact (Forall_inv Hs)|]. split; [exact HeI|].
    split; [rewrite Hdb; reflexivity|]. split; [rewrite Hls; reflexivity|]. split; [rewrite Hlls; reflexivity|]. auto.
  Qed.

  Lemma pre_cursor_lib s d2 : last_lib_seen s = ref_empty -> cursor_lib (with_db s d2) = libref d2.
  Proof. intros H. unfold cursor_lib. cbn [with_db last_lib_seen db]. rewrite H. reflexivity. Qed.

  Lemma own_out2 s b : PreInv U cfg s -> In b U -> find (bid b) (store (db s)) = None ->
    DiscOut2 (let '(s', evs, ok) := process_initial_inclusive cfg b (with_db s (move_lib (new_db (db s) b) (bref b))) in
              (s', evs, if ok then ROk else RHandlerErr)).
  Proof.
    intros HP Hb Hf. pose proof HP as [Hl He Hnd HU Hun Hls Hlls Hrt].
    set (en := mkEntry b false).
    assert (Hen : In en (store (db s) ++ [en])) by (apply in_or_app; right; left; reflexivity).
    pose proof (dbinv_found U cfg U_id U_uniq U_up s b en HP Hb Hf Hen) as Hd2. cbn [eb en] in Hd2.
    change (R b) with (bref b) in Hd2.
    set (d2 := move_lib (new_db (db s) b) (bref b)) in *. set (s2 := with_db s d2).
    destruct (pii_ok2 b s2) as (s' & eI & Hrun & HsI & HbI & Hdb & Hls' & Hlls' & HcI & HlI).
    rewrite Hrun. cbv beta iota.
    assert (Hcl2 : cursor_lib s2 = bref b) by (apply pre_cursor_lib; exact Hlls).
    rewrite Hcl2.
    set (ev := mkEv SNew b (bref b) (bref b) (bref b) None 0 0).
    assert (Hdb' : db s' = d2) by (rewrite Hdb; reflexivity).
    exists b, s', [ev; eI], [b], [b], (mkCons [b] 1 true).
    split; [reflexivity|]. split; [|split; [|split; [|split; [right; exists []; split; [reflexivity | exact I]|]]]].
    4:{ intros l1 e l2 Hsp HeI'. destruct l1 as [|x1 l1]; cbn [app] in Hsp.
        - injection Hsp as <- _. discriminate.
        - injection Hsp as _ Hsp. destruct l1 as [|y1 l1]; cbn [app] in Hsp; [|injection Hsp as _ Hsp; destruct l1; discriminate].
          injection Hsp as <- _. exists [b], []. split; [reflexivity|]. cbn [libblk rev app]. rewrite HbI.
          split; [reflexivity|]. split; [exact Hb|]. split; [exact HcI|]. split; [exact HlI|]. split; [exact I | constructor]. }
    - constructor.
      + exact Hb.
      + constructor; rewrite ?Hdb'.
        * exact Hd2.
        * constructor; [|constructor]. split; [exact Hb | apply N.le_refl].
        * reflexivity.
        * rewrite Hls'. split; [exact Hb|]. exists []. split; [constructor|]. split; [reflexivity | constructor].
      + reflexivity.
      + apply (cursor_lib_self s'). rewrite Hlls', Hdb'. reflexivity.
      + discriminate.
      + rewrite Hdb'. exact He.
    - cbn [cons_fold]. unfold cons_apply at 1. cbn [estep ev cons0 cs_stack cs_nf cs_any eblk].
      unfold cons_apply. rewrite HsI, HbI. cbn [cs_stack cs_nf cs_any]. unfold nth_from_bottom. cbn [rev app nth_error].
      rewrite N.eqb_refl. reflexivity.
    - intros l1 e l2 Hsp Hn.
      destruct l1 as [|x l1]; cbn [app] in Hsp.
      + injection Hsp as <- _. exists (mkCons [b] 0 false), [b], [], [], [b]. split; [reflexivity|]. split.
        * apply mkCurAt; cbn [libblk rev app].
          -- reflexivity.
          -- exact Hb.
          -- reflexivity.
          -- constructor; [|constructor]. split; [exact Hb | apply N.le_refl].
          -- constructor.
          -- exact I.
          -- exact Hb.
          -- reflexivity.
          -- intros _. exists []. reflexivity.
          -- intros H. discriminate.
        * split; [reflexivity|]. split; [exact I|]. split; [constructor|]. split.
          -- cbn [libblk rev app]. split; [left; reflexivity|]. split; [constructor | left; reflexivity].
          -- assert (Hstb : stored s' b).
             { unfold stored. rewrite Hdb'. cbn [d2 move_lib new_db store]. rewrite map_app. apply in_or_app. right. left. reflexivity. }
             split.
             ++ intros x0 y0 [<-|[]] [<-|[]] _ _. exact Hstb.
             ++ intros x0 [<-|[]]. left. exact Hstb.
      + injection Hsp as <- Hsp. destruct l1 as [|y l1]; cbn [app] in Hsp.
        * injection Hsp as <- _. exfalso. destruct Hn as [Hn|Hn]; rewrite HsI in Hn; discriminate.
        * injection Hsp as _ Hsp. destruct l1; discriminate.
  Qed.

  Lemma seg_of_std l : Forall std_sg (map seg_of l).
  Proof. apply Forall_forall. intros sg H. apply in_map_iff in H as (e & <- & _). reflexivity. Qed.

  Lemma found_out2 s b y A a B' :
    PreInv U cfg s -> In b U -> find (bid b) (store (db s)) = None ->
    chain (store (db s) ++ [mkEntry b false]) (bid b) y (A ++ a :: B' ++ [mkEntry b false]) ->
    bnum (eb a) = blib b ->
    DiscOut2 (process_tail cfg (with_db s (move_lib (new_db (db s) b) (R (eb a)))) b [] [] None
                           (map seg_of (B' ++ [mkEntry b false])) (Some (seg_of a))).
  Proof.
    intros HP Hb Hf Hc Hbl. pose proof HP as [Hl He Hnd HU Hun Hls Hlls Hrt].
    set (en := mkEntry b false) in *. set (l1 := store (db s) ++ [en]) in *.
    assert (Hain : In a (A ++ a :: B' ++ [en])) by (apply in_or_app; right; left; reflexivity).
    assert (Ha : In a l1) by (eapply chain_in; eassumption).
    pose proof (dbinv_found U cfg U_id U_uniq U_up s b a HP Hb Hf Ha) as Hd2.
    assert (HaU : In (eb a) U) by (apply (di_inU U _ _ Hd2); exact Ha).
    set (d2 := move_lib (new_db (db s) b) (R (eb a))) in *. set (s2 := with_db s d2).
    pose proof (di_wf U (R (eb a)) U_id U_up _ Hd2) as Hwf2.
    assert (Hc2 : chain (store (db s2)) (bid b) (ri (libref (db s2))) (B' ++ [en])).
    { apply (chain_suffix l1 y (B' ++ [en]) (bid b) A a Hwf2 Hc). }
    assert (HI2 : Inv U (R (eb a)) cfg s2 [] []).
    { constructor.
      - exact Hd2.
      - constructor.
      - reflexivity.
      - cbn [s2 with_db last_sent]. rewrite Hls. split; [reflexivity|]. split; [reflexivity|]. split.
        + intros e Hin. cbn [db d2 move_lib new_db store] in Hin.
          apply in_app_or in Hin as [Hin|[<-|[]]]; [apply Hun; exact Hin | reflexivity].
        + rewrite Hincl. discriminate. }
    destruct (trigger_first U (R (eb a)) cfg Hnofail Hnew Hundo U_id U_uniq U_up (R_id U U_id _ HaU) (R_num U U_uniq _ HaU)
                (R_up U U_up _ HaU) (R_decl U U_uniq D_decl _ HaU)
                s2 [] [] b B' [] B' [] None (Some (seg_of a)) HI2 Hb Hc2 eq_refl (Forall_nil _) eq_refl)
      as (s3 & evU & evRN & Hrun & Happ & HI3 & Hk3 & Hls3 & Hlr3 & HmU & HsU & HsRN & Hcl).
    assert (HfB : filter esent B' = []).
    { assert (G : forall x, In x B' -> esent x = false).
      { intros x Hx. assert (Hx1 : In x l1).
        { eapply chain_in; [exact Hc|]. apply in_or_app. right. right. apply in_or_app. left. exact Hx. }
        apply in_app_or in Hx1 as [Hx1|[<-|[]]]; [apply Hun; exact Hx1 | reflexivity]. }
      clear -G. induction B' as [|h t IHt]; cbn [filter]; [reflexivity|].
      rewrite (G h (or_introl eq_refl)). apply IHt. intros x Hx. apply G. right. exact Hx. }
    cbn [rev] in Hrun, HmU. rewrite HfB in Hrun. fold en in Hrun. fold s2.
    apply map_eq_nil in HmU. subst evU. cbn [app] in *.
    assert (Hne : bid b <> key a).
    { destruct (chain_snoc_inv _ _ _ _ _ Hc2) as (Hx & _ & _). exact Hx. }
    assert (Hsto : find (key a) (store (db s3)) <> None).
    { intros Hn. apply find_none in Hn. apply Hn. rewrite Hk3. apply in_map. exact Ha. }
    destruct (disc_lib U cfg Hnofail U_id U_uniq U_up D_decl s3 _ b evRN a HaU HI3 Hlr3 Hls3 Hb Hne (eq_sym Hbl) Hsto)
      as (s' & evI & Hlt & HI' & HsI & HmI & Hlr' & _).
    rewrite Hirr in HmI. destruct evI as [|eI [|? ?]]; try discriminate. cbn [map] in HmI. injection HmI as HeI.
    pose proof (Forall_inv HsI) as HsI1. cbn beta in HsI1.
    (* the fields of the events *)
    assert (Hcl2 : cursor_lib s2 = R (eb a)) by (apply pre_cursor_lib; exact Hlls).
    destruct (process_tail_fields cfg Hnofail s2 b [] [] None (map seg_of (B' ++ [en])) (Some (seg_of a))
                (seg_of_std _) Hcl2) as (s'' & evU' & evN' & evL' & r & Hrun2 & HsU' & HsN' & HsL' & HF & Hc2' & Hx2).
    rewrite Hrun, Hlt in Hrun2. injection Hrun2 as <- Hevs <-.
    assert (HA : evRN = evU' ++ evN' /\ [eI] = evL').
    { rewrite (app_assoc evU' evN' evL') in Hevs. apply (nu_split _ _ _ _ Hevs).
      - eapply Forall_impl; [|exact HsRN]. cbn beta. unfold nu. auto.
      - apply Forall_app. split; [eapply Forall_impl; [|exact HsU'] | eapply Forall_impl; [|exact HsN']]; cbn beta; unfold nu; auto.
      - constructor; [left; exact HsI1 | constructor].
      - exact HsL'. }
    destruct HA as [HA _]. rewrite <- HA, Hcl2 in HF.
    rewrite Hrun, Hlt.
    (* the consumer *)
    set (S3 := rev ([] ++ map eb (B' ++ [en]))) in *.
    destruct (new_phase (ri (R (eb a))) 0 false evRN [] S3 HsRN Happ) as [HS3 HcN].
    rewrite app_nil_r in HS3.
    assert (HQall : map eblk evRN = map eb (B' ++ [en])).
    { apply rev_inj. rewrite <- HS3. reflexivity. }
    pose proof HI' as [Hd' _ _ Hh'].
    assert (Hls' : exists hd', last_sent s' = Some hd').
    { destruct (last_sent s') as [hd'|]; [eauto|]. destruct Hh' as (HS0 & _). exfalso.
      unfold S3 in HS0. cbn [app] in HS0. rewrite map_app, rev_app_distr in HS0. discriminate. }
    destruct Hls' as [hd' Els']. rewrite Els' in Hh'. destruct Hh' as (_ & p' & Hcp' & HSp' & _).
    assert (Hpp : map eb p' = map eb (B' ++ [en])).
    { apply rev_inj. cbn [app] in HSp'. rewrite <- HSp'. reflexivity. }
    assert (HlQ : linked (bid (eb a)) (map eb (B' ++ [en]))).
    { rewrite <- Hpp. exact (inv_linked U (R (eb a)) cfg s' [] S3 _ _ HI' Hcp'). }
    assert (HQU : Forall (fun x => In x U /\ bnum (eb a) < bnum x) (map eb (B' ++ [en]))).
    { rewrite <- Hpp. apply Forall_forall. intros x Hxin. apply in_map_iff in Hxin as (e & <- & Hein). split.
      - apply (di_inU U _ _ Hd'). eapply chain_in; eassumption.
      - pose proof (di_above U (R (eb a)) U_id U_up _ Hd' _ _ Hcp' e Hein) as H. rewrite Hlr' in H. exact H. }
    assert (HS3ne : S3 <> []).
    { unfold S3. cbn [app]. rewrite map_app, rev_app_distr. discriminate. }
    (* the stored blocks *)
    assert (Hlne : map seg_of (B' ++ [en]) <> []) by (destruct B'; discriminate).
    destruct (process_tail_store cfg Hnofail Hnew s2 b [] [] None (map seg_of (B' ++ [en])) (Some (seg_of a)) Hlne)
      as (s4 & evs4 & r4 & Hrun4 & _ & T & HT & HTl).
    rewrite Hrun, Hlt in Hrun4. injection Hrun4 as <- _ _.
    set (B0 := map eb (store (db s2))) in *.
    pose proof (ret_start s' T B0 HT HTl) as HRet0.
    assert (HB0 : forall x, In x (map eb (B' ++ [en])) -> In x B0).
    { intros x Hx. apply in_map_iff in Hx as (e0 & <- & He0). apply in_map. eapply chain_in; [exact Hc2 | exact He0]. }
    assert (HLB0 : In (eb a) B0) by (apply in_map; exact Ha).
    exists (eb a), s', (evRN ++ [eI]), [], S3, (mkCons S3 0 true).
    split; [reflexivity|]. split; [|split; [|split; [|split; [left; exact I|]]]].
    4:{ intros k1 e k2 Hsp HeI'.
        destruct (app_split_cases _ _ _ _ _ Hsp) as [(x2 & HRe & _)|(E1 & _ & Hlast)].
        - exfalso. rewrite Forall_forall in HsRN. rewrite (HsRN e) in HeI'; [discriminate|].
          rewrite HRe. apply in_or_app. right. left. reflexivity.
        - destruct E1 as [|z E1]; cbn [app] in Hlast; [|injection Hlast as _ Hlast; destruct E1; discriminate].
          injection Hlast as <- _.
          destruct (process_tail_irr cfg Hnofail Hnew s2 b [] [] None (map seg_of (B' ++ [en])) (Some (seg_of a)) Hlne)
            as (s5 & evs5 & r5 & Hrun5 & Hirf).
          rewrite Hrun, Hlt in Hrun5. injection Hrun5 as _ <- _.
          assert (Hef : ecblk eI = bref (eblk eI) /\ elib eI = bref (eblk eI)).
          { rewrite Forall_forall in Hirf. apply Hirf; [apply in_or_app; right; left; reflexivity | exact HsI1]. }
          destruct Hef as [Hecb Helb].
          exists [], []. split; [reflexivity|]. cbn [libblk rev]. rewrite HeI.
          split; [reflexivity|]. split; [exact HaU|]. rewrite <- HeI. split; [exact Hecb|]. split; [exact Helb|].
          split; [exact I | constructor]. }
    - constructor.
      + exact HaU.
      + exact HI'.
      + reflexivity.
      + destruct (Hc2' eq_refl) as [H|(f & Hff & Hlls')]; [exact H|].
        injection Hff as <-. apply cursor_lib_self. rewrite Hlls', Hlr'. reflexivity.
      + exact HS3ne.
      + apply Hx2. cbn [s2 with_db db d2 move_lib new_db extra]. exact He.
    - rewrite cfold_app. change cons0 with (mkCons [] 0 false). rewrite HcN.
      cbn [cons_fold]. unfold cons_apply. rewrite HsI1. cbn [cs_stack cs_nf cs_any]. unfold nth_from_bottom.
      unfold S3 at 1. rewrite rev_involutive. cbn [app].
      destruct (map eb (B' ++ [en])) as [|x rest] eqn:EQ.
      { exfalso. apply map_eq_nil in EQ. destruct B'; discriminate. }
      cbn [nth_error]. cbn [linked] in HlQ. destruct HlQ as [Hpar _].
      pose proof (Forall_inv HQU) as [HxU Hxn]. cbn beta in HxU, Hxn. rewrite HeI.
      destruct (N.eqb_spec (bid x) (bid (eb a))) as [E|E].
      + exfalso. assert (x = eb a) by (apply U_uniq; assumption). subst x. lia.
      + cbn [negb andb Nat.eqb]. rewrite Hpar, N.eqb_refl. reflexivity.
    - intros l0 e l2 Hsp Hn.
      assert (Hq : Forall quiet [eI]) by (constructor; [left; exact HsI1 | constructor]).
      destruct (nu_in_front _ _ _ _ _ Hsp Hq Hn) as (l2' & HevRN & _).
      assert (HeF : elib e = R (eb a) /\ ecblk e = bref (eblk e)).
      { rewrite Forall_forall in HF. apply HF. rewrite HevRN. apply in_or_app. right. left. reflexivity. }
      destruct HeF as [Helib Hecb].
      rewrite HevRN in Happ. change (l0 ++ e :: l2') with (l0 ++ [e] ++ l2') in Happ. rewrite app_assoc in Happ.
      destruct (apply_all_split _ (l0 ++ [e]) l2' _ _ Happ) as (Sk & Happk & _).
      assert (HsNk : Forall (fun x => estep x = SNew) (l0 ++ [e])).
      { rewrite HevRN in HsRN. apply Forall_app in HsRN as [G1 G2]. apply Forall_app. split; [exact G1|].
        constructor; [exact (Forall_inv G2) | constructor]. }
      destruct (new_phase (ri (R (eb a))) 0 false (l0 ++ [e]) [] Sk HsNk Happk) as [HSk Hck].
      rewrite app_nil_r in HSk.
      set (Q := map eblk l0 ++ [eblk e]).
      assert (HQpre : map eb (B' ++ [en]) = Q ++ map eblk l2').
      { rewrite <- HQall, HevRN. unfold Q. rewrite map_app. cbn [map]. rewrite <- app_assoc. reflexivity. }
      assert (HQB0 : forall x, In x Q -> In x B0).
      { intros x Hx. apply HB0. rewrite HQpre. apply in_or_app. left. exact Hx. }
      rewrite HQpre in HlQ, HQU. apply Forall_app in HQU as [HQkU _].
      exists (mkCons Sk 0 false), [], Q, [], B0.
      split; [exact Hck|]. split; [|split; [reflexivity|split; [exact I |split; [constructor|split; [|exact HRet0]]]]].
      2:{ cbn [libblk rev]. split; [exact HLB0|]. split; [apply Forall_forall; exact HQB0|].
          apply HQB0. unfold Q. apply in_or_app. right. left. reflexivity. }
      cbn [libblk rev].
      apply mkCurAt.
      + cbn [cs_stack app]. rewrite HSk, map_app. reflexivity.
      + exact HaU.
      + exact Helib.
      + constructor.
      + exact HQkU.
      + eapply linked_prefix. exact HlQ.
      + rewrite Forall_forall in HQkU. apply HQkU. unfold Q. apply in_or_app. right. left. reflexivity.
      + exact Hecb.
      + intros _. exists (map eblk l0). reflexivity.
      + intros H. rewrite Forall_forall in HsNk. rewrite (HsNk e) in H; [discriminate|].
        apply in_or_app. right. left. reflexivity.
  Qed.

  (* ---------------------------------------------------------------- one ProcessBlock call before the discovery
     (Proofs/Fk/MovingLibDisc.pre_step with the richer description of the discovering step) *)

  Lemma pre_step2 s b : PreInv U cfg s -> In b U ->
    PreQuiet U cfg s b (fk_step cfg s b) \/ DiscOut2 (fk_step cfg s b).
  Proof.
    intros HP Hb. pose proof HP as [Hl He Hnd HU Hun Hls Hlls Hrt].
    destruct (find (bid b) (store (db s))) as [e|] eqn:Hf.
    { left. rewrite (pre_step_old U cfg Hhold Hincl U_id U_uniq U_up D_decl s b e HP Hb Hf). exists s. split; [reflexivity|]. split; [exact HP|].
      split; [auto|]. split; [auto|]. apply find_is_some_in. eauto. }
    assert (Hk : ~ In (bid b) (keys (store (db s)))) by (apply find_none; exact Hf).
    rewrite (fk_step_pre U cfg Hhold Hincl U_id U_uniq U_up D_decl s b HP Hb Hf). cbv zeta.
    set (en := mkEntry b false). set (d1 := new_db (db s) b).
    assert (Hl1 : libref d1 = ref_empty) by exact Hl.
    assert (He1 : extra d1 = None) by exact He.
    assert (Hnd1 : NoDup (keys (store d1))).
    { unfold d1. cbn [new_db store]. rewrite keys_snoc. apply nodup_snoc; assumption. }
    assert (HU1 : in_U (store d1)).
    { unfold d1. cbn [new_db store]. intros e Hin. apply in_app_or in Hin as [Hin|[<-|[]]]; [apply HU; exact Hin | exact Hb]. }
    pose proof (wf_of_U U U_id U_up _ Hnd1 HU1) as Hwf1.
    assert (Hfb : find (bid b) (store d1) = Some en).
    { unfold d1. cbn [new_db store]. apply (find_snoc_new (store (db s)) en). exact Hk. }
    destruct (max_chain (store d1) Hwf1 (fuel_of d1) (bid b) (enough_fuel_of d1 (bid b))) as (y & p & Hc & Hy).
    destruct p as [|top p' _] using rev_ind.
    { apply chain_nil_inv in Hc. rewrite <- Hc, Hfb in Hy. discriminate. }
    destruct (chain_top _ _ _ _ _ Hc) as [Hft _]. rewrite Hfb in Hft. injection Hft as <-.
    assert (Hquiet : has_lib d1 = false -> (bparent b = 0 -> bnum b <> first /\ bnum b <> blib b) ->
                     PreQuiet U cfg s b (with_db s d1, [], ROk)).
    { intros _ Hq. exists (with_db s d1). split; [reflexivity|]. split; [exact (pre_add U cfg s b HP Hb Hf Hq)|]. split; [intros H; contradiction|].
      cbn [with_db db d1 new_db store]. rewrite keys_snoc. split.
      - intros k Hin. apply in_or_app. left. exact Hin.
      - apply in_or_app. right. left. reflexivity. }
    assert (Hhl1 : has_lib d1 = false) by (unfold has_lib; rewrite Hl1; reflexivity).
    assert (Hown : forall d2, d2 = move_lib d1 (bref b) ->
              DiscOut2
              (if has_lib d2 then
                 if rn (libref d2) =? bnum b then
                   let '(s', evs, ok) := process_initial_inclusive cfg b (with_db s d2) in (s', evs, if ok then ROk else RHandlerErr)
                 else match reversible_segment d2 first (bref b) with
                      | None => (with_db s d2, [], RFuel)
                      | Some (longest, _) => if (match longest with [] => true | _ => false end) then (with_db s d2, [], ROk)
                                              else process_tail cfg (with_db s d2) b [] [] None longest (block_for_id d2 (ri (libref d2)))
                      end
               else (with_db s d2, [], ROk))).
    { intros d2 ->. unfold has_lib, move_lib, ref_eqb, ref_empty, bref. cbn [libref ri rn].
      destruct (N.eqb_spec (bid b) 0) as [E|E]; [exfalso; apply (proj1 (U_id b Hb)); exact E|]. cbn [andb negb].
      rewrite N.eqb_refl. apply own_out2; assumption. }
    unfold set_lib. change (rn (bref b)) with (bnum b).
    destruct (N.eqb_spec (bnum b) first) as [|Hnf].
    { right. cbv beta iota. apply (Hown _ eq_refl). }
    destruct (decl_on_store U U_uniq U_up (store d1) p' (bid b) y en HU1 Hc Hb (D_decl b Hb)) as [(A & a & B & Heq & Hna)|Hgt].
    - (* the declared height is the height of a stored ancestor-or-self *)
      rewrite Heq in Hc. cbn [eb en] in Hna.
      pose proof (bic_find d1 (bid b) y A a B en Hwf1 Hc Hfb) as Hbic. cbn [eb en] in Hbic. rewrite Hna in Hbic.
      change (mkR (bid b) (bnum b)) with (bref b) in Hbic. rewrite Hbic. cbn [ri].
      assert (Hain : In a (A ++ a :: B)) by (apply in_or_app; right; left; reflexivity).
      assert (Ha : In a (store d1)) by (eapply chain_in; eassumption).
      destruct (N.eqb_spec (key a) 0) as [E0|_]; [exfalso; apply (proj1 (ws_id _ Hwf1 a Ha)); exact E0|].
      right. cbv beta iota.
      destruct B as [|t B' _] using rev_ind.
      + (* the block is its own LIB *)
        destruct (chain_top _ _ _ _ _ Hc) as [Hfa _]. rewrite Hfb in Hfa. injection Hfa as <-.
        change (mkR (key en) (blib b)) with (mkR (bid b) (blib b)). rewrite <- Hna.
        change (mkR (bid b) (bnum b)) with (bref b). apply (Hown _ eq_refl).
      + assert (Ht : t = en).
        { replace (A ++ a :: B' ++ [t]) with ((A ++ a :: B') ++ [t]) in Hc by (rewrite <- app_assoc; reflexivity).
          destruct (chain_top _ _ _ _ _ Hc) as [Hft _]. congruence. }
        subst t.
        pose proof (dbinv_found U cfg U_id U_uniq U_up s b a HP Hb Hf Ha) as Hd2. rewrite <- Hna.
        change (mkR (key a) (bnum (eb a))) with (R (eb a)).
        set (d2 := move_lib d1 (R (eb a))) in *.
        rewrite (di_has_lib U (R (eb a)) d2 Hd2). cbn [d2 move_lib libref R rn].
        destruct (chain_split_order _ _ _ _ _ _ Hwf1 Hc) as [Habove _].
        assert (Hlt : bnum (eb a) < bnum b).
        { apply (Habove en). apply in_or_app. right. left. reflexivity. }
        destruct (N.eqb_spec (bnum (eb a)) (bnum b)) as [E|_]; [lia|].
        fold d2.
        assert (Hc2 : chain (store d2) (bid b) (ri (libref d2)) (B' ++ [en])).
        { apply (chain_suffix (store d1) y (B' ++ [en]) (bid b) A a Hwf1 Hc). }
        pose proof (rs_chain_lib d2 first (di_wf U _ U_id U_up d2 Hd2) (di_lid U _ d2 Hd2) (di_num U _ d2 Hd2) (di_up U _ d2 Hd2)
                      (bid b) (B' ++ [en]) en Hc2 Hfb) as Hrs.
        cbn [eb en] in Hrs. change (mkR (bid b) (bnum b)) with (bref b) in Hrs. rewrite Hrs by (destruct B'; discriminate).
        destruct (map seg_of (B' ++ [en])) as [|sg0 sgs] eqn:Emap.
        { apply map_eq_nil in Emap. destruct B'; discriminate. }
        rewrite <- Emap.
        assert (Hbf : block_for_id d2 (ri (libref d2)) = Some (seg_of a)).
        { unfold block_for_id. cbn [d2 move_lib libref R ri store]. change (bid (eb a)) with (key a).
          rewrite (find_in_nodup _ _ Hnd1 Ha). reflexivity. }
        change (ri (R (eb a))) with (ri (libref d2)). rewrite Hbf. apply (found_out2 s b y A a B' HP Hb Hf); [exact Hc | exact Hna].
    - (* no stored ancestor at the declared height: hold *)
      left. unfold block_in_chain. change (rn (bref b)) with (bnum b). change (ri (bref b)) with (bid b).
      assert (Hgb : blib b < bnum b).
      { apply (Hgt en). apply in_or_app. right. left. reflexivity. }
      destruct (N.eqb_spec (bnum b) (blib b)) as [E|_]; [lia|].
      rewrite (bic_all_gt d1 (blib b) Hwf1 He1 (bid b) y (p' ++ [en]) Hc Hy); [|destruct p'; discriminate | exact Hgt | apply enough_fuel_of].
      cbn [ri ref_empty]. rewrite N.eqb_refl. cbv beta iota. rewrite Hhl1. apply Hquiet; [exact Hhl1|].
      intros _. split; [exact Hnf | lia].
  Qed.
End Hub.
