(* Whole histories of a Forkable in hub configuration: the invariant of Proofs/Hub/HubInv.v along fk_run,
   and the ForkableHub of Model/Hub.v as a Forkable fed with a history (bootstrap passes included). *)
From BV Require Import Base.Prelude Model.Block Model.ForkDB Model.Forkable Model.ForkableLookups Model.Burst Model.Hub
  Spec.Consumer Spec.Universe Check.Fk_Check Check.Burst_Check
  Proofs.Fk.StoreFacts Proofs.Fk.WalkFacts Proofs.Fk.LoopFacts Proofs.Fk.StoreChange Proofs.Fk.SwitchFacts
  Proofs.Fk.FixedLib Proofs.Fk.MovingLibStore Proofs.Fk.MovingLibWalk Proofs.Fk.MovingLibLoops
  Proofs.Fk.MovingLibInv Proofs.Fk.MovingLibFin Proofs.Fk.MovingLibDisc
  Proofs.Hub.StepFields Proofs.Hub.ConsFacts Proofs.Hub.StepStore Proofs.Hub.Retention Proofs.Hub.HubInv.
Local Open Scope N_scope.

(* ---------- fk_run / state_after ---------- *)

Definition run_ok (cfg : config) (s : fstate) (h : list block) (s' : fstate) : Prop :=
  Forall (fun x => snd x = ROk) (fk_run cfg s h) /\ length (fk_run cfg s h) = length h /\
  state_after cfg s h (length h) = s'.

Lemma run_ok_nil cfg s : run_ok cfg s [] s.
Proof. repeat split. constructor. Qed.

Lemma run_ok_cons cfg s b h s1 evs s' : fk_step cfg s b = (s1, evs, ROk) -> run_ok cfg s1 h s' ->
  run_ok cfg s (b :: h) s' /\ all_events (fk_run cfg s (b :: h)) = evs ++ all_events (fk_run cfg s1 h).
Proof.
  intros Hst (H1 & H2 & H3). unfold run_ok. cbn [fk_run state_after length]. rewrite Hst.
  split; [|reflexivity]. split; [constructor; [reflexivity | exact H1]|]. split; [cbn [length]; rewrite H2; reflexivity | exact H3].
Qed.

Lemma run_ok_app cfg : forall h1 s h2 s1 s2, run_ok cfg s h1 s1 -> run_ok cfg s1 h2 s2 ->
  run_ok cfg s (h1 ++ h2) s2 /\ fk_run cfg s (h1 ++ h2) = fk_run cfg s h1 ++ fk_run cfg s1 h2.
Proof.
  induction h1 as [|b h1 IH]; intros s h2 s1 s2 H1 H2.
  - destruct H1 as (_ & _ & <-). cbn [app fk_run]. auto.
  - destruct H1 as (Hok & Hlen & Hst). cbn [fk_run state_after length app] in *.
    destruct (fk_step cfg s b) as [[sa evs] r] eqn:E. inversion Hok as [|? ? Hr Hok']; subst. cbn [snd] in Hr. subst r.
    cbn [length] in Hlen. injection Hlen as Hlen.
    destruct (IH sa h2 _ s2 (conj Hok' (conj Hlen eq_refl)) H2) as [(G1 & G2 & G3) G4].
    unfold run_ok. cbn [fk_run state_after length app]. rewrite E, G4. split; [|reflexivity].
    split; [constructor; [reflexivity|]; rewrite <- G4; exact G1|].
    split; [cbn [length]; rewrite <- G4, G2; reflexivity | exact G3].
Qed.

Lemma run_ok_det cfg s h s1 s2 : run_ok cfg s h s1 -> run_ok cfg s h s2 -> s1 = s2.
Proof. intros (_ & _ & <-) (_ & _ & <-). reflexivity. Qed.

(* the first m steps of a run without error are the run over the first m blocks *)
Lemma run_firstn cfg : forall h s m, Forall (fun x => snd x = ROk) (fk_run cfg s h) ->
  firstn m (fk_run cfg s h) = fk_run cfg s (firstn m h) /\
  state_after cfg s h m = state_after cfg s (firstn m h) (length (firstn m h)).
Proof.
  induction h as [|b h IH]; intros s m Hok.
  - destruct m; cbn; auto.
  - destruct m as [|m]; [cbn; auto|]. cbn [fk_run firstn state_after length] in *.
    destruct (fk_step cfg s b) as [[sa evs] r] eqn:E. inversion Hok as [|? ? Hr Hok']; subst. cbn [snd] in Hr. subst r.
    destruct (IH sa m Hok') as [G1 G2]. cbn [firstn]. rewrite G1, G2. auto.
Qed.

Section Run.
  Variable U : list block.
  Variable cfg : config.

  Hypothesis Hnofail : c_fail_at cfg = None.
  Hypothesis Hnew : f_new (c_filter cfg) = true.
  Hypothesis Hundo : f_undo (c_filter cfg) = true.
  Hypothesis Hirr : f_irr (c_filter cfg) = true.
  Hypothesis Hhold : c_hold cfg = true.
  Hypothesis Hincl : c_incl cfg = false.

  Hypothesis U_id : forall b, In b U -> bid b <> 0 /\ bid b <> bparent b.
  Hypothesis U_uniq : forall x y, In x U -> In y U -> bid x = bid y -> x = y.
  Hypothesis U_up : forall x y, In x U -> In y U -> bparent x = bid y -> bnum y < bnum x.
  Hypothesis D_decl : forall b, In b U -> decl_none U b.

  Notation Post := (Post U cfg).
  Notation MidFacts := (MidFacts U).
  Notation FinRooted := HubInv.FinRooted.

  (* the state a run of events E (consumer c0 before) ends in *)
  Definition Resume (c0 : cons) (E : list event) (a : block) (s' : fstate) (Fin' : list block) (S' : cstack) (c' : cons) : Prop :=
    Post a s' Fin' S' c' /\ cons_fold c0 E = Some c' /\ MidFacts c0 E a Fin' s' /\ FinRooted a Fin' /\ IrrFacts U E a Fin'.

  Lemma run_post : forall h a s Fin S c, Post a s Fin S c -> FinRooted a Fin -> (forall b, In b h -> In b U) ->
    exists s' F' S' c',
      run_ok cfg s h s' /\ Resume c (all_events (fk_run cfg s h)) a s' (Fin ++ F') S' c' /\
      linked (bid (libblk a Fin)) F' /\ Forall (fun x => In x U /\ bnum (libblk a Fin) < bnum x) F' /\
      (forall B1, Ret B1 s -> Ret B1 s').
  Proof.
    induction h as [|b h IH]; intros a s Fin S c HP HFR Hh.
    - exists s, [], S, c. rewrite app_nil_r. split; [apply run_ok_nil|]. split.
      + split; [exact HP|]. split; [reflexivity|]. split; [apply mid_nil|]. split; [exact HFR | apply irr_nil].
      + split; [exact I|]. split; [constructor | auto].
    - destruct (post_step U cfg Hnofail Hnew Hundo Hirr Hincl U_id U_uniq U_up D_decl a s Fin S c b HP (Hh b (or_introl eq_refl)))
        as (s1 & evs & Fnew & S1 & c1 & Hstep & HP1 & Hc1 & HlF & HFU & HM & Hpres1 & HIr).
      destruct (IH a s1 (Fin ++ Fnew) S1 c1 HP1 (fin_rooted_app a Fin Fnew HFR HlF) (fun x Hx => Hh x (or_intror Hx)))
        as (s' & F2 & S' & c' & HR & (HP' & Hc' & HM' & HFR' & HIr') & Hl2 & HF2 & Hpres2).
      destruct (run_ok_cons cfg s b h s1 evs s' Hstep HR) as [HR' HE].
      exists s', (Fnew ++ F2), S', c'. rewrite HE, app_assoc.
      split; [exact HR'|]. split; [|split].
      + split; [exact HP'|]. split; [rewrite cfold_app, Hc1; exact Hc'|]. split; [|split; [exact HFR'|]].
        * apply (mid_compose U _ _ c1); [exact Hc1 | apply (mid_extend U cfg U_id U_uniq U_up D_decl _ _ _ _ _ s1); assumption | exact HM'].
        * apply irr_compose; [apply irr_extend; assumption | exact HIr'].
      + apply linked_app_iff. split; [exact HlF|]. rewrite <- libblk_tip. exact Hl2.
      + split; [|intros B1 H1; apply Hpres2; apply Hpres1; exact H1].
        apply Forall_app. split; [exact HFU|].
        assert (Hm : bnum (libblk a Fin) <= bnum (libblk a (Fin ++ Fnew))).
        { apply libblk_mono. eapply Forall_impl; [|exact HFU]. cbn beta. tauto. }
        eapply Forall_impl; [|exact HF2]. cbn beta. intros x [H1 H2]. split; [exact H1 | lia].
  Qed.

  (* from the creation of the Forkable: nothing delivered yet, or the LIB was discovered *)
  Definition Phase (s : fstate) (E : list event) : Prop :=
    (PreInv U cfg s /\ E = []) \/ exists a Fin S c, Resume cons0 E a s Fin S c.

  Lemma run_pre : forall h s, PreInv U cfg s -> (forall b, In b h -> In b U) ->
    exists s', run_ok cfg s h s' /\ Phase s' (all_events (fk_run cfg s h)).
  Proof.
    induction h as [|b h IH]; intros s HP Hh.
    - exists s. split; [apply run_ok_nil|]. left. auto.
    - destruct (pre_step2 U cfg Hnofail Hnew Hundo Hirr Hhold Hincl U_id U_uniq U_up D_decl s b HP (Hh b (or_introl eq_refl)))
        as [(s1 & Hstep & HP1 & _)|(a & s1 & evs & Fin & S1 & c1 & Hstep & HP1 & Hc1 & HM1 & HFR1 & HIr1)].
      + destruct (IH s1 HP1 (fun x Hx => Hh x (or_intror Hx))) as (s' & HR & HPh).
        destruct (run_ok_cons cfg s b h s1 [] s' Hstep HR) as [HR' HE].
        exists s'. split; [exact HR'|]. rewrite HE. exact HPh.
      + destruct (run_post h a s1 Fin S1 c1 HP1 HFR1 (fun x Hx => Hh x (or_intror Hx)))
          as (s' & F2 & S' & c' & HR & (HP' & Hc' & HM' & HFR' & HIr') & Hl2 & HF2 & Hpres2).
        destruct (run_ok_cons cfg s b h s1 evs s' Hstep HR) as [HR' HE].
        exists s'. split; [exact HR'|]. right. exists a, (Fin ++ F2), S', c'. rewrite HE.
        split; [exact HP'|]. split; [rewrite cfold_app, Hc1; exact Hc'|]. split; [|split; [exact HFR'|]].
        * apply (mid_compose U _ _ c1); [exact Hc1 | apply (mid_extend U cfg U_id U_uniq U_up D_decl _ _ _ _ _ s1); assumption | exact HM'].
        * apply irr_compose; [apply irr_extend; assumption | exact HIr'].
  Qed.

  Theorem fk_history h : (forall b, In b h -> In b U) ->
    exists s', run_ok cfg (fs_init LNone) h s' /\ Phase s' (all_events (fk_run cfg (fs_init LNone) h)).
  Proof. intros Hh. apply run_pre; [apply pre_init | exact Hh]. Qed.
End Run.
