(* C05 over histories, the through-cursor variant: Spec/C05_ThroughHistory_Spec.v.  Assembles the single-state
   theorems of Proofs/C05_Through.v / C05_ThroughConsumer.v with the life of a stream cursor
   (Proofs/Hub/CursorLife.cursor_meets) and the shape of the head's segment against the never-disconnected
   consumer (above_lib_part, linked_same_end). *)
From Coq Require Import Sorted.
From BV Require Import Base.Prelude Model.Block Model.ForkDB Model.Forkable Model.ForkableLookups Model.Burst Model.Hub
  Spec.Consumer Spec.Universe Check.Fk_Check Check.Burst_Check Spec.C09_Spec Spec.C05_Spec
  Spec.C05_Through_Spec Spec.C01_Spec Spec.C01_Moving_Spec Spec.C05_History_Spec Spec.C05_ThroughHistory_Spec
  Proofs.C09_Store Proofs.C09_Segment Proofs.C09_Proofs Proofs.C05_Fast Proofs.C05_Forked Proofs.C05_Final
  Proofs.C05_Through Proofs.C05_ThroughConsumer Proofs.C05_Total
  Proofs.Fk.StoreFacts Proofs.Fk.WalkFacts Proofs.Fk.LoopFacts Proofs.Fk.FixedLib
  Proofs.Fk.MovingLibInv Proofs.Fk.MovingLibFin Proofs.Fk.MovingLibDisc Proofs.C02_Proofs Spec.C01_Roots_Spec Proofs.C01_Roots_Proofs
  Proofs.Hub.StepFields Proofs.Hub.ConsFacts Proofs.Hub.StepStore Proofs.Hub.Retention Proofs.Hub.HubInv Proofs.Hub.HubRun
  Proofs.Hub.LinkedRuns Proofs.Hub.CursorLife Proofs.Hub.C05_History Proofs.Hub.C09_History.
Local Open Scope N_scope.

(* ---------------------------------------------------------------- the checker's junction number *)

(* junction_num a b (stacks newest first) is bounded by n as soon as every pair of blocks with the same id at the
   same distance from the bottom is numbered at most n *)
Lemma junction_num_le a b n :
  (forall i x y, nth_error (rev a) i = Some x -> nth_error (rev b) i = Some y -> bid x = bid y -> bnum x <= n) ->
  junction_num a b <= n.
Proof.
  unfold junction_num. generalize (rev a) (rev b). intros X Y H.
  match goal with |- ?g X Y 0 <= n => set (go := g) end.
  assert (G : forall X Y acc, acc <= n ->
            (forall i x y, nth_error X i = Some x -> nth_error Y i = Some y -> bid x = bid y -> bnum x <= n) ->
            go X Y acc <= n).
  { clear X Y H. induction X as [|p X IH]; intros Y acc Hacc H; [exact Hacc|].
    destruct Y as [|q Y]; [exact Hacc|].
    change (go (p :: X) (q :: Y) acc) with (if bid p =? bid q then go X Y (bnum p) else acc).
    destruct (N.eqb_spec (bid p) (bid q)) as [E|E]; [|exact Hacc].
    apply IH.
    - exact (H O p q eq_refl eq_refl E).
    - intros i x y Hx Hy. exact (H (S i) x y Hx Hy). }
  apply G; [apply N.le_0_l | exact H].
Qed.

(* ---------------------------------------------------------------- a served through-cursor request, unfolded *)

Lemma through_ok_inv s start c evs : blocks_through_cursor s start c = BOk evs ->
  exists hd s0 sg', head_chain s hd (s0 :: sg') /\ snum s0 <= start /\
    (block_in (ri (cu_blk c)) (s0 :: sg') = true \/
     (block_in (ri (cu_blk c)) (s0 :: sg') = false /\
      exists c0 csg' evs2, complete_segment (db s) (cu_blk c) = Some (c0 :: csg', true) /\ snum c0 <= start /\
                           blocks_from_cursor s c = BOk evs2)).
Proof.
  unfold blocks_through_cursor. intros H.
  destruct (has_lib (db s)) eqn:Hl; cbn [negb] in H; [|discriminate H].
  destruct (last_sent s) as [hd|] eqn:Hls; [|discriminate H].
  destruct (complete_segment (db s) (bref hd)) as [[sg reach]|] eqn:E; [|discriminate H].
  destruct sg as [|s0 sg']; destruct reach; try discriminate H.
  destruct (N.ltb_spec start (snum s0)) as [Hlt|Hge]; [discriminate H|].
  exists hd, s0, sg'. split; [split; [exact Hl | split; [exact Hls | exact E]]|]. split; [exact Hge|].
  destruct (block_in (ri (cu_blk c)) (s0 :: sg')) eqn:Hin; [left; reflexivity|]. right. split; [reflexivity|].
  destruct (complete_segment (db s) (cu_blk c)) as [[csg reach]|] eqn:Ec; [|discriminate H].
  destruct csg as [|c0 csg']; destruct reach; try discriminate H.
  destruct (N.ltb_spec start (snum c0)) as [Hlt|Hge']; [discriminate H|].
  destruct (through_branch (c0 :: csg') start c hd []) as [pre|]; [|discriminate H].
  destruct (blocks_from_cursor s c) as [evs2| | |] eqn:EB; try discriminate H.
  exists c0, csg', evs2. auto.
Qed.

(* a burst answered by blocksFromCursor: the cursor LIB is on the head's segment *)
Lemma from_cursor_ok_lib s c evs hd sg : blocks_from_cursor s c = BOk evs ->
  last_sent s = Some hd -> complete_segment (db s) (bref hd) = Some (sg, true) ->
  block_in (ri (cu_lib c)) sg = true.
Proof.
  intros HB Hls E. destruct (block_in (ri (cu_lib c)) sg) eqn:Hx; [reflexivity|]. exfalso.
  destruct (c05_no_lib_no_source_proof s c) as (_ & _ & _ & _ & H). exact (H hd sg Hls E Hx evs HB).
Qed.

(* ---------------------------------------------------------------- the head's segment against the consumer *)

Section Chain.
  Variable U : list block.
  Variable cfg : config.

  Hypothesis U_id : forall b, In b U -> bid b <> 0 /\ bid b <> bparent b.
  Hypothesis U_uniq : forall x y, In x U -> In y U -> bid x = bid y -> x = y.
  Hypothesis U_up : forall x y, In x U -> In y U -> bparent x = bid y -> bnum y < bnum x.

  Variables (a : block) (s : fstate) (Fin : list block) (S : cstack) (c : cons).
  Hypothesis HP : Post U cfg a s Fin S c.
  Hypothesis HFR : HubInv.FinRooted a Fin.

  (* sg = lo ++ xL :: hi with xL the LIB block; above it the consumer's pending chain; at and below it the retained
     final part, which is the end of the consumer's final blocks or has them as its end *)
  Lemma post_chain hd sg : last_sent s = Some hd -> complete_segment (db s) (bref hd) = Some (sg, true) ->
    exists lo xL hi,
      sg = lo ++ xL :: hi /\ good_seg sg /\
      seg_blk xL = libblk a Fin /\ libref (db s) = bref (libblk a Fin) /\
      (forall y, In y lo -> snum y < bnum (libblk a Fin)) /\ (forall y, In y hi -> bnum (libblk a Fin) < snum y) /\
      S = rev (Fin ++ map seg_blk hi) /\
      Forall (fun x => In x U /\ bnum x <= bnum (libblk a Fin)) Fin /\
      ((exists d, map seg_blk (lo ++ [xL]) = d ++ Fin) \/ (exists d, Fin = d ++ map seg_blk (lo ++ [xL]))).
  Proof.
    intros Hls E.
    pose proof (po_a U cfg a s Fin S c HP) as Ha. pose proof (po_inv U cfg a s Fin S c HP) as HI.
    destruct (inv_lib U cfg a s Fin S Ha HI) as [HLU Hlib].
    destruct (post_head U cfg U_id U_uniq U_up a s Fin S c HP) as (hd' & p & Hls' & HhU & Hcp & HS & HpU & Hlp & Htp & HFin).
    rewrite Hls in Hls'. injection Hls' as <-.
    pose proof (inv_wf_state U cfg U_id U_uniq U_up a s Fin S Ha HI) as W. pose proof W as [[Wst _] _].
    pose proof (complete_segment_segment_of _ _ _ _ E) as Hso.
    pose proof (segment_of_chain_to _ _ _ _ Hso) as Hct. cbn [bref ri rn] in Hct.
    pose proof (i_db U _ _ _ _ _ HI) as Hd.
    assert (Hlst : exists el, find (ri (libref (db s))) (store (db s)) = Some el).
    { pose proof (di_num U _ _ Hd) as Hnum. unfold num_of in Hnum.
      destruct (find (ri (libref (db s))) (store (db s))) as [el|]; [eauto|].
      rewrite (po_extra U cfg a s Fin S c HP) in Hnum. discriminate. }
    destruct Hlst as [el Hel].
    assert (Hin : block_in (bid (libblk a Fin)) sg = true).
    { apply block_in_spec. pose proof (chain_on_segment (db s) _ _ _ Hcp _ _ Hct el Hel) as H.
      apply in_map_iff in H as (x & Hx & Hxin). exists x. split; [exact Hxin|]. rewrite Hx, Hlib. reflexivity. }
    destruct (above_lib_part U cfg U_id U_uniq U_up a s Fin S c HP hd sg true Fin [] Hls E (eq_sym (app_nil_r Fin)) HLU I (Forall_nil _) Hin)
      as (lo & xL & hi & p' & Hsplit & HbL & HnL & HsL & HS' & HH & _ & Hlo & Hhi & Hstd & _ & _).
    destruct (post_segment U cfg U_id U_uniq U_up a s Fin S c HP hd sg true Hls E) as (Hgood & Hst & HsU & _).
    exists lo, xL, hi. split; [exact Hsplit|]. split; [exact Hgood|]. split; [exact HbL|]. split; [exact Hlib|].
    split; [exact Hlo|]. split; [exact Hhi|].
    split; [rewrite HS'; cbn [app] in HH; rewrite HH; reflexivity|]. split; [exact HFin|].
    destruct Fin as [|f0 Fin0 _] eqn:EF using rev_ind.
    { left. exists (map seg_blk (lo ++ [xL])). rewrite app_nil_r. reflexivity. }
    assert (Hlast : seg_blk xL = f0).
    { rewrite HbL. unfold libblk. rewrite rev_app_distr. reflexivity. }
    rewrite map_app. cbn [map]. rewrite Hlast.
    assert (HlinkF : exists x, linked x (Fin0 ++ [f0])).
    { destruct HFR as [Hlk|(F' & HF' & Hlk)]; [eauto|]. exists (bparent a). rewrite HF'. cbn [linked]. auto. }
    destruct HlinkF as [x1 Hl1].
    assert (HlinkL : exists x, linked x (map seg_blk lo ++ [f0])).
    { destruct Hgood as [Hgstd Hglk _ _]. rewrite Hsplit in Hgstd, Hglk.
      change (xL :: hi) with ([xL] ++ hi) in Hgstd, Hglk. rewrite app_assoc in Hgstd, Hglk.
      apply Sorted_app_l in Hglk. apply Forall_app in Hgstd as [Hgstd _].
      destruct (seg_linked_all _ Hglk Hgstd) as [x Hx]. exists x. rewrite map_app in Hx. cbn [map] in Hx. rewrite Hlast in Hx. exact Hx. }
    destruct HlinkL as [x2 Hl2].
    assert (HU1 : Forall (fun y => In y U) (Fin0 ++ [f0])).
    { eapply Forall_impl; [|exact HFin]. cbn beta. tauto. }
    assert (HU2 : Forall (fun y => In y U) (map seg_blk lo ++ [f0])).
    { apply Forall_app. split; [|constructor; [apply Forall_app in HU1 as [_ G]; exact (Forall_inv G) | constructor]].
      apply Forall_forall. intros y Hy. apply in_map_iff in Hy as (z & <- & Hz). rewrite Forall_forall in HsU. apply HsU.
      rewrite Hsplit. apply in_or_app. left. exact Hz. }
    destruct (linked_same_end U U_uniq (map seg_blk lo) Fin0 x2 x1 f0 Hl2 Hl1 HU2 HU1) as [[d Hd1]|[d Hd2]].
    - left. exists d. rewrite Hd1, app_assoc. reflexivity.
    - right. exists d. rewrite Hd2, app_assoc. reflexivity.
  Qed.

  (* the hub's chain from `start` on against the consumer: the consumer's stack from start on, preceded by retained
     final ancestors that were never delivered *)
  Lemma kept_vs_consumer hd sg start : last_sent s = Some hd -> complete_segment (db s) (bref hd) = Some (sg, true) ->
    starts_within sg start ->
    let kept := filter (from_start start) sg in
    exists d, map seg_blk kept = d ++ filter (from_num start) (rev S) /\
      length (filter (final_now s) kept) = (length d + length (filter (from_num start) Fin))%nat /\
      (forall x, In x d -> bnum x <= rn (libref (db s)) /\ forall y, In y S -> bnum x < bnum y).
  Proof.
    intros Hls E Hst kept.
    destruct (post_chain hd sg Hls E) as (lo & xL & hi & Hsplit & Hgood & HbL & Hlib & Hlo & Hhi & HS & HFin & Hcases).
    set (L := libblk a Fin) in *. set (M := map seg_blk (lo ++ [xL])) in *. set (H := map seg_blk hi) in *.
    pose proof Hgood as [Hstd _ Hinc _].
    assert (Hsg2 : sg = (lo ++ [xL]) ++ hi) by (rewrite Hsplit, <- app_assoc; reflexivity).
    assert (Hsorted : StronglySorted blt (M ++ H)).
    { unfold M, H. rewrite <- map_app, <- Hsg2. clear -Hinc. induction Hinc as [|x l _ IH Hall]; [constructor|].
      cbn [map]. constructor; [exact IH|]. rewrite Forall_forall in *. intros y Hy. apply in_map_iff in Hy as (z & <- & Hz).
      exact (Hall z Hz). }
    assert (Hkept : map seg_blk kept = filter (from_num start) (M ++ H)).
    { unfold kept, M, H. rewrite <- map_app, <- Hsg2. symmetry. apply (filter_map_comm (from_num start) seg_blk sg). }
    assert (HstdL : snum xL = bnum L).
    { rewrite <- HbL. apply (std_num sg Hstd). rewrite Hsplit. apply in_or_app. right. left. reflexivity. }
    assert (Hrn : rn (libref (db s)) = bnum L) by (rewrite Hlib; reflexivity).
    assert (Hfinal : length (filter (final_now s) kept) = length (filter (from_num start) M)).
    { unfold kept. rewrite Hsg2, filter_app, filter_app.
      rewrite (filter_all (final_now s) (filter (from_start start) (lo ++ [xL]))).
      2:{ intros y Hy. apply filter_In in Hy as [Hy _]. unfold final_now. rewrite Hrn. apply N.leb_le.
          apply in_app_or in Hy as [Hy|[<-|[]]]; [specialize (Hlo y Hy); lia | lia]. }
      rewrite (filter_none (final_now s) (filter (from_start start) hi)).
      2:{ intros y Hy. apply filter_In in Hy as [Hy _]. unfold final_now. rewrite Hrn. apply N.leb_gt. exact (Hhi y Hy). }
      rewrite app_nil_r. unfold M. rewrite (filter_map_comm (from_num start) seg_blk), map_length. reflexivity. }
    assert (HMle : forall x, In x M -> bnum x <= bnum L).
    { intros x Hx. unfold M in Hx. apply in_map_iff in Hx as (y & <- & Hy).
      assert (Hys : In y sg) by (rewrite Hsg2; apply in_or_app; left; exact Hy).
      rewrite <- (std_num sg Hstd y Hys). apply in_app_or in Hy as [Hy|[<-|[]]]; [specialize (Hlo y Hy); lia | lia]. }
    assert (Hlt : forall (l1 l2 : list block), StronglySorted blt (l1 ++ l2) -> forall x y, In x l1 -> In y l2 -> bnum x < bnum y).
    { induction l1 as [|z l1 IH]; intros l2 Hs x y Hx Hy; [destruct Hx|]. cbn [app] in Hs. inversion Hs as [|? ? Hs' Hall]; subst.
      destruct Hx as [<-|Hx]; [|exact (IH l2 Hs' x y Hx Hy)]. rewrite Forall_forall in Hall. apply Hall. apply in_or_app. right. exact Hy. }
    assert (HrevS : rev S = Fin ++ H) by (rewrite HS, rev_involutive; reflexivity).
    rewrite HrevS, Hkept, Hfinal.
    destruct Hcases as [[d0 Hd0]|[d0 Hd0]].
    - (* the hub retains ancestors d0 under the consumer's oldest block *)
      exists (filter (from_num start) d0). rewrite Hd0, <- app_assoc, !filter_app, app_length. split; [reflexivity|]. split; [reflexivity|].
      intros x Hx. apply filter_In in Hx as [Hx _]. split.
      + rewrite Hrn. apply HMle. rewrite Hd0. apply in_or_app. left. exact Hx.
      + intros y Hy. rewrite Hd0, <- app_assoc in Hsorted. apply (Hlt d0 (Fin ++ H) Hsorted x y Hx).
        rewrite <- HrevS. apply -> in_rev. exact Hy.
    - (* the consumer remembers final blocks d0 the hub has purged: all below start *)
      exists []. cbn [app length]. rewrite Hd0, <- app_assoc, !filter_app.
      assert (Hd0nil : filter (from_num start) d0 = []).
      { apply filter_none. intros x Hx.
        assert (HsF : StronglySorted blt Fin).
        { assert (HUF : Forall (fun y => In y U) Fin) by (eapply Forall_impl; [|exact HFin]; cbn beta; tauto).
          destruct HFR as [Hlk|(F' & HF' & Hlk)].
          - exact (linked_sorted U U_id U_uniq U_up Fin _ Hlk HUF).
          - apply (linked_sorted U U_id U_uniq U_up Fin (bparent a)); [rewrite HF'; cbn [linked]; auto | exact HUF]. }
        rewrite Hd0 in HsF.
        destruct sg as [|x0 sg0]; [destruct Hst|]. cbn [starts_within] in Hst.
        assert (Hx0 : In (seg_blk x0) M).
        { unfold M. apply in_map. destruct lo as [|l0 lo']; cbn [app] in Hsplit; injection Hsplit as -> _; left; reflexivity. }
        pose proof (Hlt d0 M HsF x (seg_blk x0) Hx Hx0) as G. unfold from_num. apply N.leb_gt. lia. }
      rewrite Hd0nil. cbn [app length]. split; [reflexivity|]. split; [reflexivity|]. intros x [].
  Qed.
End Chain.

(* every element of a branch is off the segment and recorded under the id of its block *)
Lemma branch_off : forall d sg id path j, branch_to d sg id path j -> block_in id sg = false ->
  forall y, In y path -> block_in (sid y) sg = false /\ sid y = bid (seg_blk y).
Proof.
  intros d sg id path j B. induction B as [id e Hf Hin|id e l j Hf Hin B IH]; intros Hoff y Hy.
  - destruct Hy as [<-|[]]. cbn [sid]. split; [exact Hoff|]. unfold seg_blk. cbn [sent]. symmetry. exact (find_key _ _ _ Hf).
  - destruct Hy as [<-|Hy]; [|exact (IH Hin y Hy)].
    cbn [sid]. split; [exact Hoff|]. unfold seg_blk. cbn [sent]. symmetry. exact (find_key _ _ _ Hf).
Qed.

Lemma NoDup_map_inj {A B} (f : A -> B) : forall l, NoDup (map f l) -> forall x y, In x l -> In y l -> f x = f y -> x = y.
Proof.
  induction l as [|z l IH]; intros Hnd x y Hx Hy Hxy; [destruct Hx|]. cbn [map] in Hnd. inversion Hnd as [|? ? Hnin Hnd']; subst.
  destruct Hx as [<-|Hx]; destruct Hy as [<-|Hy]; [reflexivity | | |exact (IH Hnd' x y Hx Hy Hxy)].
  - exfalso. apply Hnin. rewrite Hxy. apply in_map. exact Hy.
  - exfalso. apply Hnin. rewrite <- Hxy. apply in_map. exact Hx.
Qed.

Lemma nth_error_app_cases {A} (l1 l2 : list A) i x : nth_error (l1 ++ l2) i = Some x ->
  ((i < length l1)%nat /\ In x l1) \/ ((length l1 <= i)%nat /\ nth_error l2 (i - length l1) = Some x).
Proof.
  intros H. destruct (Nat.lt_ge_cases i (length l1)) as [Hlt|Hge].
  - left. split; [exact Hlt|]. rewrite nth_error_app1 in H by exact Hlt. eapply nth_error_In. exact H.
  - right. split; [exact Hge|]. rewrite nth_error_app2 in H by exact Hge. exact H.
Qed.

(* ---------------------------------------------------------------- one state: the burst through a stream cursor *)

Section ThroughAt.
  Variable U : list block.
  Variable cfg : config.

  Hypothesis U_id : forall b, In b U -> bid b <> 0 /\ bid b <> bparent b.
  Hypothesis U_uniq : forall x y, In x U -> In y U -> bid x = bid y -> x = y.
  Hypothesis U_up : forall x y, In x U -> In y U -> bparent x = bid y -> bnum y < bnum x.

  Variables (a : block) (s : fstate) (Fin : list block) (S : cstack) (c : cons).
  Hypothesis HP : Post U cfg a s Fin S c.

  Let Ha : In a U := po_a U cfg a s Fin S c HP.
  Let HI : Inv U (R a) cfg s Fin S := po_inv U cfg a s Fin S c HP.

  Variables (e : event) (ck : cons) (P Q F0 : list block).
  Hypothesis HC : CurAt U a e ck P Q (libblk a P).
  Hypothesis HF : Fin = P ++ F0.
  Hypothesis Hl0 : linked (bid (libblk a P)) F0.
  Hypothesis HF0 : Forall (fun x => In x U /\ bnum (libblk a P) < bnum x) F0.
  Hypothesis Hnu : nu e.

  Let L := libblk a P.
  Let cur := ev_cursor e.

  (* what the consumer at the cursor holds is numbered at most like the cursor block *)
  Lemma held_le_cursor : forall x, In x (P ++ Q) -> bnum x <= bnum (eblk e).
  Proof.
    destruct HC as [Hstack HLU Helib HPf HQf Hlq Hbk Hcb Hnew Hundo]. fold L in HLU, Helib, HPf, HQf, Hlq, Hundo.
    assert (HQU : Forall (fun y => In y U) Q) by (eapply Forall_impl; [|exact HQf]; cbn beta; tauto).
    pose proof (linked_sorted U U_id U_uniq U_up Q _ Hlq HQU) as HQs.
    assert (HQlast : forall Q1 t, Q = Q1 ++ [t] -> forall x, In x Q -> bnum x <= bnum t).
    { intros Q1 t EQ x Hx. rewrite EQ in Hx, HQs. apply in_app_or in Hx as [Hx|[<-|[]]]; [|lia].
      apply in_split in Hx as (l1 & l2 & ->). rewrite <- app_assoc in HQs. cbn [app] in HQs.
      destruct (StronglySorted_split blt l1 x (l2 ++ [t]) HQs) as [_ G].
      assert (Ht : In t (l2 ++ [t])) by (apply in_or_app; right; left; reflexivity).
      specialize (G t Ht). unfold blt in G. lia. }
    intros x Hx. destruct Hnu as [HeN|HeU].
    - destruct (Hnew HeN) as [l0 Hl0'].
      destruct Q as [|q0 Q0] eqn:EQ.
      + rewrite app_nil_r in Hl0', Hx.
        assert (HeL : eblk e = L) by (unfold L, libblk; rewrite Hl0', rev_app_distr; reflexivity).
        rewrite HeL. rewrite Forall_forall in HPf. exact (proj2 (HPf x Hx)).
      + rewrite <- EQ in *. destruct (last_of_app _ _ _ _ Hl0') as [Q1 HQ1]; [rewrite EQ; discriminate|].
        apply in_app_or in Hx as [Hx|Hx]; [|exact (HQlast Q1 (eblk e) HQ1 x Hx)].
        rewrite Forall_forall in HPf, HQf. pose proof (proj2 (HPf x Hx)) as G1.
        assert (Hein : In (eblk e) Q) by (rewrite HQ1; apply in_or_app; right; left; reflexivity).
        pose proof (proj2 (HQf _ Hein)) as G2. lia.
    - destruct (Hundo HeU) as [Hpar Hbn].
      apply in_app_or in Hx as [Hx|Hx].
      + rewrite Forall_forall in HPf. pose proof (proj2 (HPf x Hx)) as G1. lia.
      + destruct Q as [|q0 Q0] eqn:EQ; [destruct Hx|]. rewrite <- EQ in *.
        destruct (list_snoc_cases Q) as [E0|(Q1 & t & HQ1)]; [rewrite EQ in E0; discriminate|].
        pose proof (HQlast Q1 t HQ1 x Hx) as G1.
        assert (Htin : In t Q) by (rewrite HQ1; apply in_or_app; right; left; reflexivity).
        rewrite Forall_forall in HQU. rewrite HQ1, tip_snoc in Hpar.
        pose proof (U_up (eblk e) t Hbk (HQU t Htin) Hpar) as G2. lia.
  Qed.

  Lemma junction_le_cursor : junction_num (cs_stack ck) S <= rn (cu_blk cur).
  Proof.
    apply junction_num_le. intros i x y Hx _ _.
    rewrite (ca_stack U a e ck P Q _ HC), rev_involutive in Hx. apply nth_error_In in Hx.
    unfold cur, ev_cursor. cbn [cu_blk]. rewrite (ca_cblk U a e ck P Q _ HC). cbn [bref rn]. exact (held_le_cursor x Hx).
  Qed.

  (* the junction number of the checker is not above the junction block of the model's undo walk *)
  Lemma junction_le_branch hd sg path j je :
    last_sent s = Some hd -> complete_segment (db s) (bref hd) = Some (sg, true) ->
    block_in (ri (cu_lib cur)) sg = true -> block_in (ri (cu_blk cur)) sg = false ->
    branch_to (db s) sg (ri (cu_blk cur)) path j -> find j (store (db s)) = Some je ->
    junction_num (cs_stack ck) S <= bnum (eb je).
  Proof.
    intros Hls E Hlibin Hin Hbr Hje.
    destruct (cursor_meets U cfg U_id U_uniq U_up a s Fin S c HP e ck P Q F0 hd sg HC HF Hl0 HF0 Hnu Hls E Hlibin)
      as (_ & Hgood & _ & _ & _ & Hstack & _ & Htarget & _ & _ & Hforkc).
    fold cur in Htarget, Hforkc.
    destruct (Hforkc Hin path j je Hbr Hje) as (HQdec & _ & HJge).
    apply junction_num_le. intros i x y Hx Hy Hxy.
    rewrite Hstack, rev_involutive in Hx. rewrite <- Htarget, rev_involutive in Hy.
    pose proof (ca_P U a e ck P Q _ HC) as HPf. fold L in HPf.
    assert (HLle : bnum L <= bnum (eb je)).
    { unfold cur, ev_cursor in HJge. cbn [cu_lib] in HJge. rewrite (ca_elib U a e ck P Q _ HC) in HJge. exact HJge. }
    apply nth_error_app_cases in Hx as [[Hi Hx]|[Hi Hx]].
    { rewrite Forall_forall in HPf. pose proof (proj2 (HPf x Hx)). lia. }
    rewrite nth_error_app2 in Hy by exact Hi.
    rewrite HQdec in Hx. apply nth_error_app_cases in Hx as [[_ Hx]|[_ Hx]].
    - (* held up to the junction *)
      apply in_map_iff in Hx as (z & <- & Hz). unfold held_seg in Hz. apply filter_In in Hz as [Hzs Hz].
      apply andb_true_iff in Hz as [_ Hz]. unfold not_held, junction_cursor in Hz. cbn [cu_blk rn] in Hz.
      pose proof Hgood as [Hstd _ _ _]. rewrite <- (std_num sg Hstd z Hzs).
      apply negb_true_iff in Hz. apply orb_false_iff in Hz as [Hz _]. apply N.ltb_ge in Hz. exact Hz.
    - (* on the undone branch: never the same id as a block of the chain *)
      exfalso. apply nth_error_In in Hx, Hy.
      apply in_map_iff in Hx as (u & <- & Hu). apply in_rev in Hu. unfold undos_of in Hu. apply filter_In in Hu as [Hu _].
      destruct (branch_off _ _ _ _ _ Hbr Hin u Hu) as [Hoff Hsid].
      apply in_map_iff in Hy as (z & <- & Hz). unfold above_seg in Hz. apply filter_In in Hz as [Hzs _].
      pose proof Hgood as [Hstd _ _ _]. rewrite Forall_forall in Hstd. destruct (Hstd z Hzs) as [Hzid _].
      assert (Hon : block_in (sid u) sg = true).
      { apply block_in_spec. exists z. split; [exact Hzs|]. congruence. }
      congruence.
  Qed.

  Lemma through_at start evs :
    start <= junction_num (cs_stack ck) S ->
    hub_through_cursor s start cur = BOk evs ->
    exists hd sg, last_sent s = Some hd /\ complete_segment (db s) (bref hd) = Some (sg, true) /\ starts_within sg start /\
      let kept := filter (from_start start) sg in
      let nfin := length (filter (final_now s) kept) in
      cons_fold cons0 (tolerate start evs) = Some (mkCons (rev (map seg_blk kept)) nfin (negb (Nat.eqb nfin 0))).
  Proof.
    intros Hstart HB.
    pose proof junction_le_cursor as HJ1.
    unfold hub_through_cursor in HB.
    destruct (N.ltb_spec (rn (cu_blk cur)) start) as [Hc|_]; [exfalso; lia|].
    destruct (through_ok_inv s start cur evs HB) as (hd & s0 & sg' & HCh & Hs0 & Hcases).
    set (sg := s0 :: sg') in *.
    pose proof (inv_wf_state U cfg U_id U_uniq U_up a s Fin S Ha HI) as W. pose proof W as [[Wst _] _].
    destruct (head_chain_good s hd sg W HCh) as [Hgood [Hstored _]].
    pose proof HCh as (Hl & Hls & E).
    assert (Hst : starts_within sg start).
    { unfold sg. cbn [starts_within]. pose proof Hgood as [Hstd _ _ _].
      rewrite <- (std_num sg Hstd s0 (or_introl eq_refl)). exact Hs0. }
    exists hd, sg. split; [exact Hls|]. split; [exact E|]. split; [exact Hst|]. cbv zeta.
    destruct Hcases as [Hin|(Hin & c0 & csg' & evs2 & Ec & Hc0 & HB2)].
    - (* the cursor block is on the chain: the snapshot from start *)
      destruct (c05_through_on_chain_proof s hd sg start cur W HCh Hin Hst) as (HB' & _ & _ & Hcur & Hfold & _).
      rewrite HB' in HB. injection HB as <-.
      rewrite tolerate_not_irr; [exact Hfold|].
      intros e0 He0 Hirr. destruct (Hcur e0 He0) as (_ & _ & _ & _ & H1 & H2 & _).
      destruct (N.le_gt_cases (bnum (eblk e0)) (rn (libref (db s)))) as [Hle|Hgt].
      + apply H1 in Hle. congruence.
      + apply H2 in Hgt. congruence.
    - (* the cursor block is off the chain *)
      pose proof (from_cursor_ok_lib s cur evs2 hd sg HB2 Hls E) as Hlibin.
      destruct (cursor_meets U cfg U_id U_uniq U_up a s Fin S c HP e ck P Q F0 hd sg HC HF Hl0 HF0 Hnu Hls E Hlibin)
        as (_ & _ & Hst' & Hlibx & Hnumbered & Hstack & Hck & Htarget & Hlen & _ & Hforkc).
      fold cur in Hlibx, Hnumbered, Htarget, Hlen, Hforkc.
      destruct (c05_forked_path_proof s hd sg cur Wst Hstored) as (Htotal & _ & Hwalk & _ & Hburst).
      destruct (Hburst Hlibin Hin) as [_ Herr].
      destruct (lib_on_chain sg s0 sg' cur Hgood eq_refl Hlibx) as [Hle0 _].
      destruct Htotal as [(path & j & Hbr)|Hbroken].
      2:{ exfalso. rewrite (blocks_from_cursor_eq s cur hd s0 sg' Hl Hls E Hle0) in HB2. fold sg in HB2.
          rewrite (Herr Hbroken) in HB2. discriminate HB2. }
      destruct (Hwalk path j Hbr) as (_ & _ & Hjin).
      destruct (seg_stored_junction _ _ _ Hstored Hjin) as [je Hje].
      destruct (Hforkc Hin path j je Hbr Hje) as (HQdec & _ & HJge).
      set (csg := c0 :: csg') in *.
      destruct (numbered_segment_good (db s) (cu_blk cur) csg true Wst Ec Hnumbered) as (Hcgood & _).
      assert (Hcst : starts_within csg start).
      { unfold csg. cbn [starts_within]. pose proof Hcgood as [Hstd _ _ _].
        rewrite <- (std_num csg Hstd c0 (or_introl eq_refl)). exact Hc0. }
      pose proof (junction_le_branch hd sg path j je Hls E Hlibin Hin Hbr Hje) as HJ2.
      assert (Hsj : start <= bnum (eb je) + 1) by lia.
      assert (Hmono : rn (cu_lib cur) <= rn (libref (db s))).
      { destruct (inv_lib U cfg a s Fin S Ha HI) as [_ Hlib]. rewrite Hlib.
        unfold cur, ev_cursor. cbn [cu_lib]. rewrite (ca_elib U a e ck P Q _ HC). cbn [bref rn]. rewrite HF.
        apply libblk_mono. eapply Forall_impl; [|exact HF0]. cbn beta. tauto. }
      destruct (c05_through_forked_consumer_proof s hd sg start cur csg path j je evs W HCh Hst Hin Hnumbered Ec Hcst Hlibx Hbr Hje HJge Hsj HB)
        as (Hfold & _ & Hnf).
      rewrite <- (Hnf Hmono). exact Hfold.
  Qed.
  (* ------------------------------------------------------------ the serving side *)

  Variable B0 : list block.
  Hypothesis HFR : HubInv.FinRooted a Fin.
  Hypothesis HH : Held B0 e Q (libblk a P).
  Hypothesis HRt : Ret B0 s.

  Lemma hub_through_is_through start : start <= junction_num (cs_stack ck) S ->
    hub_through_cursor s start cur = blocks_through_cursor s start cur.
  Proof.
    intros Hstart. pose proof junction_le_cursor as HJ1. unfold hub_through_cursor.
    destruct (N.ltb_spec (rn (cu_blk cur)) start) as [Hc|_]; [exfalso; lia | reflexivity].
  Qed.

  Lemma through_serve_at start hd sg :
    last_sent s = Some hd -> complete_segment (db s) (bref hd) = Some (sg, true) ->
    start <= junction_num (cs_stack ck) S ->
    ((exists evs, hub_through_cursor s start cur = BOk evs) ->
       starts_within sg start /\ (block_in (ri (cu_blk cur)) sg = true \/ block_in (ri (cu_lib cur)) sg = true)) /\
    (starts_within sg start -> block_in (ri (cu_blk cur)) sg = true ->
       exists evs, hub_through_cursor s start cur = BOk evs) /\
    (starts_within sg start -> block_in (ri (cu_lib cur)) sg = true -> block_in (ri (cu_blk cur)) sg = false ->
       exists path j je,
         branch_to (db s) sg (ri (cu_blk cur)) path j /\ find j (store (db s)) = Some je /\
         junction_num (cs_stack ck) S <= bnum (eb je) /\
         (rn (libref (db s)) <= bnum (eb je) -> exists evs, hub_through_cursor s start cur = BOk evs) /\
         (bnum (eb je) < rn (libref (db s)) -> hub_through_cursor s start cur = BErr)).
  Proof.
    intros Hls E Hstart.
    pose proof (inv_wf_state U cfg U_id U_uniq U_up a s Fin S Ha HI) as W. pose proof W as [[Wst _] _].
    pose proof (i_db U _ _ _ _ _ HI) as Hd.
    assert (HCh : head_chain s hd sg) by (split; [exact (di_has_lib U (R a) _ Hd) | split; [exact Hls | exact E]]).
    destruct (head_chain_good s hd sg W HCh) as [Hgood [Hstored _]].
    pose proof Hgood as [Hstd Hlk Hinc Hnd].
    rewrite (hub_through_is_through start Hstart).
    pose proof junction_le_cursor as HJ1.
    split; [|split].
    - (* (1) *)
      intros [evs HB]. destruct (through_ok_inv s start cur evs HB) as (hd' & s0 & sg' & (_ & Hls' & E') & Hs0 & Hcases).
      rewrite Hls in Hls'. injection Hls' as <-. rewrite E in E'. injection E' as ->.
      split.
      + cbn [starts_within]. rewrite <- (std_num _ Hstd s0 (or_introl eq_refl)). exact Hs0.
      + destruct Hcases as [Hin|(_ & c0 & csg' & evs2 & _ & _ & HB2)]; [left; exact Hin|].
        right. exact (from_cursor_ok_lib s cur evs2 hd _ HB2 Hls E).
    - (* (2) *)
      intros Hst Hin. destruct (c05_through_on_chain_proof s hd sg start cur W HCh Hin Hst) as (HB' & _). eauto.
    - (* (3) *)
      intros Hst Hlibin Hin.
      destruct (cursor_meets U cfg U_id U_uniq U_up a s Fin S c HP e ck P Q F0 hd sg HC HF Hl0 HF0 Hnu Hls E Hlibin)
        as (_ & _ & _ & Hlibx & Hnumbered & _).
      fold cur in Hlibx, Hnumbered.
      destruct (serve_at U cfg U_id U_uniq U_up a s Fin S c HP e ck P Q F0 B0 hd sg HC HF Hl0 HF0 Hnu HH HRt Hls E Hlibin) as [evs2 HB2].
      fold cur in HB2.
      destruct (c05_forked_path_proof s hd sg cur Wst Hstored) as (Htotal & _ & Hwalk & _ & Hburst).
      destruct (Hburst Hlibin Hin) as [_ Herr].
      destruct (starts_within_cons _ _ Hst) as (s0 & sg' & Esg & Hs0).
      destruct (lib_on_chain sg s0 sg' cur Hgood Esg Hlibx) as [Hle0 _].
      destruct Htotal as [(path & j & Hbr)|Hbroken].
      2:{ exfalso. rewrite Esg in E. rewrite (blocks_from_cursor_eq s cur hd s0 sg' (di_has_lib U (R a) _ Hd) Hls E Hle0) in HB2.
          rewrite <- Esg in HB2. rewrite (Herr Hbroken) in HB2. discriminate HB2. }
      destruct (c05_through_forked_proof s hd sg start cur W HCh Hst Hin Hnumbered)
        as (csg & reach & Ec & _ & _ & Hbot & _ & Hreach & _ & Hnoreach & _ & _ & Hmain).
      destruct (through_forked_structure s hd sg cur csg reach path j W HCh Hnumbered Ec Hbr) as (lo & xj & hi & Hsplit & Hxj & Hfj & Ecsg).
      exists path, j, (sent xj). split; [exact Hbr|]. split; [exact Hfj|].
      split; [exact (junction_le_branch hd sg path j (sent xj) Hls E Hlibin Hin Hbr Hfj)|].
      assert (Hxjs : In xj sg) by (rewrite Hsplit; apply in_or_app; right; left; reflexivity).
      assert (Hnj : bnum (eb (sent xj)) = snum xj) by (symmetry; exact (std_num _ Hstd xj Hxjs)).
      rewrite Hnj.
      (* the LIB block on the segment *)
      destruct (post_chain U cfg U_id U_uniq U_up a s Fin S c HP HFR hd sg Hls E) as (lo' & xL & hi' & Hsplit' & _ & HbL & Hlib & _).
      assert (HxLs : In xL sg) by (rewrite Hsplit'; apply in_or_app; right; left; reflexivity).
      assert (HsL : sid xL = ri (libref (db s))).
      { rewrite Forall_forall in Hstd. destruct (Hstd xL HxLs) as [G _]. rewrite G, HbL, Hlib. reflexivity. }
      assert (HnL : snum xL = rn (libref (db s))).
      { rewrite (std_num _ Hstd xL HxLs), HbL, Hlib. reflexivity. }
      (* the cursor's own segment reaches the LIB iff the LIB block is at or below the junction *)
      assert (Hiff : reach = true <-> rn (libref (db s)) <= snum xj).
      { rewrite Hreach, <- HnL. split.
        - intros Hmem. apply in_app_or in Hmem as [Hmem|[Hmem|[]]].
          + rewrite Ecsg in Hmem. change (xj :: rev path) with ([xj] ++ rev path) in Hmem. rewrite app_assoc, map_app in Hmem.
            apply in_app_or in Hmem as [Hmem|Hmem].
            * apply in_map_iff in Hmem as (z & Hz & Hzin).
              assert (Hzs : In z sg) by (rewrite Hsplit; change (xj :: hi) with ([xj] ++ hi); rewrite app_assoc; apply in_or_app; left; exact Hzin).
              assert (z = xL).
              { apply (NoDup_map_inj sid sg Hnd); [exact Hzs | exact HxLs | congruence]. }
              subst z. apply in_app_or in Hzin as [Hzin|[<-|[]]]; [|lia].
              rewrite Hsplit in Hinc. destruct (StronglySorted_split seg_lt lo xj hi Hinc) as [G _].
              specialize (G xL Hzin). rewrite Forall_forall in Hstd.
              pose proof (snum_lt_of xL xj (Hstd _ HxLs) (Hstd _ Hxjs) G). lia.
            * exfalso. apply in_map_iff in Hmem as (u & Hu & Huin). apply in_rev in Huin.
              destruct (branch_off _ _ _ _ _ Hbr Hin u Huin) as [Hoff _].
              assert (block_in (sid u) sg = true) by (apply block_in_spec; exists xL; split; [exact HxLs | congruence]).
              congruence.
          + exfalso. rewrite Hmem, <- HsL, (Hstored xL HxLs) in Hbot. discriminate Hbot.
        - intros Hle. apply in_or_app. left. rewrite Ecsg. change (xj :: rev path) with ([xj] ++ rev path). rewrite app_assoc, map_app.
          apply in_or_app. left. rewrite <- HsL. apply in_map.
          rewrite Hsplit in HxLs. apply in_app_or in HxLs as [G|[G|G]].
          + apply in_or_app. left. exact G.
          + apply in_or_app. right. left. exact G.
          + exfalso. rewrite Hsplit in Hinc. destruct (StronglySorted_split seg_lt lo xj hi Hinc) as [_ G2].
            specialize (G2 xL G). rewrite Forall_forall in Hstd.
            assert (In xL sg) by (rewrite Hsplit; apply in_or_app; right; right; exact G).
            pose proof (snum_lt_of xj xL (Hstd _ Hxjs) (Hstd _ H) G2). lia. }
      split.
      + intros Hle. apply Hiff in Hle.
        assert (Hc0 : exists c0 rest, csg = c0 :: rest /\ bnum (seg_blk c0) <= start).
        { rewrite Ecsg. rewrite Esg in Hsplit. destruct lo as [|l0 lo1]; cbn [app] in Hsplit |- *; injection Hsplit as <- _; eauto. }
        destruct Hc0 as (c0 & rest & Ecsg' & Hc0).
        destruct (Hmain Hle c0 rest Ecsg' Hc0) as [Heq _]; [lia|].
        rewrite Heq, HB2. eauto.
      + intros Hlt. apply Hnoreach. destruct reach; [|reflexivity]. exfalso. pose proof (proj1 Hiff eq_refl). lia.
  Qed.

  (* refused although start is on the retained chain at or below the junction and the cursor LIB is on the chain: the one
     situation of the known finding *)
  Lemma through_refused_at start hd sg :
    last_sent s = Some hd -> complete_segment (db s) (bref hd) = Some (sg, true) ->
    start <= junction_num (cs_stack ck) S ->
    starts_within sg start -> block_in (ri (cu_lib cur)) sg = true ->
    (forall evs, hub_through_cursor s start cur <> BOk evs) ->
    hub_through_cursor s start cur = BErr /\
    block_in (ri (cu_blk cur)) sg = false /\ find (ri (cu_blk cur)) (store (db s)) <> None /\
    ~ In (ri (cu_blk cur)) (map bid S) /\
    junction_num (cs_stack ck) S < rn (libref (db s)) /\
    exists l fs, rev Fin = l :: fs /\ bref l = libref (db s).
  Proof.
    intros Hls E Hstart Hst Hlibin Hno.
    destruct (through_serve_at start hd sg Hls E Hstart) as (_ & H2 & H3).
    destruct (block_in (ri (cu_blk cur)) sg) eqn:Hin.
    { exfalso. destruct (H2 Hst eq_refl) as [evs HB]. exact (Hno evs HB). }
    destruct (H3 Hst Hlibin eq_refl) as (path & j & je & Hbr & Hje & HJ2 & Hserved & Hrefused).
    destruct (N.le_gt_cases (rn (libref (db s))) (bnum (eb je))) as [Hle|Hlt].
    { exfalso. destruct (Hserved Hle) as [evs HB]. exact (Hno evs HB). }
    split; [exact (Hrefused Hlt)|]. split; [reflexivity|].
    split.
    { destruct (branch_to_head _ _ _ _ _ Hbr) as (e0 & rest & Hf & _). rewrite Hf. discriminate. }
    destruct (cursor_meets U cfg U_id U_uniq U_up a s Fin S c HP e ck P Q F0 hd sg HC HF Hl0 HF0 Hnu Hls E Hlibin)
      as (_ & Hgood & _ & _ & _ & _ & _ & Htarget & _ & _ & Hforkc).
    fold cur in Htarget, Hforkc.
    destruct (Hforkc Hin path j je Hbr Hje) as (_ & _ & HJge).
    destruct HC as [Hstack HLU Helib HPf HQf Hlq Hbk Hcb Hnew Hundo]. fold L in HLU, Helib, HPf, HQf, Hlq, Hundo.
    assert (Hcbk : ri (cu_blk cur) = bid (eblk e)) by (unfold cur, ev_cursor; cbn [cu_blk]; rewrite Hcb; reflexivity).
    assert (HLle : bnum L <= bnum (eb je)).
    { unfold cur, ev_cursor in HJge. cbn [cu_lib] in HJge. rewrite Helib in HJge. exact HJge. }
    destruct (post_segment U cfg U_id U_uniq U_up a s Fin S c HP hd sg true Hls E) as (_ & _ & HsU & _).
    pose proof Hgood as [Hstd _ _ _].
    split.
    { (* the never-disconnected consumer does not hold the cursor block *)
      intros Hmem. rewrite <- Htarget, map_rev in Hmem. apply in_rev in Hmem. apply in_map_iff in Hmem as (y & Hy & Hyin).
      rewrite Hcbk in Hy, Hin.
      apply in_app_or in Hyin as [Hyin|Hyin].
      - (* among the blocks up to the cursor LIB *)
        rewrite Forall_forall in HPf. destruct (HPf y Hyin) as [HyU Hyle].
        assert (y = eblk e) by (apply U_uniq; assumption). subst y.
        destruct Hnu as [HeN|HeU].
        + destruct (Hnew HeN) as [l0 Hl0'].
          destruct Q as [|q0 Q0] eqn:EQ.
          * rewrite app_nil_r in Hl0'.
            assert (HeL : eblk e = L) by (unfold L, libblk; rewrite Hl0', rev_app_distr; reflexivity).
            unfold cur, ev_cursor in Hlibin. cbn [cu_lib] in Hlibin. rewrite Helib in Hlibin. cbn [bref ri] in Hlibin.
            rewrite HeL in Hin. congruence.
          * rewrite <- EQ in *. destruct (last_of_app _ _ _ _ Hl0') as [Q1 HQ1]; [rewrite EQ; discriminate|].
            assert (Hein : In (eblk e) Q) by (rewrite HQ1; apply in_or_app; right; left; reflexivity).
            rewrite Forall_forall in HQf. pose proof (proj2 (HQf _ Hein)). lia.
        + destruct (Hundo HeU) as [_ Hbn]. lia.
      - (* among the blocks of the chain *)
        apply in_map_iff in Hyin as (z & <- & Hz). unfold above_seg in Hz. apply filter_In in Hz as [Hzs _].
        rewrite Forall_forall in Hstd. destruct (Hstd z Hzs) as [Hzid _].
        assert (block_in (bid (eblk e)) sg = true) by (apply block_in_spec; exists z; split; [exact Hzs | congruence]).
        congruence. }
    split; [lia|].
    destruct (inv_lib U cfg a s Fin S Ha HI) as [_ Hlib].
    destruct Fin as [|f Fin0 _] eqn:EF using rev_ind.
    - exfalso. symmetry in HF. apply app_eq_nil in HF as [HP0 _]. rewrite Hlib in Hlt. unfold L in HLle. rewrite HP0 in HLle.
      cbn [bref rn] in Hlt. unfold libblk in Hlt, HLle. cbn [rev] in Hlt, HLle. lia.
    - exists f, (rev Fin0). split; [apply rev_app_distr|]. rewrite Hlib. unfold libblk. rewrite rev_app_distr. reflexivity.
  Qed.
End ThroughAt.

(* ---------------------------------------------------------------- over histories *)

Section History.
  Variables (first kept : N) (h : list block).
  Hypothesis Hwfb : wf_b h = true.
  Hypothesis Hlok : lib_ok_b LNone h = true.

  Let Hscope : disc_scope2_b h = true.
  Proof. unfold disc_scope2_b. rewrite Hwfb, Hlok. reflexivity. Qed.

  Let cfg := hub_config first kept.
  Let s0 := fs_init LNone.
  Let tr := fk_run cfg s0 h.

  Let Hid := bridge_id h Hwfb.
  Let Huniq := bridge_uniq h Hwfb.
  Let Hup := bridge_up h Hwfb.
  Let Hdecl := bridge2_decl_none h Hscope.

  (* event k, delivered during the first m calls, and the state after m calls (C05_History.locate, with the
     rootedness of the final part) *)
  Lemma locate2 k m ek :
    nth_error (concat (map fst (firstn (length tr) tr))) k = Some ek -> nu ek ->
    (k < length (concat (map fst (firstn m tr))))%nat ->
    exists a Fin S c ck0 P Q F0 B0,
      Post h cfg a (state_after cfg s0 h m) Fin S c /\ HubInv.FinRooted a Fin /\
      cons_fold cons0 (concat (map fst (firstn m tr))) = Some c /\
      cons_fold cons0 (firstn (Datatypes.S k) (concat (map fst (firstn (length tr) tr)))) = Some ck0 /\
      CurAt h a ek ck0 P Q (libblk a P) /\ Fin = P ++ F0 /\
      linked (bid (libblk a P)) F0 /\ Forall (fun x => In x h /\ bnum (libblk a P) < bnum x) F0 /\
      Held B0 ek Q (libblk a P) /\ Ret B0 (state_after cfg s0 h m).
  Proof.
    intros Hk Hnu Hlt.
    destruct (hist_upto first kept h Hwfb Hlok m) as (sm & HR & Hsm & HEm & HPh). fold cfg s0 tr in HR, Hsm, HEm, HPh.
    rewrite HEm in Hlt |- *. subst sm.
    set (Em := all_events (fk_run cfg s0 (firstn m h))) in *.
    rewrite firstn_all in Hk |- *. fold (all_events tr) in Hk |- *.
    assert (Hall : all_events tr = Em ++ all_events (skipn m tr)).
    { rewrite <- (firstn_skipn m tr) at 1. rewrite all_events_app. f_equal.
      unfold all_events at 1. rewrite HEm. reflexivity. }
    rewrite Hall in Hk |- *. rewrite nth_error_app1 in Hk by exact Hlt.
    rewrite firstn_app. replace (Datatypes.S k - length Em)%nat with O by lia. rewrite firstn_O, app_nil_r.
    destruct (nth_split_firstn Em k ek Hk) as [HsplitE Hfirst]. rewrite Hfirst.
    destruct HPh as [[_ HE0]|(a & Fin & S & c & HP & Hc & HM & HFR & _)].
    { rewrite HE0 in Hlt. cbn in Hlt. lia. }
    destruct (HM (firstn k Em) ek (skipn (Datatypes.S k) Em) HsplitE Hnu) as (ck0 & P & Q & F0 & B0 & Hck & HC & HF & Hl0 & HF0 & HH & HRt).
    exists a, Fin, S, c, ck0, P, Q, F0, B0.
    split; [exact HP|]. split; [exact HFR|]. split; [exact Hc|]. split; [exact Hck|]. split; [exact HC|]. split; [exact HF|]. split; [exact Hl0|].
    split; [exact HF0|]. split; [exact HH | exact HRt].
  Qed.

  Lemma through_history_proof k m ek ck cm start evs :
    nth_error (concat (map fst (firstn (length tr) tr))) k = Some ek -> (estep ek = SNew \/ estep ek = SUndo) ->
    (k < length (concat (map fst (firstn m tr))))%nat ->
    cons_fold cons0 (firstn (Datatypes.S k) (concat (map fst (firstn (length tr) tr)))) = Some ck ->
    cons_fold cons0 (concat (map fst (firstn m tr))) = Some cm ->
    start <= junction_num (cs_stack ck) (cs_stack cm) ->
    hub_through_cursor (state_after cfg s0 h m) start (ev_cursor ek) = BOk evs ->
    exists hd sg c',
      last_sent (state_after cfg s0 h m) = Some hd /\
      complete_segment (db (state_after cfg s0 h m)) (bref hd) = Some (sg, true) /\ starts_within sg start /\
      cons_fold cons0 (tolerate start evs) = Some c' /\
      let kept := filter (from_start start) sg in
      cs_stack c' = rev (map seg_blk kept) /\
      cs_nf c' = length (filter (final_now (state_after cfg s0 h m)) kept) /\
      exists d, map seg_blk kept = d ++ filter (from_num start) (rev (cs_stack cm)) /\
                cs_nf c' = (length d + length (filter (from_num start) (finals_of cm)))%nat /\
                (forall x, In x d -> bnum x <= rn (libref (db (state_after cfg s0 h m))) /\
                                     forall y, In y (cs_stack cm) -> bnum x < bnum y).
  Proof.
    intros Hk Hnu Hlt Hck Hcm Hstart HB.
    destruct (locate2 k m ek Hk Hnu Hlt) as (a & Fin & S & c & ck0 & P & Q & F0 & B0 & HP & HFR & Hc & Hck0 & HC & HF & Hl0 & HF0 & HH & HRt).
    rewrite Hck in Hck0. injection Hck0 as <-. rewrite Hcm in Hc. injection Hc as <-.
    pose proof (po_cons h cfg _ _ _ _ _ HP) as Ecm.
    assert (HcS : cs_stack cm = S) by (rewrite Ecm; reflexivity).
    rewrite HcS in Hstart.
    destruct (through_at h cfg Hid Huniq Hup a _ Fin S cm HP ek ck P Q F0 HC HF Hl0 HF0 Hnu start evs Hstart HB)
      as (hd & sg & Hls & E & Hst & Hfold).
    cbv zeta in Hfold.
    destruct (kept_vs_consumer h cfg Hid Huniq Hup a _ Fin S cm HP HFR hd sg start Hls E Hst) as (d & Hd1 & Hd2 & Hd3).
    cbv zeta in Hd1, Hd2.
    eexists hd, sg, _. split; [exact Hls|]. split; [exact E|]. split; [exact Hst|]. split; [exact Hfold|].
    cbv zeta. cbn [cs_stack cs_nf]. split; [reflexivity|]. split; [reflexivity|].
    exists d. rewrite HcS. split; [exact Hd1|]. split; [|exact Hd3].
    rewrite Hd2. f_equal. f_equal.
    (* the consumer's final blocks are Fin *)
    rewrite Ecm. unfold finals_of. cbn [cs_nf cs_stack].
    destruct (post_head h cfg Hid Huniq Hup a _ Fin S cm HP) as (hd' & p & _ & _ & _ & HS & _).
    rewrite HS, rev_involutive, firstn_app, Nat.sub_diag, firstn_all. cbn [firstn]. rewrite app_nil_r. reflexivity.
  Qed.

  Lemma through_serves_history_proof k m ek ck cm start hd sg :
    let s := state_after cfg s0 h m in
    let cur := ev_cursor ek in
    nth_error (concat (map fst (firstn (length tr) tr))) k = Some ek -> (estep ek = SNew \/ estep ek = SUndo) ->
    (k < length (concat (map fst (firstn m tr))))%nat ->
    cons_fold cons0 (firstn (Datatypes.S k) (concat (map fst (firstn (length tr) tr)))) = Some ck ->
    cons_fold cons0 (concat (map fst (firstn m tr))) = Some cm ->
    last_sent s = Some hd -> complete_segment (db s) (bref hd) = Some (sg, true) ->
    start <= junction_num (cs_stack ck) (cs_stack cm) ->
    ((exists evs, hub_through_cursor s start cur = BOk evs) ->
       starts_within sg start /\ (block_in (ri (cu_blk cur)) sg = true \/ block_in (ri (cu_lib cur)) sg = true)) /\
    (starts_within sg start -> block_in (ri (cu_blk cur)) sg = true ->
       exists evs, hub_through_cursor s start cur = BOk evs) /\
    (starts_within sg start -> block_in (ri (cu_lib cur)) sg = true -> block_in (ri (cu_blk cur)) sg = false ->
       exists path j je,
         branch_to (db s) sg (ri (cu_blk cur)) path j /\ find j (store (db s)) = Some je /\
         junction_num (cs_stack ck) (cs_stack cm) <= bnum (eb je) /\
         (rn (libref (db s)) <= bnum (eb je) -> exists evs, hub_through_cursor s start cur = BOk evs) /\
         (bnum (eb je) < rn (libref (db s)) -> hub_through_cursor s start cur = BErr)) /\
    (starts_within sg start -> block_in (ri (cu_lib cur)) sg = true ->
     (forall evs, hub_through_cursor s start cur <> BOk evs) ->
       hub_through_cursor s start cur = BErr /\
       block_in (ri (cu_blk cur)) sg = false /\ find (ri (cu_blk cur)) (store (db s)) <> None /\
       ~ In (ri (cu_blk cur)) (map bid (cs_stack cm)) /\
       junction_num (cs_stack ck) (cs_stack cm) < rn (libref (db s)) /\
       exists l fs, rev (finals_of cm) = l :: fs /\ bref l = libref (db s)).
  Proof.
    intros s cur Hk Hnu Hlt Hck Hcm Hls E Hstart.
    destruct (locate2 k m ek Hk Hnu Hlt) as (a & Fin & S & c & ck0 & P & Q & F0 & B0 & HP & HFR & Hc & Hck0 & HC & HF & Hl0 & HF0 & HH & HRt).
    rewrite Hck in Hck0. injection Hck0 as <-. rewrite Hcm in Hc. injection Hc as <-.
    pose proof (po_cons h cfg _ _ _ _ _ HP) as Ecm.
    assert (HcS : cs_stack cm = S) by (rewrite Ecm; reflexivity).
    assert (HcF : finals_of cm = Fin).
    { rewrite Ecm. unfold finals_of. cbn [cs_nf cs_stack].
      destruct (post_head h cfg Hid Huniq Hup a _ Fin S cm HP) as (hd' & p & _ & _ & _ & HS & _).
      rewrite HS, rev_involutive, firstn_app, Nat.sub_diag, firstn_all. cbn [firstn]. rewrite app_nil_r. reflexivity. }
    rewrite HcS in *. rewrite HcF.
    destruct (through_serve_at h cfg Hid Huniq Hup a _ Fin S cm HP ek ck P Q F0 HC HF Hl0 HF0 Hnu B0 HFR HH HRt start hd sg Hls E Hstart)
      as (H1 & H2 & H3).
    split; [exact H1|]. split; [exact H2|]. split; [exact H3|].
    intros Hst Hlibin Hno.
    exact (through_refused_at h cfg Hid Huniq Hup a _ Fin S cm HP ek ck P Q F0 HC HF Hl0 HF0 Hnu B0 HFR HH HRt start hd sg Hls E Hstart Hst Hlibin Hno).
  Qed.
End History.

Lemma c05_through_history_proof : C05_through_history.
Proof.
  intros first kept h k m ek ck cm start evs Hwf Hok cfg tr upto s Hk Hnu Hlt Hck Hcm Hstart HB.
  exact (through_history_proof first kept h Hwf Hok k m ek ck cm start evs Hk Hnu Hlt Hck Hcm Hstart HB).
Qed.

Lemma c05_through_serves_history_proof : C05_through_serves_history.
Proof.
  intros first kept h k m ek ck cm start hd sg Hwf Hok cfg tr upto s cur Hk Hnu Hlt Hck Hcm Hls E Hstart.
  exact (through_serves_history_proof first kept h Hwf Hok k m ek ck cm start hd sg Hk Hnu Hlt Hck Hcm Hls E Hstart).
Qed.
