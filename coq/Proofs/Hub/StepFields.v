(* Fields of the events one ProcessBlock call delivers, for a handler that never fails: every New / Undo
   event carries the cursor LIB of the state that entered the call and names its own block as cursor
   block; what the call does to lastLIBSeen.  No hypothesis on the state or on the incoming block. *)
From BV Require Import Base.Prelude Model.Block Model.ForkDB Model.Forkable Spec.Consumer
  Proofs.Fk.StoreFacts Proofs.Fk.WalkFacts Proofs.Fk.LoopFacts Proofs.Fk.MovingLibLoops.
Local Open Scope N_scope.

(* New or Undo *)
Definition nu (e : event) : Prop := estep e = SNew \/ estep e = SUndo.
(* the fields a cursor is made of, for a New / Undo event delivered with cursor LIB L *)
Definition nu_fields (L : ref) (e : event) : Prop := nu e -> elib e = L /\ ecblk e = bref (eblk e).
Definition std_sg (sg : seg) : Prop := seg_ref sg = bref (eb (sent sg)).

Lemma Forall_nu_weak L evs : Forall (fun e => elib e = L /\ ecblk e = bref (eblk e)) evs -> Forall (nu_fields L) evs.
Proof. intros H. eapply Forall_impl; [|exact H]. intros e He _. exact He. Qed.

Lemma Forall_not_nu L evs : Forall (fun e => estep e = SIrr \/ estep e = SStalled) evs -> Forall (nu_fields L) evs.
Proof.
  intros H. eapply Forall_impl; [|exact H]. intros e He [Hn|Hn]; destruct He as [He|He]; rewrite He in Hn; discriminate.
Qed.

Section Fields.
  Variable cfg : config.
  Hypothesis Hnofail : c_fail_at cfg = None.

  Lemma pbl_fields cur st junc count : forall blocks idx s acc,
    exists s' evs, process_blocks_loop cfg cur st junc count idx blocks s acc = (s', acc ++ evs, true) /\
      same_but_calls s s' /\
      Forall (fun e => estep e = st /\ elib e = cursor_lib s /\ ecblk e = bref (eblk e)) evs.
  Proof.
    induction blocks as [|e rest IH]; intros idx s acc.
    - exists s, []. cbn [process_blocks_loop]. rewrite app_nil_r. repeat split; constructor.
    - cbn [process_blocks_loop]. rewrite (call_ok cfg Hnofail). cbv beta iota zeta.
      set (s1 := mkFS (db s) (last_sent s) (last_lib_seen s) (ncalls s + 1)).
      set (ev := mkEv st (eb e) (bref (eb e)) (bref cur) (cursor_lib s) (if matches_undo st then junc else None) idx count).
      destruct (IH (idx + 1) s1 (acc ++ [ev])) as (s' & evs & Heq & (H1 & H2 & H3) & Hf).
      exists s', (ev :: evs). rewrite Heq, <- app_assoc. cbn [app]. split; [reflexivity|].
      split; [repeat split; assumption|]. constructor; [repeat split | exact Hf].
  Qed.

  Lemma pb_fields cur blocks st junc s :
    exists s' evs, process_blocks cfg cur blocks st junc s = (s', evs, true) /\
      same_but_calls s s' /\
      Forall (fun e => estep e = st /\ elib e = cursor_lib s /\ ecblk e = bref (eblk e)) evs.
  Proof.
    unfold process_blocks.
    destruct (pbl_fields cur st junc (N.of_nat (length blocks)) blocks 0 s []) as (s' & evs & H & R).
    exists s', evs. cbn [app] in H. auto.
  Qed.

  Lemma pnl_fields head : forall chain s acc, Forall std_sg chain ->
    exists s' evs, process_new_loop cfg head chain s acc = (s', acc ++ evs, true) /\
      libref (db s') = libref (db s) /\ last_lib_seen s' = last_lib_seen s /\
      Forall (fun e => estep e = SNew /\ elib e = cursor_lib s /\ ecblk e = bref (eblk e)) evs /\
      extra (db s') = extra (db s).
  Proof.
    induction chain as [|b rest IH]; intros s acc Hstd.
    - exists s, []. cbn [process_new_loop]. rewrite app_nil_r. repeat split; constructor.
    - inversion Hstd as [|? ? Hb Hrest]; subst. cbn [process_new_loop].
      destruct (esent (sent b)); [apply IH; exact Hrest|].
      destruct (f_new (c_filter cfg)).
      + rewrite (call_ok cfg Hnofail). cbv beta iota zeta. cbn [db last_sent last_lib_seen ncalls].
        set (ev := mkEv SNew (eb (sent b)) (seg_ref b) head (cursor_lib s) None 0 0).
        set (s1 := mkFS (mkDB (set_sent (sid b) (store (db s))) (extra (db s)) (libref (db s)))
                        (Some (eb (sent b))) (last_lib_seen s) (ncalls s + 1)).
        destruct (IH s1 (acc ++ [ev]) Hrest) as (s' & evs & Heq & Hl & Hll & Hf & Hx).
        exists s', (ev :: evs). rewrite Heq, <- app_assoc. cbn [app]. split; [reflexivity|].
        split; [exact Hl|]. split; [exact Hll|]. split; [|exact Hx].
        constructor; [split; [reflexivity|]; split; [reflexivity | exact Hb] | exact Hf].
      + set (s1 := mkFS (mkDB (set_sent (sid b) (store (db s))) (extra (db s)) (libref (db s)))
                        (Some (eb (sent b))) (last_lib_seen s) (ncalls s)).
        destruct (IH s1 acc Hrest) as (s' & evs & Heq & Hl & Hll & Hf & Hx).
        exists s', evs. split; [exact Heq|]. split; [exact Hl|]. split; [exact Hll|]. split; [exact Hf | exact Hx].
  Qed.

  Lemma pnb_fields chain s : Forall std_sg chain ->
    exists s' evs, process_new_blocks cfg chain s = (s', evs, true) /\
      libref (db s') = libref (db s) /\ last_lib_seen s' = last_lib_seen s /\
      Forall (fun e => estep e = SNew /\ elib e = cursor_lib s /\ ecblk e = bref (eblk e)) evs /\
      extra (db s') = extra (db s).
  Proof.
    intros Hstd. unfold process_new_blocks. destruct chain as [|b0 rest] eqn:E.
    - exists s, []. repeat split; constructor.
    - rewrite <- E in *. destruct (pnl_fields (seg_ref (last chain b0)) chain s [] Hstd) as (s' & evs & H & R).
      exists s', evs. cbn [app] in H. auto.
  Qed.

  (* ---------- ReversibleSegment: its elements are recorded under the number of their block, the last
     one under the number of the start reference ---------- *)

  Lemma num_or0_found d id e : find id (store d) = Some e -> num_or0 d id = bnum (eb e).
  Proof. intros H. unfold num_or0, num_of. rewrite H. reflexivity. Qed.

  Lemma find_key_eq id l e : find id l = Some e -> bid (eb e) = id.
  Proof. intros H. apply find_some in H as [_ H]. exact H. Qed.

  Lemma rs_loop_std d first : forall fuel cur cn acc l r,
    rs_loop fuel d first cur cn acc = Some (l, r) ->
    Forall std_sg acc -> (forall e, find cur (store d) = Some e -> cn = bnum (eb e)) ->
    Forall std_sg l.
  Proof.
    induction fuel as [|f IH]; intros cur cn acc l r H Hacc Hcn; cbn [rs_loop] in H; [discriminate|].
    destruct ((first <? cn) && (cn <? rn (libref d))); [injection H as <- <-; constructor|].
    destruct (cur =? ri (libref d)); [injection H as <- <-; exact Hacc|].
    destruct (find cur (store d)) as [e|] eqn:F.
    - apply IH in H; [exact H | | intros e' He'; apply num_or0_found; exact He'].
      constructor; [|exact Hacc]. unfold std_sg, seg_ref, bref. cbn [sid snum sent].
      rewrite (find_key_eq _ _ _ F), (Hcn e eq_refl). reflexivity.
    - destruct (has_lib d); injection H as <- <-; [constructor | exact Hacc].
  Qed.

  Lemma rs_loop_suffix d first : forall fuel cur cn acc l r,
    rs_loop fuel d first cur cn acc = Some (l, r) -> l = [] \/ exists pre, l = pre ++ acc.
  Proof.
    induction fuel as [|f IH]; intros cur cn acc l r H; cbn [rs_loop] in H; [discriminate|].
    destruct ((first <? cn) && (cn <? rn (libref d))); [injection H as <- <-; left; reflexivity|].
    destruct (cur =? ri (libref d)); [injection H as <- <-; right; exists []; reflexivity|].
    destruct (find cur (store d)) as [e|] eqn:F.
    - apply IH in H. destruct H as [H|[pre H]]; [left; exact H|]. right.
      exists (pre ++ [mkSeg cur cn e]). rewrite <- app_assoc. exact H.
    - destruct (has_lib d); injection H as <- <-; [left; reflexivity | right; exists []; reflexivity].
  Qed.

  (* a non-empty ReversibleSegment ends with the start reference *)
  Lemma rs_loop_last d first fuel cur cn l r b0 : rs_loop fuel d first cur cn [] = Some (l, r) -> l <> [] ->
    seg_ref (last l b0) = mkR cur cn.
  Proof.
    destruct fuel as [|f]; cbn [rs_loop]; intros H Hne; [discriminate|].
    destruct ((first <? cn) && (cn <? rn (libref d))); [injection H as <- <-; congruence|].
    destruct (cur =? ri (libref d)); [injection H as <- <-; congruence|].
    destruct (find cur (store d)) as [e|] eqn:F.
    - apply rs_loop_suffix in H. destruct H as [H|[pre H]]; [congruence|]. rewrite H, last_last. reflexivity.
    - destruct (has_lib d); injection H as <- <-; congruence.
  Qed.

  Lemma rs_last d first start l r b0 : reversible_segment d first start = Some (l, r) -> l <> [] ->
    seg_ref (last l b0) = start.
  Proof.
    unfold reversible_segment. intros H Hne. rewrite (rs_loop_last _ _ _ _ _ _ _ b0 H Hne). destruct start; reflexivity.
  Qed.

  Lemma rs_std d first start l r :
    reversible_segment d first start = Some (l, r) ->
    (forall e, find (ri start) (store d) = Some e -> rn start = bnum (eb e)) -> Forall std_sg l.
  Proof. unfold reversible_segment. intros H Hs. eapply rs_loop_std; [exact H | constructor | exact Hs]. Qed.

  (* ---------- the tail of ProcessBlock ---------- *)

  Lemma cursor_lib_eq s s' : db s' = db s -> last_lib_seen s' = last_lib_seen s -> cursor_lib s' = cursor_lib s.
  Proof. intros H1 H2. unfold cursor_lib. rewrite H1, H2. reflexivity. Qed.

  Lemma cursor_lib_self s : last_lib_seen s = libref (db s) -> cursor_lib s = libref (db s).
  Proof. intros H. unfold cursor_lib. rewrite H. destruct (is_empty (libref (db s))); reflexivity. Qed.

  (* what one call delivers: Undo events, then New events, then Irreversible / Stalled events; the Undo and
     New events carry the cursor LIB L and their own block as cursor block; afterwards the cursor LIB is
     the LIB of the forkdb again; the nums entry of InitLIB does not come back *)
  Definition StepShape (L : ref) (fi : option seg) (s0 : fstate) (res : fstate * list event * result) : Prop :=
    exists s' evU evN evL r, res = (s', evU ++ evN ++ evL, r) /\
      Forall (fun e => estep e = SUndo) evU /\ Forall (fun e => estep e = SNew) evN /\
      Forall (fun e => estep e = SIrr \/ estep e = SStalled) evL /\
      Forall (fun e => elib e = L /\ ecblk e = bref (eblk e)) (evU ++ evN) /\
      (r = ROk -> cursor_lib s' = libref (db s') \/ exists f, fi = Some f /\ last_lib_seen s' = seg_ref f) /\
      (extra (db s0) = None -> extra (db s') = None).

  Lemma shape_quiet L fi s0 s r : cursor_lib s = libref (db s) -> (extra (db s0) = None -> extra (db s) = None) ->
    StepShape L fi s0 (s, [], r).
  Proof.
    intros Hc Hx. exists s, [], [], [], r. split; [reflexivity|]. repeat split; try constructor; auto.
  Qed.

  Lemma process_tail_fields s1 b undos redos junc longest fi :
    Forall std_sg longest -> cursor_lib s1 = libref (db s1) ->
    StepShape (cursor_lib s1) fi s1 (process_tail cfg s1 b undos redos junc longest fi).
  Proof.
    intros Hstd Hcl. unfold process_tail.
    assert (HU : exists sa evU, (if f_undo (c_filter cfg) then process_blocks cfg b undos SUndo junc s1 else (s1, [], true)) = (sa, evU, true) /\
                  same_but_calls s1 sa /\
                  Forall (fun e => estep e = SUndo /\ elib e = cursor_lib s1 /\ ecblk e = bref (eblk e)) evU).
    { destruct (f_undo (c_filter cfg)).
      - destruct (pb_fields b undos SUndo junc s1) as (sa & evU & H & Hs & Hf). exists sa, evU. auto.
      - exists s1, []. repeat split; constructor. }
    destruct HU as (sa & evU & -> & (Ha1 & Ha2 & Ha3) & HfU). cbn [negb].
    assert (Hca : cursor_lib sa = cursor_lib s1) by (apply cursor_lib_eq; assumption).
    assert (HR : exists sb evR, (if f_new (c_filter cfg) then process_blocks cfg b redos SNew None sa else (sa, [], true)) = (sb, evR, true) /\
                  same_but_calls sa sb /\
                  Forall (fun e => estep e = SNew /\ elib e = cursor_lib s1 /\ ecblk e = bref (eblk e)) evR).
    { destruct (f_new (c_filter cfg)).
      - destruct (pb_fields b redos SNew None sa) as (sb & evR & H & Hs & Hf). exists sb, evR. rewrite Hca in Hf. auto.
      - exists sa, []. repeat split; constructor. }
    destruct HR as (sb & evR & -> & (Hb1 & Hb2 & Hb3) & HfR). cbn [negb].
    assert (Hcb : cursor_lib sb = cursor_lib s1) by (rewrite <- Hca; apply cursor_lib_eq; assumption).
    destruct (pnb_fields longest sb Hstd) as (s3 & evN & -> & Hl3 & Hll3 & HfN & Hx3). cbn [negb].
    rewrite Hcb in HfN.
    assert (HsU : Forall (fun e => estep e = SUndo) evU) by (eapply Forall_impl; [|exact HfU]; cbn beta; tauto).
    assert (HsN : Forall (fun e => estep e = SNew) (evR ++ evN)).
    { apply Forall_app. split; [eapply Forall_impl; [|exact HfR] | eapply Forall_impl; [|exact HfN]]; cbn beta; tauto. }
    assert (HF : Forall (fun e => elib e = cursor_lib s1 /\ ecblk e = bref (eblk e)) (evU ++ evR ++ evN)).
    { apply Forall_app. split; [eapply Forall_impl; [|exact HfU] | apply Forall_app; split; [eapply Forall_impl; [|exact HfR] | eapply Forall_impl; [|exact HfN]]];
        cbn beta; tauto. }
    assert (Hc3 : cursor_lib s3 = libref (db s3)).
    { unfold cursor_lib. rewrite Hll3, Hl3, Hb3, Ha3, Hb1, Ha1. exact Hcl. }
    assert (Hx : extra (db s1) = None -> extra (db s3) = None) by (rewrite Hx3, Hb1, Ha1; auto).
    assert (Hstay : forall r, StepShape (cursor_lib s1) fi s1 (s3, evU ++ evR ++ evN, r)).
    { intros r. exists s3, evU, (evR ++ evN), [], r. rewrite app_nil_r. split; [reflexivity|].
      split; [exact HsU|]. split; [exact HsN|]. split; [constructor|]. split; [exact HF|]. split; [intros _; left; exact Hc3 | exact Hx]. }
    destruct (last_sent s3) as [ls|]; [|apply Hstay].
    destruct (negb (has_lib (db s3))); [apply Hstay|].
    destruct (block_in_chain (db s3) (bref ls) (blib ls)) as [libr|]; [|apply Hstay].
    destruct (ri libr =? 0); [apply Hstay|].
    destruct (has_new_irr_segment (db s3) (c_first cfg) libr) as [[[hn irr0] stalled]|] eqn:Hn; [|apply Hstay].
    set (irr := match fi with Some f => irr0 ++ [f] | None => irr0 end).
    assert (Hgo : negb hn && match fi with None => true | Some _ => false end = false ->
              exists i0 irr', irr = i0 :: irr' /\
                (seg_ref (last irr i0) = libr \/ exists f, fi = Some f /\ seg_ref (last irr i0) = seg_ref f)).
    { intros Hg. destruct fi as [f|].
      - unfold irr. destruct irr0 as [|i0 irr']; cbn [app].
        + exists f, []. split; [reflexivity|]. right. exists f. split; reflexivity.
        + exists i0, (irr' ++ [f]). split; [reflexivity|]. right. exists f. split; [reflexivity|].
          change (i0 :: irr' ++ [f]) with ((i0 :: irr') ++ [f]). rewrite last_last. reflexivity.
      - rewrite andb_true_r in Hg. apply negb_false_iff in Hg. subst hn. unfold irr.
        unfold has_new_irr_segment in Hn. destruct (ri (libref (db s3)) =? ri libr); [discriminate|].
        destruct (reversible_segment (db s3) (c_first cfg) libr) as [[ir rr]|] eqn:Hrs; [|discriminate].
        destruct ir as [|i0 irr']; [discriminate|]. injection Hn as <- _.
        exists i0, irr'. split; [reflexivity|]. left. apply (rs_last _ _ _ _ _ i0 Hrs). discriminate. }
    destruct (negb hn && match fi with None => true | Some _ => false end) eqn:Hg; [apply Hstay|].
    destruct (Hgo eq_refl) as (i0 & irr' & Ei & Hlast). fold irr.
    set (d' := purge_before_lib (move_lib (db s3) libr) (c_kept cfg)).
    destruct (process_irr_segment_ok cfg Hnofail irr i0 irr' (bref b) (with_db s3 d') Ei)
      as (s5 & ev5 & -> & Hdb5 & Hls5 & Hlls5 & Hm5 & Hs5). cbn [negb].
    destruct (process_stalled_segment_ok cfg Hnofail stalled (bref b) s5)
      as (s6 & ev6 & -> & (Hdb6 & Hls6 & Hlls6) & Hm6 & Hs6).
    exists s6, evU, (evR ++ evN), (ev5 ++ ev6), ROk. split; [rewrite <- !app_assoc; reflexivity|].
    split; [exact HsU|]. split; [exact HsN|]. split.
    { apply Forall_app. split; [eapply Forall_impl; [|exact Hs5] | eapply Forall_impl; [|exact Hs6]]; cbn beta; auto. }
    split; [exact HF|]. split.
    - intros _. destruct Hlast as [Hlast|(f & Hf & Hlast)].
      + left. apply cursor_lib_self. rewrite Hlls6, Hlls5, Hdb6, Hdb5, Hlast. reflexivity.
      + right. exists f. split; [exact Hf|]. rewrite Hlls6, Hlls5. exact Hlast.
    - intros _. rewrite Hdb6, Hdb5. reflexivity.
  Qed.

  (* ---------- ProcessBlock when a LIB is known ---------- *)

  Lemma find_put_same e : forall l, find (bid (eb e)) (put e l) = Some e.
  Proof.
    induction l as [|x l IH]; cbn [put find].
    - rewrite N.eqb_refl. reflexivity.
    - destruct (N.eqb_spec (bid (eb x)) (bid (eb e))) as [E|E]; cbn [find].
      + rewrite N.eqb_refl. reflexivity.
      + destruct (N.eqb_spec (bid (eb x)) (bid (eb e))); [contradiction | exact IH].
  Qed.

  Lemma add_link_lib d b : libref (fst (add_link d b)) = libref d /\ extra (fst (add_link d b)) = extra d.
  Proof.
    unfold add_link. destruct ((bid b =? bparent b) || (bid b =? 0)); [split; reflexivity|].
    destruct (exists_link d (bid b)); split; reflexivity.
  Qed.

  Lemma add_link_find d b d1 : add_link d b = (d1, false) -> bid b <> bparent b -> bid b <> 0 ->
    forall e, find (bid b) (store d1) = Some e -> bnum b = bnum (eb e).
  Proof.
    unfold add_link. intros H Hne Hz e He.
    destruct (N.eqb_spec (bid b) (bparent b)); [contradiction|].
    destruct (N.eqb_spec (bid b) 0); [contradiction|]. cbn [orb] in H.
    destruct (exists_link d (bid b)); [discriminate|]. injection H as <-. cbn [store] in He.
    pose proof (find_put_same (mkEntry b false) (store d)) as Hp. cbn [eb] in Hp. rewrite Hp in He.
    injection He as <-. reflexivity.
  Qed.

  Hypothesis Hincl : c_incl cfg = false.

  Lemma fk_step_fields s b : has_lib (db s) = true -> cursor_lib s = libref (db s) -> bid b <> 0 ->
    StepShape (cursor_lib s) None s (fk_step cfg s b).
  Proof.
    intros Hhl Hcl Hz. unfold fk_step.
    assert (Hsame : forall r, StepShape (cursor_lib s) None s (s, [], r)) by (intros r; apply shape_quiet; auto).
    destruct (N.eqb_spec (bid b) (bparent b)) as [Ep|Ep]; [apply Hsame|].
    destruct ((bnum b <? rn (libref (db s))) && match last_sent s with Some _ => true | None => false end); [apply Hsame|].
    rewrite Hincl. cbn [andb].
    destruct (if f_undo (c_filter cfg) && triggers cfg s b
              then match last_sent s with
                   | Some ls => sent_chain_switch_segments (db s) (bid ls) (bparent b)
                   | None => ScssOk [] [] None
                   end
              else ScssOk [] [] None) as [undos redos junc| |]; [|apply Hsame|apply Hsame].
    destruct (add_link (db s) b) as [d1 existed] eqn:Hal.
    destruct existed; [apply Hsame|].
    pose proof (add_link_lib (db s) b) as [Hl1 Hx1]. rewrite Hal in Hl1, Hx1. cbn [fst] in Hl1, Hx1.
    assert (Hhl1 : has_lib d1 = true) by (unfold has_lib in *; rewrite Hl1; exact Hhl).
    rewrite Hhl1.
    assert (Hc1 : cursor_lib (with_db s d1) = cursor_lib s).
    { unfold cursor_lib. cbn [with_db last_lib_seen db]. rewrite Hl1. reflexivity. }
    assert (Hcl1 : cursor_lib (with_db s d1) = libref (db (with_db s d1))).
    { rewrite Hc1, Hcl. cbn [with_db db]. symmetry. exact Hl1. }
    assert (Hsame1 : forall r, StepShape (cursor_lib s) None s (with_db s d1, [], r)).
    { intros r. apply shape_quiet; [exact Hcl1|]. cbn [with_db db]. rewrite Hx1. auto. }
    cbn [with_db db].
    destruct (reversible_segment d1 (c_first cfg) (bref b)) as [[longest reach]|] eqn:Hrs; [|apply Hsame1].
    destruct (negb (triggers cfg s b) || match longest with [] => true | _ => false end); [apply Hsame1|].
    assert (Hstd : Forall std_sg longest).
    { apply (rs_std _ _ _ _ _ Hrs). cbn [bref ri rn]. apply (add_link_find _ _ _ Hal Ep Hz). }
    destruct (process_tail_fields (with_db s d1) b undos redos junc longest None Hstd Hcl1)
      as (s' & evU & evN & evL & r & Hrun & HsU & HsN & HsL & HF & Hc & Hx).
    rewrite Hc1 in HF.
    exists s', evU, evN, evL, r. split; [exact Hrun|]. repeat split; try assumption.
    intros H0. apply Hx. cbn [with_db db]. rewrite Hx1. exact H0.
  Qed.
End Fields.
