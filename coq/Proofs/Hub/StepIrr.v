(* The cursor carried by an Irreversible event: its block is the cursor block and the cursor LIB (the event of a
   final block names that block as LIB).  Handler never failing; no hypothesis on state or block. *)
From BV Require Import Base.Prelude Model.Block Model.ForkDB Model.Forkable Spec.Consumer
  Proofs.Fk.StoreFacts Proofs.Fk.WalkFacts Proofs.Fk.LoopFacts Proofs.Fk.MovingLibLoops Proofs.Hub.StepFields.
Local Open Scope N_scope.

Definition irr_fields (e : event) : Prop := estep e = SIrr -> ecblk e = bref (eblk e) /\ elib e = bref (eblk e).

Lemma irr_fields_not evs : Forall (fun e => estep e <> SIrr) evs -> Forall irr_fields evs.
Proof. intros H. eapply Forall_impl; [|exact H]. intros e He Hs. contradiction. Qed.

Section Irr.
  Variable cfg : config.
  Hypothesis Hnofail : c_fail_at cfg = None.
  Hypothesis Hnew : f_new (c_filter cfg) = true.

  Lemma pil_irr head count : forall l idx s acc,
    exists s' evs, process_irr_loop cfg head count idx l s acc = (s', acc ++ evs, true) /\
      Forall (fun e => ecblk e = bref (eblk e) /\ elib e = bref (eblk e)) evs.
  Proof.
    induction l as [|b rest IH]; intros idx s acc.
    - exists s, []. cbn [process_irr_loop]. rewrite app_nil_r. split; [reflexivity | constructor].
    - cbn [process_irr_loop]. rewrite (call_ok cfg Hnofail). cbv beta iota zeta.
      set (s1 := mkFS (db s) (last_sent s) (last_lib_seen s) (ncalls s + 1)).
      set (ev := mkEv SIrr (eb (sent b)) (bref (eb (sent b))) head (bref (eb (sent b))) None idx count).
      destruct (IH (idx + 1) s1 (acc ++ [ev])) as (s' & evs & Heq & Hf).
      exists s', (ev :: evs). rewrite Heq, <- app_assoc. split; [reflexivity|]. constructor; [split; reflexivity | exact Hf].
  Qed.

  Lemma pis_irr irr head s : exists s' evs ok, process_irr_segment cfg irr head s = (s', evs, ok) /\
    Forall (fun e => ecblk e = bref (eblk e) /\ elib e = bref (eblk e)) evs.
  Proof.
    unfold process_irr_segment. destruct (f_irr (c_filter cfg)).
    - destruct (pil_irr head (N.of_nat (length irr)) irr 0 s []) as (s' & evs & -> & Hf). cbn [app]. cbv beta iota.
      destruct irr; eexists; eexists; eexists; split; try reflexivity; exact Hf.
    - cbv beta iota. destruct irr; eexists; eexists; eexists; split; try reflexivity; constructor.
  Qed.

  Lemma process_tail_irr s1 b undos redos junc longest fi : longest <> [] ->
    exists s' evs r, process_tail cfg s1 b undos redos junc longest fi = (s', evs, r) /\ Forall irr_fields evs.
  Proof.
    intros Hne. unfold process_tail. rewrite Hnew.
    assert (HU : exists sa evU, (if f_undo (c_filter cfg) then process_blocks cfg b undos SUndo junc s1 else (s1, [], true)) = (sa, evU, true) /\
                  Forall (fun e => estep e = SUndo) evU).
    { destruct (f_undo (c_filter cfg)).
      - destruct (process_blocks_ok cfg Hnofail b undos SUndo junc s1) as (sa & evU & H & _ & _ & Hf). exists sa, evU. auto.
      - exists s1, []. split; [reflexivity | constructor]. }
    destruct HU as (sa & evU & -> & HsU). cbn [negb].
    destruct (process_blocks_ok cfg Hnofail b redos SNew None sa) as (sb & evR & -> & _ & _ & HsR). cbn [negb].
    unfold process_new_blocks. destruct longest as [|b0 lrest] eqn:Hlong; [congruence|]. rewrite <- Hlong in *.
    destruct (process_new_loop_ok cfg Hnofail Hnew (seg_ref (last longest b0)) longest sb []) as
      (s3 & evN & Hrun & _ & HsN & _).
    cbn [app] in Hrun. rewrite Hlong in Hrun at 1. rewrite <- Hlong in Hrun. rewrite Hrun. cbn [negb].
    assert (HA : Forall irr_fields (evU ++ evR ++ evN)).
    { apply irr_fields_not. apply Forall_app. split; [|apply Forall_app; split]; (eapply Forall_impl; [|eassumption]);
        cbn beta; intros e He; rewrite He; discriminate. }
    assert (Hstay : forall r : result, exists s' evs r', (s3, evU ++ evR ++ evN, r) = (s', evs, r') /\ Forall irr_fields evs).
    { intros r. eexists. eexists. eexists. split; [reflexivity | exact HA]. }
    destruct (last_sent s3) as [ls|]; [|apply Hstay].
    destruct (negb (has_lib (db s3))); [apply Hstay|].
    destruct (block_in_chain (db s3) (bref ls) (blib ls)) as [libr|]; [|apply Hstay].
    destruct (ri libr =? 0); [apply Hstay|].
    destruct (has_new_irr_segment (db s3) (c_first cfg) libr) as [[[hn irr0] stalled]|]; [|apply Hstay].
    set (irr := match fi with Some f => irr0 ++ [f] | None => irr0 end).
    destruct (negb hn && match fi with None => true | Some _ => false end); [apply Hstay|].
    set (s4 := with_db s3 (purge_before_lib (move_lib (db s3) libr) (c_kept cfg))).
    destruct (pis_irr irr (bref b) s4) as (s5 & ev5 & ok5 & -> & Hf5).
    assert (HB : Forall irr_fields ((evU ++ evR ++ evN) ++ ev5)).
    { apply Forall_app. split; [exact HA|]. eapply Forall_impl; [|exact Hf5]. intros e He _. exact He. }
    destruct ok5; cbn [negb]; [|eexists; eexists; eexists; split; [reflexivity | exact HB]].
    destruct (process_stalled_segment_ok cfg Hnofail stalled (bref b) s5) as (s6 & ev6 & -> & _ & _ & Hs6).
    eexists. eexists. eexists. split; [reflexivity|]. rewrite app_assoc. apply Forall_app. split; [exact HB|].
    apply irr_fields_not. eapply Forall_impl; [|exact Hs6]. cbn beta. intros e He. rewrite He. discriminate.
  Qed.

  Hypothesis Hincl : c_incl cfg = false.

  Lemma fk_step_irr s b : has_lib (db s) = true ->
    exists s' evs r, fk_step cfg s b = (s', evs, r) /\ Forall irr_fields evs.
  Proof.
    intros Hhl. unfold fk_step.
    assert (Hsame : forall (s1 : fstate) (r : result), exists s' evs r', (s1, @nil event, r) = (s', evs, r') /\ Forall irr_fields evs).
    { intros s1 r. eexists. eexists. eexists. split; [reflexivity | constructor]. }
    destruct (bid b =? bparent b); [apply Hsame|].
    destruct ((bnum b <? rn (libref (db s))) && match last_sent s with Some _ => true | None => false end); [apply Hsame|].
    rewrite Hincl. cbn [andb].
    destruct (if f_undo (c_filter cfg) && triggers cfg s b
              then match last_sent s with
                   | Some ls => sent_chain_switch_segments (db s) (bid ls) (bparent b)
                   | None => ScssOk [] [] None
                   end
              else ScssOk [] [] None) as [undos redos junc| |]; [|apply Hsame|apply Hsame].
    destruct (add_link (db s) b) as [d1 existed] eqn:Hal.
    destruct existed; [apply Hsame|].
    pose proof (add_link_lib (db s) b) as [Hl1 _]. rewrite Hal in Hl1. cbn [fst] in Hl1.
    assert (Hhl1 : has_lib d1 = true) by (unfold has_lib in *; rewrite Hl1; exact Hhl).
    rewrite Hhl1. cbn [with_db db].
    destruct (reversible_segment d1 (c_first cfg) (bref b)) as [[longest reach]|]; [|apply Hsame].
    destruct (negb (triggers cfg s b) || match longest with [] => true | _ => false end) eqn:Hgo; [apply Hsame|].
    apply process_tail_irr. apply orb_false_iff in Hgo as [_ Hgo]. destruct longest; discriminate.
  Qed.
End Irr.
