(* The ForkableHub of Model/Hub.v as a Forkable fed with a history: every state of a hub run (live blocks and
   one-block bootstrap passes drawn from a universe in the class of the Forkable theorems) is the state of
   the hub-configured Forkable after fk_step on a list of blocks of the universe - the live blocks and the
   passes' blocks in the order the hub fed them.  Hence the invariant of Proofs/Hub/HubInv.v applies. *)
From BV Require Import Base.Prelude Model.Block Model.ForkDB Model.Forkable Model.ForkableLookups Model.Burst Model.Hub
  Spec.Consumer Spec.Universe Check.Fk_Check Check.Burst_Check Spec.C09_Spec
  Proofs.Fk.StoreFacts Proofs.Fk.WalkFacts Proofs.Fk.LoopFacts Proofs.Fk.StoreChange Proofs.Fk.SwitchFacts
  Proofs.Fk.FixedLib Proofs.Fk.MovingLibStore Proofs.Fk.MovingLibWalk Proofs.Fk.MovingLibLoops
  Proofs.Fk.MovingLibInv Proofs.Fk.MovingLibFin Proofs.Fk.MovingLibDisc
  Proofs.Hub.StepFields Proofs.Hub.ConsFacts Proofs.Hub.HubInv Proofs.Hub.HubRun.
Local Open Scope N_scope.

Lemma state_after_app cfg : forall h1 s h2,
  state_after cfg s (h1 ++ h2) (length (h1 ++ h2)) = state_after cfg (state_after cfg s h1 (length h1)) h2 (length h2).
Proof.
  induction h1 as [|b h1 IH]; intros s h2; [reflexivity|].
  cbn [app length state_after]. destruct (fk_step cfg s b) as [[s1 evs] r]. apply IH.
Qed.

Lemma feed_state cfg : forall l s, Forall (fun x => snd x = ROk) (fk_run cfg s l) ->
  feed cfg s l = state_after cfg s l (length l).
Proof.
  induction l as [|b l IH]; intros s Hok; [reflexivity|].
  cbn [feed fk_run state_after length] in *. destruct (fk_step cfg s b) as [[s1 evs] r].
  inversion Hok as [|? ? Hr Hok']; subst. cbn [snd] in Hr. subst r. apply IH. exact Hok'.
Qed.

Lemma run_ok_split cfg : forall h1 s h2 s2, run_ok cfg s (h1 ++ h2) s2 ->
  run_ok cfg s h1 (state_after cfg s h1 (length h1)) /\ run_ok cfg (state_after cfg s h1 (length h1)) h2 s2.
Proof.
  induction h1 as [|b h1 IH]; intros s h2 s2 H.
  - split; [apply run_ok_nil | exact H].
  - destruct H as (Hok & Hlen & Hst). cbn [app fk_run state_after length] in *.
    destruct (fk_step cfg s b) as [[s1 evs] r] eqn:E. inversion Hok as [|? ? Hr Hok']; subst. cbn [snd] in Hr. subst r.
    cbn [length] in Hlen. injection Hlen as Hlen.
    destruct (IH s1 h2 _ (conj Hok' (conj Hlen eq_refl))) as [(G1 & G2 & G3) G4].
    split; [|exact G4]. unfold run_ok. cbn [fk_run state_after length]. rewrite E.
    split; [constructor; [reflexivity | exact G1]|]. split; [cbn [length]; rewrite G2; reflexivity | reflexivity].
Qed.

Section Fed.
  Variable U : list block.
  Variables first kept : N.

  Hypothesis U_id : forall b, In b U -> bid b <> 0 /\ bid b <> bparent b.
  Hypothesis U_uniq : forall x y, In x U -> In y U -> bid x = bid y -> x = y.
  Hypothesis U_up : forall x y, In x U -> In y U -> bparent x = bid y -> bnum y < bnum x.
  Hypothesis D_decl : forall b, In b U -> decl_none U b.

  Let cfg := hub_config first kept.
  Let s0 := fs_init LNone.

  Definition fed (s : fstate) (hist : list block) : Prop :=
    (forall b, In b hist -> In b U) /\ s = state_after cfg s0 hist (length hist).

  Lemma fed_run s hist : fed s hist -> run_ok cfg s0 hist s /\ Phase U cfg s (all_events (fk_run cfg s0 hist)).
  Proof.
    intros [Hsub ->].
    destruct (fk_history U cfg eq_refl eq_refl eq_refl eq_refl eq_refl eq_refl U_id U_uniq U_up D_decl hist Hsub) as (s' & HR & HPh).
    pose proof HR as (_ & _ & Hst). fold s0 in Hst. rewrite Hst. split; [exact HR | exact HPh].
  Qed.

  Lemma fed_step s hist b s' evs r : fed s hist -> In b U -> fk_step cfg s b = (s', evs, r) -> fed s' (hist ++ [b]).
  Proof.
    intros [Hsub ->] Hb Hst. split.
    - intros x Hx. apply in_app_or in Hx as [Hx|[<-|[]]]; [apply Hsub; exact Hx | exact Hb].
    - rewrite state_after_app. cbn [length state_after]. rewrite Hst. reflexivity.
  Qed.

  Lemma fed_feed s hist l : fed s hist -> (forall b, In b l -> In b U) -> fed (feed cfg s l) (hist ++ l).
  Proof.
    intros [Hsub ->] Hl.
    assert (Hsub' : forall b, In b (hist ++ l) -> In b U).
    { intros x Hx. apply in_app_or in Hx as [Hx|Hx]; [apply Hsub | apply Hl]; exact Hx. }
    split; [exact Hsub'|].
    destruct (fk_history U cfg eq_refl eq_refl eq_refl eq_refl eq_refl eq_refl U_id U_uniq U_up D_decl (hist ++ l) Hsub') as (s' & HR & _).
    destruct (run_ok_split cfg hist s0 l s' HR) as [_ (Hok & _ & _)].
    rewrite (feed_state cfg l _ Hok). symmetry. apply state_after_app.
  Qed.

  (* a state with a head is past the discovery *)
  Lemma fed_post s hist : fed s hist -> last_sent s <> None ->
    exists a Fin S c, Resume U cfg cons0 (all_events (fk_run cfg s0 hist)) a s Fin S c.
  Proof.
    intros Hf Hls. destruct (fed_run s hist Hf) as [_ [[HPre _]|H]]; [|exact H].
    exfalso. apply Hls. exact (pre_last U cfg s HPre).
  Qed.

  Lemma post_has_head a s Fin S c : Post U cfg a s Fin S c -> last_sent s <> None.
  Proof.
    intros HP Hn. pose proof (po_inv U cfg a s Fin S c HP) as [_ _ _ Hh]. rewrite Hn in Hh.
    destruct Hh as (HS0 & _). exact (po_ne U cfg a s Fin S c HP HS0).
  Qed.

  (* one ProcessBlock call keeps the head *)
  Lemma fed_step_head s hist b s' evs r : fed s hist -> In b U -> last_sent s <> None ->
    fk_step cfg s b = (s', evs, r) -> last_sent s' <> None.
  Proof.
    intros Hf Hb Hls Hst. destruct (fed_post s hist Hf Hls) as (a & Fin & S & c & HP & _).
    destruct (post_step U cfg eq_refl eq_refl eq_refl eq_refl eq_refl U_id U_uniq U_up D_decl a s Fin S c b HP Hb)
      as (s1 & evs1 & Fnew & S1 & c1 & Hstep & HP1 & _).
    rewrite Hst in Hstep. injection Hstep as -> _ _. exact (post_has_head a s1 _ S1 c1 HP1).
  Qed.

  (* ---------- the hub ---------- *)

  Definition hub_ok (h : hub) : Prop :=
    (exists hist, fed (h_f h) hist) /\ (h_ready h = true -> last_sent (h_f h) <> None).

  Lemma hub_init_ok : hub_ok hub_init.
  Proof. split; [exists []; split; [intros b [] | reflexivity] | discriminate]. Qed.

  Lemma hub_live_ok h p b h' evs r : hub_ok h -> In b U -> pass_in U p ->
    hub_live first kept h p b = (h', evs, r) -> hub_ok h'.
  Proof.
    intros [[hist Hf] Hrd] Hb Hp. unfold hub_live. fold cfg.
    destruct (h_ready h) eqn:Er.
    - destruct (fk_step cfg (h_f h) b) as [[s' evs'] r'] eqn:E. intros H. injection H as <- _ _. cbn [h_f h_ready].
      split; [exists (hist ++ [b]); exact (fed_step _ _ _ _ _ _ Hf Hb E)|].
      intros _. exact (fed_step_head _ _ _ _ _ _ Hf Hb (Hrd eq_refl) E).
    - destruct (bnum b <? head_num (h_f h)).
      + destruct (fk_step cfg (h_f h) b) as [[s' evs'] r'] eqn:E. intros H. injection H as <- _ _. cbn [h_f h_ready].
        split; [exists (hist ++ [b]); exact (fed_step _ _ _ _ _ _ Hf Hb E) | discriminate].
      + assert (Hsame : hub_ok h) by (split; [exists hist; exact Hf | rewrite Er; discriminate]).
        destruct (linkable (h_f h) b) as [l0|]; [|intros H; injection H as <- _ _; exact Hsame].
        assert (Hboot : forall s1 hist1, fed s1 hist1 ->
                  (let '(s2, _, r0) := fk_step cfg s1 b in
                   match r0 with
                   | ROk => match linkable s2 b with
                            | None => (mkHub s2 false, @nil event, RFuel)
                            | Some true => (mkHub s2 (match head_info s2 with Some _ => true | None => false end), [], ROk)
                            | Some false => (mkHub s2 false, [], ROk)
                            end
                   | _ => (mkHub s2 false, [], r0)
                   end) = (h', evs, r) -> hub_ok h').
        { intros s1 hist1 Hf1. destruct (fk_step cfg s1 b) as [[s2 evs2] r2] eqn:E.
          pose proof (fed_step _ _ _ _ _ _ Hf1 Hb E) as Hf2.
          assert (Hnr : hub_ok (mkHub s2 false)) by (split; [exists (hist1 ++ [b]); exact Hf2 | discriminate]).
          destruct r2; try (intros H; injection H as <- _ _; exact Hnr).
          destruct (linkable s2 b) as [[|]|]; intros H; injection H as <- _ _; try exact Hnr.
          split; [exists (hist1 ++ [b]); exact Hf2|]. cbn [h_f h_ready]. unfold head_info.
          destruct (last_sent s2); [discriminate | intros H; discriminate]. }
        destruct l0.
        * apply (Hboot (h_f h) hist Hf).
        * destruct p as [|bl]; [intros H; injection H as <- _ _; exact Hsame|].
          apply (Hboot _ (hist ++ filter (fun x => sub_round first (blib b) kept <=? bnum x) bl)).
          apply fed_feed; [exact Hf|]. intros x Hx. apply filter_In in Hx as [Hx _]. apply Hp. exact Hx.
  Qed.

  Lemma hub_run_ok : forall l h, (forall b p, In (b, p) l -> In b U /\ pass_in U p) -> hub_ok h ->
    hub_ok (hub_run first kept h l).
  Proof.
    induction l as [|[b p] l IH]; intros h Hl Hok; [exact Hok|].
    cbn [hub_run]. destruct (hub_live first kept h p b) as [[h' evs] r] eqn:E.
    destruct (Hl b p (or_introl eq_refl)) as [Hb Hp].
    pose proof (hub_live_ok h p b h' evs r Hok Hb Hp E) as Hok'.
    destruct r; try exact Hok'. apply IH; [intros b0 p0 H0; apply Hl; right; exact H0 | exact Hok'].
  Qed.
End Fed.
