(* C05 over histories: from the boolean scope disc_scope_b to Proofs/Hub/HubRun.fk_history and
   Proofs/Hub/CursorLife (cursor_meets, resume_at). *)
From Coq Require Import Sorted.
From BV Require Import Base.Prelude Model.Block Model.ForkDB Model.Forkable Model.ForkableLookups Model.Burst Model.Hub
  Spec.Consumer Spec.Universe Check.Fk_Check Check.Burst_Check Spec.C09_Spec Spec.C05_Spec
  Spec.C05_Through_Spec Spec.C01_Spec Spec.C01_Moving_Spec Spec.C05_History_Spec
  Proofs.Fk.StoreFacts Proofs.Fk.WalkFacts Proofs.Fk.LoopFacts Proofs.Fk.FixedLib
  Proofs.Fk.MovingLibInv Proofs.Fk.MovingLibFin Proofs.Fk.MovingLibDisc Proofs.C02_Proofs Spec.C01_Roots_Spec Proofs.C01_Roots_Proofs
  Proofs.Hub.StepFields Proofs.Hub.ConsFacts Proofs.Hub.StepStore Proofs.Hub.Retention Proofs.Hub.HubInv Proofs.Hub.HubRun Proofs.Hub.LinkedRuns Proofs.Hub.CursorLife.
Local Open Scope N_scope.

Lemma firstn_in {A} (l : list A) n x : In x (firstn n l) -> In x l.
Proof. intros H. rewrite <- (firstn_skipn n l). apply in_or_app. left. exact H. Qed.

Lemma all_events_app t1 t2 : all_events (t1 ++ t2) = all_events t1 ++ all_events t2.
Proof. unfold all_events. rewrite map_app, concat_app. reflexivity. Qed.

Lemma cons_fold_prefix : forall l1 l2 c c', cons_fold c (l1 ++ l2) = Some c' -> exists c1, cons_fold c l1 = Some c1.
Proof. intros l1 l2 c c' H. rewrite cfold_app in H. destruct (cons_fold c l1) as [c1|]; [eauto | discriminate]. Qed.

Section History.
  Variables (first kept : N) (h : list block).
  Hypothesis Hwfb : wf_b h = true.
  Hypothesis Hlok : lib_ok_b LNone h = true.

  Let Hscope : disc_scope2_b h = true.
  Proof. unfold disc_scope2_b. rewrite Hwfb, Hlok. reflexivity. Qed.

  Let cfg := hub_config first kept.
  Let s0 := fs_init LNone.
  Let tr := fk_run cfg s0 h.

  Let Hid := bridge_id h Hwfb.
  Let Huniq := bridge_uniq h Hwfb.
  Let Hup := bridge_up h Hwfb.
  Let Hdecl := bridge2_decl_none h Hscope.

  Lemma hist_run hm : (forall b, In b hm -> In b h) ->
    exists s', run_ok cfg s0 hm s' /\ Phase h cfg s' (all_events (fk_run cfg s0 hm)).
  Proof.
    intros Hsub.
    exact (fk_history h cfg eq_refl eq_refl eq_refl eq_refl eq_refl eq_refl Hid Huniq Hup Hdecl hm Hsub).
  Qed.

  Lemma hist_ok : Forall (fun x => snd x = ROk) tr /\ length tr = length h.
  Proof. destruct (hist_run h (fun b Hb => Hb)) as (s' & (H1 & H2 & _) & _). split; assumption. Qed.

  (* the first m calls *)
  Lemma hist_upto m : exists s', run_ok cfg s0 (firstn m h) s' /\ s' = state_after cfg s0 h m /\
    concat (map fst (firstn m tr)) = all_events (fk_run cfg s0 (firstn m h)) /\
    Phase h cfg s' (all_events (fk_run cfg s0 (firstn m h))).
  Proof.
    destruct (hist_run (firstn m h) (fun b Hb => firstn_in h m b Hb)) as (s' & HR & HPh).
    destruct hist_ok as [Hok _]. destruct (run_firstn cfg h s0 m Hok) as [G1 G2].
    exists s'. split; [exact HR|]. split; [|split; [|exact HPh]].
    - destruct HR as (_ & _ & <-). symmetry. exact G2.
    - fold tr in G1. rewrite G1. reflexivity.
  Qed.

  (* event k, delivered during the first m calls, and the state after m calls *)
  Lemma locate k m ek :
    nth_error (concat (map fst (firstn (length tr) tr))) k = Some ek -> nu ek ->
    (k < length (concat (map fst (firstn m tr))))%nat ->
    exists a Fin S c ck0 P Q F0 B0,
      Post h cfg a (state_after cfg s0 h m) Fin S c /\
      cons_fold cons0 (concat (map fst (firstn m tr))) = Some c /\
      cons_fold cons0 (firstn (Datatypes.S k) (concat (map fst (firstn (length tr) tr)))) = Some ck0 /\
      CurAt h a ek ck0 P Q (libblk a P) /\ Fin = P ++ F0 /\
      linked (bid (libblk a P)) F0 /\ Forall (fun x => In x h /\ bnum (libblk a P) < bnum x) F0 /\
      Held B0 ek Q (libblk a P) /\ Ret B0 (state_after cfg s0 h m).
  Proof.
    intros Hk Hnu Hlt.
    destruct (hist_upto m) as (sm & HR & Hsm & HEm & HPh). rewrite HEm in Hlt |- *. subst sm.
    set (Em := all_events (fk_run cfg s0 (firstn m h))) in *.
    (* all events = Em ++ the rest *)
    rewrite firstn_all in Hk |- *. fold (all_events tr) in Hk |- *.
    assert (Hall : all_events tr = Em ++ all_events (skipn m tr)).
    { rewrite <- (firstn_skipn m tr) at 1. rewrite all_events_app. f_equal.
      unfold all_events at 1. rewrite HEm. reflexivity. }
    rewrite Hall in Hk |- *. rewrite nth_error_app1 in Hk by exact Hlt.
    rewrite firstn_app. replace (Datatypes.S k - length Em)%nat with O by lia. rewrite firstn_O, app_nil_r.
    destruct (nth_split_firstn Em k ek Hk) as [HsplitE Hfirst]. rewrite Hfirst.
    destruct HPh as [[_ HE0]|(a & Fin & S & c & HP & Hc & HM & _)].
    { rewrite HE0 in Hlt. cbn in Hlt. lia. }
    destruct (HM (firstn k Em) ek (skipn (Datatypes.S k) Em) HsplitE Hnu) as (ck0 & P & Q & F0 & B0 & Hck & HC & HF & Hl0 & HF0 & HH & HRt).
    exists a, Fin, S, c, ck0, P, Q, F0, B0.
    split; [exact HP|]. split; [exact Hc|]. split; [exact Hck|]. split; [exact HC|]. split; [exact HF|]. split; [exact Hl0|].
    split; [exact HF0|]. split; [exact HH | exact HRt].
  Qed.

  Lemma resume_history_proof k m ek ck cm evs :
    nth_error (concat (map fst (firstn (length tr) tr))) k = Some ek -> (estep ek = SNew \/ estep ek = SUndo) ->
    (k < length (concat (map fst (firstn m tr))))%nat ->
    cons_fold cons0 (firstn (Datatypes.S k) (concat (map fst (firstn (length tr) tr)))) = Some ck ->
    cons_fold cons0 (concat (map fst (firstn m tr))) = Some cm ->
    blocks_from_cursor (state_after cfg s0 h m) (ev_cursor ek) = BOk evs ->
    cons_fold (mkCons (cs_stack ck) (length (filter (fun b => bnum b <=? rn (elib ek)) (cs_stack ck))) true) evs = Some cm.
  Proof.
    intros Hk Hnu Hlt Hck Hcm HB.
    destruct (locate k m ek Hk Hnu Hlt) as (a & Fin & S & c & ck0 & P & Q & F0 & B0 & HP & Hc & Hck0 & HC & HF & Hl0 & HF0 & HH & HRt).
    rewrite Hck in Hck0. injection Hck0 as <-. rewrite Hcm in Hc. injection Hc as <-.
    rewrite (resume_at h cfg Hid Huniq Hup a _ Fin S cm HP ek ck P Q F0 evs HC HF Hl0 HF0 Hnu HB).
    rewrite (po_cons h cfg _ _ _ _ _ HP). reflexivity.
  Qed.

  Lemma meets_history_proof k m ek ck hd sg :
    nth_error (concat (map fst (firstn (length tr) tr))) k = Some ek -> (estep ek = SNew \/ estep ek = SUndo) ->
    (k < length (concat (map fst (firstn m tr))))%nat ->
    cons_fold cons0 (firstn (Datatypes.S k) (concat (map fst (firstn (length tr) tr)))) = Some ck ->
    last_sent (state_after cfg s0 h m) = Some hd ->
    complete_segment (db (state_after cfg s0 h m)) (bref hd) = Some (sg, true) ->
    block_in (ri (elib ek)) sg = true ->
    exists cm P Q,
      cons_fold cons0 (concat (map fst (firstn m tr))) = Some cm /\ cs_any cm = true /\
      C05_meets (state_after cfg s0 h m) (cs_stack cm) (cs_nf cm) ek ck P Q hd sg /\
      ecblk ek = bref (eblk ek) /\ In (eblk ek) h.
  Proof.
    intros Hk Hnu Hlt Hck Hls E Hlibin.
    destruct (locate k m ek Hk Hnu Hlt) as (a & Fin & S & c & ck0 & P & Q & F0 & B0 & HP & Hc & Hck0 & HC & HF & Hl0 & HF0 & HH & HRt).
    rewrite Hck in Hck0. injection Hck0 as <-.
    exists c, P, Q. split; [exact Hc|]. rewrite (po_cons h cfg _ _ _ _ _ HP). cbn [cs_any cs_stack cs_nf].
    split; [reflexivity|]. split.
    - exact (cursor_meets h cfg Hid Huniq Hup a _ Fin S _ HP ek ck P Q F0 hd sg HC HF Hl0 HF0 Hnu Hls E Hlibin).
    - split; [exact (ca_cblk h a ek ck P Q _ HC) | exact (ca_blk h a ek ck P Q _ HC)].
  Qed.

  Lemma serves_history_proof k m ek hd sg :
    nth_error (concat (map fst (firstn (length tr) tr))) k = Some ek -> (estep ek = SNew \/ estep ek = SUndo) ->
    (k < length (concat (map fst (firstn m tr))))%nat ->
    last_sent (state_after cfg s0 h m) = Some hd ->
    complete_segment (db (state_after cfg s0 h m)) (bref hd) = Some (sg, true) ->
    block_in (ri (elib ek)) sg = true ->
    exists evs, blocks_from_cursor (state_after cfg s0 h m) (ev_cursor ek) = BOk evs.
  Proof.
    intros Hk Hnu Hlt Hls E Hlibin.
    destruct (locate k m ek Hk Hnu Hlt) as (a & Fin & S & c & ck0 & P & Q & F0 & B0 & HP & Hc & Hck0 & HC & HF & Hl0 & HF0 & HH & HRt).
    exact (serve_at h cfg Hid Huniq Hup a _ Fin S c HP ek ck0 P Q F0 B0 hd sg HC HF Hl0 HF0 Hnu HH HRt Hls E Hlibin).
  Qed.

  Lemma final_history_proof k m ek cm hd sg :
    nth_error (concat (map fst (firstn (length tr) tr))) k = Some ek -> estep ek = SIrr ->
    (k < length (concat (map fst (firstn m tr))))%nat ->
    cons_fold cons0 (concat (map fst (firstn m tr))) = Some cm ->
    last_sent (state_after cfg s0 h m) = Some hd ->
    complete_segment (db (state_after cfg s0 h m)) (bref hd) = Some (sg, true) ->
    block_in (ri (ecblk ek)) sg = true ->
    exists evs P F0,
      blocks_from_cursor (state_after cfg s0 h m) (ev_cursor ek) = BOk evs /\
      ecblk ek = bref (eblk ek) /\ elib ek = bref (eblk ek) /\
      finals_of cm = P ++ F0 /\ (P = [] \/ exists P', P = P' ++ [eblk ek]) /\
      map eblk (irr_events evs) = F0.
  Proof.
    intros Hk HeI Hlt Hcm Hls E Hin.
    destruct (hist_upto m) as (sm & HR & Hsm & HEm & HPh). rewrite HEm in Hlt, Hcm. subst sm.
    set (Em := all_events (fk_run cfg s0 (firstn m h))) in *.
    rewrite firstn_all in Hk. fold (all_events tr) in Hk.
    assert (Hall : all_events tr = Em ++ all_events (skipn m tr)).
    { rewrite <- (firstn_skipn m tr) at 1. rewrite all_events_app. f_equal.
      unfold all_events at 1. rewrite HEm. reflexivity. }
    rewrite Hall in Hk. rewrite nth_error_app1 in Hk by exact Hlt.
    destruct (nth_split_firstn Em k ek Hk) as [HsplitE _].
    destruct HPh as [[_ HE0]|(a & Fin & S & c & HP & Hc & _ & _ & HIr)].
    { rewrite HE0 in Hlt. cbn in Hlt. lia. }
    rewrite Hcm in Hc. injection Hc as <-.
    destruct (HIr (firstn k Em) ek (skipn (Datatypes.S k) Em) HsplitE HeI) as (P & F0 & HF & HL & HeU & Hcb & Hlb & Hl0 & HF0).
    rewrite Hcb in Hin. rewrite <- Hlb in Hin.
    destruct (final_at h cfg Hid Huniq Hup a _ Fin S cm HP ek P F0 hd sg HeI HF HL HeU Hcb Hlb Hl0 HF0 Hls E Hin) as (evs & HB & Hirr).
    exists evs, P, F0. split; [exact HB|]. split; [exact Hcb|]. split; [exact Hlb|]. split; [|split; [|exact Hirr]].
    - (* the consumer's final blocks are Fin *)
      rewrite (po_cons h cfg _ _ _ _ _ HP). unfold finals_of. cbn [cs_nf cs_stack].
      destruct (post_head h cfg Hid Huniq Hup a _ Fin S cm HP) as (hd' & p & _ & _ & _ & HS & _).
      rewrite HS, rev_involutive, firstn_app, Nat.sub_diag, firstn_all. cbn [firstn]. rewrite app_nil_r. exact HF.
    - destruct P as [|x P0 _] using rev_ind; [left; reflexivity|]. right. exists P0.
      unfold libblk in HL. rewrite rev_app_distr in HL. cbn [rev app] in HL. rewrite HL. reflexivity.
  Qed.

  Lemma total_history_proof :
    length tr = length h /\ Forall (fun x => snd x = ROk) tr /\
    (forall n, exists c, cons_fold cons0 (firstn n (all_events tr)) = Some c) /\
    (forall m, wf_state (state_after cfg s0 h m)).
  Proof.
    destruct hist_ok as [Hok Hlen]. split; [exact Hlen|]. split; [exact Hok|]. split.
    - intros n. destruct (hist_run h (fun b Hb => Hb)) as (s' & _ & HPh). fold tr in HPh.
      destruct HPh as [[_ HE0]|(a & Fin & S & c & _ & Hc & _ & _)].
      + rewrite HE0. destruct n; cbn; eauto.
      + rewrite <- (firstn_skipn n (all_events tr)) in Hc. eapply cons_fold_prefix. exact Hc.
    - intros m. destruct (hist_upto m) as (sm & _ & -> & _ & HPh).
      destruct HPh as [[HPre _]|(a & Fin & S & c & HP & _ & _ & _)].
      + destruct HPre as [Hl He Hnd HU Hun Hls Hlls]. constructor.
        * split.
          -- constructor.
             ++ exact Hnd.
             ++ intros e Hein. apply (Hid (eb e)). apply HU. exact Hein.
             ++ intros e p He' Hp Hk. apply (Hup (eb e) (eb p)); [apply HU; exact He' | apply HU; exact Hp | symmetry; exact Hk].
          -- intros r Hr. rewrite He in Hr. discriminate.
        * intros hd e Hh. rewrite Hls in Hh. discriminate.
      + exact (inv_wf_state h cfg Hid Huniq Hup a _ Fin S (po_a h cfg _ _ _ _ _ HP) (po_inv h cfg _ _ _ _ _ HP)).
  Qed.
End History.

Lemma c05_resume_history_proof : C05_resume_history.
Proof.
  intros first kept h k m ek ck cm evs Hwf Hok cfg tr upto Hk Hnu Hlt Hck Hcm HB ck'.
  exact (resume_history_proof first kept h Hwf Hok k m ek ck cm evs Hk Hnu Hlt Hck Hcm HB).
Qed.

(* the statement of Spec/C05_Spec.v *)
Lemma c05_resume_full_proof : C05_resume_full.
Proof.
  intros first kept h k m ek ck cm evs Hwf Hok cfg tr upto Hk Hnu Hlt Hck Hcm HB ck'.
  exists cm. split; [|split; reflexivity].
  exact (resume_history_proof first kept h Hwf Hok k m ek ck cm evs Hk Hnu Hlt Hck Hcm HB).
Qed.

Lemma c05_history_total_proof : C05_history_total.
Proof. intros first kept h Hwf Hok. exact (total_history_proof first kept h Hwf Hok). Qed.

Lemma c05_cursor_meets_hypotheses_proof : C05_cursor_meets_hypotheses.
Proof.
  intros first kept h k m ek ck hd sg Hwf Hok cfg tr upto s Hk Hnu Hlt Hck Hls E Hlibin.
  exact (meets_history_proof first kept h Hwf Hok k m ek ck hd sg Hk Hnu Hlt Hck Hls E Hlibin).
Qed.

Lemma c05_serves_history_proof : C05_serves_history.
Proof.
  intros first kept h k m ek hd sg Hwf Hok cfg tr upto s Hk Hnu Hlt Hls E Hlibin.
  exact (serves_history_proof first kept h Hwf Hok k m ek hd sg Hk Hnu Hlt Hls E Hlibin).
Qed.

Lemma c05_final_history_proof : C05_final_history.
Proof.
  intros first kept h k m ek cm hd sg Hwf Hok cfg tr upto s Hk HeI Hlt Hcm Hls E Hin.
  exact (final_history_proof first kept h Hwf Hok k m ek cm hd sg Hk HeI Hlt Hcm Hls E Hin).
Qed.
