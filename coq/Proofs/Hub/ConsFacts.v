(* The consumer with finality of Check/Burst_Check.v (cons, cons_apply, cons_fold) on the three phases of
   the events of one ProcessBlock call: Undo events pop, New events push, Irreversible events move the
   final count; list facts used to locate one event inside a run. *)
From BV Require Import Base.Prelude Model.Block Model.ForkDB Model.Forkable Model.Burst Spec.Consumer Spec.Universe
  Check.Fk_Check Check.Burst_Check Proofs.Fk.LoopFacts Proofs.Hub.StepFields.
Local Open Scope N_scope.

Lemma cfold_app : forall l1 l2 c, cons_fold c (l1 ++ l2) =
  match cons_fold c l1 with Some c' => cons_fold c' l2 | None => None end.
Proof.
  induction l1 as [|e l1 IH]; intros l2 c; cbn [app cons_fold]; [reflexivity|].
  destruct (cons_apply c e); [apply IH | reflexivity].
Qed.

Lemma apply_all_split lib : forall l1 l2 S S', apply_all lib S (l1 ++ l2) = Some S' ->
  exists S1, apply_all lib S l1 = Some S1 /\ apply_all lib S1 l2 = Some S'.
Proof.
  induction l1 as [|e l1 IH]; intros l2 S S' H; cbn [app apply_all] in *; [eauto|].
  destruct (apply_ev lib S e) as [S0|]; [apply IH; exact H | discriminate].
Qed.

(* ---------- New/Undo events come first: unique decomposition ---------- *)

Definition quiet (e : event) : Prop := estep e = SIrr \/ estep e = SStalled.

Lemma nu_not_quiet e : nu e -> quiet e -> False.
Proof. intros [H|H] [G|G]; rewrite H in G; discriminate. Qed.

Lemma nu_split : forall l1 l1' l2 l2', l1 ++ l2 = l1' ++ l2' ->
  Forall nu l1 -> Forall nu l1' -> Forall quiet l2 -> Forall quiet l2' -> l1 = l1' /\ l2 = l2'.
Proof.
  induction l1 as [|x l1 IH]; intros l1' l2 l2' H H1 H1' H2 H2'.
  - destruct l1' as [|y l1']; [auto|]. cbn [app] in H. subst l2. exfalso.
    apply (nu_not_quiet y); [exact (Forall_inv H1') | exact (Forall_inv H2)].
  - destruct l1' as [|y l1'].
    + cbn [app] in H. subst l2'. exfalso. apply (nu_not_quiet x); [exact (Forall_inv H1) | exact (Forall_inv H2')].
    + cbn [app] in H. injection H as <- H.
      destruct (IH l1' l2 l2' H (Forall_inv_tail H1) (Forall_inv_tail H1') H2 H2') as [-> ->]. auto.
Qed.

(* a New/Undo event of evA ++ evL lies in evA *)
Lemma nu_in_front : forall evA evL l1 e l2, evA ++ evL = l1 ++ e :: l2 -> Forall quiet evL -> nu e ->
  exists l2', evA = l1 ++ e :: l2' /\ l2 = l2' ++ evL.
Proof.
  induction evA as [|x evA IH]; intros evL l1 e l2 H HL He.
  - cbn [app] in H. exfalso. rewrite Forall_forall in HL. apply (nu_not_quiet e He). apply HL. rewrite H.
    apply in_or_app. right. left. reflexivity.
  - destruct l1 as [|y l1]; cbn [app] in H; injection H as -> H.
    + exists evA. auto.
    + destruct (IH evL l1 e l2 H HL He) as (l2' & -> & ->). exists l2'. auto.
Qed.

(* evU all Undo, evN all New *)
Lemma undo_in_front : forall evU evN l1 e l2, evU ++ evN = l1 ++ e :: l2 ->
  Forall (fun x => estep x = SNew) evN -> estep e = SUndo ->
  exists u2, evU = l1 ++ e :: u2 /\ l2 = u2 ++ evN.
Proof.
  induction evU as [|x evU IH]; intros evN l1 e l2 H HN He.
  - cbn [app] in H. exfalso. rewrite Forall_forall in HN.
    assert (Hin : In e evN) by (rewrite H; apply in_or_app; right; left; reflexivity).
    rewrite (HN e Hin) in He. discriminate.
  - destruct l1 as [|y l1]; cbn [app] in H; injection H as -> H.
    + exists evU. auto.
    + destruct (IH evN l1 e l2 H HN He) as (u2 & -> & ->). exists u2. auto.
Qed.

Lemma new_in_back : forall evU evN l1 e l2, evU ++ evN = l1 ++ e :: l2 ->
  Forall (fun x => estep x = SUndo) evU -> estep e = SNew ->
  exists n1, l1 = evU ++ n1 /\ evN = n1 ++ e :: l2.
Proof.
  induction evU as [|x evU IH]; intros evN l1 e l2 H HU He.
  - cbn [app] in H. exists l1. auto.
  - destruct l1 as [|y l1]; cbn [app] in H; injection H as E H.
    + subst e. rewrite (Forall_inv HU) in He. discriminate.
    + subst y. destruct (IH evN l1 e l2 H (Forall_inv_tail HU) He) as (n1 & -> & ->). exists n1. auto.
Qed.

(* ---------- locating one element of a concatenation ---------- *)

Lemma concat_split {A} : forall (ls : list (list A)) E1 (e : A) E2, concat ls = E1 ++ e :: E2 ->
  exists ls1 l1 l2 ls2, ls = ls1 ++ (l1 ++ e :: l2) :: ls2 /\ E1 = concat ls1 ++ l1 /\ E2 = l2 ++ concat ls2.
Proof.
  induction ls as [|l ls IH]; intros E1 e E2 H; cbn [concat] in H.
  - destruct E1; discriminate.
  - revert E1 H. induction l as [|x l IHl]; intros E1 H.
    + cbn [app] in H. destruct (IH E1 e E2 H) as (ls1 & l1 & l2 & ls2 & -> & -> & ->).
      exists ([] :: ls1), l1, l2, ls2. auto.
    + destruct E1 as [|y E1]; cbn [app] in H; injection H as -> H.
      * exists [], [], l, ls. auto.
      * destruct (IHl E1 H) as (ls1 & l1 & l2 & ls2 & Hls & -> & ->).
        destruct ls1 as [|l0 ls1]; cbn [app] in Hls; injection Hls as Hl Hls.
        -- subst l ls. exists [], (y :: l1), l2, ls2. auto.
        -- subst l ls. exists ((y :: l0) :: ls1), l1, l2, ls2. auto.
Qed.

Lemma nth_split_firstn {A} : forall (l : list A) k e, nth_error l k = Some e ->
  l = firstn k l ++ e :: skipn (S k) l /\ firstn (S k) l = firstn k l ++ [e].
Proof.
  induction l as [|x l IH]; intros k e H; [destruct k; discriminate|].
  destruct k as [|k]; cbn [nth_error] in H.
  - injection H as ->. auto.
  - destruct (IH k e H) as [H1 H2]. cbn [firstn skipn app] in *. split; [f_equal; exact H1 | f_equal; exact H2].
Qed.

(* ---------- the three phases ---------- *)

Section Phases.
  Variable U : list block.
  Hypothesis U_uniq : forall x y, In x U -> In y U -> bid x = bid y -> x = y.

  (* Undo events pop a part of Q; the final part F below is never reached *)
  Lemma undo_phase lib F any : forall evU Q S1,
    Forall (fun e => estep e = SUndo) evU ->
    (forall e, In e evU -> In (eblk e) U /\ ~ In (bid (eblk e)) (map bid F)) ->
    Forall (fun x => In x U) Q ->
    apply_all lib (rev (F ++ Q)) evU = Some S1 ->
    exists Q0, Q = Q0 ++ rev (map eblk evU) /\ S1 = rev (F ++ Q0) /\
      cons_fold (mkCons (rev (F ++ Q)) (length F) any) evU = Some (mkCons S1 (length F) any).
  Proof.
    induction evU as [|e evU IH]; intros Q S1 Hs Hu HQ Happ.
    - cbn in Happ. injection Happ as <-. exists Q. rewrite app_nil_r. auto.
    - pose proof (Forall_inv Hs) as He. cbn beta in He. cbn [apply_all] in Happ. unfold apply_ev in Happ. rewrite He in Happ.
      destruct (Hu e (or_introl eq_refl)) as [HeU Hnin].
      destruct Q as [|t Q' _] using rev_ind.
      + exfalso. rewrite app_nil_r in Happ. destruct (rev F) as [|top rest] eqn:ER; [discriminate|].
        destruct (N.eqb_spec (bid (eblk e)) (bid top)) as [E|E]; [|discriminate].
        apply Hnin. rewrite E. apply in_map. apply in_rev. rewrite ER. left. reflexivity.
      + rewrite app_assoc, rev_app_distr in Happ. cbn [rev app] in Happ.
        destruct (N.eqb_spec (bid (eblk e)) (bid t)) as [E|E]; [|discriminate].
        apply Forall_app in HQ as [HQ' Ht]. pose proof (Forall_inv Ht) as HtU. cbn beta in HtU.
        assert (Et : eblk e = t) by (apply U_uniq; assumption).
        destruct (IH Q' S1 (Forall_inv_tail Hs) (fun x Hx => Hu x (or_intror Hx)) HQ' Happ) as (Q0 & HQ0 & HS1 & Hc).
        exists Q0. split; [|split; [exact HS1|]].
        * cbn [map rev]. rewrite HQ0, Et, <- app_assoc. reflexivity.
        * cbn [cons_fold]. unfold cons_apply. rewrite He. cbn [cs_stack cs_nf cs_any].
          rewrite app_assoc, rev_app_distr. cbn [rev app]. rewrite E, N.eqb_refl. cbn [andb length].
          rewrite rev_length, app_length.
          replace (Nat.ltb (length F) (S (length F + length Q'))) with true by (symmetry; apply Nat.ltb_lt; lia).
          exact Hc.
  Qed.

  (* New events push *)
  Lemma new_phase lib nf any : forall evN S1 S',
    Forall (fun e => estep e = SNew) evN -> apply_all lib S1 evN = Some S' ->
    S' = rev (map eblk evN) ++ S1 /\ cons_fold (mkCons S1 nf any) evN = Some (mkCons S' nf any).
  Proof.
    induction evN as [|e evN IH]; intros S1 S' Hs Happ.
    - cbn in Happ. injection Happ as <-. auto.
    - pose proof (Forall_inv Hs) as He. cbn beta in He. cbn [apply_all] in Happ. unfold apply_ev in Happ. rewrite He in Happ.
      cbn [cons_fold]. unfold cons_apply. rewrite He. cbn [cs_stack cs_nf cs_any].
      destruct S1 as [|top S1'].
      + destruct (root_ok lib (eblk e)); [|discriminate].
        destruct (IH [eblk e] S' (Forall_inv_tail Hs) Happ) as [-> Hc]. split; [|exact Hc].
        cbn [map rev]. rewrite <- app_assoc. reflexivity.
      + destruct (bparent (eblk e) =? bid top); [|discriminate].
        destruct (IH (eblk e :: top :: S1') S' (Forall_inv_tail Hs) Happ) as [-> Hc]. split; [|exact Hc].
        cbn [map rev]. rewrite <- app_assoc. reflexivity.
  Qed.

  (* Irreversible events for the blocks sitting on the stack just above the final part *)
  Lemma irr_phase stack : forall evI Fnew Pre rest,
    map eblk evI = Fnew -> Forall (fun e => estep e = SIrr) evI -> rev stack = Pre ++ Fnew ++ rest ->
    cons_fold (mkCons stack (length Pre) true) evI = Some (mkCons stack (length (Pre ++ Fnew)) true).
  Proof.
    induction evI as [|e evI IH]; intros Fnew Pre rest Hm Hs Hrev.
    - cbn [map] in Hm. subst Fnew. rewrite app_nil_r. reflexivity.
    - cbn [map] in Hm. destruct Fnew as [|x Fnew']; [discriminate|]. injection Hm as Hex Hm.
      pose proof (Forall_inv Hs) as He. cbn beta in He.
      cbn [cons_fold]. unfold cons_apply. rewrite He. cbn [cs_stack cs_nf cs_any]. unfold nth_from_bottom.
      rewrite Hrev, nth_error_app2 by lia. rewrite Nat.sub_diag. cbn [app nth_error]. rewrite Hex, N.eqb_refl.
      specialize (IH Fnew' (Pre ++ [x]) rest Hm (Forall_inv_tail Hs)).
      rewrite app_length in IH. cbn [length] in IH. replace (length Pre + 1)%nat with (S (length Pre)) in IH by lia.
      rewrite IH; [rewrite <- app_assoc; reflexivity | rewrite Hrev, <- app_assoc; reflexivity].
  Qed.

  Lemma quiet_stalled : forall evS c, Forall (fun e => estep e = SStalled) evS -> cons_fold c evS = Some c.
  Proof.
    induction evS as [|e evS IH]; intros c Hs; [reflexivity|].
    cbn [cons_fold]. unfold cons_apply. rewrite (Forall_inv Hs). apply IH. exact (Forall_inv_tail Hs).
  Qed.
End Phases.

(* ---------- parent-linked runs ---------- *)

Lemma linked_prefix y : forall a c, linked y (a ++ c) -> linked y a.
Proof.
  intros a. revert y. induction a as [|x a IH]; intros y c H; [exact I|].
  cbn [app linked] in *. destruct H as [H1 H2]. split; [exact H1 | eapply IH; exact H2].
Qed.

(* the id a run rests its next element on *)
Definition tip (y : N) (l : list block) : N := match rev l with t :: _ => bid t | [] => y end.

Lemma tip_snoc y l x : tip y (l ++ [x]) = bid x.
Proof. unfold tip. rewrite rev_app_distr. reflexivity. Qed.

Lemma tip_app y a c : tip y (a ++ c) = tip (tip y a) c.
Proof.
  unfold tip. rewrite rev_app_distr. destruct (rev c) as [|t r]; cbn [app]; reflexivity.
Qed.

Lemma linked_app_iff y : forall a c, linked y (a ++ c) <-> linked y a /\ linked (tip y a) c.
Proof.
  intros a. revert y. induction a as [|x a IH]; intros y c.
  - cbn [app linked]. unfold tip. cbn. tauto.
  - cbn [app linked]. rewrite IH. replace (tip y (x :: a)) with (tip (bid x) a); [tauto|].
    unfold tip. cbn [rev]. destruct (rev a) as [|t r]; cbn [app]; reflexivity.
Qed.

Lemma linked_mid y a x c : linked y (a ++ x :: c) -> bparent x = tip y a.
Proof. intros H. apply linked_app_iff in H as [_ H]. cbn [linked] in H. tauto. Qed.
