(* C09 over histories: the head's complete segment of a ready hub against the never-disconnected consumer. *)
From Coq Require Import Sorted.
From BV Require Import Base.Prelude Model.Block Model.ForkDB Model.Forkable Model.ForkableLookups Model.Burst Model.Hub
  Spec.Consumer Spec.Universe Check.Fk_Check Check.Burst_Check Spec.C09_Spec Spec.C05_Spec Spec.C09_History_Spec
  Spec.C01_Spec Spec.C01_Moving_Spec Spec.C01_Roots_Spec
  Proofs.C09_Store Proofs.C09_Segment Proofs.C09_Proofs Proofs.C05_Fast Proofs.C05_Forked
  Proofs.Fk.StoreFacts Proofs.Fk.WalkFacts Proofs.Fk.LoopFacts Proofs.Fk.FixedLib Proofs.Fk.MovingLibStore
  Proofs.Fk.MovingLibInv Proofs.Fk.MovingLibFin Proofs.Fk.MovingLibDisc Proofs.C02_Proofs Proofs.C01_Roots_Proofs
  Proofs.Hub.StepFields Proofs.Hub.ConsFacts Proofs.Hub.HubInv Proofs.Hub.HubRun Proofs.Hub.HubFed
  Proofs.Hub.LinkedRuns Proofs.Hub.CursorLife.
Local Open Scope N_scope.

(* a stored id met by the parent walk from x is on the complete segment of x *)
Lemma chain_on_segment d : forall x y p, chain (store d) x y p ->
  forall n sg, chain_to d x n sg -> forall e, find y (store d) = Some e -> In y (map sid sg).
Proof.
  induction 1 as [x|x y e0 p Hne Hf Hc IH]; intros n sg Hct e He.
  - inversion Hct as [? ? Hnone|? ? e' pre Hf' Hpre]; subst; [congruence|].
    rewrite map_app. apply in_or_app. right. left. reflexivity.
  - inversion Hct as [? ? Hnone|? ? e' pre Hf' Hpre]; subst; [congruence|].
    rewrite Hf in Hf'. injection Hf' as <-.
    rewrite map_app. apply in_or_app. left. exact (IH _ _ Hpre e He).
Qed.

Section Suffix.
  Variable U : list block.
  Hypothesis U_id : forall b, In b U -> bid b <> 0 /\ bid b <> bparent b.
  Hypothesis U_uniq : forall x y, In x U -> In y U -> bid x = bid y -> x = y.

  (* two parent-linked runs ending with the same block: one is the end of the other *)
  Lemma linked_same_end : forall l1 l2 x1 x2 t, linked x1 (l1 ++ [t]) -> linked x2 (l2 ++ [t]) ->
    Forall (fun y => In y U) (l1 ++ [t]) -> Forall (fun y => In y U) (l2 ++ [t]) ->
    (exists d, l1 = d ++ l2) \/ (exists d, l2 = d ++ l1).
  Proof.
    induction l1 as [|u1 l1 IH] using rev_ind; intros l2 x1 x2 t H1 H2 HU1 HU2.
    - right. exists l2. rewrite app_nil_r. reflexivity.
    - destruct l2 as [|u2 l2 _] using rev_ind.
      + left. exists (l1 ++ [u1]). rewrite app_nil_r. reflexivity.
      + pose proof (linked_mid _ _ _ _ H1) as Hp1. pose proof (linked_mid _ _ _ _ H2) as Hp2. rewrite tip_snoc in Hp1, Hp2.
        apply Forall_app in HU1 as [HU1 _]. apply Forall_app in HU2 as [HU2 _].
        assert (Eu : u1 = u2).
        { apply U_uniq; [| |congruence].
          - apply Forall_app in HU1 as [_ H]. exact (Forall_inv H).
          - apply Forall_app in HU2 as [_ H]. exact (Forall_inv H). }
        subst u2.
        destruct (IH l2 x1 x2 u1 (linked_prefix _ _ _ H1) (linked_prefix _ _ _ H2) HU1 HU2) as [[d ->]|[d ->]].
        * left. exists d. rewrite app_assoc. reflexivity.
        * right. exists d. rewrite app_assoc. reflexivity.
  Qed.
End Suffix.

Lemma seg_linked_all : forall l, Sorted seg_link l -> Forall seg_std l -> exists x, linked x (map seg_blk l).
Proof.
  intros [|y l] HS Hstd; [exists 0; exact I|].
  exists (bparent (seg_blk y)). cbn [map linked]. split; [reflexivity|].
  destruct (Forall_inv Hstd) as [Hy _]. rewrite <- Hy. apply seg_linked; assumption.
Qed.

Section C09H.
  Variable U : list block.
  Variables first kept : N.
  Hypothesis Hwfb : wf_b U = true.
  Hypothesis Hlok : lib_ok_b LNone U = true.

  Let cfg := hub_config first kept.
  Let s0 := fs_init LNone.

  Let Hscope : disc_scope2_b U = true.
  Proof. unfold disc_scope2_b. rewrite Hwfb, Hlok. reflexivity. Qed.

  Let Hid := bridge_id U Hwfb.
  Let Huniq := bridge_uniq U Hwfb.
  Let Hup := bridge_up U Hwfb.
  Let Hdecl := bridge2_decl_none U Hscope.

  Lemma hub_ok_run l : (forall b p, In (b, p) l -> In b U /\ pass_in U p) ->
    hub_ok U first kept (hub_run first kept hub_init l).
  Proof.
    intros Hl. apply (hub_run_ok U first kept Hid Huniq Hup Hdecl); [exact Hl | apply hub_init_ok].
  Qed.

  Lemma fed_hub_fed h hist : fed U first kept (h_f h) hist -> hub_fed U first kept h hist.
  Proof.
    intros Hf. destruct (fed_run U first kept Hid Huniq Hup Hdecl _ _ Hf) as [(Hok & _ & _) _].
    destruct Hf as [Hsub Hst]. split; [exact Hsub|]. split; [exact Hok | exact Hst].
  Qed.

  Lemma hub_is_forkable_run_proof l : (forall b p, In (b, p) l -> In b U /\ pass_in U p) ->
    exists hist, hub_fed U first kept (hub_run first kept hub_init l) hist.
  Proof.
    intros Hl. destruct (hub_ok_run l Hl) as [[hist Hf] _]. exists hist. apply fed_hub_fed. exact Hf.
  Qed.

  Lemma chain_is_consumer_chain_proof l : (forall b p, In (b, p) l -> In b U /\ pass_in U p) ->
    let h := hub_run first kept hub_init l in
    h_ready h = true ->
    exists hist c hd lo xL hi,
      hub_fed U first kept h hist /\
      cons_fold cons0 (all_events (fk_run cfg s0 hist)) = Some c /\
      last_sent (h_f h) = Some hd /\ hd_error (cs_stack c) = Some hd /\
      complete_segment (db (h_f h)) (bref hd) = Some (lo ++ xL :: hi, true) /\
      sid xL = ri (libref (db (h_f h))) /\ snum xL = rn (libref (db (h_f h))) /\
      (forall x, In x hi -> rn (libref (db (h_f h))) < snum x) /\
      map seg_blk hi = cons_pending c /\
      (forall x, In x lo -> snum x < rn (libref (db (h_f h)))) /\
      ((exists d, map seg_blk (lo ++ [xL]) = d ++ cons_final c) \/
       (exists d, cons_final c = d ++ map seg_blk (lo ++ [xL]))).
  Proof.
    intros Hl h Hrd. destruct (hub_ok_run l Hl) as [[hist Hf] Hhead]. fold h in Hf, Hhead.
    specialize (Hhead Hrd).
    destruct (fed_post U first kept Hid Huniq Hup Hdecl _ _ Hf Hhead) as (a & Fin & S & c & HP & Hc & _ & HFR & _).
    set (s := h_f h) in *.
    pose proof (po_a U cfg a s Fin S c HP) as Ha. pose proof (po_inv U cfg a s Fin S c HP) as HI.
    destruct (inv_lib U cfg a s Fin S Ha HI) as [HLU Hlib].
    destruct (post_head U cfg Hid Huniq Hup a s Fin S c HP) as (hd & p & Hls & HhU & Hcp & HS & HpU & Hlp & Htp & HFin).
    pose proof (inv_wf_state U cfg Hid Huniq Hup a s Fin S Ha HI) as W. pose proof W as [[Wst _] _].
    destruct (complete_segment_total (db s) (bref hd) Wst) as (sg & reach & E).
    pose proof (complete_segment_segment_of _ _ _ _ E) as Hso.
    pose proof (segment_of_chain_to _ _ _ _ Hso) as Hct. cbn [bref ri rn] in Hct.
    (* the LIB block is stored, hence on the segment *)
    pose proof (i_db U _ _ _ _ _ HI) as Hd.
    assert (Hlst : exists el, find (ri (libref (db s))) (store (db s)) = Some el).
    { pose proof (di_num U _ _ Hd) as Hnum. unfold num_of in Hnum.
      destruct (find (ri (libref (db s))) (store (db s))) as [el|]; [eauto|].
      rewrite (po_extra U cfg a s Fin S c HP) in Hnum. discriminate. }
    destruct Hlst as [el Hel].
    assert (Hin : block_in (bid (libblk a Fin)) sg = true).
    { apply block_in_spec. pose proof (chain_on_segment (db s) _ _ _ Hcp _ _ Hct el Hel) as H.
      apply in_map_iff in H as (x & Hx & Hxin). exists x. split; [exact Hxin|]. rewrite Hx, Hlib. reflexivity. }
    assert (Hreach : reach = true).
    { destruct Hso as [_ _ _ _ Hr]. apply Hr. apply in_or_app. left. apply block_in_spec in Hin as (x & Hx & Hsx).
      rewrite Hlib. cbn [bref ri]. rewrite <- Hsx. apply in_map. exact Hx. }
    subst reach.
    destruct (above_lib_part U cfg Hid Huniq Hup a s Fin S c HP hd sg true Fin [] Hls E (eq_sym (app_nil_r Fin)) HLU I (Forall_nil _) Hin)
      as (lo & xL & hi & p' & Hsplit & HbL & HnL & HsL & HS' & HH & _ & Hlo & Hhi & Hstd & _ & _).
    assert (Hpp : map eb p' = map eb p).
    { rewrite HS in HS'. apply rev_inj in HS'. apply app_inv_head in HS'. symmetry. exact HS'. }
    assert (HrnL : rn (libref (db s)) = bnum (libblk a Fin)) by (rewrite Hlib; reflexivity).
    assert (HriL : ri (libref (db s)) = bid (libblk a Fin)) by (rewrite Hlib; reflexivity).
    assert (HcS : cs_stack c = S /\ cs_nf c = length Fin) by (rewrite (po_cons U cfg a s Fin S c HP); auto).
    destruct HcS as [HcS Hcn].
    assert (HSrev : S = rev (map eb p) ++ rev Fin) by (rewrite HS, rev_app_distr; reflexivity).
    assert (Hlen : (length S - length Fin)%nat = length (rev (map eb p))).
    { rewrite HSrev, app_length, !rev_length. lia. }
    assert (Hpend : cons_pending c = map eb p).
    { unfold cons_pending. rewrite HcS, Hcn, Hlen, HSrev, firstn_app, Nat.sub_diag, firstn_all. cbn [firstn].
      rewrite app_nil_r. apply rev_involutive. }
    assert (Hfinal : cons_final c = Fin).
    { unfold cons_final. rewrite HcS, Hcn, Hlen, HSrev, skipn_app, Nat.sub_diag, skipn_all. cbn [skipn app].
      apply rev_involutive. }
    destruct (post_segment U cfg Hid Huniq Hup a s Fin S c HP hd sg true Hls E) as (Hgood & Hst & HsU & _).
    exists hist, c, hd, lo, xL, hi.
    split; [apply fed_hub_fed; exact Hf|]. split; [exact Hc|]. split; [exact Hls|]. split.
    { (* the top of the consumer's stack is the head *)
      rewrite HcS, HS. destruct p as [|et p0 _] using rev_ind.
      - apply chain_nil_inv in Hcp. cbn [map]. rewrite app_nil_r.
        assert (Ehd : hd = libblk a Fin) by (apply Huniq; [exact HhU | exact HLU | congruence]).
        unfold libblk in Ehd. destruct (rev Fin) as [|t r] eqn:ER.
        + exfalso. apply (po_ne U cfg a s Fin S c HP). rewrite HS. cbn [map]. rewrite app_nil_r, ER. reflexivity.
        + cbn [hd_error]. rewrite Ehd. reflexivity.
      - destruct (chain_top _ _ _ _ _ Hcp) as [Hft Hk]. rewrite map_app, app_assoc, rev_app_distr. cbn [map rev app hd_error].
        f_equal. apply (stored_is_self U Huniq _ _ _ (di_inU U _ _ Hd) HhU Hft). }
    split; [rewrite <- Hsplit; exact E|]. split; [rewrite HsL; symmetry; exact HriL|]. split; [rewrite HnL; symmetry; exact HrnL|].
    split; [intros x Hx; rewrite HrnL; apply Hhi; exact Hx|].
    split; [rewrite Hpend, <- Hpp; exact HH|].
    split; [intros x Hx; rewrite HrnL; apply Hlo; exact Hx|].
    rewrite Hfinal.
    (* the retained final part against the consumer's final blocks *)
    destruct Fin as [|f0 Fin0 _] eqn:EF using rev_ind.
    { left. exists (map seg_blk (lo ++ [xL])). rewrite app_nil_r. reflexivity. }
    assert (Hlast : seg_blk xL = f0).
    { rewrite HbL. unfold libblk. rewrite rev_app_distr. reflexivity. }
    rewrite map_app. cbn [map]. rewrite Hlast.
    assert (HlinkF : exists x, linked x (Fin0 ++ [f0])).
    { destruct HFR as [Hlk|(F' & HF' & Hlk)]; [eauto|]. exists (bparent a). rewrite HF'. cbn [linked]. auto. }
    destruct HlinkF as [x1 Hl1].
    assert (HlinkL : exists x, linked x (map seg_blk lo ++ [f0])).
    { destruct Hgood as [Hgstd Hglk _ _]. rewrite Hsplit in Hgstd, Hglk.
      change (xL :: hi) with ([xL] ++ hi) in Hgstd, Hglk. rewrite app_assoc in Hgstd, Hglk.
      apply Sorted_app_l in Hglk. apply Forall_app in Hgstd as [Hgstd _].
      destruct (seg_linked_all _ Hglk Hgstd) as [x Hx]. exists x. rewrite map_app in Hx. cbn [map] in Hx. rewrite Hlast in Hx. exact Hx. }
    destruct HlinkL as [x2 Hl2].
    assert (HU1 : Forall (fun y => In y U) (Fin0 ++ [f0])).
    { eapply Forall_impl; [|exact HFin]. cbn beta. tauto. }
    assert (HU2 : Forall (fun y => In y U) (map seg_blk lo ++ [f0])).
    { apply Forall_app. split; [|constructor; [apply Forall_app in HU1 as [_ G]; exact (Forall_inv G) | constructor]].
      apply Forall_forall. intros y Hy. apply in_map_iff in Hy as (z & <- & Hz). rewrite Forall_forall in HsU. apply HsU.
      rewrite Hsplit. apply in_or_app. left. exact Hz. }
    destruct (linked_same_end U Huniq (map seg_blk lo) Fin0 x2 x1 f0 Hl2 Hl1 HU2 HU1) as [[d Hd1]|[d Hd2]].
    - left. exists d. rewrite Hd1, app_assoc. reflexivity.
    - right. exists d. rewrite Hd2, app_assoc. reflexivity.
  Qed.
End C09H.

Lemma c09_hub_is_forkable_run_proof : C09_hub_is_forkable_run.
Proof. intros U first kept l Hwf Hok Hl. exact (hub_is_forkable_run_proof U first kept Hwf Hok l Hl). Qed.

Lemma c09_chain_is_consumer_chain_proof : C09_chain_is_consumer_chain.
Proof. intros U first kept l Hwf Hok Hl h Hrd. exact (chain_is_consumer_chain_proof U first kept Hwf Hok l Hl Hrd). Qed.
