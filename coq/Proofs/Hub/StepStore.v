(* What one ProcessBlock call does to the set of stored blocks, for a handler that never fails: the blocks
   stored afterwards are the blocks stored before (plus the incoming one) at or above a threshold T - the cutoff
   of PurgeBeforeLIB, 0 when nothing is purged; every block delivered as New is one of them.  No hypothesis on
   the state beyond "the stored entry of the incoming block's id, if any, is that block". *)
From BV Require Import Base.Prelude Model.Block Model.ForkDB Model.Forkable Spec.Consumer
  Proofs.Fk.StoreFacts Proofs.Fk.WalkFacts Proofs.Fk.LoopFacts Proofs.Fk.MovingLibLoops Proofs.Hub.StepFields.
Local Open Scope N_scope.

Definition StoreShape (SB NB : list block) (res : fstate * list event * result) : Prop :=
  exists s' evs r, res = (s', evs, r) /\
    (forall e, In e evs -> estep e = SNew -> In (eblk e) NB) /\
    exists T, map eb (store (db s')) = filter (fun x => T <=? bnum x) SB /\ (T = 0 \/ T <= rn (libref (db s'))).

Lemma filter_zero (l : list block) : filter (fun x => 0 <=? bnum x) l = l.
Proof. induction l as [|x l IH]; [reflexivity|]. cbn [filter]. replace (0 <=? bnum x) with true by (symmetry; apply N.leb_le; lia). rewrite IH. reflexivity. Qed.

Lemma map_eb_filter (f : N -> bool) (l : list entry) :
  map eb (filter (fun e => f (bnum (eb e))) l) = filter (fun x => f (bnum x)) (map eb l).
Proof. induction l as [|e l IH]; [reflexivity|]. cbn [filter map]. destruct (f (bnum (eb e))); cbn [map]; rewrite IH; reflexivity. Qed.

Lemma map_eb_set_sent id : forall l, map eb (set_sent id l) = map eb l.
Proof.
  induction l as [|e l IH]; [reflexivity|]. cbn [set_sent]. destruct (bid (eb e) =? id); cbn [map eb]; [reflexivity|].
  rewrite IH. reflexivity.
Qed.

Lemma map_eb_mark_all : forall segs l, map eb (mark_all l segs) = map eb l.
Proof.
  induction segs as [|sg segs IH]; intros l; [reflexivity|]. unfold mark_all in *. cbn [fold_left].
  rewrite IH. apply map_eb_set_sent.
Qed.

Lemma shape_same SB NB s r : map eb (store (db s)) = SB -> StoreShape SB NB (s, [], r).
Proof.
  intros H. exists s, [], r. split; [reflexivity|]. split; [intros e []|]. exists 0. rewrite filter_zero. auto.
Qed.

(* the entries a walk returns are stored entries *)
Lemma scs_in d flag : forall ids l, sent_chain_segment d ids flag = Some l -> forall e, In e l -> In e (store d).
Proof.
  induction ids as [|id ids IH]; intros l H e He; cbn [sent_chain_segment] in H.
  - injection H as <-. destruct He.
  - destruct (find id (store d)) as [e0|] eqn:F; [|discriminate].
    destruct (sent_chain_segment d ids flag) as [l0|]; [|discriminate].
    destruct (flag && negb (esent e0)); injection H as <-.
    + apply (IH l0 eq_refl e He).
    + destruct He as [<-|He]; [apply find_some in F; tauto | apply (IH l0 eq_refl e He)].
Qed.

Lemma scss_redos_in d x y undos redos junc : sent_chain_switch_segments d x y = ScssOk undos redos junc ->
  forall e, In e redos -> In e (store d).
Proof.
  unfold sent_chain_switch_segments. destruct (x =? y); [intros H; injection H as _ <- _; intros e []|].
  destruct (chain_switch_segments d x y) as [uids rids j| |]; [| intros H; injection H as _ <- _; intros e [] | discriminate].
  destruct (sent_chain_segment d uids false) as [u|]; [|discriminate].
  destruct (sent_chain_segment d rids true) as [r|] eqn:Hr; [|discriminate].
  intros H. injection H as _ <- _. exact (scs_in d true rids r Hr).
Qed.

Lemma rs_loop_in d first : forall fuel cur n acc l r, rs_loop fuel d first cur n acc = Some (l, r) ->
  (forall x, In x acc -> In (sent x) (store d)) -> forall x, In x l -> In (sent x) (store d).
Proof.
  induction fuel as [|f IH]; intros cur n acc l r H Hacc; cbn [rs_loop] in H; [discriminate|].
  destruct ((first <? n) && (n <? rn (libref d))); [injection H as <- <-; intros x []|].
  destruct (cur =? ri (libref d)); [injection H as <- <-; exact Hacc|].
  destruct (find cur (store d)) as [e|] eqn:F.
  - eapply IH; [exact H|]. intros x [<-|Hx]; [cbn [sent]; apply find_some in F; tauto | apply Hacc; exact Hx].
  - destruct (has_lib d); injection H as <- <-; [intros x [] | exact Hacc].
Qed.

Lemma rs_in d first start l r : reversible_segment d first start = Some (l, r) -> forall x, In x l -> In (sent x) (store d).
Proof. unfold reversible_segment. intros H. eapply rs_loop_in; [exact H|]. intros x []. Qed.

Section Store.
  Variable cfg : config.
  Hypothesis Hnofail : c_fail_at cfg = None.
  Hypothesis Hnew : f_new (c_filter cfg) = true.

  Lemma process_tail_store s1 b undos redos junc longest fi : longest <> [] ->
    StoreShape (map eb (store (db s1))) (map eb redos ++ map (fun sg => eb (sent sg)) longest)
               (process_tail cfg s1 b undos redos junc longest fi).
  Proof.
    intros Hne. unfold process_tail. rewrite Hnew.
    assert (HU : exists sa evU, (if f_undo (c_filter cfg) then process_blocks cfg b undos SUndo junc s1 else (s1, [], true)) = (sa, evU, true) /\
                  same_but_calls s1 sa /\ Forall (fun e => estep e = SUndo) evU).
    { destruct (f_undo (c_filter cfg)).
      - destruct (process_blocks_ok cfg Hnofail b undos SUndo junc s1) as (sa & evU & H & Hs & _ & Hf). exists sa, evU. auto.
      - exists s1, []. repeat split; constructor. }
    destruct HU as (sa & evU & -> & (Ha1 & Ha2 & Ha3) & HsU). cbn [negb].
    destruct (process_blocks_ok cfg Hnofail b redos SNew None sa) as (sb & evR & -> & (Hb1 & Hb2 & Hb3) & HmR & HsR). cbn [negb].
    unfold process_new_blocks. destruct longest as [|b0 lrest] eqn:Hlong; [congruence|]. rewrite <- Hlong in *.
    destruct (process_new_loop_ok cfg Hnofail Hnew (seg_ref (last longest b0)) longest sb []) as
      (s3 & evN & Hrun & HmN & HsN & Hst & Hex & Hlib & Hlls & Hlast).
    cbn [app] in Hrun. rewrite Hlong in Hrun at 1. rewrite <- Hlong in Hrun. rewrite Hrun. cbn [negb].
    assert (Hst3 : map eb (store (db s3)) = map eb (store (db s1))).
    { rewrite Hst, map_eb_mark_all, Hb1, Ha1. reflexivity. }
    assert (HN : forall e, In e (evU ++ evR ++ evN) -> estep e = SNew ->
                   In (eblk e) (map eb redos ++ map (fun sg => eb (sent sg)) longest)).
    { intros e He Hs. apply in_app_or in He as [He|He].
      - rewrite Forall_forall in HsU. rewrite (HsU e He) in Hs. discriminate.
      - apply in_or_app. apply in_app_or in He as [He|He].
        + left. rewrite <- HmR. apply in_map. exact He.
        + right. assert (Hin : In (eblk e) (map eblk evN)) by (apply in_map; exact He). rewrite HmN in Hin.
          apply in_map_iff in Hin as (sg & Hsg & Hin). apply filter_In in Hin as [Hin _].
          apply in_map_iff. exists sg. auto. }
    assert (Hstay : forall r, StoreShape (map eb (store (db s1))) (map eb redos ++ map (fun sg => eb (sent sg)) longest)
                                (s3, evU ++ evR ++ evN, r)).
    { intros r. exists s3, (evU ++ evR ++ evN), r. split; [reflexivity|]. split; [exact HN|].
      exists 0. rewrite filter_zero. auto. }
    destruct (last_sent s3) as [ls|]; [|apply Hstay].
    destruct (negb (has_lib (db s3))); [apply Hstay|].
    destruct (block_in_chain (db s3) (bref ls) (blib ls)) as [libr|]; [|apply Hstay].
    destruct (ri libr =? 0); [apply Hstay|].
    destruct (has_new_irr_segment (db s3) (c_first cfg) libr) as [[[hn irr0] stalled]|] eqn:Hn; [|apply Hstay].
    set (irr := match fi with Some f => irr0 ++ [f] | None => irr0 end).
    destruct (negb hn && match fi with None => true | Some _ => false end) eqn:Hg; [apply Hstay|].
    assert (Hirr : exists i0 irr', irr = i0 :: irr').
    { destruct fi as [f|].
      - unfold irr. destruct irr0 as [|i0 irr']; cbn [app]; eauto.
      - rewrite andb_true_r in Hg. apply negb_false_iff in Hg. subst hn. unfold irr.
        unfold has_new_irr_segment in Hn. destruct (ri (libref (db s3)) =? ri libr); [discriminate|].
        destruct (reversible_segment (db s3) (c_first cfg) libr) as [[ir rr]|]; [|discriminate].
        destruct ir as [|i0 irr']; [discriminate|]. injection Hn as <- _. eauto. }
    destruct Hirr as (i0 & irr' & Ei).
    set (d' := purge_before_lib (move_lib (db s3) libr) (c_kept cfg)).
    destruct (process_irr_segment_ok cfg Hnofail irr i0 irr' (bref b) (with_db s3 d') Ei)
      as (s5 & ev5 & -> & Hdb5 & Hls5 & Hlls5 & Hm5 & Hs5). cbn [negb].
    destruct (process_stalled_segment_ok cfg Hnofail stalled (bref b) s5)
      as (s6 & ev6 & -> & (Hdb6 & Hls6 & Hlls6) & Hm6 & Hs6).
    exists s6, ((evU ++ evR ++ evN) ++ ev5 ++ ev6), ROk. split; [reflexivity|]. split.
    - intros e He Hs. apply in_app_or in He as [He|He]; [apply HN; assumption|]. exfalso.
      apply in_app_or in He as [He|He]; [rewrite Forall_forall in Hs5; rewrite (Hs5 e He) in Hs | rewrite Forall_forall in Hs6; rewrite (Hs6 e He) in Hs]; discriminate.
    - exists (rn libr - c_kept cfg). rewrite Hdb6, Hdb5. unfold d', purge_before_lib, move_lib. cbn [with_db db store libref rn].
      split; [|right; lia].
      rewrite (map_eb_filter (fun n => rn libr - c_kept cfg <=? n)). rewrite Hst3. reflexivity.
  Qed.

  (* ---------- ProcessBlock ---------- *)

  Lemma map_eb_put b : forall l, (forall e, find (bid b) l = Some e -> eb e = b) ->
    map eb (put (mkEntry b false) l) = map eb l ++ (match find (bid b) l with Some _ => [] | None => [b] end).
  Proof.
    induction l as [|x l IH]; intros Hself; cbn [put find map app eb]; [reflexivity|].
    destruct (N.eqb_spec (bid (eb x)) (bid b)) as [E|E].
    - cbn [map eb]. rewrite app_nil_r. f_equal. symmetry. apply Hself. cbn [find]. rewrite E, N.eqb_refl. reflexivity.
    - cbn [map]. rewrite IH; [reflexivity|]. intros e He. apply Hself. cbn [find].
      destruct (N.eqb_spec (bid (eb x)) (bid b)); [contradiction | exact He].
  Qed.

  Hypothesis Hincl : c_incl cfg = false.

  Lemma fk_step_store s b : has_lib (db s) = true -> bid b <> 0 ->
    (forall e, find (bid b) (store (db s)) = Some e -> eb e = b) ->
    exists new, (new = [] \/ new = [b]) /\
      StoreShape (map eb (store (db s)) ++ new) (map eb (store (db s)) ++ new) (fk_step cfg s b).
  Proof.
    intros Hhl Hz Hself. unfold fk_step.
    assert (Hsame : forall r, exists new, (new = [] \/ new = [b]) /\
               StoreShape (map eb (store (db s)) ++ new) (map eb (store (db s)) ++ new) (s, [], r)).
    { intros r. exists []. split; [left; reflexivity|]. apply shape_same. rewrite app_nil_r. reflexivity. }
    destruct (N.eqb_spec (bid b) (bparent b)) as [Ep|Ep]; [apply Hsame|].
    destruct ((bnum b <? rn (libref (db s))) && match last_sent s with Some _ => true | None => false end); [apply Hsame|].
    rewrite Hincl. cbn [andb].
    destruct (if f_undo (c_filter cfg) && triggers cfg s b
              then match last_sent s with
                   | Some ls => sent_chain_switch_segments (db s) (bid ls) (bparent b)
                   | None => ScssOk [] [] None
                   end
              else ScssOk [] [] None) as [undos redos junc| |] eqn:Hsw; [|apply Hsame|apply Hsame].
    assert (Hredos : forall e, In e redos -> In e (store (db s))).
    { destruct (f_undo (c_filter cfg) && triggers cfg s b); [|injection Hsw as _ <- _; intros e []].
      destruct (last_sent s) as [ls|]; [|injection Hsw as _ <- _; intros e []].
      exact (scss_redos_in _ _ _ _ _ _ Hsw). }
    destruct (add_link (db s) b) as [d1 existed] eqn:Hal.
    destruct existed; [apply Hsame|].
    pose proof (add_link_lib (db s) b) as [Hl1 Hx1]. rewrite Hal in Hl1, Hx1. cbn [fst] in Hl1, Hx1.
    assert (Hhl1 : has_lib d1 = true) by (unfold has_lib in *; rewrite Hl1; exact Hhl).
    rewrite Hhl1.
    (* the store after AddLink *)
    set (new := match find (bid b) (store (db s)) with Some _ => @nil block | None => [b] end).
    assert (Hst1 : map eb (store d1) = map eb (store (db s)) ++ new).
    { unfold add_link in Hal. destruct (N.eqb_spec (bid b) (bparent b)); [contradiction|].
      destruct (N.eqb_spec (bid b) 0); [contradiction|]. cbn [orb] in Hal.
      destruct (exists_link (db s) (bid b)); [discriminate|]. injection Hal as <-. cbn [store].
      apply map_eb_put. exact Hself. }
    exists new. split; [unfold new; destruct (find (bid b) (store (db s))); auto|].
    assert (Hsame1 : forall r, StoreShape (map eb (store (db s)) ++ new) (map eb (store (db s)) ++ new) (with_db s d1, [], r)).
    { intros r. apply shape_same. exact Hst1. }
    cbn [with_db db].
    destruct (reversible_segment d1 (c_first cfg) (bref b)) as [[longest reach]|] eqn:Hrs; [|apply Hsame1].
    destruct (negb (triggers cfg s b) || match longest with [] => true | _ => false end) eqn:Hgo; [apply Hsame1|].
    assert (Hlne : longest <> []).
    { apply orb_false_iff in Hgo as [_ Hgo]. destruct longest; [discriminate | discriminate]. }
    destruct (process_tail_store (with_db s d1) b undos redos junc longest None Hlne) as (s' & evs & r & Hrun & HN & T & HT & HTl).
    cbn [with_db db] in HT. rewrite Hst1 in HT.
    exists s', evs, r. split; [exact Hrun|]. split; [|exists T; auto].
    intros e He Hs. specialize (HN e He Hs). apply in_app_or in HN as [HN|HN].
    - apply in_or_app. left. apply in_map_iff in HN as (e0 & <- & He0). apply in_map. apply Hredos. exact He0.
    - rewrite <- Hst1. apply in_map_iff in HN as (sg & <- & Hsg). apply in_map. exact (rs_in _ _ _ _ _ Hrs sg Hsg).
  Qed.
End Store.
