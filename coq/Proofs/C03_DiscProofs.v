(* C03 in discovery mode (Spec/C03_Disc_Spec.v): before the discovery the run is quiet (Proofs/Fk/DiscEvents.disc_step_ev);
   the establishing call hands over to Proofs/Fk/MovingLibChoice.run_follows with the reference rooted at the discovered
   LIB and every block fed so far as received. *)
From BV Require Import Base.Prelude Model.Block Model.ForkDB Model.Forkable Model.ForkableLookups
  Spec.Consumer Spec.Universe Spec.ForkChoice Spec.C01_Spec Spec.C01_Moving_Spec Spec.C01_Roots_Spec Spec.C03_Spec
  Spec.C04_Spec Spec.C04_Moving_Spec Spec.C03_Disc_Spec Check.Fk_Check Check.Fk_Props_Check
  Proofs.Fk.StoreFacts Proofs.Fk.WalkFacts Proofs.Fk.LoopFacts Proofs.Fk.FixedLib Proofs.Fk.FixedLibEvents
  Proofs.Fk.MovingLibInv Proofs.Fk.MovingLibFin Proofs.Fk.MovingLibDisc Proofs.Fk.MovingLibEvents Proofs.Fk.MovingLibChoice
  Proofs.Fk.DiscEvents Proofs.C02_Proofs Proofs.C01_Roots_Proofs.
Local Open Scope N_scope.

(* ---------------------------------------------------------------- the reference's last final block is a passenger *)

(* two reference states that differ at most in the last final block *)
Definition same_but_final (f1 f2 : fc_state) : Prop :=
  fc_recv f1 = fc_recv f2 /\ fc_lib f1 = fc_lib f2 /\ fc_tip f1 = fc_tip f2.

Lemma fc_step_final first incl alltrig f1 f2 b : same_but_final f1 f2 ->
  let g1 := fc_step first incl alltrig f1 b in
  let g2 := fc_step first incl alltrig f2 b in
  same_but_final g1 g2 /\
  ((fc_final g1 = fc_final f1 /\ fc_final g2 = fc_final f2) \/ (exists x, fc_final g1 = Some x /\ fc_final g2 = Some x)).
Proof.
  destruct f1 as [r1 l1 t1 n1], f2 as [r2 l2 t2 n2]. intros (E1 & E2 & E3). cbn in E1, E2, E3. subst r2 l2 t2.
  cbv zeta. unfold fc_step, same_but_final. cbn [fc_recv fc_lib fc_tip fc_final].
  destruct ((bnum b <? rn l1) && match t1 with Some _ => true | None => false end); [cbn; auto|].
  destruct (incl && negb match t1 with Some _ => true | None => false end && (bid b =? ri l1)); [cbn; split; [auto | right; eauto]|].
  destruct (lookup (bid b) r1); [cbn; auto|].
  match goal with |- context [if ?c then _ else _] => destruct c end; [|cbn; auto].
  destruct (ancestor_at _ _ _ _) as [a|]; [|cbn; auto].
  destruct (rn l1 <? bnum a); cbn; [split; [auto | right; eauto] | auto].
Qed.

(* the last final block after a list of events: the block of its last Irreversible event, else the one before *)
Lemma last_final_shape : forall evs, exists o : option block,
  forall fin, last_final fin evs = match o with Some x => Some x | None => fin end.
Proof.
  induction evs as [|e evs IH] using rev_ind; [exists None; reflexivity|].
  destruct IH as [o Ho]. unfold last_final in *.
  destruct (estep e) eqn:Es.
  1,2,4: exists o; intros fin; rewrite fold_left_app; cbn [fold_left]; rewrite Es; apply Ho.
  all: exists (Some (eblk e)); intros fin; rewrite fold_left_app; cbn [fold_left]; rewrite Es; reflexivity.
Qed.

Lemma follows_transfer cfg lib : forall h t f1 f2 st fin1 fin2,
  same_but_final f1 f2 -> (fc_final f1 = fc_final f2 \/ fc_final f1 = None) ->
  (f_irr (c_filter cfg) = true -> fin1 = fc_final f1 /\ fin2 = fc_final f2) ->
  c03_follows cfg lib f1 st fin1 h t -> c03_follows cfg lib f2 st fin2 h t.
Proof.
  induction h as [|b h IH]; intros t f1 f2 st fin1 fin2 Hs Hf Hfin H; [exact I|].
  destruct t as [|[evs r] t]; [exact I|]. cbn [c03_follows] in *.
  destruct H as (st' & H1 & H2 & H3 & H4 & H5).
  destruct (fc_step_final (c_first cfg) (c_incl cfg) (c_alltrig cfg) f1 f2 b Hs) as [Hs' Hcase]. cbv zeta in Hs', Hcase.
  set (g1 := fc_step (c_first cfg) (c_incl cfg) (c_alltrig cfg) f1 b) in *.
  set (g2 := fc_step (c_first cfg) (c_incl cfg) (c_alltrig cfg) f2 b) in *.
  destruct (last_final_shape evs) as [o Ho].
  assert (Hnew : f_irr (c_filter cfg) = true ->
            last_final fin2 evs = fc_final g2 /\ (fc_final g1 = fc_final g2 \/ fc_final g1 = None)).
  { intros E. specialize (H4 E). destruct (Hfin E) as [-> ->]. rewrite Ho in H4 |- *.
    destruct Hcase as [[G1 G2]|(x & G1 & G2)].
    - rewrite G1, G2 in *. destruct Hf as [Hf|Hf].
      + rewrite <- Hf. split; [exact H4 | left; reflexivity].
      + rewrite Hf in *. destruct o as [y|]; [discriminate H4|]. split; [reflexivity | right; reflexivity].
    - rewrite G1, G2 in *. split; [|left; reflexivity].
      destruct o as [y|]; [exact H4|]. destruct Hf as [Hf|Hf]; [rewrite <- Hf; exact H4 | rewrite Hf in H4; discriminate H4]. }
  exists st'. split; [exact H1|]. split; [destruct Hs' as (_ & _ & <-); exact H2|]. split; [exact H3|].
  split; [intros E; exact (proj1 (Hnew E))|].
  apply (IH t g1 g2 st' (last_final fin1 evs) (last_final fin2 evs) Hs').
  - destruct Hcase as [[G1 G2]|(x & G1 & G2)]; [rewrite G1, G2; exact Hf | left; congruence].
  - intros E. split; [exact (H4 E) | exact (proj1 (Hnew E))].
  - exact H5.
Qed.

Lemma noise_transfer cfg : forall h t f1 f2, same_but_final f1 f2 -> c03_noise cfg f1 h t -> c03_noise cfg f2 h t.
Proof.
  induction h as [|b h IH]; intros t f1 f2 Hs H; [exact I|]. destruct t as [|[evs r] t]; [exact I|].
  cbn [c03_noise] in *. destruct H as [H1 H2].
  destruct (fc_step_final (c_first cfg) (c_incl cfg) (c_alltrig cfg) f1 f2 b Hs) as [Hs' _]. cbv zeta in Hs'.
  pose proof Hs as (_ & El & Et). pose proof Hs' as (_ & El' & Et').
  split; [|exact (IH t _ _ Hs' H2)].
  intros A B. apply H1; congruence.
Qed.

(* ---------------------------------------------------------------- whole histories *)

Section DiscC03.
  Variable U : list block.
  Variable cfg : config.

  Hypothesis Hnofail : c_fail_at cfg = None.
  Hypothesis Hnew : f_new (c_filter cfg) = true.
  Hypothesis Hundo : f_undo (c_filter cfg) = true.
  Hypothesis Hhold : c_hold cfg = true.
  Hypothesis Hincl : c_incl cfg = false.

  Hypothesis U_id : forall b, In b U -> bid b <> 0 /\ bid b <> bparent b.
  Hypothesis U_uniq : forall x y, In x U -> In y U -> bid x = bid y -> x = y.
  Hypothesis U_up : forall x y, In x U -> In y U -> bparent x = bid y -> bnum y < bnum x.
  Hypothesis D_decl : forall b, In b U -> decl_none U b.

  Notation PreInv := (PreInv U cfg).
  Notation PRecv := DiscEvents.PRecv.

  (* every block fed so far is in the buffer (nothing is dropped or purged before the discovery) *)
  Definition PSeen (s : fstate) (seen : list block) : Prop :=
    forall x, In x seen -> In (bid x) (keys (store (db s))).

  Lemma last_final_disc b a fresh :
    last_final None (disc_events cfg b a fresh) = if f_irr (c_filter cfg) then Some a else None.
  Proof.
    unfold disc_events. rewrite last_final_app.
    rewrite (last_final_quiet (fresh_events _ _ _)).
    2:{ eapply Forall_impl; [|apply fresh_events_step]. cbn beta. auto. }
    destruct (f_irr (c_filter cfg)); [|reflexivity]. rewrite last_final_irr. reflexivity.
  Qed.

  Lemma disc_run_c03 : forall h s seen, PreInv s -> (forall b, In b h -> In b U) ->
    PRecv s seen -> PSeen s seen -> (forall x, In x seen -> In x U) ->
    c03d_run cfg seen h (fk_run cfg s h) (fk_obs cfg s h).
  Proof.
    induction h as [|b h IH]; intros s seen HP Hh HR HS HsU; [exact I|].
    assert (Hb : In b U) by (apply Hh; left; reflexivity).
    assert (Hh' : forall x, In x h -> In x U) by (intros x Hx; apply Hh; right; exact Hx).
    cbn [fk_run fk_obs].
    destruct (disc_step_ev U cfg Hnofail Hnew Hundo Hhold Hincl U_id U_uniq U_up D_decl s b HP Hb)
      as [[(s' & Hstep & HP' & _ & Hkeep & Hin) Hsub]|(Hnk & Hdisc)].
    - (* nothing delivered *)
      rewrite Hstep in Hsub |- *. cbn [fst] in Hsub. cbn [c03d_run o_events o_head]. left.
      split; [reflexivity|]. split; [reflexivity|]. split; [reflexivity|].
      split; [unfold head_info; rewrite (pre_last U cfg s' HP'); reflexivity|].
      apply (IH s' (b :: seen) HP' Hh').
      + exact (precv_step s s' b seen HR Hsub).
      + intros x [<-|Hx]; [exact Hin | apply Hkeep; apply HS; exact Hx].
      + intros x [<-|Hx]; [exact Hb | apply HsU; exact Hx].
    - (* the LIB is discovered *)
      destruct Hdisc as (s' & a & Fin & pre & Hstep & HaU & Hab & Happ & HI' & Hcase & Hl' & Hlls' & Hls' & Hka & Hret & Hsub & _).
      rewrite Hstep. cbn [c03d_run o_events o_head]. right.
      set (evs := disc_events cfg b a (pre ++ [b])) in *. set (S' := rev (pre ++ [b])) in *.
      pose proof (disc_events_apply cfg b a pre Happ) as Happ'. fold evs S' in Happ'. cbn [R ri] in Happ'.
      assert (Htop : hd_error S' = Some b) by (unfold S'; rewrite rev_app_distr; reflexivity).
      assert (Hpath : on_path (bid a) S') by (exact (apply_all_path (bid a) evs [] S' I Happ')).
      assert (Hlf : last_final None evs = if f_irr (c_filter cfg) then Some a else None) by (apply last_final_disc).
      exists a, S'.
      split.
      { destruct Hcase as [(-> & _)|(Hks & Hlt & _)]; [left; reflexivity|]. right. split; [|exact Hlt].
        destruct (HR _ Hks) as (x & Hx & E). replace a with x; [exact Hx|]. apply U_uniq; [apply HsU; exact Hx | exact HaU | exact E]. }
      split; [reflexivity|]. split; [reflexivity|].
      split; [unfold head_info; rewrite Hls'; reflexivity|].
      split; [destruct (disc_events_first cfg b a pre) as (e & rest & He & Hel); exists e, rest; split; [exact He | exact Hel]|].
      split; [exact Happ'|]. split; [exact Htop|]. split; [exact Hpath|]. split; [exact Hlf|].
      cbv zeta.
      (* hand-over to the reference rooted at a, every block fed so far received *)
      set (fc0 := mkFC (b :: seen) (R a) (Some b) (hd_error (rev Fin))).
      assert (HR0 : FcRel U fc0 s' Fin S').
      { constructor; cbn [fc_lib fc_tip fc_final fc_recv fc0].
        - symmetry. exact Hl'.
        - symmetry. exact Hls'.
        - rewrite Hls', Htop. reflexivity.
        - reflexivity.
        - intros x [<-|Hx]; [exact Hb | apply HsU; exact Hx].
        - intros id Hid. apply Hsub in Hid. apply in_app_or in Hid as [Hid|[<-|[]]].
          + destruct (HR id Hid) as (x & Hx & E). cbn [map]. right. rewrite <- E. apply in_map. exact Hx.
          + left. reflexivity.
        - intros x Hx.
          assert (HxU : In x U) by (destruct Hx as [<-|Hx]; [exact Hb | apply HsU; exact Hx]).
          assert (Hxk : In (bid x) (keys (store (db s)) ++ [bid b])).
          { destruct Hx as [<-|Hx]; [apply in_or_app; right; left; reflexivity | apply in_or_app; left; apply HS; exact Hx]. }
          destruct (Hret x HxU Hxk) as [G|G]; [left; exact G|]. right.
          unfold dropped. rewrite Hl', Hls'. cbn [R rn]. rewrite andb_true_r. apply N.ltb_lt. lia. }
      pose proof (disc_ext U U_id s' a Fin HaU Hl' Hlls' Hka) as HX'.
      destruct (run_follows U (R a) cfg Hnofail Hnew Hundo U_id U_uniq U_up
                  (R_id U U_id a HaU) (R_num U U_uniq a HaU) (R_up U U_up a HaU) (R_decl U U_uniq D_decl a HaU)
                  h s' Fin S' fc0 (hd_error (rev Fin)) HI' HX' HR0 Hpath (fun _ => eq_refl) Hh') as (F1 & _ & F3).
      cbn [R ri] in F1.
      assert (Hsame : same_but_final fc0 (mkFC (b :: seen) (bref a) (Some b) (Some a))) by (repeat split).
      split; [|exact (noise_transfer cfg h _ _ _ Hsame F3)].
      apply (follows_transfer cfg (bid a) h _ fc0 _ S' (hd_error (rev Fin)) (last_final None evs) Hsame).
      + cbn [fc_final fc0]. destruct Hcase as [(-> & _ & ->)|(_ & _ & ->)]; [left; reflexivity | right; reflexivity].
      + intros E. split; [reflexivity|]. rewrite Hlf, E. reflexivity.
      + exact F1.
  Qed.

  Theorem discovery_c03 h : (forall b, In b h -> In b U) ->
    c03d_run cfg [] h (fk_run cfg (fs_init LNone) h) (fk_obs cfg (fs_init LNone) h).
  Proof.
    intros Hh. apply disc_run_c03; [apply pre_init | exact Hh | apply precv_init | intros x [] | intros x []].
  Qed.
End DiscC03.

Lemma c03_discovery_proved : c03_discovery_statement.
Proof.
  intros cfg h Hhold Hincl Hnofail Hnew Hundo Hscope.
  assert (Hwf : wf_b h = true) by (unfold disc_scope2_b in Hscope; apply andb_true_iff in Hscope; tauto).
  exact (discovery_c03 h cfg Hnofail Hnew Hundo Hhold Hincl (bridge_id h Hwf) (bridge_uniq h Hwf) (bridge_up h Hwf)
           (bridge2_decl_none h Hscope) h (fun b Hb => Hb)).
Qed.
